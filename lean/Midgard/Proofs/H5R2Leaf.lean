/-
C10 — `FieldType.read` of one leaf field: the array group, or a `same_as` group (the named field is read first unless the
memo knows it; both names are entered in the memo).
-/
import Midgard.Proofs.H5R2

namespace Midgard.H5
open Midgard.Dataset

theorem readLeaf_spec2 (h : Heap) (file : File) (hh : HeapWF h) (fo : FileOK h file) (fa : Nat) (hfa : h.length ≤ fa)
    (C : WMemo) (nm : String) (k : Kind) (o no : Nat) (u : Option (List String)) (l : Nat) (pre : Path) (g : Grp) (s : RSt)
    (ρ : Rho) (depth : Nat) (T : List Path) (inv : RInv h file ρ s)
    (hl : lookupGrp file.groups (pre ++ [nm]) = some g)
    (hrep : RepG (KFile C file) (.leaf nm k o no u l) pre g) (hok : fieldsOK h file.numObs [.leaf nm k o no u l] = true)
    (hfr : Fr h file ρ s ((pre ++ [nm]) :: T)) (hnin : pre ++ [nm] ∉ T)
    (hal : ∀ name, g.attrs.sameAs = some name → name ∈ T) :
    ∃ s' ρ', readField file fa (depth + 1) (some k) g s = .ok (renameField (phi ρ') (.leaf nm k o no u l), s') ∧
      RPost h file [.leaf nm k o no u l] ρ s' ρ' ∧ Fr h file ρ' s' T := by
  obtain ⟨ho, hno, hu⟩ := fieldsOK_leaf hok
  simp only [RepG] at hrep
  obtain ⟨hsrc, hfn, hun, hlv, hcase⟩ := hrep
  have hob : h[o]? = some h[o] := List.getElem?_eq_getElem ho
  have hlen : ∀ (s' : RSt) (ρ' : Rho) (n : Nat), RInv h file ρ' s' → ρ'.lookup o = some n → objLen s'.heap n = no := by
    intro s' ρ' n inv' hn
    obtain ⟨ob, r', h1, h2, _⟩ := inv'.img o n hn
    rw [hob] at h1
    cases h1
    simp only [objLen, h2, withRef_rows]
    rw [hno]; simp [objLen, hob]
  have hsubT : ∀ P ∈ T, P ∈ (pre ++ [nm]) :: T := fun P hP => List.mem_cons_of_mem _ hP
  -- a plain or registering object that the memo does not know under the path of its array group has not been read
  have hunread : ∀ (P : Path) (gt : Grp), lookupGrp file.groups P = some gt → gt.isArr = true → gt.src = o →
      P ∈ (pre ++ [nm]) :: T → s.memo.lookup P = none → ρ.lookup o = none := by
    intro P gt hlt hat hst hP hmiss
    cases hol : ρ.lookup o with
    | none => rfl
    | some m =>
      by_cases hr : Registers h o
      · have := inv.reg o m hol hr P gt hlt hat hst
        rw [hmiss] at this
        cases this
      · exact absurd hmiss (hfr o hr (by rw [hol]; simp) P gt hlt hat hst hP)
  cases g with
  | mk a p subs =>
    simp only [Grp.attrs_mk] at hfn hun hlv hcase hal
    simp only [Grp.src_mk] at hsrc
    rcases hcase with ⟨ha, hsa⟩ | ⟨name, ha, hsa, hne, hC, gt, hlt, hat, hst⟩
    · -- the array group
      have hra : ∀ s : RSt, resolveAlias file fa a s = .ok s := fun s => by simp only [resolveAlias, hsa]
      cases hml : s.memo.lookup (pre ++ [nm]) with
      | some n =>
        obtain ⟨g'', h1, h3⟩ := inv.memo _ n hml
        rw [hl] at h1
        cases h1
        simp only [Grp.src_mk, hsrc] at h3
        refine ⟨s, ρ, ?_, ⟨inv, Ext.refl ρ, ?_, fun z hz => Or.inl hz⟩, hfr.sub (MemoMono.refl s) hsubT⟩
        · simp only [readField, hra, hfn, hml, renameField, phi_of_lookup h3, hlen s ρ n inv h3, hun, readUnit_ok u hu, hlv,
            lastName_snoc]
        · intro x hx
          simp only [leafObjs, List.mem_singleton] at hx
          rw [hx, h3]; simp
      | none =>
        have hon : ρ.lookup o = none := hunread _ _ hl ha (by simpa using hsrc) (by simp) hml
        obtain ⟨n, s', ρ', hrd, inv', hext, hlk, hnew⟩ := readArr_spec h file hh fo fa (pre ++ [nm]) _ s ρ inv hl ha
          (by simp only [Grp.src_mk, hsrc]; omega) (by simp only [Grp.src_mk, hsrc]; exact hon)
        simp only [Grp.src_mk, hsrc] at hlk hnew
        have hmm := readArr_memo_mono file fa _ s n s' hrd
        refine ⟨s', ρ', ?_, ⟨inv', hext, ?_, ?_⟩, ?_⟩
        · simp only [readField, hra, hfn, hml, hrd, renameField, phi_of_lookup hlk, hlen s' ρ' n inv' hlk, hun, readUnit_ok u hu,
            hlv, lastName_snoc]
        · intro x hx
          simp only [leafObjs, List.mem_singleton] at hx
          rw [hx, hlk]; simp
        · intro z hz
          rcases hnew z hz with h0 | h0 | h0
          · exact Or.inl h0
          · exact Or.inr (Or.inl (by simp [leafObjs, h0]))
          · exact Or.inr (Or.inr h0.2)
        · intro x hr hx P gt hlt hat hst hP
          rcases hnew x hx with h0 | h0 | h0
          · exact hmm P (hfr x hr h0 P gt hlt hat hst (hsubT P hP))
          · exfalso
            have : P = pre ++ [nm] := fo.uniq P gt _ _ hlt hl hat ha (by rw [hst, h0]; simpa using hsrc.symm)
            exact hnin (this ▸ hP)
          · exact absurd h0.2 hr
    · -- a `same_as` group
      have hnT : name ∈ T := hal name hsa
      obtain ⟨at0, ob0, subs0, rfl, _, hfn0, _⟩ := fo.node name gt hlt hat
      simp only [Grp.src_mk] at hst
      cases hmn : s.memo.lookup name with
      | some n =>
        obtain ⟨g'', h1, h3⟩ := inv.memo _ n hmn
        rw [hlt] at h1
        cases h1
        simp only [Grp.src_mk, hst] at h3
        have hra : resolveAlias file fa a s = .ok (s.set a.fieldname n) := by simp only [resolveAlias, hsa, hmn]
        have hself : (s.set a.fieldname n).memo.lookup a.fieldname = some n := set_lookup_self _ _ _
        have inv1 : RInv h file ρ (s.set (pre ++ [nm]) n) := inv.set hl (by simpa [hsrc] using h3)
        refine ⟨s.set (pre ++ [nm]) n, ρ, ?_, ⟨inv1, Ext.refl ρ, ?_, fun z hz => Or.inl hz⟩,
          hfr.sub (MemoMono.set _ _ _) hsubT⟩
        · simp only [readField, hra, hself]
          simp only [hfn, renameField, phi_of_lookup h3, hlen _ ρ n inv1 h3, hun, readUnit_ok u hu, hlv, lastName_snoc]
        · intro x hx
          simp only [leafObjs, List.mem_singleton] at hx
          rw [hx, h3]; simp
      | none =>
        have hon : ρ.lookup o = none := hunread name _ hlt hat (by simpa using hst) (List.mem_cons_of_mem _ hnT) hmn
        obtain ⟨n, s1, ρ1, hrd, inv1, hext, hlk, hnew⟩ := readArr_spec h file hh fo fa name _ s ρ inv hlt hat
          (by simp only [Grp.src_mk, hst]; omega) (by simp only [Grp.src_mk, hst]; exact hon)
        simp only [Grp.src_mk, hst] at hlk hnew
        have hmm := readArr_memo_mono file fa _ s n s1 hrd
        have hfr0 : fieldRead file fa (Grp.mk at0 (some ob0.strip) subs0) s = .ok (n, s1) := by
          simp only [fieldRead, Grp.attrs_mk, hfn0, hmn, hrd]
        have hra : resolveAlias file fa a s = .ok ((s1.set name n).set a.fieldname n) := by
          simp only [resolveAlias, hsa, hmn, hlt, hfr0]
        have hself : ((s1.set name n).set a.fieldname n).memo.lookup a.fieldname = some n := set_lookup_self _ _ _
        have inv2 : RInv h file ρ1 ((s1.set name n).set (pre ++ [nm]) n) :=
          (inv1.set hlt (by simpa [hst] using hlk)).set hl (by simpa [hsrc] using hlk)
        have hmm2 : MemoMono s ((s1.set name n).set (pre ++ [nm]) n) :=
          hmm.trans ((MemoMono.set _ _ _).trans (MemoMono.set _ _ _))
        refine ⟨(s1.set name n).set (pre ++ [nm]) n, ρ1, ?_, ⟨inv2, hext, ?_, ?_⟩, ?_⟩
        · simp only [readField, hra, hself]
          simp only [hfn, renameField, phi_of_lookup hlk, hlen _ ρ1 n inv2 hlk, hun, readUnit_ok u hu, hlv, lastName_snoc]
        · intro x hx
          simp only [leafObjs, List.mem_singleton] at hx
          rw [hx, hlk]; simp
        · intro z hz
          rcases hnew z hz with h0 | h0 | h0
          · exact Or.inl h0
          · exact Or.inr (Or.inl (by simp [leafObjs, h0]))
          · exact Or.inr (Or.inr h0.2)
        · intro x hr hx P gt' hlt' hat' hst' hP
          rcases hnew x hx with h0 | h0 | h0
          · exact hmm2 P (hfr x hr h0 P gt' hlt' hat' hst' (hsubT P hP))
          · have hPn : P = name := fo.uniq P gt' _ _ hlt' hlt hat' hat (by rw [hst', h0]; simpa using hst.symm)
            rw [hPn]
            exact MemoMono.set _ _ _ name (by rw [set_lookup_self]; simp)
          · exact absurd h0.2 hr

end Midgard.H5
