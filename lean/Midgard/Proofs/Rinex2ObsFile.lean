/-
C11, RINEX 2, part 14: the header group through `readData_group`, the rows the Spec computes (`rowsOf_eq`), and the whole file
given what the header leaves in the parser state (`file2_of_facts`, `file2_of_hdrOk`).  Core Lean only.
-/
import Midgard.Proofs.Rinex2ObsHeaderLines

namespace Midgard.Spec.Rinex2ObsFile
open Midgard.Text Midgard.FixedCol Midgard.Decimal Midgard.ChainParser Midgard.RinexObs Midgard.Rinex2Obs
open Midgard.Spec.Rinex (RecSpec headerSpecs renderLabelled findKind)
open Midgard.RinexObs.Records (specOk specs_ok)
open Midgard.Spec.Rinex3ObsFile (Style styled rstrip_styled spec rec spec_eq findKind_mem slice_label runFx_map nodup_of)

/-! ### the header group -/

def pairFx2 (kc : String × List Str) : State → Except Err State :=
  fun s => handle (handlerOf kc.1) (valuesOf kc.1 kc.2) s

theorem runFx_map2 {β} (f : β → State → Except Err State) : ∀ (l : List β) (s : State),
    runFx (l.map f) s = l.foldlM (fun s x => f x s) s := by
  intro l
  induction l with
  | nil => intro s; rfl
  | cons a l ih =>
    intro s
    simp only [List.map_cons, runFx, List.foldlM_cons, bind, Except.bind]
    cases f a s with
    | error e => rfl
    | ok s' => exact ih s'

theorem headerState_eq2 (rate : Option Rat) (hdr : List (String × List Str)) :
    headerState rate hdr = runFx (hdr.map pairFx2) { rate := rate } := by
  rw [runFx_map2]; rfl

/-- what the well-formedness test says about a header record -/
def PairOk (kc : String × List Str) : Prop :=
  kinds.any (·.1 == kc.1) = true ∧ okCells kc.1 kc.2 = true ∧ typeCellsOk kc = true

theorem valuesOf_plain (k : String) (cells : List Str) (h : k ≠ "TYPES2C") : valuesOf k cells = (names k).zip cells := by
  simp [valuesOf, h]

theorem pair_line2 (kc : String × List Str) (h : PairOk kc) (st : Style) (n : Nat) (s : State) :
    parseLine headerParser (rstrip (styled st (rec kc.1 kc.2))) n s = pairFx2 kc s := by
  rw [rstrip_styled]
  obtain ⟨k, cells⟩ := kc
  obtain ⟨hk, hok, htc⟩ := h
  simp only at hk hok htc ⊢
  unfold pairFx2
  by_cases h1 : k = "VER2"
  · subst h1; rw [valuesOf_plain "VER2" cells (by simp)]; exact ver2_parsed cells hok n s
  by_cases h2 : k = "TYPES2"
  · subst h2
    simp only [typeCellsOk, if_true, List.all_eq_true, Bool.or_eq_true, beq_iff_eq] at htc
    exact types2_parsed cells hok (fun t ht => htc t ht) n s
  by_cases h3 : k = "TYPES2C"
  · subst h3
    simp only [typeCellsOk, String.reduceEq, if_false, if_true, List.all_eq_true, Bool.or_eq_true, beq_iff_eq] at htc
    exact types2c_parsed cells hok (fun t ht => htc t ht) n s
  · obtain ⟨x, hx, hxk⟩ := List.any_eq_true.mp hk
    simp only [beq_iff_eq] at hxk
    have hmem : (k, x.2) ∈ lineKinds2 := by
      have : x ∈ lineKinds2 := by
        unfold lineKinds2
        rw [List.mem_filter]
        exact ⟨hx, by simp [hxk, h1, h2, h3]⟩
      rw [← hxk]; exact this
    rw [valuesOf_plain _ _ h3]
    exact rec_parsed2 k x.2 hmem cells hok n s

def kindOk2 (kh : String × String) : Bool :=
  match findKind kh.1 with
  | some sp => sp.label.toList.take 13 != "END OF HEADER".toList
  | none => false

theorem kinds_table : kinds.all kindOk2 = true := by decide +kernel

theorem pair_not_end2 (kc : String × List Str) (h : PairOk kc) (st : Style) (n : Nat) (nx : Str) :
    headerParser.endMarker (rstrip (styled st (rec kc.1 kc.2))) n nx = false := by
  rw [rstrip_styled]
  obtain ⟨hk, hok, _⟩ := h
  obtain ⟨x, hx, hxk⟩ := List.any_eq_true.mp hk
  simp only [beq_iff_eq] at hxk
  have ht := List.all_eq_true.mp kinds_table x hx
  unfold kindOk2 at ht
  rw [hxk] at ht
  simp only [okCells, Bool.and_eq_true, decide_eq_true_eq] at hok
  cases hf : findKind kc.1 with
  | none => simp [hf] at ht
  | some sp =>
    simp only [hf, bne_iff_ne] at ht
    have hs := spec_eq hf
    have hfit := hok.1.2
    unfold rec
    rw [hs] at hfit ⊢
    show decide (Text.slice 60 73 (rstrip (renderLabelled sp kc.2)) = "END OF HEADER".toList) = false
    rw [show (73 : Nat) = 60 + 13 from rfl, slice_label sp (findKind_mem hf) kc.2 hfit 13]
    exact decide_eq_false ht

theorem eoh_parsed2 (n : Nat) (s : State) : parseLine headerParser (rstrip (rec "EOH" [])) n s = .ok s := by
  unfold parseLine
  have h1 : headerParser.skipLine (rstrip (rec "EOH" [])) = false := rfl
  have h2 : headerParser.label (rstrip (rstrip (rec "EOH" []))) n = "END OF HEADER" := by
    show asString (strip (sliceFrom 60 (rstrip (rstrip (rec "EOH" []))))) = "END OF HEADER"
    decide +kernel
  have h3 : headerParser.defs.find? (·.label == "END OF HEADER") = none := by decide +kernel
  rw [h1, h2, h3]
  rfl

theorem eoh_end2 (n : Nat) (nx : Str) : headerParser.endMarker (rstrip (rec "EOH" [])) n nx = true := by
  show decide (Text.slice 60 73 (rstrip (rec "EOH" [])) = "END OF HEADER".toList) = true
  decide +kernel


/-! ### the rows the Spec computes -/

theorem mapM_ok {α β} (f : α → Except Err β) (g : α → β) : ∀ (l : List α), (∀ a ∈ l, f a = .ok (g a)) → l.mapM f = .ok (l.map g) := by
  intro l
  induction l with
  | nil => intro _; rfl
  | cons a l ih =>
    intro h
    rw [List.mapM_cons, h a (by simp), ih (fun b hb => h b (by simp [hb]))]
    rfl

theorem epochRows_eq (H : State) (rate : Option Rat) (t : Str) (hfirst : H.metaD.get [key "time_first_obs"] = some (.text t))
    (e : Epoch) (y : Int) (hye : pyInt (t.take 2 ++ zfill 2 e.yy.text) = .ok y) (hs : ∀ r ∈ e.sats, SatOk r.sat) :
    epochRows H e = .ok (e.sats.map (rowOfSat (info2 rate y e))) := by
  have hfy : fullYear H e = .ok y := by simp [fullYear, hfirst, hye]
  unfold epochRows
  simp only [hfy, bind, Except.bind]
  apply mapM_ok
  intro r hr
  simp only [satRow, pyInt_norm (hs r hr), bind, Except.bind, pure, Except.pure]
  rfl

theorem rowsOf_fold (H : State) (rate : Option Rat) (t : Str) (hfirst : H.metaD.get [key "time_first_obs"] = some (.text t)) :
    ∀ (eps : List Epoch), (∀ e ∈ eps, ∃ y, pyInt (t.take 2 ++ zfill 2 e.yy.text) = .ok y) →
    (∀ e ∈ eps, ∀ r ∈ e.sats, SatOk r.sat) → ∀ (acc : List Row),
    (eps.filter (kept rate)).foldlM (fun acc e => do
        let rs ← epochRows H e
        pure (acc ++ rs)) acc = .ok (acc ++ rowsOf2 rate t eps) := by
  intro eps
  induction eps with
  | nil => intro _ _ acc; simp [rowsOf2, pure, Except.pure]
  | cons e eps ih =>
    intro hy hs acc
    have ih' := ih (fun e' he' => hy e' (by simp [he'])) (fun e' he' => hs e' (by simp [he']))
    have hrows : rowsOf2 rate t (e :: eps) =
        (if kept rate e then e.sats.map (rowOfSat (info2 rate (yearOf t e) e)) else []) ++ rowsOf2 rate t eps := by
      simp [rowsOf2, List.flatMap_cons]
    rw [hrows]
    by_cases hk : kept rate e = true
    · obtain ⟨y, hye⟩ := hy e (by simp)
      have hyo : yearOf t e = y := by simp [yearOf, hye]
      have her := epochRows_eq H rate t hfirst e y hye (hs e (by simp))
      simp only [List.filter_cons, hk, if_true, List.foldlM_cons, her, bind, Except.bind, pure, Except.pure, hyo]
      have := ih' (acc ++ e.sats.map (rowOfSat (info2 rate y e)))
      simp only [bind, Except.bind, pure, Except.pure] at this
      rw [this, List.append_assoc]
    · have hk' : kept rate e = false := by simpa using hk
      simp only [List.filter_cons, hk', Bool.false_eq_true, if_false, List.nil_append]
      exact ih' acc

theorem rowsOf_eq (H : State) (rate : Option Rat) (t : Str) (hfirst : H.metaD.get [key "time_first_obs"] = some (.text t)) (F : File)
    (hy : ∀ e ∈ F.epochs, ∃ y, pyInt (t.take 2 ++ zfill 2 e.yy.text) = .ok y) (hs : ∀ e ∈ F.epochs, ∀ r ∈ e.sats, SatOk r.sat) :
    rowsOf H rate F = .ok (rowsOf2 rate t F.epochs) := by
  have := rowsOf_fold H rate t hfirst F.epochs hy hs []
  simpa [rowsOf] using this


/-! ### the file -/

def hdrG2 (st : Style) (hdr : List (String × List Str)) : List (Str × (State → Except Err State)) :=
  hdr.map fun (kc : String × List Str) => (styled st (rec kc.1 kc.2), pairFx2 kc)

def lastG2 (st : Style) : Str × (State → Except Err State) := (styled st (rec "EOH" []), fun s => Except.ok s)

theorem fileLines_eq2 (F : File) :
    fileLines F = (hdrG2 F.style F.hdr ++ [lastG2 F.style]).map (·.1) ++ (F.epochs.flatMap blockLinesR).map (styled F.style) := by
  have hb : F.epochs.flatMap blockLines = F.epochs.flatMap blockLinesR :=
    Midgard.Spec.Rinex3ObsFile.flatMap_congr' (fun e _ => blockLines_eq e)
  simp [fileLines, rawLines, hdrG2, lastG2, hb, List.map_append, List.map_map, Function.comp_def]

/-- what the data section relies on at `END OF HEADER` -/
structure Facts2 (rate : Option Rat) (F : File) (H : State) (m t : Str) : Prop where
  hf : HF (types F.hdr) m t H
  hrate : H.rate = rate
  hyears : ∀ e ∈ F.epochs, ∃ y, pyInt (t.take 2 ++ zfill 2 e.yy.text) = .ok y
  hdata : H.data = dataOf2 (types F.hdr) (lower m) [] H.data

theorem facts_of_ok (rate : Option Rat) (F : File) (h : hdrOk2 rate F = true) (H : State) (hH : headerState rate F.hdr = .ok H) :
    ∃ m t, Facts2 rate F H m t := by
  unfold hdrOk2 at h
  rw [hH] at h
  simp only [Bool.and_eq_true, beq_iff_eq] at h
  obtain ⟨⟨⟨⟨⟨h1, h2⟩, h3⟩, h4⟩, h5⟩, h6⟩ := h
  cases hm : H.metaD.get [key "marker_name"] with
  | none => rw [hm] at h4; simp at h4
  | some lm =>
    cases lm with
    | text m =>
      cases hf : H.metaD.get [key "time_first_obs"] with
      | none => rw [hf] at h5; simp at h5
      | some lf =>
        cases lf with
        | text t =>
          rw [hf] at h5
          refine ⟨m, t, ⟨h2, h3, hm, hf⟩, h1, ?_, ?_⟩
          · intro e he
            have := List.all_eq_true.mp h5 e he
            cases hp : pyInt (t.take 2 ++ zfill 2 e.yy.text) with
            | ok y => exact ⟨y, rfl⟩
            | error err => rw [hp] at this; simp at this
          · exact h6
        | _ => rw [hf] at h5; simp at h5
    | _ => rw [hm] at h4; simp at h4

theorem epochWf_of_wf (F : File) (hwf : F.wf = true) : (types F.hdr).Nodup ∧ (∀ kc ∈ F.hdr, PairOk kc) ∧
    ∀ e ∈ F.epochs, EpochWf (types F.hdr) e := by
  simp only [File.wf, Bool.and_eq_true, Bool.not_eq_eq_eq_not, Bool.not_true] at hwf
  obtain ⟨⟨⟨⟨⟨⟨⟨⟨⟨hsty, htc⟩, hhdr⟩, hne⟩, hnd⟩, _⟩, _⟩, heps⟩, _⟩, _⟩ := hwf
  refine ⟨nodup_of hnd, ?_, ?_⟩
  · intro kc hkc
    have := List.all_eq_true.mp hhdr kc hkc
    simp only [Bool.and_eq_true] at this
    exact ⟨this.1, this.2, List.all_eq_true.mp htc kc hkc⟩
  · intro e he
    have hew := List.all_eq_true.mp heps e he
    have hok := epochOk_of_wf _ e hew
    have hpos : 0 < (types F.hdr).length := by
      cases ht : types F.hdr with
      | nil => rw [ht] at hne; simp at hne
      | cons a l => simp
    refine ⟨hok, ?_, ?_⟩
    · intro r hr
      simp only [Epoch.wf, Bool.and_eq_true] at hew
      have hrw := List.all_eq_true.mp hew.2 r hr
      simp only [SatRec.wf, Bool.and_eq_true, decide_eq_true_eq] at hrw
      refine ⟨hok.ids r.sat (List.mem_map.mpr ⟨r, hr, rfl⟩), hrw.1.1.2, ?_, hrw.1.2, hrw.2⟩
      intro e0
      have := hrw.1.1.2
      rw [e0] at this
      simp at this; omega
    · simp only [sysStyleOk, Bool.or_eq_true] at hsty
      rcases hsty with h | h
      · left
        intro s hs
        obtain ⟨r, hr, rfl⟩ := List.mem_map.mp hs
        exact List.all_eq_true.mp (List.all_eq_true.mp h e he) r hr
      · right
        intro s hs
        obtain ⟨r, hr, rfl⟩ := List.mem_map.mp hs
        simpa using List.all_eq_true.mp (List.all_eq_true.mp h e he) r hr

/-- **the RINEX 2 file**, given what the header leaves in the parser state -/
theorem file2_of_facts (rate : Option Rat) (F : File) (hwf : F.wf = true)
    (hfacts : ∀ H, headerState rate F.hdr = .ok H → ∃ m t, Facts2 rate F H m t) :
    readData headerParser obsParser resetCache (fileLines F) true 0 { rate := rate } = expected rate F := by
  obtain ⟨hnd, hpairs, heps⟩ := epochWf_of_wf F hwf
  rw [fileLines_eq2]
  rw [readData_group headerParser obsParser resetCache true (hdrG2 F.style F.hdr) (lastG2 F.style)
    ((F.epochs.flatMap blockLinesR).map (styled F.style))]
  · have hfx : (hdrG2 F.style F.hdr ++ [lastG2 F.style]).map (·.2) = F.hdr.map pairFx2 ++ [fun s => Except.ok s] := by
      simp [hdrG2, lastG2, List.map_map, Function.comp_def]
    rw [hfx, runFx_append, ← headerState_eq2]
    unfold expected
    cases hhs : headerState rate F.hdr with
    | error e => rfl
    | ok H =>
      simp only [runFx, pure, Except.pure]
      obtain ⟨m, t, hf⟩ := hfacts H hhs
      have hreset : resetCache H = mk2 H (dataOf2 (types F.hdr) (lower m) [] H.data) {} := by
        rw [← hf.hdata]; rfl
      rw [hreset, blocks_run2 F.style (types F.hdr) hnd m t H hf.hf F.epochs [] heps hf.hyears]
      rw [rowsOf_eq H rate t hf.hf.hfirst F hf.hyears (fun e he r hr => ((heps e he).sats r hr).1)]
      simp only [List.nil_append, hf.hf.hmark]
      have hr := hf.hrate
      subst hr
      rfl
  · intro x hx n s
    simp only [hdrG2, lastG2, if_true, List.mem_append, List.mem_map, List.mem_cons, List.not_mem_nil, or_false] at hx ⊢
    rcases hx with ⟨kc, hkc, rfl⟩ | rfl
    · exact pair_line2 kc (hpairs kc hkc) F.style n s
    · simp only [rstrip_styled]
      exact eoh_parsed2 n s
  · intro x hx n nx
    simp only [hdrG2, if_true, List.mem_map] at hx ⊢
    obtain ⟨kc, hkc, rfl⟩ := hx
    exact pair_not_end2 kc (hpairs kc hkc) F.style n nx
  · intro n nx
    simp only [lastG2, if_true, rstrip_styled]
    exact eoh_end2 n nx

/-- the RINEX 2 file-level round trip, with the header's handlers *evaluated* on the header's values (`hdrOk2`) -/
theorem file2_of_hdrOk (rate : Option Rat) (F : File) (hwf : F.wf = true) (hh : hdrOk2 rate F = true) :
    readData headerParser obsParser resetCache (fileLines F) true 0 { rate := rate } = expected rate F :=
  file2_of_facts rate F hwf (fun H hH => facts_of_ok rate F hh H hH)

end Midgard.Spec.Rinex2ObsFile
