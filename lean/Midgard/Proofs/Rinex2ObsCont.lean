/-
C11, RINEX 2, part 9: continuation records of the satellite list (`contLine_struct`, `cont_label`, `cont_line_fx`).
Core Lean only.
-/
import Midgard.Proofs.Rinex2ObsEpochFx

namespace Midgard.Spec.Rinex2ObsFile
open Midgard.Text Midgard.FixedCol Midgard.Decimal Midgard.ChainParser Midgard.RinexObs Midgard.Rinex2Obs
open Midgard.Spec.Rinex (renderCells epoch2c rep)
open Midgard.Spec.Rinex3ObsFile (Style styled rstrip_styled stripChars_none mem_rstrip)

/-! ### continuation records of the satellite list -/

def contLine (c : List Str) : Str := renderCells epoch2c c

theorem renderFrom_nil_cells (pos : Nat) (L : Layout) : renderFrom pos L [] = [] := by
  cases L <;> rfl

theorem satFields_split (nm : Nat → String) (n m : Nat) : satFields nm 0 (n + m) = satFields nm 0 n ++ satFields nm n m := by
  simp only [satFields]
  rw [← List.map_append]
  congr 1
  have := List.range'_append (s := 0) (m := n) (n := m) (step := 1)
  simpa using this.symm

theorem contLine_struct (c : List Str) (hne : c ≠ []) (hl : c.length ≤ 12) (h3 : ∀ s ∈ c, s.length = 3) :
    contLine c = blanks 32 ++ c.flatten := by
  obtain ⟨nm, hrep⟩ := rep_sat
  have hzip : epoch2c.aligns.zip c = c.map fun s => (Align.left, s) := by
    have : epoch2c.aligns = List.replicate c.length Align.left ++ List.replicate (12 - c.length) Align.left := by
      rw [List.replicate_append_replicate]
      show List.replicate 12 Align.left = _
      congr 1; omega
    rw [this]
    have hz := zip_replicate Align.left c
    have : (List.replicate c.length Align.left ++ List.replicate (12 - c.length) Align.left).zip c =
        (List.replicate c.length Align.left).zip c := by
      rw [show c = c ++ [] by simp, List.zip_append (by simp)]
      simp
    rw [this, hz]
  unfold contLine renderCells renderA
  have hlay : epoch2c.layout = satFields nm 0 c.length ++ satFields nm c.length (12 - c.length) := by
    show rep "sat" 12 32 3 0 = _
    rw [hrep, ← satFields_split]; congr 1; omega
  rw [hlay, hzip]
  have := renderFrom_append (satFields nm 0 c.length) (c.map fun s => (Align.left, s)) 0 (satFields nm c.length (12 - c.length)) []
    (by simp [satFields])
  rw [List.append_nil] at this
  rw [this, renderFrom_nil_cells, List.append_nil]
  -- from column 0: 32 blanks, then the satellites
  cases c with
  | nil => exact absurd rfl hne
  | cons s0 cs =>
    have h32 := render_sats nm (s0 :: cs) 0 (fun s hs => by rw [h3 s hs]; exact Nat.le_refl 3)
    rw [map_ljust3 _ h3] at h32
    simp only [List.length_cons, satFields, List.range'_succ, List.map_cons, renderFrom, Field.width, pad] at h32 ⊢
    rw [← h32]
    simp [blanks]


/-- the state after a continuation record -/
def afterCont (s : State) (all : List Str) : State :=
  { s with cache := { s.cache with satList := some all, lenSatList := some all.length } }

theorem cont_handler (ry rmo rd rh rmi rs rf rn rsl rc : Str) (s : State) (old more : List Str)
    (hy : strip ry = []) (hne : rsl ≠ []) (hsl : satsOf rsl = .ok more) (hmore : more ≠ [])
    (hal : ((Text.slice 28 29 rsl).head?.map Char.isAlpha).getD false = false) (hold : s.cache.satList = some old) :
    parseObservationEpoch [("year", ry), ("month", rmo), ("day", rd), ("hour", rh), ("minute", rmi), ("second", rs),
        ("epoch_flag", rf), ("num_sat", rn), ("sat_list", rsl), ("rcv_clk_offset", rc)] s = .ok (afterCont s (old ++ more)) := by
  have he : rsl.isEmpty = false := by cases rsl <;> simp_all
  unfold parseObservationEpoch
  simp only [getv, Values.get, List.find?, String.reduceBEq, Option.map_some, req, bind, Except.bind, pure, Except.pure, hy, he,
    Bool.and_false, Bool.false_eq_true, if_false, hal, ne_eq, not_true_eq_false, hsl, hmore, hold]
  rfl

theorem satOk_flatten_len (c : List Str) (h : ∀ s ∈ c, SatOk s) : c.flatten.length = 3 * c.length := by
  induction c with
  | nil => rfl
  | cons s c ih => simp [satOk_len (h s (by simp)), ih (fun s' hs' => h s' (by simp [hs']))]; omega

theorem cont_get (c : List Str) (h : ∀ s ∈ c, SatOk s) (k i : Nat) (hi : i < 3) :
    (blanks 32 ++ c.flatten)[32 + (3 * k + i)]? = (c[k]?).bind (·[i]?) := by
  rw [List.getElem?_append_right (by simp [blanks])]
  have : 32 + (3 * k + i) - (blanks 32).length = 3 * k + i := by simp [blanks]
  rw [this]
  exact flatten_get_blockW 3 c (fun b hb => satOk_len (h b hb)) k i hi

/-- the satellites of the file all carry a system letter, or none does -/
def SysStyle (c : List Str) : Prop := (∀ s ∈ c, (s.head?.map Char.isAlpha).getD false = true) ∨ (∀ s ∈ c, s.head? = some ' ')

/-- **a continuation record of the satellite list is no observation line**: a system letter in column 33, or (blank
system identifiers) a digit in column 35 followed by a blank or the end of the line -/
theorem cont_label (c : List Str) (hne : c ≠ []) (h : ∀ s ∈ c, SatOk s) (hs : SysStyle c) :
    obsLabel (blanks 32 ++ c.flatten) = "False" := by
  cases c with
  | nil => exact absurd rfl hne
  | cons s0 cs =>
    obtain ⟨a, b, d, e0, ha, hb, hd⟩ := h s0 (by simp)
    subst e0
    have g0 : (blanks 32 ++ ([a, b, d] :: cs).flatten)[32]? = some a := by
      have := cont_get ([a, b, d] :: cs) h 0 0 (by omega); simpa using this
    have g2 : (blanks 32 ++ ([a, b, d] :: cs).flatten)[34]? = some d := by
      have := cont_get ([a, b, d] :: cs) h 0 2 (by omega); simpa using this
    have g3 : (blanks 32 ++ ([a, b, d] :: cs).flatten)[35]? = (cs[0]?).bind (·[0]?) := by
      have := cont_get ([a, b, d] :: cs) h 1 0 (by omega); simpa using this
    generalize hL : blanks 32 ++ ([a, b, d] :: cs).flatten = L at g0 g2 g3 ⊢
    rcases hs with hs | hs
    · have : a.isAlpha = true := by
        have := hs [a, b, d] (by simp); simpa using this
      have h32 : alphaAt L 32 = true := by
        unfold alphaAt; rw [charAt_get, g0]; simpa using this
      unfold obsLabel
      simp only [h32, Bool.not_true, Bool.and_false, Bool.false_and, Bool.false_eq_true, if_false]
    · have h34 : digitAt L 34 = true := by
        unfold digitAt; rw [charAt_get, g2]; simpa using hd
      have h35 : blankOrEndAt L 35 = true := by
        unfold blankOrEndAt
        rw [slice_one, g3]
        cases cs with
        | nil => rfl
        | cons s1 cs' =>
          have h1 := hs s1 (by simp)
          obtain ⟨a1, b1, d1, e1, _⟩ := h s1 (by simp)
          subst e1
          simp only [List.head?_cons, Option.some.injEq] at h1
          subst h1
          rfl
      unfold obsLabel
      simp only [h34, h35, Bool.and_self, Bool.not_true, Bool.and_false, Bool.false_and, Bool.false_eq_true, if_false]


theorem rstrip_of_last_visible (F : Str) (x : Char) (h : F.getLast? = some x) (hx : isSpace x = false) : rstrip F = F := by
  have hne : F ≠ [] := by intro e; rw [e] at h; simp at h
  have hx' : F.getLast hne = x := by
    have := List.getLast?_eq_some_getLast hne
    rw [h] at this; exact (Option.some.inj this).symm
  have := List.dropLast_concat_getLast hne
  rw [← this, hx']
  simp [rstrip, hx]

/-- **a continuation record of the satellite list** appends its satellites to the epoch's list -/
theorem cont_line_fx (st : Style) (c : List Str) (hne : c ≠ []) (hl : c.length ≤ 12) (h : ∀ s ∈ c, SatOk s) (hs : SysStyle c)
    (n : Nat) (s : State) (old : List Str) (hold : s.cache.satList = some old) :
    parseLine obsParser (rstrip (styled st (contLine c))) n s = .ok (afterCont s (old ++ c.map normSat)) := by
  rw [rstrip_styled, contLine_struct c hne hl (fun s hs => satOk_len (h s hs))]
  have hFne : c.flatten ≠ [] := by
    cases c with
    | nil => exact absurd rfl hne
    | cons s0 cs => obtain ⟨a, b, d, e0, _⟩ := h s0 (by simp); simp [e0]
  have hvis := flatten_last_visible c h
  obtain ⟨x, hx⟩ : ∃ x, c.flatten.getLast? = some x := by
    cases hg : c.flatten.getLast? with
    | none => rw [List.getLast?_eq_none_iff] at hg; exact absurd hg hFne
    | some x => exact ⟨x, rfl⟩
  have hrF : rstrip c.flatten = c.flatten := rstrip_of_last_visible _ x hx (hvis x hx)
  have hrs : rstrip (blanks 32 ++ c.flatten) = blanks 32 ++ c.flatten := by
    rw [rstrip_append_visible _ _ (by rw [hrF]; exact hFne), hrF]
  rw [hrs]
  have hlen := satOk_flatten_len c h
  have hlab := cont_label c hne h hs
  have hnl : ∀ y ∈ blanks 32 ++ c.flatten, ['\n'].contains y = false := by
    intro y hy
    rcases List.mem_append.mp hy with hy | hy
    · have : y = ' ' := (List.mem_replicate.mp hy).2
      subst this; decide
    · obtain ⟨s0, hs0, hy0⟩ := List.mem_flatten.mp hy
      have := satOk_chars (h s0 hs0) y hy0
      simp [this]
  have hyear : strip (Text.slice 0 3 (blanks 32 ++ c.flatten)) = [] := by
    rw [slice_append_left (by simp [blanks])]
    exact strip_isBlank (isBlank_slice (isBlank_blanks 32) 0 3)
  have hsat : Text.slice 32 68 (blanks 32 ++ c.flatten) = c.flatten := by
    rw [slice_append_right (by simp [blanks])]
    simp only [blanks, List.length_replicate, Nat.sub_self]
    unfold Text.slice
    rw [List.drop_zero, List.take_of_length_le (by omega)]
  generalize blanks 32 ++ c.flatten = L at hrs hlab hnl hyear hsat ⊢
  have hraw : ∀ a b, stripChars ['\n'] (Text.slice a b L) = Text.slice a b L :=
    fun a b => stripChars_none _ _ (fun y hy => hnl y (mem_slice hy))
  unfold parseLine
  have h1 : obsParser.skipLine L = false := rfl
  have h2 : obsParser.label (rstrip L) n = "False" := by
    show obsLabel (rstrip L) = "False"
    rw [hrs]; exact hlab
  have h3 : obsParser.defs = Midgard.Generated.Rinex2ObsCols.records := rfl
  rw [h1, h2, h3, epoch2_def]
  simp only [Bool.false_eq_true, if_false, LabelDef.values, List.map_cons, List.map_nil, List.append_nil, StripOpt.apply, sliceRaw, hraw]
  show handle "_parse_observation_epoch" _ s = _
  simp only [handle, String.reduceEq, if_false, if_true]
  have hmore : c.map normSat ≠ [] := by cases c <;> simp_all
  exact cont_handler _ _ _ _ _ _ _ _ _ _ s old (c.map normSat) hyear (by rw [hsat]; exact hFne)
    (by rw [hsat]; have := satsOf_sats c [] (fun s hs => satOk_sat3 (h s hs)) rfl; simpa using this) hmore
    (by rw [hsat]; have := sat_list_guard c h [] rfl; simpa using this) hold

end Midgard.Spec.Rinex2ObsFile
