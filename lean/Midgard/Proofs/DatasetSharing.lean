/-
C09 — objects shared between fields stay shared under `subset` (and under the sort of
`merge_with`, which is a `subset`): the memo registers every array object it re-creates under its old
id, registrations of array objects with a memo-using kind are never overwritten, so every field (or
attachment) that held the same object afterwards holds the same new object.
-/
import Midgard.Proofs.DatasetOpsRect

namespace Midgard.Dataset

def Kind.plainish (k : Kind) : Bool := k.isPlain || k == .sigma

theorem find_set (s : St) (k v k' : Nat) : (s.set k v).find k' = if k' == k then some v else s.find k' := by
  simp only [St.set, St.find, List.lookup]
  by_cases h : k' == k <;> simp [h]

theorem find_alloc (s : St) (o : Obj) (k : Nat) : (s.alloc o).2.find k = s.find k := rfl

/-- registrations of objects whose kind uses the memo survive -/
def PersistK (s s' : St) : Prop :=
  ∀ k v ob, s.heap[k]? = some ob → ob.kind.plainish = false → s.find k = some v → s'.find k = some v

theorem PersistK.refl (s : St) : PersistK s s := fun _ _ _ _ _ h => h

theorem PersistK.trans {a b c : St} (e : HeapExt a.heap b.heap) (h1 : PersistK a b) (h2 : PersistK b c) : PersistK a c :=
  fun k v ob hob hk hf => h2 k v ob (e.get hob) hk (h1 k v ob hob hk hf)

/-- setting a key that was not registered keeps every registration -/
theorem PersistK.set_fresh {s : St} {k v : Nat} (hn : s.find k = none) : PersistK s (s.set k v) := by
  intro k' v' ob _ _ hf
  rw [find_set]
  by_cases h : k' == k
  · have : k' = k := by simpa using h
    subst this; rw [hn] at hf; cases hf
  · simp [h, hf]

/-- what one `subsetObj` call guarantees for the memo -/
def RegOK (s s' : St) (o o' : Nat) : Prop :=
  HeapExt s.heap s'.heap ∧ PersistK s s' ∧ s'.find o = some o'

theorem viaMemo_reg {rec : Nat → St → M (Nat × St)}
    (hrec : ∀ a s a' s', rec a s = .ok (a', s') → RegOK s s' a a')
    {r : Option Nat} {s : St} {r' : Option Nat} {s' : St} (h : viaMemo rec r s = .ok (r', s')) :
    HeapExt s.heap s'.heap ∧ PersistK s s' ∧ (∀ a, r = some a → ∃ a', r' = some a' ∧ s'.find a = some a') := by
  cases r with
  | none =>
    simp only [viaMemo, Except.ok.injEq, Prod.mk.injEq] at h
    obtain ⟨rfl, rfl⟩ := h
    exact ⟨HeapExt.refl _, PersistK.refl _, by simp⟩
  | some a =>
    simp only [viaMemo] at h
    split at h
    · rename_i a' hf
      simp only [Except.ok.injEq, Prod.mk.injEq] at h
      obtain ⟨rfl, rfl⟩ := h
      exact ⟨HeapExt.refl _, PersistK.refl _, fun x hx => by cases hx; exact ⟨a', rfl, hf⟩⟩
    · rename_i hnone
      split at h
      · simp at h
      · rename_i a' s1 hr
        simp only [Except.ok.injEq, Prod.mk.injEq] at h
        obtain ⟨rfl, rfl⟩ := h
        obtain ⟨e, p, reg⟩ := hrec _ _ _ _ hr
        refine ⟨e, ?_, fun x hx => by cases hx; exact ⟨a', rfl, by rw [find_set]; simp⟩⟩
        intro k v ob hob hk hf
        rw [find_set]
        by_cases hka : k == a
        · have : k = a := by simpa using hka
          subst this
          rw [hnone] at hf; cases hf
        · simp only [hka, Bool.false_eq_true, if_false]
          exact p k v ob hob hk hf

/-- **`subsetObj` registers its result and never overwrites a registration.** -/
theorem subsetObj_reg (idx : Index) : ∀ (fuel o : Nat) (s : St) (o' : Nat) (s' : St),
    subsetObj idx fuel o s = .ok (o', s') → RegOK s s' o o'
  | 0, _, _, _, _, h => by simp [subsetObj] at h
  | fuel + 1, o, s, o', s', h => by
    simp only [subsetObj] at h
    split at h
    · rename_i v hf
      simp only [Except.ok.injEq, Prod.mk.injEq] at h
      obtain ⟨rfl, rfl⟩ := h
      exact ⟨HeapExt.refl _, PersistK.refl _, hf⟩
    · rename_i hnone
      split at h
      · simp at h
      · rename_i obj hobj
        split at h
        · simp at h
        · rename_i rows hrows
          split at h
          · simp at h
          · rename_i oth s1 h1
            split at h
            · simp at h
            · rename_i rp s2 h2
              simp only [Except.ok.injEq, Prod.mk.injEq] at h
              obtain ⟨rfl, rfl⟩ := h
              have k1 : HeapExt s.heap s1.heap ∧ PersistK s s1 := by
                by_cases hk : obj.kind.hasOther = true
                · simp only [hk, if_true] at h1
                  obtain ⟨a, b, _⟩ := viaMemo_reg (subsetObj_reg idx fuel) h1
                  exact ⟨a, b⟩
                · simp only [hk] at h1
                  simp only [Bool.false_eq_true, if_false, Except.ok.injEq, Prod.mk.injEq] at h1
                  obtain ⟨_, rfl⟩ := h1
                  exact ⟨HeapExt.refl _, PersistK.refl _⟩
              have k2 : HeapExt s1.heap s2.heap ∧ PersistK s1 s2 := by
                by_cases hk : obj.kind.isDelta = true
                · simp only [hk, if_true] at h2
                  obtain ⟨a, b, _⟩ := viaMemo_reg (subsetObj_reg idx fuel) h2
                  exact ⟨a, b⟩
                · simp only [hk] at h2
                  simp only [Bool.false_eq_true, if_false, Except.ok.injEq, Prod.mk.injEq] at h2
                  obtain ⟨_, rfl⟩ := h2
                  exact ⟨HeapExt.refl _, PersistK.refl _⟩
              let new : Obj := { obj with rows := rows, other := oth, refPos := rp }
              have e3 : HeapExt s2.heap (s2.alloc new).2.heap := HeapExt.alloc s2 new
              have p12 : PersistK s s2 := PersistK.trans k1.1 k1.2 k2.2
              refine ⟨(k1.1.trans k2.1).trans e3, ?_, by rw [find_set]; simp⟩
              intro k v ob hob hk hf
              rw [find_set]
              by_cases hko : k == o
              · have : k = o := by simpa using hko
                subst this
                rw [hnone] at hf; cases hf
              · simp only [hko, Bool.false_eq_true, if_false, find_alloc]
                exact p12 k v ob hob hk hf

/-- `subsetPlain` only ever registers under the id of a plain / sigma array -/
theorem subsetPlain_reg (idx : Index) (o : Nat) (s : St) (o' : Nat) (s' : St)
    (h : subsetPlain idx o s = .ok (o', s')) : HeapExt s.heap s'.heap ∧ PersistK s s' := by
  simp only [subsetPlain] at h
  split at h
  · simp at h
  · rename_i obj hobj
    split at h
    · simp at h
    · rename_i hkind
      split at h
      · simp at h
      · rename_i rows _
        simp only [Except.ok.injEq, Prod.mk.injEq] at h
        obtain ⟨rfl, rfl⟩ := h
        refine ⟨HeapExt.alloc s _, ?_⟩
        intro k v ob hob hk hf
        rw [find_set]
        by_cases hko : k == o
        · have : k = o := by simpa using hko
          subst this
          rw [hobj] at hob; cases hob
          have : obj.kind.plainish = true := by
            simp only [Kind.plainish]
            cases hp : (obj.kind.isPlain || obj.kind == .sigma) with
            | true => rfl
            | false => simp [hp] at hkind
          rw [this] at hk; cases hk
        · simp only [hko, Bool.false_eq_true, if_false, find_alloc]
          exact hf

/-! ### the field tree -/

/-- the heap object of every leaf has the kind of the field (established by `add`) -/
def KindsOK (h : Heap) : Field → Prop
  | .leaf _ k o _ _ _ => ∃ ob, h[o]? = some ob ∧ ob.kind = k
  | .coll _ _ _ fs => KindsOKs fs
where KindsOKs : List Field → Prop
  | [] => True
  | f :: fs => KindsOK h f ∧ KindsOKs fs

mutual
theorem KindsOK.ext {h h' : Heap} (e : HeapExt h h') : ∀ (f : Field), KindsOK h f → KindsOK h' f
  | .leaf _ k o _ _ _, hh => by
    simp only [KindsOK] at hh ⊢
    obtain ⟨ob, h1, h2⟩ := hh
    exact ⟨ob, e.get h1, h2⟩
  | .coll _ _ _ fs, hh => by
    simp only [KindsOK] at hh ⊢
    exact KindsOKs.ext e fs hh
theorem KindsOKs.ext {h h' : Heap} (e : HeapExt h h') : ∀ (fs : List Field), KindsOK.KindsOKs h fs → KindsOK.KindsOKs h' fs
  | [], _ => by simp [KindsOK.KindsOKs]
  | f :: fs, hh => by
    simp only [KindsOK.KindsOKs] at hh ⊢
    exact ⟨KindsOK.ext e f hh.1, KindsOKs.ext e fs hh.2⟩
end

/-- every memo-using leaf of the old tree is mapped by `σ` to the leaf at the same place of the new
tree -/
def LeafMap (σ : Nat → Option Nat) : Field → Field → Prop
  | .leaf _ k o _ _ _, f' => ∃ n' o' no' u' l', f' = .leaf n' k o' no' u' l' ∧ (k.plainish = false → σ o = some o')
  | .coll _ _ _ fs, f' => ∃ n' no' l' fs', f' = .coll n' no' l' fs' ∧ LeafMaps fs fs'
where LeafMaps : List Field → List Field → Prop
  | [], fs' => fs' = []
  | f :: fs, fs' => ∃ f' r', fs' = f' :: r' ∧ LeafMap σ f f' ∧ LeafMaps fs r'

/-- `LeafMap` w.r.t. the memo of a state, transported to a later state -/
def LeafMapAt (h : Heap) (s : St) : Field → Field → Prop
  | .leaf _ k o _ _ _, f' => ∃ n' o' no' u' l', f' = .leaf n' k o' no' u' l' ∧
      (k.plainish = false → s.find o = some o' ∧ ∃ ob, h[o]? = some ob ∧ ob.kind = k)
  | .coll _ _ _ fs, f' => ∃ n' no' l' fs', f' = .coll n' no' l' fs' ∧ LeafMapsAt fs fs'
where LeafMapsAt : List Field → List Field → Prop
  | [], fs' => fs' = []
  | f :: fs, fs' => ∃ f' r', fs' = f' :: r' ∧ LeafMapAt h s f f' ∧ LeafMapsAt fs r'

mutual
theorem LeafMapAt.mono {h : Heap} {s s' : St} (e : HeapExt h s.heap) (p : PersistK s s') :
    ∀ (f f' : Field), LeafMapAt h s f f' → LeafMapAt h s' f f'
  | .leaf _ k o _ _ _, f', hh => by
    simp only [LeafMapAt] at hh ⊢
    obtain ⟨n', o', no', u', l', rfl, hreg⟩ := hh
    refine ⟨n', o', no', u', l', rfl, fun hk => ?_⟩
    obtain ⟨hf, ob, hob, hkind⟩ := hreg hk
    exact ⟨p o o' ob (e.get hob) (by rw [hkind]; exact hk) hf, ob, hob, hkind⟩
  | .coll _ _ _ fs, f', hh => by
    simp only [LeafMapAt] at hh ⊢
    obtain ⟨n', no', l', fs', rfl, h2⟩ := hh
    exact ⟨n', no', l', fs', rfl, LeafMapsAt.mono e p fs fs' h2⟩
theorem LeafMapsAt.mono {h : Heap} {s s' : St} (e : HeapExt h s.heap) (p : PersistK s s') :
    ∀ (fs fs' : List Field), LeafMapAt.LeafMapsAt h s fs fs' → LeafMapAt.LeafMapsAt h s' fs fs'
  | [], _, hh => by simpa [LeafMapAt.LeafMapsAt] using hh
  | f :: fs, _, hh => by
    simp only [LeafMapAt.LeafMapsAt] at hh ⊢
    obtain ⟨f', r', rfl, h1, h2⟩ := hh
    exact ⟨f', r', rfl, LeafMapAt.mono e p f f' h1, LeafMapsAt.mono e p fs r' h2⟩
end

mutual
theorem subsetField_reg (idx : Index) (h : Heap) : ∀ (f : Field) (s : St) (f' : Field) (s' : St),
    subsetField idx f s = .ok (f', s') → HeapExt h s.heap → KindsOK h f →
    HeapExt s.heap s'.heap ∧ PersistK s s' ∧ LeafMapAt h s' f f'
  | .leaf n k o no u l, s, f', s', hs, e, hk => by
    simp only [subsetField] at hs
    split at hs
    · simp at hs
    · rename_i o' s1 hr
      simp only [Except.ok.injEq, Prod.mk.injEq] at hs
      obtain ⟨rfl, rfl⟩ := hs
      simp only [KindsOK] at hk
      by_cases hp : (k.isPlain || k == .sigma) = true
      · simp only [hp, if_true] at hr
        obtain ⟨a, b⟩ := subsetPlain_reg idx o s o' s1 hr
        refine ⟨a, b, ?_⟩
        simp only [LeafMapAt]
        exact ⟨_, _, _, _, _, rfl, fun hn => by simp [Kind.plainish, hp] at hn⟩
      · simp only [hp] at hr
        obtain ⟨a, b, c⟩ := subsetObj_reg idx _ o s o' s1 hr
        refine ⟨a, b, ?_⟩
        simp only [LeafMapAt]
        exact ⟨_, _, _, _, _, rfl, fun _ => ⟨c, hk⟩⟩
  | .coll n no l fs, s, f', s', hs, e, hk => by
    simp only [subsetField] at hs
    simp only [KindsOK] at hk
    split at hs
    · simp at hs
    · rename_i fs' s1 hr
      obtain ⟨a, b, c⟩ := subsetFields_reg idx h fs s fs' s1 hr e hk
      split at hs
      · split at hs
        · simp at hs
        · simp only [Except.ok.injEq, Prod.mk.injEq] at hs
          obtain ⟨rfl, rfl⟩ := hs
          exact ⟨a, b, by simp only [LeafMapAt]; exact ⟨_, _, _, fs', rfl, c⟩⟩
      · simp only [Except.ok.injEq, Prod.mk.injEq] at hs
        obtain ⟨rfl, rfl⟩ := hs
        exact ⟨a, b, by simp only [LeafMapAt]; exact ⟨_, _, _, fs', rfl, c⟩⟩
theorem subsetFields_reg (idx : Index) (h : Heap) : ∀ (fs : List Field) (s : St) (fs' : List Field) (s' : St),
    subsetField.subsetFields idx fs s = .ok (fs', s') → HeapExt h s.heap → KindsOK.KindsOKs h fs →
    HeapExt s.heap s'.heap ∧ PersistK s s' ∧ LeafMapAt.LeafMapsAt h s' fs fs'
  | [], s, fs', s', hs, _, _ => by
    simp only [subsetField.subsetFields, Except.ok.injEq, Prod.mk.injEq] at hs
    obtain ⟨rfl, rfl⟩ := hs
    exact ⟨HeapExt.refl _, PersistK.refl _, by simp [LeafMapAt.LeafMapsAt]⟩
  | f :: fs, s, fs', s', hs, e, hk => by
    simp only [subsetField.subsetFields] at hs
    simp only [KindsOK.KindsOKs] at hk
    split at hs
    · simp at hs
    · rename_i f1 s1 h1
      split at hs
      · simp at hs
      · rename_i fs1 s2 h2
        simp only [Except.ok.injEq, Prod.mk.injEq] at hs
        obtain ⟨rfl, rfl⟩ := hs
        obtain ⟨e1, p1, m1⟩ := subsetField_reg idx h f s f1 s1 h1 e hk.1
        obtain ⟨e2, p2, m2⟩ := subsetFields_reg idx h fs s1 fs1 s2 h2 (e.trans e1) hk.2
        refine ⟨e1.trans e2, PersistK.trans e1 p1 p2, ?_⟩
        simp only [LeafMapAt.LeafMapsAt]
        exact ⟨f1, fs1, rfl, LeafMapAt.mono (e.trans e1) p2 f f1 m1, m2⟩
end

mutual
theorem LeafMapAt.toMap {h : Heap} {s : St} : ∀ (f f' : Field), LeafMapAt h s f f' → LeafMap s.find f f'
  | .leaf _ k o _ _ _, f', hh => by
    simp only [LeafMapAt] at hh
    simp only [LeafMap]
    obtain ⟨n', o', no', u', l', rfl, hreg⟩ := hh
    exact ⟨n', o', no', u', l', rfl, fun hk => (hreg hk).1⟩
  | .coll _ _ _ fs, f', hh => by
    simp only [LeafMapAt] at hh
    simp only [LeafMap]
    obtain ⟨n', no', l', fs', rfl, h2⟩ := hh
    exact ⟨n', no', l', fs', rfl, LeafMapsAt.toMaps fs fs' h2⟩
theorem LeafMapsAt.toMaps {h : Heap} {s : St} : ∀ (fs fs' : List Field), LeafMapAt.LeafMapsAt h s fs fs' →
    LeafMap.LeafMaps s.find fs fs'
  | [], _, hh => by simpa [LeafMapAt.LeafMapsAt, LeafMap.LeafMaps] using hh
  | f :: fs, _, hh => by
    simp only [LeafMapAt.LeafMapsAt] at hh
    simp only [LeafMap.LeafMaps]
    obtain ⟨f', r', rfl, h1, h2⟩ := hh
    exact ⟨f', r', rfl, LeafMapAt.toMap f f' h1, LeafMapsAt.toMaps fs r' h2⟩
end

/-- **sharing is preserved by `Dataset.subset`**: there is one function `σ` from old array objects to new
array objects such that every time / position / delta field (nested ones included) holding the object
`o` before holds `σ o` afterwards — so fields that shared an object share the new one. -/
theorem dsSubset_sharing (idx : Index) (h : Heap) (d : DS) (h' : Heap) (d' : DS)
    (hok : dsSubset idx h d = .ok (h', d')) (hk : KindsOK.KindsOKs h d.fields) :
    ∃ σ : Nat → Option Nat, LeafMap.LeafMaps σ d.fields d'.fields := by
  simp only [dsSubset] at hok
  split at hok
  · simp at hok
  · rename_i fs s hr
    split at hok
    · simp at hok
    · simp only [Except.ok.injEq, Prod.mk.injEq] at hok
      obtain ⟨rfl, rfl⟩ := hok
      obtain ⟨_, _, m⟩ := subsetFields_reg idx h d.fields { heap := h } fs s hr (HeapExt.refl _) hk
      exact ⟨s.find, LeafMapsAt.toMaps d.fields fs m⟩

end Midgard.Dataset
