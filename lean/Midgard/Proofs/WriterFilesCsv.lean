/-
C17 — csv_: a data line written with `np.savetxt(fmt=…, delimiter=",")` is cut back into its cells by the separator class of
parsers/csv_.py and every cell reads back (helper of Props/C17).
-/
import Midgard.Proofs.WriterFiles

namespace Midgard.WriterFiles
open Midgard.Text Midgard.Decimal Midgard.FixedCol Midgard.WriterCells Midgard.Writers

theorem splitSepAux_word (t : Str) (ht : ∀ c ∈ t, isCsvSep c = false) :
    ∀ (cur rest : Str), splitSepAux (t ++ rest) cur = splitSepAux rest (t.reverse ++ cur) := by
  induction t with
  | nil => intro cur rest; rfl
  | cons c t ih =>
    intro cur rest
    have hc : isCsvSep c = false := ht c (by simp)
    simp only [List.cons_append, splitSepAux, hc, Bool.false_eq_true, if_false]
    rw [ih (fun x hx => ht x (by simp [hx]))]
    simp

/-- **a line joined with commas is cut back into its cells**, when no cell text contains `,` or `;` -/
theorem splitSep_joinWith : ∀ (ts : List Str), ts ≠ [] → (∀ t ∈ ts, ∀ c ∈ t, isCsvSep c = false) →
    splitSep (joinWith ',' ts) = ts := by
  intro ts
  induction ts with
  | nil => intro h; exact absurd rfl h
  | cons t rest ih =>
    intro _ h
    cases rest with
    | nil =>
      unfold splitSep
      have := splitSepAux_word t (h t (by simp)) [] []
      simp only [List.append_nil] at this
      simp [joinWith, this, splitSepAux]
    | cons u rest' =>
      unfold splitSep
      have hw := splitSepAux_word t (h t (by simp)) [] (',' :: joinWith ',' (u :: rest'))
      simp only [joinWith]
      rw [hw]
      have hsep : isCsvSep ',' = true := by decide
      simp only [splitSepAux, hsep, if_true, List.append_nil, List.reverse_reverse]
      have := ih (by simp) (fun x hx => h x (by simp [hx]))
      unfold splitSep at this
      rw [this]

/-- the text `fmt % value` of a csv cell, where it is defined -/
theorem csvCell_num (p : Nat) (q : Rat) : csvCell (.f p) (.num q) = some (fmtFixedCore q p) := rfl

/-- number texts contain no separator -/
theorem fmtFixedCore_noSep (q : Rat) (p : Nat) : ∀ c ∈ fmtFixedCore q p, isCsvSep c = false := by
  intro c hc
  rw [fmtFixedCore_eq] at hc
  simp only [List.mem_append] at hc
  rcases hc with hc | hc
  · split at hc
    · simp at hc; subst hc; decide
    · simp at hc
  · rcases fixedBody_chars _ _ c hc with h | h
    · have : c ≠ ',' ∧ c ≠ ';' := by
        constructor <;> (intro e; subst e; revert h; decide)
      simp [isCsvSep, this.1, this.2]
    · subst h; decide

theorem fmtInt_noSep (i : Int) : ∀ c ∈ fmtInt i, isCsvSep c = false := by
  intro c hc
  have hd : ∀ c ∈ natDigits i.natAbs, isCsvSep c = false := by
    intro c hc
    have h := isDigit_of_mem (allDigits_natDigits' _) hc
    have : c ≠ ',' ∧ c ≠ ';' := by
      constructor <;> (intro e; subst e; revert h; decide)
    simp [isCsvSep, this.1, this.2]
  unfold fmtInt at hc
  split at hc
  · rcases List.mem_cons.mp hc with rfl | hc
    · decide
    · exact hd c hc
  · exact hd c hc

/-- what a reader finds in a csv cell: the value a number was rounded to, an integer itself, text as it is -/
def csvReadsBack : CsvFmt → Value → Str → Prop
  | .f p, .num q, t => parseFloat t = some (fixedValue q p)
  | .f _, .nan, t => t = "nan".toList
  | .f _, .negz, t => parseFloat t = some 0
  | .d, .int i, t => parseInt? t = some i
  | .s, .str s, t => t = s
  | _, _, _ => False

theorem csvCell_readsBack (f : CsvFmt) (v : Value) (t : Str) (h : csvCell f v = some t) : csvReadsBack f v t := by
  cases f <;> cases v <;> simp [csvCell] at h <;> subst h
  · rfl
  · exact parseInt_fmtInt _
  · exact parseFloat_fmtFixedCore _ _
  · rfl
  · exact Writers.parseFloat_negz _

/-- **a csv data line read back**: written with `np.savetxt(fmt=…, delimiter=",")`, cut at `,`/`;` as the parser's
separator does — as many pieces as values, each the text of its value, which reads back (`csvReadsBack`), provided no text
value contains a separator -/
theorem csv_line_roundtrip_aux (fmts : List CsvFmt) (vals : List Value) (line : Str) (h : csvLine fmts vals = some line)
    (hne : vals ≠ []) (hs : ∀ s, Value.str s ∈ vals → ∀ c ∈ s, isCsvSep c = false) :
    ∃ texts, splitSep line = texts ∧ List.Forall₂ (fun (fv : CsvFmt × Value) t => csvReadsBack fv.1 fv.2 t) (fmts.zip vals) texts := by
  unfold csvLine at h
  split at h
  · simp at h
  · rename_i hlen
    simp only [ne_eq, Decidable.not_not] at hlen
    simp only [Option.map_eq_some_iff] at h
    obtain ⟨texts, hm, rfl⟩ := h
    have hall : ∀ (l : List (CsvFmt × Value)) (ts : List Str), l.mapM (fun (fv : CsvFmt × Value) => csvCell fv.1 fv.2) = some ts →
        (∀ fv ∈ l, ∀ s, fv.2 = Value.str s → ∀ c ∈ s, isCsvSep c = false) →
        List.Forall₂ (fun (fv : CsvFmt × Value) t => csvReadsBack fv.1 fv.2 t) l ts ∧ ∀ t ∈ ts, ∀ c ∈ t, isCsvSep c = false := by
      intro l
      induction l with
      | nil => intro ts h _; simp at h; subst h; exact ⟨List.Forall₂.nil, by simp⟩
      | cons fv l ih =>
        intro ts h hsep
        simp only [List.mapM_cons, Option.bind_eq_bind] at h
        cases hc : csvCell fv.1 fv.2 with
        | none => simp [hc] at h
        | some t =>
          cases hl : l.mapM (fun (fv : CsvFmt × Value) => csvCell fv.1 fv.2) with
          | none => simp [hc, hl] at h
          | some ts' =>
            simp [hc, hl] at h
            subst h
            obtain ⟨i1, i2⟩ := ih ts' hl (fun x hx => hsep x (by simp [hx]))
            refine ⟨List.Forall₂.cons (csvCell_readsBack _ _ _ hc) i1, ?_⟩
            intro u hu
            rcases List.mem_cons.mp hu with rfl | hu
            · obtain ⟨f, v⟩ := fv
              cases f <;> cases v <;> simp [csvCell] at hc <;> subst hc
              · exact hsep (CsvFmt.s, Value.str _) (List.mem_cons_self) _ rfl
              · exact fmtInt_noSep _
              · exact fmtFixedCore_noSep _ _
              · decide
              · intro c hc
                rcases List.mem_cons.mp hc with rfl | hc
                · decide
                · exact fmtFixedCore_noSep _ _ c hc
            · exact i2 u hu
    have hzip : ∀ fv ∈ fmts.zip vals, ∀ s, fv.2 = Value.str s → ∀ c ∈ s, isCsvSep c = false := by
      intro fv hfv s hs'
      have := (List.of_mem_zip hfv).2
      rw [hs'] at this
      exact hs s this
    obtain ⟨r1, r2⟩ := hall _ texts hm hzip
    have htne : texts ≠ [] := by
      intro e; subst e
      have := r1.length_eq
      simp [List.length_zip] at this
      cases vals with
      | nil => exact hne rfl
      | cons _ _ => cases fmts <;> simp_all
    exact ⟨texts, splitSep_joinWith texts htne r2, r1⟩

end Midgard.WriterFiles
