/-
C04 — list lemmas behind the derivation-path theorems of `Props/C04.lean`: every position a selection denotes is in
range, and selecting out of a selection is one selection (`pick_pick`).
-/
import Midgard.Model.TimeArrayHist
import Mathlib.Tactic.SplitIfs
import Mathlib.Tactic.Common

set_option linter.unusedVariables false

namespace Midgard.Proofs.TimeArrayLists
open Midgard.TimeArrayHist

/-! ### positions are in range; selecting twice is selecting once -/

theorem rangeIdx_pos (fuel : Nat) (start stop step : Int) (hs : 0 < step) (h0 : 0 ≤ start) :
    ∀ p ∈ rangeIdx fuel start stop step, (p : Int) < stop := by
  induction fuel generalizing start with
  | zero => intro p hp; simp [rangeIdx] at hp
  | succ fuel ih =>
    intro p hp
    unfold rangeIdx at hp
    split_ifs at hp with hc
    · rcases List.mem_cons.mp hp with rfl | hp
      · omega
      · exact ih (start + step) (by omega) p hp
    · simp at hp

theorem rangeIdx_neg (fuel : Nat) (start stop step M : Int) (hs : step < 0) (h0 : -1 ≤ stop) (hM : start ≤ M) :
    ∀ p ∈ rangeIdx fuel start stop step, (p : Int) ≤ M := by
  induction fuel generalizing start with
  | zero => intro p hp; simp [rangeIdx] at hp
  | succ fuel ih =>
    intro p hp
    unfold rangeIdx at hp
    split_ifs at hp with hc
    · rcases List.mem_cons.mp hp with rfl | hp
      · omega
      · exact ih (start + step) (by omega) p hp
    · simp at hp

theorem sliceIdx_lt (n : Nat) (a b : Option Int) (c : Int) (hc : c ≠ 0) : ∀ p ∈ sliceIdx n a b c, p < n := by
  intro p hp
  unfold sliceIdx at hp
  simp only at hp
  split_ifs at hp with hpos
  · cases a <;> cases b <;> simp only [clamp] at hp <;>
      (have := rangeIdx_pos n _ _ c hpos (by (try split_ifs) <;> omega) p hp
       (try split_ifs at this) <;> omega)
  · cases a <;> cases b <;> simp only [clamp] at hp <;>
      (have := rangeIdx_neg n _ _ c ((n : Int) - 1) (by omega) (by (try split_ifs) <;> omega) (by (try split_ifs) <;> omega) p hp
       omega)

theorem normIdx_lt {n : Nat} {i : Int} {k : Nat} (h : normIdx n i = some k) : k < n := by
  unfold normIdx at h
  split_ifs at h <;> simp at h <;> omega

theorem mapM_normIdx_lt (n : Nat) (l : List Int) (ps : List Nat) (h : l.mapM (normIdx n) = some ps) : ∀ p ∈ ps, p < n := by
  induction l generalizing ps with
  | nil => simp at h; subst h; simp
  | cons i l ih =>
    rw [List.mapM_cons] at h
    cases hk : normIdx n i with
    | none => simp [hk] at h
    | some k =>
      cases hl : l.mapM (normIdx n) with
      | none => simp [hk, hl] at h
      | some qs =>
        simp [hk, hl] at h
        subst h
        intro p hp
        rcases List.mem_cons.mp hp with rfl | hp
        · exact normIdx_lt hk
        · exact ih qs hl p hp

/-- every position a selection denotes for length `n` lies inside `0 … n-1` -/
theorem positions_lt (s : Sel) (n : Nat) (ps : List Nat) (h : s.positions n = some ps) : ∀ p ∈ ps, p < n := by
  cases s with
  | slice a b c =>
    simp only [Sel.positions] at h
    split_ifs at h with hc
    simp only [Option.some.injEq] at h; subst h
    exact sliceIdx_lt n a b c hc
  | mask m =>
    simp only [Sel.positions] at h
    split_ifs at h
    simp only [Option.some.injEq] at h; subst h
    intro p hp
    exact List.mem_range.mp (List.mem_filter.mp hp).1
  | idx l => exact mapM_normIdx_lt n l ps h

theorem pick_eq_map {α} (l : List α) (ps : List Nat) (h : ∀ p ∈ ps, p < l.length) :
    (pick l ps).map some = ps.map (l[·]?) := by
  induction ps with
  | nil => rfl
  | cons p ps ih =>
    have hp : p < l.length := h p List.mem_cons_self
    have ih' := ih (fun q hq => h q (List.mem_cons_of_mem _ hq))
    simp only [pick] at ih' ⊢
    simp [List.getElem?_eq_getElem hp, ih']

theorem pick_length {α} (l : List α) (ps : List Nat) (h : ∀ p ∈ ps, p < l.length) : (pick l ps).length = ps.length := by
  have := congrArg List.length (pick_eq_map l ps h)
  simpa using this

theorem pick_getElem? {α} (l : List α) (ps : List Nat) (h : ∀ p ∈ ps, p < l.length) (q : Nat) :
    (pick l ps)[q]? = (ps[q]?).bind (l[·]?) := by
  have := congrArg (fun x => x[q]?) (pick_eq_map l ps h)
  simp only [List.getElem?_map] at this
  cases hq : ps[q]? with
  | none => rw [hq] at this; simpa using this
  | some p => rw [hq] at this; simp only [Option.map_some] at this; cases hx : (pick l ps)[q]? <;> simp_all

/-- selecting `qs` out of the selection `ps` is the one selection `pick ps qs` -/
theorem pick_pick {α} (l : List α) (ps qs : List Nat) (h : ∀ p ∈ ps, p < l.length) :
    pick (pick l ps) qs = pick l (pick ps qs) := by
  have key : ∀ q : Nat, (pick l ps)[q]? = (ps[q]?).bind (l[·]?) := pick_getElem? l ps h
  unfold pick at key ⊢
  rw [List.filterMap_filterMap]
  induction qs with
  | nil => rfl
  | cons q qs ih => simp only [List.filterMap_cons, key q, ih]

theorem idx_positions (n : Nat) (ps : List Nat) (h : ∀ p ∈ ps, p < n) :
    (Sel.idx (ps.map Int.ofNat)).positions n = some ps := by
  simp only [Sel.positions]
  induction ps with
  | nil => rfl
  | cons p ps ih =>
    have hp := h p List.mem_cons_self
    have hn : normIdx n (p : Int) = some p := by simp [normIdx]; omega
    simp [List.mapM_cons, hn, ih (fun q hq => h q (List.mem_cons_of_mem _ hq))]

end Midgard.Proofs.TimeArrayLists
