/-
C10 — `_write` of one array, stated on what the memo *answers* (`lookup`) instead of what it contains: needed when one
array object is held by several fields (the memo of `_construct_memo` then has several entries for it, and only the one
`lookup` finds matters).
-/
import Midgard.Proofs.H5Alias

namespace Midgard.H5
open Midgard.Dataset

theorem lookup_cons_inv {m : WMemo} {k x : Nat} {v q : Path} (h : ((k, v) :: m).lookup x = some q) :
    (x = k ∧ q = v) ∨ m.lookup x = some q := by
  simp only [List.lookup] at h
  split at h
  · rename_i heq
    have : x = k := by simpa using heq
    simp only [Option.some.injEq] at h
    exact Or.inl ⟨this, h.symm⟩
  · exact Or.inr h

/-- what one `writeArr` call guarantees, in terms of lookups -/
structure WArr2 (h : Heap) (o : Nat) (p : Path) (memo : WMemo) (g : Grp) (memo' : WMemo) : Prop where
  src : g.src = o
  tree : ArrTree (fun q x => memo'.lookup x = some q) h p g
  stable : Stable memo memo'
  newIn : ∀ x q, memo'.lookup x = some q → memo.lookup x = some q ∨ ∃ g', (q, g') ∈ Grp.nodes p g ∧ g'.src = x
  own : ∀ q g', (q, g') ∈ Grp.nodes p g → memo'.lookup g'.src = some q
  names : NamesOKG g

theorem writeArr_spec2 (h : Heap) : ∀ (fuel : Nat) (u : Option (List String)) (l : Nat) (o : Nat) (p : Path)
    (memo : WMemo) (g : Grp) (memo' : WMemo),
    writeArr h u l fuel o p memo = .ok (g, memo') → memo.lookup o = some p → WArr2 h o p memo g memo'
  | 0, _, _, _, _, _, _, _, hw, _ => by simp [writeArr] at hw
  | fuel + 1, u, l, o, p, memo, g, memo', hw, hp => by
    simp only [writeArr] at hw
    split at hw
    · simp at hw
    · rename_i ob hob
      split at hw
      · -- no attribute
        rename_i hat
        simp only [Except.ok.injEq, Prod.mk.injEq] at hw
        obtain ⟨rfl, rfl⟩ := hw
        refine ⟨rfl, .plain hob hat rfl rfl, Stable.refl _, fun x q hx => Or.inl hx, ?_, ?_⟩
        · intro q g' hm; rw [nodes_leaf] at hm; simp at hm; rw [hm.1, hm.2]; exact hp
        · simp [NamesOKG, NamesOKG.NamesOKL]
      · rename_i nm hat
        have hnew : ∀ (m : WMemo), m.lookup o = some p → ∀ x q, ((o, p) :: m).lookup x = some q → m.lookup x = some q := by
          intro m hm x q hx
          rcases lookup_cons_inv hx with ⟨rfl, rfl⟩ | hx
          · exact hm
          · exact hx
        split at hw
        · -- attribute is None
          rename_i hr
          simp only [Except.ok.injEq, Prod.mk.injEq] at hw
          obtain ⟨rfl, rfl⟩ := hw
          refine ⟨rfl, .noref hob hat hr rfl rfl, Stable.cons_same hp, fun x q hx => Or.inl (hnew memo hp x q hx), ?_, ?_⟩
          · intro q g' hm; rw [nodes_leaf] at hm; simp at hm; rw [hm.1, hm.2]; exact lookup_cons_self _ _ _
          · simp [NamesOKG, NamesOKG.NamesOKL]
        · rename_i a hr
          split at hw
          · -- reference by name
            rename_i name hl
            simp only [Except.ok.injEq, Prod.mk.injEq] at hw
            obtain ⟨rfl, rfl⟩ := hw
            refine ⟨rfl, .named hob hat hr rfl rfl (Stable.cons_same hp a name hl), Stable.cons_same hp,
              fun x q hx => Or.inl (hnew memo hp x q hx), ?_, ?_⟩
            · intro q g' hm; rw [nodes_leaf] at hm; simp at hm; rw [hm.1, hm.2]; exact lookup_cons_self _ _ _
            · simp [NamesOKG, NamesOKG.NamesOKL]
          · -- embedded
            rename_i hl
            split at hw
            · simp at hw
            · rename_i gc memoc hrec
              simp only [Except.ok.injEq, Prod.mk.injEq] at hw
              obtain ⟨rfl, rfl⟩ := hw
              have ih := writeArr_spec2 h fuel none 3 a (p ++ [nm]) ((a, p ++ [nm]) :: memo) gc memoc hrec
                (lookup_cons_self _ _ _)
              have hgarr : gc.isArr = true := ih.tree.isArr
              have hn : ∀ (at0 : GAttrs), Grp.nodes p (Grp.mk at0 (some ob.strip) [(nm, gc)]) =
                  (p, Grp.mk at0 (some ob.strip) [(nm, gc)]) :: Grp.nodes (p ++ [nm]) gc := by
                intro at0; simp [Grp.nodes, Grp.nodes.nodesL]
              have s1 : Stable memo ((a, p ++ [nm]) :: memo) := Stable.cons_fresh hl
              have s12 := s1.trans ih.stable
              have hpo : memoc.lookup o = some p := s12 o p hp
              have s3 : Stable memoc ((o, p) :: memoc) := Stable.cons_same hpo
              refine ⟨rfl, ?_, s12.trans s3, ?_, ?_, ?_⟩
              · exact .embedded hob hat hr rfl rfl ih.src (ih.tree.mono (fun q x hx => s3 x q hx))
              · intro x q hx
                have hx' := hnew memoc hpo x q hx
                rcases ih.newIn x q hx' with hx'' | ⟨g', hg', hs⟩
                · rcases lookup_cons_inv hx'' with ⟨rfl, rfl⟩ | hx''
                  · right
                    exact ⟨gc, by rw [hn]; exact List.mem_cons_of_mem _ (root_mem_nodes _ hgarr), ih.src⟩
                  · exact Or.inl hx''
                · right; exact ⟨g', by rw [hn]; exact List.mem_cons_of_mem _ hg', hs⟩
              · intro q g' hm
                rw [hn] at hm
                rcases List.mem_cons.mp hm with hm | hm
                · cases hm; exact lookup_cons_self _ _ _
                · exact s3 _ _ (ih.own q g' hm)
              · simp only [NamesOKG, NamesOKG.NamesOKL]
                exact ⟨ih.names, by simp, trivial⟩

end Midgard.H5
