/-
Helper lemmas for C19 (text round trip), part B2: reading whole items, sections and files.
Mathlib-free.
-/
import Midgard.Proofs.ConfigRead

namespace Midgard.Proofs.ConfigText
open Midgard.Config

/-- the fold of `readIniRaw` -/
def readLines (lower : Bool) (p : PState) (ls : List (List Char)) : Except IniErr PState :=
  ls.foldl (fun acc l => match acc with
    | .error e => .error e
    | .ok p => readLine lower p l) (.ok p)

theorem foldl_error (lower : Bool) (e : IniErr) (ls : List (List Char)) :
    ls.foldl (fun acc l => match acc with
      | .error e => .error e
      | .ok p => readLine lower p l) (.error e : Except IniErr PState) = .error e := by
  induction ls with
  | nil => rfl
  | cons l t ih => simpa [List.foldl_cons] using ih

theorem readLines_nil (lower : Bool) (p : PState) : readLines lower p [] = .ok p := rfl

theorem readLines_cons (lower : Bool) (p p' : PState) (l : List Char) (ls : List (List Char))
    (h : readLine lower p l = .ok p') : readLines lower p (l :: ls) = readLines lower p' ls := by
  simp only [readLines, List.foldl_cons, h]

theorem readLines_append (lower : Bool) (p p' : PState) (a b : List (List Char))
    (h : readLines lower p a = .ok p') : readLines lower p (a ++ b) = readLines lower p' b := by
  simp only [readLines, List.foldl_append] at h ⊢
  rw [h]

/-- a word of a value: a reader word that does not look like a comment when it starts a line -/
def WordV (x : List Char) : Prop := WordOK x ∧ x.head? ≠ some '#' ∧ x.head? ≠ some ';'

theorem read_conts (lower : Bool) (hang : Nat) (hhang : 0 < hang) (gr : List (List (List Char)))
    (hne : ∀ g ∈ gr, g ≠ []) (hw : ∀ g ∈ gr, ∀ x ∈ g, WordV x)
    (p : PState) (c : String × List RawOpt) (k : List Char) (vs : List (List Char))
    (hcur : p.cur = some c) (hopt : p.opt = some ⟨k, some vs⟩) (hind : p.indent = 0) :
    readLines lower p (gr.map (contLine hang)) =
      .ok { p with opt := some ⟨k, some (vs ++ gr.map unwords)⟩ } := by
  induction gr generalizing p vs with
  | nil =>
    simp only [List.map_nil, List.append_nil, readLines_nil]
    obtain ⟨d, cu, o, i⟩ := p
    simp only at hopt; subst hopt; rfl
  | cons g t ih =>
    have hg := hne g (by simp)
    obtain ⟨x, r, rfl⟩ : ∃ x r, g = x :: r := by
      cases g with | nil => exact absurd rfl hg | cons x r => exact ⟨x, r, rfl⟩
    have hwg := hw (x :: r) (by simp)
    have hx := hwg x (by simp)
    have hhd : (unwords (x :: r)).head? = x.head? := unwords_head x r hx.1.1
    have h1 := readLine_cont lower p c k vs hang (x :: r) hcur hopt hind hhang (by simp)
      (fun y hy => (hwg y hy).1) (by rw [hhd]; exact hx.2.1) (by rw [hhd]; exact hx.2.2)
    rw [List.map_cons, readLines_cons lower p _ _ _ h1]
    rw [ih (fun g hg => hne g (List.mem_cons_of_mem _ hg)) (fun g hg => hw g (List.mem_cons_of_mem _ hg))
      { p with opt := some ⟨k, some (vs ++ [unwords (x :: r)])⟩ } (vs ++ [unwords (x :: r)]) hcur rfl hind]
    simp

/-! ### Items -/

/-- one option of a section as written: its key (`k` or `k:meta`) and its value as words (`none`: the
key alone on a line) -/
structure Item where
  key : List Char
  value : Option (List (List Char))

def itemLines (w kw : Nat) (it : Item) : List (List Char) :=
  match it.value with
  | none => fill w (kw + 3) it.key
  | some ws => fill w (kw + 3) (entryText kw it.key (unwords ws))

def ItemOK (lower : Bool) (w kw : Nat) (it : Item) : Prop :=
  KeyOK lower it.key ∧
  ∀ ws, it.value = some ws → (it.key.length + (padOf kw it.key).length + 1 ≤ w ∧ ∀ x ∈ ws, WordV x)

/-- the value lines the reader collects hold the words in order, each line its words joined by single blanks -/
def JoinsTo (vs : List (List Char)) (ws : List (List Char)) : Prop :=
  ∃ (g0 : List (List Char)) (gr : List (List (List Char))),
    (∀ g ∈ gr, g ≠ []) ∧ g0 ++ gr.flatten = ws ∧ vs = unwords g0 :: gr.map unwords

/-- what the reader holds for an item: same key; no value for a valueless item, else the value lines
followed by some empty lines -/
def ItemRaw (o : RawOpt) (it : Item) : Prop :=
  o.key = it.key ∧
  match it.value with
  | none => o.value = none
  | some ws => ∃ vs j, o.value = some (vs ++ List.replicate j []) ∧ JoinsTo vs ws

theorem KeyOK.isWord {lower : Bool} {k : List Char} (h : KeyOK lower k) : IsWord k :=
  ⟨h.1, fun c hc he => by have := (h.2.1 c hc).1; rw [he] at this; simp [isBlank_space] at this⟩

theorem KeyOK.noCtl {lower : Bool} {k : List Char} (h : KeyOK lower k) : NoCtl k := by
  intro c hc hctl
  have := (h.2.1 c hc).1
  rw [blank_of_ctl c hctl] at this
  simp at this

theorem noCtl_entryText (kw : Nat) (key : List Char) (ws : List (List Char)) (hk : NoCtl key)
    (hw : ∀ x ∈ ws, WordOK x) : NoCtl (entryText kw key (unwords ws)) := by
  intro c hc
  simp only [entryText, ljust, eq_lit, List.mem_append, List.mem_replicate] at hc
  rcases hc with ((h | h) | h) | h
  · exact hk c h
  · rw [h.2]; decide
  · simp at h; rcases h with h | h | h <;> subst h <;> decide
  · cases ws with
    | nil => simp [unwords] at h
    | cons x t =>
      simp only [unwords, List.mem_append, List.mem_flatMap] at h
      rcases h with h | ⟨y, hy, h⟩
      · exact (hw x (by simp)).noCtl c h
      · rcases List.mem_cons.1 h with h | h
        · subst h; decide
        · exact (hw y (List.mem_cons_of_mem _ hy)).noCtl c h

/-- **reading one item**: from inside a section, the lines of an item leave the previous option closed
and the item open, with exactly its words -/
theorem read_item (lower : Bool) (w kw : Nat) (it : Item) (hok : ItemOK lower w kw it)
    (p : PState) (n : String) (os : List RawOpt) (hcur : p.cur = some (n, os))
    (hnew : it.key ∉ (os ++ p.opt.toList).map (·.key)) :
    ∃ o, ItemRaw o it ∧
      readLines lower p (itemLines w kw it) =
        .ok { done := p.done, cur := some (n, os ++ p.opt.toList), opt := some o, indent := 0 } := by
  obtain ⟨key, value⟩ := it
  obtain ⟨hkey, hval⟩ := hok
  simp only at hkey hval hnew
  cases value with
  | none =>
    refine ⟨⟨key, none⟩, ⟨rfl, rfl⟩, ?_⟩
    simp only [itemLines, fill_single_word w (kw + 3) key hkey.isWord hkey.noCtl]
    rw [readLines_cons lower p _ _ _ (readLine_valueless lower p n os key hcur hkey hnew)]
    rfl
  | some ws =>
    obtain ⟨hfit, hws⟩ := hval ws rfl
    have hwso : ∀ x ∈ ws, WordOK x := fun x hx => (hws x hx).1
    -- the lines, as a grouping of the words
    have hlines : ∃ (g0 : List (List Char)) (gr : List (List (List Char))),
        (∀ g ∈ gr, g ≠ []) ∧ g0 ++ gr.flatten = ws ∧
        fill w (kw + 3) (entryText kw key (unwords ws)) = firstLine kw key g0 :: gr.map (contLine (kw + 3)) := by
      cases ws with
      | nil =>
        refine ⟨[], [], by simp, by simp, ?_⟩
        simpa [unwords] using fill_empty_value w kw key hkey.isWord hkey.noCtl hfit
      | cons w1 t =>
        exact fill_entry_lines w kw key w1 t hkey.isWord (fun x hx => (hwso x hx).isWord)
          (noCtl_entryText kw key (w1 :: t) hkey.noCtl hwso) hfit
    obtain ⟨g0, gr, hgne, hgw, hfill⟩ := hlines
    have hg0 : ∀ x ∈ g0, WordOK x := fun x hx => hwso x (by rw [← hgw]; simp [hx])
    have hgr : ∀ g ∈ gr, ∀ x ∈ g, WordV x := fun g hg x hx =>
      hws x (by rw [← hgw]; exact List.mem_append_right _ (List.mem_flatten.2 ⟨g, hg, hx⟩))
    refine ⟨⟨key, some (unwords g0 :: gr.map unwords)⟩, ⟨rfl, ?_⟩, ?_⟩
    · exact ⟨unwords g0 :: gr.map unwords, 0, by simp, g0, gr, hgne, hgw, rfl⟩
    · simp only [itemLines, hfill]
      rw [readLines_cons lower p _ _ _ (readLine_first lower p n os kw key g0 hcur hkey hg0 hnew)]
      rw [read_conts lower (kw + 3) (by omega) gr hgne hgr _ (n, os ++ p.opt.toList) key [unwords g0] rfl rfl rfl]
      simp

/-! ### Blocks of a section: items and empty lines -/

inductive Block
  | item (it : Item)
  | blank

def blockLines (w kw : Nat) : Block → List (List Char)
  | .item it => itemLines w kw it
  | .blank => [[]]

def blockItems : List Block → List Item
  | [] => []
  | .item it :: t => it :: blockItems t
  | .blank :: t => blockItems t

/-- the options read so far correspond, one to one and in order, to the items written -/
def RawItems : List RawOpt → List Item → Prop
  | [], [] => True
  | o :: os, it :: its => ItemRaw o it ∧ RawItems os its
  | _, _ => False

theorem rawItems_snoc (os : List RawOpt) (its : List Item) (o : RawOpt) (it : Item)
    (h : RawItems os its) (ho : ItemRaw o it) : RawItems (os ++ [o]) (its ++ [it]) := by
  induction os generalizing its with
  | nil => cases its with
    | nil => exact ⟨ho, trivial⟩
    | cons a t => exact absurd h (by simp [RawItems])
  | cons x xs ih => cases its with
    | nil => exact absurd h (by simp [RawItems])
    | cons a t => exact ⟨h.1, ih t h.2⟩

theorem rawItems_snoc_inv (os : List RawOpt) (o : RawOpt) (items : List Item)
    (h : RawItems (os ++ [o]) items) :
    ∃ its it, items = its ++ [it] ∧ RawItems os its ∧ ItemRaw o it := by
  induction os generalizing items with
  | nil =>
    cases items with
    | nil => exact absurd h (by simp [RawItems])
    | cons a t =>
      cases t with
      | nil => exact ⟨[], a, rfl, trivial, h.1⟩
      | cons b t' => exact absurd h.2 (by simp [RawItems])
  | cons x xs ih =>
    cases items with
    | nil => exact absurd h (by simp [RawItems])
    | cons a t =>
      obtain ⟨its, it, e, h1, h2⟩ := ih t h.2
      exact ⟨a :: its, it, by simp [e], ⟨h.1, h1⟩, h2⟩

theorem rawItems_keys (os : List RawOpt) (items : List Item) (h : RawItems os items) :
    os.map (·.key) = items.map (·.key) := by
  induction os generalizing items with
  | nil => cases items with
    | nil => rfl
    | cons a t => exact absurd h (by simp [RawItems])
  | cons x xs ih => cases items with
    | nil => exact absurd h (by simp [RawItems])
    | cons a t => simp [h.1.1, ih t h.2]

/-- the reader is inside section `n`, at column 0, having read `items` -/
def SecState (p : PState) (n : String) (items : List Item) : Prop :=
  ∃ os, p.cur = some (n, os) ∧ p.indent = 0 ∧ RawItems (os ++ p.opt.toList) items

theorem itemRaw_blank (k : List Char) (vs : List (List Char)) (it : Item)
    (h : ItemRaw ⟨k, some vs⟩ it) : ItemRaw ⟨k, some (vs ++ [[]])⟩ it := by
  obtain ⟨hk, hv⟩ := h
  refine ⟨hk, ?_⟩
  cases hval : it.value with
  | none => rw [hval] at hv; simp at hv
  | some ws =>
    rw [hval] at hv
    obtain ⟨vs0, j, e, hj⟩ := hv
    simp only [Option.some.injEq] at e
    exact ⟨vs0, j + 1, by simp [e, List.replicate_succ'], hj⟩

/-- **reading the blocks of a section** -/
theorem read_blocks (lower : Bool) (w kw : Nat) (bs : List Block) :
    ∀ (p : PState) (n : String) (items : List Item),
      SecState p n items →
      (∀ it ∈ blockItems bs, ItemOK lower w kw it) →
      ((items ++ blockItems bs).map (·.key)).Nodup →
      ∃ p', readLines lower p (bs.flatMap (blockLines w kw)) = .ok p' ∧ p'.done = p.done ∧
        SecState p' n (items ++ blockItems bs) := by
  induction bs with
  | nil => intro p n items hs _ _; exact ⟨p, rfl, rfl, by simpa [blockItems] using hs⟩
  | cons b t ih =>
    intro p n items hs hok hnd
    obtain ⟨os, hcur, hind, hraw⟩ := hs
    cases b with
    | item it =>
      simp only [blockItems] at hok hnd
      have hkeys := rawItems_keys _ _ hraw
      have hnew : it.key ∉ (os ++ p.opt.toList).map (·.key) := by
        rw [hkeys]
        intro hm
        have hnd' : (items.map (·.key) ++ it.key :: (blockItems t).map (·.key)).Nodup := by simpa using hnd
        exact (List.nodup_append.1 hnd').2.2 _ hm _ (by simp) rfl
      obtain ⟨o, ho, hread⟩ := read_item lower w kw it (hok it (by simp)) p n os hcur hnew
      simp only [List.flatMap_cons, blockLines]
      rw [readLines_append lower p _ _ _ hread]
      obtain ⟨p', h1, h2, h3⟩ := ih
        { done := p.done, cur := some (n, os ++ p.opt.toList), opt := some o, indent := 0 } n (items ++ [it])
        ⟨os ++ p.opt.toList, rfl, rfl, by simpa [Option.toList] using rawItems_snoc _ _ o it hraw ho⟩
        (fun x hx => hok x (by simp [hx])) (by simpa using hnd)
      exact ⟨p', h1, h2, by simpa [blockItems] using h3⟩
    | blank =>
      simp only [blockItems] at hok hnd
      simp only [List.flatMap_cons, blockLines, List.singleton_append]
      rw [readLines_cons lower p _ [] _ (readLine_blank lower p)]
      have hs' : SecState (match p.opt with
          | some ⟨k, some vs⟩ => { p with opt := some ⟨k, some (vs ++ [[]])⟩ }
          | _ => p) n items := by
        split
        · rename_i k vs hopt
          refine ⟨os, hcur, hind, ?_⟩
          rw [hopt] at hraw
          simp only [Option.toList] at hraw ⊢
          obtain ⟨its, it, e, h1, h2⟩ := rawItems_snoc_inv os _ items hraw
          rw [e]
          exact rawItems_snoc os its _ it h1 (itemRaw_blank k vs it h2)
        · exact ⟨os, hcur, hind, hraw⟩
      obtain ⟨p', h1, h2, h3⟩ := ih _ n items hs' hok hnd
      refine ⟨p', h1, ?_, by simpa [blockItems] using h3⟩
      rw [h2]; split <;> rfl

end Midgard.Proofs.ConfigText
