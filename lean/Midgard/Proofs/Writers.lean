/-
Helper lemmas of C17 (Mathlib-free): exact-width concatenation of formatted cells, slices that are
wider than a cell, whitespace splitting of adjacent right-aligned cells.
-/
import Midgard.Model.Writers
import Midgard.Proofs.FixedCol
import Midgard.Proofs.Decimal

namespace Midgard.Writers
open Midgard.Text Midgard.FixedCol Midgard.WriterCells

theorem length_fmtValue (spec : Spec) (v : Value) (h : fitsCell spec v = true) :
    (fmtValue spec v).length = spec.width := by
  unfold fmtValue
  exact length_pad _ (by simpa [fitsCell] using h)

theorem fields_in_columns_from (cells : List Cell) :
    ∀ (vals : List Value) (pos : Nat) (pre : Str), allFit cells vals = true → pre.length = pos →
      ∃ line, renderCells cells vals = some line ∧ line.length = nominalWidth cells ∧
        (nominalFrom pos cells).map (fun t => Text.slice t.2.1 t.2.2 (pre ++ line)) = cellTexts cells vals := by
  induction cells with
  | nil => intro vals pos pre _ _; exact ⟨[], rfl, rfl, rfl⟩
  | cons c cs ih =>
    intro vals pos pre h hpre
    cases c with
    | lit t =>
      simp only [allFit] at h
      obtain ⟨line, hr, hl, hs⟩ := ih vals (pos + t.toList.length) (pre ++ t.toList) h (by simp [hpre])
      refine ⟨t.toList ++ line, by simp [renderCells, hr], by simp [nominalWidth, hl], ?_⟩
      simp only [nominalFrom, cellTexts]
      rw [← hs]
      apply List.map_congr_left
      intro x _
      simp [List.append_assoc]
    | other n => simp [allFit] at h
    | fld n spec =>
      cases vals with
      | nil => simp [allFit] at h
      | cons v vs =>
        simp only [allFit, Bool.and_eq_true] at h
        obtain ⟨⟨hok, hfit⟩, hrest⟩ := h
        have hw := length_fmtValue spec v hfit
        obtain ⟨line, hr, hl, hs⟩ := ih vs (pos + spec.width) (pre ++ fmtValue spec v) hrest (by simp [hpre, hw])
        refine ⟨fmtValue spec v ++ line, by simp [renderCells, hok, hr], by simp [nominalWidth, hl, hw], ?_⟩
        simp only [nominalFrom, cellTexts, List.map_cons, List.cons.injEq]
        constructor
        · have : pre ++ (fmtValue spec v ++ line) = pre ++ fmtValue spec v ++ line := by simp [List.append_assoc]
          rw [this]
          exact slice_cell hpre (by rw [hw])
        · rw [← hs]
          apply List.map_congr_left
          intro x _
          simp [List.append_assoc]

theorem fields_in_columns_aux (cells : List Cell) (vals : List Value) (h : allFit cells vals = true) :
    ∃ line, renderCells cells vals = some line ∧ line.length = nominalWidth cells ∧
      (nominal cells).map (fun t => Text.slice t.2.1 t.2.2 line) = cellTexts cells vals := by
  obtain ⟨line, h1, h2, h3⟩ := fields_in_columns_from cells vals 0 [] h rfl
  exact ⟨line, h1, h2, by simpa [nominal] using h3⟩

theorem strip_cellTexts (cells : List Cell) :
    ∀ (vals : List Value), allFit cells vals = true → allClean cells vals = true →
      (cellTexts cells vals).map strip = valueTexts cells vals := by
  induction cells with
  | nil => intro vals _ _; rfl
  | cons c cs ih =>
    intro vals h hc
    cases c with
    | lit t => simp only [allFit, allClean] at h hc; simpa [cellTexts, valueTexts] using ih vals h hc
    | other n => simp [allFit] at h
    | fld n spec =>
      cases vals with
      | nil => simp [allFit] at h
      | cons v vs =>
        simp only [allFit, allClean, Bool.and_eq_true] at h hc
        simp only [cellTexts, valueTexts, List.map_cons, List.cons.injEq]
        exact ⟨by unfold fmtValue; exact strip_pad_cell _ _ hc.1, ih vs h.2 hc.2⟩

theorem readback_nominal_aux (cells : List Cell) (vals : List Value) (h : allFit cells vals = true)
    (hc : allClean cells vals = true) :
    ∃ line, renderCells cells vals = some line ∧
      (nominal cells).map (fun t => strip (Text.slice t.2.1 t.2.2 line)) = valueTexts cells vals := by
  obtain ⟨line, h1, _, h3⟩ := fields_in_columns_aux cells vals h
  refine ⟨line, h1, ?_⟩
  rw [← strip_cellTexts cells vals h hc, ← h3, List.map_map]
  rfl

theorem slice_split (l : Str) {a m b : Nat} (h1 : a ≤ m) (h2 : m ≤ b) :
    Text.slice a b l = Text.slice a m l ++ Text.slice m b l := by
  unfold Text.slice
  have ht : l.take m = (l.take b).take m := by
    rw [List.take_take]; congr 1; omega
  rw [ht]
  generalize l.take b = t
  conv => lhs; rw [← List.take_append_drop m t]
  rw [List.drop_append]
  by_cases hm : m ≤ t.length
  · have hlen : (t.take m).length = m := by simp; omega
    rw [hlen]
    have : a - m = 0 := by omega
    simp [this]
  · have : t.drop m = [] := by apply List.drop_eq_nil_of_le; omega
    simp [this]

theorem strip_blank_append {ws s : Str} (h : isBlank ws = true) : strip (ws ++ s) = strip s := by
  unfold strip
  rw [lstrip_isBlank_append h]

theorem strip_slice_wider (line : Str) (a s e b : Nat) (h1 : a ≤ s) (h2 : s ≤ e) (h3 : e ≤ b)
    (hl : isBlank (Text.slice a s line) = true) (hr : isBlank (Text.slice e b line) = true) :
    strip (Text.slice a b line) = strip (Text.slice s e line) := by
  rw [slice_split line h1 (by omega : s ≤ b), slice_split line h2 h3, ← List.append_assoc,
    strip_append_isBlank hr, strip_blank_append hl]

/-! ### whitespace splitting of adjacent right-aligned cells -/

theorem splitAux_blanks (k : Nat) (s : Str) : splitAux (blanks k ++ s) [] = splitAux s [] := by
  induction k with
  | zero => simp [blanks]
  | succ k ih =>
    have : blanks (k + 1) ++ s = ' ' :: (blanks k ++ s) := by simp [blanks, List.replicate_succ]
    rw [this]
    simp [splitAux, isSpace_blank, ih]

theorem splitAux_word (v : Str) (hv : ∀ c ∈ v, isSpace c = false) :
    ∀ (cur rest : Str), splitAux (v ++ rest) cur = splitAux rest (v.reverse ++ cur) := by
  induction v with
  | nil => intro cur rest; rfl
  | cons c v ih =>
    intro cur rest
    have hc : isSpace c = false := hv c (by simp)
    have step : splitAux (c :: (v ++ rest)) cur = splitAux (v ++ rest) (c :: cur) := by
      simp [splitAux, hc]
    rw [List.cons_append, step, ih (fun x hx => hv x (by simp [hx])) (c :: cur) rest]
    simp

theorem rjust_eq (w : Nat) (v : Str) : rjust w v = blanks (w - v.length) ++ v := rfl

theorem blanks_succ (k : Nat) : blanks (k + 1) = ' ' :: blanks k := by
  simp [blanks, List.replicate_succ]

theorem splitAux_space_after_word (v X : Str) (hne : v ≠ []) :
    splitAux (' ' :: X) v.reverse = v :: splitAux X [] := by
  have : v.reverse.isEmpty = false := by
    cases v with
    | nil => exact absurd rfl hne
    | cons a b => simp
  simp [splitAux, isSpace_blank, this]

theorem split_cells_aux (parts : List (Nat × Str))
    (h : ∀ p ∈ parts, p.2 ≠ [] ∧ (∀ c ∈ p.2, isSpace c = false) ∧ p.2.length < p.1) :
    splitAux (parts.map fun p => rjust p.1 p.2).flatten [] = parts.map (·.2) := by
  induction parts with
  | nil => rfl
  | cons p ps ih =>
    obtain ⟨hne, hns, hlt⟩ := h p (by simp)
    have ih' := ih (fun q hq => h q (by simp [hq]))
    simp only [List.map_cons, List.flatten_cons]
    rw [rjust_eq, List.append_assoc, splitAux_blanks, splitAux_word p.2 hns, List.append_nil]
    cases ps with
    | nil =>
      have : p.2.reverse.isEmpty = false := by
        cases hp : p.2 with
        | nil => exact absurd hp hne
        | cons a b => simp
      simp [splitAux, this]
    | cons q qs =>
      obtain ⟨_, _, hq⟩ := h q (by simp)
      simp only [List.map_cons, List.flatten_cons] at ih' ⊢
      have hk : q.1 - q.2.length = (q.1 - q.2.length - 1) + 1 := by omega
      rw [rjust_eq, List.append_assoc] at ih' ⊢
      rw [splitAux_blanks] at ih'
      rw [hk, blanks_succ, List.cons_append, splitAux_space_after_word _ _ hne, splitAux_blanks, ih']

theorem split_rjust_cells (parts : List (Nat × Str))
    (h : ∀ p ∈ parts, p.2 ≠ [] ∧ (∀ c ∈ p.2, isSpace c = false) ∧ p.2.length < p.1) :
    Text.split (' ' :: (parts.map fun p => rjust p.1 p.2).flatten) = parts.map (·.2) := by
  unfold Text.split
  simp only [splitAux, isSpace_blank, if_true, List.isEmpty_nil]
  exact split_cells_aux parts h

end Midgard.Writers

/-! ### how wide a fixed-point number prints (`fmtFixed_width`) -/

namespace Midgard.Decimal
open Midgard.Text

theorem natDigits_length_le : ∀ (k n : Nat), 0 < k → n < 10 ^ k → (natDigits n).length ≤ k := by
  intro k
  induction k with
  | zero => intro n h; omega
  | succ k ih =>
    intro n _ h
    unfold natDigits
    by_cases h10 : n < 10
    · simp [h10]
    · simp only [h10, if_false, List.length_append, List.length_singleton]
      have hk : 0 < k := by
        rcases Nat.eq_zero_or_pos k with h0 | h0
        · subst h0; simp at h; omega
        · exact h0
      have : n / 10 < 10 ^ k := by
        rw [Nat.div_lt_iff_lt_mul (by decide)]
        rw [Nat.pow_succ] at h; exact h
      have := ih (n / 10) hk this
      omega

theorem natDigits_length_pos (n : Nat) : 0 < (natDigits n).length := by
  unfold natDigits
  by_cases h10 : n < 10 <;> simp [h10]

theorem length_fracDigits (p n : Nat) (hp : 0 < p) (h : n < 10 ^ p) : (fracDigits p n).length = p := by
  unfold fracDigits
  have := natDigits_length_le p n hp h
  simp; omega

theorem length_fmtFixedCore_le (q : Rat) (p k : Nat) (hp : 0 < p) (hk : 0 < k)
    (hn : (roundHalfEven ((if q < 0 then -q else q) * pow10 p)).toNat < 10 ^ (k + p)) :
    (fmtFixedCore q p).length ≤ (if q < 0 then 1 else 0) + k + 1 + p := by
  unfold fmtFixedCore
  simp only []
  generalize (roundHalfEven ((if q < 0 then -q else q) * pow10 p)).toNat = n at hn ⊢
  have hip : n / 10 ^ p < 10 ^ k := by
    rw [Nat.div_lt_iff_lt_mul (Nat.pow_pos (by decide))]
    rw [Nat.pow_add] at hn; exact hn
  have h1 := natDigits_length_le k (n / 10 ^ p) hk hip
  have h2 := length_fracDigits p (n % 10 ^ p) hp (Nat.mod_lt _ (Nat.pow_pos (by decide)))
  have hp0 : p ≠ 0 := by omega
  by_cases hq : q < 0 <;> simp [hq, hp0, h2] <;> omega

end Midgard.Decimal

namespace Midgard.Decimal

theorem roundHalfEven_le_of_le_int (a : Rat) (M : Int) (h : a ≤ (M : Rat)) : roundHalfEven a ≤ M := by
  unfold roundHalfEven
  simp only []
  have hf : a.floor ≤ M := by
    have h1 : ((a.floor : Int) : Rat) ≤ a := Rat.floor_le a
    have h2 : ((a.floor : Int) : Rat) ≤ (M : Rat) := Rat.le_trans h1 h
    exact_mod_cast h2
  by_cases hlt : a.floor < M
  · split
    · omega
    · split <;> (try split) <;> omega
  · have heq : a.floor = M := by omega
    have hz : a - (a.floor : Rat) = 0 := by
      have h1 : ((a.floor : Int) : Rat) ≤ a := Rat.floor_le a
      rw [heq] at h1 ⊢
      have : a = (M : Rat) := Rat.le_antisymm h h1
      rw [this]; grind
    have hpos : (0 : Rat) < 1 / 2 := by decide +kernel
    rw [heq] at hz
    rw [heq, hz]
    simp [hpos]

theorem roundHalfEven_nonneg (a : Rat) (h : 0 ≤ a) : 0 ≤ roundHalfEven a := by
  unfold roundHalfEven
  simp only []
  have hf : 0 ≤ a.floor := by
    have h1 : a < ((a.floor + 1 : Int) : Rat) := Rat.lt_floor_add_one a
    have h2 : (0 : Rat) < ((a.floor + 1 : Int) : Rat) := by grind
    have h3 : (0 : Int) < a.floor + 1 := by exact_mod_cast h2
    omega
  split
  · exact hf
  · split <;> (try split) <;> omega

end Midgard.Decimal

namespace Midgard.Decimal

/-- **fmtFixed_width.**  A value whose magnitude, scaled to the printed precision, does not exceed
`10^(k+p) − 1` prints with at most `k` integer digits: sign + k + point + p characters. -/
theorem fmtFixedCore_fits (q : Rat) (p k : Nat) (hp : 0 < p) (hk : 0 < k)
    (h : (if q < 0 then -q else q) * pow10 p ≤ ((10 ^ (k + p) - 1 : Nat) : Rat)) :
    (fmtFixedCore q p).length ≤ (if q < 0 then 1 else 0) + k + 1 + p := by
  apply length_fmtFixedCore_le q p k hp hk
  have hcast : (((10 ^ (k + p) - 1 : Nat) : Int) : Rat) = ((10 ^ (k + p) - 1 : Nat) : Rat) := by
    simp [Rat.intCast_natCast]
  have hM := roundHalfEven_le_of_le_int _ ((10 ^ (k + p) - 1 : Nat) : Int) (by rw [hcast]; exact h)
  have hpos : 0 < 10 ^ (k + p) := Nat.pow_pos (by decide)
  omega

end Midgard.Decimal

namespace Midgard.Decimal
open Midgard.WriterCells

theorem pow10_4 : pow10 4 = 10000 := by decide +kernel
theorem pow10_5 : pow10 5 = 100000 := by decide +kernel

theorem coord_abs_bound (q : Rat) (hlo : -(99999999999 / 10000 : Rat) ≤ q) (hhi : q ≤ 99999999999 / 10000) :
    (if q < 0 then -q else q) ≤ 99999999999 / 10000 := by
  split <;> grind

theorem coordinate_fits (q : Rat) (hlo : -(99999999999 / 10000 : Rat) ≤ q) (hhi : q ≤ 99999999999 / 10000) :
    fitsCellStrict ⟨none, 14, some 4, .fix⟩ (.num q) = true ∧
    fitsCell ⟨none, 14, some 5, .fix⟩ (.num q) = true ∧
    fitsCell ⟨none, 16, some 5, .fix⟩ (.num q) = true := by
  have ha := coord_abs_bound q hlo hhi
  have h4 : (if q < 0 then -q else q) * pow10 4 ≤ ((10 ^ (7 + 4) - 1 : Nat) : Rat) := by
    rw [pow10_4]
    have : ((10 ^ (7 + 4) - 1 : Nat) : Rat) = 99999999999 := by decide +kernel
    rw [this]; grind
  have h5 : (if q < 0 then -q else q) * pow10 5 ≤ ((10 ^ (7 + 5) - 1 : Nat) : Rat) := by
    rw [pow10_5]
    have : ((10 ^ (7 + 5) - 1 : Nat) : Rat) = 999999999999 := by decide +kernel
    rw [this]; grind
  have l4 := fmtFixedCore_fits q 4 7 (by decide) (by decide) h4
  have l5 := fmtFixedCore_fits q 5 7 (by decide) (by decide) h5
  have s : (if q < 0 then 1 else 0) ≤ 1 := by split <;> omega
  unfold fitsCellStrict fitsCell
  refine ⟨decide_eq_true ?_, decide_eq_true ?_, decide_eq_true ?_⟩ <;>
    simp only [Value.text, Option.getD_some] <;> omega

end Midgard.Decimal
