/-
C11, RINEX 2, part 13: header records — the handler gets the printed cells (`rec_parsed2` for the kinds cut with the standard's
columns, `ver2_parsed`, `types2_parsed`, `types2c_parsed` for the wider parser fields).  Core Lean only.
-/
import Midgard.Proofs.Rinex2ObsBlocks

namespace Midgard.Spec.Rinex2ObsFile
open Midgard.Text Midgard.FixedCol Midgard.Decimal Midgard.ChainParser Midgard.RinexObs Midgard.Rinex2Obs
open Midgard.Spec.Rinex (RecSpec headerSpecs renderLabelled renderCells findKind)
open Midgard.RinexObs.Records (specOk specs_ok zip_snd)
open Midgard.Spec.Rinex3ObsFile (Style styled rstrip_styled spec rec map_pair_zip spec_eq findKind_mem)

/-! ### header records of RINEX 2 -/

theorem roundtrip_ok (sp : RecSpec) (hok : specOk sp = true) (cells : List Str)
    (hlen : cells.length = sp.layout.length) (hf : Fits sp.layout (sp.aligns.zip cells) = true) :
    sp.layout.map (fun f => FixedCol.slice f (rstrip (renderLabelled sp cells))) = cells ∧
    asString (strip (sliceFrom 60 (rstrip (renderLabelled sp cells)))) = sp.label := by
  simp only [specOk, Bool.and_eq_true, decide_eq_true_eq, Bool.not_eq_eq_eq_not, Bool.not_true] at hok
  obtain ⟨⟨⟨⟨hs, hw⟩, hal⟩, hc⟩, hne⟩ := hok
  have hne' : sp.label.toList ≠ [] := by
    intro h; rw [h] at hne; simp at hne
  have hfields := labelled_fields sp.layout (sp.aligns.zip cells) sp.label.toList hs hf
  rw [zip_snd _ _ (by omega)] at hfields
  have hlab := labelled_label sp.layout (sp.aligns.zip cells) sp.label.toList hs hf hw hc hne'
  refine ⟨hfields, ?_⟩
  unfold renderLabelled renderCells
  rw [hlab, strip_of_clean hc]
  simp [asString]

/-- a header record cut with the columns it was written with: the registered handler gets the cells -/
theorem hdr_line2 (sp : RecSpec) (hok : specOk sp = true) (d : LabelDef)
    (hd : Midgard.Generated.Rinex2ObsCols.header.find? (·.label == sp.label) = some d)
    (hfl : d.fields = sp.layout) (hop : d.openFields = []) (hst : d.strip = .whitespace)
    (cells : List Str) (hlen : cells.length = sp.layout.length) (hf : Fits sp.layout (sp.aligns.zip cells) = true)
    (n : Nat) (s : State) :
    parseLine headerParser (rstrip (renderLabelled sp cells)) n s =
      handle d.handler ((sp.layout.map (·.name)).zip cells) s := by
  unfold parseLine
  have h1 : headerParser.skipLine (rstrip (renderLabelled sp cells)) = false := rfl
  rw [h1]
  simp only [Bool.false_eq_true, if_false]
  have hrt := roundtrip_ok sp hok cells hlen hf
  have h2 : headerParser.label (rstrip (rstrip (renderLabelled sp cells))) n = sp.label := by
    rw [rstrip_idem]; exact hrt.2
  rw [h2]
  have h3 : headerParser.defs = Midgard.Generated.Rinex2ObsCols.header := rfl
  rw [h3, hd]
  simp only
  have hv : d.values (rstrip (renderLabelled sp cells)) = (sp.layout.map (·.name)).zip cells := by
    unfold LabelDef.values
    rw [hop, hst, hfl]
    simp only [List.map_nil, List.append_nil, StripOpt.apply]
    have := map_pair_zip sp.layout (·.name) (fun f => FixedCol.slice f (rstrip (renderLabelled sp cells)))
    simp only [FixedCol.slice] at this hrt
    rw [this, hrt.1]
  rw [hv]
  rfl

/-- the kinds whose columns the RINEX 2 parser cuts exactly as the standard defines them -/
def lineKinds2 : List (String × String) := kinds.filter fun kh => kh.1 != "VER2" && kh.1 != "TYPES2" && kh.1 != "TYPES2C"

def lineOk2 (kh : String × String) : Bool :=
  match findKind kh.1 with
  | some sp =>
    (match Midgard.Generated.Rinex2ObsCols.header.find? (·.label == sp.label) with
     | some d => d.fields == sp.layout && d.openFields.isEmpty && d.strip == .whitespace && d.handler == kh.2 &&
        handlerOf kh.1 == kh.2 && sp.label.toList.take 13 != "END OF HEADER".toList
     | none => false)
  | none => false

theorem line_table2 : lineKinds2.all lineOk2 = true := by decide +kernel

theorem names_eq (k : String) : names k = (spec k).layout.map (·.name) := rfl

theorem rec_parsed2 (k h : String) (hmem : (k, h) ∈ lineKinds2) (cells : List Str) (hok : okCells k cells = true)
    (n : Nat) (s : State) :
    parseLine headerParser (rstrip (rec k cells)) n s = handle (handlerOf k) ((names k).zip cells) s := by
  have hok' := List.all_eq_true.mp line_table2 (k, h) hmem
  unfold lineOk2 at hok'
  simp only at hok'
  simp only [okCells, Bool.and_eq_true, decide_eq_true_eq] at hok
  obtain ⟨⟨hlen, hf⟩, _⟩ := hok
  cases hk : findKind k with
  | none => simp [hk] at hok'
  | some sp =>
    simp only [hk] at hok'
    cases hd : Midgard.Generated.Rinex2ObsCols.header.find? (·.label == sp.label) with
    | none => simp [hd] at hok'
    | some d =>
      simp only [hd, Bool.and_eq_true, beq_iff_eq, List.isEmpty_iff] at hok'
      obtain ⟨⟨⟨⟨⟨hfl, hop⟩, hst⟩, hh⟩, hh2⟩, _⟩ := hok'
      have hs := spec_eq hk
      have hspok := List.all_eq_true.mp specs_ok sp (findKind_mem hk)
      unfold rec
      rw [names_eq]
      rw [hs] at hlen hf ⊢
      rw [hdr_line2 sp hspok d hd hfl hop hst cells hlen hf n s, hh, hh2]


/-! ### `RINEX VERSION / TYPE`: the version field with the eleven blank columns after it -/

def ver2Spec : RecSpec :=
  ⟨"VER2", "RINEX VERSION / TYPE", [⟨"version", 0, 9⟩, ⟨"file_type", 20, 21⟩, ⟨"sat_sys", 40, 41⟩], [Spec.Rinex.R, Spec.Rinex.L, Spec.Rinex.L]⟩

theorem ver2_spec : spec "VER2" = ver2Spec := by decide +kernel

theorem ver2_mem : ver2Spec ∈ headerSpecs := by decide +kernel

theorem ver2_def : Midgard.Generated.Rinex2ObsCols.header.find? (·.label == "RINEX VERSION / TYPE") =
    some ⟨"RINEX VERSION / TYPE", "_parse_rinex_version_type", .whitespace,
      [⟨"version", 0, 20⟩, ⟨"file_type", 20, 21⟩, ⟨"sat_sys", 40, 41⟩], []⟩ := by decide +kernel

theorem ver2_parsed (cells : List Str) (hok : okCells "VER2" cells = true) (n : Nat) (s : State) :
    parseLine headerParser (rstrip (rec "VER2" cells)) n s = handle (handlerOf "VER2") ((names "VER2").zip cells) s := by
  simp only [okCells, Bool.and_eq_true, decide_eq_true_eq] at hok
  obtain ⟨⟨hlen, hf⟩, _⟩ := hok
  unfold rec names
  rw [ver2_spec] at hlen hf ⊢
  have hrt := roundtrip_ok ver2Spec (List.all_eq_true.mp specs_ok ver2Spec ver2_mem) cells hlen hf
  match cells, hlen with
  | [v, t, sy], _ =>
  simp only [ver2Spec, Fits, Field.width, Bool.and_eq_true, decide_eq_true_eq, List.zip_cons_cons, Spec.Rinex.R, Spec.Rinex.L] at hf
  obtain ⟨⟨hv9, hvc⟩, _⟩ := hf
  have hv9 : v.length ≤ 9 := by simpa using of_decide_eq_true hv9
  unfold parseLine
  have h1 : headerParser.skipLine (rstrip (renderLabelled ver2Spec [v, t, sy])) = false := rfl
  rw [h1]
  simp only [Bool.false_eq_true, if_false]
  have h2 : headerParser.label (rstrip (rstrip (renderLabelled ver2Spec [v, t, sy]))) n = "RINEX VERSION / TYPE" := by
    rw [rstrip_idem]; exact hrt.2
  rw [h2]
  have h3 : headerParser.defs = Midgard.Generated.Rinex2ObsCols.header := rfl
  rw [h3, ver2_def]
  simp only
  -- the version field with the eleven blank columns after it
  have hver : FixedCol.slice ⟨"version", 0, 20⟩ (rstrip (renderLabelled ver2Spec [v, t, sy])) = v := by
    rw [slice_rstrip]
    unfold FixedCol.slice sliceRaw renderLabelled Spec.Rinex.renderCells
    have hr : renderA ver2Spec.layout (ver2Spec.aligns.zip [v, t, sy]) =
        [] ++ (rjust 9 v ++ blanks 11) ++ (ljust 1 t ++ (blanks 19 ++ ljust 1 sy)) := by
      simp [ver2Spec, renderA, renderFrom, pad, Field.width, Spec.Rinex.R, Spec.Rinex.L, blanks, List.append_assoc]
    rw [hr]
    simp only [ljust, List.append_assoc]
    have := @slice_cell [] (rjust 9 v ++ blanks 11)
      (ljust 1 t ++ (blanks 19 ++ ljust 1 sy) ++ blanks (60 - ([] ++ (rjust 9 v ++ blanks 11) ++ (ljust 1 t ++ (blanks 19 ++ ljust 1 sy))).length) ++ ver2Spec.label.toList)
      0 20 rfl (by simp [length_rjust hv9, blanks])
    simp only [ljust, List.append_assoc, List.nil_append] at this ⊢
    rw [this]
    unfold rjust
    exact strip_pad hvc (isBlank_blanks _) (isBlank_blanks _)
  have hfields : [FixedCol.slice ⟨"version", 0, 9⟩ (rstrip (renderLabelled ver2Spec [v, t, sy])),
      FixedCol.slice ⟨"file_type", 20, 21⟩ (rstrip (renderLabelled ver2Spec [v, t, sy])),
      FixedCol.slice ⟨"sat_sys", 40, 41⟩ (rstrip (renderLabelled ver2Spec [v, t, sy]))] = [v, t, sy] := hrt.1
  generalize rstrip (renderLabelled ver2Spec [v, t, sy]) = line at hfields hver ⊢
  simp only [List.cons.injEq, and_true] at hfields
  obtain ⟨_, ht, hsy⟩ := hfields
  simp only [LabelDef.values, List.map_cons, List.map_nil, List.append_nil, StripOpt.apply]
  simp only [FixedCol.slice] at hver ht hsy
  rw [hver, ht, hsy]
  rfl



/-! ### `# / TYPES OF OBSERV`: the parser's six-column type fields -/

/-- the record written with the parser's columns: `I6,9(A6)` with the types right-aligned -/
def types2P : RecSpec :=
  ⟨"TYPES2P", "# / TYPES OF OBSERV", ⟨"num_obstypes", 0, 6⟩ :: ((List.range 9).map fun k => ⟨s!"type_{k + 1}", 6 + 6 * k, 12 + 6 * k⟩),
    Spec.Rinex.R :: List.replicate 9 Spec.Rinex.R⟩

theorem types2P_ok : specOk types2P = true := by decide +kernel

theorem types2_def : Midgard.Generated.Rinex2ObsCols.header.find? (·.label == types2P.label) =
    some ⟨"# / TYPES OF OBSERV", "_parse_types_of_observ", .whitespace, types2P.layout, []⟩ := by decide +kernel

def TwoOrNone (t : Str) : Prop := t.length = 0 ∨ t.length = 2

/-- `4X,A2` is `A6` right-aligned for a two-character (or empty) type -/
theorem type_fields_eq : ∀ (ts : List Str) (k : Nat), (∀ t ∈ ts, TwoOrNone t) →
    renderFrom (6 + 6 * k) ((List.range' k ts.length).map fun j => (⟨s!"type_{j + 1}", 10 + 6 * j, 12 + 6 * j⟩ : Field))
        (ts.map fun t => (Align.left, t)) =
      renderFrom (6 + 6 * k) ((List.range' k ts.length).map fun j => (⟨s!"type_{j + 1}", 6 + 6 * j, 12 + 6 * j⟩ : Field))
        (ts.map fun t => (Align.right, t)) := by
  intro ts
  induction ts with
  | nil => intro k _; rfl
  | cons t ts ih =>
    intro k h
    have := ih (k + 1) (fun t' ht' => h t' (by simp [ht']))
    have e1 : 6 + 6 * (k + 1) = 12 + 6 * k := by omega
    rw [e1] at this
    simp only [List.length_cons, List.range'_succ, List.map_cons, renderFrom, Field.width, pad]
    rw [this]
    have w0 : 10 + 6 * k - (6 + 6 * k) = 4 := by omega
    have w1 : 12 + 6 * k - (10 + 6 * k) = 2 := by omega
    have w2 : 6 + 6 * k - (6 + 6 * k) = 0 := by omega
    have w3 : 12 + 6 * k - (6 + 6 * k) = 6 := by omega
    rw [w0, w1, w2, w3]
    congr 1
    rcases h t (by simp) with h0 | h2
    · have : t = [] := List.length_eq_zero_iff.mp h0
      subst this
      simp [ljust, rjust, blanks]
    · simp [ljust, rjust, blanks, h2]


theorem fits_widen : ∀ (ts : List Str) (k : Nat),
    Fits ((List.range' k ts.length).map fun j => (⟨s!"type_{j + 1}", 10 + 6 * j, 12 + 6 * j⟩ : Field)) (ts.map fun t => (Align.left, t)) = true →
    Fits ((List.range' k ts.length).map fun j => (⟨s!"type_{j + 1}", 6 + 6 * j, 12 + 6 * j⟩ : Field)) (ts.map fun t => (Align.right, t)) = true := by
  intro ts
  induction ts with
  | nil => intro k _; rfl
  | cons t ts ih =>
    intro k h
    simp only [List.length_cons, List.range'_succ, List.map_cons, Fits, Field.width, Bool.and_eq_true] at h ⊢
    exact ⟨⟨decide_eq_true (by have := of_decide_eq_true h.1.1; omega), h.1.2⟩, ih (k + 1) h.2⟩

theorem spec_types2 : spec "TYPES2" = ⟨"TYPES2", "# / TYPES OF OBSERV",
    ⟨"num_obstypes", 0, 6⟩ :: ((List.range 9).map fun k => ⟨s!"type_{k + 1}", 10 + 6 * k, 12 + 6 * k⟩),
    Spec.Rinex.R :: List.replicate 9 Spec.Rinex.L⟩ := by decide +kernel

theorem spec_types2c : spec "TYPES2C" = ⟨"TYPES2C", "# / TYPES OF OBSERV",
    (List.range 9).map fun k => ⟨s!"type_{k + 1}", 10 + 6 * k, 12 + 6 * k⟩, List.replicate 9 Spec.Rinex.L⟩ := by decide +kernel

/-- a `# / TYPES OF OBSERV` record (first or continuation: `n = []`) written with the standard's columns is the record written
with the parser's columns, and its cells fit those -/
theorem types_render (n : Str) (ts : List Str) (hl : ts.length = 9) (h2 : ∀ t ∈ ts, TwoOrNone t)
    (hf : Fits ((List.range' 0 ts.length).map fun j => (⟨s!"type_{j + 1}", 10 + 6 * j, 12 + 6 * j⟩ : Field)) (ts.map fun t => (Align.left, t)) = true)
    (hn : n.length ≤ 6) (hnc : Clean n = true) :
    renderFrom 6 ((List.range' 0 ts.length).map fun j => (⟨s!"type_{j + 1}", 10 + 6 * j, 12 + 6 * j⟩ : Field)) (ts.map fun t => (Align.left, t)) =
      renderFrom 6 ((List.range' 0 ts.length).map fun j => (⟨s!"type_{j + 1}", 6 + 6 * j, 12 + 6 * j⟩ : Field)) (ts.map fun t => (Align.right, t)) ∧
    Fits types2P.layout (types2P.aligns.zip (n :: ts)) = true := by
  refine ⟨by simpa using type_fields_eq ts 0 h2, ?_⟩
  have hw := fits_widen ts 0 hf
  have hz : (List.replicate 9 Spec.Rinex.R).zip ts = ts.map fun t => (Align.right, t) := by
    rw [← hl]; exact zip_replicate _ ts
  simp only [types2P, List.zip_cons_cons, hz, Fits, Field.width, Bool.and_eq_true]
  refine ⟨⟨decide_eq_true (by omega), hnc⟩, ?_⟩
  rw [List.range_eq_range', ← hl]
  exact hw


theorem names_types2 : names "TYPES2" = types2P.layout.map (·.name) ∧ names "TYPES2C" = (types2P.layout.map (·.name)).drop 1 ∧
    handlerOf "TYPES2" = "_parse_types_of_observ" ∧ handlerOf "TYPES2C" = "_parse_types_of_observ" := by decide +kernel

theorem types2_parsed (cells : List Str) (hok : okCells "TYPES2" cells = true) (h2 : ∀ t ∈ cells.drop 1, TwoOrNone t)
    (n : Nat) (s : State) :
    parseLine headerParser (rstrip (rec "TYPES2" cells)) n s = handle (handlerOf "TYPES2") (valuesOf "TYPES2" cells) s := by
  simp only [okCells, Bool.and_eq_true, decide_eq_true_eq] at hok
  obtain ⟨⟨hlen, hf⟩, _⟩ := hok
  rw [spec_types2] at hlen hf
  match cells, hlen with
  | nc :: ts, hlen =>
  have hl : ts.length = 9 := by simpa using hlen
  have hz : (List.replicate 9 Spec.Rinex.L).zip ts = ts.map fun t => (Align.left, t) := by
    rw [← hl]; exact zip_replicate _ ts
  simp only [List.zip_cons_cons, hz, Fits, Field.width, Bool.and_eq_true, List.range_eq_range'] at hf
  obtain ⟨⟨hn, hnc⟩, hfts⟩ := hf
  rw [← hl] at hfts
  obtain ⟨hren, hfit⟩ := types_render nc ts hl (fun t ht => h2 t (by simpa using ht)) hfts (by simpa using of_decide_eq_true hn) hnc
  have heq : rec "TYPES2" (nc :: ts) = renderLabelled types2P (nc :: ts) := by
    unfold rec
    rw [spec_types2]
    have hzR : (List.replicate 9 Spec.Rinex.R).zip ts = ts.map fun t => (Align.right, t) := by
      rw [← hl]; exact zip_replicate _ ts
    simp only [renderLabelled, renderCells, renderA, types2P, List.zip_cons_cons, hz, hzR, renderFrom, Field.width, pad, List.range_eq_range']
    rw [← hl, hren]
  rw [heq, hdr_line2 types2P types2P_ok _ types2_def rfl rfl rfl (nc :: ts) (by simp [types2P, hl]) hfit n s]
  simp only [valuesOf, names_types2.1, names_types2.2.2.1, String.reduceEq, if_false]

theorem types2c_parsed (cells : List Str) (hok : okCells "TYPES2C" cells = true) (h2 : ∀ t ∈ cells, TwoOrNone t)
    (n : Nat) (s : State) :
    parseLine headerParser (rstrip (rec "TYPES2C" cells)) n s = handle (handlerOf "TYPES2C") (valuesOf "TYPES2C" cells) s := by
  simp only [okCells, Bool.and_eq_true, decide_eq_true_eq] at hok
  obtain ⟨⟨hlen, hf⟩, _⟩ := hok
  rw [spec_types2c] at hlen hf
  have hl : cells.length = 9 := by simpa using hlen
  have hz : (List.replicate 9 Spec.Rinex.L).zip cells = cells.map fun t => (Align.left, t) := by
    rw [← hl]; exact zip_replicate _ cells
  simp only [hz, List.range_eq_range'] at hf
  rw [← hl] at hf
  obtain ⟨hren, hfit⟩ := types_render [] cells hl h2 hf (by simp) rfl
  have heq : rec "TYPES2C" cells = renderLabelled types2P ([] :: cells) := by
    unfold rec
    rw [spec_types2c]
    have hzR : (List.replicate 9 Spec.Rinex.R).zip cells = cells.map fun t => (Align.right, t) := by
      rw [← hl]; exact zip_replicate _ cells
    simp only [renderLabelled, renderCells, renderA, types2P, List.zip_cons_cons, hz, hzR, renderFrom, Field.width, pad, List.range_eq_range']
    rw [← hl]
    -- the first type field of the continuation record starts after ten blanks
    cases hc : cells with
    | nil => rw [hc] at hl; simp at hl
    | cons t0 ts0 =>
      rw [hc] at hren
      have hshift : renderFrom 0
          ((List.range' 0 (t0 :: ts0).length).map fun k => (⟨toString "type_" ++ toString (k + 1), 10 + 6 * k, 12 + 6 * k⟩ : Field))
          ((t0 :: ts0).map fun t => (Align.left, t)) =
          blanks 6 ++ renderFrom 6
            ((List.range' 0 (t0 :: ts0).length).map fun k => (⟨toString "type_" ++ toString (k + 1), 10 + 6 * k, 12 + 6 * k⟩ : Field))
            ((t0 :: ts0).map fun t => (Align.left, t)) := by
        simp only [List.length_cons, List.range'_succ, List.map_cons, renderFrom]
        simp only [Nat.mul_zero, Nat.add_zero, Nat.sub_zero, show (10 - 6 : Nat) = 4 from rfl]
        have b10 : blanks 10 = blanks 6 ++ blanks 4 := by simp [blanks, List.replicate_append_replicate]
        rw [b10]
        simp only [List.append_assoc]
      rw [hshift, hren]
      simp [Spec.Rinex.R, rjust, blanks]
  rw [heq, hdr_line2 types2P types2P_ok _ types2_def rfl rfl rfl ([] :: cells) (by simp [types2P, hl]) hfit n s]
  simp only [valuesOf, names_types2.1, names_types2.2.1, names_types2.2.2.2, if_true]
  rfl

end Midgard.Spec.Rinex2ObsFile
