/-
C11, RINEX 2, part 16: the header handlers at value level, second half — `# / TYPES OF OBSERV` with its continuation
records: first record (`types2_first`) and continuation records (`types2_cont`) through one loop invariant (`TInv`).  Core Lean only.
-/
import Midgard.Proofs.Rinex2ObsHandlers

namespace Midgard.Spec.Rinex2ObsFile
open Midgard.Text Midgard.FixedCol Midgard.Decimal Midgard.ChainParser Midgard.RinexObs Midgard.Rinex2Obs
open Midgard.Spec.Rinex3ObsFile (get_set_ne get_set_same bind_ok' foldl_error addType EmptyCols declareType_empty
  filter_zip_all sortFields_zip isT keysSorted)

/-! ### a fold over `Except` with an invariant -/

theorem foldl_error' {σ α} (step : Except Err σ → α → Except Err σ) (herr : ∀ e x, step (.error e) x = .error e) :
    ∀ (l : List α) (e : Err), l.foldl step (.error e) = .error e := by
  intro l
  induction l with
  | nil => intro e; rfl
  | cons x l ih => intro e; rw [List.foldl_cons, herr, ih]

theorem foldl_except_inv {σ α} (step : Except Err σ → α → Except Err σ) (P : List α → σ → Prop)
    (hstep : ∀ done st x st', P done st → step (.ok st) x = .ok st' → P (done ++ [x]) st')
    (herr : ∀ e x, step (.error e) x = .error e) :
    ∀ (l done : List α) (st s' : σ), P done st → l.foldl step (.ok st) = .ok s' → P (done ++ l) s' := by
  intro l
  induction l with
  | nil => intro done st s' hp h; simp only [List.foldl_nil, Except.ok.injEq] at h; subst h; simpa using hp
  | cons x l ih =>
    intro done st s' hp h
    rw [List.foldl_cons] at h
    cases hx : step (.ok st) x with
    | error e => rw [hx, foldl_error' step herr] at h; simp at h
    | ok s1 =>
      rw [hx] at h
      have := ih (done ++ [x]) s1 s' (hstep done st x s1 hp hx) h
      simpa [List.append_assoc] using this

/-! ### `# / TYPES OF OBSERV`: the field dictionary -/

def typeNames2 : List String := ["type_1", "type_2", "type_3", "type_4", "type_5", "type_6", "type_7", "type_8", "type_9"]

theorem names_t2 : names "TYPES2" = "num_obstypes" :: typeNames2 := by decide +kernel
theorem names_t2c : names "TYPES2C" = typeNames2 := by decide +kernel

theorem typeNames2_facts : isT "num_obstypes" = false ∧ typeNames2.all isT = true ∧ keysSorted typeNames2 = true := by
  decide +kernel

/-- first and continuation record have the same dictionary: the count (blank on a continuation record) and nine types -/
theorem valuesOf_types2 (c : Str) (tcs : List Str) :
    valuesOf "TYPES2" (c :: tcs) = ("num_obstypes", c) :: typeNames2.zip tcs := by
  simp [valuesOf, names_t2]

theorem valuesOf_types2c (tcs : List Str) : valuesOf "TYPES2C" tcs = ("num_obstypes", []) :: typeNames2.zip tcs := by
  simp [valuesOf, names_t2c]

theorem fields_types2 (c : Str) (tcs : List Str) :
    fieldsWithPrefix (("num_obstypes", c) :: typeNames2.zip tcs) "type_" = typeNames2.zip tcs := by
  unfold fieldsWithPrefix
  have hf : (fun (x : String × Str) => match x with | (k, _) => "type_".toList.isPrefixOf k.toList) = fun kv => isT kv.1 := by
    funext x; obtain ⟨k, c⟩ := x; rfl
  obtain ⟨h1, h3, h4⟩ := typeNames2_facts
  simp only [hf, List.filter_cons, h1, Bool.false_eq_true, if_false]
  rw [filter_zip_all isT typeNames2 tcs h3, sortFields_zip typeNames2 tcs h4]

theorem getv_types2 (c : Str) (tcs : List Str) : getv (("num_obstypes", c) :: typeNames2.zip tcs) "num_obstypes" = .ok c := by
  simp [getv, Values.get, List.find?, req]
  rfl

/-! ### `# / TYPES OF OBSERV`: the loop -/

def nonEmpty (l : List Str) : List Str := l.filter fun t => !t.isEmpty

/-- the parser state while the types of a record are collected: `l` is the type list so far, `m0` the dictionary the loop
started from -/
structure TInv (base : State) (m0 : Meta) (l : List Str) (st : State) : Prop where
  rate : st.rate = base.rate
  rows : rowCols st.data = rowCols base.data
  micros : st.data.timeMicros = base.data.timeMicros
  typ : st.metaD.get [key "obstypes"] = some (.list l)
  others : ∀ p, Prot2 p → p ≠ [key "obstypes"] → m0.get p ≠ some .empty → st.metaD.get p = m0.get p
  cols : EmptyCols st.data (l.foldl addType [])

theorem tinv_add {base : State} {m0 : Meta} {l : List Str} {st : State} (h : TInv base m0 l st) (t : Str) :
    TInv base m0 (l ++ [t])
      { st with metaD := st.metaD.set [key "obstypes"] (.list (l ++ [t])), data := st.data.declareType t } := by
  refine ⟨h.rate, h.rows, h.micros, get_set_same _ _ _, ?_, ?_⟩
  · intro p hp hne he
    show (st.metaD.set [key "obstypes"] _).get p = _
    have e := h.others p hp hne he
    rw [get_set_ne _ _ _ _ (Ne.symm hne) (by rw [e]; exact he), e]
  · rw [List.foldl_append]
    exact declareType_empty _ _ t h.cols

theorem nonEmpty_snoc (l : List Str) (t : Str) : nonEmpty (l ++ [t]) = nonEmpty l ++ (if t = [] then [] else [t]) := by
  unfold nonEmpty
  rw [List.filter_append]
  cases t with
  | nil => simp
  | cons a r => simp

/-- the loop over the type fields, given that it succeeds: the non-empty ones are appended in order -/
theorem types_loop (base : State) (m0 : Meta) (l0 : List Str) (v : Values) (s0 s' : State) (h0 : TInv base m0 l0 s0)
    (h : (fieldsWithPrefix v "type_").foldl (fun (acc : Except Err State) (f : String × Str) => do
        let st ← acc
        if f.2 = [] then pure st else
          match st.metaD.get [key "obstypes"] with
          | some (.list l) =>
            pure { st with metaD := st.metaD.set [key "obstypes"] (.list (l ++ [f.2])), data := st.data.declareType f.2 }
          | _ => throw .other) (.ok s0) = .ok s') :
    TInv base m0 (l0 ++ nonEmpty ((fieldsWithPrefix v "type_").map (·.2))) s' := by
  have := foldl_except_inv _ (fun done st => TInv base m0 (l0 ++ nonEmpty (done.map (·.2))) st) ?_ ?_
    (fieldsWithPrefix v "type_") [] s0 s' (by simpa [nonEmpty] using h0) h
  · simpa using this
  · intro done st x st' hp hx
    simp only [bind, Except.bind, pure, Except.pure] at hx
    simp only [List.map_append, List.map_cons, List.map_nil, nonEmpty_snoc]
    split at hx
    · rename_i hx2
      simp only [Except.ok.injEq] at hx; subst hx
      simpa [hx2] using hp
    · rename_i hx2
      rw [hp.typ] at hx
      simp only [Except.ok.injEq] at hx
      subst hx
      simp only [hx2, if_false, ← List.append_assoc]
      exact tinv_add hp x.2
  · intro e x; rfl

/-! ### `# / TYPES OF OBSERV`: a record -/

theorem emptyCols_hasObs {d : Data} {all : List Str} (h : EmptyCols d all) : EmptyCols { d with hasObs := true } all :=
  ⟨h.1, h.2.1, h.2.2⟩

/-- **the first `# / TYPES OF OBSERV` record**: `num_obstypes` is the count, the type list starts afresh -/
theorem types2_first (n : Nat) (c : Str) (tcs : List Str) (hc : countOk n (c :: tcs) = true) (hlen : tcs.length = 9) (s s' : State)
    (hcols : EmptyCols s.data [])
    (h : handle (handlerOf "TYPES2") (valuesOf "TYPES2" (c :: tcs)) s = .ok s') :
    TInv s ((s.metaD.set [key "num_obstypes"] (.int n)).set [key "obstypes"] (.list [])) (nonEmpty tcs) s' := by
  have hh : handle (handlerOf "TYPES2") (valuesOf "TYPES2" (c :: tcs)) s =
      parseTypesOfObserv (("num_obstypes", c) :: typeNames2.zip tcs) s := by
    rw [valuesOf_types2, names_types2.2.2.1]; simp [handle]
  rw [hh] at h
  simp only [countOk, Bool.and_eq_true, Bool.not_eq_eq_eq_not, Bool.not_true, beq_iff_eq] at hc
  obtain ⟨⟨hce, hcd⟩, hcv⟩ := hc
  have hcne : c ≠ [] := by intro e; subst e; simp at hce
  unfold parseTypesOfObserv at h
  rw [getv_types2] at h
  simp only [bind, Except.bind, hcne, ne_eq, not_false_eq_true, if_true,
    Midgard.Spec.Rinex2ObsFile.pyInt_digits c hcne hcd, pure, Except.pure, hcv] at h
  have hz : (typeNames2.zip tcs).map (·.2) = tcs := Midgard.RinexObs.Records.zip_snd _ _ (by rw [hlen]; rfl)
  have := types_loop s ((s.metaD.set [key "num_obstypes"] (.int n)).set [key "obstypes"] (.list [])) []
    (("num_obstypes", c) :: typeNames2.zip tcs)
    { s with metaD := (s.metaD.set [key "num_obstypes"] (.int n)).set [key "obstypes"] (.list []), data := { s.data with hasObs := true } } s'
    ⟨rfl, rfl, rfl, get_set_same _ _ _, fun _ _ _ _ => rfl, emptyCols_hasObs hcols⟩ h
  rw [fields_types2, hz] at this
  simpa using this

/-- **a continuation record**: the types are appended to the list -/
theorem types2_cont (tcs : List Str) (hlen : tcs.length = 9) (l0 : List Str) (s s' : State)
    (htyp : s.metaD.get [key "obstypes"] = some (.list l0)) (hcols : EmptyCols s.data (l0.foldl addType []))
    (h : handle (handlerOf "TYPES2C") (valuesOf "TYPES2C" tcs) s = .ok s') :
    TInv s s.metaD (l0 ++ nonEmpty tcs) s' := by
  have hh : handle (handlerOf "TYPES2C") (valuesOf "TYPES2C" tcs) s =
      parseTypesOfObserv (("num_obstypes", []) :: typeNames2.zip tcs) s := by
    rw [valuesOf_types2c, names_types2.2.2.2]; simp [handle]
  rw [hh] at h
  unfold parseTypesOfObserv at h
  rw [getv_types2] at h
  simp only [bind, Except.bind, ne_eq, not_true_eq_false, if_false, pure, Except.pure] at h
  have hz : (typeNames2.zip tcs).map (·.2) = tcs := Midgard.RinexObs.Records.zip_snd _ _ (by rw [hlen]; rfl)
  have := types_loop s s.metaD l0 (("num_obstypes", []) :: typeNames2.zip tcs)
    { s with metaD := s.metaD, data := { s.data with hasObs := true } } s'
    ⟨rfl, rfl, rfl, htyp, fun _ _ _ _ => rfl, emptyCols_hasObs hcols⟩ h
  rw [fields_types2, hz] at this
  exact this

end Midgard.Spec.Rinex2ObsFile
