/-
Lemmas about the ANTEX model at record / section level (moved here from Props/C15.lean so that the
file-level development in Proofs/AntexFile.lean can build on them).  Props/C15.lean restates each
as a property theorem.
-/
import Midgard.Model.Antex
import Midgard.Spec.Antex14
import Midgard.Proofs.ChainParser

namespace Midgard.Antex.Records
open Midgard.Text Midgard.FixedCol Midgard.ChainParser Midgard.Antex Midgard.Decimal
open Midgard.Spec.Antex14 (RecSpec specs renderLabelled findLabel)

/-! ### The code's column tables are the standard's -/

/-- every column the parser reads is a column of the ANTEX 1.4 record with that label -/
def colsInSpec (d : LabelDef) : Bool :=
  d.label == "CORRECTION" ||
  match findLabel d.label with
  | some sp => d.fields.all (fun f => sp.layout.contains f) && d.openFields.isEmpty && d.strip == .whitespace
  | none => false

theorem cols_eq_spec :
    Midgard.Generated.AntexCols.header.all colsInSpec = true ∧
    Midgard.Generated.AntexCols.records.all colsInSpec = true := by
  decide +kernel

/-- the handler registered for every label is the one the model dispatches to; in particular the
rows are reset at START OF FREQUENCY and saved at END OF FREQUENCY -/
theorem handlers_as_modelled :
    Midgard.Generated.AntexCols.records.map (fun d => (d.label, d.handler)) =
      [("TYPE / SERIAL NO", "parse_section_string"), ("DAZI", "parse_section_float"),
       ("ZEN1 / ZEN2 / DZEN", "parse_section_float"), ("# OF FREQUENCIES", "parse_num_of_frequencies"),
       ("VALID FROM", "parse_valid_from"), ("VALID UNTIL", "parse_valid_until"),
       ("START OF FREQUENCY", "parse_start_of_frequency"), ("NORTH / EAST / UP", "parse_section_float"),
       ("END OF FREQUENCY", "save_correction"), ("CORRECTION", "parse_correction")] ∧
    Midgard.Generated.AntexCols.header.map (fun d => (d.label, d.handler)) =
      [("ANTEX VERSION / SYST", "parse_string"), ("PCV TYPE / REFANT", "parse_string"), ("COMMENT", "parse_comment")] ∧
    (Midgard.Generated.AntexCols.records.find? (·.label == "CORRECTION")).map (fun d => (d.fields, d.openFields)) =
      some ([], [("values", 0)]) := by
  decide +kernel

/-! ### Per-record round trip (fixed columns + label) -/

/-- side conditions of every ANTEX 1.4 record layout, decided on the table -/
def specOk (sp : RecSpec) : Bool :=
  Sorted sp.layout && Within 60 sp.layout && decide (sp.aligns.length = sp.layout.length) &&
  Clean sp.label.toList && !sp.label.toList.isEmpty &&
  (match sp.label.toList with
   | c :: _ => isAlpha c || decide (c = '#')
   | [] => false)

theorem specs_ok : specs.all specOk = true := by decide +kernel

theorem zip_snd {α β} : ∀ (as : List α) (bs : List β), as.length = bs.length → (as.zip bs).map (·.2) = bs
  | [], [], _ => rfl
  | a :: as, b :: bs, h => by simp [zip_snd as bs (by simpa using h)]
  | [], _ :: _, h => by simp at h
  | _ :: _, [], h => by simp at h

/-- **Record round trip.**  A record of any ANTEX 1.4 kind whose cells fit their columns and have no
outer blanks is read back cell by cell from the (right-stripped) rendered line, and its label is
recognised by the header parser and by the antenna-section parser. -/
theorem record_roundtrip (sp : RecSpec) (hsp : sp ∈ specs) (cells : List Str)
    (hlen : cells.length = sp.layout.length) (hf : Fits sp.layout (sp.aligns.zip cells) = true) :
    sp.layout.map (fun f => slice f (rstrip (renderLabelled sp cells))) = cells ∧
    labelText (rstrip (renderLabelled sp cells)) = sp.label ∧
    corrLabel (rstrip (renderLabelled sp cells)) = sp.label := by
  have hok := List.all_eq_true.mp specs_ok sp hsp
  simp only [specOk, Bool.and_eq_true, decide_eq_true_eq, Bool.not_eq_eq_eq_not, Bool.not_true] at hok
  obtain ⟨⟨⟨⟨⟨hs, hw⟩, hal⟩, hc⟩, hne⟩, hfirst⟩ := hok
  have hne' : sp.label.toList ≠ [] := by
    intro h; rw [h] at hne; simp at hne
  have hfields := labelled_fields sp.layout (sp.aligns.zip cells) sp.label.toList hs hf
  rw [zip_snd _ _ (by omega)] at hfields
  have hlab := labelled_label sp.layout (sp.aligns.zip cells) sp.label.toList hs hf hw hc hne'
  have hlt : labelText (rstrip (renderLabelled sp cells)) = sp.label := by
    unfold labelText renderLabelled
    rw [hlab, strip_of_clean hc]
    simp [asString]
  refine ⟨hfields, hlt, ?_⟩
  -- the antenna-section label function looks at column 61 first
  unfold corrLabel
  have hr := labelled_rstrip sp.layout (sp.aligns.zip cells) sp.label.toList hc hne'
  have hlen60 : (ljust 60 (renderA sp.layout (sp.aligns.zip cells))).length = 60 :=
    length_ljust (renderA_length_le hs hf hw)
  cases hl : sp.label.toList with
  | nil => exact absurd hl hne'
  | cons c rest =>
    rw [hl] at hfirst
    have h61 : Text.slice 60 61 (rstrip (renderLabelled sp cells)) = [c] := by
      unfold renderLabelled
      rw [hr, hl]
      have : ljust 60 (renderA sp.layout (sp.aligns.zip cells)) ++ c :: rest
          = ljust 60 (renderA sp.layout (sp.aligns.zip cells)) ++ [c] ++ rest := by simp
      rw [this]
      exact slice_cell hlen60 rfl
    rw [h61]
    have hfirst' : (isAlpha c || decide (c = '#')) = true := hfirst
    show (if (isAlpha c || decide (c = '#')) = true then _ else _) = _
    rw [if_pos hfirst']
    exact hlt


/-! ### Records the parser does not read (COMMENT, METH / BY / # / DATE, SINEX CODE, START OF ANTENNA,
FREQ RMS brackets …) leave the state untouched wherever they stand in an antenna section -/

theorem rstrip_ne_nil_of_label (sp : RecSpec) (hsp : sp ∈ specs) (cells : List Str) :
    (rstrip (renderLabelled sp cells)).isEmpty = false := by
  have hok := List.all_eq_true.mp specs_ok sp hsp
  simp only [specOk, Bool.and_eq_true, decide_eq_true_eq, Bool.not_eq_eq_eq_not, Bool.not_true] at hok
  obtain ⟨⟨⟨⟨⟨_, _⟩, _⟩, hc⟩, hne⟩, _⟩ := hok
  have hne' : sp.label.toList ≠ [] := by
    intro h; rw [h] at hne; simp at hne
  unfold renderLabelled
  rw [labelled_rstrip _ _ _ hc hne']
  cases hl : sp.label.toList with
  | nil => exact absurd hl hne'
  | cons c r => simp

theorem comments_ignored (sp : RecSpec) (hsp : sp ∈ specs) (cells : List Str)
    (hlen : cells.length = sp.layout.length) (hf : Fits sp.layout (sp.aligns.zip cells) = true)
    (hunread : Midgard.Generated.AntexCols.records.find? (·.label == sp.label) = none)
    (n : Nat) (s : State) :
    parseLine corrParser (rstrip (renderLabelled sp cells)) n s = .ok s := by
  unfold parseLine
  have h1 : corrParser.skipLine (rstrip (renderLabelled sp cells)) = false := rstrip_ne_nil_of_label sp hsp cells
  rw [h1]
  simp only [Bool.false_eq_true, if_false]
  have h2 : corrParser.label (rstrip (rstrip (renderLabelled sp cells))) n = sp.label := by
    rw [rstrip_idem]
    exact (record_roundtrip sp hsp cells hlen hf).2.2
  rw [h2]
  have h3 : corrParser.defs = Midgard.Generated.AntexCols.records := rfl
  rw [h3, hunread]
  rfl

/-- the labels this applies to, on the current tables -/
theorem unread_labels :
    (specs.filter fun sp => (Midgard.Generated.AntexCols.records.find? (·.label == sp.label)).isNone).map (·.label) =
      ["ANTEX VERSION / SYST", "PCV TYPE / REFANT", "COMMENT", "END OF HEADER", "START OF ANTENNA", "END OF ANTENNA",
       "METH / BY / # / DATE", "SINEX CODE", "START OF FREQ RMS", "END OF FREQ RMS"] := by
  decide +kernel

/-! ### The per-antenna cache across frequency sections -/

/-- a correction line whose first token is an azimuth and whose other tokens are the numbers `nums` -/
def IsRow (line : Str) (nums : List Rat) : Prop :=
  ∃ first rest, split line = first :: rest ∧ first ≠ "NOAZI".toList ∧
    rest.mapM (fun s => req (parseFloat s)) = .ok nums

/-- a `NOAZI` line with the numbers `nums` -/
def IsNoazi (line : Str) (nums : List Rat) : Prop :=
  ∃ rest, split line = "NOAZI".toList :: rest ∧ rest.mapM (fun s => req (parseFloat s)) = .ok nums

/-- the handler call `parse_line` makes for a CORRECTION line -/
def corrStep (c : Cache) (line : Str) : Except Err Cache := parseCorrection [("values", line)] c

theorem req_some {α} (a : α) : req (some a) = .ok a := rfl

theorem corrStep_row {c : Cache} {line : Str} {nums : List Rat} (h : IsRow line nums) :
    corrStep c line = .ok { c with azi := some (c.azi.getD [] ++ [nums]) } := by
  obtain ⟨first, rest, hs, hne, hm⟩ := h
  have hne' : ¬ first = ['N', 'O', 'A', 'Z', 'I'] := by simpa using hne
  simp [corrStep, parseCorrection, Values.get, req_some, hs, hm, hne', bind, Except.bind, pure, Except.pure]

theorem corrStep_noazi {c : Cache} {line : Str} {nums : List Rat} (h : IsNoazi line nums) :
    corrStep c line = .ok { c with noazi := some nums } := by
  obtain ⟨rest, hs, hm⟩ := h
  simp [corrStep, parseCorrection, Values.get, req_some, hs, hm, bind, Except.bind, pure, Except.pure]

/-- the lines of one frequency section that reach `parse_correction` -/
inductive SecItem
  | row (line : Str) (nums : List Rat)
  | noazi (line : Str) (nums : List Rat)

def SecItem.Ok : SecItem → Prop
  | .row l n => IsRow l n
  | .noazi l n => IsNoazi l n

def SecItem.line : SecItem → Str
  | .row l _ => l
  | .noazi l _ => l

def rowsOf : List SecItem → List (List Rat)
  | [] => []
  | .row _ n :: rest => n :: rowsOf rest
  | .noazi _ _ :: rest => rowsOf rest

def runSection (c : Cache) : List SecItem → Except Err Cache
  | [] => .ok c
  | i :: rest =>
    match corrStep c i.line with
    | .ok c' => runSection c' rest
    | .error e => .error e

theorem section_azi (items : List SecItem) :
    ∀ (c : Cache), (∀ i ∈ items, i.Ok) →
      ∃ c', runSection c items = .ok c' ∧
        c'.azi = (if rowsOf items = [] then c.azi else some (c.azi.getD [] ++ rowsOf items)) := by
  induction items with
  | nil => intro c _; exact ⟨c, rfl, by simp [rowsOf]⟩
  | cons i rest ih =>
    intro c hok
    have hi := hok i (by simp)
    have hrest : ∀ j ∈ rest, j.Ok := fun j hj => hok j (by simp [hj])
    cases i with
    | row l n =>
      have hstep := corrStep_row (c := c) hi
      obtain ⟨c', hrun, hazi⟩ := ih { c with azi := some (c.azi.getD [] ++ [n]) } hrest
      refine ⟨c', by simp [runSection, SecItem.line, hstep, hrun], ?_⟩
      rw [hazi]
      by_cases hr : rowsOf rest = [] <;> simp [rowsOf, hr]
    | noazi l n =>
      have hstep := corrStep_noazi (c := c) hi
      obtain ⟨c', hrun, hazi⟩ := ih { c with noazi := some n } hrest
      exact ⟨c', by simp [runSection, SecItem.line, hstep, hrun], hazi⟩

/-- **freq_isolated.**  Whatever the cache held before (any history of earlier frequency sections,
RMS blocks, comments …), after `START OF FREQUENCY` and the lines of section k the azimuth rows in
the cache — which `save_correction` stores as `azi` of frequency k — are exactly the rows of
section k, in file order; with `nAzi` rows of `nZen` values each that is an `nAzi × nZen` array. -/
theorem freq_isolated (c0 : Cache) (v : Values) (items : List SecItem) (hok : ∀ i ∈ items, i.Ok) :
    ∃ c', runSection (parseStartOfFrequency v c0) items = .ok c' ∧
      c'.azi = (if rowsOf items = [] then none else some (rowsOf items)) ∧
      ∀ fc, freqCorr c' = .ok fc → fc.azi = (if rowsOf items = [] then none else some (rowsOf items)) := by
  obtain ⟨c', hrun, hazi⟩ := section_azi items (parseStartOfFrequency v c0) hok
  have h0 : (parseStartOfFrequency v c0).azi = none := rfl
  rw [h0] at hazi
  have hazi' : c'.azi = (if rowsOf items = [] then none else some (rowsOf items)) := by
    rw [hazi]; simp
  refine ⟨c', hrun, hazi', ?_⟩
  intro fc hfc
  unfold freqCorr at hfc
  cases hn : c'.north <;> cases he : c'.east <;> cases hu : c'.up <;> cases hz : c'.noazi <;>
    simp [hn, he, hu, hz, req, bind, Except.bind, pure, Except.pure] at hfc
  split at hfc
  · injection hfc with hfc
    rw [← hfc]
    exact hazi'
  · simp [throw, throwThe, MonadExceptOf.throw] at hfc

theorem grid_size (rows : List (List Rat)) (nAzi nZen : Nat) (hr : rows.length = nAzi)
    (hc : ∀ r ∈ rows, r.length = nZen) : rows.flatten.length = nAzi * nZen := by
  subst hr
  induction rows with
  | nil => simp
  | cons r rest ih =>
    have h1 := hc r (by simp)
    have h2 := ih (fun x hx => hc x (by simp [hx]))
    simp [h1, h2, Nat.succ_mul]; omega

/-! ### Offsets: millimetres to metres -/

theorem neu_scaled (c : Cache) (fc : FreqCorr) (h : freqCorr c = .ok fc) :
    ∃ n e u, c.north = some n ∧ c.east = some e ∧ c.up = some u ∧
      fc.neu = [n / 1000, e / 1000, u / 1000] ∧ c.noazi = some fc.noazi := by
  unfold freqCorr at h
  cases hn : c.north <;> cases he : c.east <;> cases hu : c.up <;> cases hz : c.noazi <;>
    simp [hn, he, hu, hz, req, bind, Except.bind, pure, Except.pure] at h
  rename_i n e u z
  split at h
  · injection h with h
    exact ⟨n, e, u, rfl, rfl, rfl, by rw [← h]; simp [mm2m], by rw [← h]⟩
  · simp [throw, throwThe, MonadExceptOf.throw] at h

/-! ### Grids from DAZI and ZEN1 / ZEN2 / DZEN -/

theorem roundHalfEven_int (n : Int) : roundHalfEven (n : Rat) = n := by
  have h0 : ((n : Rat) - (n : Rat)) = 0 := by grind
  have h1 : (0 : Rat) < 1 / 2 := by decide +kernel
  simp [roundHalfEven, Rat.floor_intCast, h0, h1]

theorem gridCount_nat (n : Nat) : gridCount (n : Rat) = n + 1 := by
  have : ((n : Nat) : Rat) = ((n : Int) : Rat) := by rfl
  unfold gridCount
  rw [this, roundHalfEven_int]
  omega

/-- a zenith grid ZEN1, ZEN1+DZEN, …, ZEN2 with `n+1` angles gives the `n+1` elevations 90 − ZEN1 − k·DZEN -/
theorem elevation_grid (z1 dz : Rat) (n : Nat) (hdz : dz ≠ 0) :
    elevationGrid z1 (z1 + (n : Rat) * dz) dz = (List.range (n + 1)).map fun (k : Nat) => 90 - z1 - dz * (k : Rat) := by
  unfold elevationGrid
  have : (z1 + (n : Rat) * dz - z1) / dz = (n : Rat) := by
    have h1 : z1 + (n : Rat) * dz - z1 = (n : Rat) * dz := by grind
    rw [h1]; exact Rat.mul_div_cancel hdz
  rw [this, gridCount_nat]

/-- DAZI dividing the circle into `n` steps gives the `n+1` azimuths k·DAZI, 0 … 360 -/
theorem azimuth_grid (dazi : Rat) (n : Nat) (hd : dazi ≠ 0) (h : (n : Rat) * dazi = 360) :
    azimuthGrid dazi = (List.range (n + 1)).map fun (k : Nat) => dazi * (k : Rat) := by
  unfold azimuthGrid
  have : 360 / dazi = (n : Rat) := by
    rw [← h]; exact Rat.mul_div_cancel hd
  rw [this, gridCount_nat]

/-! ### Validity dates -/

theorem roundHalfEven_near (x : Rat) :
    ((roundHalfEven x : Int) : Rat) - x ≤ 1 / 2 ∧ x - ((roundHalfEven x : Int) : Rat) ≤ 1 / 2 := by
  have h1 := Rat.floor_le x
  have h2 := Rat.lt_floor_add_one x
  rw [Rat.intCast_add] at h2
  unfold roundHalfEven
  simp only
  split
  · constructor <;> grind
  · split
    · rw [Rat.intCast_add]; constructor <;> grind
    · split
      · constructor <;> grind
      · rw [Rat.intCast_add]; constructor <;> grind

/-- the parsed instant is the printed minute plus the printed seconds, to half a microsecond
(the resolution of `datetime`) -/
theorem valid_dates (mins : Int) (q : Rat) :
    ((validMicros mins q : Int) : Rat) - ((mins : Rat) * 60000000 + q * 1000000) ≤ 1 / 2 ∧
    ((mins : Rat) * 60000000 + q * 1000000) - ((validMicros mins q : Int) : Rat) ≤ 1 / 2 := by
  have h := roundHalfEven_near (q * 1000000)
  unfold validMicros secondsToMicros
  rw [Rat.intCast_add, Rat.intCast_mul]
  have : ((60000000 : Int) : Rat) = 60000000 := by simp
  rw [this]
  constructor <;> grind

/-- … and exactly so when the printed seconds are whole microseconds (0.0000000, 59.000000, …) -/
theorem valid_dates_exact (mins k : Int) :
    validMicros mins ((k : Rat) / 1000000) = mins * 60000000 + k := by
  unfold validMicros secondsToMicros
  have : (k : Rat) / 1000000 * 1000000 = (k : Rat) := by grind
  rw [this, roundHalfEven_int]

/-! ### Each receiver antenna frequency and each satellite validity period once -/

theorem receiver_frequency_once (s : State) (ant freq : Str)
    (hsat : s.cache.satCode = some []) (hant : s.cache.antennaType = some ant)
    (hfreq : s.cache.freqCode = some freq)
    (hdup : dictHas ((dictGet s.data ant).getD []) (Key.str freq) = true) :
    ∀ s', saveCorrection s ≠ .ok s' := by
  intro s' h
  unfold saveCorrection at h
  simp only [hsat, hant, hfreq, req, bind, Except.bind, pure, Except.pure, ne_eq, not_true_eq_false, if_false] at h
  cases hc : s.cache.counter with
  | none => simp [hc] at h
  | some k =>
    simp only [hc] at h
    split at h
    · split at h
      · simp at h
      · split at h
        · simp at h
        · simp [throw, throwThe, MonadExcept.throw] at h
    · split at h
      · simp at h
      · simp [throw, throwThe, MonadExcept.throw] at h

theorem satellite_period_once (s : State) (sc ant : Str) (dt : Int)
    (hsat : s.cache.satCode = some sc) (hsc : sc ≠ []) (hant : s.cache.antennaCode = some ant)
    (hdt : s.cache.validFrom = some dt) (hfirst : s.cache.counter = some 0)
    (hdup : dictHas ((dictGet s.data ant).getD []) (Key.date dt) = true) :
    ∀ s', saveCorrection s ≠ .ok s' := by
  intro s' h
  unfold saveCorrection at h
  simp only [hsat, hant, hsc, hfirst, req, bind, Except.bind, pure, Except.pure, ne_eq, not_false_eq_true, if_true] at h
  cases hf : s.cache.freqCode with
  | none => simp [hf] at h
  | some f =>
    simp only [hf] at h
    unfold generalInfo at h
    simp [hsc, hdt, hdup, req, bind, Except.bind, pure, Except.pure, throw, throwThe, MonadExcept.throw, MonadExceptOf.throw] at h

end Midgard.Antex.Records
