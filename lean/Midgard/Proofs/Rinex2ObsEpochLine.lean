/-
C11, RINEX 2, part 6: the epoch record column by column (`epochLine_struct`: the standard's `1X,I2` fields are the
parser's three-column fields; 36 satellite columns; clock offset).  Core Lean only.
-/
import Midgard.Proofs.Rinex2ObsFx

namespace Midgard.Spec.Rinex2ObsFile
open Midgard.Text Midgard.FixedCol Midgard.Decimal Midgard.ChainParser Midgard.RinexObs Midgard.Rinex2Obs
open Midgard.Spec.Rinex (renderCells epoch2 epoch2c rep padTo renderRecord)
open Midgard.Spec.Rinex3ObsFile (Obs Cell IntCell NumCell Style styled rstrip_styled)

/-! ### rendering: layouts in sequence, right-aligned cells behind blanks, the satellite list -/

/-- the column where the fields of `L` end -/
def endPos (pos : Nat) (L : Layout) : Nat := (L.getLast?.map (·.stop)).getD pos

theorem renderFrom_append : ∀ (L1 : Layout) (c1 : List (Align × Str)) (pos : Nat) (L2 : Layout) (c2 : List (Align × Str)),
    L1.length = c1.length →
    renderFrom pos (L1 ++ L2) (c1 ++ c2) = renderFrom pos L1 c1 ++ renderFrom (endPos pos L1) L2 c2 := by
  intro L1
  induction L1 with
  | nil => intro c1 pos L2 c2 h; cases c1 <;> simp_all [renderFrom, endPos]
  | cons f L1 ih =>
    intro c1 pos L2 c2 h
    cases c1 with
    | nil => simp at h
    | cons x c1 =>
      obtain ⟨a, v⟩ := x
      simp only [List.cons_append, renderFrom]
      rw [ih c1 f.stop L2 c2 (by simpa using h)]
      have : endPos f.stop L1 = endPos pos (f :: L1) := by
        cases L1 with
        | nil => rfl
        | cons g L1' =>
          have hl : (g :: L1').getLast? = some ((g :: L1').getLast (by simp)) := List.getLast?_eq_some_getLast (by simp)
          simp only [endPos, List.getLast?_cons_cons, hl, Option.map_some, Option.getD_some]
      rw [this]
      simp [List.append_assoc]

theorem rjust_lead (k w : Nat) (a : Str) (h : a.length ≤ w) : blanks k ++ rjust w a = rjust (k + w) a := by
  unfold rjust blanks
  rw [← List.append_assoc, List.replicate_append_replicate]
  congr 2
  omega

/-- the satellite fields from slot `j` on, three columns each without a gap -/
def satFields (nm : Nat → String) (j n : Nat) : Layout := (List.range' j n).map fun k => ⟨nm k, 32 + 3 * k + 0, 32 + 3 * (k + 1)⟩

theorem rep_sat : ∃ nm, rep "sat" 12 32 3 0 = satFields nm 0 12 :=
  ⟨fun k => toString "sat" ++ toString "_" ++ toString (if k + 1 < 10 then "0" else "") ++ toString (k + 1),
    by simp only [rep, satFields, List.range_eq_range']⟩

theorem render_sats (nm : Nat → String) : ∀ (ids : List Str) (j : Nat), (∀ s ∈ ids, s.length ≤ 3) →
    renderFrom (32 + 3 * j) (satFields nm j ids.length) (ids.map fun s => (Align.left, s)) = (ids.map (ljust 3)).flatten := by
  intro ids
  induction ids with
  | nil => intro j _; rfl
  | cons s ids ih =>
    intro j h
    have := ih (j + 1) (fun s' hs' => h s' (by simp [hs']))
    simp only [List.length_cons, satFields, List.range'_succ, List.map_cons, renderFrom, Field.width, pad, List.flatten_cons]
    simp only [satFields] at this
    rw [this]
    have w0 : 32 + 3 * j + 0 - (32 + 3 * j) = 0 := by omega
    have w1 : 32 + 3 * (j + 1) - (32 + 3 * j + 0) = 3 := by omega
    rw [w0, w1]
    simp [blanks]

/-! ### the epoch record -/

def head8 (e : Epoch) : List Str :=
  [e.yy.text, e.month.text, e.day.text, e.hour.text, e.minute.text, e.second.text, e.flag.text, e.numSat]

/-- the parser's columns of the first 32 characters of an epoch record -/
def P8 : Layout := [⟨"year", 0, 3⟩, ⟨"month", 3, 6⟩, ⟨"day", 6, 9⟩, ⟨"hour", 9, 12⟩, ⟨"minute", 12, 15⟩, ⟨"second", 15, 26⟩,
  ⟨"epoch_flag", 26, 29⟩, ⟨"num_sat", 29, 32⟩]

def L8 : Layout := [⟨"year", 1, 3⟩, ⟨"month", 4, 6⟩, ⟨"day", 7, 9⟩, ⟨"hour", 10, 12⟩, ⟨"minute", 13, 15⟩, ⟨"second", 15, 26⟩,
  ⟨"epoch_flag", 28, 29⟩, ⟨"num_sat", 29, 32⟩]

def rcells (l : List Str) : List (Align × Str) := l.map fun s => (Align.right, s)

/-- the first 32 columns of an epoch record, written with the parser's (wider) fields -/
def head32 (e : Epoch) : Str := renderFrom 0 P8 (rcells (head8 e))

/-- the satellites printed on the epoch record itself -/
def ids12 (e : Epoch) : List Str := (e.sats.map (·.sat)).take 12

def epochLine (e : Epoch) : Str := renderCells epoch2 (head8 e ++ padTo 12 (ids12 e) ++ [e.clk.text])

structure HeadOk (e : Epoch) : Prop where
  yy : e.yy.text.length ≤ 2
  mo : e.month.text.length ≤ 2
  dd : e.day.text.length ≤ 2
  hh : e.hour.text.length ≤ 2
  mi : e.minute.text.length ≤ 2
  ss : e.second.text.length ≤ 11
  fl : e.flag.text.length ≤ 1
  ns : e.numSat.length ≤ 3

theorem head_eq (e : Epoch) (h : HeadOk e) : renderFrom 0 L8 (rcells (head8 e)) = head32 e := by
  simp only [head32, L8, P8, rcells, head8, List.map_cons, List.map_nil, renderFrom, Field.width, pad]
  have b0 : blanks 0 = [] := rfl
  simp only [Nat.sub_self, Nat.sub_zero, b0, List.nil_append, List.append_nil]
  have r1 := rjust_lead 1 2 e.yy.text h.yy
  have r2 := rjust_lead 1 2 e.month.text h.mo
  have r3 := rjust_lead 1 2 e.day.text h.dd
  have r4 := rjust_lead 1 2 e.hour.text h.hh
  have r5 := rjust_lead 1 2 e.minute.text h.mi
  have r7 := rjust_lead 2 1 e.flag.text h.fl
  rw [← r1, ← r2, ← r3, ← r4, ← r5, ← r7]


theorem zip_replicate {α β} (a : α) : ∀ (l : List β), (List.replicate l.length a).zip l = l.map fun x => (a, x) := by
  intro l
  induction l with
  | nil => rfl
  | cons x l ih => simp [List.replicate_succ, ih]

theorem flatten_blank_cells (k : Nat) : ((List.replicate k ([] : Str)).map (ljust 3)).flatten = blanks (3 * k) := by
  induction k with
  | zero => rfl
  | succ k ih =>
    simp only [List.replicate_succ, List.map_cons, List.flatten_cons, ih]
    simp only [ljust, blanks, List.length_nil, Nat.sub_zero, List.nil_append, List.replicate_append_replicate]
    congr 1; omega

theorem map_ljust3 (ids : List Str) (h : ∀ s ∈ ids, s.length = 3) : ids.map (ljust 3) = ids := by
  induction ids with
  | nil => rfl
  | cons s ids ih =>
    have hs := h s (by simp)
    simp [ljust, hs, blanks, ih (fun s' hs' => h s' (by simp [hs']))]

/-- the satellite columns of an epoch record -/
def satCols (e : Epoch) : Str := (ids12 e).flatten ++ blanks (3 * (12 - (ids12 e).length))

theorem ids12_le (e : Epoch) : (ids12 e).length ≤ 12 := by simp [ids12]; omega

/-- **the epoch record, column by column**: 32 columns of date, flag and count, 36 satellite columns, the clock offset -/
theorem epochLine_struct (e : Epoch) (hh : HeadOk e) (hids : ∀ s ∈ ids12 e, s.length = 3) :
    epochLine e = head32 e ++ (satCols e ++ rjust 12 e.clk.text) := by
  obtain ⟨nm, hrep⟩ := rep_sat
  have hlay : epoch2.layout = L8 ++ (satFields nm 0 12 ++ [⟨"rcv_clk_offset", 68, 80⟩]) := by
    rw [← hrep]; simp [epoch2, L8]
  have hpl : (padTo 12 (ids12 e)).length = 12 := by
    have := ids12_le e
    simp [padTo]; omega
  have hzip : epoch2.aligns.zip (head8 e ++ padTo 12 (ids12 e) ++ [e.clk.text]) =
      rcells (head8 e) ++ ((padTo 12 (ids12 e)).map (fun s => (Align.left, s)) ++ [(Align.right, e.clk.text)]) := by
    have h1 : epoch2.aligns = [Align.right, Align.right, Align.right, Align.right, Align.right, Align.right, Align.right, Align.right] ++
        (List.replicate (padTo 12 (ids12 e)).length Align.left ++ [Align.right]) := by
      rw [hpl]; rfl
    rw [h1, List.append_assoc, List.zip_append (by rfl), List.zip_append (by simp), zip_replicate]
    rfl
  unfold epochLine renderCells renderA
  rw [hlay, hzip, renderFrom_append L8 _ 0 _ _ (by rfl), head_eq e hh]
  have hend : endPos 0 L8 = 32 + 3 * 0 := rfl
  rw [hend]
  have hsf : satFields nm 0 12 = satFields nm 0 (padTo 12 (ids12 e)).length := by rw [hpl]
  rw [hsf, renderFrom_append _ _ _ _ _ (by simp [satFields]), render_sats nm _ 0 (by
    intro s hs
    simp only [padTo, List.mem_append, List.mem_replicate] at hs
    rcases hs with hs | hs
    · rw [hids s hs]; exact Nat.le_refl 3
    · rw [hs.2]; simp)]
  have hend2 : endPos (32 + 3 * 0) (satFields nm 0 (padTo 12 (ids12 e)).length) = 68 := by
    rw [hpl]; rfl
  rw [hend2]
  have hflat : ((padTo 12 (ids12 e)).map (ljust 3)).flatten = satCols e := by
    simp only [padTo, List.map_append, List.flatten_append, map_ljust3 _ hids, flatten_blank_cells, satCols]
  rw [hflat]
  simp [renderFrom, pad, Field.width, blanks]

end Midgard.Spec.Rinex2ObsFile
