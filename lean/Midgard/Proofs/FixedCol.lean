/-
Lemmas about `Midgard.Core.FixedCol` (core Lean only).  The workhorse is `slice_renderA`.
-/
import Midgard.Core.FixedCol
import Midgard.Proofs.Text

namespace Midgard.FixedCol
open Midgard.Text

theorem strip_pad_cell (a : Align) (w : Nat) {v : Str} (hv : Clean v = true) : strip (pad a w v) = v := by
  cases a
  · exact strip_ljust hv
  · exact strip_rjust hv

theorem length_pad (a : Align) {w : Nat} {v : Str} (h : v.length ≤ w) : (pad a w v).length = w := by
  cases a
  · exact length_ljust h
  · exact length_rjust h

/-- `slice` sees through `rstrip` of the line ("trailing blanks stripped") -/
theorem slice_rstrip (f : Field) (line : Str) : slice f (rstrip line) = slice f line :=
  strip_slice_rstrip f.start f.stop line

/-- … and through any all-blank padding on the right -/
theorem slice_append_blank (f : Field) (line ws : Str) (h : isBlank ws = true) :
    slice f (line ++ ws) = slice f line :=
  strip_slice_append_isBlank f.start f.stop line ws h

/-- a short line reads as empty text in the columns it does not reach -/
theorem slice_short (f : Field) (line : Str) (h : line.length ≤ f.start) : slice f line = [] := by
  unfold slice sliceRaw Text.slice
  have : List.drop f.start (List.take f.stop line) = [] := by
    apply List.drop_eq_nil_of_le; simp; omega
  rw [this]; rfl

/-- General form: the rendered cells may sit between any prefix of the right length and any suffix. -/
theorem slice_renderFrom (L : Layout) :
    ∀ (pos : Nat) (cells : List (Align × Str)) (pre post : Str),
      SortedFrom pos L = true → Fits L cells = true → pre.length = pos →
      L.map (fun f => slice f (pre ++ renderFrom pos L cells ++ post)) = cells.map (·.2) := by
  induction L with
  | nil =>
    intro pos cells pre post _ hf _
    cases cells with
    | nil => rfl
    | cons c cs => simp [Fits] at hf
  | cons f L ih =>
    intro pos cells pre post hs hf hpre
    cases cells with
    | nil => simp [Fits] at hf
    | cons c cs =>
      obtain ⟨a, v⟩ := c
      simp only [SortedFrom, Bool.and_eq_true, decide_eq_true_eq] at hs
      simp only [Fits, Bool.and_eq_true, decide_eq_true_eq] at hf
      obtain ⟨⟨hpos, hss⟩, hsL⟩ := hs
      obtain ⟨⟨hlen, hclean⟩, hfL⟩ := hf
      have hw : (pad a f.width v).length = f.width := length_pad a hlen
      have hwid : f.start + f.width = f.stop := by simp [Field.width]; omega
      simp only [List.map_cons, renderFrom, List.cons.injEq]
      constructor
      · -- the first field
        unfold slice sliceRaw
        have : pre ++ (blanks (f.start - pos) ++ pad a f.width v ++ renderFrom f.stop L cs) ++ post
            = (pre ++ blanks (f.start - pos)) ++ pad a f.width v ++ (renderFrom f.stop L cs ++ post) := by
          simp [List.append_assoc]
        rw [this, slice_cell (by simp; omega) (by rw [hw]; exact hwid)]
        exact strip_pad_cell a _ hclean
      · -- the rest, by induction with the longer prefix
        have := ih f.stop cs (pre ++ blanks (f.start - pos) ++ pad a f.width v) post hsL hfL
          (by simp [hw]; omega)
        rw [← this]
        apply List.map_congr_left
        intro g _
        simp [List.append_assoc]

/-- **Workhorse.** Reading every field of a rendered record gives back the cell texts. -/
theorem slice_renderA (L : Layout) (cells : List (Align × Str))
    (hs : Sorted L = true) (hf : Fits L cells = true) :
    L.map (fun f => slice f (renderA L cells)) = cells.map (·.2) := by
  have := slice_renderFrom L 0 cells [] [] hs hf rfl
  simpa [renderA] using this

/-- the same after the parser's `rstrip` of the line -/
theorem slice_renderA_rstrip (L : Layout) (cells : List (Align × Str))
    (hs : Sorted L = true) (hf : Fits L cells = true) :
    L.map (fun f => slice f (rstrip (renderA L cells))) = cells.map (·.2) := by
  rw [← slice_renderA L cells hs hf]
  apply List.map_congr_left
  intro f _
  exact slice_rstrip f _

/-- with an arbitrary tail after the record (e.g. further columns of a longer line) -/
theorem slice_renderA_append (L : Layout) (cells : List (Align × Str)) (post : Str)
    (hs : Sorted L = true) (hf : Fits L cells = true) :
    L.map (fun f => slice f (renderA L cells ++ post)) = cells.map (·.2) := by
  have := slice_renderFrom L 0 cells [] post hs hf rfl
  simpa [renderA] using this

theorem slice_render (L : Layout) (vs : List Str)
    (hs : Sorted L = true) (hf : Fits L (vs.map fun v => (Align.left, v)) = true) :
    L.map (fun f => slice f (render L vs)) = vs := by
  have := slice_renderA L _ hs hf
  simpa [render, List.map_map, Function.comp_def] using this

theorem slice_renderR (L : Layout) (vs : List Str)
    (hs : Sorted L = true) (hf : Fits L (vs.map fun v => (Align.right, v)) = true) :
    L.map (fun f => slice f (renderR L vs)) = vs := by
  have := slice_renderA L _ hs hf
  simpa [renderR, List.map_map, Function.comp_def] using this

/-- the field dictionary of a rendered record -/
theorem sliceAll_renderA (L : Layout) (cells : List (Align × Str))
    (hs : Sorted L = true) (hf : Fits L cells = true) :
    (sliceAll L (renderA L cells)).map (·.2) = cells.map (·.2) := by
  rw [← slice_renderA L cells hs hf]
  simp [sliceAll, List.map_map, Function.comp_def]

/-- rendered records are exactly as long as the last field's stop column -/
theorem length_renderFrom (L : Layout) :
    ∀ (pos : Nat) (cells : List (Align × Str)), SortedFrom pos L = true → Fits L cells = true →
      pos + (renderFrom pos L cells).length = (L.getLast?.map (·.stop)).getD pos := by
  induction L with
  | nil =>
    intro pos cells _ hf
    cases cells with
    | nil => simp [renderFrom]
    | cons c cs => simp [Fits] at hf
  | cons f L ih =>
    intro pos cells hs hf
    cases cells with
    | nil => simp [Fits] at hf
    | cons c cs =>
      obtain ⟨a, v⟩ := c
      simp only [SortedFrom, Bool.and_eq_true, decide_eq_true_eq] at hs
      simp only [Fits, Bool.and_eq_true, decide_eq_true_eq] at hf
      obtain ⟨⟨hpos, hss⟩, hsL⟩ := hs
      obtain ⟨⟨hlen, _⟩, hfL⟩ := hf
      have hw : (pad a f.width v).length = f.width := length_pad a hlen
      have hwid : f.start + f.width = f.stop := by simp [Field.width]; omega
      have := ih f.stop cs hsL hfL
      simp only [renderFrom, List.length_append, length_blanks, hw]
      cases L with
      | nil =>
        cases cs with
        | nil => simp [renderFrom]; omega
        | cons c cs => simp [Fits] at hfL
      | cons g L' =>
        simp only [List.getLast?_cons_cons] at this ⊢
        have hne : ((g :: L').getLast?.map (·.stop)).isSome = true := by
          simp [List.getLast?_isSome]
        cases hg : (g :: L').getLast? with
        | none => simp [hg] at hne
        | some z =>
          rw [hg] at this
          simp only [Option.map_some, Option.getD_some] at this ⊢
          omega

/-- `ofStarts` produces a sorted layout when the starts ascend and stay below `total` -/
theorem widthsOfStarts_length (starts : List Nat) (total : Nat) :
    (widthsOfStarts starts total).length = starts.length := by
  induction starts with
  | nil => rfl
  | cons s rest ih =>
    cases rest with
    | nil => rfl
    | cons t r => simp [widthsOfStarts, ih]

end Midgard.FixedCol
