/-
C10 — vocabulary for the round-trip proof: the array groups of a file with their paths (`nodes`),
unique sibling names, and how `h5_file[path]` (`lookupGrp`) relates to them.
-/
import Midgard.Proofs.H5Dataset

namespace Midgard.H5
open Midgard.Dataset

def Grp.src (g : Grp) : Nat := g.attrs.src
def Grp.isArr (g : Grp) : Bool := g.payload.isSome

@[simp] theorem Grp.src_mk (a : GAttrs) (p : Option Obj) (s : List (String × Grp)) : (Grp.mk a p s).src = a.src := rfl
@[simp] theorem Grp.attrs_mk (a : GAttrs) (p : Option Obj) (s : List (String × Grp)) : (Grp.mk a p s).attrs = a := rfl
@[simp] theorem Grp.payload_mk (a : GAttrs) (p : Option Obj) (s : List (String × Grp)) : (Grp.mk a p s).payload = p := rfl
@[simp] theorem Grp.subs_mk (a : GAttrs) (p : Option Obj) (s : List (String × Grp)) : (Grp.mk a p s).subs = s := rfl

/-- all array groups of the subtree of a group located at path `p`, with their absolute paths -/
def Grp.nodes : Path → Grp → List (Path × Grp)
  | p, .mk a pl subs => (if pl.isSome then [(p, Grp.mk a pl subs)] else []) ++ nodesL p subs
where nodesL : Path → List (String × Grp) → List (Path × Grp)
  | _, [] => []
  | p, (n, g) :: r => Grp.nodes (p ++ [n]) g ++ nodesL p r

/-- sibling names are unique, at every level -/
def NamesOKG : Grp → Prop
  | .mk _ _ subs => NamesOKL subs
where NamesOKL : List (String × Grp) → Prop
  | [] => True
  | (n, g) :: r => NamesOKG g ∧ (∀ e ∈ r, e.1 ≠ n) ∧ NamesOKL r

theorem lookup_cons_ne {α} {n m : String} {g : α} {r : List (String × α)} (h : m ≠ n) :
    List.lookup m ((n, g) :: r) = List.lookup m r := by
  simp only [List.lookup]
  have : (m == n) = false := by simpa using h
  simp [this]

theorem lookup_cons_eq {α} {n : String} {g : α} {r : List (String × α)} :
    List.lookup n ((n, g) :: r) = some g := by
  simp [List.lookup]

theorem lookup_mem' {α} : ∀ {l : List (String × α)} {n : String} {g : α}, List.lookup n l = some g → (n, g) ∈ l
  | [], _, _, h => by simp [List.lookup] at h
  | (m, x) :: r, n, g, h => by
    by_cases hnm : n = m
    · subst hnm; rw [lookup_cons_eq] at h; cases h; simp
    · rw [lookup_cons_ne hnm] at h; exact List.mem_cons_of_mem _ (lookup_mem' h)

theorem lookup_of_mem_unique {α} : ∀ {l : List (String × α)} {n : String} {g : α},
    (n, g) ∈ l → (∀ g', (n, g') ∈ l → g' = g) → List.lookup n l = some g
  | [], _, _, h, _ => by simp at h
  | (m, x) :: r, n, g, h, hu => by
    by_cases hnm : n = m
    · subst hnm
      rw [lookup_cons_eq]
      exact congrArg some (hu x (by simp))
    · rw [lookup_cons_ne hnm]
      rcases List.mem_cons.mp h with h | h
      · cases h; exact absurd rfl hnm
      · exact lookup_of_mem_unique h (fun g' hg' => hu g' (List.mem_cons_of_mem _ hg'))

/-! ### `lookupGrp` and `nodes` -/

theorem lookupGrp_single (gs : List (String × Grp)) (n : String) : lookupGrp gs [n] = gs.lookup n := by
  simp only [lookupGrp]
  cases gs.lookup n <;> simp

theorem lookupGrp_cons (gs : List (String × Grp)) (n m : String) (rest : Path) :
    lookupGrp gs (n :: m :: rest) = (gs.lookup n).bind (fun g => lookupGrp g.subs (m :: rest)) := by
  simp only [lookupGrp]
  cases gs.lookup n <;> simp

/-- following a path and then one more name -/
theorem lookupGrp_snoc : ∀ (rel : Path) (gs : List (String × Grp)) (g : Grp) (n : String),
    lookupGrp gs rel = some g → lookupGrp gs (rel ++ [n]) = g.subs.lookup n
  | [], _, _, _, h => by simp [lookupGrp] at h
  | [a], gs, g, n, h => by
    rw [lookupGrp_single] at h
    show lookupGrp gs [a, n] = _
    rw [lookupGrp_cons, h]
    simp [lookupGrp_single]
  | a :: b :: rest, gs, g, n, h => by
    rw [lookupGrp_cons] at h
    show lookupGrp gs (a :: (b :: rest ++ [n])) = _
    cases hl : gs.lookup a with
    | none => simp [hl] at h
    | some ga =>
      simp only [hl, Option.bind_some] at h
      have := lookupGrp_snoc (b :: rest) ga.subs g n h
      have e : b :: rest ++ [n] = b :: (rest ++ [n]) := rfl
      rw [e, lookupGrp_cons, hl]
      simp only [Option.bind_some]
      rw [← e]; exact this

mutual
/-- every array group found by a path is among the nodes -/
theorem nodes_of_lookup : ∀ (rel : Path) (gs : List (String × Grp)) (p : Path) (g : Grp),
    lookupGrp gs rel = some g → g.isArr = true → (p ++ rel, g) ∈ Grp.nodes.nodesL p gs
  | [], _, _, _, h, _ => by simp [lookupGrp] at h
  | n :: rest, gs, p, g, h, ha => by
    simp only [lookupGrp] at h
    cases hl : gs.lookup n with
    | none => simp [hl] at h
    | some gn =>
      simp only [hl] at h
      have hmem := lookup_mem' hl
      have key : (p ++ n :: rest, g) ∈ Grp.nodes (p ++ [n]) gn := by
        by_cases hr : rest.isEmpty = true
        · simp only [hr, if_true, Option.some.injEq] at h
          subst h
          have : rest = [] := by simpa using hr
          subst this
          cases gn with
          | mk a pl subs =>
            simp only [Grp.isArr, Grp.payload_mk] at ha
            simp [Grp.nodes, ha]
        · simp only [hr] at h
          simp only [Bool.false_eq_true, if_false] at h
          cases gn with
          | mk a pl subs =>
            have := nodes_of_lookup rest subs (p ++ [n]) g h ha
            simp only [Grp.nodes, List.mem_append]
            right
            simpa [List.append_assoc] using this
      exact nodes_mem_of_child p gs n gn hmem key
theorem nodes_mem_of_child : ∀ (p : Path) (gs : List (String × Grp)) (n : String) (gn : Grp),
    (n, gn) ∈ gs → ∀ {x : Path × Grp}, x ∈ Grp.nodes (p ++ [n]) gn → x ∈ Grp.nodes.nodesL p gs
  | _, [], _, _, h, _, _ => by simp at h
  | p, (m, gm) :: r, n, gn, h, x, hx => by
    simp only [Grp.nodes.nodesL, List.mem_append]
    rcases List.mem_cons.mp h with h | h
    · cases h; exact Or.inl hx
    · exact Or.inr (nodes_mem_of_child p r n gn h hx)
end

theorem lookup_of_namesOK : ∀ {gs : List (String × Grp)} {n : String} {g : Grp},
    NamesOKG.NamesOKL gs → (n, g) ∈ gs → gs.lookup n = some g
  | [], _, _, _, h => by simp at h
  | (m, gm) :: r, n, g, hn, h => by
    simp only [NamesOKG.NamesOKL] at hn
    rcases List.mem_cons.mp h with h | h
    · cases h; exact lookup_cons_eq
    · have : n ≠ m := hn.2.1 (n, g) h
      rw [lookup_cons_ne this]
      exact lookup_of_namesOK hn.2.2 h

theorem namesOK_of_mem : ∀ {gs : List (String × Grp)} {n : String} {g : Grp},
    NamesOKG.NamesOKL gs → (n, g) ∈ gs → NamesOKG g
  | [], _, _, _, h => by simp at h
  | (m, gm) :: r, n, g, hn, h => by
    simp only [NamesOKG.NamesOKL] at hn
    rcases List.mem_cons.mp h with h | h
    · cases h; exact hn.1
    · exact namesOK_of_mem hn.2.2 h

theorem nodesL_mem : ∀ {p : Path} {gs : List (String × Grp)} {x : Path × Grp},
    x ∈ Grp.nodes.nodesL p gs → ∃ n gn, (n, gn) ∈ gs ∧ x ∈ Grp.nodes (p ++ [n]) gn
  | _, [], _, h => by simp [Grp.nodes.nodesL] at h
  | p, (m, gm) :: r, x, h => by
    simp only [Grp.nodes.nodesL, List.mem_append] at h
    rcases h with h | h
    · exact ⟨m, gm, by simp, h⟩
    · obtain ⟨n, gn, h1, h2⟩ := nodesL_mem h
      exact ⟨n, gn, List.mem_cons_of_mem _ h1, h2⟩

theorem lookupGrp_head {gs : List (String × Grp)} {rel : Path} {g : Grp} (h : lookupGrp gs rel = some g) :
    ∃ n rest gn, rel = n :: rest ∧ gs.lookup n = some gn := by
  cases rel with
  | nil => simp [lookupGrp] at h
  | cons n rest =>
    simp only [lookupGrp] at h
    cases hl : gs.lookup n with
    | none => simp [hl] at h
    | some gn => exact ⟨n, rest, gn, rfl, hl⟩

theorem lookupGrp_cons_ne {m : String} {gm : Grp} {r : List (String × Grp)} {rel : Path} {g : Grp}
    (h : lookupGrp r rel = some g) (hne : ∀ e ∈ r, e.1 ≠ m) : lookupGrp ((m, gm) :: r) rel = some g := by
  obtain ⟨n, rest, gn, rfl, hl⟩ := lookupGrp_head h
  have hnm : n ≠ m := hne (n, gn) (lookup_mem' hl)
  simp only [lookupGrp] at h ⊢
  rw [lookup_cons_ne hnm]
  exact h

mutual
/-- a node is the group itself or is found below it by a non-empty relative path -/
theorem lookup_of_nodes : ∀ (g0 : Grp) (p q : Path) (g : Grp), NamesOKG g0 → (q, g) ∈ Grp.nodes p g0 →
    (q = p ∧ g = g0 ∧ g0.isArr = true) ∨ (∃ rel, rel ≠ [] ∧ q = p ++ rel ∧ lookupGrp g0.subs rel = some g ∧ g.isArr = true)
  | .mk a pl subs, p, q, g, hn, h => by
    simp only [Grp.nodes, List.mem_append] at h
    rcases h with h | h
    · left
      split at h
      · rename_i hpl
        simp only [List.mem_singleton, Prod.mk.injEq] at h
        exact ⟨h.1, h.2, by simp [Grp.isArr, hpl]⟩
      · simp at h
    · right
      simp only [NamesOKG] at hn
      exact lookup_of_nodesL subs p q g hn h
theorem lookup_of_nodesL : ∀ (gs : List (String × Grp)) (p q : Path) (g : Grp), NamesOKG.NamesOKL gs →
    (q, g) ∈ Grp.nodes.nodesL p gs →
    ∃ rel, rel ≠ [] ∧ q = p ++ rel ∧ lookupGrp gs rel = some g ∧ g.isArr = true
  | [], _, _, _, _, h => by simp [Grp.nodes.nodesL] at h
  | (m, gm) :: r, p, q, g, hn, h => by
    simp only [NamesOKG.NamesOKL] at hn
    simp only [Grp.nodes.nodesL, List.mem_append] at h
    rcases h with h | h
    · rcases lookup_of_nodes gm (p ++ [m]) q g hn.1 h with ⟨h1, h2, h3⟩ | ⟨rel, h1, h2, h3, h4⟩
      · refine ⟨[m], by simp, h1, ?_, h2 ▸ h3⟩
        rw [lookupGrp_single, lookup_cons_eq, h2]
      · refine ⟨m :: rel, by simp, by simp [h2, List.append_assoc], ?_, h4⟩
        cases rel with
        | nil => exact absurd rfl h1
        | cons k rest => rw [lookupGrp_cons, lookup_cons_eq]; simpa using h3
    · obtain ⟨rel, h1, h2, h3, h4⟩ := lookup_of_nodesL r p q g hn.2.2 h
      exact ⟨rel, h1, h2, lookupGrp_cons_ne h3 hn.2.1, h4⟩
end

theorem nodup_map_inj {α β} {f : α → β} : ∀ {l : List α}, (l.map f).Nodup → ∀ {a b : α}, a ∈ l → b ∈ l → f a = f b → a = b
  | [], _, _, _, ha, _, _ => by simp at ha
  | x :: xs, hn, a, b, ha, hb, hf => by
    simp only [List.map_cons, List.nodup_cons, List.mem_map, not_exists, not_and] at hn
    rcases List.mem_cons.mp ha with ha | ha
    · rcases List.mem_cons.mp hb with hb | hb
      · rw [ha, hb]
      · rw [ha] at hf; exact absurd hf.symm (hn.1 b hb)
    · rcases List.mem_cons.mp hb with hb | hb
      · rw [hb] at hf; exact absurd hf (hn.1 a ha)
      · exact nodup_map_inj hn.2 ha hb hf

/-- with unique names and unique sources, the source determines the path -/
theorem path_of_src {gs : List (String × Grp)} (hn : NamesOKG.NamesOKL gs)
    (hs : ((Grp.nodes.nodesL [] gs).map (fun x => x.2.src)).Nodup)
    {q1 q2 : Path} {g1 g2 : Grp} (h1 : lookupGrp gs q1 = some g1) (h2 : lookupGrp gs q2 = some g2)
    (a1 : g1.isArr = true) (a2 : g2.isArr = true) (hsrc : g1.src = g2.src) : q1 = q2 := by
  have m1 := nodes_of_lookup q1 gs [] g1 h1 a1
  have m2 := nodes_of_lookup q2 gs [] g2 h2 a2
  simp only [List.nil_append] at m1 m2
  have := nodup_map_inj hs m1 m2 hsrc
  exact congrArg Prod.fst this

end Midgard.H5
