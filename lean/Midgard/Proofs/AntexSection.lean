/-
C15 file level, part 2: the records of an antenna section with their effects (`sigFx`), and what running them does:
`antenna_run` — started with an empty cache they store exactly `storeAntenna` (frequency sections from their own
values; rms sections, wherever they stand, only touch the cache).
-/
import Midgard.Proofs.AntexFx
set_option linter.unusedSimpArgs false
namespace Midgard.Antex.File
open Midgard.Text Midgard.FixedCol Midgard.ChainParser Midgard.Antex Midgard.Decimal Midgard.Antex.Records
open Midgard.Spec.Antex14 (RecSpec specs renderLabelled renderRow findKind findLabel)
open Midgard.Spec.AntexFile

/-! ### the lines of an antenna section with their effects -/

def neuFx (b : SecM) : Fx := cacheFx fun k => { k with north := some b.north.val, east := some b.east.val, up := some b.up.val }
def noaziFx (b : SecM) : Fx := cacheFx fun k => { k with noazi := some (b.noazi.map (·.val)) }
def rowFx (r : Str × List NumCell) : Fx := cacheFx fun k => { k with azi := some (k.azi.getD [] ++ [r.2.map (·.val)]) }
def sofFx (code : Str) : Fx := cacheFx fun k => { k with freqCode := some code, noazi := none, azi := none }

def bodyFx (b : SecM) : List (Str × Fx) :=
  [(rec "NEU" (neuCells b), neuFx b), (noaziLine b, noaziFx b)] ++ b.rows.map fun r => (rowLine r, rowFx r)

def rmsFx (code : Str) (b : SecM) : List (Str × Fx) :=
  [(rec "SOR" [code], idFx)] ++ bodyFx b ++ [(rec "EOR" [code], idFx)]

def freqFx (f : FreqM) : List (Str × Fx) :=
  [(rec "SOF" [f.code], sofFx f.code)] ++ bodyFx f.body ++ [(rec "EOF" [f.code], saveCorrection)] ++
  (match f.rms with
   | some b => rmsFx f.code b
   | none => [])

def preambleFx (a : AntM) : List (Str × Fx) :=
  [(rec "SOA" [], idFx),
   (rec "TYP" [a.typ, a.code, a.satCode, a.cospar],
     cacheFx fun c => { c with antennaType := some a.typ, antennaCode := some a.code, satCode := some a.satCode,
                               cosparId := some a.cospar }),
   (rec "DAZI" [a.dazi.text], cacheFx fun k => { k with dazi := some a.dazi.val }),
   (rec "ZEN" [a.zen1.text, a.zen2.text, a.dzen.text],
     cacheFx fun k => { k with zen1 := some a.zen1.val, zen2 := some a.zen2.val, dzen := some a.dzen.val }),
   (rec "NFREQ" [a.numFreq], cacheFx fun k => { k with numFreq := some a.numFreq, counter := some 0 })] ++
  (match a.validFrom with
   | some d => [(rec "VFROM" (dateCells d), cacheFx fun k => { k with validFrom := some (dateMicros d) })]
   | none => []) ++
  (match a.validUntil with
   | some d => [(rec "VUNTIL" (dateCells d), cacheFx fun k => { k with validUntil := some (dateMicros d) })]
   | none => [])

def tailFx (a : AntM) : List (Str × Fx) := (a.rmsAfter.map fun r => rmsFx r.1 r.2).flatten

/-- every record of the section but END OF ANTENNA -/
def sigFx (a : AntM) : List (Str × Fx) := preambleFx a ++ (a.freqs.map freqFx).flatten ++ tailFx a

def eoaFx : Str × Fx := (rec "EOA" [], idFx)

theorem bodyFx_lines (b : SecM) : (bodyFx b).map (·.1) = bodyLines b := by
  simp [bodyFx, bodyLines, List.map_map, Function.comp_def]

theorem rmsFx_lines (c : Str) (b : SecM) : (rmsFx c b).map (·.1) = rmsLines c b := by
  simp [rmsFx, rmsLines, bodyFx_lines]

theorem freqFx_lines (f : FreqM) : (freqFx f).map (·.1) = freqLines f := by
  unfold freqFx freqLines
  cases f.rms <;> simp [bodyFx_lines, rmsFx_lines]

theorem flatten_map_lines {α} (l : List α) (g : α → List (Str × Fx)) (h : α → List Str)
    (hgh : ∀ x, (g x).map (·.1) = h x) : ((l.map g).flatten).map (·.1) = (l.map h).flatten := by
  induction l with
  | nil => rfl
  | cons x xs ih => simp [hgh, ih]

theorem sigFx_lines (a : AntM) : (sigFx a ++ [eoaFx]).map (·.1) = sigLines a := by
  have hp : (preambleFx a).map (·.1) = preambleLines a := by
    unfold preambleFx preambleLines
    cases a.validFrom <;> cases a.validUntil <;> simp
  have hf := flatten_map_lines a.freqs freqFx freqLines freqFx_lines
  have ht := flatten_map_lines a.rmsAfter (fun r => rmsFx r.1 r.2) (fun r => rmsLines r.1 r.2) (fun r => rmsFx_lines r.1 r.2)
  simp only [sigFx, tailFx, sigLines, List.map_append, hp, hf, ht, eoaFx, List.map_cons, List.map_nil]

/-! ### every line has its effect -/

theorem body_ok (b : SecM) (h : b.wf = true) : ∀ x ∈ bodyFx b, LineOk x := by
  simp only [SecM.wf, Bool.and_eq_true] at h
  obtain ⟨⟨⟨⟨⟨hr, h1⟩, h2⟩, h3⟩, hn⟩, hrows⟩ := h
  intro x hx
  simp only [bodyFx, List.cons_append, List.nil_append, List.mem_cons, List.mem_map] at hx
  rcases hx with rfl | rfl | ⟨r, hr', rfl⟩
  · exact neu_line b hr h1 h2 h3
  · exact noazi_lineOk b hn
  · exact azi_lineOk r (List.all_eq_true.mp hrows r hr')

theorem okRec_SOR {code : Str} (h : okRec "SOF" [code] = true) : okRec "SOR" [code] = true :=
  okRec_code (by decide +kernel) (by decide +kernel) h

theorem okRec_EOR {code : Str} (h : okRec "SOF" [code] = true) : okRec "EOR" [code] = true :=
  okRec_code (by decide +kernel) (by decide +kernel) h

theorem rms_ok (code : Str) (b : SecM) (hc : okRec "SOR" [code] = true) (h : b.wf = true) : ∀ x ∈ rmsFx code b, LineOk x := by
  intro x hx
  simp only [rmsFx, List.cons_append, List.nil_append, List.mem_cons, List.mem_append, List.mem_singleton, List.not_mem_nil, or_false, or_assoc] at hx
  rcases hx with rfl | hx | rfl
  · exact lineOk_ignored "SOR" (by decide) (by decide +kernel) _ hc
  · exact body_ok b h x hx
  · exact lineOk_ignored "EOR" (by decide) (by decide +kernel) _ (okRec_code (by decide +kernel) (by decide +kernel) hc)

theorem freq_ok (f : FreqM) (h : f.wf = true) : ∀ x ∈ freqFx f, LineOk x := by
  simp only [FreqM.wf, Bool.and_eq_true] at h
  obtain ⟨⟨hc, hb⟩, hr⟩ := h
  intro x hx
  simp only [freqFx, List.cons_append, List.nil_append, List.mem_cons, List.mem_append, List.mem_singleton, List.not_mem_nil, or_false, or_assoc] at hx
  rcases hx with rfl | hx | rfl | hx
  · exact sof_line f.code hc
  · exact body_ok f.body hb x hx
  · exact eof_line f.code hc
  · cases hrm : f.rms with
    | none => simp [hrm] at hx
    | some b =>
      simp only [hrm] at hx hr
      exact rms_ok f.code b (okRec_SOR hc) hr x hx

theorem sig_ok (a : AntM) (h : a.wf = true) : ∀ x ∈ sigFx a, LineOk x := by
  simp only [AntM.wf, Bool.and_eq_true] at h
  obtain ⟨⟨⟨⟨⟨⟨⟨⟨⟨⟨⟨⟨htyp, hdz⟩, hdzn⟩, hzen⟩, hz1⟩, hz2⟩, hz3⟩, hnf⟩, hvf⟩, hvu⟩, hfr⟩, hra⟩, _⟩ := h
  intro x hx
  simp only [sigFx, tailFx, List.mem_append, List.mem_flatten, List.mem_map] at hx
  rcases hx with (hx | ⟨l, ⟨f, hf, rfl⟩, hx⟩) | ⟨l, ⟨r, hr, rfl⟩, hx⟩
  · simp only [preambleFx, List.cons_append, List.nil_append, List.mem_cons, List.mem_append, List.mem_singleton, List.not_mem_nil, or_false, or_assoc] at hx
    rcases hx with rfl | rfl | rfl | rfl | rfl | hx | hx
    · exact lineOk_ignored "SOA" (by decide) (by decide +kernel) _ (by decide +kernel)
    · exact typ_line a htyp
    · exact dazi_line a.dazi hdz hdzn
    · exact zen_line a.zen1 a.zen2 a.dzen hzen hz1 hz2 hz3
    · exact nfreq_line a.numFreq hnf
    · cases hv : a.validFrom with
      | none => simp [hv] at hx
      | some d =>
        simp only [hv, List.mem_singleton] at hx hvf
        rw [hx]; exact vfrom_line d hvf
    · cases hv : a.validUntil with
      | none => simp [hv] at hx
      | some d =>
        simp only [hv, List.mem_singleton] at hx hvu
        rw [hx]; exact vuntil_line d hvu
  · exact freq_ok f (List.all_eq_true.mp hfr f hf) x hx
  · have := List.all_eq_true.mp hra r hr
    simp only [Bool.and_eq_true] at this
    exact rms_ok r.1 r.2 this.1 this.2 x hx

theorem eoa_ok : (∀ n s, parseLine corrParser (rstrip eoaFx.1) n s = eoaFx.2 s) ∧
    ∀ n nx, corrParser.endMarker (rstrip eoaFx.1) n nx = true := by
  have hok : okRec "EOA" [] = true := by decide +kernel
  refine ⟨fun n s => rec_ignored_ok "EOA" (by decide) [] hok n s, fun n nx => ?_⟩
  have hfk : findKind "EOA" = some ⟨"EOA", "END OF ANTENNA", [], []⟩ := by decide +kernel
  have hf := (okRec_parts hok).2.1
  rw [spec_eq hfk] at hf
  show corrParser.endMarker (rstrip (rec "EOA" [])) n nx = true
  rw [corr_endMarker_rec "EOA" _ hfk [] hf]
  decide


/-! ### running the effects of a section -/

theorem runFx_cacheFx (f : Cache → Cache) (fs : List Fx) (s : State) :
    runFx (cacheFx f :: fs) s = runFx fs { s with cache := f s.cache } := rfl

theorem runFx_idFx (fs : List Fx) (s : State) : runFx (idFx :: fs) s = runFx fs s := rfl

/-- what a section body leaves in the cache -/
def bodyCache (b : SecM) (k : Cache) : Cache :=
  { k with north := some b.north.val, east := some b.east.val, up := some b.up.val,
           noazi := some (b.noazi.map (·.val)),
           azi := if b.rows = [] then k.azi else some (k.azi.getD [] ++ b.rows.map fun r => r.2.map (·.val)) }

def addRows (k : Cache) (rows : List (Str × List NumCell)) : Cache :=
  { k with azi := if rows = [] then k.azi else some (k.azi.getD [] ++ rows.map fun r => r.2.map (·.val)) }

theorem rows_run (rest : List Fx) : ∀ (rows : List (Str × List NumCell)) (s : State),
    runFx (rows.map rowFx ++ rest) s = runFx rest { s with cache := addRows s.cache rows } := by
  intro rows
  induction rows with
  | nil => intro s; rfl
  | cons r rows ih =>
    intro s
    have : runFx ((r :: rows).map rowFx ++ rest) s =
        runFx (rows.map rowFx ++ rest) { s with cache := { s.cache with azi := some (s.cache.azi.getD [] ++ [r.2.map (·.val)]) } } := rfl
    rw [this, ih]
    congr 2
    simp only [addRows]
    by_cases hr : rows = [] <;> simp [hr]

theorem body_run (b : SecM) (rest : List Fx) (s : State) :
    runFx ((bodyFx b).map (·.2) ++ rest) s = runFx rest { s with cache := bodyCache b s.cache } := by
  have h1 : (bodyFx b).map (·.2) = neuFx b :: noaziFx b :: b.rows.map rowFx := by
    simp [bodyFx, List.map_map, Function.comp_def]
  rw [h1, List.cons_append, List.cons_append, neuFx, runFx_cacheFx, noaziFx, runFx_cacheFx, rows_run]
  rfl

theorem rms_run (code : Str) (b : SecM) (rest : List Fx) (s : State) :
    runFx ((rmsFx code b).map (·.2) ++ rest) s = runFx rest { s with cache := bodyCache b s.cache } := by
  simp only [rmsFx, List.map_append, List.map_cons, List.map_nil, List.cons_append, List.nil_append, runFx_idFx,
    List.append_assoc]
  rw [body_run]
  rfl

/-- the cache at END OF FREQUENCY -/
def freqCache (f : FreqM) (k : Cache) : Cache :=
  bodyCache f.body { k with freqCode := some f.code, noazi := none, azi := none }

def afterRms (f : FreqM) (k : Cache) : Cache :=
  match f.rms with
  | some b => bodyCache b k
  | none => k

theorem freq_run (f : FreqM) (rest : List Fx) (s : State) :
    runFx ((freqFx f).map (·.2) ++ rest) s =
      match saveCorrection { s with cache := freqCache f s.cache } with
      | .ok s' => runFx rest { s' with cache := afterRms f s'.cache }
      | .error e => .error e := by
  simp only [freqFx, List.map_append, List.map_cons, List.map_nil, List.cons_append, List.nil_append, sofFx,
    runFx_cacheFx, List.append_assoc]
  rw [body_run]
  simp only [runFx]
  have hc : bodyCache f.body { s.cache with freqCode := some f.code, noazi := none, azi := none } = freqCache f s.cache := rfl
  rw [hc]
  cases saveCorrection { s with cache := freqCache f s.cache } with
  | error e => rfl
  | ok s' =>
    simp only [afterRms]
    cases f.rms with
    | none => rfl
    | some b => exact rms_run f.code b rest s'

/-! ### the antenna's own records stay in the cache -/

def Base (a : AntM) (k : Nat) (c : Cache) : Prop :=
  c.antennaType = some a.typ ∧ c.antennaCode = some a.code ∧ c.satCode = some a.satCode ∧ c.cosparId = some a.cospar ∧
  c.dazi = some a.dazi.val ∧ c.zen1 = some a.zen1.val ∧ c.zen2 = some a.zen2.val ∧ c.dzen = some a.dzen.val ∧
  c.numFreq = some a.numFreq ∧ c.counter = some k ∧ c.validFrom = a.validFrom.map dateMicros ∧
  c.validUntil = a.validUntil.map dateMicros

theorem base_body {a : AntM} {k : Nat} {c : Cache} (b : SecM) (h : Base a k c) : Base a k (bodyCache b c) := h

theorem base_afterRms {a : AntM} {k : Nat} {c : Cache} (f : FreqM) (h : Base a k c) : Base a k (afterRms f c) := by
  unfold afterRms
  cases f.rms with
  | none => exact h
  | some b => exact base_body b h

theorem base_freq {a : AntM} {k : Nat} {c : Cache} (f : FreqM) (h : Base a k c) : freqCache f c = cacheAt a k f := by
  obtain ⟨h1, h2, h3, h4, h5, h6, h7, h8, h9, h10, h11, h12⟩ := h
  cases c
  simp only at h1 h2 h3 h4 h5 h6 h7 h8 h9 h10 h11 h12
  subst h1 h2 h3 h4 h5 h6 h7 h8 h9 h10 h11 h12
  simp only [freqCache, bodyCache, cacheAt, Option.getD_none, List.nil_append]

theorem saveCorrection_cache (s s' : State) (h : saveCorrection s = .ok s') :
    ∃ k, s.cache.counter = some k ∧ s'.cache = { s.cache with counter := some (k + 1) } := by
  unfold saveCorrection at h
  simp only [bind, Except.bind, pure, Except.pure] at h
  repeat' (split at h <;> try (first | (simp at h; done) | skip))
  all_goals (
    simp only [req_ok_iff] at *
    injection h with h
    subst h
    exact ⟨_, by assumption, rfl⟩)

theorem base_saved {a : AntM} {k : Nat} {f : FreqM} {s s' : State}
    (h : saveCorrection { s with cache := cacheAt a k f } = .ok s') : Base a (k + 1) s'.cache := by
  obtain ⟨k', hk, hc⟩ := saveCorrection_cache _ _ h
  have : k' = k := by
    have : some k = some k' := hk
    injection this with this; exact this.symm
  subst this
  rw [hc]
  exact ⟨rfl, rfl, rfl, rfl, rfl, rfl, rfl, rfl, rfl, rfl, rfl, rfl⟩

theorem withCache_eq {s t : State} (h : resetCache s = resetCache t) (c : Cache) :
    ({ s with cache := c } : State) = { t with cache := c } := by
  cases s; cases t
  simp only [resetCache, State.mk.injEq] at h
  simp [h.1, h.2.1, h.2.2.1]

def mapR (r : Except Err State) : Except Err State :=
  match r with
  | .ok s => .ok (resetCache s)
  | .error e => .error e

/-- **frequency sections**: running the lines of the frequency sections (with their rms sections) from a state
whose cache holds the antenna's records stores exactly `storeFreqs` -/
theorem freqs_run (a : AntM) (tail : List Fx) (htail : ∀ s, ∃ c, runFx tail s = .ok { s with cache := c }) :
    ∀ (fs : List FreqM) (k : Nat) (s t : State), resetCache s = resetCache t → Base a k s.cache →
      mapR (runFx ((fs.map freqFx).flatten.map (·.2) ++ tail) s) = mapR (storeFreqs a fs k t) := by
  intro fs
  induction fs with
  | nil =>
    intro k s t hst _
    obtain ⟨c, hc⟩ := htail s
    simp only [List.map_nil, List.flatten_nil, List.nil_append, hc, storeFreqs, pure, Except.pure, mapR]
    exact congrArg Except.ok hst
  | cons f fs ih =>
    intro k s t hst hb
    simp only [List.map_cons, List.flatten_cons, List.map_append, List.append_assoc]
    rw [freq_run, base_freq f hb, withCache_eq hst]
    simp only [storeFreqs]
    cases hsv : saveCorrection { t with cache := cacheAt a k f } with
    | error e => rfl
    | ok s' =>
      simp only
      exact ih (k + 1) _ s' rfl (base_afterRms f (base_saved hsv))

theorem tail_run (a : AntM) : ∀ s, ∃ c, runFx ((tailFx a).map (·.2) ++ [eoaFx.2]) s = .ok { s with cache := c } := by
  unfold tailFx
  induction a.rmsAfter with
  | nil => intro s; exact ⟨s.cache, rfl⟩
  | cons r rs ih =>
    intro s
    simp only [List.map_cons, List.flatten_cons, List.map_append, List.append_assoc]
    rw [rms_run]
    obtain ⟨c, hc⟩ := ih { s with cache := bodyCache r.2 s.cache }
    exact ⟨c, hc⟩

def preCache (a : AntM) : Cache :=
  { antennaType := some a.typ, antennaCode := some a.code, satCode := some a.satCode, cosparId := some a.cospar,
    dazi := some a.dazi.val, zen1 := some a.zen1.val, zen2 := some a.zen2.val, dzen := some a.dzen.val,
    numFreq := some a.numFreq, counter := some 0,
    validFrom := a.validFrom.map dateMicros, validUntil := a.validUntil.map dateMicros }

theorem preamble_run (a : AntM) (rest : List Fx) (s : State) (hc : s.cache = {}) :
    runFx ((preambleFx a).map (·.2) ++ rest) s = runFx rest { s with cache := preCache a } := by
  unfold preambleFx preCache
  cases a.validFrom <;> cases a.validUntil <;>
    simp only [List.map_append, List.map_cons, List.map_nil, List.cons_append, List.nil_append, List.append_nil,
      runFx_idFx, runFx_cacheFx, hc, Option.map_none, Option.map_some]

/-- **antenna section**: the effects of all records of an antenna section, started with an empty cache, store
the antenna's frequencies as `storeAntenna` says (up to the cache, which `read_data` drops after the section) -/
theorem antenna_run (a : AntM) (s : State) (hc : s.cache = {}) :
    mapR (runFx ((sigFx a ++ [eoaFx]).map (·.2)) s) = storeAntenna a s := by
  have h := freqs_run a ((tailFx a).map (·.2) ++ [eoaFx.2]) (tail_run a) a.freqs 0 { s with cache := preCache a } s
    (by simp [resetCache]) ⟨rfl, rfl, rfl, rfl, rfl, rfl, rfl, rfl, rfl, rfl, rfl, rfl⟩
  simp only [sigFx, List.map_append, List.map_cons, List.map_nil, List.append_assoc]
  rw [preamble_run a _ s hc, h]
  unfold storeAntenna mapR
  cases storeFreqs a a.freqs 0 s <;> rfl

end Midgard.Antex.File
