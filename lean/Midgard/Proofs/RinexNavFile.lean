/-
Lemmas for the file-level theorems of C12 (`Props/C12.lean`): the 19-column reals of the writer read back
through `_float`, the record lines read back through the parsers' column tables (the regenerated
`Generated/RinexNavCols.lean`), one record through `addRecord`, record splitting, header splitting.
Core Lean only.
-/
import Midgard.Spec.RinexNavFile
import Midgard.Generated.RinexNavCols
import Midgard.Proofs.Sp3File

namespace Midgard.Spec.RinexNavFile
open Midgard.Text Midgard.Decimal Midgard.FixedCol Midgard.RinexNav Midgard.Spec.NumText
open Midgard.Spec.Sp3File (joinLines okText rstrip_cons sliceAll_labelled splitOn_joinLines NoNl nonl_append nonl_cons
  nonl_blanks nonl_okText nonl_numChars nonl_rstrip nonl_rjust nonl_nil)

/-- `rstrip` leaves a line alone that ends in a clean non-empty text -/
theorem rstrip_append_clean {a v : Str} (hv : Clean v = true) (hne : v ≠ []) : rstrip (a ++ v) = a ++ v := by
  obtain ⟨ws, hs, hb⟩ := rstrip_decomp (a ++ v)
  have hvr : rstrip v = v := clean_rstrip hv
  -- write v = init ++ [c] with c visible
  cases hrev : v.reverse with
  | nil => simp at hrev; exact absurd hrev hne
  | cons c r =>
    have hv' : v = r.reverse ++ [c] := by
      have := congrArg List.reverse hrev
      simpa using this
    have hc : isSpace c = false := by
      cases hsp : isSpace c with
      | false => rfl
      | true =>
        exfalso
        have : rstrip v = rstrip r.reverse := by
          rw [hv']; exact rstrip_append_isBlank (by simp [isBlank, hsp])
        rw [hvr] at this
        have hl := congrArg List.length this
        obtain ⟨ws', hs', _⟩ := rstrip_decomp r.reverse
        have hl2 := congrArg List.length hs'
        rw [hv'] at hl
        simp at hl hl2
        omega
    rw [hv', ← List.append_assoc]
    unfold rstrip
    simp [List.reverse_append, hc]

/-! ### 19-column reals -/

theorem isBlank_false_of_mem {s : Str} {c : Char} (hc : c ∈ s) (h : isSpace c = false) : isBlank s = false := by
  rw [← Bool.not_eq_true]
  intro hb
  simp only [isBlank, List.all_eq_true] at hb
  rw [hb c hc] at h
  exact absurd h (by simp)

/-- **`_float` of a printed 19-column real is the number** (`D`, `d`, `E`, `e` exponents; blank = 0) -/
theorem floatField_num19 (n : Num19) (h : n.wf = true) : floatField n.text = some n.val := by
  cases n with
  | blank => rfl
  | sci x lead neg m e =>
    simp only [Num19.wf, Bool.and_eq_true] at h
    have hx := h.1
    simp only [Num19.text, Num19.val]
    unfold floatField
    have hne : (fmtSci x 12 lead neg m e).isEmpty = false := by
      cases hh : fmtSci x 12 lead neg m e with
      | nil => exact absurd hh (fmtSci_ne_nil _ _ _ _ _ _)
      | cons _ _ => rfl
    have hpt : '.' ∈ fmtSci x 12 lead neg m e := by simp [fmtSci, sciBody]
    have hnb : isBlank (fmtSci x 12 lead neg m e) = false := isBlank_false_of_mem hpt (by decide)
    simp only [hne, hnb, Bool.or_self, Bool.false_eq_true, if_false]
    obtain ⟨x', hx', hrep⟩ := replace_fmtSci x hx 12 lead neg m e
    rw [hrep]
    have hx'l : isExpLetter x' = true := by rcases hx' with rfl | rfl <;> decide
    exact parseDecimalWith_sci ['e', 'E'] (by decide) x' (by rcases hx' with rfl | rfl <;> simp) 12 (by decide)
      lead neg m e _ (strip_of_no_space (noSpace_fmtSci x' hx'l 12 lead neg m e))

theorem clean_num19 (n : Num19) (h : n.wf = true) : Clean n.text = true := by
  cases n with
  | blank => rfl
  | sci x lead neg m e =>
    simp only [Num19.wf, Bool.and_eq_true] at h
    have hns := noSpace_fmtSci x h.1 12 lead neg m e
    simp only [Num19.text]
    cases hh : fmtSci x 12 lead neg m e with
    | nil => rfl
    | cons c r =>
      rw [hh] at hns
      simp only [Clean, Bool.and_eq_true, Bool.not_eq_eq_eq_not, Bool.not_true]
      refine ⟨hns c (by simp), ?_⟩
      cases hl : (c :: r).getLast? with
      | none => simp at hl
      | some d => exact hns d (List.mem_of_getLast? hl)

theorem length_num19 (n : Num19) (h : n.wf = true) : n.text.length ≤ 19 := by
  cases n with
  | blank => simp [Num19.text]
  | sci x lead neg m e =>
    simp only [Num19.wf, Bool.and_eq_true, decide_eq_true_eq] at h
    exact h.2

theorem alpha_digit : ∀ k < 10, isAlpha (Char.ofNat (48 + k)) = false := by decide +kernel

theorem natDigits_last (n : Nat) : ∃ init, natDigits n = init ++ [digitChar n] := by
  by_cases h : n < 10
  · exact ⟨[], by rw [natDigits_lt h]; rfl⟩
  · refine ⟨natDigits (n / 10), ?_⟩
    rw [natDigits_ge h]
    have : digitChar (n % 10) = digitChar n := by simp [digitChar]
    rw [this]

/-- a printed real never ends in a letter (the parser's test for a stray header line) -/
theorem num19_last_not_alpha (n : Num19) : ((n.text.getLast?).map isAlpha).getD false = false := by
  cases n with
  | blank => rfl
  | sci x lead neg m e =>
    obtain ⟨init, hi⟩ := natDigits_last e.natAbs
    have : ∃ front, fmtSci x 12 lead neg m e = front ++ [digitChar e.natAbs] := by
      unfold fmtSci fmtExp
      by_cases hk : e.natAbs < 10
      · exact ⟨((if neg then ['-'] else []) ++ sciBody 12 lead m) ++ (x :: (if e < 0 then '-' else '+') :: '0' :: init),
          by simp only [hk, if_true, hi]; simp [List.append_assoc]⟩
      · exact ⟨((if neg then ['-'] else []) ++ sciBody 12 lead m) ++ (x :: (if e < 0 then '-' else '+') :: init),
          by simp only [hk, if_false, hi]; simp [List.append_assoc]⟩
    obtain ⟨front, hf⟩ := this
    simp only [Num19.text, hf, List.getLast?_append, List.getLast?_singleton, Option.some_or, Option.map_some,
      Option.getD_some]
    exact alpha_digit (e.natAbs % 10) (Nat.mod_lt _ (by decide))

/-! ### numbers of the epoch line -/

theorem parseFloat_digits (s : Str) (hne : s ≠ []) (hall : allDigits s = true) : parseFloat s = some (digitsVal s : Rat) := by
  unfold parseFloat parseDecimalWith
  rw [strip_of_allDigits hall]
  cases hs : s with
  | nil => exact absurd hs hne
  | cons c r =>
    have hd : isDigit c = true := mem_allDigits hall (by rw [hs]; simp)
    rw [← hs]
    have hts : takeSign s = (false, s) := by rw [hs]; exact takeSign_of_digit hd
    rw [hts]
    have hex : ∀ x ∈ s, (!['e', 'E'].contains x) = true := by
      intro x hx
      have := isDigit_not_exp (mem_allDigits hall hx)
      simp [this.1, this.2.1]
    have hnp : ∀ x ∈ s, (decide (x ≠ '.')) = true := by
      intro x hx
      have := (isDigit_not_exp (mem_allDigits hall hx)).2.2.2.2.1
      simpa using this
    have hm : parseMantissa? s = some (s, 0) := by
      unfold parseMantissa?
      rw [takeWhile_all _ _ hnp, dropWhile_all _ _ hnp]
      have h1 : s.isEmpty = false := by rw [hs]; rfl
      simp [h1, hall]
    simp only [takeWhile_all _ _ hex, dropWhile_all _ _ hex, hm, scale10_zero]
    simp only [pow10, Nat.pow_zero, Bool.false_eq_true, if_false, Option.some.injEq]
    grind

theorem parseFloat_i22 (n : Nat) (h : n < 100) : parseFloat (i22 n) = some (n : Rat) := by
  unfold i22
  rw [parseFloat_digits _ (fixedDigits_ne_nil (by decide) n) (allDigits_fixedDigits 2 n), digitsVal_fixedDigits]
  have : n % 10 ^ 2 = n := Nat.mod_eq_of_lt (by simpa using h)
  rw [this]

theorem parseInt_fixed (p : Nat) (hp : 0 < p) (n : Nat) (h : n < 10 ^ p) : parseInt? (fixedDigits p n) = some (n : Int) := by
  rw [parseInt_fixedDigits hp, Nat.mod_eq_of_lt h]

theorem i22_eq (n : Nat) : i22 n = [digitChar (n / 10), digitChar n] := by
  simp [i22, fixedDigits]

/-- `str(n).zfill(2)` is `'{:02d}'.format(n)` -/
theorem zfill_natDigits (n : Nat) (h : n < 100) : zfill 2 (natDigits n) = i22 n := by
  rw [i22_eq]
  by_cases h10 : n < 10
  · rw [natDigits_lt h10]
    have hs : ¬ (digitChar n = '+' ∨ digitChar n = '-') := by
      intro hh; rcases hh with hh | hh
      · exact digitChar_ne_plus n hh
      · exact digitChar_ne_minus n hh
    have h0 : n / 10 = 0 := by omega
    simp only [zfill, Bool.or_eq_true, decide_eq_true_eq, hs, if_false, List.length_singleton, h0]
    rfl
  · rw [natDigits_ge h10, natDigits_lt (by omega : n / 10 < 10)]
    have hs : ¬ (digitChar (n / 10) = '+' ∨ digitChar (n / 10) = '-') := by
      intro hh; rcases hh with hh | hh
      · exact digitChar_ne_plus _ hh
      · exact digitChar_ne_minus _ hh
    have : digitChar (n % 10) = digitChar n := by simp [digitChar]
    simp only [List.singleton_append, zfill, Bool.or_eq_true, decide_eq_true_eq, hs, if_false, List.length_cons,
      List.length_nil, this]
    rfl

theorem zfill_i22 (n : Nat) : zfill 2 (i22 n) = i22 n := by
  rw [i22_eq]
  have hs : ¬ (digitChar (n / 10) = '+' ∨ digitChar (n / 10) = '-') := by
    intro hh; rcases hh with hh | hh
    · exact digitChar_ne_plus _ hh
    · exact digitChar_ne_minus _ hh
  simp only [zfill, Bool.or_eq_true, decide_eq_true_eq, hs, if_false, List.length_cons, List.length_nil]
  rfl


/-! ### record lines through the column tables -/

def R (s : Str) : Align × Str := (Align.right, s)

theorem blanks_add (a b : Nat) : blanks (a + b) = blanks a ++ blanks b := by
  simp [blanks, List.replicate_append_replicate]

theorem rjust_lead (lead : Nat) (a : Str) (h : a.length ≤ 19) : rjust (lead + 19) a = blanks lead ++ rjust 19 a := by
  unfold rjust
  have : lead + 19 - a.length = lead + (19 - a.length) := by omega
  rw [this, blanks_add, List.append_assoc]

theorem rstrip_cutIf (cut : Bool) (l : Str) : rstrip (cutIf cut l) = rstrip l := by
  unfold cutIf
  split
  · exact rstrip_idem l
  · rfl

/-- layout of a broadcast-orbit line as the parsers cut it: the first field takes the leading blanks -/
def rowLayout (lead : Nat) (n1 n2 n3 n4 : String) : Layout :=
  [⟨n1, 0, lead + 19⟩, ⟨n2, lead + 19, lead + 38⟩, ⟨n3, lead + 38, lead + 57⟩, ⟨n4, lead + 57, lead + 76⟩]

def rowLayout2 (lead : Nat) (n1 n2 : String) : Layout := [⟨n1, 0, lead + 19⟩, ⟨n2, lead + 19, lead + 38⟩]

theorem fits_R (w : Nat) (n : Num19) (h : n.wf = true) (hw : 19 ≤ w) :
    decide (n.text.length ≤ w) = true ∧ Clean n.text = true := by
  have := length_num19 n h
  exact ⟨decide_eq_true (by omega), clean_num19 n h⟩

/-- **a four-value orbit line reads back as its four texts** under whatever names the table gives the
columns — with the `lead` blanks (`4X` / `3X`) swallowed by the first field, cut after the last value or not -/
theorem row4_values (num lead : Nat) (n1 n2 n3 n4 : String) (a b c d : Num19) (cut : Bool)
    (ha : a.wf = true) (hb : b.wf = true) (hc : c.wf = true) (hd : d.wf = true) :
    lineValues ⟨num, rowLayout lead n1 n2 n3 n4⟩ (rowLine lead [a, b, c, d] cut) =
      [(n1, a.text), (n2, b.text), (n3, c.text), (n4, d.text)] := by
  unfold lineValues rowLine
  rw [rstrip_cutIf]
  have hline : blanks lead ++ ([a, b, c, d].map cell19).flatten =
      [] ++ renderFrom 0 (rowLayout lead n1 n2 n3 n4) [R a.text, R b.text, R c.text, R d.text] ++ [] := by
    simp only [rowLayout, renderFrom, R, pad, Field.width, Nat.sub_zero, Nat.sub_self, blanks, List.replicate_zero,
      List.nil_append, List.append_nil, List.map_cons, List.map_nil, List.flatten_cons, List.flatten_nil, cell19]
    have e1 : lead + 38 - (lead + 19) = 19 := by omega
    have e2 : lead + 57 - (lead + 38) = 19 := by omega
    have e3 : lead + 76 - (lead + 57) = 19 := by omega
    rw [e1, e2, e3, rjust_lead lead _ (length_num19 a ha)]
    simp [blanks, List.append_assoc]
  rw [hline]
  have hfit : Fits (rowLayout lead n1 n2 n3 n4) [R a.text, R b.text, R c.text, R d.text] = true := by
    simp only [rowLayout, Fits, R, Bool.and_true, Bool.and_eq_true]
    refine ⟨fits_R _ a ha (by simp [Field.width]), fits_R _ b hb (by simp [Field.width]),
      fits_R _ c hc (by simp [Field.width]), fits_R _ d hd (by simp [Field.width])⟩
  have hs : SortedFrom 0 (rowLayout lead n1 n2 n3 n4) = true := by
    simp [rowLayout, SortedFrom]
  rw [sliceAll_labelled _ 0 _ [] [] hs hfit rfl]
  simp [rowLayout, R]

/-- the last orbit line: two values under the table's names, whatever fills the spare columns -/
theorem row2_values (num lead : Nat) (n1 n2 : String) (a b : Num19) (spare : List Num19) (cut : Bool)
    (ha : a.wf = true) (hb : b.wf = true) :
    lineValues ⟨num, rowLayout2 lead n1 n2⟩ (rowLine lead (a :: b :: spare) cut) = [(n1, a.text), (n2, b.text)] := by
  unfold lineValues rowLine
  rw [rstrip_cutIf]
  have hline : blanks lead ++ ((a :: b :: spare).map cell19).flatten =
      [] ++ renderFrom 0 (rowLayout2 lead n1 n2) [R a.text, R b.text] ++ (spare.map cell19).flatten := by
    simp only [rowLayout2, renderFrom, R, pad, Field.width, Nat.sub_zero, Nat.sub_self, blanks, List.replicate_zero,
      List.nil_append, List.append_nil, List.map_cons, List.flatten_cons, cell19]
    have e1 : lead + 38 - (lead + 19) = 19 := by omega
    rw [e1, rjust_lead lead _ (length_num19 a ha)]
    simp [blanks, List.append_assoc]
  rw [hline]
  have hfit : Fits (rowLayout2 lead n1 n2) [R a.text, R b.text] = true := by
    simp only [rowLayout2, Fits, R, Bool.and_true, Bool.and_eq_true]
    exact ⟨fits_R _ a ha (by simp [Field.width]), fits_R _ b hb (by simp [Field.width])⟩
  have hs : SortedFrom 0 (rowLayout2 lead n1 n2) = true := by
    simp [rowLayout2, SortedFrom]
  rw [sliceAll_labelled _ 0 _ [] _ hs hfit rfl]
  simp [rowLayout2, R]

theorem foldlM_float (kv : List (String × Num19)) (hwf : ∀ x ∈ kv, x.2.wf = true) (d : Cols) :
    (kv.map fun x => (x.1, x.2.text)).foldlM
        (fun d (kt : String × Str) => (floatField kt.2).map fun q => append d kt.1 (Cell.num q)) d =
      some (pushRow d (kv.map fun x => (x.1, Cell.num x.2.val))) := by
  induction kv generalizing d with
  | nil => rfl
  | cons x kv ih =>
    simp only [List.map_cons, List.foldlM_cons, floatField_num19 x.2 (hwf x (by simp)), Option.map_some,
      Option.bind_eq_bind, Option.bind_some]
    rw [ih (fun y hy => hwf y (by simp [hy]))]
    rfl

/-- `_parse_obs_float` on a line whose fields are printed reals: one value appended per field -/
theorem addLine_of (ld : LineDef) (line : Str) (kv : List (String × Num19))
    (h : lineValues ld line = kv.map fun x => (x.1, x.2.text)) (hwf : ∀ x ∈ kv, x.2.wf = true) (d : Cols) :
    addLine ld d line = some (pushRow d (kv.map fun x => (x.1, Cell.num x.2.val))) := by
  unfold addLine
  rw [h]
  exact foldlM_float kv hwf d

theorem pushRow_append (d : Cols) (a b : List (String × Cell)) : pushRow d (a ++ b) = pushRow (pushRow d a) b := by
  simp [pushRow, List.foldl_append]


/-! ### RINEX 3: the epoch line and one record -/

open Midgard.Generated.RinexNav

def L (s : Str) : Align × Str := (Align.left, s)

/-- the tables of `rinex3_nav` as this file expects them (checked against the regenerated ones below) -/
def epochLayout3 : Layout :=
  [⟨"system", 0, 1⟩, ⟨"sat_num", 1, 3⟩, ⟨"year", 4, 8⟩, ⟨"month", 9, 11⟩, ⟨"day", 12, 14⟩, ⟨"hour", 15, 17⟩,
   ⟨"minute", 18, 20⟩, ⟨"second", 21, 23⟩, ⟨"sat_clock_bias", 23, 42⟩, ⟨"sat_clock_drift", 42, 61⟩,
   ⟨"sat_clock_drift_rate", 61, 80⟩]

def orbitLines (lead : Nat) : List LineDef :=
  [⟨2, rowLayout lead "iode" "crs" "delta_n" "m0"⟩, ⟨3, rowLayout lead "cuc" "e" "cus" "sqrt_a"⟩,
   ⟨4, rowLayout lead "toe" "cic" "Omega" "cis"⟩, ⟨5, rowLayout lead "i0" "crc" "omega" "Omega_dot"⟩,
   ⟨6, rowLayout lead "idot" "gnss_data_info" "gnss_week" "gnss_l2p_flag"⟩,
   ⟨7, rowLayout lead "sv_accuracy" "sv_health" "gnss_tgd_bgd" "gnss_iodc_groupdelay"⟩,
   ⟨8, rowLayout2 lead "transmission_time" "gnss_interval"⟩]

/-- the regenerated RINEX 3 record table is the one the lemmas below are about -/
theorem v3_lines : v3.lines = ⟨1, epochLayout3⟩ :: orbitLines 4 := by decide +kernel

theorem epochLine3_values (sys : Char) (prnText : Str) (y mo d h mi s : Nat) (c1 c2 c3 : Num19)
    (hsys : isSpace sys = false) (hprn : Clean prnText = true) (hplen : prnText.length ≤ 2)
    (h1 : c1.wf = true) (h2 : c2.wf = true) (h3 : c3.wf = true) :
    lineValues ⟨1, epochLayout3⟩ (epochLine3 sys prnText y mo d h mi s c1 c2 c3) =
      [("system", [sys]), ("sat_num", prnText), ("year", fixedDigits 4 y), ("month", i22 mo), ("day", i22 d),
       ("hour", i22 h), ("minute", i22 mi), ("second", i22 s), ("sat_clock_bias", c1.text),
       ("sat_clock_drift", c2.text), ("sat_clock_drift_rate", c3.text)] := by
  unfold lineValues
  have hline : epochLine3 sys prnText y mo d h mi s c1 c2 c3 =
      [] ++ renderFrom 0 epochLayout3 [L [sys], R prnText, R (fixedDigits 4 y), R (i22 mo), R (i22 d), R (i22 h),
        R (i22 mi), R (i22 s), R c1.text, R c2.text, R c3.text] ++ [] := by
    simp [epochLine3, epochLayout3, renderFrom, L, R, pad, Field.width, ljust, rjust, blanks, cell19, i22,
      length_fixedDigits, List.append_assoc]
  rw [hline]
  have hcl : ∀ (p n : Nat), Clean (fixedDigits p n) = true := by
    intro p n
    have := strip_of_allDigits (allDigits_fixedDigits p n)
    cases hf : fixedDigits p n with
    | nil => rfl
    | cons c r =>
      have hall := allDigits_fixedDigits p n
      rw [hf] at hall
      simp only [Clean, Bool.and_eq_true, Bool.not_eq_eq_eq_not, Bool.not_true]
      refine ⟨isSpace_of_isDigit (mem_allDigits hall (by simp)), ?_⟩
      cases hl : (c :: r).getLast? with
      | none => simp at hl
      | some d => exact isSpace_of_isDigit (mem_allDigits hall (List.mem_of_getLast? hl))
  have hfit : Fits epochLayout3 [L [sys], R prnText, R (fixedDigits 4 y), R (i22 mo), R (i22 d), R (i22 h),
        R (i22 mi), R (i22 s), R c1.text, R c2.text, R c3.text] = true := by
    have hsc : Clean [sys] = true := by simp [Clean, hsys]
    have l1 := length_num19 c1 h1
    have l2 := length_num19 c2 h2
    have l3 := length_num19 c3 h3
    simp [epochLayout3, Fits, L, R, i22, hcl, hsc, hprn, length_fixedDigits, Field.width, clean_num19, h1, h2, h3,
      hplen, l1, l2, l3]
  rw [sliceAll_labelled _ 0 _ [] [] (by decide +kernel) hfit rfl]
  simp [epochLayout3, L, R]


theorem find_line (lines : List LineDef) (ld : LineDef) (h : ld ∈ lines)
    (huniq : ∀ l ∈ lines, l.num = ld.num → l = ld) :
    lines.find? (fun (l : LineDef) => l.num = ld.num) = some ld := by
  induction lines with
  | nil => simp at h
  | cons x xs ih =>
    by_cases hx : x.num = ld.num
    · have := huniq x (by simp) hx
      simp [this]
    · have hne : ld ≠ x := fun e => hx (e ▸ rfl)
      have hmem : ld ∈ xs := by
        rcases List.mem_cons.mp h with e | e
        · exact absurd e hne
        · exact e
      simp only [List.find?_cons, hx, decide_false]
      exact ih hmem (fun l hl => huniq l (by simp [hl]))

theorem clean_prnText (r : NavRec) (h : r.prn < 100) : Clean r.prnText = true ∧ r.prnText.length ≤ 2 := by
  unfold NavRec.prnText
  split
  · rw [i22_eq]
    refine ⟨?_, by simp⟩
    simp [Clean, isSpace_digitChar]
  · exact ⟨clean_of_numChars (numChars_natDigits _), natDigits_len_le 2 r.prn (by decide) (by simpa using h)⟩

theorem zfill_prnText (r : NavRec) (h : r.prn < 100) : zfill 2 r.prnText = i22 r.prn := by
  unfold NavRec.prnText
  split
  · exact zfill_i22 _
  · exact zfill_natDigits _ h

theorem sys_facts {c : Char} (h : supportedSys.contains c = true) :
    isSpace c = false ∧ [c] ≠ ['S'] ∧ [c] ≠ ['R'] := by
  simp only [supportedSys, List.contains_iff_mem, List.mem_cons, List.not_mem_nil, or_false] at h
  rcases h with rfl | rfl | rfl | rfl | rfl <;> decide

/-- the (column, value) pairs a record's orbit lines append, line by line -/
def orbitKv (r : NavRec) : List (String × Cell) :=
  [("iode", r.o1.a), ("crs", r.o1.b), ("delta_n", r.o1.c), ("m0", r.o1.d),
   ("cuc", r.o2.a), ("e", r.o2.b), ("cus", r.o2.c), ("sqrt_a", r.o2.d),
   ("toe", r.o3.a), ("cic", r.o3.b), ("Omega", r.o3.c), ("cis", r.o3.d),
   ("i0", r.o4.a), ("crc", r.o4.b), ("omega", r.o4.c), ("Omega_dot", r.o4.d),
   ("idot", r.o5.a), ("gnss_data_info", r.o5.b), ("gnss_week", r.o5.c), ("gnss_l2p_flag", r.o5.d),
   ("sv_accuracy", r.o6.a), ("sv_health", r.o6.b), ("gnss_tgd_bgd", r.o6.c), ("gnss_iodc_groupdelay", r.o6.d),
   ("transmission_time", r.o7.a), ("gnss_interval", r.o7.b)].map fun x => (x.1, Cell.num x.2.val)

theorem kvOf_eq (r : NavRec) :
    kvOf r = [("system", Cell.str [r.sys]), ("satellite", Cell.str (satName r.sys r.prn)),
      ("sat_clock_bias", Cell.num r.c1.val), ("sat_clock_drift", Cell.num r.c2.val),
      ("sat_clock_drift_rate", Cell.num r.c3.val)] ++ orbitKv r := by
  simp [kvOf, orbitKv, orbitVals, Spec.RinexNav.orbitNames]

/-- the seven orbit lines of a record through `addLines`, for a table with the standard slot names -/
theorem addLines_nav (T : Tables) (lead : Nat) (hT : ∀ ld ∈ orbitLines lead, T.lines.find? (fun (l : LineDef) => l.num = ld.num) = some ld)
    (r : NavRec) (hr : r.wf = true) (d : Cols) :
    addLines T d ((List.range 7).zip
      [rowLine lead r.o1.cells r.o1.cut, rowLine lead r.o2.cells r.o2.cut, rowLine lead r.o3.cells r.o3.cut,
       rowLine lead r.o4.cells r.o4.cut, rowLine lead r.o5.cells r.o5.cut, rowLine lead r.o6.cells r.o6.cut,
       rowLine lead r.o7.cells r.o7.cut]) = some (pushRow d (orbitKv r)) := by
  simp only [NavRec.wf, Row4.wf, Row2.wf, Bool.and_eq_true] at hr
  obtain ⟨⟨⟨⟨⟨⟨⟨_, ⟨⟨⟨h1a, h1b⟩, h1c⟩, h1d⟩⟩, ⟨⟨⟨h2a, h2b⟩, h2c⟩, h2d⟩⟩, ⟨⟨⟨h3a, h3b⟩, h3c⟩, h3d⟩⟩, ⟨⟨⟨h4a, h4b⟩, h4c⟩, h4d⟩⟩,
    ⟨⟨⟨h5a, h5b⟩, h5c⟩, h5d⟩⟩, ⟨⟨⟨h6a, h6b⟩, h6c⟩, h6d⟩⟩, ⟨⟨⟨h7a, h7b⟩, _⟩, _⟩⟩ := hr
  have hrange : List.range 7 = [0, 1, 2, 3, 4, 5, 6] := by decide
  have f := fun ld (h : ld ∈ orbitLines lead) => hT ld h
  have f2 := f ⟨2, rowLayout lead "iode" "crs" "delta_n" "m0"⟩ (by simp [orbitLines])
  have f3 := f ⟨3, rowLayout lead "cuc" "e" "cus" "sqrt_a"⟩ (by simp [orbitLines])
  have f4 := f ⟨4, rowLayout lead "toe" "cic" "Omega" "cis"⟩ (by simp [orbitLines])
  have f5 := f ⟨5, rowLayout lead "i0" "crc" "omega" "Omega_dot"⟩ (by simp [orbitLines])
  have f6 := f ⟨6, rowLayout lead "idot" "gnss_data_info" "gnss_week" "gnss_l2p_flag"⟩ (by simp [orbitLines])
  have f7 := f ⟨7, rowLayout lead "sv_accuracy" "sv_health" "gnss_tgd_bgd" "gnss_iodc_groupdelay"⟩ (by simp [orbitLines])
  have f8 := f ⟨8, rowLayout2 lead "transmission_time" "gnss_interval"⟩ (by simp [orbitLines])
  simp only at f2 f3 f4 f5 f6 f7 f8
  have a1 := fun d => addLine_of _ _ [("iode", r.o1.a), ("crs", r.o1.b), ("delta_n", r.o1.c), ("m0", r.o1.d)]
    (row4_values 2 lead "iode" "crs" "delta_n" "m0" r.o1.a r.o1.b r.o1.c r.o1.d r.o1.cut h1a h1b h1c h1d)
    (by simp [h1a, h1b, h1c, h1d]) d
  have a2 := fun d => addLine_of _ _ [("cuc", r.o2.a), ("e", r.o2.b), ("cus", r.o2.c), ("sqrt_a", r.o2.d)]
    (row4_values 3 lead "cuc" "e" "cus" "sqrt_a" r.o2.a r.o2.b r.o2.c r.o2.d r.o2.cut h2a h2b h2c h2d)
    (by simp [h2a, h2b, h2c, h2d]) d
  have a3 := fun d => addLine_of _ _ [("toe", r.o3.a), ("cic", r.o3.b), ("Omega", r.o3.c), ("cis", r.o3.d)]
    (row4_values 4 lead "toe" "cic" "Omega" "cis" r.o3.a r.o3.b r.o3.c r.o3.d r.o3.cut h3a h3b h3c h3d)
    (by simp [h3a, h3b, h3c, h3d]) d
  have a4 := fun d => addLine_of _ _ [("i0", r.o4.a), ("crc", r.o4.b), ("omega", r.o4.c), ("Omega_dot", r.o4.d)]
    (row4_values 5 lead "i0" "crc" "omega" "Omega_dot" r.o4.a r.o4.b r.o4.c r.o4.d r.o4.cut h4a h4b h4c h4d)
    (by simp [h4a, h4b, h4c, h4d]) d
  have a5 := fun d => addLine_of _ _ [("idot", r.o5.a), ("gnss_data_info", r.o5.b), ("gnss_week", r.o5.c), ("gnss_l2p_flag", r.o5.d)]
    (row4_values 6 lead "idot" "gnss_data_info" "gnss_week" "gnss_l2p_flag" r.o5.a r.o5.b r.o5.c r.o5.d r.o5.cut h5a h5b h5c h5d)
    (by simp [h5a, h5b, h5c, h5d]) d
  have a6 := fun d => addLine_of _ _ [("sv_accuracy", r.o6.a), ("sv_health", r.o6.b), ("gnss_tgd_bgd", r.o6.c), ("gnss_iodc_groupdelay", r.o6.d)]
    (row4_values 7 lead "sv_accuracy" "sv_health" "gnss_tgd_bgd" "gnss_iodc_groupdelay" r.o6.a r.o6.b r.o6.c r.o6.d r.o6.cut h6a h6b h6c h6d)
    (by simp [h6a, h6b, h6c, h6d]) d
  have a7 := fun d => addLine_of _ _ [("transmission_time", r.o7.a), ("gnss_interval", r.o7.b)]
    (row2_values 8 lead "transmission_time" "gnss_interval" r.o7.a r.o7.b r.o7.spare r.o7.cut h7a h7b)
    (by simp [h7a, h7b]) d
  unfold addLines
  simp only [hrange, List.zip_cons_cons, List.zip_nil_right, List.foldlM_cons, List.foldlM_nil, Nat.zero_add,
    Nat.reduceAdd, f2, f3, f4, f5, f6, f7, f8, Row4.cells, Row2.cells, a1, a2, a3, a4, a5, a6, a7,
    Option.bind_eq_bind, Option.bind_some, Option.pure_def]
  simp only [orbitKv, ← pushRow_append, List.map_cons, List.map_nil, List.cons_append, List.nil_append]


theorem get_cons (k' : String) (v : Str) (rest : List (String × Str)) (k : String) :
    RinexNav.get ((k', v) :: rest) k = if k' = k then v else RinexNav.get rest k := by
  unfold RinexNav.get
  by_cases h : k' = k <;> simp [h]

theorem v3_find1 : v3.lines.find? (fun (l : LineDef) => l.num = 1) = some ⟨1, epochLayout3⟩ := by decide +kernel

theorem v3_findOrbit : ∀ ld ∈ orbitLines 4, v3.lines.find? (fun (l : LineDef) => l.num = ld.num) = some ld := by
  decide +kernel

theorem head3_nav (r : NavRec) (hr : r.wf = true) :
    head3 (lineValues ⟨1, epochLayout3⟩
      (epochLine3 r.sys r.prnText r.year r.month r.day r.hour r.minute r.second r.c1 r.c2 r.c3)) =
      some (.ok (epochOf r) [("sat_clock_bias", r.c1.val), ("sat_clock_drift", r.c2.val), ("sat_clock_drift_rate", r.c3.val)]) := by
  simp only [NavRec.wf, Bool.and_eq_true, decide_eq_true_eq] at hr
  obtain ⟨⟨⟨⟨⟨⟨⟨⟨⟨⟨⟨⟨⟨⟨⟨⟨⟨hsys, hprn⟩, hy⟩, hmo⟩, hd⟩, hh⟩, hmi⟩, hs⟩, h1⟩, h2⟩, h3⟩, _⟩, _⟩, _⟩, _⟩, _⟩, _⟩, _⟩ := hr
  obtain ⟨hsp, hnS, hnR⟩ := sys_facts hsys
  obtain ⟨hpc, hpl⟩ := clean_prnText r hprn
  rw [epochLine3_values r.sys r.prnText r.year r.month r.day r.hour r.minute r.second r.c1 r.c2 r.c3
    hsp hpc hpl h1 h2 h3]
  unfold head3
  simp only [get_cons, String.reduceEq, if_true, if_false, num19_last_not_alpha, Bool.false_eq_true, hnS, hnR,
    or_self, epoch3, clockOf, clockNames, List.mapM_cons, List.mapM_nil, floatField_num19 _ h1, floatField_num19 _ h2,
    floatField_num19 _ h3, parseInt_fixed 4 (by decide) r.year (by simpa using hy),
    show parseInt? (i22 r.month) = some (r.month : Int) from parseInt_fixed 2 (by decide) r.month (by simpa using hmo),
    show parseInt? (i22 r.day) = some (r.day : Int) from parseInt_fixed 2 (by decide) r.day (by simpa using hd),
    show parseInt? (i22 r.hour) = some (r.hour : Int) from parseInt_fixed 2 (by decide) r.hour (by simpa using hh),
    show parseInt? (i22 r.minute) = some (r.minute : Int) from parseInt_fixed 2 (by decide) r.minute (by simpa using hmi),
    parseFloat_i22 r.second hs, zfill_prnText r hprn]
  simp [epochOf, satName]

theorem addEpoch_kv (d : Cols) (r : NavRec) :
    addEpoch d (epochOf r) [("sat_clock_bias", r.c1.val), ("sat_clock_drift", r.c2.val), ("sat_clock_drift_rate", r.c3.val)] =
      pushRow d [("system", Cell.str [r.sys]), ("satellite", Cell.str (satName r.sys r.prn)),
        ("sat_clock_bias", Cell.num r.c1.val), ("sat_clock_drift", Cell.num r.c2.val),
        ("sat_clock_drift_rate", Cell.num r.c3.val)] := by
  simp [addEpoch, pushRow, epochOf]

/-- **one supported record (RINEX 3)**: its eight lines append exactly the record's 31 values, and its epoch -/
theorem addRecord_nav3 (st : St) (r : NavRec) (hr : r.wf = true) :
    addRecord v3 Option.none st (navLines3 r) = some ⟨pushRow st.data (kvOf r), st.epochs ++ [epochOf r]⟩ := by
  have hlines := addLines_nav v3 4 v3_findOrbit r hr
  unfold addRecord navLines3
  simp only [v3_find1, headOf, head3_nav r hr, List.length_cons, List.length_nil, Nat.zero_add, Nat.reduceAdd,
    addEpoch_kv, hlines, Option.map_some]
  rw [kvOf_eq, pushRow_append]

theorem skip_sys {c : Char} (h : (c == 'R' || c == 'S') = true) : isSpace c = false ∧ ([c] = ['S'] ∨ [c] = ['R']) := by
  simp only [Bool.or_eq_true, beq_iff_eq] at h
  rcases h with rfl | rfl
  · exact ⟨by decide, Or.inr rfl⟩
  · exact ⟨by decide, Or.inl rfl⟩

/-- **one GLONASS / SBAS record (RINEX 3)**: whatever its number of orbit lines, nothing is appended -/
theorem addRecord_skip3 (st : St) (s : SkipRec) (hs : s.wf = true) :
    addRecord v3 Option.none st (skipLines3 s) = some st := by
  simp only [SkipRec.wf, Bool.and_eq_true, decide_eq_true_eq] at hs
  obtain ⟨⟨⟨⟨⟨hsys, hprn⟩, h1⟩, h2⟩, h3⟩, _⟩ := hs
  obtain ⟨hsp, hRS⟩ := skip_sys hsys
  have hpc : Clean (i22 s.prn) = true ∧ (i22 s.prn).length ≤ 2 := by
    rw [i22_eq]; exact ⟨by simp [Clean, isSpace_digitChar], by simp⟩
  have hvals := epochLine3_values s.sys (i22 s.prn) s.year s.month s.day s.hour s.minute s.second s.c1 s.c2 s.c3
    hsp hpc.1 hpc.2 h1 h2 h3
  unfold skipLines3 addRecord
  simp only [v3_find1, headOf]
  have hhead : head3 (lineValues ⟨1, epochLayout3⟩
      (epochLine3 s.sys (i22 s.prn) s.year s.month s.day s.hour s.minute s.second s.c1 s.c2 s.c3)) = some .skipSystem := by
    rw [hvals]
    unfold head3
    simp only [get_cons, String.reduceEq, if_true, if_false, num19_last_not_alpha, Bool.false_eq_true, if_pos hRS]
  rw [hhead]


/-! ### record splitting (RINEX 3) -/

/-- the line starts a record: its first character is a letter -/
def AlphaHead (l : Str) : Prop := (l.head?.map isAlpha).getD false = true

theorem splitV3_one (body : List Str) : ∀ (l : Str) (cur rest : List Str),
    (∀ x ∈ body, ¬ AlphaHead x) → (rest = [] ∨ ∃ s r, rest = s :: r ∧ AlphaHead s) →
    splitV3Aux (l :: body ++ rest) cur = (cur.reverse ++ l :: body) :: splitV3Aux rest [] := by
  induction body with
  | nil =>
    intro l cur rest _ hrest
    rcases hrest with h | ⟨s, r, h, hs⟩
    · subst h; simp [splitV3Aux]
    · subst h
      simp only [List.nil_append, List.cons_append]
      rw [splitV3Aux]
      simp only [AlphaHead] at hs
      simp [hs]
  | cons b body ih =>
    intro l cur rest hb hrest
    have hnb : ¬ (b.head?.map isAlpha).getD false = true := hb b (by simp)
    simp only [List.cons_append]
    rw [splitV3Aux]
    simp only [hnb]
    have := ih b (l :: cur) rest (fun x hx => hb x (by simp [hx])) hrest
    simp only [List.cons_append] at this
    rw [this]
    simp

/-- **record splitting**: lines grouped into records each opened by a line that starts with a letter and
otherwise free of such lines are split into exactly these records — whatever their lengths -/
theorem splitV3_groups (gs : List (List Str))
    (h : ∀ g ∈ gs, ∃ s body, g = s :: body ∧ AlphaHead s ∧ ∀ x ∈ body, ¬ AlphaHead x) :
    splitV3 gs.flatten = gs := by
  unfold splitV3
  induction gs with
  | nil => rfl
  | cons g gs ih =>
    obtain ⟨s, body, hg, _, hbody⟩ := h g (by simp)
    subst hg
    have ih' := ih (fun g' hg' => h g' (by simp [hg']))
    have hrest : gs.flatten = [] ∨ ∃ s' r, gs.flatten = s' :: r ∧ AlphaHead s' := by
      cases gs with
      | nil => exact Or.inl rfl
      | cons g' gs' =>
        obtain ⟨s', body', hg', hs', _⟩ := h g' (by simp)
        subst hg'
        exact Or.inr ⟨s', body' ++ gs'.flatten, by simp, hs'⟩
    have := splitV3_one body s [] gs.flatten hbody hrest
    simp only [List.flatten_cons, List.cons_append, List.reverse_nil, List.nil_append] at this ⊢
    rw [this, ih']

theorem head_rstrip_blank (t : Str) : ¬ AlphaHead (rstrip (' ' :: t)) := by
  obtain ⟨ws, hs, _⟩ := rstrip_decomp (' ' :: t)
  unfold AlphaHead
  cases hr : rstrip (' ' :: t) with
  | nil => simp
  | cons c r =>
    rw [hr] at hs
    have : c = ' ' := by
      simp only [List.cons_append, List.cons.injEq] at hs
      exact hs.1.symm
    subst this
    simp [isAlpha]

theorem rowLine_not_alpha (lead : Nat) (hl : 0 < lead) (cells : List Num19) (cut : Bool) :
    ¬ AlphaHead (rowLine lead cells cut) := by
  unfold rowLine cutIf
  obtain ⟨k, rfl⟩ : ∃ k, lead = k + 1 := ⟨lead - 1, by omega⟩
  have : blanks (k + 1) ++ (cells.map cell19).flatten = ' ' :: (blanks k ++ (cells.map cell19).flatten) := by
    simp [blanks, List.replicate_succ]
  rw [this]
  split
  · exact head_rstrip_blank _
  · simp [AlphaHead, isAlpha]

theorem alphaHead_epochLine3 (sys : Char) (prnText : Str) (y mo d h mi s : Nat) (c1 c2 c3 : Num19)
    (hs : isAlpha sys = true) : AlphaHead (epochLine3 sys prnText y mo d h mi s c1 c2 c3) := by
  unfold AlphaHead epochLine3
  simp [hs]

theorem item_group (it : Item) (hwf : it.wf = true) :
    ∃ s body, itemLines3 it = s :: body ∧ AlphaHead s ∧ ∀ x ∈ body, ¬ AlphaHead x := by
  cases it with
  | nav r =>
    refine ⟨_, _, rfl, ?_, ?_⟩
    · simp only [Item.wf, NavRec.wf, Bool.and_eq_true] at hwf
      have hsys := hwf.1.1.1.1.1.1.1.1.1.1.1.1.1.1.1.1.1
      simp only [supportedSys, List.contains_iff_mem, List.mem_cons, List.not_mem_nil, or_false] at hsys
      apply alphaHead_epochLine3
      rcases hsys with h | h | h | h | h <;> rw [h] <;> decide
    · intro x hx
      simp only [List.mem_cons, List.not_mem_nil, or_false] at hx
      rcases hx with rfl | rfl | rfl | rfl | rfl | rfl | rfl <;> exact rowLine_not_alpha 4 (by decide) _ _
  | skip s =>
    refine ⟨_, _, rfl, ?_, ?_⟩
    · simp only [Item.wf, SkipRec.wf, Bool.and_eq_true, Bool.or_eq_true, beq_iff_eq] at hwf
      have hsys := hwf.1.1.1.1.1
      apply alphaHead_epochLine3
      rcases hsys with h | h <;> rw [h] <;> decide
    · intro x hx
      simp only [List.mem_map] at hx
      obtain ⟨row, _, rfl⟩ := hx
      exact rowLine_not_alpha 4 (by decide) _ _

/-! ### the header -/

def isEnd (l : Str) : Bool := Text.slice 60 73 (rstrip l) = endLabel

theorem isEnd_labelled (pre label : Str) (hc : pre.length = 60) (hl : Clean label = true) (hne : label ≠ []) :
    isEnd (pre ++ label) = decide (label.take 13 = endLabel) := by
  unfold isEnd
  rw [rstrip_append_clean hl hne]
  rw [slice_append_right (by omega)]
  simp [hc, Text.slice]

theorem splitHeader_eq (hdr body : List Str) (e : Str) (hh : ∀ l ∈ hdr, isEnd l = false) (he : isEnd e = true) :
    splitHeader (hdr ++ e :: body) = (hdr ++ [e], body) := by
  unfold splitHeader
  have hp : ∀ l ∈ hdr, (!decide (Text.slice 60 73 (rstrip l) = "END OF HEADER".toList)) = true := by
    intro l hl
    have h1 : decide (Text.slice 60 73 (rstrip l) = "END OF HEADER".toList) = false := hh l hl
    rw [h1]; rfl
  have hpe : (!decide (Text.slice 60 73 (rstrip e) = "END OF HEADER".toList)) = false := by
    have h1 : decide (Text.slice 60 73 (rstrip e) = "END OF HEADER".toList) = true := he
    rw [h1]; rfl
  simp only [takeWhile_stop _ hdr e body hp hpe]
  simp


/-! ### all records of a file, by induction over the items -/

theorem supported_fold (items : List Item) (hwf : ∀ it ∈ items, it.wf = true) : ∀ (st : St),
    (items.map itemLines3).foldlM (addRecord v3 Option.none) st =
      some ⟨(supported items).foldl (fun d r => pushRow d (kvOf r)) st.data, st.epochs ++ (supported items).map epochOf⟩ := by
  induction items with
  | nil => intro st; simp [supported]
  | cons it rest ih =>
    intro st
    have ih' := ih (fun x hx => hwf x (by simp [hx]))
    have hit := hwf it (by simp)
    cases it with
    | nav r =>
      simp only [List.map_cons, List.foldlM_cons, itemLines3, addRecord_nav3 st r hit, Option.bind_eq_bind,
        Option.bind_some, supported, List.foldl_cons, List.map_cons]
      rw [ih']
      simp
    | skip s =>
      simp only [List.map_cons, List.foldlM_cons, itemLines3, addRecord_skip3 st s hit, Option.bind_eq_bind,
        Option.bind_some, supported]
      exact ih' st

/-! ### line breaks -/

theorem nonl_ljust (w : Nat) {s : Str} (h : NoNl s) : NoNl (ljust w s) := nonl_append h (nonl_blanks _)

theorem nonl_num19 (n : Num19) (h : n.wf = true) : NoNl n.text := by
  cases n with
  | blank => exact nonl_nil
  | sci x lead neg m e =>
    simp only [Num19.wf, Bool.and_eq_true] at h
    intro c hc
    rcases mem_fmtSci hc with h' | h'
    · exact isNumChar_ne_nl h'
    · subst h'
      have := h.1
      simp only [isExpLetter, Bool.or_eq_true, beq_iff_eq] at this
      rcases this with ((rfl | rfl) | rfl) | rfl <;> decide

theorem nonl_cells (cells : List Num19) (h : ∀ n ∈ cells, n.wf = true) : NoNl (cells.map cell19).flatten := by
  induction cells with
  | nil => exact nonl_nil
  | cons n ns ih =>
    simp only [List.map_cons, List.flatten_cons]
    exact nonl_append (nonl_rjust _ (nonl_num19 n (h n (by simp)))) (ih (fun m hm => h m (by simp [hm])))

theorem nonl_rowLine (lead : Nat) (cells : List Num19) (cut : Bool) (h : ∀ n ∈ cells, n.wf = true) :
    NoNl (rowLine lead cells cut) := by
  unfold rowLine cutIf
  have := nonl_append (nonl_blanks lead) (nonl_cells cells h)
  split
  · exact nonl_rstrip this
  · exact this

theorem nonl_fixedDigits (p n : Nat) : NoNl (fixedDigits p n) :=
  nonl_numChars (fun c hc => by simp [isNumChar, mem_allDigits (allDigits_fixedDigits p n) hc])

theorem nonl_epochLine3 (sys : Char) (prnText : Str) (y mo d h mi s : Nat) (c1 c2 c3 : Num19)
    (hsys : sys ≠ '\n') (hp : NoNl prnText) (h1 : c1.wf = true) (h2 : c2.wf = true) (h3 : c3.wf = true) :
    NoNl (epochLine3 sys prnText y mo d h mi s c1 c2 c3) := by
  unfold epochLine3
  have sp : (' ' : Char) ≠ '\n' := by decide
  refine nonl_append (nonl_append (nonl_append (nonl_append (nonl_append (nonl_append (nonl_append (nonl_append
    (nonl_append ?_ ?_) ?_) ?_) ?_) ?_) ?_) ?_) ?_) ?_
  · exact nonl_cons hsys (nonl_rjust _ hp)
  · exact nonl_cons sp (nonl_fixedDigits _ _)
  · exact nonl_cons sp (nonl_fixedDigits _ _)
  · exact nonl_cons sp (nonl_fixedDigits _ _)
  · exact nonl_cons sp (nonl_fixedDigits _ _)
  · exact nonl_cons sp (nonl_fixedDigits _ _)
  · exact nonl_cons sp (nonl_fixedDigits _ _)
  · exact nonl_rjust _ (nonl_num19 c1 h1)
  · exact nonl_rjust _ (nonl_num19 c2 h2)
  · exact nonl_rjust _ (nonl_num19 c3 h3)

theorem nonl_itemLines3 (it : Item) (hwf : it.wf = true) : ∀ l ∈ itemLines3 it, NoNl l := by
  cases it with
  | nav r =>
    simp only [Item.wf] at hwf
    have hr0 := hwf
    simp only [NavRec.wf, Row4.wf, Row2.wf, Bool.and_eq_true, decide_eq_true_eq] at hwf
    obtain ⟨⟨⟨⟨⟨⟨⟨⟨⟨⟨⟨⟨⟨⟨⟨⟨⟨hsys, hprn⟩, _⟩, _⟩, _⟩, _⟩, _⟩, _⟩, h1⟩, h2⟩, h3⟩, ⟨⟨⟨h1a, h1b⟩, h1c⟩, h1d⟩⟩, ⟨⟨⟨h2a, h2b⟩, h2c⟩, h2d⟩⟩,
      ⟨⟨⟨h3a, h3b⟩, h3c⟩, h3d⟩⟩, ⟨⟨⟨h4a, h4b⟩, h4c⟩, h4d⟩⟩, ⟨⟨⟨h5a, h5b⟩, h5c⟩, h5d⟩⟩, ⟨⟨⟨h6a, h6b⟩, h6c⟩, h6d⟩⟩,
      ⟨⟨⟨h7a, h7b⟩, h7s⟩, _⟩⟩ := hwf
    have hs : r.sys ≠ '\n' := by
      simp only [supportedSys, List.contains_iff_mem, List.mem_cons, List.not_mem_nil, or_false] at hsys
      rcases hsys with h | h | h | h | h <;> rw [h] <;> decide
    have hpn : NoNl r.prnText := by
      unfold NavRec.prnText
      split
      · exact nonl_fixedDigits _ _
      · exact nonl_numChars (numChars_natDigits _)
    intro l hl
    simp only [itemLines3, navLines3, List.mem_cons, List.not_mem_nil, or_false] at hl
    rcases hl with rfl | rfl | rfl | rfl | rfl | rfl | rfl | rfl
    · exact nonl_epochLine3 _ _ _ _ _ _ _ _ _ _ _ hs hpn h1 h2 h3
    · exact nonl_rowLine _ _ _ (by simp [Row4.cells, h1a, h1b, h1c, h1d])
    · exact nonl_rowLine _ _ _ (by simp [Row4.cells, h2a, h2b, h2c, h2d])
    · exact nonl_rowLine _ _ _ (by simp [Row4.cells, h3a, h3b, h3c, h3d])
    · exact nonl_rowLine _ _ _ (by simp [Row4.cells, h4a, h4b, h4c, h4d])
    · exact nonl_rowLine _ _ _ (by simp [Row4.cells, h5a, h5b, h5c, h5d])
    · exact nonl_rowLine _ _ _ (by simp [Row4.cells, h6a, h6b, h6c, h6d])
    · refine nonl_rowLine _ _ _ ?_
      intro n hn
      simp only [Row2.cells, List.mem_cons] at hn
      rcases hn with rfl | rfl | hn
      · exact h7a
      · exact h7b
      · exact List.all_eq_true.mp h7s n hn
  | skip s =>
    simp only [Item.wf, SkipRec.wf, Bool.and_eq_true, decide_eq_true_eq] at hwf
    obtain ⟨⟨⟨⟨⟨hsys, _⟩, h1⟩, h2⟩, h3⟩, hrows⟩ := hwf
    have hs : s.sys ≠ '\n' := by
      simp only [Bool.or_eq_true, beq_iff_eq] at hsys
      rcases hsys with h | h <;> rw [h] <;> decide
    intro l hl
    simp only [itemLines3, skipLines3, List.mem_cons, List.mem_map] at hl
    rcases hl with rfl | ⟨row, hrow, rfl⟩
    · exact nonl_epochLine3 _ _ _ _ _ _ _ _ _ _ _ hs (nonl_fixedDigits _ _) h1 h2 h3
    · have := List.all_eq_true.mp hrows row hrow
      exact nonl_rowLine _ _ _ (fun n hn => List.all_eq_true.mp this n hn)


/-! ### the header of a rendered file -/

def firstPre (f : NavFile) : Str := ljust 20 f.version ++ ljust 20 f.ftype ++ f.satSys :: ljust 19 f.sysText

theorem headerLines_eq (f : NavFile) :
    headerLines f = ((firstPre f ++ versionLabel) :: f.hlines.map hline) ++ [blanks 60 ++ endLabel] := by
  simp [headerLines, firstPre, List.append_assoc]

theorem length_firstPre (f : NavFile) (h1 : f.version.length ≤ 20) (h2 : f.ftype.length ≤ 20) (h3 : f.sysText.length ≤ 19) :
    (firstPre f).length = 60 := by
  simp [firstPre, length_ljust h1, length_ljust h2, length_ljust h3]

theorem versionLabel_clean : Clean versionLabel = true ∧ versionLabel ≠ [] ∧ versionLabel.take 13 ≠ endLabel := by
  decide +kernel

theorem endLabel_clean : Clean endLabel = true ∧ endLabel ≠ [] ∧ endLabel.take 13 = endLabel := by
  decide +kernel

theorem header_isEnd (f : NavFile) (hwf : f.wf = true) :
    (∀ l ∈ (firstPre f ++ versionLabel) :: f.hlines.map hline, isEnd l = false) ∧
    isEnd (blanks 60 ++ endLabel) = true := by
  simp only [NavFile.wf, Bool.and_eq_true, decide_eq_true_eq, List.all_eq_true] at hwf
  obtain ⟨⟨⟨⟨⟨⟨⟨⟨⟨_, h1⟩, _⟩, h2⟩, _⟩, _⟩, _⟩, h3⟩, hh⟩, _⟩ := hwf
  constructor
  · intro l hl
    rcases List.mem_cons.mp hl with rfl | hl
    · rw [isEnd_labelled _ _ (length_firstPre f h1 h2 h3) versionLabel_clean.1 versionLabel_clean.2.1]
      exact decide_eq_false versionLabel_clean.2.2
    · simp only [List.mem_map] at hl
      obtain ⟨h, hmem, rfl⟩ := hl
      have := hh h hmem
      simp only [HLine.wf, Bool.and_eq_true, decide_eq_true_eq, Bool.not_eq_eq_eq_not, Bool.not_true, bne_iff_ne,
        List.isEmpty_eq_false_iff] at this
      obtain ⟨⟨⟨⟨⟨⟨_, hc⟩, _⟩, hcl⟩, hne⟩, hnot⟩, _⟩ := this
      unfold hline
      rw [isEnd_labelled _ _ (length_ljust hc) hcl hne]
      exact decide_eq_false hnot
  · rw [isEnd_labelled _ _ (by simp [blanks]) endLabel_clean.1 endLabel_clean.2.1]
    exact decide_eq_true endLabel_clean.2.2

/-- the cell read from the first `RINEX VERSION / TYPE` line of a header -/
def satSysFirst (header : List Str) : Str :=
  match header.find? (fun l => strip ((rstrip l).drop 60) = "RINEX VERSION / TYPE".toList) with
  | some l => strip (Text.slice 40 41 (rstrip l))
  | Option.none => []

theorem satSysFirst_header (f : NavFile) (hwf : f.wf = true) (rest : List Str) :
    satSysFirst ((firstPre f ++ versionLabel) :: rest) = [f.satSys] := by
  simp only [NavFile.wf, Bool.and_eq_true, decide_eq_true_eq, bne_iff_ne] at hwf
  obtain ⟨⟨⟨⟨⟨⟨⟨⟨⟨_, h1⟩, _⟩, h2⟩, hs⟩, hsp⟩, _⟩, h3⟩, _⟩, _⟩ := hwf
  have hlen := length_firstPre f h1 h2 h3
  have hr : rstrip (firstPre f ++ versionLabel) = firstPre f ++ versionLabel :=
    rstrip_append_clean versionLabel_clean.1 versionLabel_clean.2.1
  have hdrop : (firstPre f ++ versionLabel).drop 60 = versionLabel := by
    rw [List.drop_append_of_le_length (by omega)]
    simp [hlen]
  have hnsp : isSpace f.satSys = false := by
    simp only [okText, List.all_cons, List.all_nil, Bool.and_true, Bool.and_eq_true, decide_eq_true_eq] at hs
    cases hc : isSpace f.satSys with
    | false => rfl
    | true =>
      exfalso
      simp only [isSpace, Bool.or_eq_true, decide_eq_true_eq, Bool.and_eq_true] at hc
      rcases hc with ((((((h | h) | h) | h) | h) | h) | h)
      · exact hsp h
      · rw [h] at hs; revert hs; decide
      · rw [h] at hs; revert hs; decide
      · rw [h] at hs; revert hs; decide
      · omega
      · omega
      · omega
  have hfind : (((firstPre f ++ versionLabel) :: rest).find?
      (fun l => strip ((rstrip l).drop 60) = "RINEX VERSION / TYPE".toList)) = some (firstPre f ++ versionLabel) := by
    have : decide (strip ((rstrip (firstPre f ++ versionLabel)).drop 60) = "RINEX VERSION / TYPE".toList) = true := by
      rw [hr, hdrop]
      exact decide_eq_true (strip_of_clean versionLabel_clean.1)
    rw [List.find?_cons, this]
  unfold satSysFirst
  rw [hfind]
  simp only [hr]
  have hcell : Text.slice 40 41 (firstPre f ++ versionLabel) = [f.satSys] := by
    have e : firstPre f ++ versionLabel = (ljust 20 f.version ++ ljust 20 f.ftype) ++ [f.satSys] ++ (ljust 19 f.sysText ++ versionLabel) := by
      simp [firstPre, List.append_assoc]
    rw [e]
    exact slice_cell (by simp [length_ljust h1, length_ljust h2]) rfl
  rw [hcell]
  exact strip_of_no_space (fun c hc => by simp at hc; rw [hc]; exact hnsp)

theorem label_of_line (pre lab : Str) (hl : pre.length = 60) (hc : Clean lab = true) (hne : lab ≠ []) :
    strip ((rstrip (pre ++ lab)).drop 60) = lab := by
  rw [rstrip_append_clean hc hne, List.drop_append_of_le_length (by omega)]
  have : List.drop 60 pre = [] := List.drop_eq_nil_of_le (by omega)
  rw [this, List.nil_append]
  exact strip_of_clean hc

/-- the last `RINEX VERSION / TYPE` line of the header counts; a well-formed header has one, its first line -/
theorem satSys_header (f : NavFile) (hwf : f.wf = true) :
    satSys ((firstPre f ++ versionLabel) :: (f.hlines.map hline ++ [blanks 60 ++ endLabel])) = [f.satSys] := by
  have hfirst := satSysFirst_header f hwf []
  simp only [NavFile.wf, Bool.and_eq_true, decide_eq_true_eq, bne_iff_ne, List.all_eq_true] at hwf
  obtain ⟨⟨⟨⟨⟨⟨⟨⟨⟨_, h1⟩, _⟩, h2⟩, hs⟩, hsp⟩, _⟩, h3⟩, hh⟩, _⟩ := hwf
  have hlen := length_firstPre f h1 h2 h3
  have hrest : ∀ l ∈ (f.hlines.map hline ++ [blanks 60 ++ endLabel]).reverse,
      ¬ (decide (strip ((rstrip l).drop 60) = "RINEX VERSION / TYPE".toList)) = true := by
    intro l hl
    simp only [List.mem_reverse, List.mem_append, List.mem_map, List.mem_singleton] at hl
    rcases hl with ⟨h, hmem, rfl⟩ | rfl
    · have := hh h hmem
      simp only [HLine.wf, Bool.and_eq_true, decide_eq_true_eq, Bool.not_eq_eq_eq_not, Bool.not_true, bne_iff_ne,
        List.isEmpty_eq_false_iff] at this
      obtain ⟨⟨⟨⟨⟨⟨_, hc⟩, _⟩, hcl⟩, hne⟩, _⟩, hnv⟩ := this
      unfold hline
      rw [label_of_line _ _ (length_ljust hc) hcl hne]
      intro hd
      exact hnv (of_decide_eq_true hd)
    · rw [label_of_line _ _ (by simp [blanks]) endLabel_clean.1 endLabel_clean.2.1]
      decide +kernel
  have hthis : decide (strip ((rstrip (firstPre f ++ versionLabel)).drop 60) = "RINEX VERSION / TYPE".toList) = true := by
    rw [label_of_line _ _ hlen versionLabel_clean.1 versionLabel_clean.2.1]
    decide +kernel
  unfold satSys
  rw [List.reverse_cons, List.find?_append, List.find?_eq_none.mpr hrest]
  simp only [Option.none_or, List.find?_cons, hthis]
  unfold satSysFirst at hfirst
  simp only [List.find?_cons, hthis] at hfirst
  exact hfirst

theorem nonl_headerLines (f : NavFile) (hwf : f.wf = true) : ∀ l ∈ headerLines f, NoNl l := by
  simp only [NavFile.wf, Bool.and_eq_true, decide_eq_true_eq, List.all_eq_true] at hwf
  obtain ⟨⟨⟨⟨⟨⟨⟨⟨⟨hv, _⟩, ht⟩, _⟩, hs⟩, _⟩, hst⟩, _⟩, hh⟩, _⟩ := hwf
  have hlab : NoNl versionLabel := by intro c hc; revert hc; revert c; decide +kernel
  have hend : NoNl endLabel := by intro c hc; revert hc; revert c; decide +kernel
  intro l hl
  rw [headerLines_eq] at hl
  simp only [List.mem_append, List.mem_cons, List.mem_map, List.not_mem_nil, or_false] at hl
  rcases hl with (rfl | ⟨h, hmem, rfl⟩) | rfl
  · refine nonl_append ?_ hlab
    unfold firstPre
    refine nonl_append (nonl_append (nonl_ljust _ (nonl_okText hv)) (nonl_ljust _ (nonl_okText ht))) ?_
    have : NoNl [f.satSys] := nonl_okText hs
    exact nonl_cons (this f.satSys (by simp)) (nonl_ljust _ (nonl_okText hst))
  · have := hh h hmem
    simp only [HLine.wf, Bool.and_eq_true] at this
    exact nonl_append (nonl_ljust _ (nonl_okText this.1.1.1.1.1.1)) (nonl_okText this.1.1.1.1.2)
  · exact nonl_append (nonl_blanks _) hend

theorem textLines_joinLines (ls : List Str) (h : ∀ l ∈ ls, NoNl l) : textLines (joinLines ls) = ls := by
  unfold textLines
  rw [splitOn_joinLines ls h]
  simp


/-! ### RINEX 2 -/

def epochLayout2 : Layout :=
  [⟨"sat", 0, 2⟩, ⟨"year", 2, 5⟩, ⟨"month", 5, 8⟩, ⟨"day", 8, 11⟩, ⟨"hour", 11, 14⟩, ⟨"minute", 14, 17⟩,
   ⟨"second", 17, 22⟩, ⟨"sat_clock_bias", 22, 41⟩, ⟨"sat_clock_drift", 41, 60⟩, ⟨"sat_clock_drift_rate", 60, 79⟩]

/-- the regenerated RINEX 2 record tables (rinex2_nav and rinex212_nav) are the ones the lemmas are about -/
theorem v2_lines : v2.lines = ⟨1, epochLayout2⟩ :: orbitLines 3 ∧ v212.lines = ⟨1, epochLayout2⟩ :: orbitLines 3 := by
  decide +kernel

theorem rjust_sep (w : Nat) (a : Str) (h : a.length ≤ w) : rjust (w + 1) a = ' ' :: rjust w a := by
  unfold rjust
  have : w + 1 - a.length = (w - a.length) + 1 := by omega
  rw [this]
  simp [blanks, List.replicate_succ]

theorem len_nat2 {n : Nat} (h : n < 100) : (natDigits n).length ≤ 2 := natDigits_len_le 2 n (by decide) (by simpa using h)

theorem clean_natDigits (n : Nat) : Clean (natDigits n) = true := clean_of_numChars (numChars_natDigits n)

theorem epochLine2_values (prn yy mo d h mi s : Nat) (c1 c2 c3 : Num19)
    (hprn : prn < 100) (hmo : mo < 100) (hd : d < 100) (hh : h < 100) (hmi : mi < 100) (hs : s < 100)
    (h1 : c1.wf = true) (h2 : c2.wf = true) (h3 : c3.wf = true) :
    lineValues ⟨1, epochLayout2⟩ (epochLine2 prn yy mo d h mi s c1 c2 c3) =
      [("sat", natDigits prn), ("year", i22 yy), ("month", natDigits mo), ("day", natDigits d), ("hour", natDigits h),
       ("minute", natDigits mi), ("second", fmtDec 1 ((s : Int) * 10)), ("sat_clock_bias", c1.text),
       ("sat_clock_drift", c2.text), ("sat_clock_drift_rate", c3.text)] := by
  unfold lineValues
  have hsl : (fmtDec 1 ((s : Int) * 10)).length ≤ 5 := by
    have := length_fmtDec_le 1 3 ((s : Int) * 10) (by decide) (by omega)
    have hn : ¬ ((s : Int) * 10 < 0) := by omega
    simp only [hn, if_false] at this
    omega
  have hi : (i22 yy).length = 2 := by simp [i22, length_fixedDigits]
  have hline : epochLine2 prn yy mo d h mi s c1 c2 c3 =
      [] ++ renderFrom 0 epochLayout2 [R (natDigits prn), R (i22 yy), R (natDigits mo), R (natDigits d), R (natDigits h),
        R (natDigits mi), R (fmtDec 1 ((s : Int) * 10)), R c1.text, R c2.text, R c3.text] ++ [] := by
    simp only [epochLine2, epochLayout2, renderFrom, R, pad, Field.width, Nat.sub_zero, Nat.sub_self, blanks,
      List.replicate_zero, List.nil_append, List.append_nil, cell19]
    rw [show (5 - 2 : Nat) = 2 + 1 from rfl,
      rjust_sep 2 _ (by omega : (i22 yy).length ≤ 2), rjust_sep 2 _ (len_nat2 hmo), rjust_sep 2 _ (len_nat2 hd),
      rjust_sep 2 _ (len_nat2 hh), rjust_sep 2 _ (len_nat2 hmi)]
    have e : rjust 2 (i22 yy) = i22 yy := by simp [rjust, hi, blanks]
    rw [e]
    simp [List.append_assoc]
  rw [hline]
  have hfit : Fits epochLayout2 [R (natDigits prn), R (i22 yy), R (natDigits mo), R (natDigits d), R (natDigits h),
        R (natDigits mi), R (fmtDec 1 ((s : Int) * 10)), R c1.text, R c2.text, R c3.text] = true := by
    have l1 := length_num19 c1 h1
    have l2 := length_num19 c2 h2
    have l3 := length_num19 c3 h3
    have p1 := len_nat2 hprn
    have p2 := len_nat2 hmo
    have p3 := len_nat2 hd
    have p4 := len_nat2 hh
    have p5 := len_nat2 hmi
    have ci : Clean (i22 yy) = true := by rw [i22_eq]; simp [Clean, isSpace_digitChar]
    have cs : Clean (fmtDec 1 ((s : Int) * 10)) = true := clean_of_numChars (fmtDec_noSpace _ _)
    have q0 : (i22 yy).length ≤ 3 := by omega
    have q2 : (natDigits mo).length ≤ 3 := by omega
    have q3 : (natDigits d).length ≤ 3 := by omega
    have q4 : (natDigits h).length ≤ 3 := by omega
    have q5 : (natDigits mi).length ≤ 3 := by omega
    simp [epochLayout2, Fits, R, Field.width, clean_natDigits, ci, cs, clean_num19, h1, h2, h3, l1, l2, l3, p1, q0, q2, q3,
      q4, q5, hsl]
  rw [sliceAll_labelled _ 0 _ [] [] (by decide +kernel) hfit rfl]
  simp [epochLayout2, R]

theorem num19_head_not_alpha (n : Num19) : ((n.text.head?).map isAlpha).getD false = false := by
  cases n with
  | blank => rfl
  | sci x lead neg m e =>
    simp only [Num19.text, fmtSci]
    cases neg with
    | true => rfl
    | false =>
      cases lead with
      | false => rfl
      | true =>
        obtain ⟨c, r, h, hd⟩ := natDigits_head (m / 10 ^ 12)
        simp only [Bool.false_eq_true, if_false, List.nil_append, sciBody, if_true, h, List.cons_append, List.head?_cons,
          Option.map_some, Option.getD_some]
        simp only [isDigit, Bool.and_eq_true, decide_eq_true_eq] at hd
        have h1 : 48 ≤ c.toNat := hd.1
        have h2 : c.toNat ≤ 57 := hd.2
        have := alpha_digit (c.toNat - 48) (by omega)
        rw [show 48 + (c.toNat - 48) = c.toNat by omega, Char.ofNat_toNat] at this
        exact this


theorem parseInt_digits (s : Str) (hne : s ≠ []) (hall : allDigits s = true) : parseInt? s = some (digitsVal s : Int) := by
  unfold parseInt?
  rw [strip_of_allDigits hall]
  cases hs : s with
  | nil => exact absurd hs hne
  | cons c r =>
    have hd : isDigit c = true := mem_allDigits hall (by rw [hs]; simp)
    rw [takeSign_of_digit hd, ← hs]
    have h1 : s.isEmpty = false := by rw [hs]; rfl
    simp [parseNat?, h1, hall]

theorem year4_back (year : Nat) (h1 : 1980 ≤ year) (h2 : year < 2080) :
    parseInt? ((if (80 : Int) ≤ ((year % 100 : Nat) : Int) ∧ ((year % 100 : Nat) : Int) ≤ 99 then ['1', '9'] else ['2', '0']) ++
      zfill 2 (i22 (year % 100))) = some (year : Int) := by
  rw [zfill_i22]
  have hall : ∀ pre : Str, allDigits pre = true → allDigits (pre ++ i22 (year % 100)) = true := by
    intro pre hp
    simp only [allDigits, List.all_append, Bool.and_eq_true] at hp ⊢
    exact ⟨hp, allDigits_fixedDigits 2 _⟩
  have hval : ∀ pre : Str, digitsVal (pre ++ i22 (year % 100)) = digitsVal pre * 100 + year % 100 := by
    intro pre
    rw [digitsVal_append, i22, digitsVal_fixedDigits, length_fixedDigits]
    have : year % 100 % 10 ^ 2 = year % 100 := Nat.mod_eq_of_lt (by omega)
    rw [this]
  have d19 : digitsVal ['1', '9'] = 19 := by decide +kernel
  have d20 : digitsVal ['2', '0'] = 20 := by decide +kernel
  by_cases hy : (80 : Int) ≤ ((year % 100 : Nat) : Int) ∧ ((year % 100 : Nat) : Int) ≤ 99
  · simp only [hy, and_self, if_true]
    rw [parseInt_digits _ (by simp) (hall _ (by decide)), hval, d19]
    congr 1; omega
  · simp only [hy, if_false]
    rw [parseInt_digits _ (by simp) (hall _ (by decide)), hval, d20]
    congr 1; omega

theorem sec_back (s : Nat) : parseFloat (fmtDec 1 ((s : Int) * 10)) = some (s : Rat) := by
  rw [parseFloat_fmtDec]
  congr 1
  unfold decVal pow10
  rw [Rat.intCast_mul]
  have : ((10 ^ 1 : Nat) : Rat) = 10 := by decide +kernel
  rw [this, Rat.intCast_natCast]
  grind

theorem all_empty_false_of_mem (vs : List (String × Str)) (k : String) (t : Str) (h : (k, t) ∈ vs)
    (ht : t.isEmpty = false) : vs.all (fun kv => kv.2.isEmpty) = false := by
  rw [List.all_eq_false]
  exact ⟨(k, t), h, by simp [ht]⟩

theorem head2_nav (r : NavRec) (hr : r.wf = true) (hG : r.sys = 'G') (hy1 : 1980 ≤ r.year) (hy2 : r.year < 2080) :
    head2 ['G'] (lineValues ⟨1, epochLayout2⟩
      (epochLine2 r.prn (r.year % 100) r.month r.day r.hour r.minute r.second r.c1 r.c2 r.c3)) =
      some (.ok (epochOf r) [("sat_clock_bias", r.c1.val), ("sat_clock_drift", r.c2.val), ("sat_clock_drift_rate", r.c3.val)]) := by
  simp only [NavRec.wf, Bool.and_eq_true, decide_eq_true_eq] at hr
  obtain ⟨⟨⟨⟨⟨⟨⟨⟨⟨⟨⟨⟨⟨⟨⟨⟨⟨_, hprn⟩, _⟩, hmo⟩, hd⟩, hh⟩, hmi⟩, hs⟩, h1⟩, h2⟩, h3⟩, _⟩, _⟩, _⟩, _⟩, _⟩, _⟩, _⟩ := hr
  rw [epochLine2_values r.prn (r.year % 100) r.month r.day r.hour r.minute r.second r.c1 r.c2 r.c3
    hprn hmo hd hh hmi hs h1 h2 h3]
  unfold head2
  have hyy : parseInt? (i22 (r.year % 100)) = some ((r.year % 100 : Nat) : Int) :=
    parseInt_fixed 2 (by decide) _ (by omega)
  have hyne : (i22 (r.year % 100)).isEmpty = false := by
    have : (i22 (r.year % 100)).length = 2 := by simp [i22, length_fixedDigits]
    cases hh' : i22 (r.year % 100) with
    | nil => rw [hh'] at this; simp at this
    | cons _ _ => rfl
  rw [all_empty_false_of_mem _ "year" (i22 (r.year % 100)) (by simp) hyne]
  simp only [get_cons, String.reduceEq, if_true, if_false, num19_head_not_alpha, Bool.false_eq_true, epoch2, clockOf,
    clockNames, List.mapM_cons, List.mapM_nil, floatField_num19 _ h1, floatField_num19 _ h2, floatField_num19 _ h3, hyy,
    Option.bind_eq_bind, Option.bind_some, year4_back r.year hy1 hy2, parseInt_natDigits, sec_back,
    zfill_natDigits r.prn hprn]
  simp [epochOf, satName, hG]

/-- **one GPS record (RINEX 2)**: eight lines, two-digit year with the 80 pivot, `3X` orbit lines -/
theorem addRecord_nav2 (T : Tables) (hT : T.lines = ⟨1, epochLayout2⟩ :: orbitLines 3) (st : St) (r : NavRec)
    (hr : r.wf = true) (hG : r.sys = 'G') (hy1 : 1980 ≤ r.year) (hy2 : r.year < 2080) :
    addRecord T (some ['G']) st (navLines2 r) = some ⟨pushRow st.data (kvOf r), st.epochs ++ [epochOf r]⟩ := by
  have hfind1 : T.lines.find? (fun (l : LineDef) => l.num = 1) = some ⟨1, epochLayout2⟩ := by rw [hT]; rfl
  have hfindO : ∀ ld ∈ orbitLines 3, T.lines.find? (fun (l : LineDef) => l.num = ld.num) = some ld := by
    rw [hT]; decide +kernel
  have hlines := addLines_nav T 3 hfindO r hr
  unfold addRecord navLines2
  simp only [hfind1, headOf, head2_nav r hr hG hy1 hy2, List.length_cons, List.length_nil, Nat.zero_add, Nat.reduceAdd,
    addEpoch_kv, hlines, Option.map_some]
  rw [kvOf_eq, pushRow_append]

/-- eight lines per record -/
theorem splitV2_groups (gs : List (List Str)) (h : ∀ g ∈ gs, g.length = 8) : ∀ fuel, gs.length ≤ fuel →
    splitV2 fuel gs.flatten = gs := by
  induction gs with
  | nil => intro fuel _; cases fuel <;> simp [splitV2]
  | cons g gs ih =>
    intro fuel hf
    cases fuel with
    | zero => simp at hf
    | succ fuel =>
      have hg : g.length = 8 := h g (by simp)
      have hne : (g ++ gs.flatten).isEmpty = false := by
        cases g with
        | nil => simp at hg
        | cons _ _ => rfl
      simp only [List.flatten_cons, splitV2, hne, Bool.false_eq_true, if_false]
      rw [List.take_append_of_le_length (by omega), List.drop_append_of_le_length (by omega)]
      simp only [← hg, List.take_length, List.drop_length, List.nil_append]
      rw [ih (fun g' hg' => h g' (by simp [hg'])) fuel (by simpa using hf)]

theorem nav_fold2 (T : Tables) (hT : T.lines = ⟨1, epochLayout2⟩ :: orbitLines 3) (rs : List NavRec)
    (hwf : ∀ r ∈ rs, r.wf = true ∧ r.sys = 'G' ∧ 1980 ≤ r.year ∧ r.year < 2080) : ∀ (st : St),
    (rs.map navLines2).foldlM (addRecord T (some ['G'])) st =
      some ⟨rs.foldl (fun d r => pushRow d (kvOf r)) st.data, st.epochs ++ rs.map epochOf⟩ := by
  induction rs with
  | nil => intro st; simp
  | cons r rest ih =>
    intro st
    obtain ⟨h1, h2, h3, h4⟩ := hwf r (by simp)
    simp only [List.map_cons, List.foldlM_cons, addRecord_nav2 T hT st r h1 h2 h3 h4, Option.bind_eq_bind,
      Option.bind_some, List.foldl_cons]
    rw [ih (fun x hx => hwf x (by simp [hx]))]
    simp


def firstPre2 (f : NavFile) : Str := ljust 20 f.version ++ ljust 40 f.ftype

theorem headerLines2_eq (f : NavFile) :
    headerLines2 f = ((firstPre2 f ++ versionLabel) :: f.hlines.map hline) ++ [blanks 60 ++ endLabel] := by
  simp [headerLines2, firstPre2, List.append_assoc]

theorem header2_isEnd (f : NavFile) (hwf : f.wf = true) :
    (∀ l ∈ (firstPre2 f ++ versionLabel) :: f.hlines.map hline, isEnd l = false) ∧
    isEnd (blanks 60 ++ endLabel) = true := by
  have h0 := header_isEnd f hwf
  simp only [NavFile.wf, Bool.and_eq_true, decide_eq_true_eq, List.all_eq_true] at hwf
  obtain ⟨⟨⟨⟨⟨⟨⟨⟨⟨_, h1⟩, _⟩, h2⟩, _⟩, _⟩, _⟩, _⟩, _⟩, _⟩ := hwf
  refine ⟨?_, h0.2⟩
  intro l hl
  rcases List.mem_cons.mp hl with rfl | hl
  · have hlen : (firstPre2 f).length = 60 := by
      simp [firstPre2, length_ljust h1, length_ljust (by omega : f.ftype.length ≤ 40)]
    rw [isEnd_labelled _ _ hlen versionLabel_clean.1 versionLabel_clean.2.1]
    exact decide_eq_false versionLabel_clean.2.2
  · exact h0.1 l (List.mem_cons_of_mem _ hl)

theorem nonl_headerLines2 (f : NavFile) (hwf : f.wf = true) : ∀ l ∈ headerLines2 f, NoNl l := by
  have h0 := nonl_headerLines f hwf
  have hlab : NoNl versionLabel := by intro c hc; revert hc; revert c; decide +kernel
  simp only [NavFile.wf, Bool.and_eq_true, decide_eq_true_eq, List.all_eq_true] at hwf
  obtain ⟨⟨⟨⟨⟨⟨⟨⟨⟨hv, _⟩, ht⟩, _⟩, _⟩, _⟩, _⟩, _⟩, _⟩, _⟩ := hwf
  intro l hl
  rw [headerLines2_eq] at hl
  simp only [List.cons_append, List.mem_cons] at hl
  rcases hl with rfl | hl
  · exact nonl_append (nonl_append (nonl_ljust _ (nonl_okText hv)) (nonl_ljust _ (nonl_okText ht))) hlab
  · apply h0 l
    rw [headerLines_eq]
    simp only [List.cons_append, List.mem_cons]
    exact Or.inr hl

theorem nonl_navLines2 (r : NavRec) (hwf : r.wf = true) : ∀ l ∈ navLines2 r, NoNl l := by
  have hr0 := hwf
  simp only [NavRec.wf, Row4.wf, Row2.wf, Bool.and_eq_true, decide_eq_true_eq] at hwf
  obtain ⟨⟨⟨⟨⟨⟨⟨⟨⟨⟨⟨⟨⟨⟨⟨⟨⟨_, _⟩, _⟩, _⟩, _⟩, _⟩, _⟩, _⟩, h1⟩, h2⟩, h3⟩, ⟨⟨⟨h1a, h1b⟩, h1c⟩, h1d⟩⟩, ⟨⟨⟨h2a, h2b⟩, h2c⟩, h2d⟩⟩,
    ⟨⟨⟨h3a, h3b⟩, h3c⟩, h3d⟩⟩, ⟨⟨⟨h4a, h4b⟩, h4c⟩, h4d⟩⟩, ⟨⟨⟨h5a, h5b⟩, h5c⟩, h5d⟩⟩, ⟨⟨⟨h6a, h6b⟩, h6c⟩, h6d⟩⟩,
    ⟨⟨⟨h7a, h7b⟩, h7s⟩, _⟩⟩ := hwf
  have nd : ∀ n, NoNl (natDigits n) := fun n => nonl_numChars (numChars_natDigits n)
  have sp : (' ' : Char) ≠ '\n' := by decide
  intro l hl
  simp only [navLines2, List.mem_cons, List.not_mem_nil, or_false] at hl
  rcases hl with rfl | rfl | rfl | rfl | rfl | rfl | rfl | rfl
  · unfold epochLine2
    refine nonl_append (nonl_append (nonl_append (nonl_append (nonl_append (nonl_append (nonl_append (nonl_append
      (nonl_append ?_ ?_) ?_) ?_) ?_) ?_) ?_) ?_) ?_) ?_
    · exact nonl_rjust _ (nd _)
    · exact nonl_cons sp (nonl_fixedDigits _ _)
    · exact nonl_cons sp (nonl_rjust _ (nd _))
    · exact nonl_cons sp (nonl_rjust _ (nd _))
    · exact nonl_cons sp (nonl_rjust _ (nd _))
    · exact nonl_cons sp (nonl_rjust _ (nd _))
    · exact nonl_rjust _ (nonl_numChars (fmtDec_noSpace _ _))
    · exact nonl_rjust _ (nonl_num19 _ h1)
    · exact nonl_rjust _ (nonl_num19 _ h2)
    · exact nonl_rjust _ (nonl_num19 _ h3)
  · exact nonl_rowLine _ _ _ (by simp [Row4.cells, h1a, h1b, h1c, h1d])
  · exact nonl_rowLine _ _ _ (by simp [Row4.cells, h2a, h2b, h2c, h2d])
  · exact nonl_rowLine _ _ _ (by simp [Row4.cells, h3a, h3b, h3c, h3d])
  · exact nonl_rowLine _ _ _ (by simp [Row4.cells, h4a, h4b, h4c, h4d])
  · exact nonl_rowLine _ _ _ (by simp [Row4.cells, h5a, h5b, h5c, h5d])
  · exact nonl_rowLine _ _ _ (by simp [Row4.cells, h6a, h6b, h6c, h6d])
  · refine nonl_rowLine _ _ _ ?_
    intro n hn
    simp only [Row2.cells, List.mem_cons] at hn
    rcases hn with rfl | rfl | hn
    · exact h7a
    · exact h7b
    · exact List.all_eq_true.mp h7s n hn

theorem length_flatten_ge (gs : List (List Str)) (h : ∀ g ∈ gs, g.length = 8) : gs.length ≤ gs.flatten.length := by
  induction gs with
  | nil => simp
  | cons g gs ih =>
    have := ih (fun g' hg' => h g' (by simp [hg']))
    have hg := h g (by simp)
    simp only [List.flatten_cons, List.length_append, List.length_cons]
    omega

theorem wf2_supported (f : NavFile) (hwf : f.wf2 = true) :
    ∀ r ∈ supported f.items, r.wf = true ∧ r.sys = 'G' ∧ 1980 ≤ r.year ∧ r.year < 2080 := by
  simp only [NavFile.wf2, NavFile.wf, Bool.and_eq_true, List.all_eq_true] at hwf
  obtain ⟨⟨_, hit⟩, h2⟩ := hwf
  have : ∀ (items : List Item), (∀ x ∈ items, x.wf = true) →
      (∀ x ∈ items, (match x with
        | .nav r => r.sys == 'G' && decide (1980 ≤ r.year) && decide (r.year < 2080)
        | .skip _ => false) = true) →
      ∀ r ∈ supported items, r.wf = true ∧ r.sys = 'G' ∧ 1980 ≤ r.year ∧ r.year < 2080 := by
    intro items
    induction items with
    | nil => intro _ _ r hr; simp [supported] at hr
    | cons x xs ih =>
      intro ha hb r hr
      cases x with
      | nav r' =>
        simp only [supported, List.mem_cons] at hr
        rcases hr with rfl | hr
        · have h1 := ha (.nav r) (by simp)
          have h2 := hb (.nav r) (by simp)
          simp only [Bool.and_eq_true, beq_iff_eq, decide_eq_true_eq] at h2
          exact ⟨h1, h2.1.1, h2.1.2, h2.2⟩
        · exact ih (fun y hy => ha y (by simp [hy])) (fun y hy => hb y (by simp [hy])) r hr
      | skip s' =>
        have := hb (.skip s') (by simp)
        simp at this
  exact this f.items hit h2

end Midgard.Spec.RinexNavFile
