/-
C15 file level, part 4: the header group, "no rendered line contains a line break", and the file-level theorem
`file_roundtrip : F.wf → parseText (render F) = calibrations F`.
-/
import Midgard.Proofs.AntexGroups
set_option linter.unusedSimpArgs false
namespace Midgard.Antex.File
open Midgard.Text Midgard.FixedCol Midgard.ChainParser Midgard.Antex Midgard.Decimal Midgard.Antex.Records
open Midgard.Spec.Antex14 (RecSpec specs renderLabelled renderRow findKind findLabel)
open Midgard.Spec.AntexFile

/-! ### the header -/

def metaFx (v : Values) : Fx := fun s => .ok { s with metaText := dictUpdate s.metaText v }
def commentFx (t : Str) : Fx := fun s => .ok { s with comments := some (s.comments.getD [] ++ [strip t]) }

/-- the line has the stated effect in the header and does not end it -/
def HLineOk (x : Str × Fx) : Prop :=
  (∀ n s, parseLine headerParser (rstrip x.1) n s = x.2 s) ∧ ∀ n nx, headerParser.endMarker (rstrip x.1) n nx = false

theorem header_endMarker_rec (k : String) (sp : RecSpec) (hk : findKind k = some sp) (cells : List Str)
    (hf : Fits sp.layout (sp.aligns.zip cells) = true) (n : Nat) (nx : Str) :
    headerParser.endMarker (rstrip (rec k cells)) n nx = decide (sp.label.toList.take 13 = "END OF HEADER".toList) := by
  unfold rec
  rw [spec_eq hk]
  show decide (Text.slice 60 73 (rstrip (renderLabelled sp cells)) = "END OF HEADER".toList) = _
  rw [show (73 : Nat) = 60 + 13 from rfl, slice_label sp (findKind_mem hk) cells hf 13]

theorem header_parsed_line (k : String) (sp : RecSpec) (hk : findKind k = some sp) (d : LabelDef)
    (hd : Midgard.Generated.AntexCols.header.find? (·.label == sp.label) = some d)
    (hfl : d.fields = sp.layout) (hop : d.openFields = []) (hst : d.strip = .whitespace)
    (cells : List Str) (hok : okRec k cells = true) (n : Nat) (s : State) :
    parseLine headerParser (rstrip (rec k cells)) n s = handle d.handler ((sp.layout.map (·.name)).zip cells) s := by
  obtain ⟨hlen, hf, _⟩ := okRec_parts hok
  rw [spec_eq hk] at hlen hf
  unfold rec
  rw [spec_eq hk]
  unfold parseLine
  have h1 : headerParser.skipLine (rstrip (renderLabelled sp cells)) = false := rfl
  rw [h1]
  simp only [Bool.false_eq_true, if_false]
  have hrt := record_roundtrip sp (findKind_mem hk) cells hlen hf
  have h2 : headerParser.label (rstrip (rstrip (renderLabelled sp cells))) n = sp.label := by
    rw [rstrip_idem]; exact hrt.2.1
  rw [h2]
  have h3 : headerParser.defs = Midgard.Generated.AntexCols.header := rfl
  rw [h3, hd]
  simp only
  have hv : d.values (rstrip (renderLabelled sp cells)) = (sp.layout.map (·.name)).zip cells := by
    unfold LabelDef.values
    rw [hop, hst, hfl]
    simp only [List.map_nil, List.append_nil, StripOpt.apply]
    have := map_pair_zip sp.layout (·.name) (fun f => FixedCol.slice f (rstrip (renderLabelled sp cells)))
    simp only [FixedCol.slice] at this hrt
    rw [this, hrt.1]
  rw [hv]
  rfl

theorem ver_line (v sy : Str) (h : okRec "VER" [v, sy] = true) :
    HLineOk (rec "VER" [v, sy], metaFx [("version", v), ("sat_sys", sy)]) := by
  have hk : findKind "VER" = some ⟨"VER", "ANTEX VERSION / SYST", [⟨"version", 0, 8⟩, ⟨"sat_sys", 20, 21⟩], [.right, .left]⟩ := by
    decide +kernel
  refine ⟨fun n s => ?_, fun n nx => ?_⟩
  · rw [header_parsed_line "VER" _ hk ⟨"ANTEX VERSION / SYST", "parse_string", .whitespace, [⟨"version", 0, 8⟩, ⟨"sat_sys", 20, 21⟩], []⟩
      (by decide +kernel) rfl rfl rfl _ h n s]
    simp [handle, metaFx, pure, Except.pure]
  · have hf := (okRec_parts h).2.1
    rw [spec_eq hk] at hf
    rw [header_endMarker_rec "VER" _ hk _ hf]
    decide

theorem pcv_line (p ra rs : Str) (h : okRec "PCV" [p, ra, rs] = true) :
    HLineOk (rec "PCV" [p, ra, rs], metaFx [("pcv_type", p), ("ref_antenna", ra), ("ref_serial_num", rs)]) := by
  have hk : findKind "PCV" = some ⟨"PCV", "PCV TYPE / REFANT", [⟨"pcv_type", 0, 1⟩, ⟨"ref_antenna", 20, 40⟩, ⟨"ref_serial_num", 40, 60⟩],
      [.left, .left, .left]⟩ := by decide +kernel
  refine ⟨fun n s => ?_, fun n nx => ?_⟩
  · rw [header_parsed_line "PCV" _ hk ⟨"PCV TYPE / REFANT", "parse_string", .whitespace,
        [⟨"pcv_type", 0, 1⟩, ⟨"ref_antenna", 20, 40⟩, ⟨"ref_serial_num", 40, 60⟩], []⟩
      (by decide +kernel) rfl rfl rfl _ h n s]
    simp [handle, metaFx, pure, Except.pure]
  · have hf := (okRec_parts h).2.1
    rw [spec_eq hk] at hf
    rw [header_endMarker_rec "PCV" _ hk _ hf]
    decide

theorem hcomment_line (t : Str) (h : t.length ≤ 60) : HLineOk (rec "COM" [t], commentFx t) := by
  rw [com_shape t h]
  have h60 : (ljust 60 t).length = 60 := length_ljust h
  obtain ⟨hr, hlt, _, hsl⟩ := generic_label (ljust 60 t) h60 _ COM_mem
  have hr' : rstrip (ljust 60 t ++ "COMMENT".toList) = ljust 60 t ++ "COMMENT".toList := hr
  refine ⟨fun n s => ?_, fun n nx => ?_⟩
  · unfold parseLine
    rw [hr', hr']
    have h1 : headerParser.skipLine (ljust 60 t ++ "COMMENT".toList) = false := rfl
    rw [h1]
    have h2 : headerParser.label (ljust 60 t ++ "COMMENT".toList) n = "COMMENT" := hlt
    simp only [Bool.false_eq_true, if_false, h2]
    have h3 : headerParser.defs.find? (·.label == "COMMENT") =
        some ⟨"COMMENT", "parse_comment", .whitespace, [⟨"comment", 0, 60⟩], []⟩ := by decide +kernel
    rw [h3]
    simp only
    have hv : (⟨"COMMENT", "parse_comment", .whitespace, [⟨"comment", 0, 60⟩], []⟩ : LabelDef).values
        (ljust 60 t ++ "COMMENT".toList) = [("comment", strip t)] := by
      simp only [LabelDef.values, List.map_cons, List.map_nil, List.append_nil, StripOpt.apply, sliceRaw]
      rw [slice_append_left (by omega)]
      have : Text.slice 0 60 (ljust 60 t) = ljust 60 t := by
        unfold Text.slice
        rw [List.take_of_length_le (by omega)]; rfl
      rw [this]
      have : strip (ljust 60 t) = strip t := strip_append_isBlank (isBlank_blanks _)
      rw [this]
    rw [hv]
    show headerParser.handle "parse_comment" [("comment", strip t)] s = _
    simp [headerParser, handle, Values.get, req, commentFx, bind, Except.bind, pure, Except.pure]
  · rw [hr']
    show decide (Text.slice 60 73 (ljust 60 t ++ "COMMENT".toList) = "END OF HEADER".toList) = false
    have := hsl 13
    rw [show (73 : Nat) = 60 + 13 from rfl, this]
    decide

theorem eoh_line : (∀ n s, parseLine headerParser (rstrip (rec "EOH" [])) n s = idFx s) ∧
    ∀ n nx, headerParser.endMarker (rstrip (rec "EOH" [])) n nx = true := by
  have hk : findKind "EOH" = some ⟨"EOH", "END OF HEADER", [], []⟩ := by decide +kernel
  have hok : okRec "EOH" [] = true := by decide +kernel
  obtain ⟨hlen, hf, _⟩ := okRec_parts hok
  rw [spec_eq hk] at hlen hf
  refine ⟨fun n s => ?_, fun n nx => ?_⟩
  · unfold rec
    rw [spec_eq hk]
    unfold parseLine
    have h1 : headerParser.skipLine (rstrip (renderLabelled ⟨"EOH", "END OF HEADER", [], []⟩ [])) = false := rfl
    rw [h1]
    simp only [Bool.false_eq_true, if_false]
    have hrt := record_roundtrip _ (findKind_mem hk) [] hlen hf
    have h2 : headerParser.label (rstrip (rstrip (renderLabelled ⟨"EOH", "END OF HEADER", [], []⟩ []))) n = "END OF HEADER" := by
      rw [rstrip_idem]; exact hrt.2.1
    rw [h2]
    have h3 : headerParser.defs.find? (·.label == "END OF HEADER") = none := by decide +kernel
    rw [h3]; rfl
  · rw [header_endMarker_rec "EOH" _ hk [] hf]
    decide

def headerFx (F : FileM) : List (Str × Fx) :=
  [(rec "VER" [F.version, F.satSys], metaFx [("version", F.version), ("sat_sys", F.satSys)])] ++
  F.comments1.map (fun c => (rec "COM" [c], commentFx c)) ++
  [(rec "PCV" [F.pcvType, F.refAntenna, F.refSerial],
    metaFx [("pcv_type", F.pcvType), ("ref_antenna", F.refAntenna), ("ref_serial_num", F.refSerial)])] ++
  F.comments2.map (fun c => (rec "COM" [c], commentFx c))

def eohFx : Str × Fx := (rec "EOH" [], idFx)

theorem headerFx_lines (F : FileM) : (headerFx F ++ [eohFx]).map (·.1) = headerLines F := by
  simp [headerFx, headerLines, eohFx, List.map_map, Function.comp_def]

theorem comments_run (rest : List Fx) : ∀ (cs : List Str) (s : State),
    runFx (cs.map commentFx ++ rest) s =
      runFx rest { s with comments := if cs = [] then s.comments else some (s.comments.getD [] ++ cs.map strip) }
  | [], s => rfl
  | c :: cs, s => by
    have : runFx ((c :: cs).map commentFx ++ rest) s =
        runFx (cs.map commentFx ++ rest) { s with comments := some (s.comments.getD [] ++ [strip c]) } := rfl
    rw [this, comments_run rest cs]
    congr 2
    by_cases hc : cs = [] <;> simp [hc]

theorem runFx_metaFx (v : Values) (fs : List Fx) (s : State) :
    runFx (metaFx v :: fs) s = runFx fs { s with metaText := dictUpdate s.metaText v } := rfl

theorem header_run (F : FileM) : runFx ((headerFx F ++ [eohFx]).map (·.2)) {} = .ok (headerState F) := by
  have h1 : (headerFx F ++ [eohFx]).map (·.2) =
      metaFx [("version", F.version), ("sat_sys", F.satSys)] :: (F.comments1.map commentFx ++
        (metaFx [("pcv_type", F.pcvType), ("ref_antenna", F.refAntenna), ("ref_serial_num", F.refSerial)] ::
          (F.comments2.map commentFx ++ [idFx]))) := by
    simp [headerFx, eohFx, List.map_map, Function.comp_def]
  rw [h1, runFx_metaFx, comments_run, runFx_metaFx, comments_run]
  simp only [runFx, idFx, pure, Except.pure, headerState, allComments]
  congr 1
  have hm : dictUpdate (dictUpdate ([] : List (String × Str)) [("version", F.version), ("sat_sys", F.satSys)])
      [("pcv_type", F.pcvType), ("ref_antenna", F.refAntenna), ("ref_serial_num", F.refSerial)] =
      [("version", F.version), ("sat_sys", F.satSys), ("pcv_type", F.pcvType), ("ref_antenna", F.refAntenna),
       ("ref_serial_num", F.refSerial)] := by
    simp [dictUpdate, dictSet]
  by_cases h1 : F.comments1 = [] <;> by_cases h2 : F.comments2 = [] <;> simp [h1, h2, hm]

theorem header_group (F : FileM) (hwf : F.wf = true) (more : List Str) :
    readData headerParser corrParser resetCache (headerLines F ++ more) true 0 {} =
      readData headerParser corrParser resetCache more false 0 (headerState F) := by
  simp only [FileM.wf, Bool.and_eq_true, List.all_eq_true, decide_eq_true_eq] at hwf
  obtain ⟨⟨⟨⟨hver, hpcv⟩, hcom⟩, _⟩, _⟩ := hwf
  rw [← headerFx_lines]
  have hok : ∀ x ∈ headerFx F, HLineOk x := by
    intro x hx
    simp only [headerFx, List.cons_append, List.nil_append, List.mem_cons, List.mem_append, List.mem_map,
      List.not_mem_nil, or_false, or_assoc] at hx
    rcases hx with rfl | ⟨c, hc, rfl⟩ | rfl | ⟨c, hc, rfl⟩
    · exact ver_line _ _ hver
    · exact hcomment_line c (hcom c (by simp [hc])).2
    · exact pcv_line _ _ _ hpcv
    · exact hcomment_line c (hcom c (by simp [hc])).2
  have hgrp := readData_group headerParser corrParser resetCache true (headerFx F) eohFx more
    (by
      intro x hx n s
      simp only [if_true]
      rcases List.mem_append.mp hx with h | h
      · exact (hok x h).1 n s
      · rw [List.mem_singleton.mp h]; exact eoh_line.1 n s)
    (by
      intro x hx n nx
      simp only [if_true]
      exact (hok x hx).2 n nx)
    (by
      intro n nx
      simp only [if_true]
      exact eoh_line.2 n nx)
    0 {}
  rw [hgrp, header_run]
  rfl


/-! ### no rendered line contains a line break -/

/-- no character of `s` ends a line of a text-mode file (`\n`, `\r`) -/
def NoNl (s : Str) : Prop := ∀ c ∈ s, Midgard.TextLines.isLineEnd c = false

theorem nonl_nil : NoNl [] := fun _ h => by simp at h

theorem nonl_append {a b : Str} (ha : NoNl a) (hb : NoNl b) : NoNl (a ++ b) := by
  intro c hc
  rcases List.mem_append.mp hc with h | h
  · exact ha c h
  · exact hb c h

theorem nonl_blanks (n : Nat) : NoNl (blanks n) := by
  intro c hc
  have : c = ' ' := by simpa [blanks] using (List.mem_replicate.mp hc).2
  rw [this]; decide

theorem nonl_okText {s : Str} (h : okText s = true) : NoNl s := by
  intro c hc
  simp only [okText, Bool.and_eq_true, List.all_eq_true, Bool.not_eq_eq_eq_not, Bool.not_true] at h
  exact h.1 c hc

theorem nonl_pad (a : Align) (w : Nat) {v : Str} (h : NoNl v) : NoNl (pad a w v) := by
  cases a
  · exact nonl_append h (nonl_blanks _)
  · exact nonl_append (nonl_blanks _) h

theorem nonl_renderFrom (L : Layout) : ∀ (pos : Nat) (cells : List (Align × Str)),
    (∀ cell ∈ cells, NoNl cell.2) → NoNl (renderFrom pos L cells) := by
  induction L with
  | nil => intro pos cells _; cases cells <;> exact nonl_nil
  | cons f L ih =>
    intro pos cells h
    cases cells with
    | nil => exact nonl_nil
    | cons c cs =>
      obtain ⟨a, v⟩ := c
      simp only [renderFrom]
      exact nonl_append (nonl_append (nonl_blanks _) (nonl_pad a _ (h (a, v) (by simp))))
        (ih _ cs (fun cell hc => h cell (by simp [hc])))

theorem labels_nonl : specs.all (fun sp => sp.label.toList.all (fun c => !Midgard.TextLines.isLineEnd c)) = true := by decide +kernel

theorem nonl_spec_label (k : String) : NoNl (spec k).label.toList := by
  unfold spec
  cases hk : findKind k with
  | none => exact nonl_nil
  | some sp =>
    have := List.all_eq_true.mp labels_nonl sp (findKind_mem hk)
    intro c hc
    have := List.all_eq_true.mp this c hc
    simpa using this

theorem nonl_rec (k : String) (cells : List Str) (h : ∀ c ∈ cells, okText c = true) : NoNl (rec k cells) := by
  unfold rec renderLabelled ljust
  refine nonl_append (nonl_append ?_ (nonl_blanks _)) (nonl_spec_label k)
  apply nonl_renderFrom
  intro cell hc
  exact nonl_okText (h cell.2 (List.of_mem_zip hc).2)

theorem nonl_okRec {k : String} {cells : List Str} (h : okRec k cells = true) : NoNl (rec k cells) :=
  nonl_rec k cells (okRec_parts h).2.2

theorem nonl_rjust (w : Nat) {s : Str} (h : NoNl s) : NoNl (rjust w s) := nonl_append (nonl_blanks _) h

theorem nonl_renderRow (first : Str) (vals : List Str) (hf : okText first = true) (hv : ∀ v ∈ vals, okText v = true) :
    NoNl (renderRow first vals) := by
  unfold renderRow
  refine nonl_append (nonl_rjust 8 (nonl_okText hf)) ?_
  intro c hc
  obtain ⟨cell, hcell, hcc⟩ := List.mem_flatten.mp hc
  obtain ⟨v, hv', rfl⟩ := List.mem_map.mp hcell
  exact nonl_rjust 8 (nonl_okText (hv v hv')) c hcc

theorem nonl_body (b : SecM) (h : b.wf = true) : ∀ l ∈ bodyLines b, NoNl l := by
  simp only [SecM.wf, Bool.and_eq_true] at h
  obtain ⟨⟨⟨⟨⟨hr, _⟩, _⟩, _⟩, hn⟩, hrows⟩ := h
  intro l hl
  simp only [bodyLines, List.cons_append, List.nil_append, List.mem_cons, List.mem_map] at hl
  rcases hl with rfl | rfl | ⟨r, hr', rfl⟩
  · exact nonl_okRec hr
  · exact nonl_renderRow _ _ (by decide) (rowVals_ok _ hn).2.2
  · have := List.all_eq_true.mp hrows r hr'
    simp only [okRow, Bool.and_eq_true] at this
    exact nonl_renderRow _ _ this.1.1.1.1.1 (rowVals_ok _ this.2).2.2

theorem nonl_rms (code : Str) (b : SecM) (hc : okRec "SOR" [code] = true) (h : b.wf = true) : ∀ l ∈ rmsLines code b, NoNl l := by
  intro l hl
  simp only [rmsLines, List.cons_append, List.nil_append, List.mem_cons, List.mem_append, List.not_mem_nil, or_false] at hl
  rcases hl with rfl | hl | rfl
  · exact nonl_okRec hc
  · exact nonl_body b h l hl
  · exact nonl_rec _ _ (okRec_parts hc).2.2

theorem nonl_freq (f : FreqM) (h : f.wf = true) : ∀ l ∈ freqLines f, NoNl l := by
  simp only [FreqM.wf, Bool.and_eq_true] at h
  obtain ⟨⟨hc, hb⟩, hr⟩ := h
  intro l hl
  simp only [freqLines, List.cons_append, List.nil_append, List.mem_cons, List.mem_append, List.not_mem_nil, or_false,
    or_assoc] at hl
  rcases hl with rfl | hl | rfl | hl
  · exact nonl_okRec hc
  · exact nonl_body f.body hb l hl
  · exact nonl_rec _ _ (okRec_parts hc).2.2
  · cases hrm : f.rms with
    | none => simp [hrm] at hl
    | some b =>
      simp only [hrm] at hl hr
      exact nonl_rms f.code b (okRec_SOR hc) hr l hl

theorem nonl_inert (i : Inert) (h : i.wf = true) : NoNl (inertLine i) := by
  cases i with
  | comment t =>
    simp only [Inert.wf, Bool.and_eq_true] at h
    exact nonl_rec _ _ (by intro c hc; simp only [List.mem_singleton] at hc; rw [hc]; exact h.1)
  | meth a b c d => exact nonl_okRec h
  | sinex c => exact nonl_okRec h
  | blank => exact nonl_nil

theorem nonl_date (k : String) (d : DateM) (h : d.wf = true) : NoNl (rec k (dateCells d)) := by
  simp only [DateM.wf, Bool.and_eq_true] at h
  exact nonl_rec _ _ (okRec_parts h.1.1.1.1.1.1.1).2.2

theorem mem_weave {α} : ∀ (xs : List α) (ds : List (List α)) (x : α), x ∈ weave xs ds → x ∈ xs ∨ ∃ d ∈ ds, x ∈ d
  | [], _, x, h => by simp [weave] at h
  | y :: xs, [], x, h => Or.inl h
  | y :: xs, d :: ds, x, h => by
    simp only [weave, List.mem_append, List.mem_cons] at h
    rcases h with h | rfl | h
    · exact Or.inr ⟨d, by simp, h⟩
    · exact Or.inl (by simp)
    · rcases mem_weave xs ds x h with h' | ⟨d', hd', hx'⟩
      · exact Or.inl (by simp [h'])
      · exact Or.inr ⟨d', by simp [hd'], hx'⟩

theorem nonl_antenna (a : AntM) (h : a.wf = true) : ∀ l ∈ antennaLines a, NoNl l := by
  have h0 := h
  simp only [AntM.wf, Bool.and_eq_true] at h
  obtain ⟨⟨⟨⟨⟨⟨⟨⟨⟨⟨⟨⟨htyp, hdz⟩, _⟩, hzen⟩, _⟩, _⟩, _⟩, hnf⟩, hvf⟩, hvu⟩, hfr⟩, hra⟩, hdeco⟩ := h
  intro l hl
  rcases mem_weave _ _ l hl with hl | ⟨d, hd, hld⟩
  · simp only [sigLines, preambleLines, List.cons_append, List.nil_append, List.mem_cons, List.mem_append, List.mem_flatten,
      List.mem_map, List.not_mem_nil, or_false, or_assoc] at hl
    rcases hl with rfl | rfl | rfl | rfl | rfl | hl | hl | ⟨x, ⟨f, hf, rfl⟩, hl⟩ | ⟨x, ⟨r, hr, rfl⟩, hl⟩ | rfl
    · exact nonl_rec _ _ (by simp)
    · exact nonl_okRec htyp
    · exact nonl_okRec hdz
    · exact nonl_okRec hzen
    · exact nonl_okRec hnf
    · cases hv : a.validFrom with
      | none => simp [hv] at hl
      | some d =>
        simp only [hv, List.mem_singleton] at hl hvf
        rw [hl]; exact nonl_date _ d hvf
    · cases hv : a.validUntil with
      | none => simp [hv] at hl
      | some d =>
        simp only [hv, List.mem_singleton] at hl hvu
        rw [hl]; exact nonl_date _ d hvu
    · exact nonl_freq f (List.all_eq_true.mp hfr f hf) l hl
    · have := List.all_eq_true.mp hra r hr
      simp only [Bool.and_eq_true] at this
      exact nonl_rms r.1 r.2 this.1 this.2 l hl
    · exact nonl_rec _ _ (by simp)
  · obtain ⟨d0, hd0, rfl⟩ := List.mem_map.mp hd
    obtain ⟨i, hi, rfl⟩ := List.mem_map.mp hld
    have := List.all_eq_true.mp (List.all_eq_true.mp hdeco d0 hd0) i hi
    exact nonl_inert i this

theorem nonl_file (F : FileM) (hwf : F.wf = true) : ∀ l ∈ Spec.AntexFile.fileLines F, NoNl l := by
  simp only [FileM.wf, Bool.and_eq_true, List.all_eq_true, decide_eq_true_eq] at hwf
  obtain ⟨⟨⟨⟨hver, hpcv⟩, hcom⟩, hants⟩, htr⟩ := hwf
  intro l hl
  simp only [Spec.AntexFile.fileLines, headerLines, List.cons_append, List.nil_append, List.mem_cons, List.mem_append,
    List.mem_flatten, List.mem_map, List.not_mem_nil, or_false, or_assoc] at hl
  rcases hl with rfl | ⟨c, hc, rfl⟩ | rfl | ⟨c, hc, rfl⟩ | rfl | ⟨x, ⟨a, ha, rfl⟩, hl⟩ | ⟨i, hi, rfl⟩
  · exact nonl_okRec hver
  · exact nonl_rec _ _ (by intro t ht; simp only [List.mem_singleton] at ht; rw [ht]; exact (hcom c (by simp [hc])).1)
  · exact nonl_okRec hpcv
  · exact nonl_rec _ _ (by intro t ht; simp only [List.mem_singleton] at ht; rw [ht]; exact (hcom c (by simp [hc])).1)
  · exact nonl_rec _ _ (by simp)
  · exact nonl_antenna a (hants a ha) l hl
  · exact nonl_inert i (htr i hi)

/-! ### line splitting of the rendered text (text-mode iteration: `Model/TextLines.lean`) -/

open Midgard.TextLines in
theorem textLinesAux_line (l : Str) (hl : NoNl l) (rest cur : Str) :
    textLinesAux (l ++ '\n' :: rest) cur false = (cur.reverse ++ l) :: textLinesAux rest [] false := by
  induction l generalizing cur with
  | nil => simp [textLinesAux]
  | cons c l ih =>
    have hc : isLineEnd c = false := hl c (by simp)
    simp only [isLineEnd, Bool.or_eq_false_iff, decide_eq_false_iff_not] at hc
    simp only [List.cons_append, textLinesAux, hc.1, hc.2, if_false]
    rw [ih (fun x hx => hl x (by simp [hx]))]
    simp

/-- **line splitting**: a text made of lines free of `\n` and `\r`, each closed by a newline, is iterated as exactly
those lines — whatever else they contain (form feed, vertical tab, FS/GS/RS, NEL, U+2028/9 do not end a line) -/
theorem fileLines_joinLines (ls : List Str) (h : ∀ l ∈ ls, NoNl l) : Midgard.TextLines.textLines (joinLines ls) = ls := by
  unfold Midgard.TextLines.textLines
  induction ls with
  | nil => rfl
  | cons l ls ih =>
    simp only [joinLines]
    rw [textLinesAux_line l (h l (by simp)), ih (fun x hx => h x (by simp [hx]))]
    simp

/-- **file_roundtrip** (see `Props/C15.lean`) -/
theorem file_roundtrip (F : FileM) (hwf : F.wf = true) : parseText (Spec.AntexFile.render F) = calibrations F := by
  unfold parseText Spec.AntexFile.render
  rw [fileLines_joinLines _ (nonl_file F hwf)]
  unfold parseLines Spec.AntexFile.fileLines calibrations
  rw [List.append_assoc, header_group F hwf]
  have h := hwf
  simp only [FileM.wf, Bool.and_eq_true, List.all_eq_true] at h
  exact antennas_run F.trailer h.2 F.antennas h.1.2 (headerState F) rfl

end Midgard.Antex.File
