/-
C20 — not-a-knot cubic spline (specification of SciPy's interp1d(cubic) and InterpolatedUnivariateSpline(k=3)):
defining equations NakEqs on the moments, the cubic piece, node reproduction of the evaluated model, linearity of
the equations, cubics satisfy them.  Uniqueness of the solution (strict diagonal dominance of the system reduced by the two not-a-knot conditions)
⇒ the whole call is linear in the data and reproduces cubics.  The model accepts the result of its elimination
only when it satisfies NakEqs (decidable), so these theorems hold for every value it returns; that the elimination
always succeeds on valid input is measured by the correspondence, not proved.
-/
import Midgard.Model.Numeric
import Midgard.Proofs.C20Lagrange
import Mathlib.Tactic.Ring
import Mathlib.Tactic.FieldSimp
import Mathlib.Tactic.LinearCombination
import Mathlib.Tactic.Linarith
import Mathlib.Data.Finset.Max
import Mathlib.Algebra.Order.Ring.Abs
import Mathlib.Order.Interval.Finset.Nat

namespace Midgard.Proofs.C20
open Midgard.Numeric

/-- the cubic piece takes the end values, whatever the moments -/
theorem pieceEval_left (x0 x1 y0 y1 m0 m1 : ℚ) (h : x1 ≠ x0) : pieceEval x0 x1 y0 y1 m0 m1 x0 = y0 := by
  have h' : x1 - x0 ≠ 0 := sub_ne_zero.mpr h
  unfold pieceEval
  field_simp
  ring

theorem pieceEval_right (x0 x1 y0 y1 m0 m1 : ℚ) (h : x1 ≠ x0) : pieceEval x0 x1 y0 y1 m0 m1 x1 = y1 := by
  have h' : x1 - x0 ≠ 0 := sub_ne_zero.mpr h
  unfold pieceEval
  field_simp
  ring

/-- the piece is linear in (values, moments) -/
theorem pieceEval_linear (x0 x1 y0 y1 m0 m1 y0' y1' m0' m1' a b x : ℚ) :
    pieceEval x0 x1 (a * y0 + b * y0') (a * y1 + b * y1') (a * m0 + b * m0') (a * m1 + b * m1') x
      = a * pieceEval x0 x1 y0 y1 m0 m1 x + b * pieceEval x0 x1 y0' y1' m0' m1' x := by
  unfold pieceEval
  ring

/-- the defining equations are linear: solutions for two data sets combine to a solution for the combined data -/
theorem nakEqs_linear (n : ℕ) (x y₁ y₂ m₁ m₂ : ℕ → ℚ) (a b : ℚ)
    (h₁ : NakEqs n x y₁ m₁) (h₂ : NakEqs n x y₂ m₂) :
    NakEqs n x (fun i => a * y₁ i + b * y₂ i) (fun i => a * m₁ i + b * m₂ i) := by
  obtain ⟨e₁, f₁, g₁⟩ := h₁
  obtain ⟨e₂, f₂, g₂⟩ := h₂
  refine ⟨?_, ?_, ?_⟩
  · intro i hi h1 h2
    have p := e₁ i hi h1 h2
    have q := e₂ i hi h1 h2
    simp only
    linear_combination a * p + b * q
  · simp only; linear_combination a * f₁ + b * f₂
  · simp only; linear_combination a * g₁ + b * g₂

/-- a cubic polynomial `c₀ + c₁t + c₂t² + c₃t³` -/
def cubicAt (c0 c1 c2 c3 t : ℚ) : ℚ := c0 + c1 * t + c2 * t * t + c3 * t * t * t
/-- its second derivative -/
def cubicDD (c2 c3 t : ℚ) : ℚ := 2 * c2 + 6 * c3 * t

/-- a cubic satisfies the defining equations with its own second derivative as moments (distinct nodes) -/
theorem nakEqs_cubic (n : ℕ) (x : ℕ → ℚ) (c0 c1 c2 c3 : ℚ) (hx : ∀ i, i + 1 < n → x (i + 1) ≠ x i) :
    NakEqs n x (fun i => cubicAt c0 c1 c2 c3 (x i)) (fun i => cubicDD c2 c3 (x i)) := by
  refine ⟨?_, ?_, ?_⟩
  · intro i hi h1 h2
    have ha : x (i + 1) - x i ≠ 0 := sub_ne_zero.mpr (hx i h2)
    have hb : x i - x (i - 1) ≠ 0 := by
      have := hx (i - 1) (by omega)
      rw [Nat.sub_add_cancel h1] at this
      exact sub_ne_zero.mpr this
    simp only [cubicAt, cubicDD]
    field_simp
    ring
  · simp only [cubicDD]; ring
  · simp only [cubicDD]; ring

/-- … and the piece with these end values and moments is the cubic itself -/
theorem pieceEval_cubic (x0 x1 c0 c1 c2 c3 t : ℚ) (h : x1 ≠ x0) :
    pieceEval x0 x1 (cubicAt c0 c1 c2 c3 x0) (cubicAt c0 c1 c2 c3 x1) (cubicDD c2 c3 x0) (cubicDD c2 c3 x1) t
      = cubicAt c0 c1 c2 c3 t := by
  have h' : x1 - x0 ≠ 0 := sub_ne_zero.mpr h
  unfold pieceEval cubicAt cubicDD
  field_simp
  ring

/-- the spline evaluated by the model reproduces the data at the nodes, whatever the moments -/
theorem nakAt_node (xs ys ms : List ℚ) (k : ℕ) (hp : xs.Pairwise (· < ·)) (hn : 2 ≤ xs.length) (hk : k < xs.length) :
    nakAt xs ys ms (xs.getD k 0) = ys.getD k 0 := by
  simp only [nakAt]
  rw [searchLeft_node xs k hp hk]
  rcases Nat.eq_zero_or_pos k with rfl | hk0
  · have : max 1 (min 0 (xs.length - 1)) = 1 := by omega
    simp only [this, Nat.sub_self]
    exact pieceEval_left _ _ _ _ _ _ (ne_of_gt (getD_mem_lt xs hp 0 1 (by omega) (by omega)))
  · have : max 1 (min k (xs.length - 1)) = k := by omega
    simp only [this]
    exact pieceEval_right _ _ _ _ _ _ (ne_of_gt (getD_mem_lt xs hp (k - 1) k (by omega) hk))

end Midgard.Proofs.C20

namespace Midgard.Proofs.C20
open Midgard.Numeric

/-- strict diagonal dominance, one row with two entries -/
theorem dom2 (u v A B : ℚ) (h : u * A + v * B = 0) (hA : 0 < A) (hB : |B| < A) (hv : |v| ≤ |u|) : u = 0 := by
  by_contra hu
  have hpos : 0 < |u| := abs_pos.mpr hu
  have e : |u| * A = |v| * |B| := by
    have : u * A = -(v * B) := by linarith
    calc |u| * A = |u * A| := by rw [abs_mul, abs_of_pos hA]
      _ = |v * B| := by rw [this, abs_neg]
      _ = |v| * |B| := abs_mul v B
  have h1 : |v| * |B| ≤ |u| * |B| := mul_le_mul_of_nonneg_right hv (abs_nonneg B)
  have h2 : |u| * |B| < |u| * A := mul_lt_mul_of_pos_left hB hpos
  linarith

/-- strict diagonal dominance, an interior row -/
theorem dom3 (u v w a b : ℚ) (h : a * v + 2 * (a + b) * u + b * w = 0) (ha : 0 < a) (hb : 0 < b)
    (hv : |v| ≤ |u|) (hw : |w| ≤ |u|) : u = 0 := by
  by_contra hu
  have hpos : 0 < |u| := abs_pos.mpr hu
  have e : 2 * (a + b) * |u| = |a * v + b * w| := by
    have : 2 * (a + b) * u = -(a * v + b * w) := by linarith
    calc 2 * (a + b) * |u| = |2 * (a + b) * u| := by
          rw [abs_mul, abs_of_pos (by linarith : (0:ℚ) < 2 * (a + b))]
      _ = |a * v + b * w| := by rw [this, abs_neg]
  have h1 : |a * v + b * w| ≤ a * |v| + b * |w| := by
    calc |a * v + b * w| ≤ |a * v| + |b * w| := abs_add_le _ _
      _ = a * |v| + b * |w| := by rw [abs_mul, abs_mul, abs_of_pos ha, abs_of_pos hb]
  have h2 : a * |v| ≤ a * |u| := mul_le_mul_of_nonneg_left hv (le_of_lt ha)
  have h3 : b * |w| ≤ b * |u| := mul_le_mul_of_nonneg_left hw (le_of_lt hb)
  nlinarith

/-- the homogeneous not-a-knot equations have only the zero solution -/
theorem nakEqs_zero (k : ℕ) (x m : ℕ → ℚ) (hx : ∀ i, i + 1 < k + 4 → x i < x (i + 1))
    (h : NakEqs (k + 4) x (fun _ => 0) m) : ∀ i, i < k + 4 → m i = 0 := by
  obtain ⟨hE, hF, hG⟩ := h
  have e2 : k + 4 - 2 = k + 2 := by omega
  have e3 : k + 4 - 3 = k + 1 := by omega
  have e1 : k + 4 - 1 = k + 3 := by omega
  rw [e1, e2, e3] at hG
  -- interior rows
  have E : ∀ i, 1 ≤ i → i ≤ k + 2 →
      (x i - x (i - 1)) * m (i - 1) + 2 * ((x i - x (i - 1)) + (x (i + 1) - x i)) * m i + (x (i + 1) - x i) * m (i + 1) = 0 := by
    intro i h1 h2
    have := hE i (by omega) h1 (by omega)
    simp only [sub_self, zero_div, mul_zero] at this
    linarith
  have hpos : ∀ i, i ≤ k + 2 → 0 < x (i + 1) - x i := fun i hi => sub_pos.mpr (hx i (by omega))
  -- reduced first and last rows
  have R1 : m 1 * ((x 1 - x 0) + 2 * (x 2 - x 1)) + m 2 * ((x 2 - x 1) - (x 1 - x 0)) = 0 := by
    have h0 := hpos 0 (by omega); have h1 := hpos 1 (by omega)
    have e := E 1 (le_refl 1) (by omega)
    simp only [Nat.sub_self] at e
    have : ((x 1 - x 0) + (x 2 - x 1)) * (m 1 * ((x 1 - x 0) + 2 * (x 2 - x 1)) + m 2 * ((x 2 - x 1) - (x 1 - x 0))) = 0 := by
      linear_combination (x 2 - x 1) * e + (x 1 - x 0) * hF
    rcases mul_eq_zero.mp this with h' | h'
    · linarith
    · exact h'
  have RL : m (k + 2) * ((x (k + 3) - x (k + 2)) + 2 * (x (k + 2) - x (k + 1)))
      + m (k + 1) * ((x (k + 2) - x (k + 1)) - (x (k + 3) - x (k + 2))) = 0 := by
    have h0 := hpos (k + 1) (by omega); have h1 := hpos (k + 2) (by omega)
    have e := E (k + 2) (by omega) (le_refl _)
    have e' : k + 2 - 1 = k + 1 := by omega
    have e'' : k + 2 + 1 = k + 3 := rfl
    rw [e', e''] at e
    have : ((x (k + 2) - x (k + 1)) + (x (k + 3) - x (k + 2))) * (m (k + 2) * ((x (k + 3) - x (k + 2)) + 2 * (x (k + 2) - x (k + 1)))
      + m (k + 1) * ((x (k + 2) - x (k + 1)) - (x (k + 3) - x (k + 2)))) = 0 := by
      linear_combination (x (k + 2) - x (k + 1)) * e + (x (k + 3) - x (k + 2)) * hG
    rcases mul_eq_zero.mp this with h' | h'
    · linarith
    · exact h'
  -- the interior moments vanish: take one of maximal modulus
  obtain ⟨p, hp, hmax⟩ := Finset.exists_max_image (Finset.Icc 1 (k + 2)) (fun i => |m i|) ⟨1, by simp⟩
  have hp' := Finset.mem_Icc.mp hp
  have hle : ∀ i, 1 ≤ i → i ≤ k + 2 → |m i| ≤ |m p| := fun i h1 h2 => hmax i (Finset.mem_Icc.mpr ⟨h1, h2⟩)
  have hp0 : m p = 0 := by
    rcases Nat.eq_or_lt_of_le hp'.1 with h1 | h1
    · subst h1
      have h0 := hpos 0 (by omega); have h1 := hpos 1 (by omega)
      exact dom2 (m 1) (m 2) _ _ R1 (by linarith) (by rw [abs_lt]; constructor <;> linarith) (hle 2 (by omega) (by omega))
    · rcases Nat.eq_or_lt_of_le hp'.2 with h2 | h2
      · subst h2
        have h0 := hpos (k + 1) (by omega); have h1' := hpos (k + 2) (by omega)
        exact dom2 (m (k + 2)) (m (k + 1)) _ _ RL (by linarith) (by rw [abs_lt]; constructor <;> linarith)
          (hle (k + 1) (by omega) (by omega))
      · have e := E p hp'.1 hp'.2
        have ha := hpos (p - 1) (by omega)
        have hb := hpos p (by omega)
        have ep : p - 1 + 1 = p := by omega
        rw [ep] at ha
        exact dom3 (m p) (m (p - 1)) (m (p + 1)) _ _ (by linarith) ha hb (hle (p - 1) (by omega) (by omega))
          (hle (p + 1) (by omega) (by omega))
  have hin : ∀ i, 1 ≤ i → i ≤ k + 2 → m i = 0 := by
    intro i h1 h2
    have := hle i h1 h2
    rw [hp0, abs_zero] at this
    exact abs_eq_zero.mp (le_antisymm this (abs_nonneg _))
  have m1 := hin 1 (le_refl _) (by omega)
  have m2 := hin 2 (by omega) (by omega)
  have mk1 := hin (k + 1) (by omega) (by omega)
  have mk2 := hin (k + 2) (by omega) (le_refl _)
  have m0 : m 0 = 0 := by
    have h1 := hpos 1 (by omega)
    rw [m1, m2] at hF
    have : m 0 * (x 2 - x 1) = 0 := by linarith
    rcases mul_eq_zero.mp this with h' | h'
    · exact h'
    · linarith
  have mk3 : m (k + 3) = 0 := by
    have h1 := hpos (k + 1) (by omega)
    rw [mk1, mk2] at hG
    have : m (k + 3) * (x (k + 2) - x (k + 1)) = 0 := by linarith
    rcases mul_eq_zero.mp this with h' | h'
    · exact h'
    · linarith
  intro i hi
  rcases Nat.eq_zero_or_pos i with rfl | h1
  · exact m0
  · rcases Nat.lt_or_ge i (k + 3) with h2 | h2
    · exact hin i h1 (by omega)
    · have : i = k + 3 := by omega
      subst this; exact mk3

/-- **uniqueness** of the not-a-knot spline: two solutions of the defining equations for the same data agree -/
theorem nakEqs_unique (n : ℕ) (x y m m' : ℕ → ℚ) (hn : 4 ≤ n) (hx : ∀ i, i + 1 < n → x i < x (i + 1))
    (h : NakEqs n x y m) (h' : NakEqs n x y m') : ∀ i, i < n → m i = m' i := by
  obtain ⟨k, rfl⟩ : ∃ k, n = k + 4 := ⟨n - 4, by omega⟩
  have hd := nakEqs_linear (k + 4) x y y m m' 1 (-1) h h'
  have hz : NakEqs (k + 4) x (fun _ => 0) (fun i => 1 * m i + -1 * m' i) := by
    obtain ⟨a, b, c⟩ := hd
    refine ⟨?_, b, c⟩
    intro i hi h1 h2
    have := a i hi h1 h2
    simp only [sub_self, zero_div, mul_zero]
    have e : (1 : ℚ) * y (i + 1) + -1 * y (i + 1) - (1 * y i + -1 * y i) = 0 := by ring
    have e' : (1 : ℚ) * y i + -1 * y i - (1 * y (i - 1) + -1 * y (i - 1)) = 0 := by ring
    rw [e, e'] at this
    simpa using this
  intro i hi
  have := nakEqs_zero k x _ hx hz i hi
  linarith

end Midgard.Proofs.C20

namespace Midgard.Proofs.C20
open Midgard.Numeric

/-- the equations only look at indices below `n` -/
theorem nakEqs_congr (n : ℕ) (x y y' m m' : ℕ → ℚ) (hn : 4 ≤ n) (hy : ∀ i, i < n → y i = y' i)
    (hm : ∀ i, i < n → m i = m' i) (h : NakEqs n x y m) : NakEqs n x y' m' := by
  obtain ⟨a, b, c⟩ := h
  refine ⟨?_, ?_, ?_⟩
  · intro i hi h1 h2
    rw [← hy (i + 1) h2, ← hy i hi, ← hy (i - 1) (by omega), ← hm (i + 1) h2, ← hm i hi, ← hm (i - 1) (by omega)]
    exact a i hi h1 h2
  · rw [← hm 0 (by omega), ← hm 1 (by omega), ← hm 2 (by omega)]; exact b
  · rw [← hm (n - 1) (by omega), ← hm (n - 2) (by omega), ← hm (n - 3) (by omega)]; exact c

theorem nakMoments_spec (sx col ms : List ℚ) (h : nakMoments sx col = some ms) :
    NakEqs sx.length (fun i => sx.getD i 0) (fun i => col.getD i 0) (fun i => ms.getD i 0) := by
  unfold nakMoments at h
  split at h
  · exact absurd h (by simp)
  · split at h
    · rename_i hq
      injection h with h
      rw [← h]; exact hq
    · exact absurd h (by simp)

theorem getD_map_at' {α} (l : List ℚ) (f : ℚ → α) (d : α) (j : ℕ) (hj : j < l.length) :
    (l.map f).getD j d = f (l.getD j 0) := by
  simp [List.getD_eq_getElem?_getD, hj]

theorem getD_map_range' (dim c : ℕ) (hc : c < dim) (G : ℕ → ℚ) : ((List.range dim).map G).getD c 0 = G c := by
  simp [List.getD_eq_getElem?_getD, hc]

theorem nakSpline_ok_form (xs : List ℚ) (rows : List (List ℚ)) (dim : ℕ) (xnew : List ℚ)
    (out : List (List ℚ)) (h : nakSpline xs rows dim xnew = .ok out) :
    rows.length = xs.length ∧ 4 ≤ xs.length ∧ strictInc ((sortedPairs xs rows false).map (·.1)) = true ∧
    (∀ c, c < dim → (nakMoments ((sortedPairs xs rows false).map (·.1))
        (((sortedPairs xs rows false).map (·.2)).map (·.getD c 0))).isSome = true) ∧
    out = xnew.map (fun x => ((List.range dim).map (fun c => ((sortedPairs xs rows false).map (·.2)).map (·.getD c 0))).map
      (fun col => nakAt ((sortedPairs xs rows false).map (·.1)) col
        ((nakMoments ((sortedPairs xs rows false).map (·.1)) col).getD []) x)) := by
  simp only [nakSpline, sortedPairs, Bool.false_eq_true, ↓reduceIte] at h ⊢
  split at h
  · exact absurd h (by simp)
  rename_i h1
  split at h
  · exact absurd h (by simp)
  rename_i h2
  split at h
  · exact absurd h (by simp)
  rename_i h3
  split at h
  · exact absurd h (by simp)
  split at h
  · exact absurd h (by simp)
  split at h
  · exact absurd h (by simp)
  rename_i h6
  refine ⟨by simpa using h1, by omega, by simpa using h3, ?_, ?_⟩
  · intro c hc
    simp only [List.any_eq_true, not_exists, not_and, List.mem_map, List.mem_range] at h6
    have := h6 _ ⟨c, hc, rfl⟩
    simpa [Option.isNone_iff_eq_none, Option.isSome_iff_ne_none] using this
  · injection h with h
    exact h.symm

/-- entry `(j, c)` of a successful call: the cubic pieces of moments that satisfy the defining equations for the
sorted samples of component `c` -/
theorem nakSpline_entry (xs : List ℚ) (rows : List (List ℚ)) (dim : ℕ) (xnew : List ℚ)
    (out : List (List ℚ)) (h : nakSpline xs rows dim xnew = .ok out) (j c : ℕ) (hj : j < xnew.length) (hc : c < dim) :
    ∃ ms, NakEqs ((sortedPairs xs rows false).map (·.1)).length (fun i => ((sortedPairs xs rows false).map (·.1)).getD i 0)
        (fun i => (((sortedPairs xs rows false).map (·.2)).map (·.getD c 0)).getD i 0) (fun i => ms.getD i 0) ∧
      (out.getD j []).getD c 0 = nakAt ((sortedPairs xs rows false).map (·.1))
        (((sortedPairs xs rows false).map (·.2)).map (·.getD c 0)) ms (xnew.getD j 0) := by
  obtain ⟨hl, h4, hinc, hsome, rfl⟩ := nakSpline_ok_form _ _ _ _ _ h
  obtain ⟨ms, hms⟩ := Option.isSome_iff_exists.mp (hsome c hc)
  refine ⟨ms, nakMoments_spec _ _ _ hms, ?_⟩
  rw [getD_map_at' _ _ _ _ hj, List.map_map, getD_map_range' _ _ hc]
  simp only [Function.comp, hms, Option.getD_some]

/-- node reproduction, whole call -/
theorem nakSpline_nodes (xs : List ℚ) (rows : List (List ℚ)) (dim : ℕ) (xnew : List ℚ)
    (out : List (List ℚ)) (h : nakSpline xs rows dim xnew = .ok out)
    (i j c : ℕ) (hi : i < xs.length) (hj : j < xnew.length) (hc : c < dim) (hx : xnew.getD j 0 = xs.getD i 0) :
    (out.getD j []).getD c 0 = (rows.getD i []).getD c 0 := by
  obtain ⟨ms, _, he⟩ := nakSpline_entry _ _ _ _ _ h j c hj hc
  obtain ⟨hl, h4, hinc, _, _⟩ := nakSpline_ok_form _ _ _ _ _ h
  obtain ⟨k, hk, hk1, hk2⟩ := sortedPairs_index xs rows false hl i hi
  have hlen := sortedPairs_length xs rows false hl
  rw [he, hx, ← hk1, nakAt_node _ _ _ k (strictInc_pairwise _ hinc) (by simp [hlen]; omega) (by simpa using hk), ← hk2]
  simp [List.getD_eq_getElem?_getD, hk]

theorem nakSpline_perm (xs xs' : List ℚ) (rows rows' : List (List ℚ)) (dim : ℕ)
    (xnew : List ℚ) (hl : rows.length = xs.length) (hl' : rows'.length = xs'.length)
    (hperm : (xs.zip rows).Perm (xs'.zip rows'))
    (hdist : strictInc ((sortBy (xs.zip rows)).map (·.1)) = true) :
    nakSpline xs' rows' dim xnew = nakSpline xs rows dim xnew := by
  have hlen : xs'.length = xs.length := by
    have := hperm.length_eq
    simp [List.length_zip, hl, hl'] at this
    omega
  have hsort := sortBy_eq_of_perm _ _ hperm hdist
  simp only [nakSpline, hl, hl', hlen, hsort]

/-- strictly increasing nodes, as the hypothesis of `nakEqs_unique` -/
theorem getD_strict (sx : List ℚ) (hp : sx.Pairwise (· < ·)) (i : ℕ) (hi : i + 1 < sx.length) :
    sx.getD i 0 < sx.getD (i + 1) 0 := getD_mem_lt sx hp i (i + 1) (by omega) hi

/-- the interval `nakAt` evaluates on has both ends among the nodes -/
theorem nakAt_idx (sx : List ℚ) (x : ℚ) (hn : 2 ≤ sx.length) :
    1 ≤ max 1 (min (searchLeft sx x) (sx.length - 1)) ∧ max 1 (min (searchLeft sx x) (sx.length - 1)) < sx.length := by
  omega

/-- **reproduction of cubics**, whole call -/
theorem nakSpline_cubic (xs : List ℚ) (rows : List (List ℚ)) (dim : ℕ) (xnew : List ℚ)
    (out : List (List ℚ)) (h : nakSpline xs rows dim xnew = .ok out) (c : ℕ) (hc : c < dim) (c0 c1 c2 c3 : ℚ)
    (hdata : ∀ i, i < xs.length → (rows.getD i []).getD c 0 = cubicAt c0 c1 c2 c3 (xs.getD i 0))
    (j : ℕ) (hj : j < xnew.length) :
    (out.getD j []).getD c 0 = cubicAt c0 c1 c2 c3 (xnew.getD j 0) := by
  obtain ⟨ms, hms, he⟩ := nakSpline_entry _ _ _ _ _ h j c hj hc
  obtain ⟨hl, h4, hinc, _, _⟩ := nakSpline_ok_form _ _ _ _ _ h
  have hlen := sortedPairs_length xs rows false hl
  have hp := strictInc_pairwise _ hinc
  set sx := (sortedPairs xs rows false).map (·.1) with hsx
  set col := ((sortedPairs xs rows false).map (·.2)).map (·.getD c 0) with hcol
  have hsxl : sx.length = xs.length := by simp [hsx, hlen]
  -- the sorted column is the cubic at the sorted nodes
  have hcoldata : ∀ k, k < sx.length → col.getD k 0 = cubicAt c0 c1 c2 c3 (sx.getD k 0) := by
    intro k hk
    have := sortedPairs_forall xs rows false (fun x r => r.getD c 0 = cubicAt c0 c1 c2 c3 x) hdata hl k (by simpa [hsx] using hk)
    rw [hcol, getD_map_col]
    exact this
  have hstrict := getD_strict sx hp
  have hcub := nakEqs_cubic sx.length (fun i => sx.getD i 0) c0 c1 c2 c3 (fun i hi => ne_of_gt (hstrict i hi))
  have hcub' : NakEqs sx.length (fun i => sx.getD i 0) (fun i => col.getD i 0) (fun i => cubicDD c2 c3 (sx.getD i 0)) :=
    nakEqs_congr _ _ _ _ _ _ (by omega) (fun i hi => (hcoldata i hi).symm) (fun _ _ => rfl) hcub
  have huniq := nakEqs_unique sx.length _ _ _ _ (by omega) hstrict hms hcub'
  rw [he]
  simp only [nakAt]
  obtain ⟨i1, i2⟩ := nakAt_idx sx (xnew.getD j 0) (by omega)
  generalize max 1 (min (searchLeft sx (xnew.getD j 0)) (sx.length - 1)) = idx at *
  have ha := huniq (idx - 1) (by omega)
  have hb := huniq idx i2
  rw [ha, hb, hcoldata (idx - 1) (by omega), hcoldata idx i2]
  have hne : sx.getD idx 0 ≠ sx.getD (idx - 1) 0 := by
    have := hstrict (idx - 1) (by omega)
    rw [Nat.sub_add_cancel i1] at this
    exact ne_of_gt this
  exact pieceEval_cubic _ _ c0 c1 c2 c3 _ hne

/-- **linear in the data**, whole call -/
theorem nakSpline_linear (xs : List ℚ) (r₁ r₂ r₃ : List (List ℚ)) (dim : ℕ) (xnew : List ℚ) (a b : ℚ)
    (o₁ o₂ o₃ : List (List ℚ))
    (h₁ : nakSpline xs r₁ dim xnew = .ok o₁) (h₂ : nakSpline xs r₂ dim xnew = .ok o₂)
    (h₃ : nakSpline xs r₃ dim xnew = .ok o₃) (c : ℕ) (hc : c < dim)
    (hcomb : ∀ i, i < xs.length →
      (r₃.getD i []).getD c 0 = a * (r₁.getD i []).getD c 0 + b * (r₂.getD i []).getD c 0)
    (j : ℕ) (hj : j < xnew.length) :
    (o₃.getD j []).getD c 0 = a * (o₁.getD j []).getD c 0 + b * (o₂.getD j []).getD c 0 := by
  obtain ⟨m₁, q₁, e₁⟩ := nakSpline_entry _ _ _ _ _ h₁ j c hj hc
  obtain ⟨m₂, q₂, e₂⟩ := nakSpline_entry _ _ _ _ _ h₂ j c hj hc
  obtain ⟨m₃, q₃, e₃⟩ := nakSpline_entry _ _ _ _ _ h₃ j c hj hc
  obtain ⟨l₁, h4, hinc, _, _⟩ := nakSpline_ok_form _ _ _ _ _ h₁
  obtain ⟨l₂, _, _, _, _⟩ := nakSpline_ok_form _ _ _ _ _ h₂
  obtain ⟨l₃, _, _, _, _⟩ := nakSpline_ok_form _ _ _ _ _ h₃
  obtain ⟨Z, hZlen, s₁, s₂, s₃, hZ⟩ := sorted_triples xs r₁ r₂ r₃ false l₁ l₂ l₃
  rw [e₁, e₂, e₃]
  rw [s₁] at q₁ hinc ⊢
  rw [s₂] at q₂ ⊢
  rw [s₃] at q₃ ⊢
  simp only [List.map_map, fst_comp_map] at q₁ q₂ q₃ hinc ⊢
  set sx := Z.map (fun z : ℚ × Triple => z.1) with hsx
  have hsxl : sx.length = xs.length := by simp [hsx, hZlen]
  have hp := strictInc_pairwise _ hinc
  have hstrict := getD_strict sx hp
  set col₁ := Z.map ((fun x : List ℚ => x.getD c 0) ∘ (fun x : ℚ × List ℚ => x.2) ∘ Prod.map id (fun t : Triple => t.1)) with hc₁
  set col₂ := Z.map ((fun x : List ℚ => x.getD c 0) ∘ (fun x : ℚ × List ℚ => x.2) ∘ Prod.map id (fun t : Triple => t.2.1)) with hc₂
  set col₃ := Z.map ((fun x : List ℚ => x.getD c 0) ∘ (fun x : ℚ × List ℚ => x.2) ∘ Prod.map id (fun t : Triple => t.2.2)) with hc₃
  have hcol : ∀ k, k < sx.length → col₃.getD k 0 = a * col₁.getD k 0 + b * col₂.getD k 0 := by
    intro k hk
    have hk' : k < Z.length := by simpa [hsx] using hk
    obtain ⟨t, ht, g₁, g₂, g₃⟩ := hZ k hk'
    have hc' := hcomb t ht
    rw [g₁, g₂, g₃] at hc'
    simpa [hc₁, hc₂, hc₃, List.getD_eq_getElem?_getD, hk'] using hc'
  have hlin := nakEqs_linear sx.length (fun i => sx.getD i 0) _ _ _ _ a b q₁ q₂
  have hlin' : NakEqs sx.length (fun i => sx.getD i 0) (fun i => col₃.getD i 0)
      (fun i => a * m₁.getD i 0 + b * m₂.getD i 0) :=
    nakEqs_congr _ _ _ _ _ _ (by omega) (fun i hi => (hcol i hi).symm) (fun _ _ => rfl) hlin
  have huniq := nakEqs_unique sx.length _ _ _ _ (by omega) hstrict q₃ hlin'
  simp only [nakAt]
  obtain ⟨i1, i2⟩ := nakAt_idx sx (xnew.getD j 0) (by omega)
  generalize max 1 (min (searchLeft sx (xnew.getD j 0)) (sx.length - 1)) = idx at *
  have ha := huniq (idx - 1) (by omega)
  have hb := huniq idx i2
  rw [ha, hb, hcol (idx - 1) (by omega), hcol idx i2]
  exact pieceEval_linear _ _ _ _ _ _ _ _ _ _ a b _

end Midgard.Proofs.C20
