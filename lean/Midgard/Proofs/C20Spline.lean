/-
C20 — not-a-knot cubic spline (specification of SciPy's interp1d(cubic) and InterpolatedUnivariateSpline(k=3)):
defining equations NakEqs on the moments, the cubic piece, node reproduction of the evaluated model, linearity of
the equations, cubics satisfy them.  Uniqueness of the solution (⇒ linearity of the map data ↦ spline, reproduction
of cubics by the solver) is NOT proved here; the driver reports per case that the solution it evaluates satisfies NakEqs.
-/
import Midgard.Model.Numeric
import Midgard.Proofs.C20Lagrange
import Mathlib.Tactic.Ring
import Mathlib.Tactic.FieldSimp
import Mathlib.Tactic.LinearCombination
import Mathlib.Tactic.Linarith

namespace Midgard.Proofs.C20
open Midgard.Numeric

/-- the cubic piece takes the end values, whatever the moments -/
theorem pieceEval_left (x0 x1 y0 y1 m0 m1 : ℚ) (h : x1 ≠ x0) : pieceEval x0 x1 y0 y1 m0 m1 x0 = y0 := by
  have h' : x1 - x0 ≠ 0 := sub_ne_zero.mpr h
  unfold pieceEval
  field_simp
  ring

theorem pieceEval_right (x0 x1 y0 y1 m0 m1 : ℚ) (h : x1 ≠ x0) : pieceEval x0 x1 y0 y1 m0 m1 x1 = y1 := by
  have h' : x1 - x0 ≠ 0 := sub_ne_zero.mpr h
  unfold pieceEval
  field_simp
  ring

/-- the piece is linear in (values, moments) -/
theorem pieceEval_linear (x0 x1 y0 y1 m0 m1 y0' y1' m0' m1' a b x : ℚ) :
    pieceEval x0 x1 (a * y0 + b * y0') (a * y1 + b * y1') (a * m0 + b * m0') (a * m1 + b * m1') x
      = a * pieceEval x0 x1 y0 y1 m0 m1 x + b * pieceEval x0 x1 y0' y1' m0' m1' x := by
  unfold pieceEval
  ring

/-- the defining equations are linear: solutions for two data sets combine to a solution for the combined data -/
theorem nakEqs_linear (n : ℕ) (x y₁ y₂ m₁ m₂ : ℕ → ℚ) (a b : ℚ)
    (h₁ : NakEqs n x y₁ m₁) (h₂ : NakEqs n x y₂ m₂) :
    NakEqs n x (fun i => a * y₁ i + b * y₂ i) (fun i => a * m₁ i + b * m₂ i) := by
  obtain ⟨e₁, f₁, g₁⟩ := h₁
  obtain ⟨e₂, f₂, g₂⟩ := h₂
  refine ⟨?_, ?_, ?_⟩
  · intro i hi h1 h2
    have p := e₁ i hi h1 h2
    have q := e₂ i hi h1 h2
    simp only
    linear_combination a * p + b * q
  · simp only; linear_combination a * f₁ + b * f₂
  · simp only; linear_combination a * g₁ + b * g₂

/-- a cubic polynomial `c₀ + c₁t + c₂t² + c₃t³` -/
def cubicAt (c0 c1 c2 c3 t : ℚ) : ℚ := c0 + c1 * t + c2 * t * t + c3 * t * t * t
/-- its second derivative -/
def cubicDD (c2 c3 t : ℚ) : ℚ := 2 * c2 + 6 * c3 * t

/-- a cubic satisfies the defining equations with its own second derivative as moments (distinct nodes) -/
theorem nakEqs_cubic (n : ℕ) (x : ℕ → ℚ) (c0 c1 c2 c3 : ℚ) (hx : ∀ i, i + 1 < n → x (i + 1) ≠ x i) :
    NakEqs n x (fun i => cubicAt c0 c1 c2 c3 (x i)) (fun i => cubicDD c2 c3 (x i)) := by
  refine ⟨?_, ?_, ?_⟩
  · intro i hi h1 h2
    have ha : x (i + 1) - x i ≠ 0 := sub_ne_zero.mpr (hx i h2)
    have hb : x i - x (i - 1) ≠ 0 := by
      have := hx (i - 1) (by omega)
      rw [Nat.sub_add_cancel h1] at this
      exact sub_ne_zero.mpr this
    simp only [cubicAt, cubicDD]
    field_simp
    ring
  · simp only [cubicDD]; ring
  · simp only [cubicDD]; ring

/-- … and the piece with these end values and moments is the cubic itself -/
theorem pieceEval_cubic (x0 x1 c0 c1 c2 c3 t : ℚ) (h : x1 ≠ x0) :
    pieceEval x0 x1 (cubicAt c0 c1 c2 c3 x0) (cubicAt c0 c1 c2 c3 x1) (cubicDD c2 c3 x0) (cubicDD c2 c3 x1) t
      = cubicAt c0 c1 c2 c3 t := by
  have h' : x1 - x0 ≠ 0 := sub_ne_zero.mpr h
  unfold pieceEval cubicAt cubicDD
  field_simp
  ring

/-- the spline evaluated by the model reproduces the data at the nodes, whatever the moments -/
theorem nakAt_node (xs ys ms : List ℚ) (k : ℕ) (hp : xs.Pairwise (· < ·)) (hn : 2 ≤ xs.length) (hk : k < xs.length) :
    nakAt xs ys ms (xs.getD k 0) = ys.getD k 0 := by
  unfold nakAt
  rw [searchLeft_node xs k hp hk]
  rcases Nat.eq_zero_or_pos k with rfl | hk0
  · have : max 1 (min 0 (xs.length - 1)) = 1 := by omega
    simp only [this, Nat.sub_self]
    exact pieceEval_left _ _ _ _ _ _ (ne_of_gt (getD_mem_lt xs hp 0 1 (by omega) (by omega)))
  · have : max 1 (min k (xs.length - 1)) = k := by omega
    simp only [this]
    exact pieceEval_right _ _ _ _ _ _ (ne_of_gt (getD_mem_lt xs hp (k - 1) k (by omega) hk))

end Midgard.Proofs.C20

namespace Midgard.Proofs.C20
open Midgard.Numeric

theorem nakSpline_ok_form (xs : List ℚ) (rows : List (List ℚ)) (dim : ℕ) (xnew : List ℚ) (c : Bool)
    (out : List (List ℚ)) (h : nakSpline xs rows dim xnew = .ok (c, out)) :
    rows.length = xs.length ∧ 4 ≤ xs.length ∧ strictInc ((sortedPairs xs rows false).map (·.1)) = true ∧
    out = xnew.map (fun x => (((List.range dim).map (fun c => ((sortedPairs xs rows false).map (·.2)).map (·.getD c 0))).map
      (fun col => (col, (gaussSolve ((sortedPairs xs rows false).map (·.1)).length
        (nakSystem ((sortedPairs xs rows false).map (·.1)) col)).getD []))).map
      (fun (col, ms) => nakAt ((sortedPairs xs rows false).map (·.1)) col ms x)) := by
  simp only [nakSpline, sortedPairs, Bool.false_eq_true, ↓reduceIte] at h ⊢
  split at h
  · exact absurd h (by simp)
  rename_i h1
  split at h
  · exact absurd h (by simp)
  rename_i h2
  split at h
  · exact absurd h (by simp)
  rename_i h3
  split at h
  · exact absurd h (by simp)
  split at h
  · exact absurd h (by simp)
  refine ⟨by simpa using h1, by omega, by simpa using h3, ?_⟩
  injection h with h
  injection h with _ h
  exact h.symm

/-- node reproduction, whole call (whatever the solver returned for the moments) -/
theorem nakSpline_nodes (xs : List ℚ) (rows : List (List ℚ)) (dim : ℕ) (xnew : List ℚ) (cert : Bool)
    (out : List (List ℚ)) (h : nakSpline xs rows dim xnew = .ok (cert, out))
    (i j c : ℕ) (hi : i < xs.length) (hj : j < xnew.length) (hc : c < dim) (hx : xnew.getD j 0 = xs.getD i 0) :
    (out.getD j []).getD c 0 = (rows.getD i []).getD c 0 := by
  obtain ⟨hl, h4, hinc, rfl⟩ := nakSpline_ok_form _ _ _ _ _ _ h
  obtain ⟨k, hk, hk1, hk2⟩ := sortedPairs_index xs rows false hl i hi
  have hlen := sortedPairs_length xs rows false hl
  simp only [List.getD_eq_getElem?_getD, List.getElem?_map, List.getElem?_eq_getElem hj, Option.map_some,
    Option.getD_some, List.map_map, List.getElem?_range hc, Function.comp]
  rw [← List.getD_eq_getElem?_getD, ← List.getD_eq_getElem?_getD] at *
  have hxj : xnew[j] = xs.getD i 0 := by
    rw [← hx, List.getD_eq_getElem?_getD, List.getElem?_eq_getElem hj, Option.getD_some]
  rw [hxj, ← hk1, nakAt_node _ _ _ k (strictInc_pairwise _ hinc) (by simp [hlen]; omega) (by simpa using hk), ← hk2]
  simp [List.getD_eq_getElem?_getD, hk]

theorem nakSpline_perm (xs xs' : List ℚ) (rows rows' : List (List ℚ)) (dim : ℕ)
    (xnew : List ℚ) (hl : rows.length = xs.length) (hl' : rows'.length = xs'.length)
    (hperm : (xs.zip rows).Perm (xs'.zip rows'))
    (hdist : strictInc ((sortBy (xs.zip rows)).map (·.1)) = true) :
    nakSpline xs' rows' dim xnew = nakSpline xs rows dim xnew := by
  have hlen : xs'.length = xs.length := by
    have := hperm.length_eq
    simp [List.length_zip, hl, hl'] at this
    omega
  have hsort := sortBy_eq_of_perm _ _ hperm hdist
  simp only [nakSpline, hl, hl', hlen, hsort]

end Midgard.Proofs.C20
