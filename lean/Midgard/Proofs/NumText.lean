/-
Lemmas about `Spec/NumText.lean`: the texts of the independent writers parse (through the models'
`parseFloat` / `parseInt?` / `parseDecimalWith`) to exactly the numbers they were printed from.
Core Lean only.
-/
import Midgard.Spec.NumText
import Midgard.Proofs.Decimal

namespace Midgard.Spec.NumText
open Midgard.Text Midgard.Decimal

/-! ### lists -/

theorem takeWhile_all {α} (p : α → Bool) (l : List α) (h : ∀ x ∈ l, p x = true) : l.takeWhile p = l := by
  induction l with
  | nil => rfl
  | cons a l ih =>
    simp only [List.takeWhile_cons, h a (by simp), if_true]
    rw [ih (fun x hx => h x (by simp [hx]))]

theorem dropWhile_all {α} (p : α → Bool) (l : List α) (h : ∀ x ∈ l, p x = true) : l.dropWhile p = [] := by
  induction l with
  | nil => rfl
  | cons a l ih =>
    simp only [List.dropWhile_cons, h a (by simp), if_true]
    exact ih (fun x hx => h x (by simp [hx]))

theorem takeWhile_stop {α} (p : α → Bool) (a : List α) (c : α) (b : List α)
    (ha : ∀ x ∈ a, p x = true) (hc : p c = false) : (a ++ c :: b).takeWhile p = a := by
  induction a with
  | nil => simp [hc]
  | cons x a ih =>
    simp only [List.cons_append, List.takeWhile_cons, ha x (by simp), if_true]
    rw [ih (fun y hy => ha y (by simp [hy]))]

theorem dropWhile_stop {α} (p : α → Bool) (a : List α) (c : α) (b : List α)
    (ha : ∀ x ∈ a, p x = true) (hc : p c = false) : (a ++ c :: b).dropWhile p = c :: b := by
  induction a with
  | nil => simp [hc]
  | cons x a ih =>
    simp only [List.cons_append, List.dropWhile_cons, ha x (by simp), if_true]
    exact ih (fun y hy => ha y (by simp [hy]))

/-! ### digit strings -/

theorem digitsValAux_app (acc : Nat) (a b : Str) :
    digitsValAux acc (a ++ b) = digitsValAux (digitsValAux acc a) b := by
  induction a generalizing acc with
  | nil => show digitsValAux acc b = digitsValAux acc b; rfl
  | cons d a ih =>
    show digitsValAux (acc * 10 + digitVal d) (a ++ b) = digitsValAux (digitsValAux (acc * 10 + digitVal d) a) b
    exact ih _

theorem digitsValAux_nil (acc : Nat) : digitsValAux acc [] = acc := by
  show acc = acc
  rfl

theorem digitsValAux_cons (acc : Nat) (c : Char) (r : Str) :
    digitsValAux acc (c :: r) = digitsValAux (acc * 10 + digitVal c) r := by
  show digitsValAux (acc * 10 + digitVal c) r = digitsValAux (acc * 10 + digitVal c) r
  rfl

theorem digitsValAux_acc (acc : Nat) (b : Str) :
    digitsValAux acc b = acc * 10 ^ b.length + digitsValAux 0 b := by
  induction b generalizing acc with
  | nil => rw [digitsValAux_nil, digitsValAux_nil]; simp
  | cons d b ih =>
    rw [digitsValAux_cons, digitsValAux_cons, List.length_cons]
    rw [ih (acc * 10 + digitVal d), ih (0 * 10 + digitVal d), Nat.pow_succ]
    simp only [Nat.zero_mul, Nat.zero_add, Nat.add_mul]
    have : acc * 10 * 10 ^ b.length = acc * (10 ^ b.length * 10) := by
      rw [Nat.mul_assoc, Nat.mul_comm 10]
    omega

theorem digitsVal_append (a b : Str) : digitsVal (a ++ b) = digitsVal a * 10 ^ b.length + digitsVal b := by
  unfold digitsVal
  rw [digitsValAux_app, digitsValAux_acc]

theorem natDigits_lt {n : Nat} (h : n < 10) : natDigits n = [digitChar n] := by
  rw [natDigits]; simp [h]

theorem natDigits_ge {n : Nat} (h : ¬ n < 10) : natDigits n = natDigits (n / 10) ++ [digitChar (n % 10)] := by
  rw [natDigits]; simp [h]

theorem allDigits_natDigits (n : Nat) : allDigits (natDigits n) = true := by
  induction n using Nat.strongRecOn with
  | _ n ih =>
    by_cases h : n < 10
    · rw [natDigits_lt h]; simp [allDigits, isDigit_digitChar]
    · rw [natDigits_ge h]
      have := ih (n / 10) (by omega)
      simp only [allDigits, List.all_append, List.all_cons, List.all_nil, Bool.and_true, Bool.and_eq_true] at this ⊢
      exact ⟨this, isDigit_digitChar _⟩

theorem digitsVal_natDigits (n : Nat) : digitsVal (natDigits n) = n := by
  induction n using Nat.strongRecOn with
  | _ n ih =>
    by_cases h : n < 10
    · rw [natDigits_lt h]
      unfold digitsVal
      rw [digitsValAux_cons, digitsValAux_nil, digitVal_digitChar]; omega
    · rw [natDigits_ge h, digitsVal_append_digit, ih (n / 10) (by omega), digitVal_digitChar]
      omega

theorem natDigits_ne_nil (n : Nat) : natDigits n ≠ [] := by
  by_cases h : n < 10
  · rw [natDigits_lt h]; simp
  · rw [natDigits_ge h]; simp

theorem natDigits_head (n : Nat) : ∃ c r, natDigits n = c :: r ∧ isDigit c = true := by
  cases h : natDigits n with
  | nil => exact absurd h (natDigits_ne_nil n)
  | cons c r =>
    refine ⟨c, r, rfl, ?_⟩
    have := allDigits_natDigits n
    rw [h] at this
    simp only [allDigits, List.all_cons, Bool.and_eq_true] at this
    exact this.1

theorem mem_allDigits {s : Str} (h : allDigits s = true) {c : Char} (hc : c ∈ s) : isDigit c = true := by
  simp only [allDigits, List.all_eq_true] at h
  exact h c hc

theorem parseNat_natDigits (n : Nat) : parseNat? (natDigits n) = some n := by
  unfold parseNat?
  have h1 : (natDigits n).isEmpty = false := by
    cases h : natDigits n with
    | nil => exact absurd h (natDigits_ne_nil n)
    | cons _ _ => rfl
  simp [h1, allDigits_natDigits, digitsVal_natDigits]

/-- `int(str(n))` -/
theorem parseInt_natDigits (n : Nat) : parseInt? (natDigits n) = some (n : Int) := by
  unfold parseInt?
  rw [strip_of_allDigits (allDigits_natDigits n)]
  obtain ⟨c, r, h, hd⟩ := natDigits_head n
  rw [h, takeSign_of_digit hd, ← h]
  simp [parseNat_natDigits]

/-- characters a decimal text is made of -/
def isNumChar (c : Char) : Bool := isDigit c || c == '.' || c == '-' || c == '+'

theorem isSpace_of_isNumChar {c : Char} (h : isNumChar c = true) : isSpace c = false := by
  simp only [isNumChar, Bool.or_eq_true, beq_iff_eq] at h
  rcases h with ((h | h) | h) | h
  · exact isSpace_of_isDigit h
  · subst h; decide
  · subst h; decide
  · subst h; decide

theorem isDigit_not_exp {c : Char} (h : isDigit c = true) : c ≠ 'e' ∧ c ≠ 'E' ∧ c ≠ 'D' ∧ c ≠ 'd' ∧ c ≠ '.' ∧ c ≠ '\n' := by
  refine ⟨?_, ?_, ?_, ?_, ?_, ?_⟩ <;> (intro hc; subst hc; revert h; decide)

/-! ### fixed-point decimals -/

/-- the unsigned body `digits.pdigits` -/
def decBody (p a : Nat) : Str := natDigits (a / 10 ^ p) ++ '.' :: fixedDigits p a

theorem fmtDec_eq (p : Nat) (n : Int) : fmtDec p n = (if n < 0 then ['-'] else []) ++ decBody p n.natAbs := by
  simp [fmtDec, decBody, List.append_assoc]

theorem parseMantissa_decBody (p a : Nat) :
    parseMantissa? (decBody p a) = some (natDigits (a / 10 ^ p) ++ fixedDigits p a, p) := by
  unfold parseMantissa? decBody
  have hnd : ∀ x ∈ natDigits (a / 10 ^ p), (decide (x ≠ '.')) = true := by
    intro x hx
    have := (isDigit_not_exp (mem_allDigits (allDigits_natDigits _) hx)).2.2.2.2.1
    simpa using this
  have hpt : (decide ('.' ≠ '.')) = false := by decide
  rw [takeWhile_stop _ _ _ _ hnd hpt, dropWhile_stop _ _ _ _ hnd hpt]
  have h1 : (natDigits (a / 10 ^ p)).isEmpty = false := by
    cases h : natDigits (a / 10 ^ p) with
    | nil => exact absurd h (natDigits_ne_nil _)
    | cons _ _ => rfl
  simp [h1, allDigits_natDigits, allDigits_fixedDigits, length_fixedDigits]

theorem digitsVal_decBody (p a : Nat) : digitsVal (natDigits (a / 10 ^ p) ++ fixedDigits p a) = a := by
  rw [digitsVal_append, digitsVal_natDigits, digitsVal_fixedDigits, length_fixedDigits]
  exact Nat.div_add_mod' a (10 ^ p)

theorem mem_decBody {p a : Nat} {c : Char} (h : c ∈ decBody p a) : isDigit c = true ∨ c = '.' := by
  simp only [decBody, List.mem_append, List.mem_cons] at h
  rcases h with h | h | h
  · exact Or.inl (mem_allDigits (allDigits_natDigits _) h)
  · exact Or.inr h
  · exact Or.inl (mem_allDigits (allDigits_fixedDigits _ _) h)

theorem decBody_head (p a : Nat) : ∃ c r, decBody p a = c :: r ∧ isDigit c = true := by
  obtain ⟨c, r, h, hd⟩ := natDigits_head (a / 10 ^ p)
  exact ⟨c, r ++ '.' :: fixedDigits p a, by simp [decBody, h], hd⟩

theorem scale10_zero (q : Rat) : scale10 q 0 = q := by
  simp [scale10, pow10]

/-- the parser's view of an unsigned body followed by nothing -/
theorem parseDecimalWith_body (exps : List Char) (hex : ∀ c ∈ exps, isDigit c = false ∧ c ≠ '.')
    (p a : Nat) (neg : Bool) (s : Str) (hs : strip s = (if neg then ['-'] else []) ++ decBody p a) :
    parseDecimalWith exps s = some (if neg then -((a : Rat) / pow10 p) else (a : Rat) / pow10 p) := by
  unfold parseDecimalWith
  rw [hs]
  have hts : takeSign ((if neg then ['-'] else []) ++ decBody p a) = (neg, decBody p a) := by
    cases neg with
    | true => rfl
    | false =>
      obtain ⟨c, r, h, hd⟩ := decBody_head p a
      simp only [Bool.false_eq_true, if_false, List.nil_append]
      rw [h]; exact takeSign_of_digit hd
  rw [hts]
  have hall : ∀ x ∈ decBody p a, (!exps.contains x) = true := by
    intro x hx
    simp only [Bool.not_eq_eq_eq_not, Bool.not_true]
    rw [← Bool.not_eq_true, List.contains_iff_mem]
    intro hmem
    have := hex x hmem
    rcases mem_decBody hx with h | h
    · rw [h] at this; exact absurd this.1 (by simp)
    · exact this.2 h
  simp only [takeWhile_all _ _ hall, dropWhile_all _ _ hall, parseMantissa_decBody, digitsVal_decBody, scale10_zero]

/-- **`float` of a printed fixed-point decimal is the decimal** -/
theorem parseFloat_fmtDec (p : Nat) (n : Int) : parseFloat (fmtDec p n) = some (decVal p n) := by
  unfold parseFloat
  have hstrip : strip (fmtDec p n) = (if decide (n < 0) then ['-'] else []) ++ decBody p n.natAbs := by
    rw [fmtDec_eq]
    have : (if n < 0 then ['-'] else []) = (if decide (n < 0) = true then ['-'] else ([] : Str)) := by simp
    rw [← this]
    apply strip_of_no_space
    intro c hc
    simp only [List.mem_append] at hc
    rcases hc with hc | hc
    · split at hc
      · simp at hc; subst hc; decide
      · simp at hc
    · rcases mem_decBody hc with h | h
      · exact isSpace_of_isDigit h
      · subst h; decide
  rw [parseDecimalWith_body ['e', 'E'] (by decide) p n.natAbs (decide (n < 0)) _ hstrip]
  unfold decVal
  congr 1
  by_cases hn : n < 0
  · have e : n = -((n.natAbs : Nat) : Int) := by omega
    simp only [hn, decide_true, if_true]
    conv => rhs; rw [e, Rat.intCast_neg, Rat.intCast_natCast]
    grind
  · have e : n = ((n.natAbs : Nat) : Int) := by omega
    simp only [hn, decide_false, Bool.false_eq_true, if_false]
    conv => rhs; rw [e, Rat.intCast_natCast]

theorem fmtDec_noSpace (p : Nat) (n : Int) : ∀ c ∈ fmtDec p n, isNumChar c = true := by
  intro c hc
  rw [fmtDec_eq] at hc
  simp only [List.mem_append] at hc
  rcases hc with hc | hc
  · split at hc
    · simp at hc; subst hc; decide
    · simp at hc
  · rcases mem_decBody hc with h | h
    · simp [isNumChar, h]
    · subst h; decide

theorem fmtDec_ne_nil (p : Nat) (n : Int) : fmtDec p n ≠ [] := by
  rw [fmtDec_eq]
  obtain ⟨c, r, h, _⟩ := decBody_head p n.natAbs
  rw [h]; simp

/-- a text of number characters is a clean, non-empty token without line breaks -/
theorem clean_of_numChars {s : Str} (h : ∀ c ∈ s, isNumChar c = true) : Clean s = true := by
  cases s with
  | nil => rfl
  | cons c r =>
    simp only [Clean, Bool.and_eq_true, Bool.not_eq_eq_eq_not, Bool.not_true]
    refine ⟨isSpace_of_isNumChar (h c (by simp)), ?_⟩
    cases hl : (c :: r).getLast? with
    | none => simp at hl
    | some d => exact isSpace_of_isNumChar (h d (List.mem_of_getLast? hl))

theorem isNumChar_ne_nl {c : Char} (h : isNumChar c = true) : c ≠ '\n' := by
  intro hc; subst hc; revert h; decide

theorem length_fmtDec_le (p k : Nat) (n : Int) (hk : 0 < k) (h : n.natAbs < 10 ^ (k + p)) :
    (fmtDec p n).length ≤ (if n < 0 then 1 else 0) + k + 1 + p := by
  have hip : n.natAbs / 10 ^ p < 10 ^ k := by
    rw [Nat.div_lt_iff_lt_mul (Nat.pow_pos (by decide))]
    rw [Nat.pow_add] at h; exact h
  have h1 : ∀ (k n : Nat), 0 < k → n < 10 ^ k → (natDigits n).length ≤ k := by
    intro k
    induction k with
    | zero => intro n h; omega
    | succ k ih =>
      intro n _ h
      by_cases h10 : n < 10
      · rw [natDigits_lt h10]; simp
      · rw [natDigits_ge h10]
        simp only [List.length_append, List.length_singleton]
        have hk : 0 < k := by
          rcases Nat.eq_zero_or_pos k with h0 | h0
          · subst h0; simp at h; omega
          · exact h0
        have : n / 10 < 10 ^ k := by
          rw [Nat.div_lt_iff_lt_mul (by decide)]
          rw [Nat.pow_succ] at h; exact h
        have := ih (n / 10) hk this
        omega
  have := h1 k _ hk hip
  rw [fmtDec_eq]
  simp only [decBody, List.length_append, List.length_cons, length_fixedDigits]
  split <;> simp <;> omega


/-! ### plain integers -/

theorem noSpace_natDigits (n : Nat) : ∀ c ∈ natDigits n, isSpace c = false :=
  fun _ hc => isSpace_of_isDigit (mem_allDigits (allDigits_natDigits n) hc)

theorem mem_fmtInt {i : Int} {c : Char} (h : c ∈ fmtInt i) : isNumChar c = true := by
  unfold fmtInt at h
  split at h
  · simp only [List.mem_cons] at h
    rcases h with h | h
    · subst h; decide
    · simp [isNumChar, mem_allDigits (allDigits_natDigits _) h]
  · simp [isNumChar, mem_allDigits (allDigits_natDigits _) h]

theorem fmtInt_ne_nil (i : Int) : fmtInt i ≠ [] := by
  unfold fmtInt
  split
  · simp
  · exact natDigits_ne_nil _

/-- `int('{:d}'.format(i))` -/
theorem parseInt_fmtInt (i : Int) : parseInt? (fmtInt i) = some i := by
  by_cases hi : i < 0
  · have hf : fmtInt i = '-' :: natDigits i.natAbs := by simp [fmtInt, hi]
    unfold parseInt?
    have hs : strip (fmtInt i) = fmtInt i :=
      strip_of_no_space (fun c hc => isSpace_of_isNumChar (mem_fmtInt hc))
    rw [hs, hf]
    have : takeSign ('-' :: natDigits i.natAbs) = (true, natDigits i.natAbs) := rfl
    rw [this]
    simp only [parseNat_natDigits]
    show some (-((i.natAbs : Nat) : Int)) = some i
    congr 1
    omega
  · have hf : fmtInt i = natDigits i.natAbs := by simp [fmtInt, hi]
    rw [hf, parseInt_natDigits]
    simp only [Option.some.injEq]
    omega

/-- `float(str(k))` for a natural number -/
theorem parseFloat_natDigits (k : Nat) : parseFloat (natDigits k) = some (k : Rat) := by
  unfold parseFloat parseDecimalWith
  rw [strip_of_allDigits (allDigits_natDigits k)]
  obtain ⟨c, r, h, hd⟩ := natDigits_head k
  have hts : takeSign (natDigits k) = (false, natDigits k) := by rw [h]; exact takeSign_of_digit hd
  rw [hts]
  have hall : ∀ x ∈ natDigits k, (!['e', 'E'].contains x) = true := by
    intro x hx
    have := isDigit_not_exp (mem_allDigits (allDigits_natDigits k) hx)
    simp [this.1, this.2.1]
  have hnp : ∀ x ∈ natDigits k, (decide (x ≠ '.')) = true := by
    intro x hx
    have := (isDigit_not_exp (mem_allDigits (allDigits_natDigits k) hx)).2.2.2.2.1
    simpa using this
  have hm : parseMantissa? (natDigits k) = some (natDigits k, 0) := by
    unfold parseMantissa?
    rw [takeWhile_all _ _ hnp, dropWhile_all _ _ hnp]
    have h1 : (natDigits k).isEmpty = false := by rw [h]; rfl
    simp [h1, allDigits_natDigits]
  simp only [takeWhile_all _ _ hall, dropWhile_all _ _ hall, hm, digitsVal_natDigits, scale10_zero]
  simp only [pow10, Nat.pow_zero, Bool.false_eq_true, if_false, Option.some.injEq]
  grind


theorem natDigits_len_le : ∀ (k n : Nat), 0 < k → n < 10 ^ k → (natDigits n).length ≤ k := by
  intro k
  induction k with
  | zero => intro n h; omega
  | succ k ih =>
    intro n _ h
    by_cases h10 : n < 10
    · rw [natDigits_lt h10]; simp
    · rw [natDigits_ge h10]
      simp only [List.length_append, List.length_singleton]
      have hk : 0 < k := by
        rcases Nat.eq_zero_or_pos k with h0 | h0
        · subst h0; simp at h; omega
        · exact h0
      have : n / 10 < 10 ^ k := by
        rw [Nat.div_lt_iff_lt_mul (by decide)]
        rw [Nat.pow_succ] at h; exact h
      have := ih (n / 10) hk this
      omega

theorem numChars_natDigits (n : Nat) : ∀ c ∈ natDigits n, isNumChar c = true := by
  intro c hc
  simp [isNumChar, mem_allDigits (allDigits_natDigits n) hc]


/-! ### scientific notation (`D19.12` and its spellings) -/

theorem digitsVal_zero_cons (s : Str) : digitsVal ('0' :: s) = digitsVal s := by
  unfold digitsVal
  rw [digitsValAux_cons]
  have : digitVal '0' = 0 := by decide
  rw [this]

theorem parseExp_fmtExp (e : Int) : parseExp? (fmtExp e) = some e := by
  unfold parseExp? fmtExp
  have hnat : parseNat? (if e.natAbs < 10 then '0' :: natDigits e.natAbs else natDigits e.natAbs) = some e.natAbs := by
    split
    · unfold parseNat?
      have hall : allDigits ('0' :: natDigits e.natAbs) = true := by
        simp only [allDigits, List.all_cons, Bool.and_eq_true]
        exact ⟨by decide, allDigits_natDigits _⟩
      simp [hall, digitsVal_zero_cons, digitsVal_natDigits]
    · exact parseNat_natDigits _
  by_cases he : e < 0
  · simp only [he, if_true]
    have : takeSign ('-' :: (if e.natAbs < 10 then '0' :: natDigits e.natAbs else natDigits e.natAbs)) =
        (true, if e.natAbs < 10 then '0' :: natDigits e.natAbs else natDigits e.natAbs) := rfl
    rw [this]
    simp only [hnat]
    show some (-((e.natAbs : Nat) : Int)) = some e
    congr 1; omega
  · simp only [he, if_false]
    have : takeSign ('+' :: (if e.natAbs < 10 then '0' :: natDigits e.natAbs else natDigits e.natAbs)) =
        (false, if e.natAbs < 10 then '0' :: natDigits e.natAbs else natDigits e.natAbs) := rfl
    rw [this]
    simp only [hnat]
    show some (((e.natAbs : Nat) : Int)) = some e
    congr 1; omega

theorem mem_fmtExp {e : Int} {c : Char} (h : c ∈ fmtExp e) : isNumChar c = true := by
  unfold fmtExp at h
  simp only [List.mem_cons] at h
  rcases h with h | h
  · rw [h]; split <;> decide
  · split at h
    · simp only [List.mem_cons] at h
      rcases h with h | h
      · rw [h]; decide
      · exact numChars_natDigits _ c h
    · exact numChars_natDigits _ c h

theorem mem_sciBody {p : Nat} {lead : Bool} {m : Nat} {c : Char} (h : c ∈ sciBody p lead m) :
    isDigit c = true ∨ c = '.' := by
  simp only [sciBody, List.mem_append, List.mem_cons] at h
  rcases h with h | h | h
  · cases lead
    · simp at h
    · exact Or.inl (mem_allDigits (allDigits_natDigits _) (by simpa using h))
  · exact Or.inr h
  · exact Or.inl (mem_allDigits (allDigits_fixedDigits _ _) h)

theorem parseMantissa_sciBody (p : Nat) (lead : Bool) (m : Nat) (hp : 0 < p) :
    ∃ ds, parseMantissa? (sciBody p lead m) = some (ds, p) ∧ digitsVal ds = mantVal p lead m := by
  cases lead with
  | true =>
    refine ⟨_, parseMantissa_decBody p m, ?_⟩
    simp [mantVal, digitsVal_decBody]
  | false =>
    refine ⟨fixedDigits p m, ?_, ?_⟩
    · unfold parseMantissa? sciBody
      have hne : (fixedDigits p m).isEmpty = false := by
        cases h : fixedDigits p m with
        | nil => exact absurd h (fixedDigits_ne_nil hp m)
        | cons _ _ => rfl
      have hnil : allDigits ([] : Str) = true := rfl
      simp [hne, allDigits_fixedDigits, length_fixedDigits, hnil]
    · simp [mantVal, digitsVal_fixedDigits]

theorem takeSign_sciBody (p : Nat) (lead : Bool) (m : Nat) (rest : Str) :
    takeSign (sciBody p lead m ++ rest) = (false, sciBody p lead m ++ rest) := by
  cases lead with
  | true =>
    obtain ⟨c, r, h, hd⟩ := natDigits_head (m / 10 ^ p)
    simp only [sciBody, if_true, h, List.cons_append]
    exact takeSign_of_digit hd
  | false => rfl

/-- the parser's view of `[-]mantissa X ±ee` when `X` is one of the accepted exponent letters -/
theorem parseDecimalWith_sci (exps : List Char) (hex : ∀ c ∈ exps, isDigit c = false ∧ c ≠ '.')
    (x : Char) (hx : x ∈ exps) (p : Nat) (hp : 0 < p) (lead neg : Bool) (m : Nat) (e : Int) (s : Str)
    (hs : strip s = fmtSci x p lead neg m e) :
    parseDecimalWith exps s = some (sciVal p lead neg m e) := by
  unfold parseDecimalWith
  rw [hs]
  have hts : takeSign (fmtSci x p lead neg m e) = (neg, sciBody p lead m ++ x :: fmtExp e) := by
    unfold fmtSci
    cases neg with
    | true => rfl
    | false => simpa using takeSign_sciBody p lead m (x :: fmtExp e)
  rw [hts]
  have hall : ∀ y ∈ sciBody p lead m, (!exps.contains y) = true := by
    intro y hy
    simp only [Bool.not_eq_eq_eq_not, Bool.not_true]
    rw [← Bool.not_eq_true, List.contains_iff_mem]
    intro hmem
    have := hex y hmem
    rcases mem_sciBody hy with h | h
    · rw [h] at this; exact absurd this.1 (by simp)
    · exact this.2 h
  have hxs : (!exps.contains x) = false := by simp [hx]
  obtain ⟨ds, hm, hv⟩ := parseMantissa_sciBody p lead m hp
  simp only [takeWhile_stop _ _ _ _ hall hxs, dropWhile_stop _ _ _ _ hall hxs, hm, hv, parseExp_fmtExp]
  cases neg <;> rfl

theorem mem_fmtSci {x : Char} {p : Nat} {lead neg : Bool} {m : Nat} {e : Int} {c : Char}
    (h : c ∈ fmtSci x p lead neg m e) : isNumChar c = true ∨ c = x := by
  simp only [fmtSci, List.mem_append, List.mem_cons] at h
  rcases h with (h | h) | h | h
  · cases neg
    · simp at h
    · simp at h; subst h; exact Or.inl (by decide)
  · rcases mem_sciBody h with h | h
    · exact Or.inl (by simp [isNumChar, h])
    · subst h; exact Or.inl (by decide)
  · exact Or.inr h
  · exact Or.inl (mem_fmtExp h)

theorem fmtSci_ne_nil (x : Char) (p : Nat) (lead neg : Bool) (m : Nat) (e : Int) : fmtSci x p lead neg m e ≠ [] := by
  unfold fmtSci; simp

theorem replaceChar_id {a b : Char} {s : Str} (h : ∀ c ∈ s, c ≠ a) : replaceChar a b s = s := by
  unfold replaceChar
  induction s with
  | nil => rfl
  | cons c s ih =>
    have hc : c ≠ a := h c (by simp)
    simp only [List.map_cons, hc, if_false]
    rw [ih (fun d hd => h d (by simp [hd]))]

theorem numChar_not_letter {c : Char} (h : isNumChar c = true) : c ≠ 'D' ∧ c ≠ 'd' ∧ c ≠ 'E' ∧ c ≠ 'e' := by
  simp only [isNumChar, Bool.or_eq_true, beq_iff_eq] at h
  rcases h with ((h | h) | h) | h
  · obtain ⟨h1, h2, h3, h4, _, _⟩ := isDigit_not_exp h
    exact ⟨h3, h4, h2, h1⟩
  · subst h; decide
  · subst h; decide
  · subst h; decide

/-- `D`/`d` ↦ `e` on a scientific text only touches the exponent letter -/
theorem replace_fmtSci (x : Char) (hx : isExpLetter x = true) (p : Nat) (lead neg : Bool) (m : Nat) (e : Int) :
    ∃ x', (x' = 'e' ∨ x' = 'E') ∧
      replaceChar 'd' 'e' (replaceChar 'D' 'e' (fmtSci x p lead neg m e)) = fmtSci x' p lead neg m e := by
  have hpre : ∀ c ∈ (if neg then ['-'] else []) ++ sciBody p lead m, isNumChar c = true := by
    intro c hc
    rcases List.mem_append.mp hc with h | h
    · cases neg
      · simp at h
      · simp at h; subst h; decide
    · rcases mem_sciBody h with h | h
      · simp [isNumChar, h]
      · subst h; decide
  have hexp : ∀ c ∈ fmtExp e, isNumChar c = true := fun c hc => mem_fmtExp hc
  have r1 : ∀ (a : Char) (s : Str), (a = 'D' ∨ a = 'd') → (∀ c ∈ s, isNumChar c = true) → replaceChar a 'e' s = s := by
    intro a s ha hs
    apply replaceChar_id
    intro c hc
    have := numChar_not_letter (hs c hc)
    rcases ha with rfl | rfl
    · exact this.1
    · exact this.2.1
  have key : ∀ y : Char, replaceChar 'd' 'e' (replaceChar 'D' 'e' (fmtSci y p lead neg m e)) =
      fmtSci (if (if y = 'D' then 'e' else y) = 'd' then 'e' else (if y = 'D' then 'e' else y)) p lead neg m e := by
    intro y
    have hrep : ∀ (a : Char) (A B : Str) (z : Char),
        replaceChar a 'e' (A ++ z :: B) = replaceChar a 'e' A ++ (if z = a then 'e' else z) :: replaceChar a 'e' B := by
      intros; simp [replaceChar]
    unfold fmtSci
    rw [hrep 'D', r1 'D' _ (Or.inl rfl) hpre, r1 'D' _ (Or.inl rfl) hexp,
      hrep 'd', r1 'd' _ (Or.inr rfl) hpre, r1 'd' _ (Or.inr rfl) hexp]
  simp only [isExpLetter, Bool.or_eq_true, beq_iff_eq] at hx
  rcases hx with ((rfl | rfl) | rfl) | rfl
  · exact ⟨'e', Or.inl rfl, by rw [key]; rfl⟩
  · exact ⟨'e', Or.inl rfl, by rw [key]; rfl⟩
  · exact ⟨'E', Or.inr rfl, by rw [key]; rfl⟩
  · exact ⟨'e', Or.inl rfl, by rw [key]; rfl⟩

theorem noSpace_fmtSci (x : Char) (hx : isExpLetter x = true) (p : Nat) (lead neg : Bool) (m : Nat) (e : Int) :
    ∀ c ∈ fmtSci x p lead neg m e, isSpace c = false := by
  intro c hc
  rcases mem_fmtSci hc with h | h
  · exact isSpace_of_isNumChar h
  · subst h
    simp only [isExpLetter, Bool.or_eq_true, beq_iff_eq] at hx
    rcases hx with ((rfl | rfl) | rfl) | rfl <;> decide

/-- an integer-valued rational rounds to itself -/
theorem roundHalfEven_int (i : Int) : roundHalfEven (i : Rat) = i := by
  unfold roundHalfEven
  have hf : (i : Rat).floor = i := Rat.floor_intCast i
  simp only [hf]
  have : (i : Rat) - (i : Rat) = 0 := by grind
  rw [this]
  have hpos : (0 : Rat) < 1 / 2 := by decide +kernel
  simp [hpos]

end Midgard.Spec.NumText
