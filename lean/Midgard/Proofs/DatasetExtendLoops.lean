/-
C09 — the loops of `Collection._extend` under the semantic memo invariant, for leaf-only collections of flat kinds
(`DatasetExtendInv.lean`, `DatasetExtendSteps.lean`; plan and open part: `DatasetExtendNOTES.md`).
-/
import Midgard.Proofs.DatasetExtendSteps
namespace Midgard.Dataset

theorem LeafPost.mono {us h0 n m W s s' it nm k u l f'} (e : HeapExt s.heap s'.heap) (p : PersistW W s s')
    (hit : W it) (lp : LeafPost us h0 n m s it nm k u l f') : LeafPost us h0 n m s' it nm k u l f' := by
  obtain ⟨r, no', ex, h1, h2, h3, h4, h5⟩ := lp
  refine ⟨r, no', ex, h1, h2, h3.ext e, h4, fun hnp => ?_⟩
  obtain ⟨o, ho, hf⟩ := h5 hnp
  exact ⟨o, ho, p it hit hnp o ho r hf⟩

/-- a leaf of a flat kind of self extended by the leaf of other, under the invariant (all flat kinds) -/
theorem extendLeaf_flat_step (us : Units) (h0 : Heap) (n m : Nat) (W : Item → Prop) (hI : Items h0 W)
    (hC : Consistent us h0 n m W) (hO : ObjsAgree W) (nm : String) (k : Kind) (hk : k.flat = true)
    (o no : Nat) (u : Option (List String)) (l : Nat)
    (nm2 : String) (o2 no2 : Nat) (u2 : Option (List String)) (l2 : Nat) (s : St) (f' : Field) (s' : St)
    (ms : MemoSem us h0 n m W s) (hcv : s.conv = us.conv) (hit : W (.both k o u o2 u2))
    (oa ob : Obj) (hoa : h0[o]? = some oa) (hob : h0[o2]? = some ob) (hno : no = oa.rows.length)
    (h : extendLeaf us nm k o no u l (.leaf nm2 k o2 no2 u2 l2) s = .ok (f', s')) :
    LeafPost us h0 n m s' (.both k o u o2 u2) nm k u l f' ∧ HeapExt s.heap s'.heap ∧
      MemoSem us h0 n m W s' ∧ s'.conv = us.conv ∧ PersistW W s s' := by
  cases k with
  | bool => exact extendLeaf_plain_step us h0 n m W hI nm _ rfl o no u l nm2 o2 no2 u2 l2 s f' s' ms hcv oa ob hoa hob hno h
  | float => exact extendLeaf_plain_step us h0 n m W hI nm _ rfl o no u l nm2 o2 no2 u2 l2 s f' s' ms hcv oa ob hoa hob hno h
  | text => exact extendLeaf_plain_step us h0 n m W hI nm _ rfl o no u l nm2 o2 no2 u2 l2 s f' s' ms hcv oa ob hoa hob hno h
  | time => exact extendLeaf_time_step us h0 n m W hI hC hO nm _ (Or.inl rfl) o no u l nm2 o2 no2 u2 l2 s f' s' ms hcv hit oa hoa hno h
  | timeDelta => exact extendLeaf_time_step us h0 n m W hI hC hO nm _ (Or.inr rfl) o no u l nm2 o2 no2 u2 l2 s f' s' ms hcv hit oa hoa hno h
  | sigma => exact extendLeaf_sigma_step us h0 n m W hI hC hO nm o no u l nm2 o2 no2 u2 l2 s f' s' ms hcv hit oa ob hoa hob hno h
  | position => simp [Kind.flat, Kind.hasOther] at hk
  | posvel => simp [Kind.flat, Kind.hasOther] at hk
  | positionDelta => simp [Kind.flat, Kind.hasOther, Kind.isDelta] at hk
  | posvelDelta => simp [Kind.flat, Kind.hasOther, Kind.isDelta] at hk

/-- the padding of a leaf of a flat kind under the invariant (all flat kinds, both directions) -/
theorem padField_flat_step (us : Units) (h0 : Heap) (n m : Nat) (W : Item → Prop) (hI : Items h0 W)
    (hC : Consistent us h0 n m W) (hO : ObjsAgree W) (front : Bool) (nm : String) (k : Kind) (hk : k.flat = true)
    (o no : Nat) (u : Option (List String)) (l : Nat) (s : St) (f' : Field) (s' : St)
    (ms : MemoSem us h0 n m W s) (hcv : s.conv = us.conv)
    (hit : W (if front then .otherOnly k o else .selfOnly k o))
    (oa : Obj) (hoa : h0[o]? = some oa) (hno : front = false → no = oa.rows.length)
    (cnt : Nat) (hcnt : cnt = if front then n else m)
    (h : padField front cnt (.leaf nm k o no u l) s = .ok (f', s')) :
    LeafPost us h0 n m s' (if front then .otherOnly k o else .selfOnly k o) nm k u l f' ∧ HeapExt s.heap s'.heap ∧
      MemoSem us h0 n m W s' ∧ s'.conv = us.conv ∧ PersistW W s s' := by
  cases k with
  | bool => exact padField_plain_step us h0 n m W hI front nm _ rfl o no u l s f' s' ms hcv oa hoa hno cnt hcnt h
  | float => exact padField_plain_step us h0 n m W hI front nm _ rfl o no u l s f' s' ms hcv oa hoa hno cnt hcnt h
  | text => exact padField_plain_step us h0 n m W hI front nm _ rfl o no u l s f' s' ms hcv oa hoa hno cnt hcnt h
  | time => exact padField_memo_step us h0 n m W hI hC hO front nm _ (Or.inl rfl) o no u l s f' s' ms hcv hit oa hoa hno cnt hcnt h
  | timeDelta => exact padField_memo_step us h0 n m W hI hC hO front nm _ (Or.inr (Or.inl rfl)) o no u l s f' s' ms hcv hit oa hoa hno cnt hcnt h
  | sigma => exact padField_memo_step us h0 n m W hI hC hO front nm _ (Or.inr (Or.inr rfl)) o no u l s f' s' ms hcv hit oa hoa hno cnt hcnt h
  | position => simp [Kind.flat, Kind.hasOther] at hk
  | posvel => simp [Kind.flat, Kind.hasOther] at hk
  | positionDelta => simp [Kind.flat, Kind.hasOther, Kind.isDelta] at hk
  | posvelDelta => simp [Kind.flat, Kind.hasOther, Kind.isDelta] at hk
/-! ### the loops of `Collection._extend` over leaf-only collections -/

/-- a leaf of a flat kind whose array lives in `h0` and has `r` rows -/
def FlatLeaf (h0 : Heap) (r : Nat) (f : Field) : Prop :=
  ∃ nm k o no u l ob, f = .leaf nm k o no u l ∧ k.flat = true ∧ h0[o]? = some ob ∧ ob.rows.length = r ∧ no = r

/-- everything the loops need to know about the two leaf-only collections and the set of items -/
structure LCtx (us : Units) (h0 : Heap) (n m : Nat) (W : Item → Prop) (sf other : List Field) : Prop where
  hI : Items h0 W
  hC : Consistent us h0 n m W
  hO : ObjsAgree W
  hn : n ≠ 0
  selfFlat : ∀ f ∈ sf, FlatLeaf h0 n f
  otherFlat : ∀ g ∈ other, FlatLeaf h0 m g
  nodupS : (names sf).Nodup
  nodupO : (names other).Nodup
  wb : ∀ nm k o no u l nm2 o2 no2 u2 l2, .leaf nm k o no u l ∈ sf → .leaf nm2 k o2 no2 u2 l2 ∈ other → nm = nm2 →
    W (.both k o u o2 u2)
  ws : ∀ nm k o no u l, .leaf nm k o no u l ∈ sf → nm ∉ names other → W (.selfOnly k o)
  wo : ∀ nm k o no u l, .leaf nm k o no u l ∈ other → nm ∉ names sf → W (.otherOnly k o)

/-- `x` is what the table demands of some item; if self has a leaf of that name, its array belongs to the item -/
def DoneLeaf (us : Units) (h0 : Heap) (n m : Nat) (W : Item → Prop) (sf : List Field) (s : St) (x : Field) : Prop :=
  ∃ it nm k u l, W it ∧ LeafPost us h0 n m s it nm k u l x ∧
    ∀ nm' k' o no u' l', .leaf nm' k' o no u' l' ∈ sf → nm' = x.name → o ∈ it.objs

theorem DoneLeaf.mono {us h0 n m W sf s s' x} (e : HeapExt s.heap s'.heap) (p : PersistW W s s')
    (d : DoneLeaf us h0 n m W sf s x) : DoneLeaf us h0 n m W sf s' x := by
  obtain ⟨it, nm, k, u, l, hw, lp, src⟩ := d
  exact ⟨it, nm, k, u, l, hw, lp.mono e p hw, src⟩

/-- the loop invariant: the fields of `acc` are untouched leaves of self (name not done yet) or finished -/
structure LInv (us : Units) (h0 : Heap) (n m : Nat) (W : Item → Prop) (sf : List Field) (done : String → Prop)
    (acc : List Field) (s : St) : Prop where
  nodup : (names acc).Nodup
  keep : ∀ f ∈ sf, ¬ done f.name → f ∈ acc
  each : ∀ x ∈ acc, (x ∈ sf ∧ ¬ done x.name) ∨ (done x.name ∧ DoneLeaf us h0 n m W sf s x)

theorem mem_setField_of_ne : ∀ {acc : List Field} {f x : Field}, x ∈ acc → x.name ≠ f.name → x ∈ setField acc f
  | [], _, _, h, _ => by simp at h
  | g :: gs, f, x, h, hne => by
    simp only [setField]
    rcases List.mem_cons.mp h with rfl | h
    · have : (x.name == f.name) = false := by simpa using hne
      simp [this]
    · split
      · exact List.mem_cons_of_mem _ h
      · exact List.mem_cons_of_mem _ (mem_setField_of_ne h hne)

theorem leaf_name_unique {fs : List Field} (hn : (names fs).Nodup) {f g : Field} (hf : f ∈ fs) (hg : g ∈ fs)
    (he : f.name = g.name) : f = g := by
  induction fs with
  | nil => simp at hf
  | cons c cs ih =>
    simp only [names, List.map_cons, List.nodup_cons, List.mem_map, not_exists, not_and] at hn
    rcases List.mem_cons.mp hf with rfl | hf' <;> rcases List.mem_cons.mp hg with rfl | hg'
    · rfl
    · exact absurd he.symm (hn.1 g hg')
    · exact absurd he (hn.1 f hf')
    · exact ih hn.2 hf' hg'

/-- after one more field of other: the invariant with that name done -/
theorem LInv.step {us h0 n m W sf done acc s s'} {f' : Field}
    (li : LInv us h0 n m W sf done acc s) (e : HeapExt s.heap s'.heap) (p : PersistW W s s')
    (hd : DoneLeaf us h0 n m W sf s' f') :
    LInv us h0 n m W sf (fun x => done x ∨ x = f'.name) (setField acc f') s' := by
  refine ⟨nodup_setField li.nodup, ?_, ?_⟩
  · intro f hf hnd
    have h1 : ¬ done f.name := fun h => hnd (Or.inl h)
    have h2 : f.name ≠ f'.name := fun h => hnd (Or.inr h)
    exact mem_setField_of_ne (li.keep f hf h1) h2
  · intro x hx
    rcases mem_setField_nodup li.nodup hx with rfl | ⟨hxa, hne⟩
    · exact Or.inr ⟨Or.inr rfl, hd⟩
    · rcases li.each x hxa with ⟨h1, h2⟩ | ⟨h1, h2⟩
      · exact Or.inl ⟨h1, fun h => h.elim h2 hne⟩
      · exact Or.inr ⟨Or.inl h1, h2.mono e p⟩

theorem both_objs_mem (k : Kind) (o : Nat) (u : Option (List String)) (o2 : Nat) (u2 : Option (List String)) :
    o ∈ (Item.both k o u o2 u2).objs := by
  simp only [Item.objs]; split <;> simp

/-- **the loop over the fields of other** (leaf-only collections, self not empty): every field of other is finished —
extended into the leaf of self of its name, or padded in front and appended -/
theorem loop1_leaf (us : Units) (h0 : Heap) (n m : Nat) (W : Item → Prop) (sf other : List Field)
    (cx : LCtx us h0 n m W sf other) :
    ∀ (gs : List Field) (done : String → Prop) (acc : List Field) (s : St) (acc' : List Field) (s' : St),
      extendField.loop1 us (names sf) n acc gs s = .ok (acc', s') →
      (∀ g ∈ gs, g ∈ other) → (names gs).Nodup → (∀ g ∈ gs, ¬ done g.name) →
      MemoSem us h0 n m W s → s.conv = us.conv → LInv us h0 n m W sf done acc s →
      ∃ done', LInv us h0 n m W sf done' acc' s' ∧ (∀ x, done' x ↔ done x ∨ x ∈ names gs) ∧
        HeapExt s.heap s'.heap ∧ MemoSem us h0 n m W s' ∧ s'.conv = us.conv ∧ PersistW W s s'
  | [], done, acc, s, acc', s', h, _, _, _, ms, hcv, li => by
    simp only [extendField.loop1, Except.ok.injEq, Prod.mk.injEq] at h
    obtain ⟨rfl, rfl⟩ := h
    exact ⟨done, li, by simp [names], HeapExt.refl _, ms, hcv, PersistW.refl _ _⟩
  | g :: gs, done, acc, s, acc', s', h, hmem, hnd, hdone, ms, hcv, li => by
    simp only [extendField.loop1] at h
    split at h
    · simp at h
    · rename_i f' s1 hr
      obtain ⟨nm2, k2, o2, no2, u2, l2, ob, rfl, hk2, hob, hobr, hno2⟩ := cx.otherFlat g (hmem g (by simp))
      have hgo : Field.leaf nm2 k2 o2 no2 u2 l2 ∈ other := hmem _ (by simp)
      have hnz : (n == 0) = false := by simpa using cx.hn
      have hstep : DoneLeaf us h0 n m W sf s1 f' ∧ f'.name = nm2 ∧ HeapExt s.heap s1.heap ∧
          MemoSem us h0 n m W s1 ∧ s1.conv = us.conv ∧ PersistW W s s1 := by
        by_cases hsk : (names sf).contains nm2 = true
        · simp only [Field.name, hsk, Bool.not_true, hnz, Bool.or_self, Bool.false_eq_true, if_false] at hr
          cases hget : getField acc nm2 with
          | none => simp [hget] at hr
          | some f =>
            simp only [hget] at hr
            obtain ⟨hfa, hfn⟩ := getField_some hget
            have hfs : f ∈ sf := by
              rcases li.each f hfa with ⟨h1, _⟩ | ⟨h1, _⟩
              · exact h1
              · exact absurd (hfn ▸ h1 : done (Field.leaf nm2 k2 o2 no2 u2 l2).name) (hdone (Field.leaf nm2 k2 o2 no2 u2 l2) (by simp))
            obtain ⟨nm, k, o, no, u, l, oa, rfl, hk, hoa, hoar, hno⟩ := cx.selfFlat f hfs
            simp only [Field.name] at hfn
            subst hfn
            simp only [extendField] at hr
            by_cases hkk : k = k2
            · subst hkk
              obtain ⟨lp, e1, ms1, c1, pw⟩ := extendLeaf_flat_step us h0 n m W cx.hI cx.hC cx.hO nm k hk o no u l nm o2 no2 u2 l2
                s f' s1 ms hcv (cx.wb nm k o no u l nm o2 no2 u2 l2 hfs hgo rfl) oa ob hoa hob (by omega) hr
              have hname : f'.name = nm := by obtain ⟨r, no', ex, h1, _⟩ := lp; rw [h1]; rfl
              refine ⟨⟨_, nm, k, u, l, cx.wb nm k o no u l nm o2 no2 u2 l2 hfs hgo rfl, lp, ?_⟩, hname, e1, ms1, c1, pw⟩
              intro nm' k' o' no' u' l' hin hnm
              have : Field.leaf nm' k' o' no' u' l' = Field.leaf nm k o no u l :=
                leaf_name_unique cx.nodupS hin hfs (by show nm' = nm; rw [hnm, hname])
              cases this
              exact both_objs_mem _ _ _ _ _
            · have : (k != k2) = true := by simpa using hkk
              simp [extendLeaf, this] at hr
        · have hsk' : (names sf).contains nm2 = false := by simpa using hsk
          have hnin : nm2 ∉ names sf := by
            intro hc; rw [← List.contains_iff_mem] at hc; rw [hc] at hsk'; cases hsk'
          simp only [Field.name, hsk', Bool.not_false, Bool.true_or, if_true] at hr
          obtain ⟨lp, e1, ms1, c1, pw⟩ := padField_flat_step us h0 n m W cx.hI cx.hC cx.hO true nm2 k2 hk2 o2 no2 u2 l2
            s f' s1 ms hcv (by simpa using cx.wo nm2 k2 o2 no2 u2 l2 hgo hnin) ob hob (by intro hc; cases hc) n rfl hr
          have hname : f'.name = nm2 := by obtain ⟨r, no', ex, h1, _⟩ := lp; rw [h1]; rfl
          refine ⟨⟨_, nm2, k2, u2, l2, by simpa using cx.wo nm2 k2 o2 no2 u2 l2 hgo hnin, lp, ?_⟩, hname, e1, ms1, c1, pw⟩
          intro nm' k' o' no' u' l' hin hnm
          exfalso
          apply hnin
          rw [hname] at hnm
          subst hnm
          exact List.mem_map_of_mem (f := Field.name) hin
      obtain ⟨hd, hname, e1, ms1, c1, pw⟩ := hstep
      have li1 := li.step e1 pw hd
      have hnd' : (names gs).Nodup := by
        simp only [names, List.map_cons, List.nodup_cons] at hnd; exact hnd.2
      have hnotin : nm2 ∉ names gs := by
        simp only [names, List.map_cons, List.nodup_cons, Field.name] at hnd; exact hnd.1
      obtain ⟨done', li2, hiff, e2, ms2, c2, pw2⟩ := loop1_leaf us h0 n m W sf other cx gs _ _ s1 acc' s' h
        (fun g' hg' => hmem g' (List.mem_cons_of_mem _ hg')) hnd'
        (by
          intro g' hg' hc
          rcases hc with hc | hc
          · exact hdone g' (List.mem_cons_of_mem _ hg') hc
          · rw [hname] at hc
            exact hnotin (hc ▸ List.mem_map_of_mem (f := Field.name) hg'))
        ms1 c1 li1
      refine ⟨done', li2, ?_, e1.trans e2, ms2, c2, pw.trans pw2⟩
      intro x
      rw [hiff x, hname]
      simp only [names, List.map_cons, List.mem_cons, Field.name]
      constructor
      · rintro ((h | h) | h)
        · exact Or.inl h
        · exact Or.inr (Or.inl h)
        · exact Or.inr (Or.inr h)
      · rintro (h | h | h)
        · exact Or.inl (Or.inl h)
        · exact Or.inl (Or.inr h)
        · exact Or.inr h

end Midgard.Dataset
