/-
Lemmas about `Midgard.Core.Text` (core Lean only).
-/
import Midgard.Core.Text

namespace Midgard.Text

theorem isSpace_blank : isSpace ' ' = true := by decide

@[simp] theorem length_blanks (n : Nat) : (blanks n).length = n := by simp [blanks]

theorem isBlank_blanks (n : Nat) : isBlank (blanks n) = true := by
  simp [isBlank, blanks, isSpace_blank]

/-! ### dropWhile over an all-blank prefix -/

theorem dropWhile_isBlank_append {ws s : Str} (h : isBlank ws = true) :
    (ws ++ s).dropWhile isSpace = s.dropWhile isSpace := by
  induction ws with
  | nil => rfl
  | cons c ws ih =>
    simp only [isBlank, List.all_cons, Bool.and_eq_true] at h
    simp only [List.cons_append, List.dropWhile_cons, h.1, if_true]
    exact ih (by simpa [isBlank] using h.2)

theorem isBlank_reverse {ws : Str} : isBlank ws.reverse = isBlank ws := by
  simp [isBlank, List.all_reverse]

theorem isBlank_append {a b : Str} : isBlank (a ++ b) = (isBlank a && isBlank b) := by
  simp [isBlank, List.all_append]

theorem lstrip_isBlank_append {ws s : Str} (h : isBlank ws = true) : lstrip (ws ++ s) = lstrip s :=
  dropWhile_isBlank_append h

theorem rstrip_append_isBlank {ws s : Str} (h : isBlank ws = true) : rstrip (s ++ ws) = rstrip s := by
  unfold rstrip
  rw [List.reverse_append, dropWhile_isBlank_append (by rw [isBlank_reverse]; exact h)]

theorem lstrip_isBlank {ws : Str} (h : isBlank ws = true) : lstrip ws = [] := by
  have := lstrip_isBlank_append (ws := ws) (s := []) h
  simpa [lstrip] using this

theorem rstrip_isBlank {ws : Str} (h : isBlank ws = true) : rstrip ws = [] := by
  have := rstrip_append_isBlank (ws := ws) (s := []) h
  simpa [rstrip] using this

theorem strip_isBlank {ws : Str} (h : isBlank ws = true) : strip ws = [] := by
  simp [strip, lstrip_isBlank h, rstrip]

/-! ### values without outer blanks -/

theorem lstrip_of_head {c : Char} {s : Str} (h : isSpace c = false) : lstrip (c :: s) = c :: s := by
  simp [lstrip, h]

theorem clean_lstrip {v : Str} (h : Clean v = true) : lstrip v = v := by
  cases v with
  | nil => rfl
  | cons c s =>
    simp only [Clean, Bool.and_eq_true, Bool.not_eq_eq_eq_not, Bool.not_true] at h
    exact lstrip_of_head h.1

theorem clean_rstrip {v : Str} (h : Clean v = true) : rstrip v = v := by
  cases v with
  | nil => rfl
  | cons c s =>
    simp only [Clean, Bool.and_eq_true, Bool.not_eq_eq_eq_not, Bool.not_true] at h
    have h2 := h.2
    unfold rstrip
    have hne : (c :: s).reverse ≠ [] := by simp
    cases hr : (c :: s).reverse with
    | nil => exact absurd hr hne
    | cons d r =>
      have hl : (c :: s).getLast? = some d := by
        rw [← List.head?_reverse, hr]; rfl
      rw [hl] at h2
      simp only [Option.getD_some] at h2
      rw [List.dropWhile_cons, h2]
      simp only [Bool.false_eq_true, if_false]
      rw [← hr, List.reverse_reverse]

theorem strip_of_clean {v : Str} (h : Clean v = true) : strip v = v := by
  unfold strip; rw [clean_lstrip h, clean_rstrip h]

theorem lstrip_append_of_ne_nil {v s : Str} (h : Clean v = true) (hne : v ≠ []) :
    lstrip (v ++ s) = v ++ s := by
  cases v with
  | nil => exact absurd rfl hne
  | cons c r =>
    simp only [Clean, Bool.and_eq_true, Bool.not_eq_eq_eq_not, Bool.not_true] at h
    exact lstrip_of_head h.1

/-- the heart of every fixed-column round trip: blanks around a clean value disappear -/
theorem strip_pad {v a b : Str} (hv : Clean v = true) (ha : isBlank a = true) (hb : isBlank b = true) :
    strip (a ++ v ++ b) = v := by
  unfold strip
  rw [List.append_assoc, lstrip_isBlank_append ha]
  by_cases hne : v = []
  · subst hne
    simp [lstrip_isBlank hb, rstrip]
  · rw [lstrip_append_of_ne_nil hv hne, rstrip_append_isBlank hb, clean_rstrip hv]

theorem strip_ljust {w : Nat} {v : Str} (hv : Clean v = true) : strip (ljust w v) = v := by
  have := strip_pad (a := []) (b := blanks (w - v.length)) hv rfl (isBlank_blanks _)
  simpa [ljust] using this

theorem strip_rjust {w : Nat} {v : Str} (hv : Clean v = true) : strip (rjust w v) = v := by
  have := strip_pad (a := blanks (w - v.length)) (b := []) hv (isBlank_blanks _) rfl
  simpa [rjust] using this

theorem length_ljust {w : Nat} {v : Str} (h : v.length ≤ w) : (ljust w v).length = w := by
  simp [ljust]; omega

theorem length_rjust {w : Nat} {v : Str} (h : v.length ≤ w) : (rjust w v).length = w := by
  simp [rjust]; omega

/-! ### strip produces clean text; idempotence -/

theorem dropWhile_head_not {p : Char → Bool} (s : Str) :
    ∀ c r, s.dropWhile p = c :: r → p c = false := by
  induction s with
  | nil => intro c r h; simp at h
  | cons d s ih =>
    intro c r h
    rw [List.dropWhile_cons] at h
    by_cases hd : p d = true
    · rw [if_pos hd] at h; exact ih c r h
    · rw [if_neg hd] at h
      cases h
      simpa using hd

theorem lstrip_idem (s : Str) : lstrip (lstrip s) = lstrip s := by
  unfold lstrip
  cases h : s.dropWhile isSpace with
  | nil => rfl
  | cons c r =>
    have := dropWhile_head_not s c r h
    simp [this]

theorem rstrip_idem (s : Str) : rstrip (rstrip s) = rstrip s := by
  unfold rstrip
  rw [List.reverse_reverse]
  have := lstrip_idem s.reverse
  unfold lstrip at this
  rw [this]

/-- `dropWhile` only removes a prefix -/
theorem dropWhile_suffix (p : Char → Bool) (s : Str) : ∃ pre, s = pre ++ s.dropWhile p ∧ pre.all p = true := by
  induction s with
  | nil => exact ⟨[], rfl, rfl⟩
  | cons c s ih =>
    rw [List.dropWhile_cons]
    by_cases hc : p c = true
    · obtain ⟨pre, h1, h2⟩ := ih
      refine ⟨c :: pre, ?_, ?_⟩
      · rw [if_pos hc]; simp; exact h1
      · simp [hc, h2]
    · exact ⟨[], by rw [if_neg hc]; rfl, rfl⟩

/-- `rstrip` only removes a blank suffix -/
theorem rstrip_decomp (s : Str) : ∃ ws, s = rstrip s ++ ws ∧ isBlank ws = true := by
  obtain ⟨pre, h1, h2⟩ := dropWhile_suffix isSpace s.reverse
  refine ⟨pre.reverse, ?_, ?_⟩
  · unfold rstrip
    have h := congrArg List.reverse h1
    simp only [List.reverse_reverse, List.reverse_append] at h
    exact h
  · rw [isBlank_reverse]; exact h2

theorem lstrip_decomp (s : Str) : ∃ ws, s = ws ++ lstrip s ∧ isBlank ws = true :=
  dropWhile_suffix isSpace s

/-- rstrip of text that starts with a non-blank keeps that start -/
theorem rstrip_cons_ne_nil {c : Char} {s : Str} (h : isSpace c = false) : rstrip (c :: s) ≠ [] := by
  intro hr
  obtain ⟨ws, h1, h2⟩ := rstrip_decomp (c :: s)
  rw [hr] at h1
  simp only [List.nil_append] at h1
  rw [← h1] at h2
  simp [isBlank, h] at h2

theorem lstrip_rstrip_comm_head {c : Char} {s : Str} (h : isSpace c = false) :
    ∃ r, rstrip (c :: s) = c :: r := by
  obtain ⟨ws, h1, _⟩ := rstrip_decomp (c :: s)
  cases hr : rstrip (c :: s) with
  | nil => exact absurd hr (rstrip_cons_ne_nil h)
  | cons d r =>
    rw [hr] at h1
    simp only [List.cons_append, List.cons.injEq] at h1
    exact ⟨r, by rw [h1.1]⟩

theorem strip_idem (s : Str) : strip (strip s) = strip s := by
  unfold strip
  cases h : lstrip s with
  | nil => simp [rstrip, lstrip]
  | cons c r =>
    have hc : isSpace c = false := dropWhile_head_not s c r h
    obtain ⟨r', hr'⟩ := lstrip_rstrip_comm_head (s := r) hc
    rw [hr', lstrip_of_head hc, ← hr', rstrip_idem]

/-! ### slicing -/

theorem slice_nil (a b : Nat) : slice a b [] = [] := by simp [slice]

theorem length_slice (a b : Nat) (s : Str) : (slice a b s).length = min b s.length - a := by
  simp [slice]

/-- slicing exactly one cell out of `pre ++ cell ++ post` -/
theorem slice_cell {pre cell post : Str} {a b : Nat} (ha : pre.length = a) (hb : a + cell.length = b) :
    slice a b (pre ++ cell ++ post) = cell := by
  unfold slice
  subst ha; subst hb
  rw [List.append_assoc, List.take_append, List.drop_append]
  simp

/-- a slice that ends inside the prefix ignores what follows -/
theorem slice_append_left {x y : Str} {a b : Nat} (hb : b ≤ x.length) :
    slice a b (x ++ y) = slice a b x := by
  unfold slice
  rw [List.take_append]
  have : b - x.length = 0 := by omega
  simp [this]

/-- a slice that starts after the prefix only sees what follows -/
theorem slice_append (x y : Str) (a b : Nat) :
    slice a b (x ++ y) = slice a b x ++ slice (a - x.length) (b - x.length) y := by
  unfold slice
  rw [List.take_append, List.drop_append]
  by_cases h : b ≤ x.length
  · have : b - x.length = 0 := by omega
    simp [this]
  · have : (List.take b x).length = x.length := by simp; omega
    rw [this]

theorem slice_append_right {x y : Str} {a b : Nat} (ha : x.length ≤ a) :
    slice a b (x ++ y) = slice (a - x.length) (b - x.length) y := by
  rw [slice_append]
  have : slice a b x = [] := by
    unfold slice
    apply List.drop_eq_nil_of_le; simp; omega
  simp [this]

theorem isBlank_take {s : Str} (h : isBlank s = true) (n : Nat) : isBlank (s.take n) = true := by
  simp only [isBlank, List.all_eq_true] at *
  intro c hc; exact h c (List.mem_of_mem_take hc)

theorem isBlank_drop {s : Str} (h : isBlank s = true) (n : Nat) : isBlank (s.drop n) = true := by
  simp only [isBlank, List.all_eq_true] at *
  intro c hc; exact h c (List.mem_of_mem_drop hc)

theorem isBlank_slice {s : Str} (h : isBlank s = true) (a b : Nat) : isBlank (slice a b s) = true :=
  isBlank_drop (isBlank_take h b) a

theorem strip_append_isBlank {s ws : Str} (h : isBlank ws = true) : strip (s ++ ws) = strip s := by
  obtain ⟨pre, h1, h2⟩ := lstrip_decomp s
  unfold strip
  cases hl : lstrip s with
  | nil =>
    rw [hl] at h1
    simp only [List.append_nil] at h1
    have hb : isBlank (s ++ ws) = true := by rw [isBlank_append, h1, h2, h]; rfl
    rw [lstrip_isBlank hb]
  | cons c r =>
    have hc : isSpace c = false := dropWhile_head_not s c r hl
    have : lstrip (s ++ ws) = c :: r ++ ws := by
      rw [h1, hl, List.append_assoc, lstrip_isBlank_append h2]
      exact lstrip_of_head hc
    rw [this, rstrip_append_isBlank h]

/-- "trailing blanks stripped": a field read from the rstripped line is the field read from the line -/
theorem strip_slice_rstrip (a b : Nat) (l : Str) : strip (slice a b (rstrip l)) = strip (slice a b l) := by
  obtain ⟨ws, h1, h2⟩ := rstrip_decomp l
  conv => rhs; rw [h1]
  rw [slice_append, strip_append_isBlank (isBlank_slice h2 _ _)]

/-- a line padded with blanks on the right reads the same in every column -/
theorem strip_slice_append_isBlank (a b : Nat) (l ws : Str) (h : isBlank ws = true) :
    strip (slice a b (l ++ ws)) = strip (slice a b l) := by
  rw [slice_append, strip_append_isBlank (isBlank_slice h _ _)]

end Midgard.Text
