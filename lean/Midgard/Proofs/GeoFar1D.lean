/-
C05 — the one-dimensional inequality of the far-field bound, `t³u³(|64 − 80t²| + ch) ≤ F·(c1 + t·c0)` for
`q²t² + u² = 1`, `0.9966 ≤ q ≤ 1`, by subdivision of `t ∈ (0, 1.0035]` (GENERATED; every interval is closed by `norm_num`).
-/
import Mathlib.Analysis.SpecialFunctions.Pow.Real
import Mathlib.Tactic.Linarith
import Mathlib.Tactic.Positivity
import Mathlib.Tactic.NormNum
namespace Midgard.Geo.Acc

/-- one interval `[t0, t1]`: `u² ≤ V`, `u ≤ U`, `|64 − 80t²| ≤ M` -/
theorem oneD_interval (t u q t0 t1 U V M c0 c1 ch F : ℝ) (ht0 : 0 ≤ t0) (h0 : t0 ≤ t) (h1 : t ≤ t1) (hu : 0 < u)
    (hq : 0.9966 ≤ q) (htu : q ^ 2 * t ^ 2 + u ^ 2 = 1) (hV : 1 - 0.9966 ^ 2 * t0 ^ 2 ≤ V) (hU0 : 0 ≤ U) (hUV : V ≤ U ^ 2)
    (hM0 : |64 - 80 * t0 ^ 2| ≤ M) (hM1 : |64 - 80 * t1 ^ 2| ≤ M) (hc0 : 0 ≤ c0) (hch : 0 ≤ ch) (hF : 0 ≤ F)
    (hcert : t1 ^ 3 * U * V * (M + ch) ≤ F * (c1 + t0 * c0)) :
    t ^ 3 * u ^ 3 * (|64 - 80 * t ^ 2| + ch) ≤ F * (c1 + t * c0) := by
  have ht : 0 ≤ t := le_trans ht0 h0
  have hq0 : (0:ℝ) ≤ 0.9966 := by norm_num
  have hu2 : u ^ 2 ≤ V := by
    have h2 : 0.9966 ^ 2 * t0 ^ 2 ≤ q ^ 2 * t ^ 2 :=
      mul_le_mul (pow_le_pow_left₀ hq0 hq 2) (pow_le_pow_left₀ ht0 h0 2) (by positivity) (by positivity)
    linarith
  have hV0 : 0 ≤ V := le_trans (sq_nonneg u) hu2
  have huU : u ≤ U := by
    have : u ^ 2 ≤ U ^ 2 := le_trans hu2 hUV
    exact (abs_le_of_sq_le_sq' this hU0).2
  have hu3 : u ^ 3 ≤ U * V := by
    have : u ^ 3 = u * u ^ 2 := by ring
    rw [this]; exact mul_le_mul huU hu2 (sq_nonneg u) hU0
  have ht3 : t ^ 3 ≤ t1 ^ 3 := pow_le_pow_left₀ ht h1 3
  have hM : |64 - 80 * t ^ 2| ≤ M := by
    have ha : t0 ^ 2 ≤ t ^ 2 := pow_le_pow_left₀ ht0 h0 2
    have hb : t ^ 2 ≤ t1 ^ 2 := pow_le_pow_left₀ ht h1 2
    obtain ⟨l0, u0⟩ := abs_le.1 hM0
    obtain ⟨l1, u1⟩ := abs_le.1 hM1
    rw [abs_le]; constructor <;> linarith
  have hM0' : 0 ≤ M := le_trans (abs_nonneg _) hM
  have ht1 : 0 ≤ t1 := le_trans ht h1
  have hu30 : 0 ≤ u ^ 3 := pow_nonneg hu.le 3
  have hl : t ^ 3 * u ^ 3 * (|64 - 80 * t ^ 2| + ch) ≤ t1 ^ 3 * (U * V) * (M + ch) :=
    mul_le_mul (mul_le_mul ht3 hu3 hu30 (pow_nonneg ht1 3)) (by linarith) (add_nonneg (abs_nonneg _) hch)
      (mul_nonneg (pow_nonneg ht1 3) (mul_nonneg hU0 hV0))
  have hr : F * (c1 + t0 * c0) ≤ F * (c1 + t * c0) := by
    apply mul_le_mul_of_nonneg_left _ hF
    have := mul_le_mul_of_nonneg_right h0 hc0
    linarith
  calc _ ≤ t1 ^ 3 * (U * V) * (M + ch) := hl
    _ = t1 ^ 3 * U * V * (M + ch) := by ring
    _ ≤ _ := hcert
    _ ≤ _ := hr

/-- box `a`: `c0 = 1.9191`, `c1 = 1.9265`, `ch = 3.991`, `F = 2.2` (10 intervals) -/
theorem oneD_a (t u q : ℝ) (ht : 0 < t) (ht' : t ≤ 1.0035) (hu : 0 < u) (hq : 0.9966 ≤ q)
    (htu : q ^ 2 * t ^ 2 + u ^ 2 = 1) :
    t ^ 3 * u ^ 3 * (|64 - 80 * t ^ 2| + (3991 / 1000 : ℝ)) ≤ (11 / 5 : ℝ) * ((3853 / 2000 : ℝ) + t * (19191 / 10000 : ℝ)) := by
  have hlo0 : (0:ℝ) ≤ t := ht.le
  by_cases h0 : t ≤ (1 / 8 : ℝ)
  · exact oneD_interval t u q (0 : ℝ) (1 / 8 : ℝ) (1 : ℝ) (1 : ℝ) (64 : ℝ) (19191 / 10000 : ℝ) (3853 / 2000 : ℝ) (3991 / 1000 : ℝ) (11 / 5 : ℝ) (by norm_num) hlo0 h0 hu hq htu (by norm_num) (by norm_num) (by norm_num) (by rw [abs_le]; constructor <;> norm_num) (by rw [abs_le]; constructor <;> norm_num) (by norm_num) (by norm_num) (by norm_num) (by norm_num)
  have g0 : (1 / 8 : ℝ) ≤ t := (not_le.1 h0).le
  by_cases h1 : t ≤ (1 / 4 : ℝ)
  · exact oneD_interval t u q (1 / 8 : ℝ) (1 / 4 : ℝ) (992211 / 1000000 : ℝ) (1575169711 / 1600000000 : ℝ) (251 / 4 : ℝ) (19191 / 10000 : ℝ) (3853 / 2000 : ℝ) (3991 / 1000 : ℝ) (11 / 5 : ℝ) (by norm_num) g0 h1 hu hq htu (by norm_num) (by norm_num) (by norm_num) (by rw [abs_le]; constructor <;> norm_num) (by rw [abs_le]; constructor <;> norm_num) (by norm_num) (by norm_num) (by norm_num) (by norm_num)
  have g1 : (1 / 4 : ℝ) ≤ t := (not_le.1 h1).le
  by_cases h2 : t ≤ (3 / 8 : ℝ)
  · exact oneD_interval t u q (1 / 4 : ℝ) (3 / 8 : ℝ) (193693 / 200000 : ℝ) (375169711 / 400000000 : ℝ) (59 : ℝ) (19191 / 10000 : ℝ) (3853 / 2000 : ℝ) (3991 / 1000 : ℝ) (11 / 5 : ℝ) (by norm_num) g1 h2 hu hq htu (by norm_num) (by norm_num) (by norm_num) (by rw [abs_le]; constructor <;> norm_num) (by rw [abs_le]; constructor <;> norm_num) (by norm_num) (by norm_num) (by norm_num) (by norm_num)
  have g2 : (3 / 8 : ℝ) ≤ t := (not_le.1 h2).le
  by_cases h3 : t ≤ (1 / 2 : ℝ)
  · exact oneD_interval t u q (3 / 8 : ℝ) (1 / 2 : ℝ) (46377 / 50000 : ℝ) (1376527399 / 1600000000 : ℝ) (211 / 4 : ℝ) (19191 / 10000 : ℝ) (3853 / 2000 : ℝ) (3991 / 1000 : ℝ) (11 / 5 : ℝ) (by norm_num) g2 h3 hu hq htu (by norm_num) (by norm_num) (by norm_num) (by rw [abs_le]; constructor <;> norm_num) (by rw [abs_le]; constructor <;> norm_num) (by norm_num) (by norm_num) (by norm_num) (by norm_num)
  have g3 : (1 / 2 : ℝ) ≤ t := (not_le.1 h3).le
  by_cases h4 : t ≤ (9 / 16 : ℝ)
  · exact oneD_interval t u q (1 / 2 : ℝ) (9 / 16 : ℝ) (173401 / 200000 : ℝ) (75169711 / 100000000 : ℝ) (44 : ℝ) (19191 / 10000 : ℝ) (3853 / 2000 : ℝ) (3991 / 1000 : ℝ) (11 / 5 : ℝ) (by norm_num) g3 h4 hu hq htu (by norm_num) (by norm_num) (by norm_num) (by rw [abs_le]; constructor <;> norm_num) (by rw [abs_le]; constructor <;> norm_num) (by norm_num) (by norm_num) (by norm_num) (by norm_num)
  have g4 : (9 / 16 : ℝ) ≤ t := (not_le.1 h4).le
  by_cases h5 : t ≤ (5 / 8 : ℝ)
  · exact oneD_interval t u q (9 / 16 : ℝ) (5 / 8 : ℝ) (12939 / 15625 : ℝ) (4388746591 / 6400000000 : ℝ) (619 / 16 : ℝ) (19191 / 10000 : ℝ) (3853 / 2000 : ℝ) (3991 / 1000 : ℝ) (11 / 5 : ℝ) (by norm_num) g4 h5 hu hq htu (by norm_num) (by norm_num) (by norm_num) (by rw [abs_le]; constructor <;> norm_num) (by rw [abs_le]; constructor <;> norm_num) (by norm_num) (by norm_num) (by norm_num) (by norm_num)
  have g5 : (5 / 8 : ℝ) ≤ t := (not_le.1 h5).le
  by_cases h6 : t ≤ (11 / 16 : ℝ)
  · exact oneD_interval t u q (5 / 8 : ℝ) (11 / 16 : ℝ) (391161 / 500000 : ℝ) (39169711 / 64000000 : ℝ) (131 / 4 : ℝ) (19191 / 10000 : ℝ) (3853 / 2000 : ℝ) (3991 / 1000 : ℝ) (11 / 5 : ℝ) (by norm_num) g5 h6 hu hq htu (by norm_num) (by norm_num) (by norm_num) (by rw [abs_le]; constructor <;> norm_num) (by rw [abs_le]; constructor <;> norm_num) (by norm_num) (by norm_num) (by norm_num) (by norm_num)
  have g6 : (11 / 16 : ℝ) ≤ t := (not_le.1 h6).le
  by_cases h7 : t ≤ (13 / 16 : ℝ)
  · exact oneD_interval t u q (11 / 16 : ℝ) (13 / 16 : ℝ) (728391 / 1000000 : ℝ) (3395535031 / 6400000000 : ℝ) (419 / 16 : ℝ) (19191 / 10000 : ℝ) (3853 / 2000 : ℝ) (3991 / 1000 : ℝ) (11 / 5 : ℝ) (by norm_num) g6 h7 hu hq htu (by norm_num) (by norm_num) (by norm_num) (by rw [abs_le]; constructor <;> norm_num) (by rw [abs_le]; constructor <;> norm_num) (by norm_num) (by norm_num) (by norm_num) (by norm_num)
  have g7 : (13 / 16 : ℝ) ≤ t := (not_le.1 h7).le
  by_cases h8 : t ≤ (15 / 16 : ℝ)
  · exact oneD_interval t u q (13 / 16 : ℝ) (15 / 16 : ℝ) (586793 / 1000000 : ℝ) (2203681159 / 6400000000 : ℝ) (179 / 16 : ℝ) (19191 / 10000 : ℝ) (3853 / 2000 : ℝ) (3991 / 1000 : ℝ) (11 / 5 : ℝ) (by norm_num) g7 h8 hu hq htu (by norm_num) (by norm_num) (by norm_num) (by rw [abs_le]; constructor <;> norm_num) (by rw [abs_le]; constructor <;> norm_num) (by norm_num) (by norm_num) (by norm_num) (by norm_num)
  have g8 : (15 / 16 : ℝ) ≤ t := (not_le.1 h8).le
  exact oneD_interval t u q (15 / 16 : ℝ) (2007 / 2000 : ℝ) (71291 / 200000 : ℝ) (32527399 / 256000000 : ℝ) (828049 / 50000 : ℝ) (19191 / 10000 : ℝ) (3853 / 2000 : ℝ) (3991 / 1000 : ℝ) (11 / 5 : ℝ) (by norm_num) g8 (by linarith) hu hq htu (by norm_num) (by norm_num) (by norm_num) (by rw [abs_le]; constructor <;> norm_num) (by rw [abs_le]; constructor <;> norm_num) (by norm_num) (by norm_num) (by norm_num) (by norm_num)

/-- box `b`: `c0 = 1.939`, `c1 = 1.9788`, `ch = 2.108`, `F = 1.55` (18 intervals) -/
theorem oneD_b (t u q : ℝ) (ht : 0 < t) (ht' : t ≤ 1.0035) (hu : 0 < u) (hq : 0.9966 ≤ q)
    (htu : q ^ 2 * t ^ 2 + u ^ 2 = 1) :
    t ^ 3 * u ^ 3 * (|64 - 80 * t ^ 2| + (527 / 250 : ℝ)) ≤ (31 / 20 : ℝ) * ((4947 / 2500 : ℝ) + t * (1939 / 1000 : ℝ)) := by
  have hlo0 : (0:ℝ) ≤ t := ht.le
  by_cases h0 : t ≤ (1 / 8 : ℝ)
  · exact oneD_interval t u q (0 : ℝ) (1 / 8 : ℝ) (1 : ℝ) (1 : ℝ) (64 : ℝ) (1939 / 1000 : ℝ) (4947 / 2500 : ℝ) (527 / 250 : ℝ) (31 / 20 : ℝ) (by norm_num) hlo0 h0 hu hq htu (by norm_num) (by norm_num) (by norm_num) (by rw [abs_le]; constructor <;> norm_num) (by rw [abs_le]; constructor <;> norm_num) (by norm_num) (by norm_num) (by norm_num) (by norm_num)
  have g0 : (1 / 8 : ℝ) ≤ t := (not_le.1 h0).le
  by_cases h1 : t ≤ (1 / 4 : ℝ)
  · exact oneD_interval t u q (1 / 8 : ℝ) (1 / 4 : ℝ) (992211 / 1000000 : ℝ) (1575169711 / 1600000000 : ℝ) (251 / 4 : ℝ) (1939 / 1000 : ℝ) (4947 / 2500 : ℝ) (527 / 250 : ℝ) (31 / 20 : ℝ) (by norm_num) g0 h1 hu hq htu (by norm_num) (by norm_num) (by norm_num) (by rw [abs_le]; constructor <;> norm_num) (by rw [abs_le]; constructor <;> norm_num) (by norm_num) (by norm_num) (by norm_num) (by norm_num)
  have g1 : (1 / 4 : ℝ) ≤ t := (not_le.1 h1).le
  by_cases h2 : t ≤ (3 / 8 : ℝ)
  · exact oneD_interval t u q (1 / 4 : ℝ) (3 / 8 : ℝ) (193693 / 200000 : ℝ) (375169711 / 400000000 : ℝ) (59 : ℝ) (1939 / 1000 : ℝ) (4947 / 2500 : ℝ) (527 / 250 : ℝ) (31 / 20 : ℝ) (by norm_num) g1 h2 hu hq htu (by norm_num) (by norm_num) (by norm_num) (by rw [abs_le]; constructor <;> norm_num) (by rw [abs_le]; constructor <;> norm_num) (by norm_num) (by norm_num) (by norm_num) (by norm_num)
  have g2 : (3 / 8 : ℝ) ≤ t := (not_le.1 h2).le
  by_cases h3 : t ≤ (7 / 16 : ℝ)
  · exact oneD_interval t u q (3 / 8 : ℝ) (7 / 16 : ℝ) (46377 / 50000 : ℝ) (1376527399 / 1600000000 : ℝ) (211 / 4 : ℝ) (1939 / 1000 : ℝ) (4947 / 2500 : ℝ) (527 / 250 : ℝ) (31 / 20 : ℝ) (by norm_num) g2 h3 hu hq htu (by norm_num) (by norm_num) (by norm_num) (by rw [abs_le]; constructor <;> norm_num) (by rw [abs_le]; constructor <;> norm_num) (by norm_num) (by norm_num) (by norm_num) (by norm_num)
  have g3 : (7 / 16 : ℝ) ≤ t := (not_le.1 h3).le
  by_cases h4 : t ≤ (15 / 32 : ℝ)
  · exact oneD_interval t u q (7 / 16 : ℝ) (15 / 32 : ℝ) (899941 / 1000000 : ℝ) (5183315839 / 6400000000 : ℝ) (779 / 16 : ℝ) (1939 / 1000 : ℝ) (4947 / 2500 : ℝ) (527 / 250 : ℝ) (31 / 20 : ℝ) (by norm_num) g3 h4 hu hq htu (by norm_num) (by norm_num) (by norm_num) (by rw [abs_le]; constructor <;> norm_num) (by rw [abs_le]; constructor <;> norm_num) (by norm_num) (by norm_num) (by norm_num) (by norm_num)
  have g4 : (15 / 32 : ℝ) ≤ t := (not_le.1 h4).le
  by_cases h5 : t ≤ (1 / 2 : ℝ)
  · exact oneD_interval t u q (15 / 32 : ℝ) (1 / 2 : ℝ) (35367 / 40000 : ℝ) (800527399 / 1024000000 : ℝ) (2971 / 64 : ℝ) (1939 / 1000 : ℝ) (4947 / 2500 : ℝ) (527 / 250 : ℝ) (31 / 20 : ℝ) (by norm_num) g4 h5 hu hq htu (by norm_num) (by norm_num) (by norm_num) (by rw [abs_le]; constructor <;> norm_num) (by rw [abs_le]; constructor <;> norm_num) (by norm_num) (by norm_num) (by norm_num) (by norm_num)
  have g5 : (1 / 2 : ℝ) ≤ t := (not_le.1 h5).le
  by_cases h6 : t ≤ (17 / 32 : ℝ)
  · exact oneD_interval t u q (1 / 2 : ℝ) (17 / 32 : ℝ) (173401 / 200000 : ℝ) (75169711 / 100000000 : ℝ) (44 : ℝ) (1939 / 1000 : ℝ) (4947 / 2500 : ℝ) (527 / 250 : ℝ) (31 / 20 : ℝ) (by norm_num) g5 h6 hu hq htu (by norm_num) (by norm_num) (by norm_num) (by rw [abs_le]; constructor <;> norm_num) (by rw [abs_le]; constructor <;> norm_num) (by norm_num) (by norm_num) (by norm_num) (by norm_num)
  have g6 : (17 / 32 : ℝ) ≤ t := (not_le.1 h6).le
  by_cases h7 : t ≤ (35 / 64 : ℝ)
  · exact oneD_interval t u q (17 / 32 : ℝ) (35 / 64 : ℝ) (424173 / 500000 : ℝ) (18424046479 / 25600000000 : ℝ) (2651 / 64 : ℝ) (1939 / 1000 : ℝ) (4947 / 2500 : ℝ) (527 / 250 : ℝ) (31 / 20 : ℝ) (by norm_num) g6 h7 hu hq htu (by norm_num) (by norm_num) (by norm_num) (by rw [abs_le]; constructor <;> norm_num) (by rw [abs_le]; constructor <;> norm_num) (by norm_num) (by norm_num) (by norm_num) (by norm_num)
  have g7 : (35 / 64 : ℝ) ≤ t := (not_le.1 h7).le
  by_cases h8 : t ≤ (9 / 16 : ℝ)
  · exact oneD_interval t u q (35 / 64 : ℝ) (9 / 16 : ℝ) (419213 / 500000 : ℝ) (2879315839 / 4096000000 : ℝ) (10259 / 256 : ℝ) (1939 / 1000 : ℝ) (4947 / 2500 : ℝ) (527 / 250 : ℝ) (31 / 20 : ℝ) (by norm_num) g7 h8 hu hq htu (by norm_num) (by norm_num) (by norm_num) (by rw [abs_le]; constructor <;> norm_num) (by rw [abs_le]; constructor <;> norm_num) (by norm_num) (by norm_num) (by norm_num) (by norm_num)
  have g8 : (9 / 16 : ℝ) ≤ t := (not_le.1 h8).le
  by_cases h9 : t ≤ (37 / 64 : ℝ)
  · exact oneD_interval t u q (9 / 16 : ℝ) (37 / 64 : ℝ) (12939 / 15625 : ℝ) (4388746591 / 6400000000 : ℝ) (619 / 16 : ℝ) (1939 / 1000 : ℝ) (4947 / 2500 : ℝ) (527 / 250 : ℝ) (31 / 20 : ℝ) (by norm_num) g8 h9 hu hq htu (by norm_num) (by norm_num) (by norm_num) (by rw [abs_le]; constructor <;> norm_num) (by rw [abs_le]; constructor <;> norm_num) (by norm_num) (by norm_num) (by norm_num) (by norm_num)
  have g9 : (37 / 64 : ℝ) ≤ t := (not_le.1 h9).le
  by_cases h10 : t ≤ (19 / 32 : ℝ)
  · exact oneD_interval t u q (37 / 64 : ℝ) (19 / 32 : ℝ) (408669 / 500000 : ℝ) (68407334359 / 102400000000 : ℝ) (9539 / 256 : ℝ) (1939 / 1000 : ℝ) (4947 / 2500 : ℝ) (527 / 250 : ℝ) (31 / 20 : ℝ) (by norm_num) g9 h10 hu hq htu (by norm_num) (by norm_num) (by norm_num) (by rw [abs_le]; constructor <;> norm_num) (by rw [abs_le]; constructor <;> norm_num) (by norm_num) (by norm_num) (by norm_num) (by norm_num)
  have g10 : (19 / 32 : ℝ) ≤ t := (not_le.1 h10).le
  by_cases h11 : t ≤ (5 / 8 : ℝ)
  · exact oneD_interval t u q (19 / 32 : ℝ) (5 / 8 : ℝ) (100767 / 125000 : ℝ) (16636265671 / 25600000000 : ℝ) (2291 / 64 : ℝ) (1939 / 1000 : ℝ) (4947 / 2500 : ℝ) (527 / 250 : ℝ) (31 / 20 : ℝ) (by norm_num) g10 h11 hu hq htu (by norm_num) (by norm_num) (by norm_num) (by rw [abs_le]; constructor <;> norm_num) (by rw [abs_le]; constructor <;> norm_num) (by norm_num) (by norm_num) (by norm_num) (by norm_num)
  have g11 : (5 / 8 : ℝ) ≤ t := (not_le.1 h11).le
  by_cases h12 : t ≤ (21 / 32 : ℝ)
  · exact oneD_interval t u q (5 / 8 : ℝ) (21 / 32 : ℝ) (391161 / 500000 : ℝ) (39169711 / 64000000 : ℝ) (131 / 4 : ℝ) (1939 / 1000 : ℝ) (4947 / 2500 : ℝ) (527 / 250 : ℝ) (31 / 20 : ℝ) (by norm_num) g11 h12 hu hq htu (by norm_num) (by norm_num) (by norm_num) (by rw [abs_le]; constructor <;> norm_num) (by rw [abs_le]; constructor <;> norm_num) (by norm_num) (by norm_num) (by norm_num) (by norm_num)
  have g12 : (21 / 32 : ℝ) ≤ t := (not_le.1 h12).le
  by_cases h13 : t ≤ (11 / 16 : ℝ)
  · exact oneD_interval t u q (21 / 32 : ℝ) (11 / 16 : ℝ) (756479 / 1000000 : ℝ) (14649842551 / 25600000000 : ℝ) (1891 / 64 : ℝ) (1939 / 1000 : ℝ) (4947 / 2500 : ℝ) (527 / 250 : ℝ) (31 / 20 : ℝ) (by norm_num) g12 h13 hu hq htu (by norm_num) (by norm_num) (by norm_num) (by rw [abs_le]; constructor <;> norm_num) (by rw [abs_le]; constructor <;> norm_num) (by norm_num) (by norm_num) (by norm_num) (by norm_num)
  have g13 : (11 / 16 : ℝ) ≤ t := (not_le.1 h13).le
  by_cases h14 : t ≤ (3 / 4 : ℝ)
  · exact oneD_interval t u q (11 / 16 : ℝ) (3 / 4 : ℝ) (728391 / 1000000 : ℝ) (3395535031 / 6400000000 : ℝ) (419 / 16 : ℝ) (1939 / 1000 : ℝ) (4947 / 2500 : ℝ) (527 / 250 : ℝ) (31 / 20 : ℝ) (by norm_num) g13 h14 hu hq htu (by norm_num) (by norm_num) (by norm_num) (by rw [abs_le]; constructor <;> norm_num) (by rw [abs_le]; constructor <;> norm_num) (by norm_num) (by norm_num) (by norm_num) (by norm_num)
  have g14 : (3 / 4 : ℝ) ≤ t := (not_le.1 h14).le
  by_cases h15 : t ≤ (7 / 8 : ℝ)
  · exact oneD_interval t u q (3 / 4 : ℝ) (7 / 8 : ℝ) (664319 / 1000000 : ℝ) (176527399 / 400000000 : ℝ) (19 : ℝ) (1939 / 1000 : ℝ) (4947 / 2500 : ℝ) (527 / 250 : ℝ) (31 / 20 : ℝ) (by norm_num) g14 h15 hu hq htu (by norm_num) (by norm_num) (by norm_num) (by rw [abs_le]; constructor <;> norm_num) (by rw [abs_le]; constructor <;> norm_num) (by norm_num) (by norm_num) (by norm_num) (by norm_num)
  have g15 : (7 / 8 : ℝ) ≤ t := (not_le.1 h15).le
  by_cases h16 : t ≤ (1 : ℝ)
  · exact oneD_interval t u q (7 / 8 : ℝ) (1 : ℝ) (244731 / 500000 : ℝ) (383315839 / 1600000000 : ℝ) (16 : ℝ) (1939 / 1000 : ℝ) (4947 / 2500 : ℝ) (527 / 250 : ℝ) (31 / 20 : ℝ) (by norm_num) g15 h16 hu hq htu (by norm_num) (by norm_num) (by norm_num) (by rw [abs_le]; constructor <;> norm_num) (by rw [abs_le]; constructor <;> norm_num) (by norm_num) (by norm_num) (by norm_num) (by norm_num)
  have g16 : (1 : ℝ) ≤ t := (not_le.1 h16).le
  exact oneD_interval t u q (1 : ℝ) (2007 / 2000 : ℝ) (10299 / 125000 : ℝ) (169711 / 25000000 : ℝ) (828049 / 50000 : ℝ) (1939 / 1000 : ℝ) (4947 / 2500 : ℝ) (527 / 250 : ℝ) (31 / 20 : ℝ) (by norm_num) g16 (by linarith) hu hq htu (by norm_num) (by norm_num) (by norm_num) (by rw [abs_le]; constructor <;> norm_num) (by rw [abs_le]; constructor <;> norm_num) (by norm_num) (by norm_num) (by norm_num) (by norm_num)

end Midgard.Geo.Acc
