/-
Helper lemmas for C19 (text round trip), part C: the lines of the whole text `as_str` writes, and
what the `ConfigParser` model reads from them, section by section.  Mathlib-free.
-/
import Midgard.Proofs.ConfigReadDoc

namespace Midgard.Proofs.ConfigText
open Midgard.Config

/-! ### Lines of a text -/

/-- every line followed by a line break -/
def linesText (ls : List (List Char)) : List Char := ls.flatMap (fun l => l ++ ['\n'])

theorem linesText_append (a b : List (List Char)) : linesText (a ++ b) = linesText a ++ linesText b := by
  simp [linesText, List.flatMap_append]

theorem linesText_cons (l : List Char) (t : List (List Char)) : linesText (l :: t) = l ++ '\n' :: linesText t := by
  simp [linesText]

theorem splitLines_ne_nil (t : List Char) : ∃ a b, splitLines t = a :: b := by
  induction t with
  | nil => exact ⟨[], [], rfl⟩
  | cons c r ih =>
    obtain ⟨a, b, h⟩ := ih
    simp only [splitLines, h]
    split <;> exact ⟨_, _, rfl⟩

theorem splitLines_line (l r : List Char) (h : '\n' ∉ l) : splitLines (l ++ '\n' :: r) = l :: splitLines r := by
  induction l with
  | nil =>
    obtain ⟨a, b, hab⟩ := splitLines_ne_nil r
    simp [splitLines, hab]
  | cons c t ih =>
    have hc : c ≠ '\n' := by intro e; subst e; simp at h
    have ht := ih (fun hm => h (List.mem_cons_of_mem _ hm))
    simp only [List.cons_append, splitLines, ht, hc, if_false]

/-- splitting a text of terminated lines gives the lines back, and the empty rest after the last break -/
theorem splitLines_linesText (ls : List (List Char)) (h : ∀ l ∈ ls, '\n' ∉ l) :
    splitLines (linesText ls) = ls ++ [[]] := by
  induction ls with
  | nil => rfl
  | cons l t ih =>
    rw [linesText_cons, splitLines_line l _ (h l (by simp)), ih (fun x hx => h x (List.mem_cons_of_mem _ hx))]
    rfl

theorem joinLines_cons2 (l l' : List Char) (t : List (List Char)) :
    joinLines (l :: l' :: t) = l ++ '\n' :: joinLines (l' :: t) := rfl

theorem joinLines_nl (L : List (List Char)) (h : L ≠ []) : joinLines L ++ ['\n'] = linesText L := by
  induction L with
  | nil => exact absurd rfl h
  | cons l t ih =>
    cases t with
    | nil => simp [joinLines, linesText]
    | cons l' t' =>
      rw [joinLines_cons2, linesText_cons, ← ih (by simp)]
      simp

theorem joinLines_join_nl (X : List (List (List Char))) (hX : X ≠ []) (hne : ∀ x ∈ X, x ≠ []) :
    joinLines (X.map joinLines) ++ ['\n'] = linesText X.flatten := by
  induction X with
  | nil => exact absurd rfl hX
  | cons x t ih =>
    cases t with
    | nil =>
      simp only [List.map_cons, List.map_nil, List.flatten_cons, List.flatten_nil, List.append_nil]
      exact joinLines_nl x (hne x (by simp))
    | cons y t' =>
      have h1 := ih (by simp) (fun z hz => hne z (List.mem_cons_of_mem _ hz))
      have h2 := joinLines_nl x (hne x (by simp))
      simp only [List.map_cons] at h1 ⊢
      rw [joinLines_cons2, List.flatten_cons, linesText_append, ← h2, ← h1]
      simp

/-- the lines between two section texts: `"\n\n\n".join` -/
def sepLines : List (List (List Char)) → List (List Char)
  | [] => []
  | [L] => L
  | L :: r => L ++ [[], []] ++ sepLines r

theorem sepLines_cons2 (L L' : List (List Char)) (r : List (List (List Char))) :
    sepLines (L :: L' :: r) = L ++ [[], []] ++ sepLines (L' :: r) := rfl

theorem joinWith_cons2 (sep l l' : List Char) (t : List (List Char)) :
    joinWith sep (l :: l' :: t) = l ++ sep ++ joinWith sep (l' :: t) := rfl

theorem joinWith_nl {α} (T : α → List Char) (Lf : α → List (List Char)) (xs : List α) (hx : xs ≠ [])
    (h : ∀ x ∈ xs, T x ++ ['\n'] = linesText (Lf x)) :
    joinWith ['\n', '\n', '\n'] (xs.map T) ++ ['\n'] = linesText (sepLines (xs.map Lf)) := by
  induction xs with
  | nil => exact absurd rfl hx
  | cons x t ih =>
    cases t with
    | nil => simpa [joinWith, sepLines] using h x (by simp)
    | cons y t' =>
      have h1 := ih (by simp) (fun z hz => h z (List.mem_cons_of_mem _ hz))
      have h2 := h x (by simp)
      simp only [List.map_cons] at h1 ⊢
      rw [joinWith_cons2, sepLines_cons2, linesText_append, linesText_append, ← h1, ← h2]
      simp [linesText]

/-! ### Characters of the lines of an item -/

theorem mem_unwords (c : Char) (g : List (List Char)) (h : c ∈ unwords g) : c = ' ' ∨ ∃ x ∈ g, c ∈ x := by
  cases g with
  | nil => simp [unwords] at h
  | cons x t =>
    simp only [unwords, List.mem_append, List.mem_flatMap] at h
    rcases h with h | ⟨y, hy, h⟩
    · exact Or.inr ⟨x, by simp, h⟩
    · rcases List.mem_cons.1 h with h | h
      · exact Or.inl h
      · exact Or.inr ⟨y, List.mem_cons_of_mem _ hy, h⟩

theorem nl_blank : isBlank '\n' = true := by decide

theorem noNL_unwords (g : List (List Char)) (hw : ∀ x ∈ g, WordOK x) : '\n' ∉ unwords g := by
  intro h
  rcases mem_unwords _ g h with h | ⟨x, hx, h⟩
  · exact absurd h (by decide)
  · have := (hw x hx).2 _ h
    rw [nl_blank] at this; simp at this

theorem noNL_key {lower : Bool} {k : List Char} (hk : KeyOK lower k) : '\n' ∉ k := by
  intro h
  have := (hk.2.1 _ h).1
  rw [nl_blank] at this; simp at this

theorem noNL_firstLine (lower : Bool) (kw : Nat) (key : List Char) (g0 : List (List Char))
    (hk : KeyOK lower key) (hw : ∀ x ∈ g0, WordOK x) : '\n' ∉ firstLine kw key g0 := by
  intro h
  simp only [firstLine, List.mem_append, List.mem_cons, List.mem_flatMap] at h
  rcases h with (h | h) | h | ⟨x, hx, h | h⟩
  · exact noNL_key hk h
  · have := (isSpaces_pad kw key).2 _ h; exact absurd this (by decide)
  · exact absurd h (by decide)
  · exact absurd h (by decide)
  · have := (hw x hx).2 _ h
    rw [nl_blank] at this; simp at this

theorem noNL_contLine (hang : Nat) (g : List (List Char)) (hw : ∀ x ∈ g, WordOK x) : '\n' ∉ contLine hang g := by
  intro h
  simp only [contLine, List.mem_append, List.mem_replicate] at h
  rcases h with h | h
  · exact absurd h.2 (by decide)
  · exact noNL_unwords g hw h

/-- the shape of the lines of one item (the content of `read_item`, without the reader) -/
theorem itemLines_shape (lower : Bool) (w kw : Nat) (it : Item) (hok : ItemOK lower w kw it) :
    (it.value = none ∧ itemLines w kw it = [it.key]) ∨
    (∃ (ws g0 : List (List Char)) (gr : List (List (List Char))), it.value = some ws ∧ (∀ g ∈ gr, g ≠ []) ∧ g0 ++ gr.flatten = ws ∧
      itemLines w kw it = firstLine kw it.key g0 :: gr.map (contLine (kw + 3))) := by
  obtain ⟨key, value⟩ := it
  obtain ⟨hkey, hval⟩ := hok
  simp only at hkey hval
  cases value with
  | none =>
    left
    exact ⟨rfl, by simp only [itemLines, fill_single_word w (kw + 3) key hkey.isWord hkey.noCtl]⟩
  | some ws =>
    right
    obtain ⟨hfit, hws⟩ := hval ws rfl
    have hwso : ∀ x ∈ ws, WordOK x := fun x hx => (hws x hx).1
    cases ws with
    | nil =>
      refine ⟨[], [], [], rfl, by simp, by simp, ?_⟩
      simpa [itemLines, unwords] using fill_empty_value w kw key hkey.isWord hkey.noCtl hfit
    | cons w1 t =>
      obtain ⟨g0, gr, h1, h2, h3⟩ := fill_entry_lines w kw key w1 t hkey.isWord (fun x hx => (hwso x hx).isWord)
        (noCtl_entryText kw key (w1 :: t) hkey.noCtl hwso) hfit
      exact ⟨w1 :: t, g0, gr, rfl, h1, h2, by simpa [itemLines] using h3⟩

theorem itemLines_noNL (lower : Bool) (w kw : Nat) (it : Item) (hok : ItemOK lower w kw it) :
    ∀ l ∈ itemLines w kw it, '\n' ∉ l := by
  intro l hl
  rcases itemLines_shape lower w kw it hok with ⟨_, h⟩ | ⟨ws, g0, gr, hv, _, hg, h⟩
  · rw [h] at hl; simp at hl; subst hl; exact noNL_key hok.1
  · have hwso : ∀ x ∈ ws, WordOK x := fun x hx => ((hok.2 ws hv).2 x hx).1
    rw [h] at hl
    rcases List.mem_cons.1 hl with hl | hl
    · subst hl
      exact noNL_firstLine lower kw it.key g0 hok.1 (fun x hx => hwso x (by rw [← hg]; simp [hx]))
    · obtain ⟨g, hgm, rfl⟩ := List.mem_map.1 hl
      exact noNL_contLine _ g (fun x hx => hwso x (by
        rw [← hg]; exact List.mem_append_right _ (List.mem_flatten.2 ⟨g, hgm, hx⟩)))

theorem itemLines_ne_nil (lower : Bool) (w kw : Nat) (it : Item) (hok : ItemOK lower w kw it) :
    itemLines w kw it ≠ [] := by
  rcases itemLines_shape lower w kw it hok with ⟨_, h⟩ | ⟨_, _, _, _, _, _, h⟩ <;> rw [h] <;> simp

/-! ### Sections of a file -/

/-- the header line of a section -/
def headerText (n : String) : List Char := '[' :: n.toList ++ [']']

/-- the lines of a file given as sections of blocks -/
def fileLines (w kw : Nat) (secs : List (String × List Block)) : List (List Char) :=
  secs.flatMap (fun sb => headerText sb.1 :: sb.2.flatMap (blockLines w kw))

/-- the sections read so far correspond, one to one and in order, to the sections written -/
def RawSecs : List (String × List RawOpt) → List (String × List Item) → Prop
  | [], [] => True
  | r :: rs, s :: ss => r.1 = s.1 ∧ RawItems r.2 s.2 ∧ RawSecs rs ss
  | _, _ => False

theorem rawSecs_snoc (rs : List (String × List RawOpt)) (ss : List (String × List Item))
    (r : String × List RawOpt) (s : String × List Item)
    (h : RawSecs rs ss) (h1 : r.1 = s.1) (h2 : RawItems r.2 s.2) : RawSecs (rs ++ [r]) (ss ++ [s]) := by
  induction rs generalizing ss with
  | nil => cases ss with
    | nil => exact ⟨h1, h2, trivial⟩
    | cons a t => exact absurd h (by simp [RawSecs])
  | cons x xs ih => cases ss with
    | nil => exact absurd h (by simp [RawSecs])
    | cons a t => exact ⟨h.1, h.2.1, ih t h.2.2⟩

theorem rawSecs_names (rs : List (String × List RawOpt)) (ss : List (String × List Item)) (h : RawSecs rs ss) :
    rs.map (·.1) = ss.map (·.1) := by
  induction rs generalizing ss with
  | nil => cases ss with
    | nil => rfl
    | cons a t => exact absurd h (by simp [RawSecs])
  | cons x xs ih => cases ss with
    | nil => exact absurd h (by simp [RawSecs])
    | cons a t => simp [h.1, ih t h.2.2]

theorem closeSection_cur (p : PState) (n : String) (os : List RawOpt) (hcur : p.cur = some (n, os)) :
    p.closeSection = { done := p.done ++ [(n, os ++ p.opt.toList)], cur := none, opt := none, indent := p.indent } := by
  simp only [PState.closeSection, closeOpt_eq p n os hcur]

theorem closeSection_none (p : PState) (hcur : p.cur = none) :
    p.closeSection = { done := p.done, cur := none, opt := none, indent := p.indent } := by
  obtain ⟨d, c, o, i⟩ := p
  simp only at hcur
  subst hcur
  cases o <;> simp [PState.closeSection, PState.closeOpt]

theorem closeSection_cur_none (p : PState) : p.closeSection.cur = none := by
  cases h : p.cur with
  | none => rw [closeSection_none p h]
  | some c => obtain ⟨n, os⟩ := c; rw [closeSection_cur p n os h]

/-- **reading a section header**: the open section is closed and a new, empty one is opened -/
theorem readLine_section (lower : Bool) (p : PState) (n : String) (hn : n.toList ≠ [])
    (hnew : n ∉ p.closeSection.done.map (·.1)) :
    readLine lower p (headerText n) =
      .ok { done := p.closeSection.done, cur := some (n, []), opt := none, indent := 0 } := by
  have hlast : (headerText n).getLast? = some ']' := by
    simp only [headerText]
    rw [show '[' :: n.toList ++ [']'] = ('[' :: n.toList) ++ [']'] from rfl, getLast?_append_ne_nil _ _ (by simp)]
    rfl
  rw [readLine_header lower p (headerText n) (by simp [headerText])
    (by intro c hc; simp [headerText] at hc; subst hc; decide)
    (by intro c hc; rw [hlast] at hc; simp at hc; subst hc; decide)
    (by simp [headerText]) (by simp [headerText])]
  have hc : ((p.closeSection.done.map (·.1)).contains n) = false := by simpa using hnew
  simp only [headerLine, headerText, sectionName?_header n.toList hn, sectionLine, String.ofList_toList, hc,
    Bool.false_eq_true, if_false]

theorem fileLines_cons (w kw : Nat) (sb : String × List Block) (t : List (String × List Block)) :
    fileLines w kw (sb :: t) = headerText sb.1 :: (sb.2.flatMap (blockLines w kw) ++ fileLines w kw t) := by
  simp [fileLines]

/-- **reading the sections of a file** -/
theorem read_sections (lower : Bool) (w kw : Nat) (secs : List (String × List Block)) :
    ∀ (p : PState) (done : List (String × List Item)),
      RawSecs p.closeSection.done done →
      (∀ sb ∈ secs, sb.1.toList ≠ [] ∧ (∀ it ∈ blockItems sb.2, ItemOK lower w kw it) ∧
        ((blockItems sb.2).map (·.key)).Nodup) →
      (done.map (·.1) ++ secs.map (·.1)).Nodup →
      ∃ p', readLines lower p (fileLines w kw secs) = .ok p' ∧
        RawSecs p'.closeSection.done (done ++ secs.map (fun sb => (sb.1, blockItems sb.2))) := by
  induction secs with
  | nil => intro p done h _ _; exact ⟨p, rfl, by simpa using h⟩
  | cons sb t ih =>
    intro p done hraw hok hnd
    obtain ⟨n, bs⟩ := sb
    obtain ⟨hn, hitems, hkeys⟩ := hok (n, bs) (by simp)
    simp only at hn hitems hkeys
    have hnew : n ∉ p.closeSection.done.map (·.1) := by
      rw [rawSecs_names _ _ hraw]
      intro hm
      have hnd' : (done.map (·.1) ++ n :: t.map (·.1)).Nodup := by simpa using hnd
      exact (List.nodup_append.1 hnd').2.2 _ hm _ (by simp) rfl
    rw [fileLines_cons, readLines_cons lower p _ _ _ (readLine_section lower p n hn hnew)]
    obtain ⟨p1, h1, h2, h3⟩ := read_blocks lower w kw bs
      { done := p.closeSection.done, cur := some (n, []), opt := none, indent := 0 } n []
      ⟨[], rfl, rfl, by simp [RawItems]⟩ (by simpa using hitems) (by simpa using hkeys)
    rw [readLines_append lower _ _ _ _ h1]
    obtain ⟨os, hcur, _, hri⟩ := h3
    have hdone : RawSecs p1.closeSection.done (done ++ [(n, blockItems bs)]) := by
      rw [closeSection_cur p1 n os hcur]
      simp only [h2]
      exact rawSecs_snoc _ _ (n, os ++ p1.opt.toList) (n, blockItems bs) hraw rfl (by simpa using hri)
    obtain ⟨p', h4, h5⟩ := ih p1 (done ++ [(n, blockItems bs)]) hdone
      (fun x hx => hok x (List.mem_cons_of_mem _ hx)) (by simpa using hnd)
    exact ⟨p', h4, by simpa using h5⟩

theorem readIniRaw_eq (lower : Bool) (text : String) :
    readIniRaw lower text =
      (readLines lower ⟨[], none, none, 0⟩ (splitLines text.toList)).map (fun p => p.closeSection.done) := rfl

/-- **reading a whole file** whose lines are the sections' lines -/
theorem readIniRaw_sections (lower : Bool) (w kw : Nat) (secs : List (String × List Block)) (text : String)
    (hlines : splitLines text.toList = fileLines w kw secs)
    (hok : ∀ sb ∈ secs, sb.1.toList ≠ [] ∧ (∀ it ∈ blockItems sb.2, ItemOK lower w kw it) ∧
        ((blockItems sb.2).map (·.key)).Nodup)
    (hnd : (secs.map (·.1)).Nodup) :
    ∃ raw, readIniRaw lower text = .ok raw ∧ RawSecs raw (secs.map (fun sb => (sb.1, blockItems sb.2))) := by
  obtain ⟨p', h1, h2⟩ := read_sections lower w kw secs ⟨[], none, none, 0⟩ [] (by simp [closeSection_none, RawSecs])
    hok (by simpa using hnd)
  exact ⟨p'.closeSection.done, by rw [readIniRaw_eq, hlines, h1]; rfl, by simpa using h2⟩

end Midgard.Proofs.ConfigText
