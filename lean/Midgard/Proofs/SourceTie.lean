/-
The tactic behind the `source_*` theorems of Props/C05, C06, C07: equality of a definition regenerated from the
Python source (`Generated/SourceExprs.lean`) with the hand-written model definition, over the reals.
-/
import Midgard.Proofs.GeoReal
import Midgard.Model.Geodetic
import Midgard.Model.Rotation
import Midgard.Model.Kepler
import Midgard.Generated.SourceExprs

namespace Midgard.Geo

open Lean.Parser.Tactic in
/-- the tie tactic: definitional equality first (the source is what the model mirrors, statement by statement);
otherwise unfold both sides and compare component by component as real-number expressions (an algebraically
equivalent rewrite of the source is accepted, anything else is not) -/
macro "src_tie" "[" ds:simpLemma,* "]" : tactic =>
  `(tactic| first
    | rfl
    | (simp only [$ds,*, cube, V3.mk.injEq, M3.mk.injEq, V6.mk.injEq, Kep.mk.injEq, LLH.mk.injEq, Prod.mk.injEq,
          M3.mul, M3.mulVec, M3.col1, M3.col2, M3.col3, V3.dot]
       <;> (repeat' constructor)
       <;> ((try norm_num1) <;> (first | rfl | ring_nf))))


end Midgard.Geo
