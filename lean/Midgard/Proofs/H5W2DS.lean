/-
C10 — the file written by `Dataset.write` for a dataset in which arrays may be shared between fields: `FileOK`, the
representation of the fields (`RepG` with, for a `same_as` group, the array group it names), and the order of the
holders of one array (`AliasOrd`: the field that stores the array comes after all fields that only name it).
-/
import Midgard.Proofs.H5W2All

namespace Midgard.H5
open Midgard.Dataset

/-- `_construct_memo` conses the written fields in field order: the memo is the reversed list of (array, full name) -/
theorem constructMemo_eq (lvl : Nat) : ∀ (fs : List Field) (pre : Path) (memo : WMemo),
    constructMemo lvl fs pre memo = (leafPaths (restrictFields lvl fs) pre).reverse ++ memo
  | [], pre, memo => by simp [constructMemo, restrictFields, leafPaths]
  | .leaf nm k o no u l :: fs, pre, memo => by
    simp only [constructMemo, Field.level]
    by_cases hlt : l < lvl
    · simp only [hlt, if_true]
      rw [restrict_skip (by simpa [Field.level] using hlt)]
      exact constructMemo_eq lvl fs pre memo
    · simp only [hlt, if_false]
      rw [restrict_keep (by simpa [Field.level] using hlt), constructMemo_eq lvl fs pre _]
      simp [restrictField, leafPaths]
  | .coll nm no l sub :: fs, pre, memo => by
    simp only [constructMemo, Field.level]
    by_cases hlt : l < lvl
    · simp only [hlt, if_true]
      rw [restrict_skip (by simpa [Field.level] using hlt)]
      exact constructMemo_eq lvl fs pre memo
    · simp only [hlt, if_false]
      rw [restrict_keep (by simpa [Field.level] using hlt), constructMemo_eq lvl fs pre _,
        constructMemo_eq lvl sub (pre ++ [nm]) memo]
      simp [restrictField, leafPaths]

/-- in the flattened list of (array, full name) of the written fields: a field that is not the one the memo `C` names for
its array is followed (later in the list, or in `rest`) by the field that `C` names -/
def AliasOrd (C : WMemo) : List (Nat × Path) → List Path → Prop
  | [], _ => True
  | (o, p) :: L, rest =>
    (C.lookup o = some p ∨ ∃ name, C.lookup o = some name ∧ name ∈ L.map Prod.snd ++ rest) ∧ AliasOrd C L rest

theorem AliasOrd_append (C : WMemo) : ∀ (L1 L2 : List (Nat × Path)) (rest : List Path),
    AliasOrd C (L1 ++ L2) rest ↔ AliasOrd C L1 (L2.map Prod.snd ++ rest) ∧ AliasOrd C L2 rest
  | [], L2, rest => by simp [AliasOrd]
  | (o, p) :: L1, L2, rest => by
    simp only [List.cons_append, AliasOrd, AliasOrd_append C L1 L2 rest, List.map_append, List.append_assoc]
    constructor
    · rintro ⟨a, b, c⟩; exact ⟨⟨a, b⟩, c⟩
    · rintro ⟨⟨a, b⟩, c⟩; exact ⟨a, b, c⟩

theorem wlookup_append (A B : WMemo) (k : Nat) :
    (A ++ B).lookup k = match A.lookup k with
      | some v => some v
      | none => B.lookup k := by
  induction A with
  | nil => simp [List.lookup]
  | cons e A ih =>
    obtain ⟨a, v⟩ := e
    simp only [List.cons_append, List.lookup]
    split
    · rfl
    · exact ih

theorem aliasOrd_reverse : ∀ (L : List (Nat × Path)) (m : WMemo), AliasOrd (L.reverse ++ m) L []
  | [], _ => trivial
  | (o, p) :: L, m => by
    have ih := aliasOrd_reverse L ((o, p) :: m)
    have hC : ((o, p) :: L).reverse ++ m = L.reverse ++ (o, p) :: m := by simp
    rw [hC]
    refine ⟨?_, ih⟩
    rw [wlookup_append]
    cases hl : L.reverse.lookup o with
    | none => left; simp [List.lookup]
    | some name =>
      right
      refine ⟨name, rfl, ?_⟩
      have := wlookup_mem _ o name hl
      simp only [List.append_nil]
      exact List.mem_map.mpr ⟨(o, name), List.mem_reverse.mp this, rfl⟩

/-- for a field written as `same_as name`: `C` (the memo of `_construct_memo`) names `name` for the array, and the file
has the array group of that object at that path -/
def KFile (C : WMemo) (file : File) (o : Nat) (name : Path) : Prop :=
  C.lookup o = some name ∧ ∃ gt, lookupGrp file.groups name = some gt ∧ gt.isArr = true ∧ gt.src = o

theorem writeDS_ok2 (h : Heap) (hb : Below h) (d : DS) (lvl : Nat)
    (hn : namesOK (restrictFields lvl d.fields) = true)
    (hlt : ∀ o ∈ leafObjs (restrictFields lvl d.fields), o < h.length) :
    ∃ file, writeDS h d lvl = .ok file ∧ file.numObs = d.numObs ∧
      file.members = (restrictFields lvl d.fields).map (fun f => (f.name, fieldType f)) ∧
      RepG.RepGL (KFile (constructMemo lvl d.fields [] []) file) (restrictFields lvl d.fields) [] file.groups ∧
      FileOK h file := by
  have hp : ∀ o ∈ leafObjs (restrictFields lvl d.fields), o ∈ keys (constructMemo lvl d.fields [] []) := by
    intro o ho
    rw [← leafPaths_fst _ []] at ho
    obtain ⟨⟨a, q⟩, he, rfl⟩ := List.mem_map.mp ho
    exact mem_keys ((constructMemo_mem lvl d.fields [] [] (a, q)).mpr (Or.inr he))
  obtain ⟨groups, mem, memo', hw, w⟩ := writeFields_spec2 h hb lvl d.fields [] _ hp hn hlt
  have hmem := (writeFields_names h lvl d.fields [] _ groups mem memo' hw).2
  have real : ∀ x qx, memo'.lookup x = some qx → ∃ g', lookupGrp groups qx = some g' ∧ g'.isArr = true ∧ g'.src = x := by
    intro x qx hx
    have hnode : ∃ g', (qx, g') ∈ Grp.nodes.nodesL [] groups ∧ g'.src = x := by
      rcases w.newIn x qx hx with hx | hx
      · rcases (constructMemo_mem lvl d.fields [] [] (x, qx)).mp (wlookup_mem _ x qx hx) with hm | hm
        · simp at hm
        · exact w.written (x, qx) hm hx
      · exact hx
    obtain ⟨g', hg', hs⟩ := hnode
    obtain ⟨rel, _, hq, hl, ha⟩ := lookup_of_nodesL groups [] qx g' w.names hg'
    simp only [List.nil_append] at hq
    subst hq
    exact ⟨g', hl, ha, hs⟩
  refine ⟨{ numObs := d.numObs, members := mem, groups := groups }, by simp only [writeDS, hw], rfl, hmem, ?_, ?_⟩
  · refine RepGL.mono _ _ _ ?_ w.rep
    intro o ho n hlk
    refine ⟨?_, real o n hlk⟩
    have hko := hp o ho
    cases hl : (constructMemo lvl d.fields [] []).lookup o with
    | none => exact absurd hko ((lookup_none_iff _ o).mp hl)
    | some q =>
      have := w.stable o q hl
      rw [hlk] at this
      rw [← Option.some.inj this]
  · refine ⟨w.names, ?_, ?_⟩
    · intro q1 g1 q2 g2 h1 h2 a1 a2 hs
      have m1 := nodes_of_lookup q1 groups [] g1 h1 a1
      have m2 := nodes_of_lookup q2 groups [] g2 h2 a2
      simp only [List.nil_append] at m1 m2
      have e1 := w.own q1 g1 m1
      have e2 := w.own q2 g2 m2
      rw [hs, e2] at e1
      exact (Option.some.inj e1).symm
    · intro q g hl ha
      have hm := nodes_of_lookup q groups [] g hl ha
      simp only [List.nil_append] at hm
      exact NodeOK.of_tree ((w.tree q g hm).mono (fun qx x hx => real x qx hx)) hl

/-- the order of the holders of one array in the flattened list of the written fields -/
theorem aliasOrd_constructMemo (lvl : Nat) (fs : List Field) :
    AliasOrd (constructMemo lvl fs [] []) (leafPaths (restrictFields lvl fs) []) [] := by
  rw [constructMemo_eq]
  exact aliasOrd_reverse _ []

end Midgard.H5
