/-
C03 — lemmas about `Model/TimeArrays.lean`: the scalar model inside the array model, NumPy broadcasting (`broadcast2_spec`,
composition of two broadcast operations), and the heap (allocation only appends; stored results read back).
-/
import Midgard.Model.TimeArrays
import Mathlib.Tactic.Ring
import Mathlib.Tactic.Linarith
import Mathlib.Algebra.Order.Field.Rat

set_option linter.unusedSimpArgs false
set_option linter.unusedVariables false

namespace Midgard.TimeArith

/-! ### The scalar model inside the array model -/

theorem binop_binopFn (op : Op) (ka : Kind) (sa : Scale) (a : JD) (kb : Kind) (sb : Scale) (b : JD) :
    binop op ka sa a kb sb b =
      if sa ≠ sb then .notImplemented else
        match binopFn op ka kb with
        | none => .notImplemented
        | some (k, f) => .ok k (f a b) := by
  by_cases h : sa = sb <;> cases op <;> cases ka <;> cases kb <;> simp [binop, binopFn, h]

/-- on scalar operands the array model is the scalar model -/
theorem binopV_scalar (op : Op) (ka : Kind) (sa : Scale) (a : JD) (kb : Kind) (sb : Scale) (b : JD) :
    binopV op ka sa (.scalar a) kb sb (.scalar b) =
      match binop op ka sa a kb sb b with
      | .notImplemented => .notImplemented
      | .ok k j => .ok k (.scalar j) := by
  rw [binop_binopFn]
  by_cases h : sa = sb <;> cases op <;> cases ka <;> cases kb <;> simp [binopV, binopFn, broadcast2, h]

/-! ### Broadcasting -/

theorem getD_zipWith' (f : JD → JD → JD) (as bs : List JD) (i : Nat) (h1 : i < as.length) (h2 : i < bs.length) :
    (List.zipWith f as bs).getD i default = f (as.getD i default) (bs.getD i default) := by
  simp [List.getD_eq_getElem?_getD, List.getElem?_zipWith, List.getElem?_eq_getElem h1, List.getElem?_eq_getElem h2]

theorem getD_map' (f : JD → JD) (l : List JD) (i : Nat) (h : i < l.length) :
    (l.map f).getD i default = f (l.getD i default) := by
  simp [List.getD_eq_getElem?_getD, List.getElem?_eq_getElem h]

/-- the three facts about a successful broadcast: the shapes were compatible, the result has the broadcast length, and
element `i` of the result is `f` of the elements `i` (stretched where an operand has one element) -/
theorem broadcast2_spec (f : JD → JD → JD) (a b v : Val) (h : broadcast2 f a b = some v) :
    (a.size = b.size ∨ a.size = 1 ∨ b.size = 1) ∧
    v.size = (if a.size = 1 then b.size else a.size) ∧
    ∀ i, (i < v.size ∨ v.size = 1) → v.getB i = f (a.getB i) (b.getB i) := by
  cases a with
  | scalar x =>
    cases b with
    | scalar y =>
      simp only [broadcast2, Option.some.injEq] at h; subst h
      simp [Val.size, Val.getB]
    | array bs =>
      simp only [broadcast2, Option.some.injEq] at h; subst h
      refine ⟨Or.inr (Or.inl rfl), by simp [Val.size], ?_⟩
      intro i hi
      simp only [Val.size, List.length_map] at hi
      simp only [Val.getB, List.length_map]
      by_cases h1 : bs.length = 1
      · simp only [h1, if_true]; exact getD_map' _ _ _ (by omega)
      · simp only [h1, if_false]
        rcases hi with hi | hi
        · exact getD_map' _ _ _ hi
        · exact absurd hi h1
  | array as =>
    cases b with
    | scalar y =>
      simp only [broadcast2, Option.some.injEq] at h; subst h
      refine ⟨Or.inr (Or.inr rfl), by simp only [Val.size, List.length_map]; by_cases h1 : as.length = 1 <;> simp [h1], ?_⟩
      intro i hi
      simp only [Val.size, List.length_map] at hi
      simp only [Val.getB, List.length_map]
      by_cases h1 : as.length = 1
      · simp only [h1, if_true]; exact getD_map' (fun a => f a y) _ _ (by omega)
      · simp only [h1, if_false]
        rcases hi with hi | hi
        · exact getD_map' (fun a => f a y) _ _ hi
        · exact absurd hi h1
    | array bs =>
      simp only [broadcast2] at h
      by_cases he : as.length = bs.length
      · simp only [he, if_true, Option.some.injEq] at h; subst h
        refine ⟨Or.inl he, by simp [Val.size, he], ?_⟩
        intro i hi
        simp only [Val.size, List.length_zipWith, he, Nat.min_self] at hi
        simp only [Val.getB, List.length_zipWith, he, Nat.min_self]
        by_cases h1 : bs.length = 1
        · simp only [h1, if_true]; exact getD_zipWith' _ _ _ _ (by omega) (by omega)
        · simp only [h1, if_false]
          rcases hi with hi | hi
          · exact getD_zipWith' _ _ _ _ (by omega) hi
          · exact absurd hi h1
      · simp only [he, if_false] at h
        by_cases ha : as.length = 1
        · simp only [ha, if_true, Option.some.injEq] at h; subst h
          refine ⟨Or.inr (Or.inl ha), by simp [Val.size, ha], ?_⟩
          intro i hi
          simp only [Val.size, List.length_map] at hi
          have hb : bs.length ≠ 1 := fun e => he (by omega)
          simp only [Val.getB, List.length_map, ha, hb, if_true, if_false]
          rcases hi with hi | hi
          · exact getD_map' _ _ _ hi
          · exact absurd hi hb
        · simp only [ha, if_false] at h
          by_cases hb : bs.length = 1
          · simp only [hb, if_true, Option.some.injEq] at h; subst h
            refine ⟨Or.inr (Or.inr hb), by simp [Val.size, ha], ?_⟩
            intro i hi
            simp only [Val.size, List.length_map] at hi
            simp only [Val.getB, List.length_map, ha, hb, if_true, if_false]
            rcases hi with hi | hi
            · exact getD_map' (fun a => f a (bs.getD 0 default)) _ _ hi
            · exact absurd hi ha
          · simp [hb] at h

/-- a broadcast succeeds exactly when the shapes are compatible -/
theorem broadcast2_isSome (f : JD → JD → JD) (a b : Val) :
    (broadcast2 f a b).isSome = true ↔ (a.size = b.size ∨ a.size = 1 ∨ b.size = 1) := by
  constructor
  · intro h
    obtain ⟨v, hv⟩ := Option.isSome_iff_exists.mp h
    exact (broadcast2_spec f a b v hv).1
  · intro h
    cases a with
    | scalar x => cases b <;> simp [broadcast2]
    | array as =>
      cases b with
      | scalar y => simp [broadcast2]
      | array bs =>
        simp only [Val.size] at h
        simp only [broadcast2]
        by_cases he : as.length = bs.length
        · simp [he]
        · by_cases ha : as.length = 1
          · rw [if_neg he, if_pos ha]; rfl
          · have hb : bs.length = 1 := by omega
            rw [if_neg he, if_neg ha, if_pos hb]; rfl

/-- result of `g (f a b) c` elementwise -/
theorem broadcast2_comp_left (f g : JD → JD → JD) (a b c s r : Val)
    (hs : broadcast2 f a b = some s) (hr : broadcast2 g s c = some r) (i : Nat) (hi : i < r.size) :
    r.getB i = g (f (a.getB i) (b.getB i)) (c.getB i) := by
  obtain ⟨_, hsz, hget⟩ := broadcast2_spec g s c r hr
  obtain ⟨_, _, hget'⟩ := broadcast2_spec f a b s hs
  rw [hget i (Or.inl hi), hget' i]
  by_cases h1 : s.size = 1
  · exact Or.inr h1
  · left; rw [hsz] at hi; simpa [h1] using hi

/-- result of `g c (f a b)` elementwise -/
theorem broadcast2_comp_right (f g : JD → JD → JD) (a b c s r : Val)
    (hs : broadcast2 f a b = some s) (hr : broadcast2 g c s = some r) (i : Nat) (hi : i < r.size) :
    r.getB i = g (c.getB i) (f (a.getB i) (b.getB i)) := by
  obtain ⟨hc, hsz, hget⟩ := broadcast2_spec g c s r hr
  obtain ⟨_, _, hget'⟩ := broadcast2_spec f a b s hs
  rw [hget i (Or.inl hi), hget' i]
  by_cases h1 : s.size = 1
  · exact Or.inr h1
  · left
    rw [hsz] at hi
    by_cases hc1 : c.size = 1
    · simpa [hc1] using hi
    · simp only [hc1, if_false] at hi
      rcases hc with hc | hc | hc
      · omega
      · exact absurd hc hc1
      · exact absurd hc h1

/-! ### The heap -/

theorem allocVal_prefix (h : Heap) (v : Val) : h <+: (h.allocVal v).1 := by
  cases v with
  | scalar j => exact List.prefix_refl h
  | array js => exact List.prefix_append h _

/-- **frame condition of the operators**: the heap after `a ± b` is the heap before, followed by the new buffers — no
buffer that existed (operand parts, caller arrays, anything else) has other contents or another flag -/
theorem binopH_prefix (h : Heap) (op : Op) (a b : Obj) : h <+: (binopH h op a b).1 := by
  unfold binopH
  split
  · split
    · exact List.prefix_refl h
    · exact List.prefix_refl h
    · exact allocVal_prefix h _
  · exact List.prefix_refl h

theorem prefix_getElem? {h h' : Heap} (hp : h <+: h') (i : Nat) (hi : i < h.length) : h'[i]? = h[i]? := by
  obtain ⟨t, rfl⟩ := hp
  simp [List.getElem?_append_left hi]

/-- the result's buffers are new (beyond every buffer that existed) and frozen -/
theorem allocVal_fresh (h : Heap) (js : List JD) :
    (h.allocVal (.array js)).2 = (.ref h.length, .ref (h.length + 1)) ∧
    (h.allocVal (.array js)).1[h.length]? = some ⟨js.map (·.jd1), false⟩ ∧
    (h.allocVal (.array js)).1[h.length + 1]? = some ⟨js.map (·.jd2), false⟩ := by
  refine ⟨rfl, ?_, ?_⟩ <;> simp [Heap.allocVal, List.getElem?_append_right]

theorem zipWith_mk_map (js : List JD) : List.zipWith JD.mk (js.map (·.jd1)) (js.map (·.jd2)) = js := by
  induction js with
  | nil => rfl
  | cons j rest ih => simp [ih]

/-- reading back what was stored gives the value -/
theorem readVal_allocVal (h : Heap) (v : Val) :
    (h.allocVal v).1.readVal (h.allocVal v).2.1 (h.allocVal v).2.2 = some v := by
  cases v with
  | scalar j => simp [Heap.allocVal, Heap.readVal, Heap.read]
  | array js =>
    simp [Heap.allocVal, Heap.readVal, Heap.read, List.getElem?_append_right, zipWith_mk_map]

/-- **refinement**: on the heap the operators compute exactly `binopV` of the operand values, and the stored result reads
back as that value -/
theorem binopH_refines (h : Heap) (op : Op) (a b : Obj) (va vb : Val)
    (ha : h.readVal a.p1 a.p2 = some va) (hb : h.readVal b.p1 b.p2 = some vb) :
    match binopV op a.kind a.scale va b.kind b.scale vb with
    | .notImplemented => binopH h op a b = (h, .notImplemented)
    | .shapeError => binopH h op a b = (h, .shapeError)
    | .ok k v => ∃ o, (binopH h op a b).2 = .ok o ∧ o.kind = k ∧ o.scale = a.scale ∧
        (binopH h op a b).1.readVal o.p1 o.p2 = some v := by
  cases hres : binopV op a.kind a.scale va b.kind b.scale vb with
  | notImplemented => simp only [binopH, ha, hb, hres]
  | shapeError => simp only [binopH, ha, hb, hres]
  | ok k v =>
    simp only [binopH, ha, hb, hres]
    exact ⟨_, rfl, rfl, rfl, readVal_allocVal h v⟩

theorem ctorH_prefix (h : Heap) (f : DFmt) (s : Scale) (val : Part) (val2 : Option Part) :
    h <+: (ctorH false h f s val val2).1 := by
  unfold ctorH
  split
  · split
    · exact List.prefix_refl h
    · exact allocVal_prefix h _
  · exact List.prefix_refl h

/-! ### The epoch constructors -/

theorem allocVal_freshFrom (h : Heap) (v : Val) :
    (h.allocVal v).2.1.freshFrom h.length ∧ (h.allocVal v).2.2.freshFrom h.length := by
  cases v with
  | scalar j => exact ⟨trivial, trivial⟩
  | array js => exact ⟨Nat.le_refl _, Nat.le_succ _⟩

/-- **frame condition of the epoch constructors** (no aliasing `_to_jds`): the heap afterwards is the heap before with the
new buffers appended -/
theorem ctorTimeH_prefix (split : Rat → Rat → JD) (h : Heap) (s : Scale) (val : Part) (val2 : Option Part) :
    h <+: (ctorTimeH false split h s val val2).1 := by
  unfold ctorTimeH
  split
  · split
    · exact List.prefix_refl h
    · simp only [Bool.false_and]
      exact allocVal_prefix h _
  · exact List.prefix_refl h

/-- … and the object's two parts are floats or *new* buffers: none of the buffers that existed -/
theorem ctorTimeH_fresh (split : Rat → Rat → JD) (h : Heap) (s : Scale) (val : Part) (val2 : Option Part) (o : Obj)
    (ho : (ctorTimeH false split h s val val2).2 = .ok o) : o.p1.freshFrom h.length ∧ o.p2.freshFrom h.length := by
  unfold ctorTimeH at ho
  split at ho
  · split at ho
    · simp at ho
    · simp only [Bool.false_and] at ho
      rename_i r _
      simp only [ResH.ok.injEq] at ho
      subst ho
      exact allocVal_freshFrom h r
  · simp at ho

theorem read_write_ne (h : Heap) (a : Nat) (f : List Rat → List Rat) (p : Part) (hp : p.freshFrom (a + 1)) :
    (h.write a f).read p = h.read p := by
  cases p with
  | imm x => rfl
  | ref b =>
    have hb : a ≠ b := by simp only [Part.freshFrom] at hp; omega
    simp [Heap.read, Heap.write, List.getElem?_modify, hb]

/-- a later write into a buffer below `n` does not change an object whose parts are fresh from `n` -/
theorem readVal_write_fresh (h : Heap) (n a : Nat) (ha : a < n) (f : List Rat → List Rat) (p1 p2 : Part)
    (h1 : p1.freshFrom n) (h2 : p2.freshFrom n) : (h.write a f).readVal p1 p2 = h.readVal p1 p2 := by
  have w : ∀ p : Part, p.freshFrom n → p.freshFrom (a + 1) := by
    intro p hp; cases p with
    | imm x => trivial
    | ref b => simp only [Part.freshFrom] at hp ⊢; omega
  simp only [Heap.readVal, read_write_ne h a f p1 (w p1 h1), read_write_ne h a f p2 (w p2 h2)]

end Midgard.TimeArith
