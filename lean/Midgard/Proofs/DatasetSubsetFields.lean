/-
C09 — `subset` at the level of fields and datasets: the new field tree is the image of the old one
(same names, kinds, units, levels, in the same order; every object the image of the old object),
it is rectangular with `idx.count` rows, and objects shared by several fields stay shared.
-/
import Midgard.Proofs.DatasetSubset

namespace Midgard.Dataset

/-- the field tree after the selection, field by field: same names, kinds, units, levels and
order; every array the image of the old one; every `num_obs` the number of selected rows -/
def FieldImg (idx : Index) (h : Heap) : Field → Field → Prop
  | .leaf n k o _ u l, f' => ∃ o' no', f' = .leaf n k o' no' u l ∧ Img idx h o o' ∧ no' = idx.count
  | .coll n _ l fs, f' => ∃ no' fs', f' = .coll n no' l fs' ∧ FieldsImg fs fs' ∧ no' = idx.count
where FieldsImg : List Field → List Field → Prop
  | [], fs' => fs' = []
  | f :: fs, fs' => ∃ f' r', fs' = f' :: r' ∧ FieldImg idx h f f' ∧ FieldsImg fs r'

mutual
theorem FieldImg.ext {idx : Index} {h h' : Heap} (e : HeapExt h h') :
    ∀ (f f' : Field), FieldImg idx h f f' → FieldImg idx h' f f'
  | .leaf n k o no u l, f', hh => by
    simp only [FieldImg] at hh ⊢
    obtain ⟨o', no', h1, h2, h3⟩ := hh
    exact ⟨o', no', h1, h2.ext e, h3⟩
  | .coll n no l fs, f', hh => by
    simp only [FieldImg] at hh ⊢
    obtain ⟨no', fs', h1, h2, h3⟩ := hh
    exact ⟨no', fs', h1, FieldsImg.ext e fs fs' h2, h3⟩
theorem FieldsImg.ext {idx : Index} {h h' : Heap} (e : HeapExt h h') :
    ∀ (fs fs' : List Field), FieldImg.FieldsImg idx h fs fs' → FieldImg.FieldsImg idx h' fs fs'
  | [], fs', hh => by simpa [FieldImg.FieldsImg] using hh
  | f :: fs, fs', hh => by
    simp only [FieldImg.FieldsImg] at hh ⊢
    obtain ⟨f', r', h1, h2, h3⟩ := hh
    exact ⟨f', r', h1, FieldImg.ext e f f' h2, FieldsImg.ext e fs r' h3⟩
end

theorem FieldsImg.nil_iff {idx : Index} {h : Heap} {fs fs' : List Field} (hh : FieldImg.FieldsImg idx h fs fs') :
    fs' = [] ↔ fs = [] := by
  cases fs with
  | nil => simp [FieldImg.FieldsImg] at hh; simp [hh]
  | cons f fs =>
    simp only [FieldImg.FieldsImg] at hh
    obtain ⟨f', r', rfl, _, _⟩ := hh
    simp

/-! the number of rows `Collection.__len__` reads off an image is the number of selected rows (also for a
collection without fields: its field remembers the count) -/
mutual
theorem FieldImg.len {idx : Index} {h : Heap} : ∀ (f f' : Field), FieldImg idx h f f' → Field.len h f' = idx.count
  | .leaf n k o no u l, f', hh => by
    simp only [FieldImg] at hh
    obtain ⟨o', no', rfl, h2, _⟩ := hh
    simp only [Field.len]
    exact h2.good.objLen
  | .coll n no l fs, f', hh => by
    simp only [FieldImg] at hh
    obtain ⟨no', fs', rfl, h2, h3⟩ := hh
    simp only [Field.len]
    split
    · exact h3
    · rename_i hne
      exact FieldsImg.len fs fs' h2 (by
        intro he
        have := (FieldsImg.nil_iff h2).mpr he
        simp [this] at hne)
theorem FieldsImg.len {idx : Index} {h : Heap} : ∀ (fs fs' : List Field), FieldImg.FieldsImg idx h fs fs' →
    fs ≠ [] → Field.len.lenL h fs' = idx.count
  | [], _, _, hd => absurd rfl hd
  | f :: fs, fs', hh, _ => by
    simp only [FieldImg.FieldsImg] at hh
    obtain ⟨f', r', rfl, h2, _⟩ := hh
    simp only [Field.len.lenL]
    exact FieldImg.len f f' h2
end

/-! **`FieldType.subset` / `CollectionField._subset` build the image of the field (tree).** -/
mutual
theorem subsetField_spec (idx : Index) : ∀ (f : Field) (s : St) (f' : Field) (s' : St),
    subsetField idx f s = .ok (f', s') → MemoInv idx s →
    StepOK idx s s' ∧ FieldImg idx s'.heap f f'
  | .leaf n k o no u l, s, f', s', h, hm => by
    simp only [subsetField] at h
    split at h
    · simp at h
    · rename_i o' s1 hr
      simp only [Except.ok.injEq, Prod.mk.injEq] at h
      obtain ⟨rfl, rfl⟩ := h
      have key : StepOK idx s s1 ∧ Img idx s1.heap o o' := by
        by_cases hk : (k.isPlain || k == .sigma) = true
        · simp only [hk, if_true] at hr
          exact subsetPlain_spec idx o s o' s1 hr hm
        · simp only [hk] at hr
          exact subsetObj_spec idx _ o s o' s1 hr hm
      refine ⟨key.1, ?_⟩
      simp only [FieldImg]
      exact ⟨o', _, rfl, key.2, key.2.good.objLen⟩
  | .coll n no l fs, s, f', s', h, hm => by
    simp only [subsetField] at h
    split at h
    · simp at h
    · rename_i fs' s1 hr
      have key := subsetFields_spec idx fs s fs' s1 hr hm
      split at h
      · split at h
        · simp at h
        · rename_i sel hsel
          simp only [Except.ok.injEq, Prod.mk.injEq] at h
          obtain ⟨rfl, rfl⟩ := h
          exact ⟨key.1, by simp only [FieldImg]; exact ⟨_, fs', rfl, key.2, pick_length idx _ _ hsel⟩⟩
      · rename_i hne
        simp only [Except.ok.injEq, Prod.mk.injEq] at h
        obtain ⟨rfl, rfl⟩ := h
        have hfs : fs ≠ [] := by
          intro he
          have := (FieldsImg.nil_iff key.2).mpr he
          simp [this] at hne
        exact ⟨key.1, by simp only [FieldImg]; exact ⟨_, fs', rfl, key.2, FieldsImg.len fs fs' key.2 hfs⟩⟩
theorem subsetFields_spec (idx : Index) : ∀ (fs : List Field) (s : St) (fs' : List Field) (s' : St),
    subsetField.subsetFields idx fs s = .ok (fs', s') → MemoInv idx s →
    StepOK idx s s' ∧ FieldImg.FieldsImg idx s'.heap fs fs'
  | [], s, fs', s', h, hm => by
    simp only [subsetField.subsetFields, Except.ok.injEq, Prod.mk.injEq] at h
    obtain ⟨rfl, rfl⟩ := h
    exact ⟨⟨HeapExt.refl _, hm⟩, by simp [FieldImg.FieldsImg]⟩
  | f :: fs, s, fs', s', h, hm => by
    simp only [subsetField.subsetFields] at h
    split at h
    · simp at h
    · rename_i f1 s1 h1
      split at h
      · simp at h
      · rename_i fs1 s2 h2
        simp only [Except.ok.injEq, Prod.mk.injEq] at h
        obtain ⟨rfl, rfl⟩ := h
        obtain ⟨⟨e1, m1⟩, i1⟩ := subsetField_spec idx f s f1 s1 h1 hm
        obtain ⟨⟨e2, m2⟩, i2⟩ := subsetFields_spec idx fs s1 fs1 s2 h2 m1
        refine ⟨⟨e1.trans e2, m2⟩, ?_⟩
        simp only [FieldImg.FieldsImg]
        exact ⟨f1, fs1, rfl, FieldImg.ext e2 f f1 i1, i2⟩
end

/-! ### rectangular field trees -/

/-- every array of the field (tree), with everything attached to it, has `n` rows, and every
field declares `n` observations -/
def RectField (h : Heap) (n : Nat) : Field → Prop
  | .leaf _ _ o no _ _ => Good h n o ∧ no = n
  | .coll _ no _ fs => RectFields fs ∧ no = n
where RectFields : List Field → Prop
  | [] => True
  | f :: fs => RectField h n f ∧ RectFields fs

mutual
theorem RectField.ext {h h' : Heap} {n : Nat} (e : HeapExt h h') : ∀ (f : Field), RectField h n f → RectField h' n f
  | .leaf _ _ o no _ _, hh => by
    simp only [RectField] at hh ⊢
    exact ⟨hh.1.ext e, hh.2⟩
  | .coll _ no _ fs, hh => by
    simp only [RectField] at hh ⊢
    exact ⟨RectFields.ext e fs hh.1, hh.2⟩
theorem RectFields.ext {h h' : Heap} {n : Nat} (e : HeapExt h h') : ∀ (fs : List Field),
    RectField.RectFields h n fs → RectField.RectFields h' n fs
  | [], _ => by simp [RectField.RectFields]
  | f :: fs, hh => by
    simp only [RectField.RectFields] at hh ⊢
    exact ⟨RectField.ext e f hh.1, RectFields.ext e fs hh.2⟩
end

mutual
theorem FieldImg.rect {idx : Index} {h : Heap} : ∀ (f f' : Field), FieldImg idx h f f' → RectField h idx.count f'
  | .leaf n k o no u l, f', hh => by
    simp only [FieldImg] at hh
    obtain ⟨o', no', rfl, h2, h3⟩ := hh
    simp only [RectField]
    exact ⟨h2.good, h3⟩
  | .coll n no l fs, f', hh => by
    simp only [FieldImg] at hh
    obtain ⟨no', fs', rfl, h2, h3⟩ := hh
    simp only [RectField]
    exact ⟨FieldsImg.rect fs fs' h2, h3⟩
theorem FieldsImg.rect {idx : Index} {h : Heap} : ∀ (fs fs' : List Field), FieldImg.FieldsImg idx h fs fs' →
    RectField.RectFields h idx.count fs'
  | [], fs', hh => by simp only [FieldImg.FieldsImg] at hh; subst hh; simp [RectField.RectFields]
  | f :: fs, fs', hh => by
    simp only [FieldImg.FieldsImg] at hh
    obtain ⟨f', r', rfl, h2, h3⟩ := hh
    simp only [RectField.RectFields]
    exact ⟨FieldImg.rect f f' h2, FieldsImg.rect fs r' h3⟩
end

/-! ### the dataset level -/

/-- a dataset is a rectangular table: every field (nested ones, attached `other`/`ref_pos` objects
included) has `num_obs` rows -/
def Rect (h : Heap) (d : DS) : Prop := RectField.RectFields h d.numObs d.fields

/-- **`Dataset.subset`**: on success the heap has only grown, the new field tree is the image of the
old one under the selection, the declared number of observations is the number of selected
rows, and the dataset is a rectangular table again — whether or not it was one before. -/
theorem dsSubset_spec (idx : Index) (h : Heap) (d : DS) (h' : Heap) (d' : DS)
    (hok : dsSubset idx h d = .ok (h', d')) :
    HeapExt h h' ∧ FieldImg.FieldsImg idx h' d.fields d'.fields ∧ d'.numObs = idx.count ∧
    Rect h' d' := by
  simp only [dsSubset] at hok
  split at hok
  · simp at hok
  · rename_i fs s hr
    split at hok
    · simp at hok
    · rename_i sel hsel
      simp only [Except.ok.injEq, Prod.mk.injEq] at hok
      obtain ⟨rfl, rfl⟩ := hok
      have hm : MemoInv idx { heap := h } := by intro k v hkv; simp at hkv
      obtain ⟨⟨e, _⟩, hi⟩ := subsetFields_spec idx d.fields { heap := h } fs s hr hm
      have hc : sel.length = idx.count := pick_length idx _ _ hsel
      refine ⟨e, hi, hc, ?_⟩
      simp only [Rect]; rw [hc]; exact FieldsImg.rect d.fields fs hi

end Midgard.Dataset
