import Midgard.Proofs.GeoFarScaled
import Midgard.Proofs.GeoBoundNear
namespace Midgard.Geo.Acc

/-- scaled lower bounds of the cofactors from bounds of the scaled remainders -/
theorem K_scaled_lower (A t q xmax b0 b1 b2 : ℝ) (hq : 0.9966 ≤ q) (hq1 : q ≤ 1) (he : 1 - q ^ 2 ≤ 0.0067)
    (hA : 0 < A) (hx : 1 / A ≤ xmax) (hb0 : 0 ≤ b0) (hb1 : 0 ≤ b1) (hb2 : 0 ≤ b2)
    (h0 : -b0 ≤ K0rs (1 / A) t q) (h1 : -b1 ≤ K1rs (1 / A) t q) (h2 : -b2 ≤ K2rs (1 / A) t q) :
    (2 - 0.0067 * b0) * A ^ 5 ≤ K0 A (A * t) q ∧ (2 * 0.9966 - 0.0067 * xmax * b1) * A ^ 6 ≤ K1 A (A * t) q ∧
    (2 - 0.0067 * xmax * b2) * A ^ 6 ≤ K2 A (A * t) q := by
  have he0 : 0 ≤ 1 - q ^ 2 := by nlinarith
  obtain ⟨hk0, hk1, hk2⟩ := K_decomp A (A * t) q
  have hA5 : A ^ 5 = (1 / A) * A ^ 6 := by field_simp
  have hA5x : A ^ 5 ≤ xmax * A ^ 6 := by rw [hA5]; exact mul_le_mul_of_nonneg_right hx (by positivity)
  have s0 := scaled_lower (1 - q ^ 2) (K0rs (1 / A) t q) b0 0.0067 he0 he hb0 h0
  have s1 := scaled_lower (1 - q ^ 2) (K1rs (1 / A) t q) b1 0.0067 he0 he hb1 h1
  have s2 := scaled_lower (1 - q ^ 2) (K2rs (1 / A) t q) b2 0.0067 he0 he hb2 h2
  have hA5p : 0 < A ^ 5 := by positivity
  refine ⟨?_, ?_, ?_⟩
  · rw [hk0, K0r_scaled A t q hA.ne']
    have : -(0.0067 * b0) * A ^ 5 ≤ (1 - q ^ 2) * K0rs (1 / A) t q * A ^ 5 := mul_le_mul_of_nonneg_right (by linarith) hA5p.le
    nlinarith
  · rw [hk1, K1r_scaled A t q hA.ne']
    have m1 : -(0.0067 * b1) * A ^ 5 ≤ (1 - q ^ 2) * K1rs (1 / A) t q * A ^ 5 := mul_le_mul_of_nonneg_right (by linarith) hA5p.le
    have m2 : (0.0067 * b1) * A ^ 5 ≤ (0.0067 * b1) * (xmax * A ^ 6) := mul_le_mul_of_nonneg_left hA5x (by positivity)
    have m3 : 2 * 0.9966 * A ^ 6 ≤ 2 * A ^ 6 * q := by
      have : 0.9966 * A ^ 6 ≤ q * A ^ 6 := mul_le_mul_of_nonneg_right hq (by positivity)
      linarith
    nlinarith
  · rw [hk2, K2r_scaled A t q hA.ne']
    have m1 : -(0.0067 * b2) * A ^ 5 ≤ (1 - q ^ 2) * K2rs (1 / A) t q * A ^ 5 := mul_le_mul_of_nonneg_right (by linarith) hA5p.le
    have m2 : (0.0067 * b2) * A ^ 5 ≤ (0.0067 * b2) * (xmax * A ^ 6) := mul_le_mul_of_nonneg_left hA5x (by positivity)
    nlinarith

/-- the scaled remainder of `Hr2` (sum of its chunks) -/
noncomputable def Hr2s (x t q : ℝ) : ℝ :=
  Hr2c0s x t q + Hr2c1s x t q + Hr2c2s x t q + Hr2c3s x t q + Hr2c4s x t q + Hr2c5s x t q + Hr2c6s x t q

theorem Hr2_scaled (A t q : ℝ) (hA : A ≠ 0) : Hr2 A (A * t) q = A ^ 17 * Hr2s (1 / A) t q := by
  unfold Hr2 Hr2s
  rw [Hr2c0_scaled A t q hA, Hr2c1_scaled A t q hA, Hr2c2_scaled A t q hA, Hr2c3_scaled A t q hA, Hr2c4_scaled A t q hA,
    Hr2c5_scaled A t q hA, Hr2c6_scaled A t q hA]
  ring

/-- scaled upper bound of `|H|` -/
theorem H_scaled_upper (A t q B1 B2 : ℝ) (hq1 : q ≤ 1) (he0 : 0 ≤ 1 - q ^ 2) (he : 1 - q ^ 2 ≤ 0.0067) (hA : 0 < A)
    (h1 : |Hr1s (1 / A) t q| ≤ B1) (h2 : |Hr2s (1 / A) t q| ≤ B2) :
    |HH A (A * t) q| ≤ A ^ 17 * (|64 - 80 * t ^ 2| + 0.0067 * B1 + 0.0067 ^ 2 * B2) := by
  rw [H_decomp, Hr1_scaled A t q hA.ne', Hr2_scaled A t q hA.ne']
  set e := 1 - q ^ 2
  have e1 : 16 * A ^ 15 * (4 * A ^ 2 - 5 * (A * t) ^ 2) + e * (A ^ 17 * Hr1s (1 / A) t q) + e ^ 2 * (A ^ 17 * Hr2s (1 / A) t q)
      = A ^ 17 * ((64 - 80 * t ^ 2) + e * Hr1s (1 / A) t q + e ^ 2 * Hr2s (1 / A) t q) := by ring
  rw [e1, abs_mul, abs_of_pos (by positivity : (0:ℝ) < A ^ 17)]
  apply mul_le_mul_of_nonneg_left _ (by positivity)
  have a1 : |e * Hr1s (1 / A) t q| ≤ 0.0067 * B1 := by
    rw [abs_mul, abs_of_nonneg he0]; exact mul_le_mul he h1 (abs_nonneg _) (by norm_num)
  have a2 : |e ^ 2 * Hr2s (1 / A) t q| ≤ 0.0067 ^ 2 * B2 := by
    rw [abs_mul, abs_of_nonneg (by positivity : (0:ℝ) ≤ e ^ 2)]
    exact mul_le_mul (pow_le_pow_left₀ he0 he 2) h2 (abs_nonneg _) (by norm_num)
  calc |(64 - 80 * t ^ 2) + e * Hr1s (1 / A) t q + e ^ 2 * Hr2s (1 / A) t q|
      ≤ |64 - 80 * t ^ 2| + |e * Hr1s (1 / A) t q| + |e ^ 2 * Hr2s (1 / A) t q| := abs_add_three _ _ _
    _ ≤ _ := by linarith

end Midgard.Geo.Acc
