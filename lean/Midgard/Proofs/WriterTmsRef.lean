/-
C17 — SINEX-TMS TIMESERIES/REF_COORDINATE: the parser's `SinexField` start columns against the writer's line, with the
semantic column lemma (helper of Props/C17).
-/
import Midgard.Proofs.WriterSta002

namespace Midgard.WriterFiles
open Midgard.Text Midgard.Decimal Midgard.FixedCol Midgard.WriterCells Midgard.Writers
open Midgard.Generated.WriterLayouts

/-- the TIMESERIES/REF_COORDINATE line of writers/sinex_tms.py -/
def tmsRefRow : List Cell := rowWith "sinex_tms" "ref_pos.trs.x"

/-- parser field of `timeseries_ref_coordinate` ↦ writer cell, greatest text length -/
def tmsRefMap : List (String × String × Nat) :=
  [("site_code", "self.station.upper()", 9),
   ("epoch", "Time(datetime.fromisoformat(self.dset.meta['ref_epoch']), scale='utc', fmt='datetime').yyyydddsssss", 14),
   ("ref_x", "ref_pos.trs.x", 13), ("ref_y", "ref_pos.trs.y", 13), ("ref_z", "ref_pos.trs.z", 13),
   ("system", "self.dset.meta['ref_frame']", 6)]

/-- `[start, next start)` of a SinexField table; the last field ends at `total` -/
def sinexFieldIntervals (fields : List (String × Nat)) (total : Nat) : List (String × Nat × Nat) :=
  fields.zipIdx.map fun (f, i) => (f.1, f.2, ((fields.drop (i + 1)).head?.map (·.2)).getD total)

theorem tms_ref_table :
    ((tmsRefMap.map (colEntry tmsRefRow (sinexFieldIntervals tmsRefCoordFields (nominalWidth (tmsRefRow.dropLast))))).all fun e =>
      columnReads tmsRefRow e.1 e.2.1 e.2.2.1 e.2.2.2.1 e.2.2.2.2) = true ∧
    (∀ e ∈ tmsRefMap.map (colEntry tmsRefRow (sinexFieldIntervals tmsRefCoordFields (nominalWidth (tmsRefRow.dropLast)))),
      e.1 < tmsRefRow.length) ∧
    (tmsRefMap.all fun m => match tmsRefRow[cellIndex tmsRefRow m.2.1]? with
      | some (.fld n _) => n == m.2.1 | _ => false) = true := by decide +kernel

/-- `sta_002_columns_aux` for any line table -/
theorem table_columns_roundtrip (row : List Cell) (fields : List (String × Nat × Nat)) (map : List (String × String × Nat))
    (k : Nat)
    (htab : ((map.map (colEntry row fields)).all fun e => columnReads row e.1 e.2.1 e.2.2.1 e.2.2.2.1 e.2.2.2.2) = true ∧
      (∀ e ∈ map.map (colEntry row fields), e.1 < k))
    (vals : List Value) (line : Str) (hfit : allFit (row.take k) vals = true) (hr : renderCells row vals = some line) :
    ∀ m ∈ map, ∃ n sp v rest, row[cellIndex row m.2.1]? = some (.fld n sp) ∧
      vals.drop (fieldCount (row.take (cellIndex row m.2.1))) = v :: rest ∧
      (Clean (v.text sp) = true → padsRight sp v = (sp.align == some Align.right) → (v.text sp).length ≤ m.2.2 →
        strip (Text.slice ((fields.lookup m.1).getD (0, 0)).1 ((fields.lookup m.1).getD (0, 0)).2 (rstrip line)) = v.text sp) := by
  intro m hm
  have he : colEntry row fields m ∈ map.map (colEntry row fields) := List.mem_map.mpr ⟨m, hm, rfl⟩
  obtain ⟨n, sp, v, rest, h1, h2, h3⟩ := columns_roundtrip row _ htab.1 k htab.2 vals line hfit hr _ he
  refine ⟨n, sp, v, rest, h1, h2, ?_⟩
  intro a b c
  have hright : (colEntry row fields m).2.1 = (sp.align == some Align.right) := by
    simp only [colEntry]
    simp only [colEntry] at h1
    rw [h1]
  exact h3 a (by rw [hright]; exact b) c

theorem tms_ref_columns_aux (vals : List Value) (line : Str) (hfit : allFit tmsRefRow vals = true)
    (hr : renderCells tmsRefRow vals = some line) :
    ∀ m ∈ tmsRefMap, ∃ n sp v rest, tmsRefRow[cellIndex tmsRefRow m.2.1]? = some (.fld n sp) ∧
      vals.drop (fieldCount (tmsRefRow.take (cellIndex tmsRefRow m.2.1))) = v :: rest ∧
      (Clean (v.text sp) = true → padsRight sp v = (sp.align == some Align.right) → (v.text sp).length ≤ m.2.2 →
        strip (Text.slice
          (((sinexFieldIntervals tmsRefCoordFields (nominalWidth tmsRefRow.dropLast)).lookup m.1).getD (0, 0)).1
          (((sinexFieldIntervals tmsRefCoordFields (nominalWidth tmsRefRow.dropLast)).lookup m.1).getD (0, 0)).2
          (rstrip line)) = v.text sp) :=
  table_columns_roundtrip tmsRefRow _ tmsRefMap tmsRefRow.length ⟨tms_ref_table.1, tms_ref_table.2.1⟩ vals line
    (by rw [List.take_length]; exact hfit) hr

end Midgard.WriterFiles
