/-
C17 — Bernese CRD: the file the writer produces is read back by parsers/bernese_crd.py to the written stations, DOMES
numbers and coordinates rounded to the printed decimals (helper of Props/C17; generic part in Proofs/WriterFiles.lean).
-/
import Midgard.Proofs.WriterFiles

namespace Midgard.WriterFiles
open Midgard.Text Midgard.Decimal Midgard.FixedCol Midgard.WriterCells Midgard.Writers
open Midgard.Generated.WriterLayouts

theorem mapM_map_opt {α β γ} (f : α → β) (g : β → Option γ) : ∀ (l : List α), (l.map f).mapM g = l.mapM (fun a => g (f a)) := by
  intro l
  induction l with
  | nil => rfl
  | cons a l ih => simp [List.mapM_cons, ih]

theorem mapM_congr_opt {α β} (f g : α → Option β) : ∀ (l : List α), (∀ a ∈ l, f a = g a) → l.mapM f = l.mapM g := by
  intro l
  induction l with
  | nil => intro _; rfl
  | cons a l ih =>
    intro h
    simp [List.mapM_cons, h a (by simp), ih (fun b hb => h b (by simp [hb]))]

/-- what `float` reads in a numeric cell printed with `p` decimals -/
def readBack (p : Nat) : Value → Option Rat
  | .num q => some (fixedValue q p)
  | .int i => some (i : Rat)
  | .negz => some 0
  | .nan => none
  | .str s => parseFloat s

theorem expectField_fix (w p : Nat) (a : Option Align) (v : Value) (h : v.okFor ⟨a, w, some p, .fix⟩ = true) :
    expectField .f8 (⟨a, w, some p, .fix⟩, v) = .f8 (readBack p v) := by
  cases v <;> simp [Value.okFor] at h <;> rfl

/-- the record the CRD parser holds for a written station -/
def crdRecord (e : XyzEntry) : List FieldVal :=
  [.f8 (some ((e.1 : Nat) : Rat)), .u (upper e.2.1.key), .u (e.2.1.domes.getD []),
   .f8 (readBack 5 e.2.2.1), .f8 (readBack 5 e.2.2.2.1), .f8 (readBack 5 e.2.2.2.2), .u ['A']]

/-- the CRD line as the source has it now -/
theorem crd_row_is : rowOf "bernese_crd" =
    [.fld "number" ⟨some .right, 3, none, .any⟩, .lit "  ", .fld "station" ⟨none, 4, none, .any⟩, .lit " ",
     .fld "domes" ⟨none, 9, none, .any⟩, .lit " ", .fld "x" ⟨none, 16, some 5, .fix⟩, .lit " ",
     .fld "y" ⟨none, 14, some 5, .fix⟩, .lit " ", .fld "z" ⟨none, 14, some 5, .fix⟩, .lit " ",
     .fld "flag" ⟨some .right, 4, none, .any⟩, .lit "\n"] := by decide +kernel

theorem crd_lineMatches : lineMatches crdSpec (rowOf "bernese_crd") = true := by decide +kernel

theorem crd_dtypes : crdSpec.dtypes = [.f8, .u 4, .u 10, .f8, .f8, .f8, .u 1] := by decide +kernel

theorem crd_station_idx : crdSpec.names.idxOf "station" = 1 := by decide +kernel

theorem crd_envValues (e : XyzEntry) : envValues (rowOf "bernese_crd") (crdEnv e) = some (crdVals e) := by
  rw [crd_row_is]
  rfl

theorem crd_record (e : XyzEntry) (h : crdEntryOk e = true) :
    List.zipWith expectField crdSpec.dtypes (cellValues (rowOf "bernese_crd") (crdVals e)) = crdRecord e := by
  simp only [crdEntryOk, valsOk, Bool.and_eq_true] at h
  obtain ⟨⟨⟨hfit, _⟩, _⟩, _⟩ := h
  rw [crd_row_is] at hfit ⊢
  rw [crd_dtypes]
  simp only [crdVals, allFit, fitsCell, Bool.and_eq_true, Value.text] at hfit
  obtain ⟨_, ⟨⟨_, hk⟩, ⟨⟨_, hd⟩, ⟨⟨hx, _⟩, ⟨⟨hy, _⟩, ⟨⟨hz, _⟩, _⟩⟩⟩⟩⟩⟩ := hfit
  simp only [crdVals, cellValues, List.zipWith_cons_cons, List.zipWith_nil_right, crdRecord]
  rw [expectField_fix 16 5 none _ hx, expectField_fix 14 5 none _ hy, expectField_fix 14 5 none _ hz]
  simp only [expectField, Value.text]
  have hk' := of_decide_eq_true hk
  have hd' := of_decide_eq_true hd
  rw [List.take_of_length_le hk', List.take_of_length_le (by omega : (e.2.1.domes.getD []).length ≤ 10)]
  simp

theorem crd_file_roundtrip_aux (texts : List Str) (wn : Bool) (sts : List Station)
    (h : crdInRange texts wn sts = true) :
    ∃ file, crdFile texts wn sts = some file ∧ crdParse file = (xyzEntries wn sts).map crdRecord := by
  simp only [crdInRange, Bool.and_eq_true, List.all_eq_true] at h
  obtain ⟨hh, he⟩ := h
  cases hht : headerText "bernese_crd" texts with
  | none => simp [hht] at hh
  | some hdr =>
    rw [hht] at hh
    have hv : ∀ vals ∈ (xyzEntries wn sts).map crdVals, valsOk crdSpec (rowOf "bernese_crd") vals = true := by
      intro vals hvals
      obtain ⟨e, hem, rfl⟩ := List.mem_map.mp hvals
      have := he e hem
      simp only [crdEntryOk, Bool.and_eq_true] at this
      exact this.1
    obtain ⟨lines, hl, hp⟩ := gft_file crdSpec _ crd_lineMatches hdr hh _ hv
    have hbody : crdBody wn sts = some lines := by
      unfold crdBody
      rw [mapM_congr_opt _ (fun e => renderCells (rowOf "bernese_crd") (crdVals e)) _
        (fun e _ => renderNamed_of_envValues _ _ _ (crd_envValues e)), ← mapM_map_opt]
      exact hl
    refine ⟨hdr ++ lines.flatten, by simp [crdFile, fileOf, hht, hbody], ?_⟩
    unfold crdParse
    rw [hp, List.map_map]
    have hrec : (xyzEntries wn sts).map ((fun vals => List.zipWith expectField crdSpec.dtypes
        (cellValues (rowOf "bernese_crd") vals)) ∘ crdVals) = (xyzEntries wn sts).map crdRecord := by
      apply List.map_congr_left
      intro e hem
      exact crd_record e (he e hem)
    rw [hrec]
    unfold dropBlankStations
    rw [List.filter_eq_self]
    intro r hr
    obtain ⟨e, hem, rfl⟩ := List.mem_map.mp hr
    have := he e hem
    simp only [crdEntryOk, Bool.and_eq_true, Bool.not_eq_true', List.isEmpty_eq_false_iff] at this
    rw [crd_station_idx]
    simp [crdRecord, this.2]

end Midgard.WriterFiles
