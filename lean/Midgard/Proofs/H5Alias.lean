/-
C10 — one array object held by several fields: what `Dataset.write` makes of every field, for every dataset (no
`Writable` needed): the write keeps what the memo of `_construct_memo` says about the arrays of the fields (`Stable`), so a
field is written as the array itself iff that memo names this very field for it, else as a `same_as` group.
-/
import Midgard.Proofs.H5WriteAll
namespace Midgard.H5
open Midgard.Dataset

/-- what the memo says about an object it knows is never changed (entries are only added for objects it does not know,
or repeated) -/
def Stable (m m' : WMemo) : Prop := ∀ x q, m.lookup x = some q → m'.lookup x = some q

theorem Stable.refl (m : WMemo) : Stable m m := fun _ _ h => h
theorem Stable.trans {a b c : WMemo} (h1 : Stable a b) (h2 : Stable b c) : Stable a c := fun x q h => h2 x q (h1 x q h)

theorem Stable.cons_same {m : WMemo} {k : Nat} {v : Path} (hk : m.lookup k = some v) : Stable m ((k, v) :: m) := by
  intro x q hx
  simp only [List.lookup]
  split
  · rename_i heq
    have : x = k := by simpa using heq
    subst this
    rw [hk] at hx; exact hx
  · exact hx

theorem Stable.cons_fresh {m : WMemo} {k : Nat} {v : Path} (hk : m.lookup k = none) : Stable m ((k, v) :: m) := by
  intro x q hx
  simp only [List.lookup]
  split
  · rename_i heq
    have : x = k := by simpa using heq
    subst this
    rw [hk] at hx; cases hx
  · exact hx

theorem lookup_cons_self (m : WMemo) (k : Nat) (v : Path) : ((k, v) :: m).lookup k = some v := by
  simp [List.lookup]

/-- `_write` of an array whose own name the memo already has keeps every lookup -/
theorem writeArr_stable (h : Heap) : ∀ (fuel : Nat) (u : Option (List String)) (l : Nat) (o : Nat) (p : Path)
    (memo : WMemo) (g : Grp) (memo' : WMemo), memo.lookup o = some p →
    writeArr h u l fuel o p memo = .ok (g, memo') → Stable memo memo'
  | 0, _, _, _, _, _, _, _, _, hw => by simp [writeArr] at hw
  | fuel + 1, u, l, o, p, memo, g, memo', hp, hw => by
    simp only [writeArr] at hw
    split at hw
    · simp at hw
    · split at hw
      · cases hw; exact Stable.refl _
      · rename_i nm _
        split at hw
        · cases hw; exact Stable.cons_same hp
        · rename_i x _
          split at hw
          · cases hw; exact Stable.cons_same hp
          · rename_i hl
            split at hw
            · simp at hw
            · rename_i gc memoc hrec
              cases hw
              have s1 : Stable memo ((x, p ++ [nm]) :: memo) := Stable.cons_fresh hl
              have s2 : Stable ((x, p ++ [nm]) :: memo) memoc :=
                writeArr_stable h fuel none 3 x (p ++ [nm]) _ gc memoc (lookup_cons_self _ _ _) hrec
              have s12 := s1.trans s2
              exact s12.trans (Stable.cons_same (s12 o p hp))

/-- the attributes `FieldType.write` and `_write` give the group of an array -/
theorem writeArr_attrs (h : Heap) : ∀ (fuel : Nat) (u : Option (List String)) (l : Nat) (o : Nat) (p : Path)
    (memo : WMemo) (g : Grp) (memo' : WMemo), writeArr h u l fuel o p memo = .ok (g, memo') →
    g.src = o ∧ g.attrs.fieldname = p ∧ g.attrs.unit = u ∧ g.attrs.level = l ∧ g.isArr = true
  | 0, _, _, _, _, _, _, _, hw => by simp [writeArr] at hw
  | fuel + 1, u, l, o, p, memo, g, memo', hw => by
    simp only [writeArr] at hw
    split at hw
    · simp at hw
    · split at hw
      · cases hw; exact ⟨rfl, rfl, rfl, rfl, rfl⟩
      · split at hw
        · cases hw; exact ⟨rfl, rfl, rfl, rfl, rfl⟩
        · split at hw
          · cases hw; exact ⟨rfl, rfl, rfl, rfl, rfl⟩
          · split at hw
            · simp at hw
            · cases hw; exact ⟨rfl, rfl, rfl, rfl, rfl⟩

/-- the group `g` is what `FieldType.write` makes of the field when `C` is the memo of `_construct_memo`: the array itself
when the memo names this field for it, else a group without payload that carries the name the memo has (`same_as`) -/
def RepA (C : WMemo) : Field → Path → Grp → Prop
  | .leaf nm _ o _ u l, pre, g =>
    g.src = o ∧ g.attrs.fieldname = pre ++ [nm] ∧ g.attrs.unit = u ∧ g.attrs.level = l ∧
    ((C.lookup o = some (pre ++ [nm]) ∧ g.isArr = true ∧ g.attrs.sameAs = none) ∨
     (∃ name, C.lookup o = some name ∧ name ≠ pre ++ [nm] ∧ g.payload = none ∧ g.subs = [] ∧ g.attrs.sameAs = some name))
  | .coll nm _ l sub, pre, g =>
    ∃ subs mem, g = .mk { fieldname := [nm], level := l, members := mem } none subs ∧ RepLA sub (pre ++ [nm]) subs
where RepLA : List Field → Path → List (String × Grp) → Prop
  | [], _, gs => gs = []
  | f :: fs, pre, gs => ∃ g r, gs = (f.name, g) :: r ∧ RepA C f pre g ∧ RepLA fs pre r

theorem stable_keys {m m' : WMemo} (hs : Stable m m') {x : Nat} (hx : x ∈ keys m) : x ∈ keys m' := by
  cases hl : m.lookup x with
  | none => exact absurd hx ((lookup_none_iff m x).mp hl)
  | some q =>
    have := hs x q hl
    cases hl' : m'.lookup x with
    | none => rw [hl'] at this; cases this
    | some q' => exact mem_keys (wlookup_mem m' x q' hl')

mutual
theorem writeField_repA (h : Heap) (lvl : Nat) (C : WMemo) : ∀ (f : Field) (pre : Path) (memo : WMemo) (g : Grp) (memo' : WMemo),
    Stable C memo → (∀ o ∈ leafObjs [restrictField lvl f], o ∈ keys C) →
    writeField h lvl f pre memo = .ok (g, memo') → RepA C (restrictField lvl f) pre g ∧ Stable memo memo'
  | .leaf nm k o no u l, pre, memo, g, memo', hs, hk, hw => by
    have hko : o ∈ keys C := hk o (by simp [restrictField, leafObjs])
    obtain ⟨q, hq⟩ : ∃ q, C.lookup o = some q := by
      cases hl : C.lookup o with
      | none => exact absurd hko ((lookup_none_iff C o).mp hl)
      | some q => exact ⟨q, rfl⟩
    have hmq : memo.lookup o = some q := hs o q hq
    simp only [writeField, aliasOf, hmq] at hw
    by_cases hqp : q = pre ++ [nm]
    · subst hqp
      simp only [beq_self_eq_true, if_true] at hw
      split at hw
      · simp at hw
      · rename_i g0 m0 hwa
        obtain ⟨a1, a2, a3, a4, a5⟩ := writeArr_attrs h _ u l o _ memo g0 m0 hwa
        have st := writeArr_stable h _ u l o _ memo g0 m0 hmq hwa
        have hm0 : (m0.lookup o).isNone = false := by rw [st o _ hmq]; rfl
        simp only [hm0, Bool.false_eq_true, if_false, Except.ok.injEq, Prod.mk.injEq] at hw
        obtain ⟨rfl, rfl⟩ := hw
        exact ⟨⟨a1, a2, a3, a4, Or.inl ⟨hq, a5, writeArr_sameAs h _ u l o _ memo _ _ hwa⟩⟩, st⟩
    · have : (q == pre ++ [nm]) = false := by simpa using hqp
      simp only [this, Bool.false_eq_true, if_false, Except.ok.injEq, Prod.mk.injEq] at hw
      obtain ⟨rfl, rfl⟩ := hw
      exact ⟨⟨rfl, rfl, rfl, rfl, Or.inr ⟨q, hq, hqp, rfl, rfl, rfl⟩⟩, Stable.refl _⟩
  | .coll nm no l sub, pre, memo, g, memo', hs, hk, hw => by
    simp only [writeField] at hw
    split at hw
    · simp at hw
    · rename_i subs mem m1 hws
      cases hw
      obtain ⟨r, st⟩ := writeFields_repA h lvl C sub (pre ++ [nm]) memo subs mem _ hs
        (by intro o ho; apply hk; simpa [restrictField, leafObjs] using ho) hws
      exact ⟨⟨subs, mem, rfl, r⟩, st⟩
theorem writeFields_repA (h : Heap) (lvl : Nat) (C : WMemo) : ∀ (fs : List Field) (pre : Path) (memo : WMemo)
    (groups : List (String × Grp)) (mem : List (String × Option Kind)) (memo' : WMemo),
    Stable C memo → (∀ o ∈ leafObjs (restrictFields lvl fs), o ∈ keys C) →
    writeField.writeFields h lvl fs pre memo = .ok (groups, mem, memo') →
    RepA.RepLA C (restrictFields lvl fs) pre groups ∧ Stable memo memo'
  | [], pre, memo, groups, mem, memo', _, _, hw => by
    simp only [writeField.writeFields, Except.ok.injEq, Prod.mk.injEq] at hw
    obtain ⟨rfl, _, rfl⟩ := hw
    exact ⟨by simp [restrictFields, RepA.RepLA], Stable.refl _⟩
  | f :: fs, pre, memo, groups, mem, memo', hs, hk, hw => by
    by_cases hlv : Field.level f < lvl
    · rw [restrict_skip hlv] at hk ⊢
      simp only [writeField.writeFields, hlv, if_true] at hw
      exact writeFields_repA h lvl C fs pre memo groups mem memo' hs hk hw
    · rw [restrict_keep hlv] at hk ⊢
      simp only [writeField.writeFields, hlv, if_false] at hw
      split at hw
      · simp at hw
      · rename_i g memo1 hw1
        split at hw
        · simp at hw
        · rename_i subs mem2 memo2 hw2
          simp only [Except.ok.injEq, Prod.mk.injEq] at hw
          obtain ⟨rfl, _, rfl⟩ := hw
          obtain ⟨r1, st1⟩ := writeField_repA h lvl C f pre memo g memo1 hs
            (by intro o ho; apply hk; rw [leafObjs_cons]; exact List.mem_append_left _ ho) hw1
          obtain ⟨r2, st2⟩ := writeFields_repA h lvl C fs pre memo1 subs mem2 _ (hs.trans st1)
            (by intro o ho; apply hk; rw [leafObjs_cons]; exact List.mem_append_right _ ho) hw2
          refine ⟨?_, st1.trans st2⟩
          simp only [RepA.RepLA]
          exact ⟨g, subs, by rw [restrictField_name], r1, r2⟩
end

end Midgard.H5
