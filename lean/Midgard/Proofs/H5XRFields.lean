/-
C10 — `Dataset.read` for the model with the `time` attribute of positions (`readBackX`): the statements of
`Proofs/H5R2Leaf.lean` / `H5R2Fields.lean` over `readArrX` (generated from them by renaming), and the whole round trip
`roundTrip_coreX`.
-/
import Midgard.Proofs.H5XR
import Midgard.Proofs.H5R2Fields

namespace Midgard.H5
open Midgard.Dataset

theorem readRef_memo_mono {rd : Grp → RSt → M (Nat × RSt)}
    (hrd : ∀ g s n s', rd g s = .ok (n, s') → MemoMono s s') (t : Option (Path × Option Grp)) (s : RSt) (r : Option Nat) (s1 : RSt)
    (hrr : readRef rd t s = .ok (r, s1)) : MemoMono s s1 := by
  cases t with
  | none => simp only [readRef] at hrr; cases hrr; exact MemoMono.refl _
  | some x =>
    obtain ⟨name, og⟩ := x
    simp only [readRef] at hrr
    split at hrr
    · cases hrr; exact MemoMono.refl _
    · split at hrr
      · simp at hrr
      · split at hrr
        · simp at hrr
        · rename_i g' o1 s2 hrec
          cases hrr
          exact (hrd _ _ _ _ hrec).trans (MemoMono.set _ _ _)

theorem readArrX_memo_mono (file : File) : ∀ (fuel : Nat) (g : Grp) (s : RSt) (n : Nat) (s' : RSt),
    readArrX file fuel g s = .ok (n, s') → MemoMono s s'
  | 0, _, _, _, _, hr => by simp [readArrX] at hr
  | fuel + 1, .mk a payload subs, s, n, s', hr => by
    simp only [readArrX] at hr
    split at hr
    · simp at hr
    · rename_i ob
      split at hr
      · -- no attribute
        simp only [allocX] at hr
        split at hr
        · cases hr
          exact (MemoMono.of_memo_eq (s := s) rfl).trans (MemoMono.set _ _ _)
        · cases hr
          exact MemoMono.of_memo_eq rfl
      · rename_i nm _
        split at hr
        · simp at hr
        · rename_i r s1 hrr
          have h1 : MemoMono s s1 := readRef_memo_mono (readArrX_memo_mono file fuel) _ _ _ _ hrr
          split at hr
          · simp at hr
          · rename_i t s2 hrt
            have h2 : MemoMono s1 s2 := readRef_memo_mono (readArrX_memo_mono file fuel) _ _ _ _ hrt
            split at hr
            · simp at hr
            · simp only [allocX] at hr
              cases hr
              exact h1.trans (h2.trans ((MemoMono.of_memo_eq (s := s2) rfl).trans (MemoMono.set _ _ _)))

/-- what reading the fields `fs` (flattened: the objects `leafObjs fs`) does to the injection -/
structure RPostX (h : Heap) (tm : TM) (file : File) (fs : List Field) (ρ : Rho) (s' : RSt) (ρ' : Rho) : Prop where
  inv : RInvX h tm file ρ' s'
  ext : Ext ρ ρ'
  dom : ∀ o ∈ leafObjs fs, ρ'.lookup o ≠ none
  new : ∀ z, ρ'.lookup z ≠ none → ρ.lookup z ≠ none ∨ z ∈ leafObjs fs ∨ Registers h z


theorem RPostX.cons {h : Heap} {tm : TM} {file : File} {f : Field} {fs : List Field} {ρ ρ1 ρ2 : Rho} {s1 s2 : RSt}
    (p1 : RPostX h tm file [f] ρ s1 ρ1) (p2 : RPostX h tm file fs ρ1 s2 ρ2) : RPostX h tm file (f :: fs) ρ s2 ρ2 where
  inv := p2.inv
  ext := p1.ext.trans p2.ext
  dom := by
    intro o ho
    rw [leafObjs_cons] at ho
    rcases List.mem_append.mp ho with ho | ho
    · have := p1.dom o ho
      cases hl : ρ1.lookup o with
      | none => exact absurd hl this
      | some n => rw [p2.ext o n hl]; simp
    · exact p2.dom o ho
  new := by
    intro z hz
    rw [leafObjs_cons]
    rcases p2.new z hz with h0 | h0 | h0
    · rcases p1.new z h0 with h1 | h1 | h1
      · exact Or.inl h1
      · exact Or.inr (Or.inl (List.mem_append_left _ h1))
      · exact Or.inr (Or.inr h1)
    · exact Or.inr (Or.inl (List.mem_append_right _ h0))
    · exact Or.inr (Or.inr h0)


theorem readLeaf_specX (h : Heap) (tm : TM) (file : File) (hh : HeapWFX h tm) (fo : FileOKX h tm file) (fa : Nat) (hfa : h.length + 1 ≤ fa)
    (C : WMemo) (nm : String) (k : Kind) (o no : Nat) (u : Option (List String)) (l : Nat) (pre : Path) (g : Grp) (s : RSt)
    (ρ : Rho) (depth : Nat) (T : List Path) (inv : RInvX h tm file ρ s)
    (hl : lookupGrp file.groups (pre ++ [nm]) = some g)
    (hrep : RepG (KFile C file) (.leaf nm k o no u l) pre g) (hok : fieldsOK h file.numObs [.leaf nm k o no u l] = true)
    (hfr : Fr h file ρ s ((pre ++ [nm]) :: T)) (hnin : pre ++ [nm] ∉ T)
    (hal : ∀ name, g.attrs.sameAs = some name → name ∈ T) :
    ∃ s' ρ', readFieldX file fa (depth + 1) (some k) g s = .ok (renameField (phi ρ') (.leaf nm k o no u l), s') ∧
      RPostX h tm file [.leaf nm k o no u l] ρ s' ρ' ∧ Fr h file ρ' s' T := by
  obtain ⟨ho, hno, hu⟩ := fieldsOK_leaf hok
  simp only [RepG] at hrep
  obtain ⟨hsrc, hfn, hun, hlv, hcase⟩ := hrep
  have hob : h[o]? = some h[o] := List.getElem?_eq_getElem ho
  have hlen : ∀ (s' : RSt) (ρ' : Rho) (n : Nat), RInvX h tm file ρ' s' → ρ'.lookup o = some n → objLen s'.heap n = no := by
    intro s' ρ' n inv' hn
    obtain ⟨ob, r', h1, h2, _⟩ := inv'.img o n hn
    rw [hob] at h1
    cases h1
    simp only [objLen, h2, withRef_rows]
    rw [hno]; simp [objLen, hob]
  have hsubT : ∀ P ∈ T, P ∈ (pre ++ [nm]) :: T := fun P hP => List.mem_cons_of_mem _ hP
  -- a plain or registering object that the memo does not know under the path of its array group has not been read
  have hunread : ∀ (P : Path) (gt : Grp), lookupGrp file.groups P = some gt → gt.isArr = true → gt.src = o →
      P ∈ (pre ++ [nm]) :: T → s.memo.lookup P = none → ρ.lookup o = none := by
    intro P gt hlt hat hst hP hmiss
    cases hol : ρ.lookup o with
    | none => rfl
    | some m =>
      by_cases hr : Registers h o
      · have := inv.reg o m hol hr P gt hlt hat hst
        rw [hmiss] at this
        cases this
      · exact absurd hmiss (hfr o hr (by rw [hol]; simp) P gt hlt hat hst hP)
  cases g with
  | mk a p subs =>
    simp only [Grp.attrs_mk] at hfn hun hlv hcase hal
    simp only [Grp.src_mk] at hsrc
    rcases hcase with ⟨ha, hsa⟩ | ⟨name, ha, hsa, hne, hC, gt, hlt, hat, hst⟩
    · -- the array group
      have hra : ∀ s : RSt, resolveAliasX file fa a s = .ok s := fun s => by simp only [resolveAliasX, hsa]
      cases hml : s.memo.lookup (pre ++ [nm]) with
      | some n =>
        obtain ⟨g'', h1, h3⟩ := inv.memo _ n hml
        rw [hl] at h1
        cases h1
        simp only [Grp.src_mk, hsrc] at h3
        refine ⟨s, ρ, ?_, ⟨inv, Ext.refl ρ, ?_, fun z hz => Or.inl hz⟩, hfr.sub (MemoMono.refl s) hsubT⟩
        · simp only [readFieldX, hra, hfn, hml, renameField, phi_of_lookup h3, hlen s ρ n inv h3, hun, readUnit_ok u hu, hlv,
            lastName_snoc]
        · intro x hx
          simp only [leafObjs, List.mem_singleton] at hx
          rw [hx, h3]; simp
      | none =>
        have hon : ρ.lookup o = none := hunread _ _ hl ha (by simpa using hsrc) (by simp) hml
        obtain ⟨n, s', ρ', hrd, inv', hext, hlk, hnew⟩ := readArrX_spec h tm file hh fo fa (pre ++ [nm]) _ s ρ inv hl ha
          (by simp only [Grp.src_mk, hsrc]; exact Or.inr (by omega)) (by simp only [Grp.src_mk, hsrc]; exact hon)
        simp only [Grp.src_mk, hsrc] at hlk hnew
        have hmm := readArrX_memo_mono file fa _ s n s' hrd
        refine ⟨s', ρ', ?_, ⟨inv', hext, ?_, ?_⟩, ?_⟩
        · simp only [readFieldX, hra, hfn, hml, hrd, renameField, phi_of_lookup hlk, hlen s' ρ' n inv' hlk, hun, readUnit_ok u hu,
            hlv, lastName_snoc]
        · intro x hx
          simp only [leafObjs, List.mem_singleton] at hx
          rw [hx, hlk]; simp
        · intro z hz
          rcases hnew z hz with h0 | h0 | h0
          · exact Or.inl h0
          · exact Or.inr (Or.inl (by simp [leafObjs, h0]))
          · exact Or.inr (Or.inr h0.1)
        · intro x hr hx P gt hlt hat hst hP
          rcases hnew x hx with h0 | h0 | h0
          · exact hmm P (hfr x hr h0 P gt hlt hat hst (hsubT P hP))
          · exfalso
            have : P = pre ++ [nm] := fo.uniq P gt _ _ hlt hl hat ha (by rw [hst, h0]; simpa using hsrc.symm)
            exact hnin (this ▸ hP)
          · exact absurd h0.1 hr
    · -- a `same_as` group
      have hnT : name ∈ T := hal name hsa
      obtain ⟨at0, ob0, subs0, rfl, _, hfn0, _⟩ := fo.node name gt hlt hat
      simp only [Grp.src_mk] at hst
      cases hmn : s.memo.lookup name with
      | some n =>
        obtain ⟨g'', h1, h3⟩ := inv.memo _ n hmn
        rw [hlt] at h1
        cases h1
        simp only [Grp.src_mk, hst] at h3
        have hra : resolveAliasX file fa a s = .ok (s.set a.fieldname n) := by simp only [resolveAliasX, hsa, hmn]
        have hself : (s.set a.fieldname n).memo.lookup a.fieldname = some n := set_lookup_self _ _ _
        have inv1 : RInvX h tm file ρ (s.set (pre ++ [nm]) n) := inv.set hl (by simpa [hsrc] using h3)
        refine ⟨s.set (pre ++ [nm]) n, ρ, ?_, ⟨inv1, Ext.refl ρ, ?_, fun z hz => Or.inl hz⟩,
          hfr.sub (MemoMono.set _ _ _) hsubT⟩
        · simp only [readFieldX, hra, hself]
          simp only [hfn, renameField, phi_of_lookup h3, hlen _ ρ n inv1 h3, hun, readUnit_ok u hu, hlv, lastName_snoc]
        · intro x hx
          simp only [leafObjs, List.mem_singleton] at hx
          rw [hx, h3]; simp
      | none =>
        have hon : ρ.lookup o = none := hunread name _ hlt hat (by simpa using hst) (List.mem_cons_of_mem _ hnT) hmn
        obtain ⟨n, s1, ρ1, hrd, inv1, hext, hlk, hnew⟩ := readArrX_spec h tm file hh fo fa name _ s ρ inv hlt hat
          (by simp only [Grp.src_mk, hst]; exact Or.inr (by omega)) (by simp only [Grp.src_mk, hst]; exact hon)
        simp only [Grp.src_mk, hst] at hlk hnew
        have hmm := readArrX_memo_mono file fa _ s n s1 hrd
        have hfr0 : fieldReadX file fa (Grp.mk at0 (some ob0.strip) subs0) s = .ok (n, s1) := by
          simp only [fieldReadX, Grp.attrs_mk, hfn0, hmn, hrd]
        have hra : resolveAliasX file fa a s = .ok ((s1.set name n).set a.fieldname n) := by
          simp only [resolveAliasX, hsa, hmn, hlt, hfr0]
        have hself : ((s1.set name n).set a.fieldname n).memo.lookup a.fieldname = some n := set_lookup_self _ _ _
        have inv2 : RInvX h tm file ρ1 ((s1.set name n).set (pre ++ [nm]) n) :=
          (inv1.set hlt (by simpa [hst] using hlk)).set hl (by simpa [hsrc] using hlk)
        have hmm2 : MemoMono s ((s1.set name n).set (pre ++ [nm]) n) :=
          hmm.trans ((MemoMono.set _ _ _).trans (MemoMono.set _ _ _))
        refine ⟨(s1.set name n).set (pre ++ [nm]) n, ρ1, ?_, ⟨inv2, hext, ?_, ?_⟩, ?_⟩
        · simp only [readFieldX, hra, hself]
          simp only [hfn, renameField, phi_of_lookup hlk, hlen _ ρ1 n inv2 hlk, hun, readUnit_ok u hu, hlv, lastName_snoc]
        · intro x hx
          simp only [leafObjs, List.mem_singleton] at hx
          rw [hx, hlk]; simp
        · intro z hz
          rcases hnew z hz with h0 | h0 | h0
          · exact Or.inl h0
          · exact Or.inr (Or.inl (by simp [leafObjs, h0]))
          · exact Or.inr (Or.inr h0.1)
        · intro x hr hx P gt' hlt' hat' hst' hP
          rcases hnew x hx with h0 | h0 | h0
          · exact hmm2 P (hfr x hr h0 P gt' hlt' hat' hst' (hsubT P hP))
          · have hPn : P = name := fo.uniq P gt' _ _ hlt' hlt hat' hat (by rw [hst', h0]; simpa using hst.symm)
            rw [hPn]
            exact MemoMono.set _ _ _ name (by rw [set_lookup_self]; simp)
          · exact absurd h0.1 hr


mutual
theorem readField_specX (h : Heap) (tm : TM) (file : File) (hh : HeapWFX h tm) (fo : FileOKX h tm file) (fa : Nat) (hfa : h.length + 1 ≤ fa)
    (C : WMemo) : ∀ (f : Field) (pre : Path) (g : Grp) (s : RSt) (ρ : Rho) (depth : Nat) (rest : List Path),
    RInvX h tm file ρ s → lookupGrp file.groups (pre ++ [f.name]) = some g → NamesOKG g → RepG (KFile C file) f pre g →
    fieldsOK h file.numObs [f] = true → Fr h file ρ s (pathsOf [f] pre ++ rest) → (pathsOf [f] pre ++ rest).Nodup →
    AliasOrd C (leafPaths [f] pre) rest → fieldsDepth [f] ≤ depth →
    ∃ s' ρ', readFieldX file fa depth (fieldType f) g s = .ok (renameField (phi ρ') f, s') ∧ RPostX h tm file [f] ρ s' ρ' ∧
      Fr h file ρ' s' rest
  | .leaf nm k o no u l, pre, g, s, ρ, depth, rest, inv, hl, _, hrep, hok, hfr, hnd, hao, hd => by
    obtain ⟨d, rfl⟩ : ∃ d, depth = d + 1 := by
      simp only [fieldsDepth] at hd
      exact ⟨depth - 1, by omega⟩
    have hT : pathsOf [Field.leaf nm k o no u l] pre ++ rest = (pre ++ [nm]) :: rest := by simp [pathsOf, leafPaths]
    rw [hT] at hfr hnd
    have hal : ∀ name, g.attrs.sameAs = some name → name ∈ rest := by
      intro name hsa
      have hrep' := hrep
      simp only [RepG] at hrep'
      obtain ⟨_, _, _, _, hcase⟩ := hrep'
      rcases hcase with ⟨_, hnone⟩ | ⟨name', _, hsa', hne, hC, _⟩
      · rw [hnone] at hsa; cases hsa
      · rw [hsa'] at hsa
        cases hsa
        simp only [leafPaths, AliasOrd, List.map_nil, List.nil_append, and_true] at hao
        rcases hao with hao | ⟨n2, hn2, hin⟩
        · rw [hC] at hao; exact absurd (Option.some.inj hao) hne
        · rw [hC] at hn2; cases hn2; exact hin
    exact readLeaf_specX h tm file hh fo fa hfa C nm k o no u l pre g s ρ d rest inv hl hrep hok hfr
      (List.nodup_cons.mp hnd).1 hal
  | .coll nm no l sub, pre, g, s, ρ, depth, rest, inv, hl, hng, hrep, hok, hfr, hnd, hao, hd => by
    obtain ⟨d, rfl, hd'⟩ : ∃ d, depth = d + 1 ∧ fieldsDepth sub ≤ d := by
      simp only [fieldsDepth] at hd
      exact ⟨depth - 1, by omega, by omega⟩
    obtain ⟨hno, hoks⟩ := fieldsOK_coll hok
    simp only [RepG] at hrep
    obtain ⟨subs, rfl, hrl⟩ := hrep
    simp only [NamesOKG] at hng
    replace hl : lookupGrp file.groups (pre ++ [nm]) = some _ := hl
    have hsubs : ∀ nm' g', (nm', g') ∈ subs → lookupGrp file.groups (pre ++ [nm] ++ [nm']) = some g' := by
      intro nm' g' hm
      rw [lookupGrp_snoc _ _ _ nm' hl]
      exact lookup_of_namesOK hng hm
    have hP : pathsOf [Field.coll nm no l sub] pre = pathsOf sub (pre ++ [nm]) := by
      simp only [pathsOf, leafPaths_coll_single]
    rw [hP] at hfr hnd
    rw [leafPaths_coll_single] at hao
    obtain ⟨s', ρ', hrd, post, hfr'⟩ := readMembers_specX h tm file hh fo fa hfa C sub (pre ++ [nm]) subs s ρ d rest inv hng hsubs
      (RepGL_mem sub _ subs hrl) hoks hfr hnd hao hd'
    refine ⟨s', ρ', ?_, ?_, hfr'⟩
    · have hft : fieldType (Field.coll nm no l sub) = none := rfl
      rw [hft]
      simp only [readFieldX, hrd, renameField, lastName_single, hno]
    · exact ⟨post.inv, post.ext, by rw [leafObjs_coll_single]; exact post.dom,
        by rw [leafObjs_coll_single]; exact post.new⟩
theorem readMembers_specX (h : Heap) (tm : TM) (file : File) (hh : HeapWFX h tm) (fo : FileOKX h tm file) (fa : Nat) (hfa : h.length + 1 ≤ fa)
    (C : WMemo) : ∀ (fs : List Field) (pre : Path) (subs : List (String × Grp)) (s : RSt) (ρ : Rho) (depth : Nat)
    (rest : List Path),
    RInvX h tm file ρ s → NamesOKG.NamesOKL subs →
    (∀ nm g, (nm, g) ∈ subs → lookupGrp file.groups (pre ++ [nm]) = some g) →
    (∀ f ∈ fs, ∃ g, (f.name, g) ∈ subs ∧ RepG (KFile C file) f pre g) →
    fieldsOK h file.numObs fs = true → Fr h file ρ s (pathsOf fs pre ++ rest) → (pathsOf fs pre ++ rest).Nodup →
    AliasOrd C (leafPaths fs pre) rest → fieldsDepth fs ≤ depth →
    ∃ s' ρ', readMembers (readFieldX file fa depth) (fs.map (fun f => (f.name, fieldType f))) subs s =
        .ok (renameFields (phi ρ') fs, s') ∧ RPostX h tm file fs ρ s' ρ' ∧ Fr h file ρ' s' rest
  | [], pre, subs, s, ρ, depth, rest, inv, _, _, _, _, hfr, _, _, _ => by
    refine ⟨s, ρ, by simp [readMembers, renameFields], ⟨inv, Ext.refl ρ, ?_, fun z hz => Or.inl hz⟩, ?_⟩
    · intro o ho; simp [leafObjs] at ho
    · simpa [pathsOf, leafPaths] using hfr
  | f :: fs, pre, subs, s, ρ, depth, rest, inv, hns, hsubs, hrep, hok, hfr, hnd, hao, hd => by
    obtain ⟨g, hm, hrf⟩ := hrep f (by simp)
    obtain ⟨hok1, hok2⟩ := fieldsOK_cons h _ f fs hok
    obtain ⟨hd1, hd2⟩ := fieldsDepth_cons f fs hd
    rw [pathsOf_cons, List.append_assoc] at hfr hnd
    rw [leafPaths_cons, AliasOrd_append] at hao
    obtain ⟨hao1, hao2⟩ := hao
    obtain ⟨s1, ρ1, hrd1, p1, hfr1⟩ := readField_specX h tm file hh fo fa hfa C f pre g s ρ depth (pathsOf fs pre ++ rest) inv
      (hsubs _ g hm) (namesOK_of_mem hns hm) hrf hok1 hfr hnd hao1 hd1
    obtain ⟨s2, ρ2, hrd2, p2, hfr2⟩ := readMembers_specX h tm file hh fo fa hfa C fs pre subs s1 ρ1 depth rest p1.inv hns hsubs
      (fun f' hf' => hrep f' (List.mem_cons_of_mem _ hf')) hok2 hfr1 (List.nodup_append.mp hnd).2.1 hao2 hd2
    refine ⟨s2, ρ2, ?_, RPostX.cons p1 p2, hfr2⟩
    have hcong : renameField (phi ρ1) f = renameField (phi ρ2) f := by
      apply renameField_congr
      intro o ho
      have := p1.dom o ho
      cases hl : ρ1.lookup o with
      | none => exact absurd hl this
      | some n => rw [phi_of_lookup hl, phi_of_lookup (p2.ext o n hl)]
    simp only [List.map_cons, readMembers, lookup_of_namesOK hns hm, hrd1, hrd2, renameFields_cons, hcong]
end

/-- `memo[fieldname] = field.data` after a top-level field -/
theorem regTop_invX {K : Nat → Path → Prop} {h : Heap} {tm : TM} {file : File} {f : Field} {g : Grp} {ρ ρ1 : Rho} {s1 : RSt}
    (p1 : RPostX h tm file [f] ρ s1 ρ1) (hl : lookupGrp file.groups [f.name] = some g) (hrf : RepG K f [] g) :
    RPostX h tm file [f] ρ (regTop f.name (renameField (phi ρ1) f) s1) ρ1 ∧
      MemoMono s1 (regTop f.name (renameField (phi ρ1) f) s1) := by
  cases f with
  | coll nm no l sub => exact ⟨p1, MemoMono.refl _⟩
  | leaf nm k o no u l =>
    simp only [RepG] at hrf
    obtain ⟨hsrc, _⟩ := hrf
    have hdom := p1.dom o (by simp [leafObjs])
    cases hlo : ρ1.lookup o with
    | none => exact absurd hlo hdom
    | some n =>
      simp only [renameField, regTop, Field.name, phi_of_lookup hlo]
      exact ⟨⟨p1.inv.set hl (by rw [hsrc]; exact hlo), p1.ext, p1.dom, p1.new⟩, MemoMono.set _ _ _⟩

theorem readTop_specX (h : Heap) (tm : TM) (file : File) (hh : HeapWFX h tm) (fo : FileOKX h tm file) (fa : Nat) (hfa : h.length + 1 ≤ fa)
    (C : WMemo) : ∀ (fs : List Field) (s : RSt) (ρ : Rho) (fd : Nat) (rest : List Path),
    RInvX h tm file ρ s → (∀ f ∈ fs, ∃ g, (f.name, g) ∈ file.groups ∧ RepG (KFile C file) f [] g) →
    fieldsOK h file.numObs fs = true → Fr h file ρ s (pathsOf fs [] ++ rest) → (pathsOf fs [] ++ rest).Nodup →
    AliasOrd C (leafPaths fs []) rest → fieldsDepth fs ≤ fd →
    ∃ s' ρ', readTopX file fa fd (fs.map (fun f => (f.name, fieldType f))) s = .ok (renameFields (phi ρ') fs, s') ∧
      RPostX h tm file fs ρ s' ρ'
  | [], s, ρ, fd, rest, inv, _, _, _, _, _, _ => by
    refine ⟨s, ρ, by simp [readTopX, renameFields], inv, Ext.refl ρ, ?_, fun z hz => Or.inl hz⟩
    intro o ho; simp [leafObjs] at ho
  | f :: fs, s, ρ, fd, rest, inv, hrep, hok, hfr, hnd, hao, hd => by
    obtain ⟨g, hm, hrf⟩ := hrep f (by simp)
    obtain ⟨hok1, hok2⟩ := fieldsOK_cons h _ f fs hok
    obtain ⟨hd1, hd2⟩ := fieldsDepth_cons f fs hd
    rw [pathsOf_cons, List.append_assoc] at hfr hnd
    rw [leafPaths_cons, AliasOrd_append] at hao
    obtain ⟨hao1, hao2⟩ := hao
    have hlk : file.groups.lookup f.name = some g := lookup_of_namesOK fo.names hm
    have hl : lookupGrp file.groups [f.name] = some g := by rw [lookupGrp_single]; exact hlk
    obtain ⟨s1, ρ1, hrd1, p1, hfr1⟩ := readField_specX h tm file hh fo fa hfa C f [] g s ρ fd (pathsOf fs [] ++ rest) inv
      (by simpa using hl) (namesOK_of_mem fo.names hm) hrf hok1 hfr hnd hao1 hd1
    obtain ⟨p1', hmm⟩ := regTop_invX p1 hl hrf
    obtain ⟨s2, ρ2, hrd2, p2⟩ := readTop_specX h tm file hh fo fa hfa C fs _ ρ1 fd rest p1'.inv
      (fun f' hf' => hrep f' (List.mem_cons_of_mem _ hf')) hok2 (hfr1.sub hmm (fun _ hP => hP))
      (List.nodup_append.mp hnd).2.1 hao2 hd2
    refine ⟨s2, ρ2, ?_, RPostX.cons p1' p2⟩
    have hcong : renameField (phi ρ1) f = renameField (phi ρ2) f := by
      apply renameField_congr
      intro o ho
      have := p1.dom o ho
      cases hl : ρ1.lookup o with
      | none => exact absurd hl this
      | some n => rw [phi_of_lookup hl, phi_of_lookup (p2.ext o n hl)]
    simp only [List.map_cons, readTopX, hlk, hrd1, hrd2]
    rw [renameFields_cons, hcong]


end Midgard.H5
