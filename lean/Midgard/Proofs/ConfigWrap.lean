/-
Helper lemmas for C19 (text round trip), part A: the shape of what `textwrap` produces for a text
made of words separated by runs of blanks.  Mathlib-free.
-/
import Midgard.Model.Config

namespace Midgard.Proofs.ConfigText
open Midgard.Config

/-- a word chunk: non-empty, no space character -/
def IsWord (x : List Char) : Prop := x ≠ [] ∧ ∀ c ∈ x, c ≠ ' '
/-- a blank chunk: non-empty, only space characters -/
def IsSpaces (s : List Char) : Prop := s ≠ [] ∧ ∀ c ∈ s, c = ' '

abbrev Pair := List Char × List Char

/-- an alternating chunk list `x0, s1, x1, s2, x2, …` -/
def flatAlt (x0 : List Char) (ps : List Pair) : List (List Char) := x0 :: ps.flatMap (fun p => [p.1, p.2])

def PairsOK (ps : List Pair) : Prop := ∀ p ∈ ps, IsSpaces p.1 ∧ IsWord p.2

theorem isSpaceChunk_spaces {s : List Char} (h : IsSpaces s) : isSpaceChunk s = true := by
  simp only [isSpaceChunk, List.all_eq_true, decide_eq_true_eq]
  exact h.2

theorem isSpaceChunk_word {x : List Char} (h : IsWord x) : isSpaceChunk x = false := by
  obtain ⟨hne, hc⟩ := h
  cases x with
  | nil => exact absurd rfl hne
  | cons c t => simp [isSpaceChunk, hc c (by simp)]

theorem flatAlt_snoc (x0 : List Char) (a : List Pair) (s x : List Char) :
    flatAlt x0 (a ++ [(s, x)]) = flatAlt x0 a ++ [s, x] := by
  simp [flatAlt, List.flatMap_append]

theorem flatAlt_append (x0 : List Char) (a b : List Pair) :
    flatAlt x0 (a ++ b) = flatAlt x0 a ++ b.flatMap (fun p => [p.1, p.2]) := by
  simp [flatAlt, List.flatMap_append]

theorem flatMap_cons_pair (s x : List Char) (b : List Pair) :
    ((s, x) :: b).flatMap (fun p => [p.1, p.2]) = s :: flatAlt x b := by
  simp [flatAlt]

/-- how a prefix can cut an alternating list (below the leading word) -/
theorem flatMap_split (ps : List Pair) (cur rest : List (List Char))
    (h : cur ++ rest = ps.flatMap (fun p => [p.1, p.2])) :
    (∃ a b, ps = a ++ b ∧ cur = a.flatMap (fun p => [p.1, p.2]) ∧ rest = b.flatMap (fun p => [p.1, p.2])) ∨
    (∃ a s x b, ps = a ++ (s, x) :: b ∧ cur = a.flatMap (fun p => [p.1, p.2]) ++ [s] ∧ rest = flatAlt x b) := by
  induction ps generalizing cur with
  | nil =>
    simp at h
    exact Or.inl ⟨[], [], by simp, by simp [h.1], by simp [h.2]⟩
  | cons p t ih =>
    obtain ⟨s, x⟩ := p
    simp only [List.flatMap_cons, List.cons_append, List.nil_append] at h
    cases cur with
    | nil =>
      simp at h
      exact Or.inl ⟨[], (s, x) :: t, by simp, by simp, by simp [h]⟩
    | cons c1 cur1 =>
      simp only [List.cons_append, List.cons.injEq] at h
      obtain ⟨h1, h2⟩ := h
      subst h1
      cases cur1 with
      | nil =>
        simp at h2
        exact Or.inr ⟨[], c1, x, t, by simp, by simp, by simp [flatAlt, h2]⟩
      | cons c2 cur2 =>
        simp only [List.cons_append, List.cons.injEq] at h2
        obtain ⟨h3, h4⟩ := h2
        subst h3
        rcases ih cur2 h4 with ⟨a, b, e1, e2, e3⟩ | ⟨a, s', x', b, e1, e2, e3⟩
        · exact Or.inl ⟨(c1, c2) :: a, b, by simp [e1], by simp [e2], e3⟩
        · exact Or.inr ⟨(c1, c2) :: a, s', x', b, by simp [e1], by simp [e2], e3⟩

theorem flatAlt_split (x0 : List Char) (ps : List Pair) (cur rest : List (List Char))
    (hne : cur ≠ []) (h : cur ++ rest = flatAlt x0 ps) :
    (∃ a b, ps = a ++ b ∧ cur = flatAlt x0 a ∧ rest = b.flatMap (fun p => [p.1, p.2])) ∨
    (∃ a s x b, ps = a ++ (s, x) :: b ∧ cur = flatAlt x0 a ++ [s] ∧ rest = flatAlt x b) := by
  cases cur with
  | nil => exact absurd rfl hne
  | cons c cur' =>
    simp only [flatAlt, List.cons_append, List.cons.injEq] at h
    obtain ⟨h1, h2⟩ := h
    subst h1
    rcases flatMap_split ps cur' rest h2 with ⟨a, b, e1, e2, e3⟩ | ⟨a, s, x, b, e1, e2, e3⟩
    · exact Or.inl ⟨a, b, e1, by simp [flatAlt, e2], e3⟩
    · exact Or.inr ⟨a, s, x, b, e1, by simp [flatAlt, e2], e3⟩

theorem dropTrailingSpace_snoc (l : List (List Char)) (ch : List Char) :
    dropTrailingSpace (l ++ [ch]) = if isSpaceChunk ch then l else l ++ [ch] := by
  simp [dropTrailingSpace]

theorem dropTrailingSpace_flatAlt (x0 : List Char) (a : List Pair) (hx : IsWord x0) (ha : PairsOK a) :
    dropTrailingSpace (flatAlt x0 a) = flatAlt x0 a := by
  rcases List.eq_nil_or_concat a with h | ⟨a', p, h⟩
  · subst h
    have : flatAlt x0 [] = [] ++ [x0] := by simp [flatAlt]
    rw [this, dropTrailingSpace_snoc, isSpaceChunk_word hx]; simp
  · subst h
    obtain ⟨s, x⟩ := p
    have hxw : IsWord x := (ha (s, x) (by simp)).2
    rw [List.concat_eq_append, flatAlt_snoc]
    have : flatAlt x0 a' ++ [s, x] = (flatAlt x0 a' ++ [s]) ++ [x] := by simp
    rw [this, dropTrailingSpace_snoc, isSpaceChunk_word hxw]; simp

theorem dropTrailingSpace_flatAlt_space (x0 : List Char) (a : List Pair) (s : List Char) (hs : IsSpaces s) :
    dropTrailingSpace (flatAlt x0 a ++ [s]) = flatAlt x0 a := by
  rw [dropTrailingSpace_snoc, isSpaceChunk_spaces hs]; simp

theorem takeFit_split (avail : Nat) (cur : List (List Char)) (len : Nat) (l : List (List Char)) :
    ∃ a, (takeFit avail cur len l).1 = cur ++ a ∧ a ++ (takeFit avail cur len l).2 = l := by
  induction l generalizing cur len with
  | nil => exact ⟨[], by simp [takeFit]⟩
  | cons ch r ih =>
    simp only [takeFit]
    split
    · obtain ⟨a, h1, h2⟩ := ih (cur ++ [ch]) (len + ch.length)
      exact ⟨ch :: a, by simp [h1], by simp [h2]⟩
    · exact ⟨[], by simp⟩

theorem lineSplit_spec (avail : Nat) (cs : List (List Char)) :
    (lineSplit avail cs).1 ++ (lineSplit avail cs).2 = cs ∧ (cs ≠ [] → (lineSplit avail cs).1 ≠ []) := by
  obtain ⟨a, ha1, ha2⟩ := takeFit_split avail [] 0 cs
  simp only [List.nil_append] at ha1
  simp only [lineSplit]
  generalize takeFit avail [] 0 cs = tf at ha1 ha2
  obtain ⟨cur, rest⟩ := tf
  simp only at ha1 ha2
  subst ha1
  cases cur with
  | nil =>
    cases rest with
    | nil => simp at ha2; subst ha2; simp
    | cons c r => simp at ha2; subst ha2; simp
  | cons x xs => simp [ha2]

theorem wrapChunks_nil (w hang n : Nat) (first : Bool) : wrapChunks w hang n first [] = [] := by
  cases n <;> simp [wrapChunks]

/-- a partition of the word list `x0, x1, …` into consecutive non-empty runs that keeps the blank
chunks inside each run and drops the one between two runs -/
inductive Grouping : List Char → List Pair → List (List Char × List Pair) → Prop
  | last (x0 : List Char) (ps : List Pair) : Grouping x0 ps [(x0, ps)]
  | cons (x0 : List Char) (a : List Pair) (s x : List Char) (b : List Pair)
      (gs : List (List Char × List Pair)) : Grouping x b gs → Grouping x0 (a ++ (s, x) :: b) ((x0, a) :: gs)

/-- **the lines of `textwrap` are a grouping of the words**: for an alternating chunk list (optionally
preceded by a blank chunk when it is not the first line) every produced line is a run of consecutive
chunks from a word to a word; the first line is what `lineSplit` takes, less a trailing blank chunk -/
theorem wrap_grouping (w hang : Nat) (n : Nat) :
    ∀ (first : Bool) (C : List (List Char)) (x0 : List Char) (ps : List Pair),
      IsWord x0 → PairsOK ps →
      (C = flatAlt x0 ps ∨ (first = false ∧ ∃ s, IsSpaces s ∧ C = s :: flatAlt x0 ps)) →
      C.length ≤ n →
      ∃ gs, Grouping x0 ps gs ∧ wrapChunks w hang n first C = gs.map (fun g => flatAlt g.1 g.2) ∧
        (∀ g0 rest, gs = g0 :: rest →
          flatAlt g0.1 g0.2 = dropTrailingSpace (lineSplit (if first then w else w - hang) (flatAlt x0 ps)).1) := by
  induction n with
  | zero =>
    intro first C x0 ps _ _ hC hlen
    rcases hC with h | ⟨_, s, _, h⟩ <;> subst h <;> simp [flatAlt] at hlen
  | succ n ih =>
    intro first C x0 ps hx hps hC hlen
    -- the chunk list the line is filled from
    have hcs : ∃ ch0 r0, C = ch0 :: r0 ∧
        (if (!first && isSpaceChunk ch0) = true then r0 else ch0 :: r0) = flatAlt x0 ps ∧
        (flatAlt x0 ps).length ≤ n + 1 := by
      rcases hC with h | ⟨hf, s, hs, h⟩
      · subst h
        refine ⟨x0, ps.flatMap (fun p => [p.1, p.2]), rfl, ?_, hlen⟩
        simp [isSpaceChunk_word hx, flatAlt]
      · subst h
        refine ⟨s, flatAlt x0 ps, rfl, ?_, ?_⟩
        · simp [hf, isSpaceChunk_spaces hs]
        · simp at hlen ⊢; omega
    obtain ⟨ch0, r0, hC0, hcs', hl⟩ := hcs
    subst hC0
    simp only [wrapChunks, hcs']
    obtain ⟨hsplit, hne⟩ := lineSplit_spec (if first = true then w else w - hang) (flatAlt x0 ps)
    generalize lineSplit (if first = true then w else w - hang) (flatAlt x0 ps) = sp at hsplit hne
    obtain ⟨cur, rest⟩ := sp
    simp only at hsplit hne ⊢
    have hcur : cur ≠ [] := hne (by simp [flatAlt])
    have hrest : rest.length ≤ n := by
      have : (flatAlt x0 ps).length = cur.length + rest.length := by rw [← hsplit]; simp
      have : 0 < cur.length := List.length_pos_iff.2 hcur
      omega
    rcases flatAlt_split x0 ps cur rest hcur hsplit with ⟨a, b, e1, e2, e3⟩ | ⟨a, s, x, b, e1, e2, e3⟩
    · -- the line ends with a word
      subst e1 e2 e3
      have ha : PairsOK a := fun p hp => hps p (by simp [hp])
      rw [dropTrailingSpace_flatAlt x0 a hx ha]
      have hne' : (flatAlt x0 a).isEmpty = false := by simp [flatAlt]
      simp only [hne', Bool.false_eq_true, if_false]
      cases b with
      | nil =>
        refine ⟨[(x0, a)], by simpa using Grouping.last x0 a, by simp [wrapChunks_nil], ?_⟩
        intro g0 r hg; simp at hg; rw [← hg.1]
      | cons p b' =>
        obtain ⟨s, x⟩ := p
        have hsx := hps (s, x) (by simp)
        have hb' : PairsOK b' := fun p hp => hps p (by simp [hp])
        rw [flatMap_cons_pair] at hrest ⊢
        obtain ⟨gs, hg, hw, _⟩ := ih false (s :: flatAlt x b') x b' hsx.2 hb'
          (Or.inr ⟨rfl, s, hsx.1, rfl⟩) hrest
        refine ⟨(x0, a) :: gs, Grouping.cons x0 a s x b' gs hg, by simp [hw], ?_⟩
        intro g0 r hg0; simp at hg0; rw [← hg0.1]
    · -- the line ends with a blank chunk, which is dropped
      subst e1 e2 e3
      have hsx := hps (s, x) (by simp)
      have ha : PairsOK a := fun p hp => hps p (by simp [hp])
      have hb : PairsOK b := fun p hp => hps p (by simp [hp])
      rw [dropTrailingSpace_flatAlt_space x0 a s hsx.1]
      have hne' : (flatAlt x0 a).isEmpty = false := by simp [flatAlt]
      simp only [hne', Bool.false_eq_true, if_false]
      obtain ⟨gs, hg, hw, _⟩ := ih false (flatAlt x b) x b hsx.2 hb (Or.inl rfl) hrest
      refine ⟨(x0, a) :: gs, Grouping.cons x0 a s x b gs hg, by simp [hw], ?_⟩
      intro g0 r hg0; simp at hg0; rw [← hg0.1]

/-! ### `chunks` and `munge` on a text that already is an alternating chunk list -/

def isSp (c : Char) : Bool := decide (c = ' ')

/-- chunks are non-empty, uniform (all blanks / no blank), and alternate in kind starting with `k` -/
def AltFrom : Bool → List (List Char) → Prop
  | _, [] => True
  | k, u :: L => u ≠ [] ∧ (∀ c ∈ u, isSp c = k) ∧ AltFrom (!k) L

theorem chunks_uniform_append (k : Bool) (u : List Char) (hne : u ≠ []) (hu : ∀ c ∈ u, isSp c = k)
    (R : List Char) (rest : List (List Char)) (hR : chunks R = rest) (hrest : AltFrom (!k) rest) :
    chunks (u ++ R) = u :: rest := by
  induction u with
  | nil => exact absurd rfl hne
  | cons c t ih =>
    cases t with
    | nil =>
      simp only [List.cons_append, List.nil_append, chunks, hR]
      cases rest with
      | nil => rfl
      | cons h rest' =>
        obtain ⟨hh, hk, _⟩ := hrest
        cases h with
        | nil => exact absurd rfl hh
        | cons d ds =>
          have hc : isSp c = k := hu c (by simp)
          have hd : isSp d = !k := hk d (by simp)
          have : ¬ ((c = ' ') = (d = ' ')) := by
            intro he
            simp only [isSp] at hc hd
            by_cases h1 : c = ' '
            · have h2 : d = ' ' := by rw [← he]; exact h1
              simp [h1] at hc; simp [h2, ← hc] at hd
            · have h2 : ¬ d = ' ' := by rw [← he]; exact h1
              simp [h1] at hc; simp [h2, ← hc] at hd
          simp [this]
    | cons c' t' =>
      have ih' := ih (by simp) (fun x hx => hu x (List.mem_cons_of_mem _ hx))
      simp only [List.cons_append] at ih' ⊢
      rw [chunks, ih']
      have hc : isSp c = k := hu c (by simp)
      have hc' : isSp c' = k := hu c' (by simp)
      have : (c = ' ') = (c' = ' ') := by
        simp only [isSp] at hc hc'
        by_cases h1 : c = ' ' <;> by_cases h2 : c' = ' ' <;> simp_all
      simp [this]

theorem chunks_flatten (k : Bool) (L : List (List Char)) (h : AltFrom k L) : chunks L.flatten = L := by
  induction L generalizing k with
  | nil => simp [chunks]
  | cons u L ih =>
    obtain ⟨h1, h2, h3⟩ := h
    simp only [List.flatten_cons]
    exact chunks_uniform_append k u h1 h2 L.flatten L (ih (!k) h3) h3

theorem isSp_word {x : List Char} (h : IsWord x) : ∀ c ∈ x, isSp c = false := by
  intro c hc; simp [isSp, h.2 c hc]

theorem isSp_spaces {s : List Char} (h : IsSpaces s) : ∀ c ∈ s, isSp c = true := by
  intro c hc; simp [isSp, h.2 c hc]

theorem altFrom_pairs (ps : List Pair) (h : PairsOK ps) : AltFrom true (ps.flatMap (fun p => [p.1, p.2])) := by
  induction ps with
  | nil => simp [AltFrom]
  | cons p t ih =>
    obtain ⟨s, x⟩ := p
    have hp := h (s, x) (by simp)
    simp only [List.flatMap_cons, List.cons_append, List.nil_append, AltFrom, Bool.not_true, Bool.not_false]
    exact ⟨hp.1.1, isSp_spaces hp.1, hp.2.1, isSp_word hp.2, ih (fun q hq => h q (by simp [hq]))⟩

theorem altFrom_flatAlt (x0 : List Char) (ps : List Pair) (hx : IsWord x0) (h : PairsOK ps) :
    AltFrom false (flatAlt x0 ps) :=
  ⟨hx.1, isSp_word hx, by simpa using altFrom_pairs ps h⟩

/-- no tab, line break or other control blank (`\t\n\x0b\x0c\r`) -/
def NoCtl (t : List Char) : Prop := ∀ c ∈ t, ¬ (9 ≤ c.toNat ∧ c.toNat ≤ 13)

theorem expandTabs_id (t : List Char) (col : Nat) (h : NoCtl t) : expandTabs t col = t := by
  induction t generalizing col with
  | nil => rfl
  | cons c r ih =>
    have hc := h c (by simp)
    have h1 : c ≠ '\t' := by intro e; subst e; exact hc (by decide)
    have h2 : c ≠ '\n' := by intro e; subst e; exact hc (by decide)
    have h3 : c ≠ '\r' := by intro e; subst e; exact hc (by decide)
    simp [expandTabs, h1, h2, h3, ih _ (fun x hx => h x (List.mem_cons_of_mem _ hx))]

theorem munge_id (t : List Char) (h : NoCtl t) : munge t = t := by
  simp only [munge, expandTabs_id t 0 h]
  induction t with
  | nil => rfl
  | cons c r ih =>
    have hc := h c (by simp)
    simp only [List.map_cons, hc, if_false]
    rw [ih (fun x hx => h x (List.mem_cons_of_mem _ hx))]

/-- **`fill` on a text of words and blank runs**: its lines are a grouping of the words -/
theorem fill_grouping (w hang : Nat) (x0 : List Char) (ps : List Pair) (hx : IsWord x0) (hps : PairsOK ps)
    (hctl : NoCtl (flatAlt x0 ps).flatten) :
    ∃ gs, Grouping x0 ps gs ∧
      fill w hang (flatAlt x0 ps).flatten = renderLines hang (gs.map (fun g => flatAlt g.1 g.2)) ∧
      (∀ g0 rest, gs = g0 :: rest →
        flatAlt g0.1 g0.2 = dropTrailingSpace (lineSplit w (flatAlt x0 ps)).1) := by
  have hch : chunks (munge (flatAlt x0 ps).flatten) = flatAlt x0 ps := by
    rw [munge_id _ hctl]; exact chunks_flatten false _ (altFrom_flatAlt x0 ps hx hps)
  obtain ⟨gs, hg, hw, h0⟩ := wrap_grouping w hang ((flatAlt x0 ps).length + 1) true (flatAlt x0 ps) x0 ps hx hps
    (Or.inl rfl) (Nat.le_succ _)
  refine ⟨gs, hg, ?_, by simpa using h0⟩
  simp only [fill, hch, hw]

end Midgard.Proofs.ConfigText
