import Midgard.Proofs.GeoBoundCore
namespace Midgard.Geo.Acc

theorem cauchy_DW (q s1 cc D W : ℝ) (hq0 : 0 ≤ q) (hD : 0 ≤ D) (hW : 0 ≤ W)
    (hDD : D * D = s1 * s1 + cc * cc) (hWW : W * W = q ^ 2 * (s1 * s1) + cc * cc) :
    q * (s1 * s1) + cc * cc ≤ D * W := by
  have h0 : 0 ≤ q * (s1 * s1) + cc * cc := add_nonneg (mul_nonneg hq0 (mul_self_nonneg s1)) (mul_self_nonneg cc)
  have h1 : (q * (s1 * s1) + cc * cc) ^ 2 ≤ (D * W) ^ 2 := by
    have : (D * W) ^ 2 = (D * D) * (W * W) := by ring
    rw [this, hDD, hWW]
    nlinarith [mul_self_nonneg (s1 * cc * (1 - q))]
  have h2 := Real.sqrt_le_sqrt h1
  rwa [Real.sqrt_sq h0, Real.sqrt_sq (mul_nonneg hD hW)] at h2

/-- refined core of the accuracy bound (sharper lower bounds of `D·W ≥ q·s1² + cc²` (Cauchy–Schwarz) and of
`e·s1·cc + M·W ≥ cc·(e·s1 + M)`):
`|R/a| · q·K2·(q·S²·K1² + P²·q²·K2²)·(K1 + P·K0) ≤ e⁴·P³·S³·|A − q|³·|H|` -/
theorem offset_core2 (q P S A s1 cc D W : ℝ)
    (hq0 : 0 < q) (hq1 : q ≤ 1) (hP : 0 < P) (hS : 0 < S)
    (hAA : A * A = q * P * (q * P) + S * S)
    (hs1 : s1 = P * S * K1 A P q / 2) (hcc : cc = P ^ 2 * q * K2 A P q / 2)
    (hD : D = Real.sqrt (s1 * s1 + cc * cc)) (hW : W = Real.sqrt (q ^ 2 * (s1 * s1) + cc * cc))
    (hK1 : 0 < K1 A P q) (hK2 : 0 < K2 A P q) (hK0 : 0 ≤ K0 A P q) :
    |(S * cc - P * s1) / D + (1 - q ^ 2) * s1 * cc / (D * W)|
        * (q * K2 A P q * (q * S ^ 2 * K1 A P q ^ 2 + P ^ 2 * q ^ 2 * K2 A P q ^ 2) * (K1 A P q + P * K0 A P q))
      ≤ (1 - q ^ 2) ^ 4 * P ^ 3 * S ^ 3 * |A - q| ^ 3 * |HH A P q| := by
  set e := 1 - q ^ 2 with he
  have he0 : 0 ≤ e := by rw [he]; nlinarith
  have hs1p : 0 < s1 := by rw [hs1]; positivity
  have hccp : 0 < cc := by rw [hcc]; positivity
  have hM : P * s1 - S * cc = e * P ^ 2 * S * K0 A P q / 2 := by
    rw [hs1, hcc]; exact M_as_cofactor q P S A
  have hM0 : 0 ≤ P * s1 - S * cc := by rw [hM]; positivity
  have hDp : 0 < D := by rw [hD]; exact Real.sqrt_pos.2 (by positivity)
  have hWp : 0 < W := by rw [hW]; exact Real.sqrt_pos.2 (by positivity)
  have hWW : W * W = q ^ 2 * (s1 * s1) + cc * cc := by rw [hW]; exact Real.mul_self_sqrt (by positivity)
  have hDD : D * D = s1 * s1 + cc * cc := by rw [hD]; exact Real.mul_self_sqrt (by positivity)
  have hWcc : cc ≤ W := by
    rw [hW]; apply Real.le_sqrt_of_sq_le; nlinarith [mul_self_nonneg (q * s1)]
  have hCS : q * (s1 * s1) + cc * cc ≤ D * W := cauchy_DW q s1 cc D W hq0.le hDp.le hWp.le hDD hWW
  set M := P * s1 - S * cc with hMd
  set N := e * s1 * cc - M * W with hN
  have hR : (S * cc - P * s1) / D + e * s1 * cc / (D * W) = N / (D * W) := by
    rw [hN, hMd]; field_simp; ring
  rw [hR]
  have hthird := third_order q P S A s1 cc hAA hs1 hcc hM
  have hprod : N * (e * s1 * cc + M * W) = -(e ^ 5 * P ^ 8 * (S * S) ^ 2 * (A - q) ^ 3 * HH A P q / 16) := by
    have : N * (e * s1 * cc + M * W) = (e * s1 * cc) ^ 2 - M ^ 2 * (W * W) := by rw [hN]; ring
    rw [this, hWW]; exact hthird
  rcases he0.eq_or_lt with he00 | hepos
  · have hM00 : M = 0 := by rw [hM, ← he00]; ring
    have hN0 : N = 0 := by rw [hN, hM00, ← he00]; ring
    rw [hN0, ← he00]; simp
  · have hden : 0 < e * s1 * cc + M * W := by
      have : 0 ≤ M * W := mul_nonneg hM0 hWp.le
      have : 0 < e * s1 * cc := by positivity
      linarith
    have hden' : cc * (e * s1 + M) ≤ e * s1 * cc + M * W := by
      have h3 : M * cc ≤ M * W := mul_le_mul_of_nonneg_left hWcc hM0
      have h4 : cc * (e * s1 + M) = e * s1 * cc + M * cc := by ring
      linarith
    have h1 : |N| * (e * s1 * cc + M * W) = e ^ 5 * P ^ 8 * (S * S) ^ 2 * |A - q| ^ 3 * |HH A P q| / 16 := by
      rw [← abs_of_pos hden, ← abs_mul, hprod, abs_neg, abs_div, abs_mul, abs_mul, abs_mul, abs_mul, abs_pow, abs_pow, abs_pow,
        abs_pow, abs_of_pos hepos, abs_of_pos hP, abs_of_nonneg (mul_self_nonneg S)]
      norm_num
    have hesM : 0 < e * s1 + M := by
      have : 0 < e * s1 := by positivity
      linarith
    have h2 : |N| * (cc * (e * s1 + M)) ≤ |N| * (e * s1 * cc + M * W) := mul_le_mul_of_nonneg_left hden' (abs_nonneg _)
    have hstep : |N / (D * W)| * (q * (s1 * s1) + cc * cc) ≤ |N| := by
      rw [abs_div, abs_of_pos (mul_pos hDp hWp), div_mul_eq_mul_div, div_le_iff₀ (mul_pos hDp hWp)]
      exact mul_le_mul_of_nonneg_left hCS (abs_nonneg _)
    have hX : |N / (D * W)| * ((q * (s1 * s1) + cc * cc) * (cc * (e * s1 + M)))
        ≤ e ^ 5 * P ^ 8 * (S * S) ^ 2 * |A - q| ^ 3 * |HH A P q| / 16 := by
      have := mul_le_mul_of_nonneg_right hstep (by positivity : 0 ≤ cc * (e * s1 + M))
      calc _ = |N / (D * W)| * (q * (s1 * s1) + cc * cc) * (cc * (e * s1 + M)) := by ring
        _ ≤ |N| * (cc * (e * s1 + M)) := this
        _ ≤ _ := by rw [← h1]; exact h2
    -- in terms of the cofactors
    have e1 : (q * (s1 * s1) + cc * cc) * (cc * (e * s1 + M))
        = (q * K2 A P q * (q * S ^ 2 * K1 A P q ^ 2 + P ^ 2 * q ^ 2 * K2 A P q ^ 2) * (K1 A P q + P * K0 A P q)) * (e * P ^ 5 * S / 16) := by
      rw [hM, hs1, hcc]; ring
    have e2 : e ^ 5 * P ^ 8 * (S * S) ^ 2 * |A - q| ^ 3 * |HH A P q| / 16
        = (e ^ 4 * P ^ 3 * S ^ 3 * |A - q| ^ 3 * |HH A P q|) * (e * P ^ 5 * S / 16) := by ring
    rw [e1, e2, ← mul_assoc] at hX
    exact le_of_mul_le_mul_right hX (by positivity)

end Midgard.Geo.Acc
