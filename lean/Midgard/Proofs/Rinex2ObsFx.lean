/-
C11, RINEX 2, part 5: the effect of one rendered observation line (`obs_line_fx`: label, fields, values; all-blank lines
through `_parse_observation_epoch`) and of all lines of one satellite (`sat_lines_run`).  Core Lean only.
-/
import Midgard.Proofs.Rinex2ObsLabel

namespace Midgard.Spec.Rinex2ObsFile
open Midgard.Text Midgard.FixedCol Midgard.Decimal Midgard.ChainParser Midgard.RinexObs Midgard.Rinex2Obs
open Midgard.Spec.Rinex3ObsFile (Obs Cell Style styled rstrip_styled)

/-! ### the effect of an observation line -/

theorem epoch2_def : Midgard.Generated.Rinex2ObsCols.records.find? (·.label == "False") = some ⟨"False", "_parse_observation_epoch", .newline,
      [⟨"year", 0, 3⟩, ⟨"month", 3, 6⟩, ⟨"day", 6, 9⟩, ⟨"hour", 9, 12⟩, ⟨"minute", 12, 15⟩, ⟨"second", 15, 26⟩,
       ⟨"epoch_flag", 26, 29⟩, ⟨"num_sat", 29, 32⟩, ⟨"sat_list", 32, 68⟩, ⟨"rcv_clk_offset", 68, 80⟩], []⟩ := by decide +kernel

def epochDef : LabelDef := ⟨"False", "_parse_observation_epoch", .newline,
      [⟨"year", 0, 3⟩, ⟨"month", 3, 6⟩, ⟨"day", 6, 9⟩, ⟨"hour", 9, 12⟩, ⟨"minute", 12, 15⟩, ⟨"second", 15, 26⟩,
       ⟨"epoch_flag", 26, 29⟩, ⟨"num_sat", 29, 32⟩, ⟨"sat_list", 32, 68⟩, ⟨"rcv_clk_offset", 68, 80⟩], []⟩

/-- an all-blank line (empty after `read_data`'s `rstrip`) reaches `_parse_observation_epoch`, which hands it to
`_parse_observation` with five blank fields as long as satellites of the epoch are outstanding -/
theorem blank_line_fx (s : State) :
    parseObservationEpoch (epochDef.values []) s =
      if (s.cache.satList.getD []) ≠ [] then parseObservation blankObsValues s else .ok s := by
  by_cases h : (s.cache.satList.getD []) ≠ []
  · simp [epochDef, parseObservationEpoch, LabelDef.values, getv, Values.get, req, StripOpt.apply,
      stripChars, sliceRaw, Text.slice, strip, lstrip, rstrip, isNumeric, isBlank, h, bind, Except.bind, pure, Except.pure]
  · simp [epochDef, parseObservationEpoch, LabelDef.values, getv, Values.get, req, StripOpt.apply,
      stripChars, sliceRaw, Text.slice, strip, lstrip, rstrip, isNumeric, isBlank, h, bind, Except.bind, pure, Except.pure]

def obsDef : LabelDef := ⟨"True", "_parse_observation", .newline,
        [⟨"obs_1", 0, 16⟩, ⟨"obs_2", 16, 32⟩, ⟨"obs_3", 32, 48⟩, ⟨"obs_4", 48, 64⟩, ⟨"obs_5", 64, 80⟩], []⟩

theorem tripleOf_nil : tripleOf [] = .ok none3 := by
  have := field_none [] 0 (by simp)
  simpa [Text.slice] using this

theorem five_blank (raws : List Str) (h : raws = [[], [], [], [], []]) :
    (fieldsWithPrefix (obsNames.zip raws) "obs_").mapM (fun f => tripleOf f.2) = .ok (List.replicate 5 none3) := by
  unfold fieldsWithPrefix
  have hf : (fun (x : String × Str) => match x with | (k, _) => "obs_".toList.isPrefixOf k.toList) = fun kv => isO kv.1 := by
    funext x; obtain ⟨k, c⟩ := x; rfl
  rw [hf, Midgard.Spec.Rinex3ObsFile.filter_zip_all isO obsNames _ obsNames_facts.1,
    Midgard.Spec.Rinex3ObsFile.sortFields_zip obsNames _ obsNames_facts.2, h]
  simp only [obsNames, List.zip_cons_cons, List.zip_nil_right, List.mapM_cons, List.mapM_nil, tripleOf_nil, bind, Except.bind, pure,
    Except.pure]
  rfl

theorem blank_values : (fieldsWithPrefix blankObsValues "obs_").mapM (fun f => tripleOf f.2) = .ok (List.replicate 5 none3) :=
  five_blank _ rfl

theorem blank_obsdef_values : (fieldsWithPrefix (obsDef.values []) "obs_").mapM (fun f => tripleOf f.2) = .ok (List.replicate 5 none3) := by
  have : obsDef.values [] = obsNames.zip [[], [], [], [], []] := by
    simp [obsDef, LabelDef.values, StripOpt.apply, stripChars, sliceRaw, Text.slice, obsNames]
  rw [this]
  exact five_blank _ rfl

theorem label_nil : obsLabel (rstrip []) = "False" := by decide +kernel

/-- **one observation line** of a kept epoch with satellites outstanding — a line with 1 to 5 observations, as formatted,
right-stripped or filled to 80 columns, all blank or not — adds its five fields (missing ones absent) to the values of the
satellite being read -/
theorem obs_line_fx (st : Style) (c : List Obs) (hm : c.length ≤ 5) (h : c.all Obs.wf = true) (hs : c.all obsShape = true)
    (n : Nat) (s : State) (e : EpochInfo) (q : Rat) (he : s.cache.epoch = some e) (hq : e.obsSec = some q)
    (hsat : (s.cache.satList.getD []) ≠ []) :
    parseLine obsParser (rstrip (styled st (obsLine c))) n s = lineFx e (pad5 (triples c)) s := by
  have hvals := obs_text_values st c hm h
  rw [rstrip_styled] at hvals ⊢
  unfold parseLine
  have h1 : obsParser.skipLine (rstrip (obsLine c)) = false := rfl
  have h3 : obsParser.defs = Midgard.Generated.Rinex2ObsCols.records := rfl
  rw [h1, h3]
  simp only [Bool.false_eq_true, if_false]
  by_cases hnb : rstrip (obsLine c) = []
  · -- an all-blank line
    rw [hnb] at hvals ⊢
    have hpad : pad5 (triples c) = List.replicate 5 none3 := by
      have := blank_obsdef_values
      unfold obsDef at this
      rw [this] at hvals
      exact (Except.ok.inj hvals).symm
    have h2 : obsParser.label (rstrip []) n = "False" := label_nil
    rw [h2, epoch2_def]
    show handle "_parse_observation_epoch" (epochDef.values []) s = _
    simp only [handle, String.reduceEq, if_false, if_true]
    rw [blank_line_fx, if_pos hsat, parseObservation_five blankObsValues s e q _ he hq blank_values, hpad]
  · have h2 : obsParser.label (rstrip (rstrip (obsLine c))) n = "True" := by
      show obsLabel (rstrip (rstrip (obsLine c))) = "True"
      rw [rstrip_idem]; exact obs_label c h hs hnb
    rw [h2, obs2_def]
    show handle "_parse_observation" _ s = _
    simp only [handle, String.reduceEq, if_false, if_true]
    exact parseObservation_five _ s e q _ he hq hvals

/-- … and of a decimated epoch nothing -/
theorem obs_line_skip (st : Style) (c : List Obs) (hm : c.length ≤ 5) (h : c.all Obs.wf = true) (hs : c.all obsShape = true)
    (n : Nat) (s : State) (e : EpochInfo) (he : s.cache.epoch = some e) (hq : e.obsSec = none) :
    parseLine obsParser (rstrip (styled st (obsLine c))) n s = .ok s := by
  rw [rstrip_styled]
  have hdec : ∀ v, parseObservation v s = .ok s := by
    intro v; simp [parseObservation, he, hq, req, bind, Except.bind, pure, Except.pure]
  unfold parseLine
  have h1 : obsParser.skipLine (rstrip (obsLine c)) = false := rfl
  have h3 : obsParser.defs = Midgard.Generated.Rinex2ObsCols.records := rfl
  rw [h1, h3]
  simp only [Bool.false_eq_true, if_false]
  by_cases hnb : rstrip (obsLine c) = []
  · rw [hnb]
    have h2 : obsParser.label (rstrip []) n = "False" := label_nil
    rw [h2, epoch2_def]
    show handle "_parse_observation_epoch" (epochDef.values []) s = _
    simp only [handle, String.reduceEq, if_false, if_true]
    rw [blank_line_fx]
    split
    · exact hdec _
    · rfl
  · have h2 : obsParser.label (rstrip (rstrip (obsLine c))) n = "True" := by
      show obsLabel (rstrip (rstrip (obsLine c))) = "True"
      rw [rstrip_idem]; exact obs_label c h hs hnb
    rw [h2, obs2_def]
    show handle "_parse_observation" _ s = _
    simp only [handle, String.reduceEq, if_false, if_true]
    exact hdec _


/-! ### all rendered lines of one satellite -/

/-- the lines of a group applied in order (RINEX 2) -/
def runObs (ls : List Str) (s : State) : Except Err State :=
  ls.foldlM (fun s l => parseLine obsParser (rstrip l) 0 s) s

theorem runObs_cons (l : Str) (ls : List Str) (s : State) :
    runObs (l :: ls) s = match parseLine obsParser (rstrip l) 0 s with
      | .ok s' => runObs ls s'
      | .error e => .error e := by
  simp only [runObs, List.foldlM_cons, bind, Except.bind]
  cases parseLine obsParser (rstrip l) 0 s <;> rfl

theorem runObs_append (a b : List Str) (s : State) :
    runObs (a ++ b) s = match runObs a s with
      | .ok s' => runObs b s'
      | .error e => .error e := by
  induction a generalizing s with
  | nil => rfl
  | cons l a ih =>
    rw [List.cons_append, runObs_cons, runObs_cons]
    cases parseLine obsParser (rstrip l) 0 s with
    | error e => rfl
    | ok s' => exact ih s'

theorem sat_lines_aux (st : Style) (types : List Str) (m : Str) (e : EpochInfo) (q : Rat) (hq : e.obsSec = some q) (obs : List Obs)
    (hl : types.length = obs.length) (hwf : obs.all Obs.wf = true) (hsh : obs.all obsShape = true)
    (s : State) (he : s.cache.epoch = some e) (sat : Str) (rest : List Str) (hs : s.cache.satList = some (sat :: rest))
    (hne : sat ≠ []) (num : Int) (hnum : pyInt (sat.drop 1) = .ok num) (hc : SatCtx types m s) :
    ∀ (fuel : Nat) (todo : List Obs) (acc : List Triple) (cur : State), todo.length ≤ fuel → todo ≠ [] →
      acc ++ triples todo = triples obs → (∀ o ∈ todo, o ∈ obs) →
      Holds acc cur → cur.metaD = s.metaD → cur.data = s.data → cur.cache.satList = s.cache.satList →
      cur.cache.epoch = s.cache.epoch → (∀ d r, doneSat cur d r = doneSat s d r) →
      runObs ((chunks 5 fuel todo).map fun c => styled st (obsLine c)) cur =
        match rowData s.data types obs e (lower m) sat num with
        | .ok d => .ok (doneSat s d rest)
        | .error err => .error err := by
  intro fuel
  induction fuel with
  | zero => intro todo acc cur hf hne'; cases todo <;> simp_all
  | succ fuel ih =>
    intro todo acc cur hf hne' hsum hsub hh hm hd hsl hep hdone
    have hce : todo.isEmpty = false := by cases todo <;> simp_all
    have hcc : SatCtx types m cur := ⟨by rw [hm]; exact hc.num, by rw [hm]; exact hc.typ, by rw [hm]; exact hc.mark⟩
    have hn : (triples obs).length = types.length := by simp [triples, hl]
    have htl : (triples todo).length = todo.length := by simp [triples]
    have hsub5 : ∀ o ∈ todo.take 5, o ∈ obs := fun o ho => hsub o (List.mem_of_mem_take ho)
    have hw5 : (todo.take 5).all Obs.wf = true :=
      List.all_eq_true.mpr fun o ho => List.all_eq_true.mp hwf o (hsub5 o ho)
    have hs5 : (todo.take 5).all obsShape = true :=
      List.all_eq_true.mpr fun o ho => List.all_eq_true.mp hsh o (hsub5 o ho)
    have hline := obs_line_fx st (todo.take 5) (by simp; omega) hw5 hs5 0 cur e q (by rw [hep]; exact he) hq
      (by rw [hsl, hs]; simp)
    simp only [chunks, hce, Bool.false_eq_true, if_false, List.map_cons]
    rw [runObs_cons, hline]
    by_cases hlast : todo.length ≤ 5
    · have htake : todo.take 5 = todo := List.take_of_length_le hlast
      have hdrop : todo.drop 5 = [] := List.drop_eq_nil_of_le hlast
      have hch : chunks 5 fuel ([] : List Obs) = [] := by cases fuel <;> simp [chunks]
      rw [htake, hdrop, hch]
      have := lineFx_last types m e obs acc (pad5 (triples todo)) (List.replicate (5 - (triples todo).length) none3) cur hcc hh
        (by unfold pad5; rw [← List.append_assoc, hsum]) hl sat rest (by rw [hsl]; exact hs) hne num hnum
      rw [this, hd]
      cases rowData s.data types obs e (lower m) sat num with
      | error err => rfl
      | ok d => simp [hdone, runObs, pure, Except.pure]
    · have hgt : 5 < todo.length := by omega
      have h5 : (triples (todo.take 5)).length = 5 := by simp [triples]; omega
      have hpad : pad5 (triples (todo.take 5)) = triples (todo.take 5) := by simp [pad5, h5]
      have hsplit : triples todo = triples (todo.take 5) ++ triples (todo.drop 5) := by
        unfold triples; rw [← List.map_append, List.take_append_drop]
      have hlen : (acc ++ triples (todo.take 5)).length < types.length := by
        have := congrArg List.length hsum
        simp only [List.length_append, htl] at this ⊢
        rw [hn] at this
        rw [h5]; omega
      rw [hpad, lineFx_more types m e acc (triples (todo.take 5)) cur hcc hh hlen]
      simp only
      apply ih (todo.drop 5) (acc ++ triples (todo.take 5))
      · simp; omega
      · intro e0
        have := congrArg List.length e0
        simp at this; omega
      · rw [List.append_assoc, ← hsplit]; exact hsum
      · exact fun o ho => hsub o (List.mem_of_mem_drop ho)
      · exact holds_keep cur _
      · exact hm
      · exact hd
      · exact hsl
      · exact hep
      · intro d r; exact hdone d r

/-- **all rendered lines of one satellite** of a kept epoch: exactly one row -/
theorem sat_lines_run (st : Style) (types : List Str) (m : Str) (e : EpochInfo) (q : Rat) (hq : e.obsSec = some q) (obs : List Obs)
    (hl : types.length = obs.length) (hpos : obs ≠ []) (hwf : obs.all Obs.wf = true) (hsh : obs.all obsShape = true)
    (s : State) (he : s.cache.epoch = some e) (sat : Str) (rest : List Str) (hs : s.cache.satList = some (sat :: rest))
    (hne : sat ≠ []) (num : Int) (hnum : pyInt (sat.drop 1) = .ok num) (hc : SatCtx types m s) (h0 : Holds [] s) :
    runObs ((chunks 5 obs.length obs).map fun c => styled st (obsLine c)) s =
      match rowData s.data types obs e (lower m) sat num with
      | .ok d => .ok (doneSat s d rest)
      | .error err => .error err :=
  sat_lines_aux st types m e q hq obs hl hwf hsh s he sat rest hs hne num hnum hc _ obs [] s (Nat.le_refl _) hpos rfl
    (fun _ h => h) h0 rfl rfl rfl rfl (fun _ _ => rfl)

end Midgard.Spec.Rinex2ObsFile
