/-
A rendered well-formed SP3 file contains no carriage return, so the text-level entry point
(`parseFileText`, universal newlines first) comes under `file_roundtrip` without a side hypothesis.
The structure follows the `NoNl` lemmas of `Proofs/Sp3File.lean`, for `'\r'` instead of `'\n'`.
Core Lean only.
-/
import Midgard.Proofs.Sp3File

namespace Midgard.Spec.Sp3File
open Midgard.Text Midgard.Decimal Midgard.FixedCol Midgard.Sp3 Midgard.Spec.NumText

/-! ### no rendered line contains a carriage return -/

def NoCR (s : Str) : Prop := ∀ c ∈ s, c ≠ '\r'

theorem nocr_nil : NoCR [] := fun _ h => by simp at h

theorem nocr_append {a b : Str} (ha : NoCR a) (hb : NoCR b) : NoCR (a ++ b) := by
  intro c hc
  rcases List.mem_append.mp hc with h | h
  · exact ha c h
  · exact hb c h

theorem nocr_cons {c : Char} {s : Str} (hc : c ≠ '\r') (hs : NoCR s) : NoCR (c :: s) := by
  intro d hd
  rcases List.mem_cons.mp hd with h | h
  · exact h ▸ hc
  · exact hs d h

theorem nocr_blanks (n : Nat) : NoCR (blanks n) := by
  intro c hc
  have : c = ' ' := by simpa [blanks] using (List.mem_replicate.mp hc).2
  rw [this]; decide

theorem nocr_okText {s : Str} (h : okText s = true) : NoCR s := by
  intro c hc e
  simp only [okText, List.all_eq_true, Bool.and_eq_true, decide_eq_true_eq] at h
  have := (h c hc).1
  rw [e] at this
  revert this; decide

theorem isNumChar_ne_cr {c : Char} (h : isNumChar c = true) : c ≠ '\r' := by
  intro hc; subst hc; revert h; decide

theorem nocr_numChars {s : Str} (h : ∀ c ∈ s, isNumChar c = true) : NoCR s :=
  fun c hc => isNumChar_ne_cr (h c hc)

theorem nocr_rstrip {s : Str} (h : NoCR s) : NoCR (rstrip s) := by
  obtain ⟨ws, hs, _⟩ := rstrip_decomp s
  intro c hc
  exact h c (by rw [hs]; exact List.mem_append_left _ hc)

theorem nocr_pad (a : Align) (w : Nat) {v : Str} (h : NoCR v) : NoCR (pad a w v) := by
  cases a
  · exact nocr_append h (nocr_blanks _)
  · exact nocr_append (nocr_blanks _) h

theorem nocr_renderFrom (L : Layout) : ∀ (pos : Nat) (cells : List (Align × Str)),
    (∀ cell ∈ cells, NoCR cell.2) → NoCR (renderFrom pos L cells) := by
  induction L with
  | nil => intro pos cells _; cases cells <;> exact nocr_nil
  | cons f L ih =>
    intro pos cells h
    cases cells with
    | nil => exact nocr_nil
    | cons c cs =>
      obtain ⟨a, v⟩ := c
      simp only [renderFrom]
      exact nocr_append (nocr_append (nocr_blanks _) (nocr_pad a _ (h (a, v) (by simp))))
        (ih _ cs (fun cell hc => h cell (by simp [hc])))

theorem nocr_codeText (c : Option Nat) : NoCR (codeText c) := by
  cases c with
  | none => exact nocr_nil
  | some k => exact nocr_numChars (numChars_natDigits k)

theorem nocr_hdrOther (x : HdrKind × Str) (h : okText x.2 = true) : NoCR (hdrOther x) := by
  obtain ⟨k, t⟩ := x
  have ht : NoCR k.tag := by cases k <;> (intro c hc; revert hc; revert c; decide)
  exact nocr_append ht (nocr_okText h)

theorem nocr_extraLine (x : ExtraKind × Str) (h : okText x.2 = true) : NoCR (extraLine x) := by
  obtain ⟨k, t⟩ := x
  have ht : NoCR k.tag := by cases k <;> (intro c hc; revert hc; revert c; decide)
  exact nocr_append ht (nocr_okText h)

theorem nocr_fmtInt (i : Int) : NoCR (fmtInt i) := nocr_numChars (fun _ hc => mem_fmtInt hc)
theorem nocr_fmtDec (p : Nat) (n : Int) : NoCR (fmtDec p n) := nocr_numChars (fmtDec_noSpace p n)

theorem nocr_rjust (w : Nat) {s : Str} (h : NoCR s) : NoCR (rjust w s) := nocr_append (nocr_blanks _) h

theorem nocr_epochLine (e : Epoch) : NoCR (epochLine e) := by
  unfold epochLine
  have sp : (' ' : Char) ≠ '\r' := by decide
  have st : ('*' : Char) ≠ '\r' := by decide
  refine nocr_append (nocr_append (nocr_append (nocr_append (nocr_append (nocr_append ?_ ?_) ?_) ?_) ?_) ?_) ?_
  · exact nocr_cons st (nocr_cons sp (nocr_cons sp nocr_nil))
  · exact nocr_rjust _ (nocr_fmtInt _)
  · exact nocr_cons sp (nocr_rjust _ (nocr_fmtInt _))
  · exact nocr_cons sp (nocr_rjust _ (nocr_fmtInt _))
  · exact nocr_cons sp (nocr_rjust _ (nocr_fmtInt _))
  · exact nocr_cons sp (nocr_rjust _ (nocr_fmtInt _))
  · exact nocr_cons sp (nocr_rjust _ (nocr_fmtDec _ _))

theorem nocr_posLine (r : PosRec) (hr : r.wf = true) : NoCR (posLine r) := by
  have ha := acc_wf_of r hr
  have hfull : NoCR (posFull r) := by
    simp only [PosRec.wf, Bool.and_eq_true, okCell] at hr
    simp only [Acc.wf, Bool.and_eq_true] at ha
    have hfl := okCells_okText _ _ ha.2
    refine nocr_cons (by decide) (nocr_renderFrom _ _ _ ?_)
    intro cell hc
    simp only [posCells, Lft, R, List.cons_append, List.nil_append, List.mem_cons, List.mem_map] at hc
    rcases hc with rfl | rfl | rfl | rfl | rfl | rfl | rfl | rfl | rfl | ⟨t, ht, rfl⟩
    · exact nocr_okText hr.1.1.1.1.1.1.1.1
    · exact nocr_fmtDec _ _
    · exact nocr_fmtDec _ _
    · exact nocr_fmtDec _ _
    · exact nocr_fmtDec _ _
    · exact nocr_codeText _
    · exact nocr_codeText _
    · exact nocr_codeText _
    · exact nocr_codeText _
    · exact nocr_okText (hfl t ht)
  unfold posLine
  split
  · exact hfull
  · exact nocr_rstrip hfull

theorem nocr_headerLines (h : Header) (hwf : h.wf = true) : ∀ l ∈ headerLines h, NoCR l := by
  simp only [Header.wf, Bool.and_eq_true, Bool.or_eq_true, beq_iff_eq, bne_iff_ne, decide_eq_true_eq, okCell] at hwf
  obtain ⟨⟨⟨⟨⟨⟨⟨⟨⟨hv, h1⟩, h2⟩, hsat⟩, htail⟩, hft⟩, _⟩, hts⟩, _⟩, _⟩ := hwf
  have k1 := okCells_okText _ _ h1
  have k2 := okCells_okText _ _ h2
  have hver : NoCR [h.version] := by
    rcases hv with e | e <;> rw [e] <;> (intro c hc; revert hc; revert c; decide)
  intro l hl
  simp only [headerLines, List.mem_append, List.mem_cons, List.mem_map, List.not_mem_nil, or_false] at hl
  rcases hl with (((rfl | rfl) | ⟨x, hx, rfl⟩) | (rfl | rfl | rfl | rfl)) | ⟨x, hx, rfl⟩
  · refine nocr_cons (by decide) (nocr_renderFrom _ _ _ ?_)
    intro cell hc
    simp only [Lft, R, List.mem_cons, List.mem_map] at hc
    rcases hc with rfl | ⟨t, ht, rfl⟩
    · exact hver
    · exact nocr_okText (k1 t ht)
  · refine nocr_cons (by decide) (nocr_cons (by decide) (nocr_renderFrom _ _ _ ?_))
    intro cell hc
    simp only [R, List.mem_map] at hc
    obtain ⟨t, ht, rfl⟩ := hc
    exact nocr_okText (k2 t ht)
  · exact nocr_hdrOther x (List.all_eq_true.mp hsat x hx)
  · refine nocr_append (nocr_cons (by decide) (nocr_cons (by decide) (nocr_renderFrom _ _ _ ?_))) ?_
    · intro cell hc
      simp only [Lft, List.mem_cons, List.not_mem_nil, or_false] at hc
      rcases hc with rfl | rfl | rfl
      · exact nocr_okText hft.1.1
      · intro c hc; revert hc; revert c; decide
      · exact nocr_okText hts.1.1
    · intro c hc; revert hc; revert c; decide +kernel
  · intro c hc; revert hc; revert c; decide +kernel
  · refine nocr_append (nocr_cons (by decide) (nocr_cons (by decide) (nocr_renderFrom _ _ _ ?_))) ?_
    · intro cell hc
      simp only [R, List.mem_cons, List.not_mem_nil, or_false] at hc
      rcases hc with rfl | rfl
      · exact nocr_fmtDec _ _
      · exact nocr_fmtDec _ _
    · intro c hc; revert hc; revert c; decide +kernel
  · intro c hc; revert hc; revert c; decide +kernel
  · exact nocr_hdrOther x (List.all_eq_true.mp htail x hx)

theorem nocr_fileLines (f : File) (hwf : f.wf = true) : ∀ l ∈ fileLines f, NoCR l := by
  simp only [File.wf, Bool.and_eq_true, List.all_eq_true] at hwf
  intro l hl
  simp only [fileLines, List.mem_append, List.mem_flatten, List.mem_map, List.mem_singleton] at hl
  rcases hl with (hl | ⟨bl, ⟨b, hb, rfl⟩, hl⟩) | rfl
  · exact nocr_headerLines f.hdr hwf.1.1 l hl
  · simp only [blockLines, List.mem_cons, List.mem_flatMap, recLines, List.mem_map] at hl
    rcases hl with rfl | ⟨r, hr, rfl | ⟨x, hx, rfl⟩⟩
    · exact nocr_epochLine b.epoch
    · exact nocr_posLine r (hwf.1.2 b hb r hr)
    · have := hwf.1.2 b hb r hr
      simp only [PosRec.wf, Bool.and_eq_true, List.all_eq_true] at this
      exact nocr_extraLine x (okExtra_okText (this.2 x hx))
  · intro c hc; revert hc; revert c; decide

/-- lines without a carriage return, each followed by `'\n'`, give a text without a carriage return -/
theorem nocr_joinLines : ∀ (ls : List Str), (∀ l ∈ ls, NoCR l) → NoCR (joinLines ls)
  | [], _ => nocr_nil
  | l :: ls, h => by
    simp only [joinLines]
    exact nocr_append (h l (by simp))
      (nocr_cons (by decide) (nocr_joinLines ls (fun m hm => h m (by simp [hm]))))

/-- **render_noCR**: the rendered text of a well-formed file contains no carriage return -/
theorem render_noCR (F : File) (hwf : F.wf = true) : ∀ c ∈ render F, c ≠ '\r' :=
  nocr_joinLines _ (nocr_fileLines F hwf)

end Midgard.Spec.Sp3File
