/-
C15 file level, part 5: rms sections and unread lines contribute nothing to what a file says (`calibrations_core`).
-/
import Midgard.Proofs.AntexRound
namespace Midgard.Antex.File
open Midgard.Text Midgard.FixedCol Midgard.ChainParser Midgard.Antex Midgard.Decimal
open Midgard.Spec.AntexFile

/-! ### rms sections and unread lines contribute nothing -/

/-- the frequency section alone -/
def FreqM.core (f : FreqM) : FreqM := { f with rms := none }

/-- the antenna section without rms sections and unread lines -/
def AntM.core (a : AntM) : AntM := { a with freqs := a.freqs.map FreqM.core, rmsAfter := [], deco := [] }

/-- the file without rms sections and unread lines (header comments stay: the parser keeps them) -/
def FileM.core (F : FileM) : FileM := { F with antennas := F.antennas.map AntM.core, trailer := [] }

theorem storeFreqs_core (a : AntM) : ∀ (fs : List FreqM) (k : Nat) (s : State),
    storeFreqs (AntM.core a) (fs.map FreqM.core) k s = storeFreqs a fs k s
  | [], _, _ => rfl
  | f :: fs, k, s => by
    simp only [List.map_cons, storeFreqs]
    have : cacheAt (AntM.core a) k (FreqM.core f) = cacheAt a k f := rfl
    rw [this]
    cases saveCorrection { s with cache := cacheAt a k f } with
    | error e => rfl
    | ok s' => exact storeFreqs_core a fs (k + 1) s'

theorem storeAntenna_core (a : AntM) (s : State) : storeAntenna (AntM.core a) s = storeAntenna a s := by
  unfold storeAntenna
  have : (AntM.core a).freqs = a.freqs.map FreqM.core := rfl
  rw [this, storeFreqs_core]

theorem storeAntennas_core : ∀ (as : List AntM) (s : State), storeAntennas (as.map AntM.core) s = storeAntennas as s
  | [], _ => rfl
  | a :: as, s => by
    simp only [List.map_cons, storeAntennas, storeAntenna_core]
    cases storeAntenna a s with
    | error e => rfl
    | ok s' => exact storeAntennas_core as s'

theorem calibrations_core (F : FileM) : calibrations (FileM.core F) = calibrations F := by
  unfold calibrations
  have h1 : (FileM.core F).antennas = F.antennas.map AntM.core := rfl
  have h2 : headerState (FileM.core F) = headerState F := rfl
  rw [h1, h2, storeAntennas_core]

end Midgard.Antex.File
