/-
C20 — interpolate_with_derivative on the Lagrange model: the derivative is the central difference of the
interpolant; exact for polynomials of degree ≤ 2; linear in the data.
-/
import Midgard.Model.Numeric
import Midgard.Proofs.C20Lagrange
import Mathlib.Algebra.Polynomial.Derivative
import Mathlib.Algebra.Polynomial.Degree.Support

namespace Midgard.Proofs.C20
open Midgard.Numeric Polynomial

/-- the central difference is the derivative for polynomials of degree ≤ 2 -/
theorem central_diff_quadratic (P : Polynomial ℚ) (hdeg : P.degree ≤ 2) (x d : ℚ) (hd : d ≠ 0) :
    (P.eval (x + d) - P.eval (x - d)) / (2 * d) = (derivative P).eval x := by
  have hn : P.natDegree < 3 := by
    have h2 : P.natDegree ≤ 2 := natDegree_le_of_degree_le (by exact_mod_cast hdeg)
    omega
  have e := as_sum_range_C_mul_X_pow' P hn
  rw [e]
  simp only [Finset.sum_range_succ, Finset.sum_range_zero, eval_add, eval_mul, eval_C, eval_pow, eval_X,
    derivative_add, derivative_mul, derivative_C, derivative_X_pow]
  field_simp
  simp
  ring

theorem getD_zipWith_lt {α β γ} (f : α → β → γ) (a : List α) (b : List β) (i : ℕ) (da : α) (db : β) (dc : γ)
    (ha : i < a.length) (hb : i < b.length) :
    (List.zipWith f a b).getD i dc = f (a.getD i da) (b.getD i db) := by
  simp [List.getD_eq_getElem?_getD, List.getElem?_zipWith, List.getElem?_eq_getElem ha, List.getElem?_eq_getElem hb]

theorem lagrangeDeriv_ok_form (xs : List ℚ) (rows : List (List ℚ)) (dim w : ℕ) (be srt : Bool) (s : ℚ)
    (xnew : List ℚ) (dx : ℚ) (v d : List (List ℚ))
    (h : lagrangeDeriv xs rows dim w be srt s xnew dx = .ok (v, d)) :
    ∃ hi lo, lagrange xs rows dim w be srt s xnew = .ok v ∧
      lagrange xs rows dim w be srt s (xnew.map (· + dx)) = .ok hi ∧
      lagrange xs rows dim w be srt s (xnew.map (· - dx)) = .ok lo ∧ d = centralDiff hi lo dx := by
  unfold lagrangeDeriv at h
  split at h
  · exact absurd h (by simp)
  rename_i v' h1
  split at h
  · exact absurd h (by simp)
  rename_i hi h2
  split at h
  · exact absurd h (by simp)
  rename_i lo h3
  injection h with h
  injection h with ha hb
  exact ⟨hi, lo, by rw [h1, ha], h2, h3, hb.symm⟩

theorem lagrange_ok_length (xs : List ℚ) (rows : List (List ℚ)) (dim w : ℕ) (be srt : Bool) (s : ℚ)
    (xnew : List ℚ) (out : List (List ℚ)) (h : lagrange xs rows dim w be srt s xnew = .ok out) :
    out.length = xnew.length ∧ ∀ j, j < xnew.length → (out.getD j []).length = dim := by
  obtain ⟨_, _, _, _, ho⟩ := lagrange_ok_form xs rows dim w be srt s xnew out h
  subst ho
  refine ⟨by simp, ?_⟩
  intro j hj
  simp [List.getD_eq_getElem?_getD, List.getElem?_map, List.getElem?_eq_getElem hj, lagrangeAt, combine_length]

/-- entry `(j, c)` of the derivative is the central difference of the entries of the two shifted calls -/
theorem centralDiff_getD (hi lo : List (List ℚ)) (dx : ℚ) (n dim : ℕ)
    (h1 : hi.length = n) (h2 : lo.length = n)
    (h3 : ∀ j, j < n → (hi.getD j []).length = dim) (h4 : ∀ j, j < n → (lo.getD j []).length = dim)
    (j c : ℕ) (hj : j < n) (hc : c < dim) :
    ((centralDiff hi lo dx).getD j []).getD c 0 =
      ((hi.getD j []).getD c 0 - (lo.getD j []).getD c 0) / (2 * dx) := by
  unfold centralDiff
  rw [getD_zipWith_lt _ hi lo j [] [] [] (by omega) (by omega)]
  rw [getD_zipWith_lt _ _ _ c 0 0 0 (by rw [h3 j hj]; exact hc) (by rw [h4 j hj]; exact hc)]

end Midgard.Proofs.C20

namespace Midgard.Proofs.C20
open Midgard.Numeric Polynomial

theorem getD_map_lt (l : List ℚ) (f : ℚ → ℚ) (j : ℕ) (hj : j < l.length) : (l.map f).getD j 0 = f (l.getD j 0) := by
  simp [List.getD_eq_getElem?_getD, List.getElem?_map, List.getElem?_eq_getElem hj]

/-- entry `(j, c)` of the derivative, in terms of the two shifted calls -/
theorem lagrangeDeriv_entry (xs : List ℚ) (rows : List (List ℚ)) (dim w : ℕ) (be srt : Bool) (s : ℚ)
    (xnew : List ℚ) (dx : ℚ) (v d : List (List ℚ))
    (h : lagrangeDeriv xs rows dim w be srt s xnew dx = .ok (v, d)) :
    ∃ hi lo, lagrange xs rows dim w be srt s xnew = .ok v ∧
      lagrange xs rows dim w be srt s (xnew.map (· + dx)) = .ok hi ∧
      lagrange xs rows dim w be srt s (xnew.map (· - dx)) = .ok lo ∧
      ∀ j c, j < xnew.length → c < dim →
        (d.getD j []).getD c 0 = ((hi.getD j []).getD c 0 - (lo.getD j []).getD c 0) / (2 * dx) := by
  obtain ⟨hi, lo, h0, h1, h2, hd⟩ := lagrangeDeriv_ok_form xs rows dim w be srt s xnew dx v d h
  refine ⟨hi, lo, h0, h1, h2, ?_⟩
  intro j c hj hc
  obtain ⟨l1, e1⟩ := lagrange_ok_length _ _ _ _ _ _ _ _ _ h1
  obtain ⟨l2, e2⟩ := lagrange_ok_length _ _ _ _ _ _ _ _ _ h2
  rw [hd]
  exact centralDiff_getD hi lo dx xnew.length dim (by simpa using l1) (by simpa using l2)
    (fun j hj => e1 j (by simpa using hj)) (fun j hj => e2 j (by simpa using hj)) j c hj hc

/-- for data sampled from a polynomial of degree below the window size, the derivative returned is the
central difference of that polynomial -/
theorem lagrangeDeriv_poly (xs : List ℚ) (rows : List (List ℚ)) (dim w : ℕ) (be srt : Bool) (s : ℚ)
    (xnew : List ℚ) (dx : ℚ) (v d : List (List ℚ))
    (h : lagrangeDeriv xs rows dim w be srt s xnew dx = .ok (v, d)) (hs : s ≠ 0)
    (c : ℕ) (hc : c < dim) (P : Polynomial ℚ) (hdeg : P.degree < (w : ℕ))
    (hdata : ∀ i, i < xs.length → (rows.getD i []).getD c 0 = P.eval (xs.getD i 0))
    (j : ℕ) (hj : j < xnew.length) :
    (d.getD j []).getD c 0 = (P.eval (xnew.getD j 0 + dx) - P.eval (xnew.getD j 0 - dx)) / (2 * dx) := by
  obtain ⟨hi, lo, _, h1, h2, he⟩ := lagrangeDeriv_entry xs rows dim w be srt s xnew dx v d h
  rw [he j c hj hc]
  rw [lagrange_poly xs rows dim w be srt s _ hi h1 hs c hc P hdeg hdata j (by simpa using hj),
    lagrange_poly xs rows dim w be srt s _ lo h2 hs c hc P hdeg hdata j (by simpa using hj),
    getD_map_lt _ _ _ hj, getD_map_lt _ _ _ hj]

/-- … hence the exact derivative for data on a polynomial of degree ≤ 2 (every window has ≥ 3 points) -/
theorem lagrangeDeriv_quadratic (xs : List ℚ) (rows : List (List ℚ)) (dim w : ℕ) (be srt : Bool) (s : ℚ)
    (xnew : List ℚ) (dx : ℚ) (v d : List (List ℚ))
    (h : lagrangeDeriv xs rows dim w be srt s xnew dx = .ok (v, d)) (hs : s ≠ 0) (hdx : dx ≠ 0)
    (c : ℕ) (hc : c < dim) (P : Polynomial ℚ) (hdeg : P.degree ≤ 2)
    (hdata : ∀ i, i < xs.length → (rows.getD i []).getD c 0 = P.eval (xs.getD i 0))
    (j : ℕ) (hj : j < xnew.length) :
    (d.getD j []).getD c 0 = (derivative P).eval (xnew.getD j 0) := by
  obtain ⟨_, _, h0, _⟩ := lagrangeDeriv_ok_form xs rows dim w be srt s xnew dx v d h
  obtain ⟨_, hw, _⟩ := lagrange_ok_form xs rows dim w be srt s xnew v h0
  have hdeg' : P.degree < (w : ℕ) := lt_of_le_of_lt hdeg (by exact_mod_cast (by omega : 2 < w))
  rw [lagrangeDeriv_poly xs rows dim w be srt s xnew dx v d h hs c hc P hdeg' hdata j hj]
  exact central_diff_quadratic P hdeg _ dx hdx

/-- the derivative is linear in the data -/
theorem lagrangeDeriv_linear (xs : List ℚ) (r₁ r₂ r₃ : List (List ℚ)) (dim w : ℕ) (be srt : Bool) (s : ℚ)
    (xnew : List ℚ) (dx a b : ℚ) (v₁ v₂ v₃ d₁ d₂ d₃ : List (List ℚ))
    (h₁ : lagrangeDeriv xs r₁ dim w be srt s xnew dx = .ok (v₁, d₁))
    (h₂ : lagrangeDeriv xs r₂ dim w be srt s xnew dx = .ok (v₂, d₂))
    (h₃ : lagrangeDeriv xs r₃ dim w be srt s xnew dx = .ok (v₃, d₃))
    (c : ℕ) (hc : c < dim)
    (hcomb : ∀ i, i < xs.length →
      (r₃.getD i []).getD c 0 = a * (r₁.getD i []).getD c 0 + b * (r₂.getD i []).getD c 0)
    (j : ℕ) (hj : j < xnew.length) :
    (d₃.getD j []).getD c 0 = a * (d₁.getD j []).getD c 0 + b * (d₂.getD j []).getD c 0 := by
  obtain ⟨hi₁, lo₁, _, p₁, q₁, e₁⟩ := lagrangeDeriv_entry xs r₁ dim w be srt s xnew dx v₁ d₁ h₁
  obtain ⟨hi₂, lo₂, _, p₂, q₂, e₂⟩ := lagrangeDeriv_entry xs r₂ dim w be srt s xnew dx v₂ d₂ h₂
  obtain ⟨hi₃, lo₃, _, p₃, q₃, e₃⟩ := lagrangeDeriv_entry xs r₃ dim w be srt s xnew dx v₃ d₃ h₃
  rw [e₁ j c hj hc, e₂ j c hj hc, e₃ j c hj hc,
    lagrange_linear xs r₁ r₂ r₃ dim w be srt s _ a b hi₁ hi₂ hi₃ p₁ p₂ p₃ c hc hcomb j (by simpa using hj),
    lagrange_linear xs r₁ r₂ r₃ dim w be srt s _ a b lo₁ lo₂ lo₃ q₁ q₂ q₃ c hc hcomb j (by simpa using hj)]
  ring

end Midgard.Proofs.C20
