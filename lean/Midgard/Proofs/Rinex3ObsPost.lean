/-
C11: the post-processors of `Rinex3Parser` (`finish`) keep every row and drop exactly the observation types whose
column is absent in every row.  Core Lean only.
-/
import Midgard.Proofs.Rinex3ObsText

namespace Midgard.Spec.Rinex3ObsFile
open Midgard.Text Midgard.FixedCol Midgard.Decimal Midgard.ChainParser Midgard.RinexObs Midgard.Rinex3Obs

/-! ### the post-processors -/

theorem foldl_dropType (ts : List Str) : ∀ (d : Data),
    (ts.foldl (fun d t => d.dropType t) d).obs = d.obs.filter (fun kc => !ts.contains kc.1) ∧
    (ts.foldl (fun d t => d.dropType t) d).lli = d.lli.filter (fun kc => !ts.contains kc.1) ∧
    (ts.foldl (fun d t => d.dropType t) d).snr = d.snr.filter (fun kc => !ts.contains kc.1) ∧
    rowCols (ts.foldl (fun d t => d.dropType t) d) = rowCols d ∧
    (ts.foldl (fun d t => d.dropType t) d).timeMicros = d.timeMicros ∧
    (ts.foldl (fun d t => d.dropType t) d).pos = d.pos := by
  induction ts with
  | nil =>
    intro d
    have ft : ∀ (l : List (Str × Col)), List.filter (fun _ => true) l = l := by
      intro l; induction l with
      | nil => rfl
      | cons x xs ih => simp [List.filter_cons, ih]
    simp [ft]
  | cons t ts ih =>
    intro d
    obtain ⟨h1, h2, h3, h4, h5, h6⟩ := ih (d.dropType t)
    simp only [List.foldl_cons]
    have key : ∀ (l : List (Str × Col)),
        List.filter (fun kc => !ts.contains kc.1) (List.filter (fun x => x.1 != t) l) =
        List.filter (fun kc => !(t :: ts).contains kc.1) l := by
      intro l
      rw [List.filter_filter]
      apply List.filter_congr
      intro kc _
      by_cases h : kc.1 = t
      · simp [h]
      · have : ¬ t = kc.1 := fun e => h e.symm
        simp [h, this]
    refine ⟨?_, ?_, ?_, ?_, ?_, ?_⟩
    · rw [h1]; exact key d.obs
    · rw [h2]; exact key d.lli
    · rw [h3]; exact key d.snr
    · rw [h4]; rfl
    · rw [h5]; rfl
    · rw [h6]; rfl

/-- the names of the observation columns that are empty or absent in every row -/
def deadTypes (d : Data) : List Str := (d.obs.filter fun kc => kc.2.isEmpty || allNan kc.2).map (·.1)

/-- **the post-processors keep every row**: after `_remove_empty_systems`, `_remove_empty_obstype_fields` and
`_time_system_correction` the row-level columns are unchanged, and the observation / LLI / SSI columns are the
parsed ones minus the types whose observation column is absent in every row -/
theorem finish_data (s s' : State) (h : finish s = .ok s') :
    s'.data.obs = s.data.obs.filter (fun kc => !(deadTypes s.data).contains kc.1) ∧
    s'.data.lli = s.data.lli.filter (fun kc => !(deadTypes s.data).contains kc.1) ∧
    s'.data.snr = s.data.snr.filter (fun kc => !(deadTypes s.data).contains kc.1) ∧
    rowCols s'.data = rowCols s.data ∧ s'.data.timeMicros = s.data.timeMicros ∧ s'.data.pos = s.data.pos := by
  unfold finish at h
  split at h
  · simp at h
  · split at h
    · simp at h
    · have hd : ∀ s1 : State, timeSystemCorrection s1 = .ok s' → s'.data = s1.data := by
        intro s1 h1
        unfold timeSystemCorrection at h1
        split at h1
        · simp only [pure, Except.pure, Except.ok.injEq] at h1
          rw [← h1]; split <;> rfl
        · simp [throw, throwThe, MonadExcept.throw, MonadExceptOf.throw] at h1
      cases ht : timeSystemCorrection (removeEmptyObstypeFields (removeEmptySystems s)) with
      | error e => simp [ht] at h
      | ok s2 =>
        simp only [ht, Outcome.ok.injEq] at h
        subst h
        rw [hd _ ht]
        have := foldl_dropType (deadTypes (removeEmptySystems s).data) (removeEmptySystems s).data
        exact this

end Midgard.Spec.Rinex3ObsFile
