/-
ANTEX 1.4 record layouts, typed from the format description (Rothacher & Schmid, "ANTEX: The
Antenna Exchange Format, Version 1.4", section 4 table) — *independently of the parser source*.

Each labelled record is 60 data columns followed by the record label in columns 61–80.  The
Fortran edit descriptors of the standard are given in the comment of every entry; a field is the
half-open Python column interval.  Field names follow the dictionary keys used by midgard so that
the generated tables can be compared by name.

The correction rows (`NOAZI` and the azimuth rows) have no label: `3X,A5,mF8.2` resp. `F8.1,mF8.2`.
-/
import Midgard.Core.FixedCol

namespace Midgard.Spec.Antex14
open Midgard.Text Midgard.FixedCol

structure RecSpec where
  /-- record kind used by the file models of the harness -/
  kind : String
  /-- columns 61–80 -/
  label : String
  layout : Layout
  aligns : List Align
  deriving Repr, DecidableEq

def L := Align.left
def R := Align.right

def validLayout : Layout :=
  [⟨"year", 0, 6⟩, ⟨"month", 6, 12⟩, ⟨"day", 12, 18⟩, ⟨"hour", 18, 24⟩, ⟨"minute", 24, 30⟩, ⟨"second", 30, 43⟩]

def specs : List RecSpec := [
  -- F8.1,12X,A1,39X
  ⟨"VER", "ANTEX VERSION / SYST", [⟨"version", 0, 8⟩, ⟨"sat_sys", 20, 21⟩], [R, L]⟩,
  -- A1,19X,A20,A20
  ⟨"PCV", "PCV TYPE / REFANT", [⟨"pcv_type", 0, 1⟩, ⟨"ref_antenna", 20, 40⟩, ⟨"ref_serial_num", 40, 60⟩], [L, L, L]⟩,
  -- A60
  ⟨"COM", "COMMENT", [⟨"comment", 0, 60⟩], [L]⟩,
  -- 60X
  ⟨"EOH", "END OF HEADER", [], []⟩,
  ⟨"SOA", "START OF ANTENNA", [], []⟩,
  ⟨"EOA", "END OF ANTENNA", [], []⟩,
  -- A20,A20,A10,A10
  ⟨"TYP", "TYPE / SERIAL NO",
    [⟨"antenna_type", 0, 20⟩, ⟨"antenna_code", 20, 40⟩, ⟨"sat_code", 40, 50⟩, ⟨"cospar_id", 50, 60⟩], [L, L, L, L]⟩,
  -- A20,A20,I6,4X,A10
  ⟨"METH", "METH / BY / # / DATE",
    [⟨"method", 0, 20⟩, ⟨"agency", 20, 40⟩, ⟨"num_calibrated", 40, 46⟩, ⟨"date", 50, 60⟩], [L, L, R, L]⟩,
  -- 2X,F6.1,52X
  ⟨"DAZI", "DAZI", [⟨"dazi", 2, 8⟩], [R]⟩,
  -- 2X,3F6.1,40X
  ⟨"ZEN", "ZEN1 / ZEN2 / DZEN", [⟨"zen1", 2, 8⟩, ⟨"zen2", 8, 14⟩, ⟨"dzen", 14, 20⟩], [R, R, R]⟩,
  -- I6,54X
  ⟨"NFREQ", "# OF FREQUENCIES", [⟨"num_freq", 0, 6⟩], [R]⟩,
  -- 5I6,F13.7,17X
  ⟨"VFROM", "VALID FROM", validLayout, [R, R, R, R, R, R]⟩,
  ⟨"VUNTIL", "VALID UNTIL", validLayout, [R, R, R, R, R, R]⟩,
  -- A10,50X
  ⟨"SINEX", "SINEX CODE", [⟨"sinex_code", 0, 10⟩], [L]⟩,
  -- 3X,A1,I2,54X
  ⟨"SOF", "START OF FREQUENCY", [⟨"frequency_code", 3, 6⟩], [L]⟩,
  -- 3F10.2,30X
  ⟨"NEU", "NORTH / EAST / UP", [⟨"north", 0, 10⟩, ⟨"east", 10, 20⟩, ⟨"up", 20, 30⟩], [R, R, R]⟩,
  ⟨"EOF", "END OF FREQUENCY", [⟨"frequency_code", 3, 6⟩], [L]⟩,
  ⟨"SOR", "START OF FREQ RMS", [⟨"frequency_code", 3, 6⟩], [L]⟩,
  ⟨"EOR", "END OF FREQ RMS", [⟨"frequency_code", 3, 6⟩], [L]⟩
]

def findKind (k : String) : Option RecSpec := specs.find? (·.kind == k)
def findLabel (l : String) : Option RecSpec := specs.find? (·.label == l)

/-- a labelled record: the cells in their columns, blank-filled to column 60, then the label -/
def renderLabelled (sp : RecSpec) (cells : List Str) : Str :=
  ljust 60 (renderA sp.layout (sp.aligns.zip cells)) ++ sp.label.toList

/-- a correction row: `3X,A5,mF8.2` (`first = "NOAZI"`) or `F8.1,mF8.2` (`first` = the azimuth) -/
def renderRow (first : Str) (vals : List Str) : Str :=
  rjust 8 first ++ (vals.map (rjust 8)).flatten

/-- one record of a file model -/
def renderRecord (kind : String) (cells : List Str) : Option Str :=
  if kind = "NOAZI" then some (renderRow "NOAZI".toList cells)
  else if kind = "AZI" then
    match cells with
    | az :: vals => some (renderRow az vals)
    | [] => none
  else if kind = "BLANK" then some []
  else match findKind kind with
    | some sp => if cells.length = sp.layout.length then some (renderLabelled sp cells) else none
    | none => none

/-- a whole file: every record on its own line -/
def renderFile (recs : List (String × List Str)) : Option Str := do
  let lines ← recs.mapM fun (k, cs) => renderRecord k cs
  pure (lines.map (· ++ ['\n'])).flatten

end Midgard.Spec.Antex14
