/-
Independent statement of TAI−UTC as published by the IERS / Paris Observatory
(https://hpiers.obspm.fr/eoppc/bul/bulc/UTC-TAI.history), typed from the publication by calendar
date — not from the repository's file.  Each entry:  from (y, m, d) 0h UTC:
TAI−UTC = offset s + (MJD − refMjd) × rate s.
-/
import Midgard.Model.TimeScale

namespace Midgard.Spec.TaiUtc
open Midgard.TimeScale

/-- Julian day number of a Gregorian calendar date (Fliegel & Van Flandern 1968, truncating
integer division) -/
def jdn (y m d : Int) : Int :=
  let a := (m - 14).tdiv 12
  (1461 * (y + 4800 + a)).tdiv 4 + (367 * (m - 2 - 12 * a)).tdiv 12
    - (3 * ((y + 4900 + a).tdiv 100)).tdiv 4 + d - 32075

/-- Julian date of 0h of a calendar date -/
def jd0h (y m d : Int) : Rat := (jdn y m d : Rat) - 1 / 2

structure Entry where
  y : Int
  m : Int
  d : Int
  offset : Rat
  refMjd : Rat
  rate : Rat

def published : List Entry := [
  ⟨1961, 1, 1, 1422818 / 1000000, 37300, 1296 / 1000000⟩,
  ⟨1961, 8, 1, 1372818 / 1000000, 37300, 1296 / 1000000⟩,
  ⟨1962, 1, 1, 1845858 / 1000000, 37665, 11232 / 10000000⟩,
  ⟨1963, 11, 1, 1945858 / 1000000, 37665, 11232 / 10000000⟩,
  ⟨1964, 1, 1, 3240130 / 1000000, 38761, 1296 / 1000000⟩,
  ⟨1964, 4, 1, 3340130 / 1000000, 38761, 1296 / 1000000⟩,
  ⟨1964, 9, 1, 3440130 / 1000000, 38761, 1296 / 1000000⟩,
  ⟨1965, 1, 1, 3540130 / 1000000, 38761, 1296 / 1000000⟩,
  ⟨1965, 3, 1, 3640130 / 1000000, 38761, 1296 / 1000000⟩,
  ⟨1965, 7, 1, 3740130 / 1000000, 38761, 1296 / 1000000⟩,
  ⟨1965, 9, 1, 3840130 / 1000000, 38761, 1296 / 1000000⟩,
  ⟨1966, 1, 1, 4313170 / 1000000, 39126, 2592 / 1000000⟩,
  ⟨1968, 2, 1, 4213170 / 1000000, 39126, 2592 / 1000000⟩,
  ⟨1972, 1, 1, 10, 0, 0⟩,
  ⟨1972, 7, 1, 11, 0, 0⟩,
  ⟨1973, 1, 1, 12, 0, 0⟩,
  ⟨1974, 1, 1, 13, 0, 0⟩,
  ⟨1975, 1, 1, 14, 0, 0⟩,
  ⟨1976, 1, 1, 15, 0, 0⟩,
  ⟨1977, 1, 1, 16, 0, 0⟩,
  ⟨1978, 1, 1, 17, 0, 0⟩,
  ⟨1979, 1, 1, 18, 0, 0⟩,
  ⟨1980, 1, 1, 19, 0, 0⟩,
  ⟨1981, 7, 1, 20, 0, 0⟩,
  ⟨1982, 7, 1, 21, 0, 0⟩,
  ⟨1983, 7, 1, 22, 0, 0⟩,
  ⟨1985, 7, 1, 23, 0, 0⟩,
  ⟨1988, 1, 1, 24, 0, 0⟩,
  ⟨1990, 1, 1, 25, 0, 0⟩,
  ⟨1991, 1, 1, 26, 0, 0⟩,
  ⟨1992, 7, 1, 27, 0, 0⟩,
  ⟨1993, 7, 1, 28, 0, 0⟩,
  ⟨1994, 7, 1, 29, 0, 0⟩,
  ⟨1996, 1, 1, 30, 0, 0⟩,
  ⟨1997, 7, 1, 31, 0, 0⟩,
  ⟨1999, 1, 1, 32, 0, 0⟩,
  ⟨2006, 1, 1, 33, 0, 0⟩,
  ⟨2009, 1, 1, 34, 0, 0⟩,
  ⟨2012, 7, 1, 35, 0, 0⟩,
  ⟨2015, 7, 1, 36, 0, 0⟩,
  ⟨2017, 1, 1, 37, 0, 0⟩]

/-- the end of the last (open) interval as the repository writes it: 9999-12-31 0h -/
def openEnd : Rat := jd0h 9999 12 31

/-- the published history as table rows: each entry is in force until the next one starts -/
def rowsFrom : List Entry → List Row
  | [] => []
  | [e] => [⟨jd0h e.y e.m e.d, openEnd, e.offset, e.refMjd, e.rate⟩]
  | e :: f :: rest => ⟨jd0h e.y e.m e.d, jd0h f.y f.m f.d, e.offset, e.refMjd, e.rate⟩ :: rowsFrom (f :: rest)

def rows : List Row := rowsFrom published

end Midgard.Spec.TaiUtc
