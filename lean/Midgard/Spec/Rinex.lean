/-
RINEX observation file record layouts, typed from the format descriptions — RINEX 3.04 (IGS/RTCM,
2018) tables A2 (header) and A3 (data), RINEX 2.11 (Gurtner & Estey, 2007) tables A1 and A2 —
*independently of the parser source*.  The Fortran edit descriptor of each record is quoted in
its comment; a field is the half-open Python column interval.

Header records are 60 data columns followed by the label in columns 61–80.
Observation records: RINEX 3 `A1,I2.2,m(F14.3,I1,I1)`; RINEX 2 `m(F14.3,I1,I1)`, five per line.
-/
import Midgard.Core.FixedCol

namespace Midgard.Spec.Rinex
open Midgard.Text Midgard.FixedCol

structure RecSpec where
  kind : String
  /-- columns 61–80 (`""` for data records) -/
  label : String
  layout : Layout
  aligns : List Align
  deriving Repr, DecidableEq

def L := Align.left
def R := Align.right

/-- `n` fields `pre_01 …` of width `w` every `step` columns from `start`, each preceded by `gap` blanks -/
def rep (pre : String) (n start step gap : Nat) : Layout :=
  (List.range n).map fun k => ⟨s!"{pre}_{if k + 1 < 10 then "0" else ""}{k + 1}", start + step * k + gap, start + step * (k + 1)⟩

def timeLayout : Layout :=
  [⟨"year", 0, 6⟩, ⟨"month", 6, 12⟩, ⟨"day", 12, 18⟩, ⟨"hour", 18, 24⟩, ⟨"minute", 24, 30⟩, ⟨"second", 30, 43⟩,
   ⟨"time_sys", 48, 51⟩]

/-- GLONASS SLOT / FRQ #: `8(A1,I2.2,1X,I2,1X)` from column `4` -/
def slotFields : Layout :=
  (List.range 8).flatMap fun k =>
    [⟨s!"slot_0{k + 1}", 4 + 7 * k, 7 + 7 * k⟩, ⟨s!"freq_0{k + 1}", 8 + 7 * k, 10 + 7 * k⟩]

/-- GLONASS COD/PHS/BIS: `4(1X,A3,1X,F8.3)` -/
def biasFields : Layout :=
  (List.range 4).flatMap fun k =>
    [⟨s!"type_0{k + 1}", 1 + 13 * k, 4 + 13 * k⟩, ⟨s!"bias_0{k + 1}", 5 + 13 * k, 13 + 13 * k⟩]

def alt (a b : Align) (n : Nat) : List Align := (List.range n).flatMap fun _ => [a, b]

/-- one observation: `F14.3,I1,I1` at column `c` -/
def obsTriple (k c : Nat) : Layout :=
  [⟨s!"val_{k + 1}", c, c + 14⟩, ⟨s!"lli_{k + 1}", c + 14, c + 15⟩, ⟨s!"snr_{k + 1}", c + 15, c + 16⟩]

/-- `m` observations from column `start` -/
def obsLayout (start m : Nat) : Layout := (List.range m).flatMap fun k => obsTriple k (start + 16 * k)

def obsAligns (m : Nat) : List Align := (List.range m).flatMap fun _ => [R, L, L]

def headerSpecs : List RecSpec := [
  -- F9.2,11X,A1,19X,A1,19X
  ⟨"VER3", "RINEX VERSION / TYPE", [⟨"version", 0, 9⟩, ⟨"file_type", 20, 21⟩, ⟨"sat_sys", 40, 41⟩], [R, L, L]⟩,
  ⟨"VER2", "RINEX VERSION / TYPE", [⟨"version", 0, 9⟩, ⟨"file_type", 20, 21⟩, ⟨"sat_sys", 40, 41⟩], [R, L, L]⟩,
  -- A20,A20,A20
  ⟨"PGM", "PGM / RUN BY / DATE", [⟨"program", 0, 20⟩, ⟨"run_by", 20, 40⟩, ⟨"file_created", 40, 60⟩], [L, L, L]⟩,
  -- A60
  ⟨"COM", "COMMENT", [⟨"comment", 0, 60⟩], [L]⟩,
  ⟨"MNAME", "MARKER NAME", [⟨"marker_name", 0, 60⟩], [L]⟩,
  -- A20
  ⟨"MNUM", "MARKER NUMBER", [⟨"marker_number", 0, 20⟩], [L]⟩,
  -- A20,40X
  ⟨"MTYPE", "MARKER TYPE", [⟨"marker_type", 0, 20⟩], [L]⟩,
  -- A20,A40
  ⟨"OBSAG", "OBSERVER / AGENCY", [⟨"observer", 0, 20⟩, ⟨"agency", 20, 60⟩], [L, L]⟩,
  -- 3A20
  ⟨"REC", "REC # / TYPE / VERS", [⟨"receiver_number", 0, 20⟩, ⟨"receiver_type", 20, 40⟩, ⟨"receiver_version", 40, 60⟩], [L, L, L]⟩,
  -- 2A20
  ⟨"ANT", "ANT # / TYPE", [⟨"antenna_number", 0, 20⟩, ⟨"antenna_type", 20, 40⟩], [L, L]⟩,
  -- 3F14.4
  ⟨"POS", "APPROX POSITION XYZ", [⟨"pos_x", 0, 14⟩, ⟨"pos_y", 14, 28⟩, ⟨"pos_z", 28, 42⟩], [R, R, R]⟩,
  ⟨"DHEN", "ANTENNA: DELTA H/E/N", [⟨"antenna_height", 0, 14⟩, ⟨"antenna_east", 14, 28⟩, ⟨"antenna_north", 28, 42⟩], [R, R, R]⟩,
  ⟨"DXYZ", "ANTENNA: DELTA X/Y/Z", [⟨"ant_vehicle_x", 0, 14⟩, ⟨"ant_vehicle_y", 14, 28⟩, ⟨"ant_vehicle_z", 28, 42⟩], [R, R, R]⟩,
  -- A1,2X,I3,13(1X,A3)
  ⟨"SYSOBS", "SYS / # / OBS TYPES", [⟨"satellite_sys", 0, 1⟩, ⟨"num_obstypes", 3, 6⟩] ++ rep "type" 13 6 4 1, [L, R] ++ List.replicate 13 L⟩,
  -- 6X,13(1X,A3)
  ⟨"SYSOBSC", "SYS / # / OBS TYPES", rep "type" 13 6 4 1, List.replicate 13 L⟩,
  -- A20,40X
  ⟨"SSU", "SIGNAL STRENGTH UNIT", [⟨"signal_strength_unit", 0, 20⟩], [L]⟩,
  -- F10.3
  ⟨"INTERVAL", "INTERVAL", [⟨"interval", 0, 10⟩], [R]⟩,
  -- 5I6,F13.7,5X,A3
  ⟨"TFIRST", "TIME OF FIRST OBS", timeLayout, [R, R, R, R, R, R, L]⟩,
  ⟨"TLAST", "TIME OF LAST OBS", timeLayout, [R, R, R, R, R, R, L]⟩,
  -- I6
  ⟨"RCVCLK", "RCV CLOCK OFFS APPL", [⟨"rcv_clk_offset_flag", 0, 6⟩], [R]⟩,
  -- A1,1X,A17,1X,A40
  ⟨"DCBS", "SYS / DCBS APPLIED", [⟨"sat_sys", 0, 1⟩, ⟨"program", 2, 19⟩, ⟨"source", 20, 60⟩], [L, L, L]⟩,
  ⟨"PCVS", "SYS / PCVS APPLIED", [⟨"sat_sys", 0, 1⟩, ⟨"program", 2, 19⟩, ⟨"source", 20, 60⟩], [L, L, L]⟩,
  -- A1,1X,A3,1X,F8.5,2X,I2.2,10(1X,A3)
  ⟨"PSHIFT", "SYS / PHASE SHIFT",
    [⟨"sat_sys", 0, 1⟩, ⟨"obs_type", 2, 5⟩, ⟨"correction", 6, 14⟩, ⟨"num_satellite", 16, 18⟩] ++ rep "sat" 10 18 4 1,
    [L, L, R, R] ++ List.replicate 10 L⟩,
  -- 18X,10(1X,A3)
  ⟨"PSHIFTC", "SYS / PHASE SHIFT", rep "sat" 10 18 4 1, List.replicate 10 L⟩,
  -- I3,1X,8(A1,I2.2,1X,I2,1X)
  ⟨"GSLOT", "GLONASS SLOT / FRQ #", ⟨"num_satellite", 0, 3⟩ :: slotFields, R :: alt L R 8⟩,
  -- 4X,8(A1,I2.2,1X,I2,1X)
  ⟨"GSLOTC", "GLONASS SLOT / FRQ #", slotFields, alt L R 8⟩,
  -- 4(X1,A3,X1,F8.3)
  ⟨"GBIAS", "GLONASS COD/PHS/BIS", biasFields, alt L R 4⟩,
  -- I6,I6,I6,I6,A3
  ⟨"LEAP3", "LEAP SECONDS",
    [⟨"leap_seconds", 0, 6⟩, ⟨"future_past_leap_seconds", 6, 12⟩, ⟨"week", 12, 18⟩, ⟨"week_day", 18, 24⟩, ⟨"time_sys", 24, 27⟩],
    [R, R, R, R, L]⟩,
  -- I6 (RINEX 2.11)
  ⟨"LEAP2", "LEAP SECONDS", [⟨"leap_seconds", 0, 6⟩], [R]⟩,
  -- I6
  ⟨"NSAT", "# OF SATELLITES", [⟨"num_satellites", 0, 6⟩], [R]⟩,
  -- 60X
  ⟨"EOH", "END OF HEADER", [], []⟩,
  -- RINEX 2.11: 2I6,I6,7(3X,A1,I2)
  ⟨"WAVE", "WAVELENGTH FACT L1/2", [⟨"l1_wave_fact", 0, 6⟩, ⟨"l2_wave_fact", 6, 12⟩, ⟨"num_satellite", 12, 18⟩] ++
      ((List.range 7).map fun k => ⟨s!"prn_{k + 1}", 21 + 6 * k, 24 + 6 * k⟩), [R, R, R] ++ List.replicate 7 L⟩,
  -- RINEX 2.11: I6,9(4X,A2)
  ⟨"TYPES2", "# / TYPES OF OBSERV", ⟨"num_obstypes", 0, 6⟩ :: ((List.range 9).map fun k => ⟨s!"type_{k + 1}", 10 + 6 * k, 12 + 6 * k⟩),
    R :: List.replicate 9 L⟩,
  -- 6X,9(4X,A2)
  ⟨"TYPES2C", "# / TYPES OF OBSERV", (List.range 9).map fun k => ⟨s!"type_{k + 1}", 10 + 6 * k, 12 + 6 * k⟩, List.replicate 9 L⟩,
  -- the same three records with the repeated group of each column pair / list written as one cell (the text of the
  -- group as printed, e.g. `C1C  -71.940`, `R01  5`, `G01 G02 G03`): 4(1X,A12), I3,1X,8(A7), A1,1X,A3,1X,F8.5,2X,I2.2,1X,A40
  ⟨"GBIASP", "GLONASS COD/PHS/BIS", (List.range 4).map fun k => ⟨s!"type_0{k + 1}", 1 + 13 * k, 13 + 13 * k⟩, List.replicate 4 L⟩,
  ⟨"GSLOTP", "GLONASS SLOT / FRQ #", ⟨"num_satellite", 0, 3⟩ :: ((List.range 8).map fun k => ⟨s!"slot_0{k + 1}", 4 + 7 * k, 11 + 7 * k⟩),
    R :: List.replicate 8 L⟩,
  ⟨"PSHIFTP", "SYS / PHASE SHIFT",
    [⟨"sat_sys", 0, 1⟩, ⟨"obs_type", 2, 5⟩, ⟨"correction", 6, 14⟩, ⟨"num_satellite", 16, 18⟩, ⟨"satellites", 19, 59⟩], [L, L, R, R, L]⟩
]

/-- RINEX 3 epoch record: `A1,1X,I4,4(1X,I2.2),F11.7,2X,I1,I3,6X,F15.12` -/
def epoch3 : RecSpec :=
  ⟨"EPOCH3", "", [⟨"record_id", 0, 1⟩, ⟨"year", 2, 6⟩, ⟨"month", 7, 9⟩, ⟨"day", 10, 12⟩, ⟨"hour", 13, 15⟩, ⟨"minute", 16, 18⟩,
                 ⟨"second", 18, 29⟩, ⟨"epoch_flag", 31, 32⟩, ⟨"num_sat", 32, 35⟩, ⟨"rcv_clk_offset", 41, 56⟩],
    [L, R, R, R, R, R, R, R, R, R]⟩

/-- RINEX 3 observation record with `m` observations: `A1,I2.2,m(F14.3,I1,I1)` -/
def obs3 (m : Nat) : RecSpec := ⟨"OBS3", "", ⟨"sat", 0, 3⟩ :: obsLayout 3 m, L :: obsAligns m⟩

/-- RINEX 2 epoch record: `1X,I2.2,4(1X,I2),F11.7,2X,I1,I3,12(A1,I2),F12.9` -/
def epoch2 : RecSpec :=
  ⟨"EPOCH2", "", [⟨"year", 1, 3⟩, ⟨"month", 4, 6⟩, ⟨"day", 7, 9⟩, ⟨"hour", 10, 12⟩, ⟨"minute", 13, 15⟩, ⟨"second", 15, 26⟩,
                 ⟨"epoch_flag", 28, 29⟩, ⟨"num_sat", 29, 32⟩] ++ rep "sat" 12 32 3 0 ++ [⟨"rcv_clk_offset", 68, 80⟩],
    [R, R, R, R, R, R, R, R] ++ List.replicate 12 L ++ [R]⟩

/-- RINEX 2 epoch continuation: `32X,12(A1,I2)` -/
def epoch2c : RecSpec := ⟨"EPOCH2C", "", rep "sat" 12 32 3 0, List.replicate 12 L⟩

/-- RINEX 2 observation line with `m ≤ 5` observations -/
def obs2 (m : Nat) : RecSpec := ⟨"OBS2", "", obsLayout 0 m, obsAligns m⟩

def findKind (k : String) : Option RecSpec := headerSpecs.find? (·.kind == k)
def findLabel (l : String) : List RecSpec := headerSpecs.filter (·.label == l)

def renderCells (sp : RecSpec) (cells : List Str) : Str := renderA sp.layout (sp.aligns.zip cells)

/-- a header record: cells in their columns, blank-filled to column 60, then the label -/
def renderLabelled (sp : RecSpec) (cells : List Str) : Str :=
  ljust 60 (renderCells sp cells) ++ sp.label.toList

def padTo (n : Nat) (l : List Str) : List Str := l ++ List.replicate (n - l.length) []

/-- one record of a file model -/
def renderRecord (kind : String) (cells : List Str) : Option Str :=
  if kind = "EPOCH3" then
    if cells.length = 9 then some (renderCells epoch3 (['>'] :: cells)) else none
  else if kind = "OBS3" then
    match cells with
    | sat :: obs => if obs.length % 3 = 0 then some (renderCells (obs3 (obs.length / 3)) (sat :: obs)) else none
    | [] => none
  else if kind = "EPOCH2" then
    if 9 ≤ cells.length ∧ cells.length ≤ 21 then
      some (renderCells epoch2 (cells.take 8 ++ padTo 12 (cells.drop 9) ++ (cells.drop 8).take 1))
    else none
  else if kind = "EPOCH2C" then
    if cells.length ≤ 12 then some (renderCells epoch2c cells) else none
  else if kind = "OBS2" then
    if cells.length % 3 = 0 ∧ cells.length ≤ 15 then some (renderCells (obs2 (cells.length / 3)) cells) else none
  else match findKind kind with
    | some sp => if cells.length ≤ sp.layout.length then some (renderLabelled sp cells) else none
    | none => none

def renderFile (recs : List (String × List Str)) : Option Str := do
  let lines ← recs.mapM fun (k, cs) => renderRecord k cs
  pure (lines.map (· ++ ['\n'])).flatten

end Midgard.Spec.Rinex
