/-
Decimal number texts of the independent file writers (`Spec/Sp3File.lean`, `Spec/RinexNavFile.lean`):
exact decimals printed the way Fortran `Fw.p` / `Dw.p` / C `%w.pf` print them.  Mathlib-free,
executable (the drivers link it); lemmas in `Proofs/NumText.lean`.

  fmtDec p n            `n · 10⁻ᵖ` as `[-]digits.pdigits`            (`'{:.pf}'` of an exact decimal)
  decVal p n            its value
  fmtSci x p lead s m e   `[-][d].ddd…X±ee`: mantissa `m · 10⁻ᵖ`, exponent letter `x`, two or more exponent digits
  sciVal p lead s m e     its value `± m · 10⁻ᵖ · 10ᵉ`
-/
import Midgard.Core.Decimal

namespace Midgard.Spec.NumText
open Midgard.Text Midgard.Decimal

/-- `n · 10⁻ᵖ` with exactly `p` decimals -/
def fmtDec (p : Nat) (n : Int) : Str :=
  (if n < 0 then ['-'] else []) ++ natDigits (n.natAbs / 10 ^ p) ++ '.' :: fixedDigits p n.natAbs

def decVal (p : Nat) (n : Int) : Rat := (n : Rat) / pow10 p

/-- the exponent field `±ee` (at least two digits) -/
def fmtExp (e : Int) : Str :=
  (if e < 0 then '-' else '+') :: (if e.natAbs < 10 then '0' :: natDigits e.natAbs else natDigits e.natAbs)

/-- mantissa text: `d.ddd…` (`lead = true`, integer part `m / 10ᵖ`) or `.ddd…` (`lead = false`) -/
def sciBody (p : Nat) (lead : Bool) (m : Nat) : Str :=
  (if lead then natDigits (m / 10 ^ p) else []) ++ '.' :: fixedDigits p m

/-- the natural number the mantissa digits spell -/
def mantVal (p : Nat) (lead : Bool) (m : Nat) : Nat := if lead then m else m % 10 ^ p

/-- scientific notation with the exponent letter `x`: sign, mantissa `m · 10⁻ᵖ` (with or without an
integer digit), exponent `e` -/
def fmtSci (x : Char) (p : Nat) (lead neg : Bool) (m : Nat) (e : Int) : Str :=
  (if neg then ['-'] else []) ++ sciBody p lead m ++ x :: fmtExp e

def sciVal (p : Nat) (lead neg : Bool) (m : Nat) (e : Int) : Rat :=
  let v := scale10 ((mantVal p lead m : Rat) / pow10 p) e
  if neg then -v else v

/-- the four exponent letters of navigation files -/
def isExpLetter (x : Char) : Bool := x == 'D' || x == 'd' || x == 'E' || x == 'e'

end Midgard.Spec.NumText
