/-
SP3-c / SP3-d **files**: an abstract file model, the independent writer that renders it (columns of
`Spec/Sp3.lean`, number formats F14.6 / I2 / I3 / F11.8 of the SP3 documents), the explicit
well-formedness test, and what the property says the parser must deliver for it.

Mathlib-free and executable: the C13 driver renders the harness's file models with `render`, so the
files the real parser is run on are literally `render F`, and answers `wf F`, `expected F`.
The file-level theorem (`Props/C13.lean`, `file_roundtrip`) is
`wf F → parseFile … (render F) = some ⟨expectedMeta F, expectedEntries … F⟩`.
-/
import Midgard.Model.Sp3
import Midgard.Spec.Sp3
import Midgard.Spec.NumText

namespace Midgard.Spec.Sp3File
open Midgard.Text Midgard.Decimal Midgard.FixedCol Midgard.Sp3 Midgard.Spec.NumText

/-! ### the abstract file -/

/-- data-section lines that carry no position: velocity records, the EP / EV correlation records, and
blank lines (nothing but blanks, possibly none) -/
inductive ExtraKind | vel | ep | ev | blank
  deriving Repr, DecidableEq, Inhabited

def ExtraKind.tag : ExtraKind → Str
  | .vel => ['V']
  | .ep => ['E', 'P']
  | .ev => ['E', 'V']
  | .blank => []

/-- columns 62–80 of a position record: accuracy exponents (blank = unknown) and the four flags -/
structure Acc where
  sx : Option Nat
  sy : Option Nat
  sz : Option Nat
  sclk : Option Nat
  /-- clock event, clock prediction, manoeuvre, orbit prediction: one character each or blank -/
  flags : List Str
  deriving Repr, DecidableEq, Inhabited

structure PosRec where
  sat : Str
  /-- coordinates in units of 10⁻⁶ km (F14.6); `0` is the "bad or absent" value -/
  x : Int
  y : Int
  z : Int
  /-- clock in units of 10⁻⁶ µs (F14.6); `999999999999` is the "bad or absent" value -/
  clk : Int
  /-- `none`: the record ends after the clock -/
  acc : Option Acc
  /-- `true`: the line is written with all its 80 columns; `false`: trailing blanks removed -/
  pad80 : Bool
  /-- the lines that follow the record before the next one (V, EP, EV, blank lines), each as (kind, rest of the line) -/
  extras : List (ExtraKind × Str)
  deriving Repr, DecidableEq, Inhabited

structure EpochBlock where
  epoch : Epoch
  recs : List PosRec
  deriving Repr, DecidableEq, Inhabited

/-- header lines the parser has no table for: `+ ` satellite lists, `++` accuracy lines, `%i`, `/*` -/
inductive HdrKind | plus | plusplus | pci | comment
  deriving Repr, DecidableEq, Inhabited

def HdrKind.tag : HdrKind → Str
  | .plus => ['+', ' ']
  | .plusplus => ['+', '+']
  | .pci => ['%', 'i']
  | .comment => ['/', '*']

structure Header where
  /-- `c` or `d` -/
  version : Char
  /-- line 1 after the version: pv_flag, year, month, day, hour, minute, second, num_epoch, data_used,
  coord_sys, orb_type, agency — the texts as printed -/
  line1 : List Str
  /-- line 2: gpsweek, gpssec, epoch_interval, mjd_int, mjd_frac -/
  line2 : List Str
  /-- the `+` / `++` lines (any number: 5 + 5, or more with over 85 satellites) -/
  satLines : List (HdrKind × Str)
  fileType : Str
  timeSys : Str
  /-- base for position/velocity accuracy in units of 10⁻⁷ (F10.7), for clock/rate in 10⁻⁹ (F12.9) -/
  basePos : Nat
  baseClk : Nat
  /-- `%i` and comment lines -/
  tailLines : List (HdrKind × Str)
  deriving Repr, DecidableEq, Inhabited

structure File where
  hdr : Header
  epochs : List EpochBlock
  deriving Repr, DecidableEq, Inhabited

/-! ### the writer -/

def R (s : Str) : Align × Str := (Align.right, s)
def Lft (s : Str) : Align × Str := (Align.left, s)

/-- `I2` / `I3` accuracy exponent, blank when unknown -/
def codeText : Option Nat → Str
  | some k => natDigits k
  | Option.none => []

def noAcc : Acc := ⟨Option.none, Option.none, Option.none, Option.none, [[], [], [], []]⟩

def posCells (r : PosRec) : List (Align × Str) :=
  let a := r.acc.getD noAcc
  [Lft r.sat, R (fmtDec 6 r.x), R (fmtDec 6 r.y), R (fmtDec 6 r.z), R (fmtDec 6 r.clk),
   R (codeText a.sx), R (codeText a.sy), R (codeText a.sz), R (codeText a.sclk)] ++ a.flags.map Lft

/-- all 80 columns of a position record -/
def posFull (r : PosRec) : Str := 'P' :: renderFrom 1 Spec.Sp3.recP (posCells r)

def posLine (r : PosRec) : Str := if r.pad80 then posFull r else rstrip (posFull r)

def extraLine (x : ExtraKind × Str) : Str := x.1.tag ++ x.2

def recLines (r : PosRec) : List Str := posLine r :: r.extras.map extraLine

/-- `*  yyyy mm dd hh mm ss.ssssssss` -/
def epochLine (e : Epoch) : Str :=
  ['*', ' ', ' '] ++ rjust 4 (fmtInt e.year) ++ ' ' :: rjust 2 (fmtInt e.month) ++ ' ' :: rjust 2 (fmtInt e.day) ++
    ' ' :: rjust 2 (fmtInt e.hour) ++ ' ' :: rjust 2 (fmtInt e.minute) ++ ' ' :: rjust 11 (fmtDec 8 (e.sec7 * 10))

def blockLines (b : EpochBlock) : List Str := epochLine b.epoch :: b.recs.flatMap recLines

def hdrOther (x : HdrKind × Str) : Str := x.1.tag ++ x.2

/-- the `%c` line with `cc` in columns 7–8 and the standard's filler after the time system -/
def percentCFull : Layout := [⟨"file_type", 3, 5⟩, ⟨"cc", 6, 8⟩, ⟨"time_sys", 9, 12⟩]
def percentCTail : Str := " ccc cccc cccc cccc cccc ccccc ccccc ccccc ccccc".toList
def percentCCont : Str := "%c cc cc ccc ccc cccc cccc cccc cccc ccccc ccccc ccccc ccccc".toList
def percentFTail : Str := "  0.00000000000  0.000000000000000".toList
def percentFCont : Str := "%f  0.0000000  0.000000000  0.00000000000  0.000000000000000".toList

def headerLines (h : Header) : List Str :=
  [ '#' :: renderFrom 1 Spec.Sp3.firstLine ((Lft [h.version] :: h.line1.map R)),
    '#' :: '#' :: renderFrom 2 Spec.Sp3.secondLine (h.line2.map R) ] ++
  h.satLines.map hdrOther ++
  [ '%' :: 'c' :: renderFrom 2 percentCFull [Lft h.fileType, Lft ['c', 'c'], Lft h.timeSys] ++ percentCTail,
    percentCCont,
    '%' :: 'f' :: renderFrom 2 Spec.Sp3.percentF [R (fmtDec 7 h.basePos), R (fmtDec 9 h.baseClk)] ++ percentFTail,
    percentFCont ] ++
  h.tailLines.map hdrOther

def eofLine : Str := ['E', 'O', 'F']

def fileLines (F : File) : List Str := headerLines F.hdr ++ (F.epochs.map blockLines).flatten ++ [eofLine]

/-- every line followed by a newline -/
def joinLines : List Str → Str
  | [] => []
  | l :: ls => l ++ '\n' :: joinLines ls

def render (F : File) : Str := joinLines (fileLines F)

/-! ### well-formedness: values fit their columns -/

/-- printable ASCII -/
def okText (s : Str) : Bool := s.all fun c => decide (32 ≤ c.toNat) && decide (c.toNat < 127)

/-- a text that can stand in a field of width `w`: printable, no outer blanks, not too long -/
def okCell (w : Nat) (s : Str) : Bool := okText s && Clean s && decide (s.length ≤ w)

def okCells : List Nat → List Str → Bool
  | [], [] => true
  | w :: ws, s :: ss => okCell w s && okCells ws ss
  | _, _ => false

def okCode (w : Nat) : Option Nat → Bool
  | some k => decide (k < 10 ^ w)
  | Option.none => true

def Acc.wf (a : Acc) : Bool :=
  okCode 2 a.sx && okCode 2 a.sy && okCode 2 a.sz && okCode 3 a.sclk && okCells [1, 1, 1, 1] a.flags

/-- an F14.6 field holds `-999999.999999 … 9999999.999999` -/
def okF14 (n : Int) : Bool := decide (-1000000000000 < n) && decide (n < 10000000000000)

/-- a V / EP / EV line carries printable text after its tag; a blank line consists of blanks only (any number, also none) -/
def okExtra (x : ExtraKind × Str) : Bool :=
  okText x.2 && (match x.1 with | .blank => x.2.all (· == ' ') | _ => true)

def PosRec.wf (r : PosRec) : Bool :=
  okCell 3 r.sat && okF14 r.x && okF14 r.y && okF14 r.z && okF14 r.clk &&
  (match r.acc with | some a => a.wf | Option.none => true) &&
  r.extras.all okExtra

def distinct : List Epoch → Bool
  | [] => true
  | e :: es => !es.contains e && distinct es

def Header.wf (h : Header) : Bool :=
  (h.version == 'c' || h.version == 'd') &&
  okCells [1, 4, 2, 2, 2, 2, 11, 7, 5, 5, 3, 4] h.line1 &&
  okCells [4, 15, 14, 5, 15] h.line2 &&
  h.satLines.all (fun x => okText x.2) && h.tailLines.all (fun x => okText x.2) &&
  okCell 2 h.fileType && h.fileType != ['c', 'c'] && okCell 3 h.timeSys &&
  decide (h.basePos < 10 ^ 9) && decide (h.baseClk < 10 ^ 11)

/-- **well-formed**: every value fits its columns, texts are printable without outer blanks, the
format version is c or d, the file type is not the filler `cc`, the epochs are pairwise different -/
def File.wf (F : File) : Bool :=
  F.hdr.wf && F.epochs.all (fun b => b.recs.all PosRec.wf) && distinct (F.epochs.map (·.epoch))

/-! ### what the parser must deliver -/

def basePosVal (h : Header) : Rat := decVal 7 h.basePos
def baseClkVal (h : Header) : Rat := decVal 9 h.baseClk

def line1Names : List String :=
  ["pv_flag", "year", "month", "day", "hour", "minute", "second", "num_epoch", "data_used", "coord_sys", "orb_type", "agency"]
def line2Names : List String := ["gpsweek", "gpssec", "epoch_interval", "mjd_int", "mjd_frac"]

/-- header fields: the printed texts under the standard's names, the two bases as numbers -/
def expectedMeta (h : Header) : Meta :=
  ("version", MVal.str [h.version]) :: (line1Names.zip h.line1).map (fun kv => (kv.1, MVal.str kv.2)) ++
  (line2Names.zip h.line2).map (fun kv => (kv.1, MVal.str kv.2)) ++
  [("file_type", .str h.fileType), ("time_sys", .str h.timeSys),
   ("base_posvel", .num (basePosVal h)), ("base_clkrate", .num (baseClkVal h))]

/-- one position record: kilometres ×1000, microseconds × 10⁻⁶ × c, `0.000000` / `999999.999999` ↦ NaN,
accuracy exponent `k` ↦ `base^k` mm / ps, blank ↦ NaN; the epoch is the enclosing block's -/
def expectedEntry (F : Factors) (h : Header) (e : Epoch) (r : PosRec) : Entry :=
  let a := r.acc.getD noAcc
  ⟨e, r.sat,
   [r.x, r.y, r.z].map (fun n => if decVal 6 n = 0 then Option.none else some (decVal 6 n * F.km2m)),
   (if decVal 6 r.clk = 999999.999999 then Option.none else some (decVal 6 r.clk * F.us2s * F.c)),
   [a.sx, a.sy, a.sz].map (fun c => c.map fun k => basePosVal h ^ k * F.mm2m),
   a.sclk.map (fun k => baseClkVal h ^ k * (F.ps2s * F.c)),
   r.sat.take 1⟩

/-- one entry per position record, in file order -/
def expectedEntries (F : Factors) (f : File) : List Entry :=
  f.epochs.flatMap fun b => b.recs.map (expectedEntry F f.hdr b.epoch)

end Midgard.Spec.Sp3File
