/-
SP3-c / SP3-d column layouts typed from "The Extended Standard Product 3 Orbit Format (SP3-c)" (S. Hilla,
2010) and "(SP3-d)" (2016): first line, second line, `%c`, `%f`, position and velocity records.
0-based, half-open (a field in 1-based columns a–b is `⟨name, a-1, b⟩`).
-/
import Midgard.Core.FixedCol

namespace Midgard.Spec.Sp3
open Midgard.FixedCol

/-- line 1: `#cP2016  3  1  0  0  0.00000000      96 ORBIT IGb08 HLM  IGS` -/
def firstLine : Layout := [
  ⟨"version", 1, 2⟩, ⟨"pv_flag", 2, 3⟩, ⟨"year", 3, 7⟩, ⟨"month", 8, 10⟩, ⟨"day", 11, 13⟩, ⟨"hour", 14, 16⟩,
  ⟨"minute", 17, 19⟩, ⟨"second", 20, 31⟩, ⟨"num_epoch", 32, 39⟩, ⟨"data_used", 40, 45⟩, ⟨"coord_sys", 46, 51⟩,
  ⟨"orb_type", 52, 55⟩, ⟨"agency", 56, 60⟩]

/-- line 2: `## 1886 172800.00000000   900.00000000 57448 0.0000000000000` -/
def secondLine : Layout := [
  ⟨"gpsweek", 3, 7⟩, ⟨"gpssec", 8, 23⟩, ⟨"epoch_interval", 24, 38⟩, ⟨"mjd_int", 39, 44⟩, ⟨"mjd_frac", 45, 60⟩]

def percentC : Layout := [⟨"file_type", 3, 5⟩, ⟨"time_sys", 9, 12⟩]
def percentF : Layout := [⟨"base_posvel", 3, 13⟩, ⟨"base_clkrate", 14, 26⟩]

/-- position and clock record -/
def recP : Layout := [
  ⟨"sat", 1, 4⟩, ⟨"pos_x", 4, 18⟩, ⟨"pos_y", 18, 32⟩, ⟨"pos_z", 32, 46⟩, ⟨"clk_bias", 46, 60⟩,
  ⟨"sig_pos_x", 61, 63⟩, ⟨"sig_pos_y", 64, 66⟩, ⟨"sig_pos_z", 67, 69⟩, ⟨"sig_clk_bias", 70, 73⟩,
  ⟨"clk_event_flag", 74, 75⟩, ⟨"clk_pred_flag", 75, 76⟩, ⟨"maneuver_flag", 78, 79⟩, ⟨"orb_pred_flag", 79, 80⟩]

/-- velocity and clock-rate record -/
def recV : Layout := [
  ⟨"sat", 1, 4⟩, ⟨"vel_x", 4, 18⟩, ⟨"vel_y", 18, 32⟩, ⟨"vel_z", 32, 46⟩, ⟨"clk_rate", 46, 60⟩,
  ⟨"sig_vel_x", 61, 63⟩, ⟨"sig_vel_y", 64, 66⟩, ⟨"sig_vel_z", 67, 69⟩, ⟨"sig_clk_rate", 70, 73⟩]

end Midgard.Spec.Sp3
