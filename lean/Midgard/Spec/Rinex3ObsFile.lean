/-
RINEX 3 observation **files**: an abstract file (header records in file order — incl. `SYS / # / OBS TYPES`
with its continuation lines —, epochs with their flag and receiver clock offset, one record per satellite
with value / LLI / SSI of every observation type of its system, blank = missing), the independent writer
that renders it with the RINEX 3.04 layouts of `Spec/Rinex.lean`, the explicit well-formedness test, and
what the property says the parser must deliver for it.

A number cell carries the printed text together with the value it denotes; well-formedness ties the two
with `Core/Decimal.parseFloat` / `parseInt?` (so `.300`, `-0.000`, `+0.000` … are all files of the model).

Mathlib-free and executable: the C11 driver renders the harness's file models with `render`, so the files
the real parser is run on are literally `render F`, and answers `wf F`, `expected rate F`.
The file-level theorem (`Props/C11.lean`, `file_roundtrip3`) is
`wf F → readData … (fileLines F) = expected rate F`, with `parse_render3` for the text.
-/
import Midgard.Model.Rinex3Obs
import Midgard.Spec.Rinex

namespace Midgard.Spec.Rinex3ObsFile
open Midgard.Text Midgard.FixedCol Midgard.Decimal Midgard.ChainParser Midgard.RinexObs Midgard.Rinex3Obs
open Midgard.Spec.Rinex (RecSpec headerSpecs renderLabelled renderCells findKind epoch3 obs3 padTo)

/-! ### the abstract file -/

/-- an observation field: the printed text (blank = `[]`) and what it says (`none` = absent) -/
structure Cell where
  text : Str
  val : Option Rat
  deriving Repr, DecidableEq, Inhabited

structure IntCell where
  text : Str
  val : Int
  deriving Repr, DecidableEq, Inhabited

structure NumCell where
  text : Str
  val : Rat
  deriving Repr, DecidableEq, Inhabited

/-- one observation `F14.3,I1,I1`: value, loss-of-lock indicator, signal strength -/
structure Obs where
  value : Cell
  lli : Cell
  ssi : Cell
  deriving Repr, DecidableEq, Inhabited

/-- one observation record: satellite `A1,I2.2` and one observation per type of its system -/
structure SatRec where
  sat : Str
  obs : List Obs
  deriving Repr, DecidableEq, Inhabited

/-- one epoch record `> yyyy mm dd hh mm ss.sssssss  f nnn      ccc` with its satellite records -/
structure Epoch where
  year : IntCell
  month : IntCell
  day : IntCell
  hour : IntCell
  minute : IntCell
  second : NumCell
  flag : IntCell
  /-- the printed number of satellites (not read by the parser) -/
  numSat : Str
  clk : Cell
  /-- the special records of an event epoch (flag 2–5: header records such as `COMMENT`, `MARKER NAME`,
  `ANTENNA: DELTA H/E/N` … that follow the epoch record instead of satellites), as `(kind, cells)` -/
  special : List (String × List Str)
  sats : List SatRec
  deriving Repr, DecidableEq, Inhabited

inductive HdrRec
  /-- a header record of one of the `plainKinds`, its cells as printed -/
  | plain (kind : String) (cells : List Str)
  /-- `MARKER NAME` -/
  | marker (name : Str)
  /-- `SYS / # / OBS TYPES`: system, printed count, the types line by line (first line, continuation lines) -/
  | sysObs (sys : Str) (count : Str) (lines : List (List Str))
  deriving Repr, DecidableEq, Inhabited

/-- how the writer ends its lines: as formatted, trailing blanks removed, or filled to 80 columns -/
inductive Style | asis | stripped | padded80
  deriving Repr, DecidableEq, Inhabited

structure File where
  hdr : List HdrRec
  epochs : List Epoch
  style : Style
  deriving Repr, DecidableEq, Inhabited

/-! ### the writer -/

def spec (kind : String) : RecSpec := (findKind kind).getD ⟨"", "", [], []⟩

/-- a labelled header record -/
def rec (kind : String) (cells : List Str) : Str := renderLabelled (spec kind) cells

/-- the cells of the first and of a continuation line of `SYS / # / OBS TYPES` (`A1,2X,I3,13(1X,A3)` resp.
`6X,13(1X,A3)`: a continuation line is the same record with blank system and count) -/
def sysObsCells (sys count : Str) : List (List Str) → List (List Str)
  | [] => []
  | l :: ls => (sys :: count :: padTo 13 l) :: ls.map fun c => [] :: [] :: padTo 13 c

def hdrCells : HdrRec → List (String × List Str)
  | .plain k cells => [(k, cells)]
  | .marker n => [("MNAME", [n])]
  | .sysObs s c ls => (sysObsCells s c ls).map fun cells => ("SYSOBS", cells)

def hdrLines (r : HdrRec) : List Str := (hdrCells r).map fun kc => rec kc.1 kc.2

def eohLine : Str := rec "EOH" []

def epochCells (e : Epoch) : List Str :=
  [['>'], e.year.text, e.month.text, e.day.text, e.hour.text, e.minute.text, e.second.text, e.flag.text, e.numSat, e.clk.text]

def epochLine (e : Epoch) : Str := renderCells epoch3 (epochCells e)

def obsCells (r : SatRec) : List Str := r.obs.flatMap fun o => [o.value.text, o.lli.text, o.ssi.text]

def satLine (r : SatRec) : Str := renderCells (obs3 r.obs.length) (r.sat :: obsCells r)

def blockLines (e : Epoch) : List Str :=
  epochLine e :: ((e.special.map fun kc => rec kc.1 kc.2) ++ e.sats.map satLine)

def styled : Style → Str → Str
  | .asis, l => l
  | .stripped, l => rstrip l
  | .padded80, l => ljust 80 l

def rawLines (F : File) : List Str := (F.hdr.flatMap hdrLines ++ [eohLine]) ++ F.epochs.flatMap blockLines

def fileLines (F : File) : List Str := (rawLines F).map (styled F.style)

/-- every line followed by a newline -/
def joinLines : List Str → Str
  | [] => []
  | l :: ls => l ++ '\n' :: joinLines ls

def render (F : File) : Str := joinLines (fileLines F)

/-! ### well-formedness -/

/-- printable ASCII -/
def okText (s : Str) : Bool := s.all fun c => decide (32 ≤ c.toNat) && decide (c.toNat < 127)

def numChar (c : Char) : Bool := isDigit c || c == '.' || c == '-' || c == '+'

/-- a number as printed: digits, sign, decimal point -/
def numText (s : Str) : Bool := s.all numChar

/-- the header record kinds whose columns the parser cuts exactly as RINEX 3.04 defines them (for the version
record: the version field F9.2 plus the 11 blank columns after it), with the handler the parser registers
for their label; `GSLOTP` / `GBIASP` are `GLONASS SLOT / FRQ #` (first and continuation lines) and
`GLONASS COD/PHS/BIS` with each slot/frequency resp. type/bias pair written as one cell, `PSHIFTP` is `SYS / PHASE SHIFT` (first
and continuation lines) with the satellite list written as one cell (`G01 G02 G03`), as the parser cuts it -/
def plainKinds : List (String × String) :=
  [("VER3", "_parse_string"), ("PGM", "_parse_string"), ("COM", "_parse_comment"), ("MNUM", "_parse_string"),
   ("MTYPE", "_parse_string"), ("OBSAG", "_parse_string"), ("REC", "_parse_string"), ("ANT", "_parse_string"),
   ("POS", "_parse_approx_position"), ("DHEN", "_parse_float"), ("DXYZ", "_parse_float"), ("SSU", "_parse_string"),
   ("INTERVAL", "_parse_float"), ("TFIRST", "_parse_time_of_first_obs"), ("TLAST", "_parse_time_of_last_obs"),
   ("RCVCLK", "_parse_string"), ("DCBS", "_parse_sys_dcbs_applied"), ("PCVS", "_parse_sys_pcvs_applied"),
   ("LEAP3", "_parse_leap_seconds"), ("NSAT", "_parse_integer"),
   ("GSLOTP", "_parse_glonass_slot"), ("GBIASP", "_parse_glonass_code_phase_bias"), ("PSHIFTP", "_parse_phase_shift")]

def handlerOf (kind : String) : String :=
  if kind = "MNAME" then "_parse_string"
  else if kind = "SYSOBS" then "_parse_sys_obs_types"
  else ((plainKinds.find? (·.1 == kind)).map (·.2)).getD ""

/-- cells that can stand in the columns of `kind`: as many as fields, each printable, without outer
blanks, no wider than its field -/
def okCells (kind : String) (cells : List Str) : Bool :=
  decide (cells.length = (spec kind).layout.length) && Fits (spec kind).layout ((spec kind).aligns.zip cells) &&
  cells.all okText

def okType (t : Str) : Bool := !t.isEmpty && okText t && Clean t && decide (t.length ≤ 3)

def HdrRec.wf : HdrRec → Bool
  | .plain k cells => plainKinds.any (·.1 == k) && okCells k cells
  | .marker n => okCells "MNAME" [n]
  | .sysObs s c ls =>
    decide (s.length = 1) && !isBlank s && !ls.isEmpty &&
    ls.all (fun l => !l.isEmpty && decide (l.length ≤ 13) && l.all okType) &&
    (sysObsCells s c ls).all (okCells "SYSOBS")

def Cell.wf (w : Nat) (c : Cell) : Bool :=
  numText c.text && decide (c.text.length ≤ w) &&
  (if c.text.isEmpty then c.val == none
   else match parseFloat c.text with
     | some q => c.val == (if q = 0 then none else some q)
     | none => false)

def IntCell.wf (w : Nat) (c : IntCell) : Bool :=
  !c.text.isEmpty && allDigits c.text && decide (c.text.length ≤ w) && parseInt? c.text == some c.val

def NumCell.wf (w : Nat) (c : NumCell) : Bool :=
  !c.text.isEmpty && numText c.text && decide (c.text.length ≤ w) && parseFloat c.text == some c.val

def Obs.wf (o : Obs) : Bool := o.value.wf 14 && o.lli.wf 1 && o.ssi.wf 1

/-- `(system, types)` of every `SYS / # / OBS TYPES` record, in file order -/
def sysTypes (hdr : List HdrRec) : List (Str × List Str) :=
  hdr.filterMap fun
    | .sysObs s _ ls => some (s, ls.flatten)
    | _ => none

/-- the observation types of a system (`[]` if it has no record) -/
def typesOf (hdr : List HdrRec) (sy : Str) : List Str := (((sysTypes hdr).find? (·.1 == sy)).map (·.2)).getD []

def SatRec.wf (hdr : List HdrRec) (r : SatRec) : Bool :=
  (match r.sat with
   | [c, d1, d2] => c.isAlpha && isDigit d1 && isDigit d2
   | _ => false) &&
  (sysTypes hdr).any (·.1 == r.sat.take 1) &&
  decide (r.obs.length = (typesOf hdr (r.sat.take 1)).length) && decide (r.obs.length ≤ 40) &&
  r.obs.all Obs.wf

/-- a special record of an event epoch: any header record of the standard (`# OF SATELLITES` included) whose line
does not start with `>` and is no observation line for the label heuristic (first column a letter and column 61 not
a letter — only possible for a label that starts with `#`) -/
def specialOk (kc : String × List Str) : Bool :=
  (findKind kc.1).isSome && okCells kc.1 kc.2 &&
  (((spec kc.1).label.toList.head?.map Char.isAlpha).getD false || !alphaAt (rec kc.1 kc.2) 0) &&
  !startsWith ['>'] (rec kc.1 kc.2)

def Epoch.wf (hdr : List HdrRec) (e : Epoch) : Bool :=
  e.special.all specialOk &&
  e.year.wf 4 && e.month.wf 2 && e.day.wf 2 && e.hour.wf 2 && e.minute.wf 2 && e.second.wf 11 &&
  e.flag.wf 1 && numText e.numSat && decide (e.numSat.length ≤ 3) && e.clk.wf 15 &&
  e.sats.all (SatRec.wf hdr)

def nodup : List Str → Bool
  | [] => true
  | x :: xs => !xs.contains x && nodup xs

/-- `MARKER NAME` of the header (the last one, if repeated) -/
def markerOf (hdr : List HdrRec) : Option Str :=
  (hdr.filterMap fun
    | .marker n => some n
    | _ => none).getLast?

/-- **well-formed**: every header record is of a known kind and its cells fit their columns; no system is
declared twice and no type twice for a system; there is a `MARKER NAME`; every number fits its field and is
the printed form of its value; every satellite belongs to a declared system and has one observation per type
of that system -/
def File.wf (F : File) : Bool :=
  F.hdr.all HdrRec.wf && nodup ((sysTypes F.hdr).map (·.1)) && (sysTypes F.hdr).all (fun st => nodup st.2) &&
  (markerOf F.hdr).isSome && F.epochs.all (Epoch.wf F.hdr)

/-! ### what the parser must deliver -/

def names (kind : String) : List String := (spec kind).layout.map (·.name)

/-- the header handlers are called with the cells under the standard's field names, line by line -/
def hdrEffect (r : HdrRec) (s : State) : Except Err State :=
  (hdrCells r).foldlM (fun s kc => handle (handlerOf kc.1) ((names kc.1).zip kc.2) s) s

/-- the parser state at `END OF HEADER` -/
def headerState (rate : Option Rat) (hdr : List HdrRec) : Except Err State :=
  hdr.foldlM (fun s r => hdrEffect r s) { rate := rate }

def addType (all : List Str) (t : Str) : List Str := if all.contains t then all else all ++ [t]

/-- every observation type of the file once, in the order of first declaration -/
def allTypes (hdr : List HdrRec) : List Str := ((sysTypes hdr).flatMap (·.2)).foldl addType []

def obsSec (e : Epoch) : Rat := (e.hour.val : Rat) * 3600 + (e.minute.val : Rat) * 60 + e.second.val

/-- the epoch survives decimation: no sampling rate, or it lies on the sampling grid -/
def kept (rate : Option Rat) (e : Epoch) : Bool :=
  match rate with
  | some r => !(decide (r ≠ 0) && offGrid (obsSec e) r)
  | none => true

def info (rate : Option Rat) (e : Epoch) : EpochInfo :=
  ⟨isoTime e.year.val e.month.val e.day.val e.hour.val e.minute.val e.second.val,
   (datasetMicros e.year.val e.month.val e.day.val e.hour.val e.minute.val e.second.val).getD 0,
   if kept rate e then some (obsSec e) else none, e.flag.val, e.clk.val⟩

/-- one row per (kept epoch, satellite record), in file order -/
def rows (rate : Option Rat) (F : File) : List (Epoch × SatRec) :=
  (F.epochs.filter (kept rate)).flatMap fun e => e.sats.map fun r => (e, r)

/-- what record `r` says about type `t`: the observation standing at the position of `t` in the type list
of the satellite's system; absent when the system does not have the type -/
def lookup (hdr : List HdrRec) (sel : Obs → Option Rat) (t : Str) (r : SatRec) : Option Rat :=
  (((typesOf hdr (r.sat.take 1)).zip r.obs).find? (·.1 == t)).bind fun x => sel x.2

def column (rate : Option Rat) (F : File) (sel : Obs → Option Rat) (t : Str) : Col :=
  (rows rate F).map fun er => lookup F.hdr sel t er.2

def expectedData (rate : Option Rat) (F : File) (d0 : Data) : Data :=
  let rs := rows rate F
  let station := lower ((markerOf F.hdr).getD [])
  { d0 with
    obs := (allTypes F.hdr).map fun t => (t, column rate F (·.value.val) t),
    lli := (allTypes F.hdr).map fun t => (t, column rate F (·.lli.val) t),
    snr := (allTypes F.hdr).map fun t => (t, column rate F (·.ssi.val) t),
    time := rs.map fun er => (info rate er.1).obsTime,
    timeMicros := rs.map fun er => (info rate er.1).micros,
    epochFlag := rs.map fun er => er.1.flag.val,
    clk := rs.map fun er => er.1.clk.val,
    station := rs.map fun _ => station,
    system := rs.map fun er => er.2.sat.take 1,
    satellite := rs.map fun er => er.2.sat,
    satnum := rs.map fun er => Text.slice 1 3 er.2.sat }

/-- **what the file says**: the header fields as the handlers store them, every observation type of the file
as a column with one entry per (kept epoch, satellite) in file order — value, LLI, SSI of the satellite's
system's types, absent for the others —, epoch string, flag, clock offset and satellite per row -/
def expected (rate : Option Rat) (F : File) : Except Err State :=
  match headerState rate F.hdr with
  | .ok H => .ok { H with data := expectedData rate F H.data, cache := {} }
  | .error e => .error e

end Midgard.Spec.Rinex3ObsFile
