/-
Record layouts of RINEX navigation files, typed from the format documents (0-based, half-open):

* RINEX 3.04, tables A6 (GPS), A8 (Galileo), A12 (QZSS), A14 (BDS), A20 (IRNSS):
    SV / EPOCH / SV CLK     A1,I2.2, 1X,I4, 5(1X,I2.2), 3D19.12
    BROADCAST ORBIT 1..7    4X,4D19.12
* RINEX 2.11, table A4:
    PRN / EPOCH / SV CLK    I2, 1X,I2.2, 1X,I2, 1X,I2, 1X,I2, 1X,I2, F5.1, 3D19.12
    BROADCAST ORBIT 1..7    3X,4D19.12

The slot names are the general names midgard uses; slot k of orbit line n is the same quantity in
both versions.
-/
import Midgard.Core.FixedCol

namespace Midgard.Spec.RinexNav
open Midgard.FixedCol

def orbitNames : List (List String) := [
  ["iode", "crs", "delta_n", "m0"],
  ["cuc", "e", "cus", "sqrt_a"],
  ["toe", "cic", "Omega", "cis"],
  ["i0", "crc", "omega", "Omega_dot"],
  ["idot", "gnss_data_info", "gnss_week", "gnss_l2p_flag"],
  ["sv_accuracy", "sv_health", "gnss_tgd_bgd", "gnss_iodc_groupdelay"],
  ["transmission_time", "gnss_interval"]]

/-- four 19-column reals after `lead` blanks -/
def orbitLine (lead : Nat) (names : List String) : Layout :=
  (List.range names.length).zip names |>.map fun (k, n) => ⟨n, lead + 19 * k, lead + 19 * (k + 1)⟩

def v3Epoch : Layout := [
  ⟨"system", 0, 1⟩, ⟨"sat_num", 1, 3⟩, ⟨"year", 4, 8⟩, ⟨"month", 9, 11⟩, ⟨"day", 12, 14⟩, ⟨"hour", 15, 17⟩,
  ⟨"minute", 18, 20⟩, ⟨"second", 21, 23⟩,
  ⟨"sat_clock_bias", 23, 42⟩, ⟨"sat_clock_drift", 42, 61⟩, ⟨"sat_clock_drift_rate", 61, 80⟩]

def v2Epoch : Layout := [
  ⟨"sat", 0, 2⟩, ⟨"year", 3, 5⟩, ⟨"month", 6, 8⟩, ⟨"day", 9, 11⟩, ⟨"hour", 12, 14⟩, ⟨"minute", 15, 17⟩,
  ⟨"second", 17, 22⟩,
  ⟨"sat_clock_bias", 22, 41⟩, ⟨"sat_clock_drift", 41, 60⟩, ⟨"sat_clock_drift_rate", 60, 79⟩]

/-- (line number, standard layout) for a whole record -/
def v3Record : List (Nat × Layout) :=
  (1, v3Epoch) :: ((List.range orbitNames.length).zip orbitNames).map fun (i, ns) => (i + 2, orbitLine 4 ns)

def v2Record : List (Nat × Layout) :=
  (1, v2Epoch) :: ((List.range orbitNames.length).zip orbitNames).map fun (i, ns) => (i + 2, orbitLine 3 ns)

end Midgard.Spec.RinexNav
