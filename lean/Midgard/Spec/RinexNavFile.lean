/-
RINEX navigation **files**: an abstract file model (header lines; navigation records of the supported
systems with their seven broadcast-orbit lines; GLONASS / SBAS records with any number of orbit lines in
between), the independent writer that renders it in RINEX 3 form (format statements
`A1,I2.2,1X,I4,5(1X,I2.2),3D19.12` / `4X,4D19.12`) and in RINEX 2 form
(`I2,1X,I2.2,4(1X,I2),F5.1,3D19.12` / `3X,4D19.12`), the explicit well-formedness test, and what the
property says the reading stage of the parser must deliver: one value per column per supported record, in
file order; nothing for a skipped record.

Mathlib-free and executable: the C12 driver renders the harness's file models with `render3` / `render2`,
so the files the real parsers are run on are literally the rendered texts.
The file-level theorems are in `Props/C12.lean` (`file_records_v3`, `file_records_v2`).
-/
import Midgard.Model.RinexNav
import Midgard.Spec.RinexNav
import Midgard.Spec.NumText
import Midgard.Spec.Sp3File

namespace Midgard.Spec.RinexNavFile
open Midgard.Text Midgard.Decimal Midgard.FixedCol Midgard.RinexNav Midgard.Spec.NumText
open Midgard.Spec.Sp3File (joinLines okText)

/-! ### the abstract file -/

/-- a 19-column real: blank (= 0) or `[-][d].dddddddddddd X ±ee` with `X` one of D d E e -/
inductive Num19
  | blank
  | sci (x : Char) (lead neg : Bool) (m : Nat) (e : Int)
  deriving Repr, DecidableEq, Inhabited

def Num19.text : Num19 → Str
  | .blank => []
  | .sci x lead neg m e => fmtSci x 12 lead neg m e

def Num19.val : Num19 → Rat
  | .blank => 0
  | .sci _ lead neg m e => sciVal 12 lead neg m e

def Num19.wf : Num19 → Bool
  | .blank => true
  | .sci x lead neg m e => isExpLetter x && decide ((fmtSci x 12 lead neg m e).length ≤ 19)

/-- a broadcast-orbit line with four values; `cut`: trailing blanks removed -/
structure Row4 where
  a : Num19
  b : Num19
  c : Num19
  d : Num19
  cut : Bool
  deriving Repr, DecidableEq, Inhabited

/-- broadcast-orbit line 7: two values, then up to two spare columns -/
structure Row2 where
  a : Num19
  b : Num19
  spare : List Num19
  cut : Bool
  deriving Repr, DecidableEq, Inhabited

/-- a navigation record of a supported system (G E C J I) -/
structure NavRec where
  sys : Char
  prn : Nat
  /-- `true`: satellite number printed `I2.2` (`05`), `false`: blank padded (` 5`) -/
  prnZero : Bool
  year : Nat
  month : Nat
  day : Nat
  hour : Nat
  minute : Nat
  second : Nat
  c1 : Num19
  c2 : Num19
  c3 : Num19
  o1 : Row4
  o2 : Row4
  o3 : Row4
  o4 : Row4
  o5 : Row4
  o6 : Row4
  o7 : Row2
  deriving Repr, DecidableEq, Inhabited

/-- a GLONASS / SBAS record: epoch line and any number of orbit lines -/
structure SkipRec where
  sys : Char
  prn : Nat
  year : Nat
  month : Nat
  day : Nat
  hour : Nat
  minute : Nat
  second : Nat
  c1 : Num19
  c2 : Num19
  c3 : Num19
  rows : List (List Num19 × Bool)
  deriving Repr, DecidableEq, Inhabited

inductive Item
  | nav (r : NavRec)
  | skip (s : SkipRec)
  deriving Repr, DecidableEq, Inhabited

/-- a header line: 60 columns of content, then the label -/
structure HLine where
  content : Str
  label : Str
  deriving Repr, DecidableEq, Inhabited

structure NavFile where
  /-- `RINEX VERSION / TYPE`: columns 1–20, 21–40, the satellite-system letter (column 41), 42–60 -/
  version : Str
  ftype : Str
  satSys : Char
  sysText : Str
  hlines : List HLine
  items : List Item
  deriving Repr, DecidableEq, Inhabited

/-- the records of the supported systems, in file order -/
def supported : List Item → List NavRec
  | [] => []
  | .nav r :: rest => r :: supported rest
  | .skip _ :: rest => supported rest

/-! ### the writer -/

/-- `D19.12`: right-justified in 19 columns -/
def cell19 (n : Num19) : Str := rjust 19 n.text

def cutIf (cut : Bool) (l : Str) : Str := if cut then rstrip l else l

def rowLine (lead : Nat) (cells : List Num19) (cut : Bool) : Str :=
  cutIf cut (blanks lead ++ (cells.map cell19).flatten)

/-- `I2.2` -/
def i22 (n : Nat) : Str := fixedDigits 2 n

/-- RINEX 3 `SV / EPOCH / SV CLK` -/
def epochLine3 (sys : Char) (prnText : Str) (y mo d h mi s : Nat) (c1 c2 c3 : Num19) : Str :=
  sys :: rjust 2 prnText ++ ' ' :: fixedDigits 4 y ++ ' ' :: i22 mo ++ ' ' :: i22 d ++ ' ' :: i22 h ++ ' ' :: i22 mi ++
    ' ' :: i22 s ++ cell19 c1 ++ cell19 c2 ++ cell19 c3

def NavRec.prnText (r : NavRec) : Str := if r.prnZero then i22 r.prn else natDigits r.prn

def Row4.cells (o : Row4) : List Num19 := [o.a, o.b, o.c, o.d]
def Row2.cells (o : Row2) : List Num19 := o.a :: o.b :: o.spare

def navLines3 (r : NavRec) : List Str :=
  [epochLine3 r.sys r.prnText r.year r.month r.day r.hour r.minute r.second r.c1 r.c2 r.c3,
   rowLine 4 r.o1.cells r.o1.cut, rowLine 4 r.o2.cells r.o2.cut, rowLine 4 r.o3.cells r.o3.cut,
   rowLine 4 r.o4.cells r.o4.cut, rowLine 4 r.o5.cells r.o5.cut, rowLine 4 r.o6.cells r.o6.cut,
   rowLine 4 r.o7.cells r.o7.cut]

def skipLines3 (s : SkipRec) : List Str :=
  epochLine3 s.sys (i22 s.prn) s.year s.month s.day s.hour s.minute s.second s.c1 s.c2 s.c3 ::
    s.rows.map fun row => rowLine 4 row.1 row.2

def itemLines3 : Item → List Str
  | .nav r => navLines3 r
  | .skip s => skipLines3 s

def hline (h : HLine) : Str := ljust 60 h.content ++ h.label

def versionLabel : Str := "RINEX VERSION / TYPE".toList
def endLabel : Str := "END OF HEADER".toList

def headerLines (f : NavFile) : List Str :=
  (ljust 20 f.version ++ ljust 20 f.ftype ++ f.satSys :: ljust 19 f.sysText ++ versionLabel) ::
    f.hlines.map hline ++ [blanks 60 ++ endLabel]

def fileLines3 (f : NavFile) : List Str := headerLines f ++ (f.items.map itemLines3).flatten

def render3 (f : NavFile) : Str := joinLines (fileLines3 f)

/-! ### the writer, RINEX 2 (GPS navigation files: every record has eight lines, no system letter) -/

/-- RINEX 2 `PRN / EPOCH / SV CLK`: `I2,1X,I2.2,1X,I2,1X,I2,1X,I2,1X,I2,F5.1,3D19.12` -/
def epochLine2 (prn yy mo d h mi s : Nat) (c1 c2 c3 : Num19) : Str :=
  rjust 2 (natDigits prn) ++ ' ' :: i22 yy ++ ' ' :: rjust 2 (natDigits mo) ++ ' ' :: rjust 2 (natDigits d) ++
    ' ' :: rjust 2 (natDigits h) ++ ' ' :: rjust 2 (natDigits mi) ++ rjust 5 (fmtDec 1 ((s : Int) * 10)) ++
    cell19 c1 ++ cell19 c2 ++ cell19 c3

/-- `3X,4D19.12` orbit lines -/
def navLines2 (r : NavRec) : List Str :=
  [epochLine2 r.prn (r.year % 100) r.month r.day r.hour r.minute r.second r.c1 r.c2 r.c3,
   rowLine 3 r.o1.cells r.o1.cut, rowLine 3 r.o2.cells r.o2.cut, rowLine 3 r.o3.cells r.o3.cut,
   rowLine 3 r.o4.cells r.o4.cut, rowLine 3 r.o5.cells r.o5.cut, rowLine 3 r.o6.cells r.o6.cut,
   rowLine 3 r.o7.cells r.o7.cut]

/-- RINEX 2 header: version (1–20), file type (21–60), label; further lines; END OF HEADER -/
def headerLines2 (f : NavFile) : List Str :=
  (ljust 20 f.version ++ ljust 40 f.ftype ++ versionLabel) :: f.hlines.map hline ++ [blanks 60 ++ endLabel]

def fileLines2 (f : NavFile) : List Str := headerLines2 f ++ ((supported f.items).map navLines2).flatten

def render2 (f : NavFile) : Str := joinLines (fileLines2 f)

/-! ### well-formedness -/

def Row4.wf (o : Row4) : Bool := o.a.wf && o.b.wf && o.c.wf && o.d.wf
def Row2.wf (o : Row2) : Bool := o.a.wf && o.b.wf && o.spare.all Num19.wf && decide (o.spare.length ≤ 2)

def supportedSys : List Char := ['G', 'E', 'C', 'J', 'I']

def NavRec.wf (r : NavRec) : Bool :=
  supportedSys.contains r.sys && decide (r.prn < 100) && decide (r.year < 10000) && decide (r.month < 100) &&
  decide (r.day < 100) && decide (r.hour < 100) && decide (r.minute < 100) && decide (r.second < 100) &&
  r.c1.wf && r.c2.wf && r.c3.wf && r.o1.wf && r.o2.wf && r.o3.wf && r.o4.wf && r.o5.wf && r.o6.wf && r.o7.wf

def SkipRec.wf (s : SkipRec) : Bool :=
  (s.sys == 'R' || s.sys == 'S') && decide (s.prn < 100) && s.c1.wf && s.c2.wf && s.c3.wf &&
  s.rows.all fun row => row.1.all Num19.wf

def Item.wf : Item → Bool
  | .nav r => r.wf
  | .skip s => s.wf

def HLine.wf (h : HLine) : Bool :=
  okText h.content && decide (h.content.length ≤ 60) && okText h.label && Clean h.label && !h.label.isEmpty &&
  h.label.take 13 != endLabel && h.label != versionLabel

def NavFile.wf (f : NavFile) : Bool :=
  okText f.version && decide (f.version.length ≤ 20) && okText f.ftype && decide (f.ftype.length ≤ 20) &&
  okText [f.satSys] && f.satSys != ' ' && okText f.sysText && decide (f.sysText.length ≤ 19) &&
  f.hlines.all HLine.wf && f.items.all Item.wf

/-- a RINEX 2 GPS file: only GPS records, years 1980–2079 (two-digit year with the 80 pivot) -/
def NavFile.wf2 (f : NavFile) : Bool :=
  f.wf && f.items.all fun it => match it with
    | .nav r => r.sys == 'G' && decide (1980 ≤ r.year) && decide (r.year < 2080)
    | .skip _ => false

/-! ### what the reading stage must deliver -/

def orbitVals (r : NavRec) : List Rat :=
  [r.o1.a, r.o1.b, r.o1.c, r.o1.d, r.o2.a, r.o2.b, r.o2.c, r.o2.d, r.o3.a, r.o3.b, r.o3.c, r.o3.d,
   r.o4.a, r.o4.b, r.o4.c, r.o4.d, r.o5.a, r.o5.b, r.o5.c, r.o5.d, r.o6.a, r.o6.b, r.o6.c, r.o6.d,
   r.o7.a, r.o7.b].map Num19.val

def satName (sys : Char) (prn : Nat) : Str := sys :: i22 prn

/-- the 31 (column, value) pairs of one record: system, satellite, three clock values, then the
broadcast-orbit values under the standard's slot names (`Spec.RinexNav.orbitNames`) -/
def kvOf (r : NavRec) : List (String × Cell) :=
  [("system", Cell.str [r.sys]), ("satellite", Cell.str (satName r.sys r.prn)),
   ("sat_clock_bias", Cell.num r.c1.val), ("sat_clock_drift", Cell.num r.c2.val),
   ("sat_clock_drift_rate", Cell.num r.c3.val)] ++
  (Spec.RinexNav.orbitNames.flatten.zip (orbitVals r)).map fun kv => (kv.1, Cell.num kv.2)

def epochOf (r : NavRec) : Epoch :=
  ⟨[r.sys], satName r.sys r.prn, r.year, r.month, r.day, r.hour, r.minute, (r.second : Rat)⟩

/-- one value appended to each named column -/
def pushRow (d : Cols) (kv : List (String × Cell)) : Cols := kv.foldl (fun d x => append d x.1 x.2) d

/-- the columns after reading: every supported record, in file order, appends its values -/
def expectedData (items : List Item) : Cols := (supported items).foldl (fun d r => pushRow d (kvOf r)) []

def expectedState (items : List Item) : St := ⟨expectedData items, (supported items).map epochOf⟩

end Midgard.Spec.RinexNavFile
