/-
The RINEX 3 / 2.x post-processing, record by record (Mathlib-free, executable: the C12 driver evaluates it).

`postSem fileSys k` is what `postV3` makes of column `k` for ONE record (theorem `post_record` in `Props/C12.lean`:
`col (postV3 …) k = (supported records).map (postSem fileSys k)`), `postSem2 T system k` the same for the RINEX 2.x
parsers (`post_record_v2`).  The definitions live in the namespace of the property file that proves things about them.
-/
import Midgard.Spec.RinexNavFile
import Midgard.Generated.RinexNavCols

namespace Midgard.Props.C12
open Midgard.RinexNav Midgard.Generated.RinexNav Midgard.FixedCol Midgard.Text Midgard.Decimal
open Midgard.Spec.RinexNavFile

/-- the names of orbit lines `2 … n+1` of the table -/
def keysOfIdx (T : Tables) (n : Nat) : List String :=
  (List.range n).flatMap fun i => match T.lines.find? (fun (l : LineDef) => l.num = i + 2) with
    | some ld => ld.fields.map (·.name)
    | Option.none => []

/-- all 38 column names one record feeds, as the table gives them -/
def recordNames (T : Tables) : List String := ["system", "satellite"] ++ clockNames ++ keysOfIdx T 7

/-- the value a record contributes to column `k` -/
def valOf (r : NavRec) (k : String) : Option Cell := ((kvOf r).find? (·.1 = k)).map (·.2)

/-- the value record `r` prints for column `k` (`None` for a name no record feeds) -/
def valD (r : NavRec) (k : String) : Cell := (valOf r k).getD .none

/-- `valD` without building the record's whole value list for every cell -/
def valFast (r : NavRec) (k : String) : Cell :=
  match k with
  | "system" => .str [r.sys] | "satellite" => .str (satName r.sys r.prn)
  | "sat_clock_bias" => .num r.c1.val | "sat_clock_drift" => .num r.c2.val | "sat_clock_drift_rate" => .num r.c3.val
  | "iode" => .num r.o1.a.val | "crs" => .num r.o1.b.val | "delta_n" => .num r.o1.c.val | "m0" => .num r.o1.d.val
  | "cuc" => .num r.o2.a.val | "e" => .num r.o2.b.val | "cus" => .num r.o2.c.val | "sqrt_a" => .num r.o2.d.val
  | "toe" => .num r.o3.a.val | "cic" => .num r.o3.b.val | "Omega" => .num r.o3.c.val | "cis" => .num r.o3.d.val
  | "i0" => .num r.o4.a.val | "crc" => .num r.o4.b.val | "omega" => .num r.o4.c.val | "Omega_dot" => .num r.o4.d.val
  | "idot" => .num r.o5.a.val | "gnss_data_info" => .num r.o5.b.val | "gnss_week" => .num r.o5.c.val | "gnss_l2p_flag" => .num r.o5.d.val
  | "sv_accuracy" => .num r.o6.a.val | "sv_health" => .num r.o6.b.val | "gnss_tgd_bgd" => .num r.o6.c.val
  | "gnss_iodc_groupdelay" => .num r.o6.d.val
  | "transmission_time" => .num r.o7.a.val | "gnss_interval" => .num r.o7.b.val
  | _ => .none

theorem valFast_eq (r : NavRec) (k : String) : valD r k = valFast r k := by
  unfold valFast
  split
  all_goals first
    | rfl
    | skip
  rename_i h1 h2 h3 h4 h5 h6 h7 h8 h9 h10 h11 h12 h13 h14 h15 h16 h17 h18 h19 h20 h21 h22 h23 h24 h25 h26 h27 h28 h29 h30 h31
  simp only [valD, valOf, kvOf, orbitVals, Spec.RinexNav.orbitNames, List.flatten, List.zip, List.zipWith, List.map, List.append,
    List.cons_append, List.nil_append, List.find?]
  simp only [decide_eq_false (fun e => h1 (Eq.symm e)), decide_eq_false (fun e => h2 (Eq.symm e)), decide_eq_false (fun e => h3 (Eq.symm e)), decide_eq_false (fun e => h4 (Eq.symm e)), decide_eq_false (fun e => h5 (Eq.symm e)), decide_eq_false (fun e => h6 (Eq.symm e)), decide_eq_false (fun e => h7 (Eq.symm e)), decide_eq_false (fun e => h8 (Eq.symm e)), decide_eq_false (fun e => h9 (Eq.symm e)), decide_eq_false (fun e => h10 (Eq.symm e)), decide_eq_false (fun e => h11 (Eq.symm e)), decide_eq_false (fun e => h12 (Eq.symm e)), decide_eq_false (fun e => h13 (Eq.symm e)), decide_eq_false (fun e => h14 (Eq.symm e)), decide_eq_false (fun e => h15 (Eq.symm e)), decide_eq_false (fun e => h16 (Eq.symm e)), decide_eq_false (fun e => h17 (Eq.symm e)), decide_eq_false (fun e => h18 (Eq.symm e)), decide_eq_false (fun e => h19 (Eq.symm e)), decide_eq_false (fun e => h20 (Eq.symm e)), decide_eq_false (fun e => h21 (Eq.symm e)), decide_eq_false (fun e => h22 (Eq.symm e)), decide_eq_false (fun e => h23 (Eq.symm e)), decide_eq_false (fun e => h24 (Eq.symm e)), decide_eq_false (fun e => h25 (Eq.symm e)), decide_eq_false (fun e => h26 (Eq.symm e)), decide_eq_false (fun e => h27 (Eq.symm e)), decide_eq_false (fun e => h28 (Eq.symm e)), decide_eq_false (fun e => h29 (Eq.symm e)), decide_eq_false (fun e => h30 (Eq.symm e)), decide_eq_false (fun e => h31 (Eq.symm e))]
  rfl

/-- the compiled code evaluates `valFast` wherever the definitions say `valD` -/
@[csimp] theorem valD_eq_valFast : @valD = @valFast := by
  funext r k
  exact valFast_eq r k

/-- the columns after reading: column `k` holds `valD r k` for every supported record `r` -/
def sem0 : String → Option (NavRec → Cell) := fun k => if k ∈ recordNames v3 then some (fun r => valD r k) else Option.none

/-- the per-record meaning of one round of renaming -/
def semStep (sem : String → Option (NavRec → Cell)) (field : String) (per : List (String × String)) :
    String → Option (NavRec → Cell) := fun k =>
  if k = field then Option.none
  else if k ∈ per.map (·.2) then
    match sem "system", sem field with
    | some sf, some vf => some fun r =>
        if ((per.filter (·.2 = k)).map (·.1)).contains (asString (cellStr (sf r))) then vf r else .none
    | _, _ => Option.none
  else sem k

/-- the per-record meaning of `rename3` -/
def semRename (sem : String → Option (NavRec → Cell)) : SysNames → (String → Option (NavRec → Cell))
  | [] => sem
  | (f, p) :: rest => semRename (semStep sem f p) rest

/-- the per-record meaning of the time correction: four columns are replaced, every other one is kept -/
def semTime (T : Tables) (fileSys : String) (sem : String → Option (NavRec → Cell)) (sf : NavRec → Cell)
    (toeQ ttxQ wkQ : NavRec → Rat) : String → Option (NavRec → Cell) :=
  let mixed : Bool := decide (fileSys = "M" ∨ fileSys = "C")
  let offS : NavRec → Int := fun r => if mixed then lookupI T.secOffset (asString (cellStr (sf r))) else 0
  let offW : NavRec → Int := fun r => if mixed then lookupI T.weekOffset (asString (cellStr (sf r))) else 0
  let toc : NavRec → Rat := fun r => epochSeconds mixed (epochOf r) + offS r
  let inst : (NavRec → Rat) → NavRec → Cell := fun q r => Cell.time (towards (toc r) ((wkQ r + offW r) * week + (q r + offS r)))
  fun k =>
    if k = "transmission_time" then some (inst ttxQ)
    else if k = "toe" then some (inst toeQ)
    else if k = "gnss_week" then some fun r => Cell.num (wkQ r + offW r)
    else if k = "time" then some fun r => Cell.time (toc r)
    else sem k

/-- the LNAV test of one record: a GPS / QZSS record must carry an integral IODE -/
def lnavRow (sf iodeF : NavRec → Cell) (r : NavRec) : Bool :=
  !(cellStr (sf r) = ['G'] || cellStr (sf r) = ['J']) || ((cellNum (iodeF r)).map isIntegral).getD true

/-- the per-record meaning of the whole RINEX 3 post-processing for a file of satellite system `fileSys` -/
def postSem (fileSys : String) : String → Option (NavRec → Cell) :=
  semTime v3 fileSys (semRename sem0 v3.sysnames) (fun r => Cell.str [r.sys])
    (fun r => r.o3.a.val) (fun r => r.o7.a.val) (fun r => r.o5.c.val)

/-! ### RINEX 2.x: `_rename_fields_based_on_system` renames in place for the one system of the file -/

/-- the per-record meaning of one round of `rename2` -/
def semStep2 (sem : String → Option (NavRec → Cell)) (system field : String) (per : List (String × String)) :
    String → Option (NavRec → Cell) :=
  match sem field with
  | Option.none => sem
  | some vf =>
    match per.find? (·.1 = system) with
    | Option.none => fun k => if k = field then Option.none else sem k
    | some (_, n) => if n = field then sem else fun k => if k = field then Option.none else if k = n then some vf else sem k

/-- the per-record meaning of `rename2` -/
def semRename2 (sem : String → Option (NavRec → Cell)) (system : String) : SysNames → (String → Option (NavRec → Cell))
  | [] => sem
  | (f, p) :: rest => semRename2 (semStep2 sem system f p) system rest

/-- the per-record meaning of the whole RINEX 2.x post-processing for a file of system `system` -/
def postSem2 (T : Tables) (system : String) : String → Option (NavRec → Cell) :=
  semTime T system (semRename2 sem0 system T.sysnames) (fun r => Cell.str [r.sys])
    (fun r => r.o3.a.val) (fun r => r.o7.a.val) (fun r => r.o5.c.val)

/-! ### executable form (the C12 driver): the rows as columns -/

def dedupS : List String → List String
  | [] => []
  | k :: rest => k :: (dedupS rest).filter (· ≠ k)

/-- every name that can be a column after the post-processing: what a record feeds, the specific names of the rename
table, `time` -/
def outKeys (T : Tables) : List String :=
  dedupS (recordNames T ++ (T.sysnames.flatMap fun fp => fp.2.map (·.2)) ++ ["time"])

/-- the columns whose rows are `sem k` of the records -/
def semCols (keys : List String) (sem : String → Option (NavRec → Cell)) (rs : List NavRec) : Cols :=
  keys.filterMap fun k => (sem k).map fun f => (k, rs.map f)

def admissible : List String := ["C", "E", "G", "I", "J", "M"]

/-- what `post_record` says `postV3` returns, computed record by record -/
def postRows3 (fileSys : String) (rs : List NavRec) : Option Cols :=
  if rs.isEmpty || !admissible.contains fileSys then Option.none
  else if rs.all (lnavRow (fun r => Cell.str [r.sys]) (fun r => Cell.num r.o1.a.val)) then
    some (semCols (outKeys v3) (postSem fileSys) rs)
  else Option.none

/-- what `post_record_v2` says `postV2` returns, computed record by record -/
def postRows2 (T : Tables) (system : String) (rs : List NavRec) : Option Cols :=
  if rs.isEmpty || !admissible.contains system then Option.none
  else if rs.all (lnavRow (fun r => Cell.str [r.sys]) (fun r => Cell.num r.o1.a.val)) then
    some (semCols (outKeys T) (postSem2 T system) rs)
  else Option.none

/-- the compiled instance of `post_record` / `post_record_v2`: same columns, name by name -/
def sameCols (keys : List String) (a b : Option Cols) : Bool :=
  match a, b with
  | some d, some e => keys.all (fun k => col d k == col e k) && d.all (fun kv => keys.contains kv.1)
  | Option.none, Option.none => true
  | _, _ => false

end Midgard.Props.C12
