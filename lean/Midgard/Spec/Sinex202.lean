/-
Column layouts of SINEX blocks typed independently of the code:

* official blocks — from "SINEX – Solution (Software/technique) INdependent EXchange Format,
  Version 2.02 (December 01, 2006)", the field tables of each block (Fortran formats
  `1X,A4,1X,A2,…`).  Columns are 0-based here: a field described as starting in (1-based) column
  `c` has `start = c - 1`.
* `SOLUTION/DISCONTINUITY`, `SOLUTION/EVENT` (IGS/EPN conventions, not in 2.02) and the
  SINEX_TRO blocks — from the example records quoted in the parsers' doc strings and
  https://files.igs.org/pub/data/format/sinex_tropo.txt.
* The header line is `%=SNX` + `1X,F4.2,1X,A3,1X,I2.2:I3.3:I5.5,…`.

`kind` says what a well-formed value of the field looks like (used by the independent writer of
the harness and by `Props/C14.lean` to state which conversion the code must apply).

SITE/ID: the standard's 9-character DOMES field (`A9`, columns 9–17) is delivered by midgard as
two fields `domes` (first 5 characters) and `marker` (last 4): the specification follows that
naming but keeps the standard's columns.
SOURCE/ID: the standard gives the comment field as `A68`, which would end in column 99; records
are limited to 80 columns, so 48 is used.
-/
namespace Midgard.Spec.Sinex

inductive Kind
  | text      -- character field, delivered stripped
  | int       -- integer
  | flt       -- fixed-point or E-format real
  | epoch     -- YY:DDD:SSSSS
  | exp       -- real with E or D exponent
  | dms       -- degrees minutes seconds
  | tup       -- blank-separated one-character flags
  | epoch4    -- YYYY:DDD:SSSSS (SINEX-TMS)
  deriving Repr, DecidableEq, Inhabited

structure SField where
  name : String
  start : Nat
  width : Nat
  kind : Kind
  deriving Repr, DecidableEq, Inhabited

structure SBlock where
  marker : String
  fields : List SField
  deriving Repr, DecidableEq, Inhabited

open Kind

def header : List SField := [
  ⟨"snx_version", 6, 4, flt⟩, ⟨"create_agency", 11, 3, text⟩, ⟨"create_epoch", 15, 12, epoch⟩,
  ⟨"data_agency", 28, 3, text⟩, ⟨"start_epoch", 32, 12, epoch⟩, ⟨"end_epoch", 45, 12, epoch⟩,
  ⟨"obs_code", 58, 1, text⟩, ⟨"num_param", 60, 5, int⟩, ⟨"constraint_code", 66, 1, text⟩,
  ⟨"solution_contents", 68, 11, tup⟩]

def siteSoln (tname : String) : List SField := [
  ⟨"site_code", 1, 4, text⟩, ⟨"point_code", 6, 2, text⟩, ⟨"soln", 9, 4, text⟩, ⟨tname, 14, 1, text⟩]

def official : List SBlock := [
  ⟨"FILE/REFERENCE", [⟨"info_type", 1, 18, text⟩, ⟨"info", 20, 60, text⟩]⟩,
  ⟨"FILE/COMMENT", [⟨"comment", 1, 79, text⟩]⟩,
  ⟨"INPUT/HISTORY", [
    ⟨"file_code", 1, 1, text⟩, ⟨"doc_type", 2, 3, text⟩, ⟨"snx_version", 6, 4, flt⟩,
    ⟨"create_agency", 11, 3, text⟩, ⟨"create_epoch", 15, 12, epoch⟩, ⟨"data_agency", 28, 3, text⟩,
    ⟨"start_epoch", 32, 12, epoch⟩, ⟨"end_epoch", 45, 12, epoch⟩, ⟨"obs_code", 58, 1, text⟩,
    ⟨"num_param", 60, 5, int⟩, ⟨"constraint_code", 66, 1, text⟩, ⟨"solution_contents", 68, 11, text⟩]⟩,
  ⟨"INPUT/FILES", [
    ⟨"create_agency", 1, 3, text⟩, ⟨"create_time", 5, 12, epoch⟩, ⟨"filename", 18, 29, text⟩,
    ⟨"description", 48, 32, text⟩]⟩,
  ⟨"INPUT/ACKNOWLEDGEMENTS", [⟨"agency", 1, 3, text⟩, ⟨"description", 5, 75, text⟩]⟩,
  ⟨"NUTATION/DATA", [⟨"nutation_code", 1, 8, text⟩, ⟨"comments", 10, 70, text⟩]⟩,
  ⟨"PRECESSION/DATA", [⟨"precession_code", 1, 8, text⟩, ⟨"comments", 10, 70, text⟩]⟩,
  ⟨"SOURCE/ID", [
    ⟨"source_code", 1, 4, text⟩, ⟨"iers_designation", 6, 8, text⟩, ⟨"icrf_designation", 15, 16, text⟩,
    ⟨"comments", 32, 48, text⟩]⟩,
  ⟨"SITE/ID", [
    ⟨"site_code", 1, 4, text⟩, ⟨"point_code", 6, 2, text⟩, ⟨"domes", 9, 5, text⟩, ⟨"marker", 14, 4, text⟩,
    ⟨"obs_code", 19, 1, text⟩, ⟨"description", 21, 22, text⟩, ⟨"approx_lon", 44, 11, dms⟩,
    ⟨"approx_lat", 56, 11, dms⟩, ⟨"approx_height", 68, 7, flt⟩]⟩,
  ⟨"SITE/DATA", [
    ⟨"solved_site_code", 1, 4, text⟩, ⟨"solved_point_code", 6, 2, text⟩, ⟨"solved_soln", 9, 4, text⟩,
    ⟨"input_site_code", 14, 4, text⟩, ⟨"input_point_code", 19, 2, text⟩, ⟨"input_soln", 22, 4, text⟩,
    ⟨"input_obs_code", 27, 1, text⟩, ⟨"input_start_time", 29, 12, epoch⟩, ⟨"input_end_time", 42, 12, epoch⟩,
    ⟨"input_agency", 55, 3, text⟩, ⟨"input_create_time", 59, 12, epoch⟩]⟩,
  ⟨"SITE/RECEIVER", siteSoln "obs_code" ++ [
    ⟨"start_time", 16, 12, epoch⟩, ⟨"end_time", 29, 12, epoch⟩, ⟨"receiver_type", 42, 20, text⟩,
    ⟨"serial_number", 63, 5, text⟩, ⟨"firmware", 69, 11, text⟩]⟩,
  ⟨"SITE/ANTENNA", siteSoln "obs_code" ++ [
    ⟨"start_time", 16, 12, epoch⟩, ⟨"end_time", 29, 12, epoch⟩, ⟨"antenna_type", 42, 20, text⟩,
    ⟨"serial_number", 63, 5, text⟩]⟩,
  ⟨"SITE/GPS_PHASE_CENTER", [
    ⟨"antenna_type", 1, 20, text⟩, ⟨"serial_number", 22, 5, text⟩,
    ⟨"L1_up_offset", 28, 6, flt⟩, ⟨"L1_north_offset", 35, 6, flt⟩, ⟨"L1_east_offset", 42, 6, flt⟩,
    ⟨"L2_up_offset", 49, 6, flt⟩, ⟨"L2_north_offset", 56, 6, flt⟩, ⟨"L2_east_offset", 63, 6, flt⟩,
    ⟨"calibration_model", 70, 10, text⟩]⟩,
  ⟨"SITE/ECCENTRICITY", siteSoln "obs_code" ++ [
    ⟨"start_time", 16, 12, epoch⟩, ⟨"end_time", 29, 12, epoch⟩, ⟨"vector_type", 42, 3, text⟩,
    ⟨"vector_1", 46, 8, flt⟩, ⟨"vector_2", 55, 8, flt⟩, ⟨"vector_3", 64, 8, flt⟩]⟩,
  ⟨"SATELLITE/ID", [
    ⟨"site_code", 1, 4, text⟩, ⟨"prn", 6, 2, text⟩, ⟨"cospar_id", 9, 9, text⟩, ⟨"obs_code", 19, 1, text⟩,
    ⟨"start_time", 21, 12, epoch⟩, ⟨"end_time", 34, 12, epoch⟩, ⟨"antenna_type", 47, 20, text⟩]⟩,
  ⟨"SATELLITE/PHASE_CENTER", [
    ⟨"site_code", 1, 4, text⟩, ⟨"frequency_code_1", 6, 1, text⟩,
    ⟨"z_offset_1", 8, 6, flt⟩, ⟨"x_offset_1", 15, 6, flt⟩, ⟨"y_offset_1", 22, 6, flt⟩,
    ⟨"frequency_code_2", 29, 1, text⟩,
    ⟨"z_offset_2", 31, 6, flt⟩, ⟨"x_offset_2", 38, 6, flt⟩, ⟨"y_offset_2", 45, 6, flt⟩,
    ⟨"calibration_model", 52, 10, text⟩, ⟨"pvc_type", 63, 1, text⟩, ⟨"pvc_application", 65, 1, text⟩]⟩,
  ⟨"SOLUTION/EPOCHS", siteSoln "obs_code" ++ [
    ⟨"start_epoch", 16, 12, epoch⟩, ⟨"end_epoch", 29, 12, epoch⟩, ⟨"mean_epoch", 42, 12, epoch⟩]⟩,
  ⟨"BIAS/EPOCHS", siteSoln "bias_type" ++ [
    ⟨"start_epoch", 16, 12, epoch⟩, ⟨"end_epoch", 29, 12, epoch⟩, ⟨"weighted_mean_epoch", 42, 12, epoch⟩]⟩,
  ⟨"SOLUTION/STATISTICS", [⟨"info_type", 1, 30, text⟩, ⟨"info", 32, 22, flt⟩]⟩,
  ⟨"SOLUTION/ESTIMATE", [
    ⟨"param_idx", 1, 5, int⟩, ⟨"param_name", 7, 6, text⟩, ⟨"site_code", 14, 4, text⟩,
    ⟨"point_code", 19, 2, text⟩, ⟨"soln", 22, 4, text⟩, ⟨"ref_epoch", 27, 12, epoch⟩, ⟨"unit", 40, 4, text⟩,
    ⟨"constraint", 45, 1, text⟩, ⟨"estimate", 47, 21, exp⟩, ⟨"estimate_std", 69, 11, exp⟩]⟩,
  ⟨"SOLUTION/APRIORI", [
    ⟨"param_idx", 1, 5, int⟩, ⟨"param_name", 7, 6, text⟩, ⟨"site_code", 14, 4, text⟩,
    ⟨"point_code", 19, 2, text⟩, ⟨"soln", 22, 4, text⟩, ⟨"ref_epoch", 27, 12, epoch⟩, ⟨"unit", 40, 4, text⟩,
    ⟨"constraint", 45, 1, text⟩, ⟨"apriori", 47, 21, exp⟩, ⟨"apriori_std", 69, 11, exp⟩]⟩,
  ⟨"SOLUTION/MATRIX_ESTIMATE", [
    ⟨"row_idx", 1, 5, int⟩, ⟨"column_idx", 7, 5, int⟩, ⟨"value_0", 13, 21, flt⟩, ⟨"value_1", 35, 21, flt⟩,
    ⟨"value_2", 57, 21, flt⟩]⟩,
  ⟨"SOLUTION/MATRIX_APRIORI", [
    ⟨"row_idx", 1, 5, int⟩, ⟨"column_idx", 7, 5, int⟩, ⟨"value_0", 13, 21, flt⟩, ⟨"value_1", 35, 21, flt⟩,
    ⟨"value_2", 57, 21, flt⟩]⟩,
  ⟨"SOLUTION/NORMAL_EQUATION_VECTOR", [
    ⟨"param_idx", 1, 5, int⟩, ⟨"param_type", 7, 6, text⟩, ⟨"site_code", 14, 4, text⟩,
    ⟨"point_code", 19, 2, text⟩, ⟨"soln", 22, 4, text⟩, ⟨"ref_epoch", 27, 12, epoch⟩, ⟨"unit", 40, 4, text⟩,
    ⟨"constraint", 45, 1, text⟩, ⟨"value", 47, 21, flt⟩]⟩,
  ⟨"SOLUTION/NORMAL_EQUATION_MATRIX", [
    ⟨"row_idx", 1, 5, int⟩, ⟨"column_idx", 7, 5, int⟩, ⟨"value_0", 13, 21, flt⟩, ⟨"value_1", 35, 21, flt⟩,
    ⟨"value_2", 57, 21, flt⟩]⟩]

/-- not in SINEX 2.02; columns from the IGS/EPN example records -/
def unofficial : List SBlock := [
  ⟨"SOLUTION/DISCONTINUITY", siteSoln "obs_code" ++ [
    ⟨"start_time", 16, 12, epoch⟩, ⟨"end_time", 29, 12, epoch⟩, ⟨"event_code", 42, 1, text⟩,
    ⟨"description", 44, 36, text⟩]⟩,
  ⟨"SOLUTION/EVENT", siteSoln "obs_code" ++ [
    ⟨"start_time", 16, 12, epoch⟩, ⟨"end_time", 29, 12, epoch⟩, ⟨"event_code", 42, 7, text⟩,
    ⟨"description", 51, 29, text⟩]⟩]

/-- SINEX_TRO (Bernese flavour) -/
def tro : List SBlock := [
  ⟨"FILE/REFERENCE", [⟨"info_type", 1, 18, text⟩, ⟨"info", 20, 60, text⟩]⟩,
  ⟨"TROP/DESCRIPTION", [⟨"keyword", 1, 29, text⟩, ⟨"value", 31, 49, text⟩]⟩,
  ⟨"TROP/STA_COORDINATES", [
    ⟨"site_name", 1, 4, text⟩, ⟨"point_code", 6, 2, text⟩, ⟨"soln", 9, 4, text⟩, ⟨"obs_code", 14, 1, text⟩,
    ⟨"sta_x", 16, 12, flt⟩, ⟨"sta_y", 29, 12, flt⟩, ⟨"sta_z", 42, 12, flt⟩, ⟨"system", 55, 6, text⟩,
    ⟨"remark", 62, 5, text⟩]⟩,
  ⟨"TROP/SOLUTION", [
    ⟨"site_name", 1, 4, text⟩, ⟨"epoch", 6, 12, epoch⟩, ⟨"trop_tot", 19, 6, flt⟩, ⟨"trop_tot_std", 26, 6, flt⟩,
    ⟨"trop_gn_tot", 34, 6, flt⟩, ⟨"trop_gn_tot_std", 41, 6, flt⟩, ⟨"trop_ge_tot", 49, 6, flt⟩,
    ⟨"trop_ge_tot_std", 56, 6, flt⟩]⟩]

end Midgard.Spec.Sinex
