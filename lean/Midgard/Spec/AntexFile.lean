/-
Well-formed ANTEX files as data (the "file model" `F` of the file-level theorem of C15), their
rendering with the ANTEX 1.4 layouts of `Spec/Antex14.lean`, and what they say (`calibrations F`).

A number cell carries the printed text together with the value it denotes; well-formedness ties the
two (`parseFloat text = some val`).
-/
import Midgard.Spec.Antex14
import Midgard.Model.Antex

namespace Midgard.Spec.AntexFile
open Midgard.Text Midgard.FixedCol Midgard.Decimal Midgard.Antex Midgard.ChainParser
open Midgard.Spec.Antex14 (renderLabelled renderRow findKind RecSpec)

structure NumCell where
  text : Str
  val : Rat
  deriving Repr, DecidableEq

structure IntCell where
  text : Str
  val : Int
  deriving Repr, DecidableEq

/-- VALID FROM / VALID UNTIL cells -/
structure DateM where
  year : IntCell
  month : IntCell
  day : IntCell
  hour : IntCell
  minute : IntCell
  second : NumCell
  /-- minutes since 0001-01-01 of the printed date -/
  mins : Int
  deriving Repr, DecidableEq

/-- one frequency section -/
structure FreqM where
  code : Str
  north : NumCell
  east : NumCell
  up : NumCell
  noazi : List NumCell
  /-- azimuth rows: the printed azimuth and the values -/
  rows : List (Str × List NumCell)
  deriving Repr, DecidableEq

/-- one antenna section -/
structure AntM where
  typ : Str
  code : Str
  satCode : Str
  cospar : Str
  dazi : NumCell
  zen1 : NumCell
  zen2 : NumCell
  dzen : NumCell
  numFreq : Str
  validFrom : Option DateM
  validUntil : Option DateM
  freqs : List FreqM
  deriving Repr, DecidableEq

structure FileM where
  version : Str
  satSys : Str
  pcvType : Str
  refAntenna : Str
  refSerial : Str
  comments : List Str
  antennas : List AntM
  deriving Repr, DecidableEq

/-! ### Rendering -/

def spec (kind : String) : RecSpec := (findKind kind).getD ⟨"", "", [], []⟩

def rec (kind : String) (cells : List Str) : Str := renderLabelled (spec kind) cells

def dateCells (d : DateM) : List Str :=
  [d.year.text, d.month.text, d.day.text, d.hour.text, d.minute.text, d.second.text]

def freqLines (f : FreqM) : List Str :=
  [rec "SOF" [f.code], rec "NEU" [f.north.text, f.east.text, f.up.text],
   renderRow "NOAZI".toList (f.noazi.map (·.text))] ++
  f.rows.map (fun r => renderRow r.1 (r.2.map (·.text))) ++
  [rec "EOF" [f.code]]

def antennaLines (a : AntM) : List Str :=
  [rec "SOA" [], rec "TYP" [a.typ, a.code, a.satCode, a.cospar], rec "DAZI" [a.dazi.text],
   rec "ZEN" [a.zen1.text, a.zen2.text, a.dzen.text], rec "NFREQ" [a.numFreq]] ++
  (match a.validFrom with
   | some d => [rec "VFROM" (dateCells d)]
   | none => []) ++
  (match a.validUntil with
   | some d => [rec "VUNTIL" (dateCells d)]
   | none => []) ++
  (a.freqs.map freqLines).flatten ++
  [rec "EOA" []]

def headerLines (F : FileM) : List Str :=
  [rec "VER" [F.version, F.satSys], rec "PCV" [F.pcvType, F.refAntenna, F.refSerial]] ++
  F.comments.map (fun c => rec "COM" [c]) ++ [rec "EOH" []]

def fileLines (F : FileM) : List Str := headerLines F ++ (F.antennas.map antennaLines).flatten

/-! ### What the file says -/

def dateMicros (d : DateM) : Int := validMicros d.mins d.second.val

/-- the parser's cache when END OF FREQUENCY of the `k`-th (0-based) frequency `f` of antenna `a` is
reached — stated from the file model's *values*, no text involved -/
def cacheAt (a : AntM) (k : Nat) (f : FreqM) : Cache :=
  { antennaType := some a.typ, antennaCode := some a.code, satCode := some a.satCode, cosparId := some a.cospar,
    dazi := some a.dazi.val, zen1 := some a.zen1.val, zen2 := some a.zen2.val, dzen := some a.dzen.val,
    numFreq := some a.numFreq, counter := some k,
    validFrom := a.validFrom.map dateMicros, validUntil := a.validUntil.map dateMicros,
    freqCode := some f.code, north := some f.north.val, east := some f.east.val, up := some f.up.val,
    noazi := some (f.noazi.map (·.val)),
    azi := if f.rows = [] then none else some (f.rows.map fun r => r.2.map (·.val)) }

/-- storing the frequencies of one antenna, in order, into `self.data` -/
def storeFreqs (a : AntM) : List FreqM → Nat → State → Except Err State
  | [], _, s => pure s
  | f :: fs, k, s =>
    match saveCorrection { s with cache := cacheAt a k f } with
    | .ok s' => storeFreqs a fs (k + 1) s'
    | .error e => .error e

def storeAntenna (a : AntM) (s : State) : Except Err State :=
  match storeFreqs a a.freqs 0 s with
  | .ok s' => pure (resetCache s')
  | .error e => .error e

def storeAntennas : List AntM → State → Except Err State
  | [], s => pure s
  | a :: as, s =>
    match storeAntenna a s with
    | .ok s' => storeAntennas as s'
    | .error e => .error e

def headerState (F : FileM) : State :=
  { metaText := [("version", F.version), ("sat_sys", F.satSys), ("pcv_type", F.pcvType),
                 ("ref_antenna", F.refAntenna), ("ref_serial_num", F.refSerial)],
    comments := if F.comments = [] then none else some F.comments }

/-- **what the file says**: header fields, then every antenna's frequencies stored from their values -/
def calibrations (F : FileM) : Except Err State := storeAntennas F.antennas (headerState F)

end Midgard.Spec.AntexFile
