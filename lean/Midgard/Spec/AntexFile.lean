/-
Well-formed ANTEX files as data (the "file model" `F` of the file-level theorem of C15), their
rendering with the ANTEX 1.4 layouts of `Spec/Antex14.lean`, and what they say (`calibrations F`).

A number cell carries the printed text together with the value it denotes; well-formedness ties the
two (`parseFloat text = some val`).

What a file may contain:
  * header: version record, PCV TYPE record, comments before and after the PCV TYPE record;
  * antenna sections (receiver or satellite, any number of sections per PRN): TYPE / SERIAL NO, DAZI,
    ZEN1 / ZEN2 / DZEN, # OF FREQUENCIES, optional VALID FROM / VALID UNTIL, frequency sections with a NOAZI
    row and azimuth rows, each optionally followed by its `START OF FREQ RMS … END OF FREQ RMS` section,
    further rms sections after the last frequency section;
  * lines the parser does not read — COMMENT, METH / BY / # / DATE, SINEX CODE, blank lines — before
    any record of an antenna section (`AntM.deco`: the lines put in front of the i-th record) and after
    the last antenna (`FileM.trailer`).
-/
import Midgard.Spec.Antex14
import Midgard.Model.Antex

namespace Midgard.Spec.AntexFile
open Midgard.Text Midgard.FixedCol Midgard.Decimal Midgard.Antex Midgard.ChainParser
open Midgard.Spec.Antex14 (renderLabelled renderRow findKind RecSpec)

structure NumCell where
  text : Str
  val : Rat
  deriving Repr, DecidableEq

structure IntCell where
  text : Str
  val : Int
  deriving Repr, DecidableEq

/-- VALID FROM / VALID UNTIL cells -/
structure DateM where
  year : IntCell
  month : IntCell
  day : IntCell
  hour : IntCell
  minute : IntCell
  second : NumCell
  /-- minutes since 0001-01-01 of the printed date -/
  mins : Int
  deriving Repr, DecidableEq

/-- the body of a frequency section or of an rms section -/
structure SecM where
  north : NumCell
  east : NumCell
  up : NumCell
  noazi : List NumCell
  /-- azimuth rows: the printed azimuth and the values -/
  rows : List (Str × List NumCell)
  deriving Repr, DecidableEq

/-- one frequency section, optionally followed by its rms section -/
structure FreqM where
  code : Str
  body : SecM
  rms : Option SecM
  deriving Repr, DecidableEq

/-- a line the antenna-section parser does not read -/
inductive Inert
  | comment (t : Str)
  | meth (method agency num date : Str)
  | sinex (code : Str)
  | blank
  deriving Repr, DecidableEq

/-- one antenna section -/
structure AntM where
  typ : Str
  code : Str
  satCode : Str
  cospar : Str
  dazi : NumCell
  zen1 : NumCell
  zen2 : NumCell
  dzen : NumCell
  numFreq : Str
  validFrom : Option DateM
  validUntil : Option DateM
  freqs : List FreqM
  /-- rms sections after the last frequency section: frequency code and body -/
  rmsAfter : List (Str × SecM)
  /-- unread lines: `deco[i]` stands in front of the i-th record of the section (record 0 is START OF ANTENNA) -/
  deco : List (List Inert)
  deriving Repr, DecidableEq

structure FileM where
  version : Str
  satSys : Str
  pcvType : Str
  refAntenna : Str
  refSerial : Str
  /-- header comments before / after the PCV TYPE record (any text of at most 60 characters) -/
  comments1 : List Str
  comments2 : List Str
  antennas : List AntM
  /-- unread lines after the last END OF ANTENNA -/
  trailer : List Inert
  deriving Repr, DecidableEq

/-! ### Rendering -/

def spec (kind : String) : RecSpec := (findKind kind).getD ⟨"", "", [], []⟩

def rec (kind : String) (cells : List Str) : Str := renderLabelled (spec kind) cells

def dateCells (d : DateM) : List Str :=
  [d.year.text, d.month.text, d.day.text, d.hour.text, d.minute.text, d.second.text]

def neuCells (b : SecM) : List Str := [b.north.text, b.east.text, b.up.text]

def rowLine (r : Str × List NumCell) : Str := renderRow r.1 (r.2.map (·.text))

def noaziLine (b : SecM) : Str := renderRow "NOAZI".toList (b.noazi.map (·.text))

/-- NORTH / EAST / UP, the NOAZI row, the azimuth rows -/
def bodyLines (b : SecM) : List Str := [rec "NEU" (neuCells b), noaziLine b] ++ b.rows.map rowLine

def rmsLines (code : Str) (b : SecM) : List Str := [rec "SOR" [code]] ++ bodyLines b ++ [rec "EOR" [code]]

def freqLines (f : FreqM) : List Str :=
  [rec "SOF" [f.code]] ++ bodyLines f.body ++ [rec "EOF" [f.code]] ++
  (match f.rms with
   | some b => rmsLines f.code b
   | none => [])

def preambleLines (a : AntM) : List Str :=
  [rec "SOA" [], rec "TYP" [a.typ, a.code, a.satCode, a.cospar], rec "DAZI" [a.dazi.text],
   rec "ZEN" [a.zen1.text, a.zen2.text, a.dzen.text], rec "NFREQ" [a.numFreq]] ++
  (match a.validFrom with
   | some d => [rec "VFROM" (dateCells d)]
   | none => []) ++
  (match a.validUntil with
   | some d => [rec "VUNTIL" (dateCells d)]
   | none => [])

/-- the records of an antenna section (everything but the unread lines) -/
def sigLines (a : AntM) : List Str :=
  preambleLines a ++ (a.freqs.map freqLines).flatten ++ (a.rmsAfter.map fun r => rmsLines r.1 r.2).flatten ++
  [rec "EOA" []]

def inertLine : Inert → Str
  | .comment t => rec "COM" [t]
  | .meth a b c d => rec "METH" [a, b, c, d]
  | .sinex c => rec "SINEX" [c]
  | .blank => []

/-- `deco[i]` in front of the i-th record -/
def weave {α} : List α → List (List α) → List α
  | [], _ => []
  | x :: xs, [] => x :: xs
  | x :: xs, d :: ds => d ++ x :: weave xs ds

def antennaLines (a : AntM) : List Str := weave (sigLines a) (a.deco.map (·.map inertLine))

def headerLines (F : FileM) : List Str :=
  [rec "VER" [F.version, F.satSys]] ++ F.comments1.map (fun c => rec "COM" [c]) ++
  [rec "PCV" [F.pcvType, F.refAntenna, F.refSerial]] ++ F.comments2.map (fun c => rec "COM" [c]) ++ [rec "EOH" []]

def fileLines (F : FileM) : List Str :=
  headerLines F ++ (F.antennas.map antennaLines).flatten ++ F.trailer.map inertLine

def joinLines : List Str → Str
  | [] => []
  | l :: ls => l ++ '\n' :: joinLines ls

/-- the file text: every line closed by a newline -/
def render (F : FileM) : Str := joinLines (fileLines F)

/-! ### Well-formedness (decidable) -/

/-- a text that stays in its line and reads back as itself: no character that ends a line of a text-mode file
(`\n`, `\r`; form feed, vertical tab, FS/GS/RS, NEL, U+2028/9 are *allowed* — they do not end a line), and no
non-ASCII whitespace at the ends of its stripped form (Python's `strip()` would remove it) -/
def okText (s : Str) : Bool :=
  s.all (fun c => !Midgard.TextLines.isLineEnd c) &&
  (match strip s with
   | [] => true
   | c :: r => !Midgard.TextLines.isUniSpace c && !Midgard.TextLines.isUniSpace ((c :: r).getLast?.getD c))

/-- a token of a correction row: ASCII (the row is cut by `str.split()`, which also cuts at non-ASCII whitespace) -/
def isAscii (s : Str) : Bool := s.all fun c => decide (c.toNat < 128)

/-- the cells of a record of kind `k`: printable, no outer blanks, as many as the record has fields, each
no wider than its field -/
def okRec (k : String) (cells : List Str) : Bool :=
  cells.all okText && decide (cells.length = (spec k).layout.length) && Fits (spec k).layout ((spec k).aligns.zip cells)

def okNum (c : NumCell) : Bool := parseFloat c.text == some c.val

def okInt (c : IntCell) : Bool := parseInt? c.text == some c.val

/-- a whitespace-free non-empty text -/
def isToken (t : Str) : Bool := !t.isEmpty && t.all (fun c => !isSpace c)

/-- a printed number as it may appear in a correction row: a token without letters or `#` -/
def isNumText (t : Str) : Bool := isToken t && t.all (fun c => !(isAlpha c || c == '#'))

/-- a value of a correction row: leaves at least one blank in its 8 columns -/
def okRowVal (c : NumCell) : Bool := okText c.text && isAscii c.text && isNumText c.text && decide (c.text.length ≤ 7) && okNum c

def okRow (r : Str × List NumCell) : Bool :=
  okText r.1 && isAscii r.1 && isToken r.1 && decide (r.1.length ≤ 8) && r.1 != "NOAZI".toList && r.2.all okRowVal

def SecM.wf (b : SecM) : Bool :=
  okRec "NEU" (neuCells b) && okNum b.north && okNum b.east && okNum b.up &&
  b.noazi.all okRowVal && b.rows.all okRow

def DateM.wf (d : DateM) : Bool :=
  okRec "VFROM" (dateCells d) && okInt d.year && okInt d.month && okInt d.day && okInt d.hour && okInt d.minute &&
  okNum d.second && datetimeMinutes? d.year.val d.month.val d.day.val d.hour.val d.minute.val == some d.mins

def FreqM.wf (f : FreqM) : Bool :=
  okRec "SOF" [f.code] && f.body.wf && (match f.rms with | some b => b.wf | none => true)

def Inert.wf : Inert → Bool
  | .comment t => okText t && decide (t.length ≤ 60)
  | .meth a b c d => okRec "METH" [a, b, c, d]
  | .sinex c => okRec "SINEX" [c]
  | .blank => true

def AntM.wf (a : AntM) : Bool :=
  okRec "TYP" [a.typ, a.code, a.satCode, a.cospar] &&
  okRec "DAZI" [a.dazi.text] && okNum a.dazi &&
  okRec "ZEN" [a.zen1.text, a.zen2.text, a.dzen.text] && okNum a.zen1 && okNum a.zen2 && okNum a.dzen &&
  okRec "NFREQ" [a.numFreq] &&
  (match a.validFrom with | some d => d.wf | none => true) &&
  (match a.validUntil with | some d => d.wf | none => true) &&
  a.freqs.all (·.wf) && a.rmsAfter.all (fun r => okRec "SOR" [r.1] && r.2.wf) &&
  a.deco.all (·.all (·.wf))

/-- **well-formed**: every cell is free of line ends (`\n`, `\r`), has no outer blanks and fits its columns (comments: any
line-end-free text of at most 60 characters); every number cell denotes its value; printed dates exist;
correction-row values leave one blank in their 8 columns.  Nothing is required about uniqueness of
antennas, frequencies or validity periods: `calibrations` says which files are refused. -/
def FileM.wf (F : FileM) : Bool :=
  okRec "VER" [F.version, F.satSys] && okRec "PCV" [F.pcvType, F.refAntenna, F.refSerial] &&
  (F.comments1 ++ F.comments2).all (fun t => okText t && decide (t.length ≤ 60)) &&
  F.antennas.all (·.wf) && F.trailer.all (·.wf)

/-! ### What the file says -/

def dateMicros (d : DateM) : Int := validMicros d.mins d.second.val

/-- the parser's cache when END OF FREQUENCY of the `k`-th (0-based) frequency `f` of antenna `a` is
reached — stated from the file model's *values*, no text involved: the antenna's own records, the number
`k` of frequencies already stored, and the offsets / NOAZI row / azimuth rows of *this* frequency section
(nothing of an earlier frequency section or of an rms section) -/
def cacheAt (a : AntM) (k : Nat) (f : FreqM) : Cache :=
  { antennaType := some a.typ, antennaCode := some a.code, satCode := some a.satCode, cosparId := some a.cospar,
    dazi := some a.dazi.val, zen1 := some a.zen1.val, zen2 := some a.zen2.val, dzen := some a.dzen.val,
    numFreq := some a.numFreq, counter := some k,
    validFrom := a.validFrom.map dateMicros, validUntil := a.validUntil.map dateMicros,
    freqCode := some f.code, north := some f.body.north.val, east := some f.body.east.val, up := some f.body.up.val,
    noazi := some (f.body.noazi.map (·.val)),
    azi := if f.body.rows = [] then none else some (f.body.rows.map fun r => r.2.map (·.val)) }

/-- storing the frequencies of one antenna, in order, into `self.data` -/
def storeFreqs (a : AntM) : List FreqM → Nat → State → Except Err State
  | [], _, s => pure s
  | f :: fs, k, s =>
    match saveCorrection { s with cache := cacheAt a k f } with
    | .ok s' => storeFreqs a fs (k + 1) s'
    | .error e => .error e

def storeAntenna (a : AntM) (s : State) : Except Err State :=
  match storeFreqs a a.freqs 0 s with
  | .ok s' => pure (resetCache s')
  | .error e => .error e

def storeAntennas : List AntM → State → Except Err State
  | [], s => pure s
  | a :: as, s =>
    match storeAntenna a s with
    | .ok s' => storeAntennas as s'
    | .error e => .error e

def allComments (F : FileM) : List Str := (F.comments1 ++ F.comments2).map strip

def headerState (F : FileM) : State :=
  { metaText := [("version", F.version), ("sat_sys", F.satSys), ("pcv_type", F.pcvType),
                 ("ref_antenna", F.refAntenna), ("ref_serial_num", F.refSerial)],
    comments := if allComments F = [] then none else some (allComments F) }

/-- **what the file says**: header fields and comments, then every antenna's frequencies stored from
their values (rms sections and unread lines contribute nothing) -/
def calibrations (F : FileM) : Except Err State := storeAntennas F.antennas (headerState F)

end Midgard.Spec.AntexFile
