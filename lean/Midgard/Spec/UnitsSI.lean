/-
C20 — unit definitions typed from the standards, independently of pint and of midgard/math/unit.txt:
SI brochure (9th ed.) prefixes and table 8 (minute, hour, day, degree, arcminute, arcsecond);
the international yard and pound agreement of 1959 (inch = 25.4 mm, foot = 0.3048 m, mile = 1609.344 m);
the international nautical mile (1852 m); the Julian year of 365.25 d (IAU); the ångström (1e-10 m).
Angles: factor to the radian is `q·π`.
-/
import Midgard.Generated.C20Tables

namespace Midgard.Spec.UnitsSI
open Midgard.Generated.C20

def si : List UnitRow := [
  ⟨"meter", 0, 1, false⟩, ⟨"m", 0, 1, false⟩,
  ⟨"kilometer", 0, 1000, false⟩, ⟨"km", 0, 1000, false⟩,
  ⟨"decimeter", 0, 1 / 10, false⟩, ⟨"centimeter", 0, 1 / 100, false⟩,
  ⟨"millimeter", 0, 1 / 1000, false⟩, ⟨"mm", 0, 1 / 1000, false⟩,
  ⟨"micrometer", 0, 1 / 1000000, false⟩,
  ⟨"Megameter", 0, 1000000, false⟩, ⟨"Mm", 0, 1000000, false⟩,
  ⟨"inch", 0, 254 / 10000, false⟩, ⟨"foot", 0, 3048 / 10000, false⟩, ⟨"mile", 0, 1609344 / 1000, false⟩,
  ⟨"nautical_mile", 0, 1852, false⟩, ⟨"angstrom", 0, 1 / 10000000000, false⟩,
  ⟨"second", 1, 1, false⟩, ⟨"s", 1, 1, false⟩, ⟨"sec", 1, 1, false⟩,
  ⟨"millisecond", 1, 1 / 1000, false⟩, ⟨"microsecond", 1, 1 / 1000000, false⟩,
  ⟨"nanosecond", 1, 1 / 1000000000, false⟩, ⟨"picosecond", 1, 1 / 1000000000000, false⟩,
  ⟨"minute", 1, 60, false⟩, ⟨"hour", 1, 3600, false⟩, ⟨"day", 1, 86400, false⟩, ⟨"week", 1, 604800, false⟩,
  ⟨"julian_year", 1, 31557600, false⟩, ⟨"year", 1, 31557600, false⟩, ⟨"century", 1, 3155760000, false⟩,
  ⟨"radian", 2, 1, false⟩, ⟨"rad", 2, 1, false⟩,
  ⟨"degree", 2, 1 / 180, true⟩, ⟨"deg", 2, 1 / 180, true⟩,
  ⟨"arcminute", 2, 1 / 10800, true⟩, ⟨"arcsecond", 2, 1 / 648000, true⟩, ⟨"arcsec", 2, 1 / 648000, true⟩,
  ⟨"milliarcsecond", 2, 1 / 648000000, true⟩, ⟨"milliarcsec", 2, 1 / 648000000, true⟩, ⟨"mas", 2, 1 / 648000000, true⟩,
  ⟨"turn", 2, 2, true⟩
]

end Midgard.Spec.UnitsSI
