/-
RINEX 2 observation **files**: an abstract file (header records in file order — `# / TYPES OF OBSERV` with its
continuation records included —, epochs with flag and receiver clock offset, one record per satellite with value /
LLI / SSI per observation type), the independent writer that renders it with the RINEX 2.11 layouts of
`Spec/Rinex.lean` (12 satellites per epoch line with continuation lines, 5 observations per line, all-blank lines
for five missing observations), the explicit well-formedness test, and what the property says the parser must
deliver (`expected`).  Number cells carry the printed text together with the value (as in `Spec/Rinex3ObsFile.lean`).

Mathlib-free and executable: the C11 driver renders the harness's file models with `render`, answers `wf F`,
`expected rate F` and evaluates the instance `readData … (fileLines F) = expected rate F` on every generated file.
The file-level statement is proved for every well-formed file (`file_roundtrip2` in `Props/C11.lean`).
-/
import Midgard.Model.Rinex2Obs
import Midgard.Spec.Rinex3ObsFile

namespace Midgard.Spec.Rinex2ObsFile
open Midgard.Text Midgard.FixedCol Midgard.Decimal Midgard.ChainParser Midgard.RinexObs Midgard.Rinex2Obs
open Midgard.Spec.Rinex (RecSpec renderLabelled findKind renderRecord)
open Midgard.Spec.Rinex3ObsFile (Cell IntCell NumCell Obs Style styled joinLines okText numText spec rec nodup)

/-- one satellite of an epoch: the identifier as printed in the epoch record (`G07`, ` 07`, `G 7`) and one
observation per type of the file -/
structure SatRec where
  sat : Str
  obs : List Obs
  deriving Repr, DecidableEq, Inhabited

/-- ` yy mm dd hh mm ss.sssssss  f nnn<sat list>  clk` with its satellites -/
structure Epoch where
  yy : IntCell
  month : IntCell
  day : IntCell
  hour : IntCell
  minute : IntCell
  second : NumCell
  flag : IntCell
  numSat : Str
  clk : Cell
  sats : List SatRec
  deriving Repr, DecidableEq, Inhabited

structure File where
  /-- header records `(kind, cells)` of `Spec.Rinex.headerSpecs` in file order, without `END OF HEADER` -/
  hdr : List (String × List Str)
  epochs : List Epoch
  style : Style
  deriving Repr, DecidableEq, Inhabited

/-! ### the writer -/

def chunks {α} (k : Nat) : Nat → List α → List (List α)
  | 0, _ => []
  | fuel + 1, l => if l.isEmpty then [] else l.take k :: chunks k fuel (l.drop k)

def epochLines (e : Epoch) : List Str :=
  let ids := e.sats.map (·.sat)
  let head := [e.yy.text, e.month.text, e.day.text, e.hour.text, e.minute.text, e.second.text, e.flag.text, e.numSat, e.clk.text]
  ((renderRecord "EPOCH2" (head ++ ids.take 12)).getD []) ::
    (chunks 12 ids.length (ids.drop 12)).map fun c => (renderRecord "EPOCH2C" c).getD []

def satLines (r : SatRec) : List Str :=
  (chunks 5 r.obs.length r.obs).map fun c =>
    (renderRecord "OBS2" (c.flatMap fun o => [o.value.text, o.lli.text, o.ssi.text])).getD []

def blockLines (e : Epoch) : List Str := epochLines e ++ e.sats.flatMap satLines

def rawLines (F : File) : List Str :=
  (F.hdr.map fun kc => rec kc.1 kc.2) ++ [rec "EOH" []] ++ F.epochs.flatMap blockLines

def fileLines (F : File) : List Str := (rawLines F).map (styled F.style)

def render (F : File) : Str := joinLines (fileLines F)

/-! ### well-formedness -/

def kinds : List (String × String) :=
  [("VER2", "_parse_rinex_version_type"), ("PGM", "_parse_string"), ("COM", "_parse_comment"), ("MNAME", "_parse_string"),
   ("MNUM", "_parse_string"), ("OBSAG", "_parse_string"), ("REC", "_parse_string"), ("ANT", "_parse_string"),
   ("POS", "_parse_approx_position"), ("DHEN", "_parse_float"), ("WAVE", "_parse_wavelength_fact"),
   ("TYPES2", "_parse_types_of_observ"), ("TYPES2C", "_parse_types_of_observ"), ("INTERVAL", "_parse_float"),
   ("TFIRST", "_parse_time_of_first_obs"), ("TLAST", "_parse_time_of_last_obs"), ("RCVCLK", "_parse_string"),
   ("LEAP2", "_parse_leap_seconds"), ("NSAT", "_parse_integer")]

def handlerOf (kind : String) : String := ((kinds.find? (·.1 == kind)).map (·.2)).getD ""

def okCells (kind : String) (cells : List Str) : Bool :=
  decide (cells.length = (spec kind).layout.length) && Fits (spec kind).layout ((spec kind).aligns.zip cells) &&
  cells.all okText

/-- the observation types: the non-empty type cells of the `# / TYPES OF OBSERV` records, in order -/
def types (hdr : List (String × List Str)) : List Str :=
  hdr.flatMap fun kc =>
    if kc.1 = "TYPES2" then (kc.2.drop 1).filter (fun t => !t.isEmpty)
    else if kc.1 = "TYPES2C" then kc.2.filter (fun t => !t.isEmpty)
    else []

/-- the satellite as the parser names it: blank system = GPS, blank tens digit = 0 -/
def normSat (s : Str) : Str :=
  match s with
  | [a, b, c] => [if a = ' ' then 'G' else a, if b = ' ' then '0' else b, c]
  | _ => s

/-- an F14.3 value: three decimals, i.e. the decimal point is the fourth character from the right -/
def dot3 (v : Str) : Bool := decide (4 ≤ v.length) && v[v.length - 4]? == some '.'

/-- a printed observation: a value with three decimals, or nothing at all (no flags without a value) -/
def obsShape (o : Obs) : Bool :=
  if o.value.text.isEmpty then o.lli.text.isEmpty && o.ssi.text.isEmpty else dot3 o.value.text

def SatRec.wf (n : Nat) (r : SatRec) : Bool :=
  (match r.sat with
   | [c, d1, d2] => (c.isAlpha || c == ' ') && (isDigit d1 || d1 == ' ') && isDigit d2
   | _ => false) &&
  decide (r.obs.length = n) && r.obs.all Midgard.Spec.Rinex3ObsFile.Obs.wf && r.obs.all obsShape

def Epoch.wf (n : Nat) (e : Epoch) : Bool :=
  e.yy.wf 2 && e.month.wf 2 && e.day.wf 2 && e.hour.wf 2 && e.minute.wf 2 && e.second.wf 11 &&
  e.flag.wf 1 && !e.numSat.isEmpty && allDigits e.numSat && decide (e.numSat.length ≤ 3) && e.clk.wf 12 &&
  e.sats.all (SatRec.wf n)

/-- the satellites of the file all carry a system letter, or none does (a GPS-only file with blank identifiers) -/
def sysStyleOk (F : File) : Bool :=
  F.epochs.all (fun e => e.sats.all fun r => (r.sat.head?.map Char.isAlpha).getD false) ||
  F.epochs.all (fun e => e.sats.all fun r => r.sat.head? == some ' ')

/-- the type cells of the `# / TYPES OF OBSERV` records are two characters wide (or empty) -/
def typeCellsOk (kc : String × List Str) : Bool :=
  if kc.1 = "TYPES2" then (kc.2.drop 1).all (fun t => t.length == 0 || t.length == 2)
  else if kc.1 = "TYPES2C" then kc.2.all (fun t => t.length == 0 || t.length == 2)
  else true

/-- the count cell of a first `# / TYPES OF OBSERV` record: the number of types of the file, as a digit string -/
def countOk (n : Nat) (cells : List Str) : Bool :=
  match cells with
  | c :: _ => !c.isEmpty && allDigits c && digitsVal c == n
  | [] => false

/-- the `# / TYPES OF OBSERV` records of a header: exactly one first record (the one with the count, `TYPES2`), which carries
the number `n` of types, and no continuation record (`TYPES2C`) before it; other records may stand anywhere in between.
`seen` = the first record has been passed. -/
def typesRecsOk (n : Nat) : Bool → List (String × List Str) → Bool
  | seen, [] => seen
  | seen, kc :: rest =>
    if kc.1 = "TYPES2" then !seen && countOk n kc.2 && typesRecsOk n true rest
    else if kc.1 = "TYPES2C" then seen && typesRecsOk n seen rest
    else typesRecsOk n seen rest

/-- a `TIME OF FIRST OBS` record carries a year of at least 10 as a digit string: the parser reads the century of every epoch
off the first two characters of the time string `"{year}-{month:02d}-…"` it stores -/
def tfirstOk (kc : String × List Str) : Bool :=
  if kc.1 = "TFIRST" then
    match kc.2 with
    | y :: _ => !y.isEmpty && allDigits y && decide (10 ≤ digitsVal y)
    | [] => false
  else true

def File.wf (F : File) : Bool :=
  sysStyleOk F && F.hdr.all typeCellsOk &&
  F.hdr.all (fun kc => kinds.any (·.1 == kc.1) && okCells kc.1 kc.2) &&
  !(types F.hdr).isEmpty && nodup (types F.hdr) &&
  F.hdr.any (·.1 == "MNAME") && F.hdr.any (·.1 == "TFIRST") &&
  F.epochs.all (Epoch.wf (types F.hdr).length) &&
  typesRecsOk (types F.hdr).length false F.hdr && F.hdr.all tfirstOk

/-! ### what the parser must deliver -/

def names (kind : String) : List String := (spec kind).layout.map (·.name)

/-- the field dictionary of a header record: the cells under the standard's field names; a continuation record of
`# / TYPES OF OBSERV` is cut with the same table as the first one, so its (blank) count field is there too -/
def valuesOf (kind : String) (cells : List Str) : Values :=
  if kind = "TYPES2C" then ("num_obstypes", []) :: (names kind).zip cells else (names kind).zip cells

/-- the parser state at `END OF HEADER`: the handlers called with the cells under the standard's field names -/
def headerState (rate : Option Rat) (hdr : List (String × List Str)) : Except Err State :=
  hdr.foldlM (fun s kc => handle (handlerOf kc.1) (valuesOf kc.1 kc.2) s) { rate := rate }

def obsSec (e : Epoch) : Rat := (e.hour.val : Rat) * 3600 + (e.minute.val : Rat) * 60 + e.second.val

def kept (rate : Option Rat) (e : Epoch) : Bool :=
  match rate with
  | some r => !(decide (r ≠ 0) && offGrid (obsSec e) r)
  | none => true

/-- the four-digit year: the century of `TIME OF FIRST OBS` in front of the two printed digits -/
def fullYear (H : State) (e : Epoch) : Except Err Int :=
  match H.metaD.get [key "time_first_obs"] with
  | some (.text t) => pyInt (t.take 2 ++ zfill 2 e.yy.text)
  | _ => throw .other

structure Row where
  time : Str
  micros : Int
  flag : Int
  clk : Option Rat
  sat : Str
  num : Str
  obs : List Obs

/-- the row of one satellite record: satellite as the parser names it, its number `int(sat[1:])` -/
def satRow (t : Str) (us : Int) (flag : Int) (clk : Option Rat) (r : SatRec) : Except Err Row := do
  let id := normSat r.sat
  let num ← pyInt (id.drop 1)
  pure ⟨t, us, flag, clk, id, fmtInt num, r.obs⟩

/-- the rows of one epoch: one per satellite, in order -/
def epochRows (H : State) (e : Epoch) : Except Err (List Row) := do
  let y ← fullYear H e
  e.sats.mapM (satRow (isoTime y e.month.val e.day.val e.hour.val e.minute.val e.second.val)
    ((datasetMicros y e.month.val e.day.val e.hour.val e.minute.val e.second.val).getD 0) e.flag.val e.clk.val)

def rowsOf (H : State) (rate : Option Rat) (F : File) : Except Err (List Row) :=
  (F.epochs.filter (kept rate)).foldlM (fun acc e => do
    let rs ← epochRows H e
    pure (acc ++ rs)) []

def column (ts : List Str) (rows : List Row) (sel : Obs → Option Rat) (t : Str) : Col :=
  rows.map fun r => ((ts.zip r.obs).find? (·.1 == t)).bind fun x => sel x.2

/-- **what the file says**: one column per observation type with one entry per (kept epoch, satellite) in file
order, epoch string (four-digit year), flag, clock offset, station, system, satellite and number per row -/
def expected (rate : Option Rat) (F : File) : Except Err State :=
  match headerState rate F.hdr with
  | .error e => .error e
  | .ok H =>
    match rowsOf H rate F with
    | .error e => .error e
    | .ok rows =>
      let ts := types F.hdr
      let station := match H.metaD.get [key "marker_name"] with
        | some (.text t) => lower t
        | _ => []
      .ok { H with
        cache := {},
        data := { H.data with
          obs := ts.map fun t => (t, column ts rows (·.value.val) t),
          lli := ts.map fun t => (t, column ts rows (·.lli.val) t),
          snr := ts.map fun t => (t, column ts rows (·.ssi.val) t),
          time := rows.map (·.time), timeMicros := rows.map (·.micros), epochFlag := rows.map (·.flag),
          clk := rows.map (·.clk), station := rows.map fun _ => station, system := rows.map fun r => r.sat.take 1,
          satellite := rows.map (·.sat), satnum := rows.map (·.num) } }

/-- what the data section relies on at `END OF HEADER`, as a test on `headerState` (the handlers run on the header's
*values*; it holds for every well-formed file: `hdr_ok2` in `Props/C11.lean`, and the driver still evaluates it): sampling rate, `num_obstypes` and the type list, marker name, `TIME OF FIRST OBS` with a century that makes every
epoch's year readable, empty columns -/
def hdrOk2 (rate : Option Rat) (F : File) : Bool :=
  match headerState rate F.hdr with
  | .error _ => true
  | .ok H =>
    let ts := types F.hdr
    H.rate == rate &&
    H.metaD.get [key "num_obstypes"] == some (.int (ts.length : Int)) &&
    H.metaD.get [key "obstypes"] == some (.list ts) &&
    (match H.metaD.get [key "marker_name"] with
     | some (.text _) => true
     | _ => false) &&
    (match H.metaD.get [key "time_first_obs"] with
     | some (.text t) => F.epochs.all fun e =>
        match pyInt (t.take 2 ++ zfill 2 e.yy.text) with
        | .ok _ => true
        | .error _ => false
     | _ => false) &&
    H.data == { H.data with
      obs := ts.map fun t => (t, []), lli := ts.map fun t => (t, []), snr := ts.map fun t => (t, []),
      time := [], timeMicros := [], epochFlag := [], clk := [], station := [], system := [], satellite := [], satnum := [] }

end Midgard.Spec.Rinex2ObsFile
