/-
Python `str` operations on `List Char` (Mathlib-free, executable; lemmas in `Proofs/Text.lean`).

Text is `List Char` throughout the models (easy structural proofs); drivers convert with
`String.toList` / `String.ofList` (`Text.ofString`, `Text.asString`).

Published API (do not change signatures; C11/C15 import this):

  isSpace c                 Python `str.isspace` on ASCII (blank, \t \n \v \f \r, \x1c–\x1f)
  lstrip / rstrip / strip   `s.lstrip()`, `s.rstrip()`, `s.strip()` (whitespace only)
  rstripNl                  `s.rstrip("\n")`-like helper: removes trailing \n and \r
  ljust w s / rjust w s     `s.ljust(w)`, `s.rjust(w)` (blank fill, never truncates)
  zfill w s                 `s.zfill(w)` (sign aware)
  slice a b s               `s[a:b]`, `0 ≤ a`, `0 ≤ b` (clips on short `s`; empty when `b ≤ a`)
  sliceFrom a s             `s[a:]`
  sliceI a b s              `s[a:b]` with Python negative-index normalisation (`Int` bounds)
  split s                   `s.split()` (runs of whitespace, no empty pieces)
  splitOn c s               `s.split(c)` for a one-character separator
  replaceChar a b s         `s.replace(a, b)` for single characters
  startsWith p s            `s.startswith(p)`
  isBlank s                 every character is whitespace (true for `""`; Python's `isspace()` is
                            `isBlank s && s ≠ []`)
  Clean s                   `s` has no leading/trailing whitespace (`strip s = s`), as a Bool test
  upper / lower             ASCII `s.upper()`, `s.lower()`
  isDigit c                 '0'..'9'
-/
namespace Midgard.Text

abbrev Str := List Char

def ofString (s : String) : Str := s.toList
def asString (s : Str) : String := String.ofList s

/-- Python `str.isspace` restricted to ASCII. -/
def isSpace (c : Char) : Bool :=
  c = ' ' || c = '\t' || c = '\n' || c = '\r' || c.toNat = 11 || c.toNat = 12 ||
  (28 ≤ c.toNat && c.toNat ≤ 31)

def isDigit (c : Char) : Bool := '0' ≤ c && c ≤ '9'

def lstrip (s : Str) : Str := s.dropWhile isSpace

def rstrip (s : Str) : Str := (s.reverse.dropWhile isSpace).reverse

def strip (s : Str) : Str := rstrip (lstrip s)

/-- trailing line terminators removed (`line.rstrip("\r\n")`) -/
def rstripNl (s : Str) : Str := (s.reverse.dropWhile (fun c => c = '\n' || c = '\r')).reverse

def blanks (n : Nat) : Str := List.replicate n ' '

def ljust (w : Nat) (s : Str) : Str := s ++ blanks (w - s.length)

def rjust (w : Nat) (s : Str) : Str := blanks (w - s.length) ++ s

/-- `s.zfill(w)`: zeros are inserted after a leading sign. -/
def zfill (w : Nat) (s : Str) : Str :=
  match s with
  | c :: rest =>
    if c = '+' || c = '-' then c :: (List.replicate (w - s.length) '0' ++ rest)
    else List.replicate (w - s.length) '0' ++ s
  | [] => List.replicate w '0'

/-- `s[a:b]` for non-negative bounds; clipping on short strings is what `take`/`drop` do. -/
def slice (a b : Nat) (s : Str) : Str := (s.take b).drop a

/-- `s[a:]` -/
def sliceFrom (a : Nat) (s : Str) : Str := s.drop a

/-- Python index normalisation for slices: negative counts from the end, then clip to `[0, n]`. -/
def normIdx (n : Nat) (i : Int) : Nat :=
  if i < 0 then (i + n).toNat else min i.toNat n

/-- `s[a:b]` with possibly negative bounds. -/
def sliceI (a b : Int) (s : Str) : Str := slice (normIdx s.length a) (normIdx s.length b) s

def isBlank (s : Str) : Bool := s.all isSpace

/-- no leading and no trailing whitespace -/
def Clean (s : Str) : Bool :=
  match s with
  | [] => true
  | c :: _ => !isSpace c && !isSpace (s.getLast?.getD ' ')

/-- auxiliary of `split`: `cur` is the (reversed) piece being collected -/
def splitAux : Str → Str → List Str
  | [], cur => if cur.isEmpty then [] else [cur.reverse]
  | c :: rest, cur =>
    if isSpace c then
      if cur.isEmpty then splitAux rest [] else cur.reverse :: splitAux rest []
    else splitAux rest (c :: cur)

/-- `s.split()` -/
def split (s : Str) : List Str := splitAux s []

def splitOnAux (sep : Char) : Str → Str → List Str
  | [], cur => [cur.reverse]
  | c :: rest, cur =>
    if c = sep then cur.reverse :: splitOnAux sep rest [] else splitOnAux sep rest (c :: cur)

/-- `s.split(sep)` for a single-character separator (always at least one piece) -/
def splitOn (sep : Char) (s : Str) : List Str := splitOnAux sep s []

def replaceChar (a b : Char) (s : Str) : Str := s.map (fun c => if c = a then b else c)

def startsWith (p s : Str) : Bool := p.isPrefixOf s

def upperChar (c : Char) : Char :=
  if 'a' ≤ c && c ≤ 'z' then Char.ofNat (c.toNat - 32) else c

def lowerChar (c : Char) : Char :=
  if 'A' ≤ c && c ≤ 'Z' then Char.ofNat (c.toNat + 32) else c

def upper (s : Str) : Str := s.map upperChar
def lower (s : Str) : Str := s.map lowerChar

/-- `" ".join(parts)` -/
def joinSp : List Str → Str
  | [] => []
  | [x] => x
  | x :: rest => x ++ ' ' :: joinSp rest

end Midgard.Text
