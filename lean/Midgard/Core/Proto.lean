/-
Line-protocol helpers shared by every driver module (Mathlib-free).

Numbers cross the Python/Lean boundary as exact rationals `num/den` (or plain
integers); lists are comma separated; absent values are `-`.
-/
namespace Midgard.Proto

def parseInt? (s : String) : Option Int := s.toInt?

/-- `"3/4"`, `"-3/4"`, `"5"` -/
def parseRat? (s : String) : Option Rat :=
  match s.splitOn "/" with
  | [n] => (n.toInt?).map (fun i => (i : Rat))
  | [n, d] =>
    match n.toInt?, d.toNat? with
    | some i, some k => if k = 0 then none else some (mkRat i k)
    | _, _ => none
  | _ => none

def showRat (q : Rat) : String :=
  if q.den = 1 then toString q.num else s!"{q.num}/{q.den}"

def showInt (i : Int) : String := toString i

/-- comma separated list; the empty list is written `[]` -/
def parseList? {α} (f : String → Option α) (s : String) : Option (List α) :=
  if s = "[]" then some [] else (s.splitOn ",").mapM f

def showList {α} (f : α → String) (l : List α) : String :=
  if l.isEmpty then "[]" else ",".intercalate (l.map f)

def parseRats? := parseList? parseRat?
def parseInts? := parseList? parseInt?
def showRats := showList showRat
def showInts := showList showInt

def parseBool? (s : String) : Option Bool :=
  if s = "1" || s = "T" then some true else if s = "0" || s = "F" then some false else none

def showBool (b : Bool) : String := if b then "1" else "0"

def showOpt {α} (f : α → String) : Option α → String
  | none => "-"
  | some a => f a

def parseOpt? {α} (f : String → Option α) (s : String) : Option (Option α) :=
  if s = "-" then some none else (f s).map some

/-- Text fields travel hex-encoded (two hex digits per byte of the UTF-8 form) so that
blanks and separators inside them never disturb tokenisation. `"."` is the empty string. -/
def hexDigit (n : Nat) : Char :=
  if n < 10 then Char.ofNat (48 + n) else Char.ofNat (87 + n)

def hexVal? (c : Char) : Option Nat :=
  if '0' ≤ c ∧ c ≤ '9' then some (c.toNat - 48)
  else if 'a' ≤ c ∧ c ≤ 'f' then some (c.toNat - 87)
  else none

def encodeHex (s : String) : String :=
  if s.isEmpty then "." else
  String.ofList (s.toUTF8.toList.flatMap fun b => [hexDigit (b.toNat / 16), hexDigit (b.toNat % 16)])

partial def decodeHexChars : List Char → Option (List UInt8)
  | [] => some []
  | a :: b :: rest => do
    let x ← hexVal? a
    let y ← hexVal? b
    let r ← decodeHexChars rest
    pure (UInt8.ofNat (x * 16 + y) :: r)
  | _ => none

def decodeHex? (s : String) : Option String :=
  if s = "." then some "" else do
    let bytes ← decodeHexChars s.toList
    String.fromUTF8? (ByteArray.mk bytes.toArray)

def tokens (line : String) : List String :=
  (line.splitOn " ").filter (· ≠ "")

end Midgard.Proto
