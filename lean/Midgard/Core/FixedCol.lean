/-
Fixed-column record layouts (Mathlib-free, executable; lemmas in `Proofs/FixedCol.lean`).

A layout is a list of fields `(name, start, stop)` — the half-open Python column interval
`line[start:stop]`.  Parsers read a field with `line[start:stop].strip()`; `slice` is exactly
that, including lines shorter than `stop` (clipped) or shorter than `start` (empty).

Published API (do not change signatures; C11/C15 import this):

  Field, Layout                 `{ name, start, stop }`, `List Field`
  Field.width
  slice f line                  `line[f.start:f.stop].strip()`
  sliceRaw f line               `line[f.start:f.stop]`
  sliceAll L line               `[(f.name, slice f line) | f ∈ L]`   (the parsers' field dict)
  Align                         `.left` / `.right`
  pad a w v                     `v.ljust(w)` / `v.rjust(w)`
  renderFrom pos L cells        writes cells left to right starting at column `pos`: blanks up to
                                `f.start`, then the cell padded to the field width
  renderA L cells               `renderFrom 0 L cells`   (cells : List (Align × Str))
  render L vs / renderR L vs    all cells left- / right-aligned
  Sorted L                      `start ≤ stop` for each field, `stop ≤ next.start` (decidable Bool)
  SortedFrom pos L              the same, first start ≥ `pos`
  Fits L cells                  same length, each text no wider than its field and `Clean`
  widthsOfStarts starts total   the SINEX/`np.genfromtxt` convention `np.diff(starts ++ [total])`
  ofStarts names starts total   layout with `stop = next start` (last: `total`)

Workhorse lemma (Proofs/FixedCol.lean): `slice_renderA` —
  `SortedFrom 0 L → Fits L cells → L.map (slice · (renderA L cells)) = cells.map (·.2)`,
and `slice_rstrip : slice f (rstrip line) = slice f line` ("trailing blanks stripped").
-/
import Midgard.Core.Text

namespace Midgard.FixedCol
open Midgard.Text

structure Field where
  name : String
  start : Nat
  stop : Nat
  deriving Repr, DecidableEq, Inhabited

abbrev Layout := List Field

def Field.width (f : Field) : Nat := f.stop - f.start

/-- `line[start:stop]` -/
def sliceRaw (f : Field) (line : Str) : Str := Text.slice f.start f.stop line

/-- `line[start:stop].strip()` -/
def slice (f : Field) (line : Str) : Str := strip (sliceRaw f line)

def sliceAll (L : Layout) (line : Str) : List (String × Str) :=
  L.map fun f => (f.name, slice f line)

inductive Align | left | right
  deriving Repr, DecidableEq, Inhabited

def pad (a : Align) (w : Nat) (v : Str) : Str :=
  match a with
  | .left => ljust w v
  | .right => rjust w v

def renderFrom (pos : Nat) : Layout → List (Align × Str) → Str
  | f :: L, (a, v) :: cs => blanks (f.start - pos) ++ pad a f.width v ++ renderFrom f.stop L cs
  | _, _ => []

def renderA (L : Layout) (cells : List (Align × Str)) : Str := renderFrom 0 L cells

def render (L : Layout) (vs : List Str) : Str := renderA L (vs.map fun v => (Align.left, v))

def renderR (L : Layout) (vs : List Str) : Str := renderA L (vs.map fun v => (Align.right, v))

def SortedFrom (pos : Nat) : Layout → Bool
  | [] => true
  | f :: L => decide (pos ≤ f.start) && decide (f.start ≤ f.stop) && SortedFrom f.stop L

def Sorted (L : Layout) : Bool := SortedFrom 0 L

def Fits : Layout → List (Align × Str) → Bool
  | [], [] => true
  | f :: L, (_, v) :: cs => decide (v.length ≤ f.width) && Clean v && Fits L cs
  | _, _ => false

/-- every field ends at or before column `n` -/
def Within (n : Nat) (L : Layout) : Bool := L.all fun f => decide (f.stop ≤ n)

/-- `np.diff(starts ++ [total])` -/
def widthsOfStarts : List Nat → Nat → List Nat
  | [], _ => []
  | [s], total => [total - s]
  | s :: t :: rest, total => (t - s) :: widthsOfStarts (t :: rest) total

/-- the layout `np.genfromtxt(delimiter = widths)` cuts, for fields named `names` starting at
`starts` (ascending), the last one ending at `total` -/
def ofStarts : List String → List Nat → Nat → Layout
  | n :: _, [s], total => [⟨n, s, total⟩]
  | n :: ns, s :: t :: rest, total => ⟨n, s, t⟩ :: ofStarts ns (t :: rest) total
  | _, _, _ => []

end Midgard.FixedCol
