/-
Exact decimal numbers as text (Mathlib-free, executable; lemmas in `Proofs/Decimal.lean`).

Published API (do not change signatures; C11/C15 import this):

  digitChar n / digitVal c          one decimal digit ↔ its character
  natDigits n                       decimal text of a natural number (`str(n)`), `"0"` for 0
  digitsVal s                       value of a digit string read left to right (total; `0` on `""`)
  parseNat? s                       `some` iff `s` is a non-empty all-digit string
  parseInt? s                       `int(s)` on `[+-]digits` with surrounding whitespace stripped
  parseDecimalWith exps s           Python `float(s)` grammar on finite decimals —
                                    `ws [+-] (digits [. digits*] | . digits) [X [+-] digits] ws`
                                    with the exponent letter `X` drawn from `exps` — as the *exact*
                                    rational (no rounding).  `none` on anything else (also on
                                    `inf`/`nan`/underscores, which `float` would accept).
  parseFloat s                      `parseDecimalWith ['e','E']`  (= Python `float`)
  parseDecimal s                    `parseDecimalWith ['e','E','D','d']`
  pow10 k                           `10^k : Rat`
  scale10 q e                       `q · 10^e` for an `Int` exponent
  roundHalfEven q                   nearest integer, ties to even (Python `round`, `format`)
  fmtFixedCore q p                  `'{:.pf}'.format(q)` on the exact value (ties to even; a
                                    negative value that rounds to zero keeps its `-`, as Python)
  fmtFixed q w p                    `'{:w.pf}'.format(q)` (right-justified, never truncated)
  fmtInt i / fmtIntW w i            `'{:d}'`, `'{:wd}'`
  fixedDigits p n                   `'{:0pd}'.format(n % 10^p)` (structurally recursive, proof friendly)

The double nearest to a parsed rational is *not* modelled: the correspondence compares
`float(text)` of the implementation with `float(Fraction)` of the model's exact value (both
correctly rounded), see DESIGN.md §3.
-/
import Midgard.Core.Text

namespace Midgard.Decimal
open Midgard.Text

def digitChar (n : Nat) : Char := Char.ofNat (48 + n % 10)

def digitVal (c : Char) : Nat := c.toNat - 48

/-- `str(n)` -/
def natDigits (n : Nat) : Str :=
  if n < 10 then [digitChar n] else natDigits (n / 10) ++ [digitChar (n % 10)]
decreasing_by omega

/-- left-to-right value of a digit string with a running accumulator -/
def digitsValAux (acc : Nat) : Str → Nat
  | [] => acc
  | c :: rest => digitsValAux (acc * 10 + digitVal c) rest

def digitsVal (s : Str) : Nat := digitsValAux 0 s

def allDigits (s : Str) : Bool := s.all isDigit

def parseNat? (s : Str) : Option Nat :=
  if s.isEmpty || !allDigits s then none else some (digitsVal s)

/-- optional sign: returns (isNegative, rest) -/
def takeSign : Str → Bool × Str
  | '-' :: r => (true, r)
  | '+' :: r => (false, r)
  | s => (false, s)

/-- `int(s)` for plain decimal integers -/
def parseInt? (s : Str) : Option Int :=
  let (neg, r) := takeSign (strip s)
  (parseNat? r).map fun n => if neg then -(n : Int) else (n : Int)

def pow10 (k : Nat) : Rat := ((10 ^ k : Nat) : Rat)

def scale10 (q : Rat) (e : Int) : Rat :=
  if e ≥ 0 then q * pow10 e.toNat else q / pow10 (-e).toNat

/-- mantissa `digits [. digits*] | . digits` → (digit string without the point, number of
fraction digits) -/
def parseMantissa? (m : Str) : Option (Str × Nat) :=
  let ip := m.takeWhile (· ≠ '.')
  let rest := m.dropWhile (· ≠ '.')
  match rest with
  | [] => if ip.isEmpty || !allDigits ip then none else some (ip, 0)
  | _ :: fp =>
    if (ip.isEmpty && fp.isEmpty) || !allDigits ip || !allDigits fp then none
    else some (ip ++ fp, fp.length)

/-- exponent part after the exponent letter: `[+-] digits` -/
def parseExp? (e : Str) : Option Int :=
  let (neg, r) := takeSign e
  (parseNat? r).map fun n => if neg then -(n : Int) else (n : Int)

def parseDecimalWith (exps : List Char) (s : Str) : Option Rat :=
  let (neg, r) := takeSign (strip s)
  let m := r.takeWhile (fun c => !exps.contains c)
  let erest := r.dropWhile (fun c => !exps.contains c)
  match parseMantissa? m with
  | none => none
  | some (ds, k) =>
    let mant : Rat := (digitsVal ds : Rat) / pow10 k
    let e? : Option Int :=
      match erest with
      | [] => some 0
      | _ :: e => parseExp? e
    match e? with
    | none => none
    | some e =>
      let v := scale10 mant e
      some (if neg then -v else v)

/-- Python `float(s)` on finite decimal literals, exact value -/
def parseFloat (s : Str) : Option Rat := parseDecimalWith ['e', 'E'] s

/-- Fortran-tolerant variant: `E e D d` exponents -/
def parseDecimal (s : Str) : Option Rat := parseDecimalWith ['e', 'E', 'D', 'd'] s

/-- nearest integer, ties to even -/
def roundHalfEven (q : Rat) : Int :=
  let f := q.floor
  let r := q - f
  if r < 1 / 2 then f
  else if 1 / 2 < r then f + 1
  else if f % 2 = 0 then f else f + 1

/-- `n` as exactly `p` digits (leading zeros), for `n < 10^p` -/
def fracDigits (p n : Nat) : Str :=
  let d := natDigits n
  List.replicate (p - d.length) '0' ++ d

/-- `'{:.pf}'.format(q)` -/
def fmtFixedCore (q : Rat) (p : Nat) : Str :=
  let a : Rat := if q < 0 then -q else q
  let n : Nat := (roundHalfEven (a * pow10 p)).toNat
  let ip := n / 10 ^ p
  let fp := n % 10 ^ p
  (if q < 0 then ['-'] else []) ++ natDigits ip ++ (if p = 0 then [] else '.' :: fracDigits p fp)

/-- `'{:w.pf}'.format(q)` -/
def fmtFixed (q : Rat) (w p : Nat) : Str := rjust w (fmtFixedCore q p)

/-- exactly `p` digits of `n` (leading zeros; higher digits dropped): `'{:0pd}'.format(n % 10^p)` -/
def fixedDigits : Nat → Nat → Str
  | 0, _ => []
  | p + 1, n => fixedDigits p (n / 10) ++ [digitChar n]

def fmtInt (i : Int) : Str :=
  if i < 0 then '-' :: natDigits i.natAbs else natDigits i.natAbs

def fmtIntW (w : Nat) (i : Int) : Str := rjust w (fmtInt i)

end Midgard.Decimal
