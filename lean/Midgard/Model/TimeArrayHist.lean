/-
C04 — model of how `TimeBase` arrays are derived from each other
(`__getitem__`, `__array_finalize__` with the `_jd1_sliced/_jd2_sliced` side channel,
`__copy__/__deepcopy__`, `subset`, `insert`, `to_scale`, iteration).

Epochs are *origin tags* (`Nat`): an array carries three tag lists — what its values,
its `jd1` and its `jd2` were selected from.  "Element-aligned" is equality of the three lists.

The mechanism is modelled as the code has it: `__getitem__` first stores the sliced jd parts on
the *parent* (`pending`), NumPy then creates the result and calls `__array_finalize__(parent)`,
which picks up `pending` if present and the parent's full jd lists otherwise.  Whether
`__getitem__` clears `pending` afterwards is the parameter `clear` (the repaired code does; the
translator reads it off the source).

Every operation also says which `__array_finalize__` calls it makes (`Res.hooks`: plain parent / heap parent with or
without hand-over); the harness records the calls of the real code and compares.  Arrays carry their scale class and
format; `pyEq`/`hashKey` are `__eq__`/`__hash__` over attribute lists that the translator regenerates from the source.
-/
namespace Midgard.TimeArrayHist

/-! ### Python / NumPy indexing on plain lists -/

/-- `l[i]` position for a Python integer index -/
def normIdx (n : Nat) (i : Int) : Option Nat :=
  if 0 ≤ i ∧ i < n then some i.toNat
  else if -(n : Int) ≤ i ∧ i < 0 then some (i + n).toNat
  else none

/-- `range(start, stop, step)` as positions, `fuel` ≥ number of elements -/
def rangeIdx : Nat → Int → Int → Int → List Nat
  | 0, _, _, _ => []
  | fuel + 1, start, stop, step =>
    if (0 < step ∧ start < stop) ∨ (step < 0 ∧ stop < start) then
      start.toNat :: rangeIdx fuel (start + step) stop step
    else []

def clamp (lo hi x : Int) : Int := if x < lo then lo else if hi < x then hi else x

/-- `slice(a, b, c).indices(n)` then `range` (step ≠ 0) -/
def sliceIdx (n : Nat) (a b : Option Int) (c : Int) : List Nat :=
  let N : Int := n
  if 0 < c then
    let start := match a with | none => 0 | some a => clamp 0 N (if a < 0 then a + N else a)
    let stop := match b with | none => N | some b => clamp 0 N (if b < 0 then b + N else b)
    rangeIdx n start stop c
  else
    let start := match a with | none => N - 1 | some a => clamp (-1) (N - 1) (if a < 0 then a + N else a)
    let stop := match b with | none => -1 | some b => clamp (-1) (N - 1) (if b < 0 then b + N else b)
    rangeIdx n start stop c

/-- index selections the property lists -/
inductive Sel
  | slice (a b : Option Int) (c : Int)
  | mask (m : List Bool)
  | idx (l : List Int)
  deriving Repr, DecidableEq

/-- positions selected from a list of length `n` (`none`: IndexError / ValueError) -/
def Sel.positions (n : Nat) : Sel → Option (List Nat)
  | .slice a b c => if c = 0 then none else some (sliceIdx n a b c)
  | .mask m => if m.length = n then some ((List.range n).filter (fun k => m.getD k false)) else none
  | .idx l => l.mapM (normIdx n)

def pick {α} (l : List α) (ps : List Nat) : List α := ps.filterMap (l[·]?)

/-! ### Arrays and the heap -/

/-- scale classes (`type(self)`: `UtcTime`, `TaiTime`, `GpsTime`, …) and formats are small numbers; the two that
matter for behaviour are named -/
def clsGps : Nat := 2
def fmtJd : Nat := 0
/-- `gps_ws` (three columns; only available in the gps scale, like `gps_seconds`) -/
def fmtGpsWs : Nat := 2

structure Arr where
  vals : List Nat
  jd1 : List Nat
  jd2 : List Nat
  /-- 0-dimensional object (result of `t[i]`) -/
  scalar : Bool := false
  /-- `_jd1_sliced`, `_jd2_sliced` left on this array by its `__getitem__` -/
  pending : Option (List Nat × List Nat) := none
  /-- the scale class `type(self)` -/
  cls : Nat := 0
  /-- `self.fmt` -/
  fmt : Nat := 0
  deriving Repr, DecidableEq

/-- what a caller can observe of an array -/
structure Obs where
  vals : List Nat
  jd1 : List Nat
  jd2 : List Nat
  scalar : Bool
  cls : Nat := 0
  fmt : Nat := 0
  deriving Repr, DecidableEq

def Arr.obs (a : Arr) : Obs := ⟨a.vals, a.jd1, a.jd2, a.scalar, a.cls, a.fmt⟩

def Obs.aligned (o : Obs) : Prop := o.vals = o.jd1 ∧ o.jd1 = o.jd2

abbrev Heap := List Arr

/-- first entry of a tuple index -/
inductive First
  | int (i : Int)
  | sel (s : Sel)
  deriving Repr, DecidableEq

def First.positions (n : Nat) : First → Option (List Nat)
  | .int i => (normIdx n i).map ([·])
  | .sel s => s.positions n

/-- NumPy functions that make a new array of *all* values of `t` and then fail, because the array
`__array_finalize__` has just frozen cannot be filled (`flatten`, `astype`, `np.unique`), or that fail before
any array is made (`np.sort`: `TimeBase.__copy__` takes no `order`) -/
inductive Refused
  | flatten | astype | unique | sort
  deriving Repr, DecidableEq

/-- does NumPy create (and drop) a temporary through `__array_finalize__(t)` before the refusal? -/
def Refused.makesTemp : Refused → Bool
  | .sort => false
  | _ => true

inductive Op
  /-- `t[i]` -/
  | getInt (t : Nat) (i : Int)
  /-- `t[a:b:c]`, `t[mask]`, `t[[...]]`, and the same as one-entry tuples `t[(sel,)]`, `t[sel, ...]` -/
  | getSel (t : Nat) (s : Sel)
  /-- `t.view()`, `t.T`, `t.reshape(n)`, `t.ravel()`, `np.add(t, 0)`: NumPy builds a new array of the same
  values and calls `__array_finalize__(t)` without going through `__getitem__` -/
  | view (t : Nat)
  /-- `t.copy()`, `copy.copy(t)`, `copy.deepcopy(t)`: rebuilt through `__new__` with explicit jd -/
  | copy (t : Nat)
  /-- `t.subset(idx, memo)` -/
  | subset (t : Nat) (s : Sel)
  /-- `TimeArray.insert(a, pos, b, memo)` -/
  | insert (a : Nat) (pos : Int) (b : Nat)
  /-- `t.<scale>` : new array from the converted jd parts, element by element (`target` = class of the scale asked
  for; the scale the array is in already gives back the object itself) -/
  | scale (t : Nat) (target : Nat)
  /-- `for x in t` -/
  | iter (t : Nat)
  /-- `t[k] = v`, `t.fmt = v`: refused -/
  | set (t : Nat)
  /-- a tuple index NumPy refuses as a whole: `g[first, 3]` on a three-column array (column out of bounds: refused
  *after* `__getitem__` has sliced the jd parts by its first entry), `t[first, 0]` on a one-column array (too many
  indices: the jd parts have the shape of the values and refuse the index themselves, nothing is stored) -/
  | getBad (t : Nat) (f : First)
  /-- `t[i, ...]` (and `t[..., i]` on a one-column array): the single epoch as a tuple index — NumPy makes a 0-d view
  through `__array_finalize__(t)` with the hand-over, not through `from_jds` -/
  | getEll (t : Nat) (i : Int)
  /-- `t.squeeze()` with nothing to squeeze: NumPy hands back the object itself -/
  | same (t : Nat)
  /-- `t.flatten()`, `t.astype(float)`, `np.unique(t)`, `np.sort(t)`: refused -/
  | refused (t : Nat) (f : Refused)
  /-- `np.concatenate([t, u, …])`, `np.append(t, u)` (`append`): a plain `ndarray` of the values, not a time array;
  `np.append` first ravels its second argument: a temporary made through `__array_finalize__(u)` -/
  | concat (ts : List Nat) (append : Bool)
  deriving Repr, DecidableEq

inductive Out
  | arr (o : Obs)
  | many (os : List Obs)
  | error
  /-- a plain `ndarray` holding these values -/
  | plain (vals : List Nat)
  deriving Repr, DecidableEq

/-- how the array an operation returns came into being (what `__array_finalize__` was called with) -/
inductive Hook
  /-- `__array_finalize__(obj)` with `obj` a plain `ndarray`: built by `__new__` with explicit jd parts -/
  | plain
  /-- `__array_finalize__(heap[t])`; `handover`: the side channel was set on `t` at that moment -/
  | parent (t : Nat) (handover : Bool)
  deriving Repr, DecidableEq

/-- `np.insert(l, pos, m)`: negative positions count from the end, positions beyond the end are errors -/
def insertAt (pos : Int) (l m : List Nat) : Option (List Nat) :=
  let n : Int := l.length
  let p := if pos < 0 then pos + n else pos
  if 0 ≤ p ∧ p ≤ n then some (l.take p.toNat ++ m ++ l.drop p.toNat) else none

/-- `__array_finalize__(parent)`: the new array takes `pending` if there is one, the parent's
full jd lists otherwise; format and class are the parent's -/
def finalize (parent : Arr) (newVals : List Nat) (scalar : Bool) : Arr :=
  match parent.pending with
  | some (p1, p2) => { vals := newVals, jd1 := p1, jd2 := p2, scalar := scalar, cls := parent.cls, fmt := parent.fmt }
  | none => { vals := newVals, jd1 := parent.jd1, jd2 := parent.jd2, scalar := scalar, cls := parent.cls, fmt := parent.fmt }

def setAt (h : Heap) (k : Nat) (a : Arr) : Heap := h.set k a

/-- after `__getitem__` has returned: clear the side channel (repaired code) or leave it -/
def afterGet (clear : Bool) (a : Arr) : Arr := if clear then { a with pending := none } else a

/-- one `t[i]`: stores the sliced parts on `t`, builds the element through `from_jds` -/
def getIntStep (clear : Bool) (h : Heap) (t : Nat) (i : Int) : Heap × Option Arr :=
  match h[t]? with
  | none => (h, none)
  | some a =>
    if a.scalar then (h, none) else
    match normIdx a.jd1.length i with
    | none => (h, none)
    | some k =>
      let p1 := pick a.jd1 [k]
      let p2 := pick a.jd2 [k]
      let a' : Arr := { a with pending := some (p1, p2) }
      -- from_jds(_jd1_sliced, _jd2_sliced, self.fmt): values are recomputed from the jd parts
      let r : Arr := { vals := p1, jd1 := p1, jd2 := p2, scalar := true, cls := a.cls, fmt := a.fmt }
      (setAt h t (afterGet clear a'), some r)

/-- the format a conversion to the scale class `target` ends in: formats of the gps scale only fall back to `jd` -/
def fmtAfterScale (fmt target : Nat) : Nat := if fmt = fmtGpsWs ∧ target ≠ clsGps then fmtJd else fmt

/-- result of one operation: the heap afterwards, what the caller sees, and the `__array_finalize__` calls made on
the way (in order) -/
structure Res where
  heap : Heap
  out : Out
  hooks : List Hook := []

def step (clear : Bool) (h : Heap) : Op → Res
  | .getInt t i =>
    match getIntStep clear h t i with
    | (h', some r) => ⟨h' ++ [r], .arr r.obs, [.plain]⟩
    | (h', none) => ⟨h', .error, []⟩
  | .getSel t s =>
    match h[t]? with
    | none => ⟨h, .error, []⟩
    | some a =>
      if a.scalar then ⟨h, .error, []⟩ else
      match s.positions a.vals.length, s.positions a.jd1.length with
      | some pv, some pj =>
        let a' : Arr := { a with pending := some (pick a.jd1 pj, pick a.jd2 pj) }
        let r := finalize a' (pick a.vals pv) false
        ⟨setAt h t (afterGet clear a') ++ [r], .arr r.obs, [.parent t true]⟩
      | _, _ => ⟨h, .error, []⟩
  | .view t =>
    match h[t]? with
    | none => ⟨h, .error, []⟩
    | some a => let r := finalize a a.vals a.scalar; ⟨h ++ [r], .arr r.obs, [.parent t a.pending.isSome]⟩
  | .copy t =>
    match h[t]? with
    | none => ⟨h, .error, []⟩
    | some a => let r : Arr := { vals := a.vals, jd1 := a.jd1, jd2 := a.jd2, scalar := a.scalar, cls := a.cls, fmt := a.fmt }
                ⟨h ++ [r], .arr r.obs, [.plain]⟩
  | .subset t s =>
    match h[t]? with
    | none => ⟨h, .error, []⟩
    | some a =>
      if a.scalar then ⟨h, .error, []⟩ else
      match s.positions a.vals.length, s.positions a.jd1.length with
      | some pv, some pj =>
        let r : Arr := { vals := pick a.vals pv, jd1 := pick a.jd1 pj, jd2 := pick a.jd2 pj, cls := a.cls, fmt := a.fmt }
        ⟨h ++ [r], .arr r.obs, [.plain]⟩
      | _, _ => ⟨h, .error, []⟩
  | .insert ta pos tb =>
    match h[ta]?, h[tb]? with
    | some a, some b =>
      if a.scalar then ⟨h, .error, []⟩ else
      match insertAt pos a.vals b.vals, insertAt pos a.jd1 b.jd1, insertAt pos a.jd2 b.jd2 with
      | some v, some j1, some j2 =>
        let r : Arr := { vals := v, jd1 := j1, jd2 := j2, cls := a.cls, fmt := a.fmt }
        ⟨h ++ [r], .arr r.obs, [.plain]⟩
      | _, _, _ => ⟨h, .error, []⟩
    | _, _ => ⟨h, .error, []⟩
  | .scale t target =>
    match h[t]? with
    | none => ⟨h, .error, []⟩
    | some a =>
      if target = a.cls then ⟨h ++ [a], .arr a.obs, []⟩ else
      -- hop functions act elementwise on (jd1, jd2); values are recomputed from the new jd parts
      let r : Arr := { vals := a.jd1, jd1 := a.jd1, jd2 := a.jd2, scalar := a.scalar, cls := target, fmt := fmtAfterScale a.fmt target }
      ⟨h ++ [r], .arr r.obs, [.plain]⟩
  | .iter t =>
    match h[t]? with
    | none => ⟨h, .error, []⟩
    | some a =>
      if a.scalar then ⟨h, .error, []⟩ else
      let res := (List.range a.jd1.length).foldl
        (fun (acc : Heap × List Obs) (k : Nat) =>
          match getIntStep clear acc.1 t (k : Int) with
          | (h', some r) => (h' ++ [r], acc.2 ++ [r.obs])
          | (h', none) => (h', acc.2))
        (h, [])
      ⟨res.1, .many res.2, res.2.map fun _ => .plain⟩
  | .set _ => ⟨h, .error, []⟩
  | .getBad t f =>
    match h[t]? with
    | none => ⟨h, .error, []⟩
    | some a =>
      if a.scalar then ⟨h, .error, []⟩ else
      if a.fmt ≠ fmtGpsWs then ⟨h, .error, []⟩ else
      match f.positions a.jd1.length with
      -- `self.jd1[first]` raises before anything is stored
      | none => ⟨h, .error, []⟩
      -- the jd parts are stored on `t`, then `ndarray.__getitem__` raises; no array is made
      | some pj => ⟨setAt h t (afterGet clear { a with pending := some (pick a.jd1 pj, pick a.jd2 pj) }), .error, []⟩
  | .getEll t i =>
    match h[t]? with
    | none => ⟨h, .error, []⟩
    | some a =>
      if a.scalar then ⟨h, .error, []⟩ else
      match normIdx a.vals.length i, normIdx a.jd1.length i with
      | some kv, some kj =>
        let a' : Arr := { a with pending := some (pick a.jd1 [kj], pick a.jd2 [kj]) }
        let r := finalize a' (pick a.vals [kv]) true
        ⟨setAt h t (afterGet clear a') ++ [r], .arr r.obs, [.parent t true]⟩
      | _, _ => ⟨h, .error, []⟩
  | .same t =>
    match h[t]? with
    | none => ⟨h, .error, []⟩
    | some a => ⟨h ++ [a], .arr a.obs, []⟩
  | .refused t f =>
    match h[t]? with
    | none => ⟨h, .error, []⟩
    | some a => ⟨h, .error, if f.makesTemp then [.parent t a.pending.isSome] else []⟩
  | .concat ts append =>
    match ts.mapM (h[·]?) with
    | none => ⟨h, .error, []⟩
    | some as =>
      ⟨h, .plain (as.flatMap (·.vals)),
        match append, ts, as with
        | true, [_, u], [_, b] => [.parent u b.pending.isSome]
        | _, _, _ => []⟩

structure RunRes where
  heap : Heap
  outs : List Out
  hooks : List (List Hook)

def run (clear : Bool) (h : Heap) : List Op → RunRes
  | [] => ⟨h, [], []⟩
  | op :: ops =>
    let r := step clear h op
    let rs := run clear r.heap ops
    ⟨rs.heap, r.out :: rs.outs, r.hooks :: rs.hooks⟩

/-- a freshly constructed array of `n` epochs with tags `base, base+1, …` -/
def fresh (base n : Nat) (cls fmt : Nat := 0) : Arr :=
  let tags := (List.range n).map (· + base)
  { vals := tags, jd1 := tags, jd2 := tags, cls := cls, fmt := fmt }

/-! ### `__eq__` and `__hash__`

`attrs` is what the two methods can read of an array; which of them they *do* read is generated from the source
(`Generated.TimeArrayMech.hashReads`, `eqCompares`, `eqShapeGuard`) and passed in as lists of names. -/

inductive AttrVal
  /-- the numbers that stand for these epochs in the scale of class `cls` (the same epoch has other jd numbers in
  another scale) -/
  | nums (cls : Nat) (l : List Nat)
  | id (n : Nat)
  | shape (scalar : Bool) (n : Nat)
  | unknown (name : String)
  deriving Repr, DecidableEq

def Arr.attr (a : Arr) (name : String) : AttrVal :=
  if name = "jd1" then .nums a.cls a.jd1
  else if name = "jd2" then .nums a.cls a.jd2
  else if name = "__class__" ∨ name = "scale" then .id a.cls
  else if name = "fmt" then .id a.fmt
  else if name = "val" then .nums a.cls a.vals
  else .unknown name

def Arr.shapeOf (a : Arr) (name : String) : AttrVal :=
  if name = "jd1" then .shape a.scalar a.jd1.length
  else if name = "jd2" then .shape a.scalar a.jd2.length
  else if name = "val" then .shape a.scalar a.vals.length
  else .unknown name

/-- `a == b`: `isinstance(other, self.__class__)`, the shape guard, then `np.all(self.x == other.x)` for every
compared attribute -/
def pyEq (shapeGuard compares : List String) (a b : Arr) : Bool :=
  shapeGuard.all (fun x => a.shapeOf x == b.shapeOf x) && compares.all (fun x => a.attr x == b.attr x)

/-- everything `hash(a)` is computed from -/
def hashKey (reads : List String) (a : Arr) : List AttrVal := reads.map a.attr

end Midgard.TimeArrayHist
