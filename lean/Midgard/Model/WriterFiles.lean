/-
C17 — whole files: what a writer writes (header text + data lines) and how the matching parser of the
library reads it (model).  Mathlib-free; executed by the driver.

  universalNewlines      reading a file in text mode: `\r\n`, `\r` → `\n`
  fileLines              iterating over a text file: pieces that end in `\n` (the last one may not)
  cutWidths              `[line[s] for s in slices]` of numpy's `LineSplitter._variablewidth_splitter`
  gftRow / gftRows       `np.genfromtxt(delimiter=(w1, w2, …), autostrip=…, comments=c, skip_header=k)`: skip `k`
                         lines; cut each line at the comment marker; a line that is empty then is skipped;
                         the rest is cut into the fixed widths (always as many values as widths) and stripped
  convert                `StringConverter._loose_call`: `f8` → `float(text)`, NaN when that raises (also for
                         the text `nan`); `U<n>` → the first `n` characters
  gftParse               the structured array as a list of rows
  crdParse               parsers/bernese_crd.py: `read_data` + `_remove_blank_entries`
  cluParse               parsers/bernese_clu.py (the rows `as_dict` keeps)
  headerOf / crdFile / velFile / cluFile
                         the whole text the writer writes: `_get_header(...)` (regenerated cells; the wall-clock
                         texts are inputs) followed by the data lines

Outside the model (trusted / measured by the correspondence): `float` accepts more texts than `parseFloat`
(`inf`, `1_0`, …) — none of them is produced by a writer; NumPy's array construction from the converted rows.
-/
import Midgard.Model.Writers

namespace Midgard.WriterFiles
open Midgard.Text Midgard.Decimal Midgard.FixedCol Midgard.WriterCells Midgard.Writers
open Midgard.Generated.WriterLayouts

/-- `prevCR`: the character before was a `\r` (already turned into `\n`) -/
def unlAux : Bool → Str → Str
  | _, [] => []
  | prevCR, c :: r =>
    if c = '\r' then '\n' :: unlAux true r
    else if c = '\n' && prevCR then unlAux false r
    else c :: unlAux false r

/-- text mode (`newline=None`): `\r\n` and a lone `\r` are read as `\n` -/
def universalNewlines (s : Str) : Str := unlAux false s

def fileLinesAux : Str → Str → List Str
  | [], cur => if cur.isEmpty then [] else [cur.reverse]
  | c :: rest, cur =>
    if c = '\n' then (c :: cur).reverse :: fileLinesAux rest [] else fileLinesAux rest (c :: cur)

/-- `for line in fid` -/
def fileLines (s : Str) : List Str := fileLinesAux s []

/-- `[line[s] for s in slices]`, `slices` the consecutive intervals of the given widths -/
def cutWidths : List Nat → Str → List Str
  | [], _ => []
  | w :: ws, s => s.take w :: cutWidths ws (s.drop w)

structure GftSpec where
  names : List String
  widths : List Nat
  dtypes : List Dtype
  skip : Nat
  comment : Char
  autostrip : Bool
  deriving Repr, DecidableEq

/-- one line through `LineSplitter` (variable widths): `none` = no values (the line is skipped) -/
def gftRow (sp : GftSpec) (line : Str) : Option (List Str) :=
  let l := line.takeWhile (· ≠ sp.comment)
  if l.isEmpty then none
  else some (if sp.autostrip then (cutWidths sp.widths l).map strip else cutWidths sp.widths l)

def gftRows (sp : GftSpec) (file : Str) : List (List Str) :=
  ((fileLines (universalNewlines file)).drop sp.skip).filterMap (gftRow sp)

/-- a converted value: `f8 none` is NaN -/
inductive FieldVal where
  | f8 (v : Option Rat)
  | u (s : Str)
  deriving DecidableEq, Repr

def convert : Dtype → Str → FieldVal
  | .f8, s => .f8 (parseFloat s)
  | .u n, s => .u (s.take n)

def convertRow (dts : List Dtype) (row : List Str) : List FieldVal := List.zipWith convert dts row

/-- `np.genfromtxt(file, **params)` as rows of converted values -/
def gftParse (sp : GftSpec) (file : Str) : List (List FieldVal) :=
  (gftRows sp file).map (convertRow sp.dtypes)

def crdSpec : GftSpec :=
  ⟨crdParserNames, crdParserWidths, crdParserDtypes, crdParserSkipHeader, crdParserComment, crdParserAutostrip⟩

def cluSpec : GftSpec :=
  ⟨cluParserNames, cluParserWidths, cluParserDtypes, cluParserSkipHeader, cluParserComment, cluParserAutostrip⟩

/-- rows whose `station` value is not the empty text -/
def dropBlankStations (sp : GftSpec) (rows : List (List FieldVal)) : List (List FieldVal) :=
  rows.filter fun r => r[sp.names.idxOf "station"]? != some (.u [])

/-- parsers/bernese_crd.py: `self.data` after `_remove_blank_entries`, row by row -/
def crdParse (file : Str) : List (List FieldVal) := dropBlankStations crdSpec (gftParse crdSpec file)

/-- parsers/bernese_clu.py: the rows `as_dict` keeps (`if not sta: continue`) -/
def cluParse (file : Str) : List (List FieldVal) := dropBlankStations cluSpec (gftParse cluSpec file)

/-! ### a formatted line as the parser's fixed-width splitter sees it

A line is cut into *segments*: each replacement field together with the literal text written since the field
before it; what follows the last field is the tail.  When the segment widths are the parser's `delimiter` widths
and the literals inside the segments are blanks, every parser column holds exactly one writer cell. -/

def segsFrom (pre : Str) : List Cell → List Value → List Str
  | [], _ => []
  | .lit t :: cs, vs => segsFrom (pre ++ t.toList) cs vs
  | .fld _ sp :: cs, v :: vs => (pre ++ fmtValue sp v) :: segsFrom [] cs vs
  | .fld _ _ :: _, [] => []
  | .other _ :: _, _ => []

def tailLitFrom (pre : Str) : List Cell → Str
  | [] => pre
  | .lit t :: cs => tailLitFrom (pre ++ t.toList) cs
  | _ :: cs => tailLitFrom [] cs

/-- nominal widths of the segments -/
def segWidthsFrom (pre : Nat) : List Cell → List Nat
  | [] => []
  | .lit t :: cs => segWidthsFrom (pre + t.toList.length) cs
  | .fld _ sp :: cs => (pre + sp.width) :: segWidthsFrom 0 cs
  | .other _ :: _ => []

/-- the literal text inside the segments consists of blanks (U+0020) only -/
def leadSpacesFrom (pre : Str) : List Cell → Bool
  | [] => true
  | .lit t :: cs => leadSpacesFrom (pre ++ t.toList) cs
  | .fld _ _ :: cs => pre.all (· = ' ') && leadSpacesFrom [] cs
  | .other _ :: _ => false

/-- every value text of a line consists of characters satisfying `P` -/
def textsAll (P : Char → Bool) : List Cell → List Value → Bool
  | [], _ => true
  | .lit _ :: cs, vs => textsAll P cs vs
  | .fld _ spec :: cs, v :: vs => (v.text spec).all P && textsAll P cs vs
  | .fld _ _ :: _, [] => true
  | .other _ :: cs, vs => textsAll P cs vs

/-- a character that neither ends a line nor starts a comment -/
def plainFor (comment : Char) (c : Char) : Bool := c != comment && c != '\n' && c != '\r'

/-- the names of the replacement fields of a line, in order -/
def fieldNames (cells : List Cell) : List String :=
  cells.filterMap fun c => match c with | .fld n _ => some n | _ => none

/-- the positional values of a keyword-formatted line: each field looks its value up by name -/
def envValues (cells : List Cell) (env : Env) : Option (List Value) :=
  (fieldNames cells).mapM fun n => env.lookup n

/-- what a line table has to satisfy so that the fixed-width parser `sp` reads it cell by cell: the segment widths
are the parser's `delimiter` widths, the literal text inside the segments is blank, the line ends with a newline -/
def lineMatches (sp : GftSpec) (cells : List Cell) : Bool :=
  segWidthsFrom 0 cells == sp.widths && leadSpacesFrom [] cells && tailLitFrom [] cells == ['\n'] &&
  sp.comment != ' ' && sp.comment != '\n' && sp.autostrip

/-- **range predicate of a line**: every value is of the right kind and no wider than its cell, texts have no
outer blanks, and no text contains the comment marker or a line break -/
def valsOk (sp : GftSpec) (cells : List Cell) (vals : List Value) : Bool :=
  allFit cells vals && allClean cells vals && textsAll (plainFor sp.comment) cells vals

/-- **range predicate of a header**: exactly `skip_header` complete lines, no carriage return -/
def headerOk (sp : GftSpec) (hdr : Str) : Bool :=
  hdr.count '\n' == sp.skip && hdr.getLast? == some '\n' && hdr.all (· != '\r')

/-! ### whole files -/

/-- the cells of the text `_get_header(...)` of writer `w` returns -/
def headerOf (w : String) : List Cell :=
  match headers.find? (fun r => r.writer = w) with
  | some r => r.cells
  | none => []

/-- the header with its replacement fields filled in order (all of them texts: the `solution` line, the
wall-clock stamp, datum, epoch) -/
def headerText (w : String) (texts : List Str) : Option Str :=
  renderCells (headerOf w) (texts.map Value.str)

def fileOf (header : Option Str) (body : Option (List Str)) : Option Str :=
  match header, body with
  | some h, some b => some (h ++ b.flatten)
  | _, _ => none

/-- everything writers/bernese_crd.py writes; `texts` = solution, stamp, datum, epoch -/
def crdFile (texts : List Str) (writeNan : Bool) (sts : List Station) : Option Str :=
  fileOf (headerText "bernese_crd" texts) (crdBody writeNan sts)

/-- everything writers/bernese_vel.py writes; `texts` = solution, stamp, datum -/
def velFile (texts : List Str) (writeNan : Bool) (sts : List Station) : Option Str :=
  fileOf (headerText "bernese_vel" texts) (velBody writeNan sts)

/-- everything writers/bernese_clu.py writes; `texts` = solution, stamp -/
def cluFile (texts : List Str) (keys : List Str) : Option Str :=
  fileOf (headerText "bernese_clu" texts) (cluBody keys)

/-! ### SINEX-TMS TIMESERIES/DATA lines as lists of cells -/

/-- `s` is a whitespace token: not empty, no blank inside (as `Text.Token` of Proofs/Split.lean) -/
def isToken (t : Str) : Bool := !t.isEmpty && t.all (fun c => !isSpace c)

/-- a data line as cells: `' '` followed by the formatted cells, no separator -/
def tmsLineOf (cells : List (Spec × Value)) : Str := ' ' :: (cells.map fun sv => fmtValue sv.1 sv.2).flatten

def rightAligned (sv : Spec × Value) : Bool := (sv.1.align.getD sv.2.defaultAlign) == Align.right

/-- blanks a cell puts before / after its text -/
def leftBlanks (sv : Spec × Value) : Str :=
  if rightAligned sv then blanks (sv.1.width - (sv.2.text sv.1).length) else []
def rightBlanks (sv : Spec × Value) : Str :=
  if rightAligned sv then [] else blanks (sv.1.width - (sv.2.text sv.1).length)

/-- the cells as (blanks before, token) pairs; `carry` are the blanks left over from what came before -/
def toPads : Str → List (Spec × Value) → List (Str × Str) × Str
  | carry, [] => ([], carry)
  | carry, sv :: rest => ((carry ++ leftBlanks sv, sv.2.text sv.1) :: (toPads (rightBlanks sv) rest).1, (toPads (rightBlanks sv) rest).2)

/-- every value text is a token (not empty, no blank inside); every cell but the first is right-aligned and leaves a
blank (so does any cell before a left-aligned one — there is none after the first) -/
def tmsCellsOk : List (Spec × Value) → Bool
  | [] => true
  | sv :: rest => isToken (sv.2.text sv.1) &&
      rest.all (fun x => isToken (x.2.text x.1) && rightAligned x && decide ((x.2.text x.1).length < x.1.width))


/-- the cells of a data line: spec of each column and the value formatted in it (`none`: unknown column, missing value,
or a value the cell cannot format) -/
def tmsCells (cols : List String) (vals : Env) : Option (List (Spec × Value)) :=
  cols.mapM fun c => do
    let sp ← specOf c
    let v ← vals.lookup c
    if v.okFor sp then pure (sp, v) else none

/-- the range of the TIMESERIES/DATA round trip: every epoch's line has its cells and they are `tmsCellsOk` -/
def tmsRowsInRange (cols : List String) (epochs : List Env) : Bool :=
  epochs.all fun env => match tmsCells cols env with
    | some cells => tmsCellsOk cells
    | none => false

/-! ### csv_ -/

/-- the separator class of parsers/csv_.py: `sep="[\;,\,]"` -/
def isCsvSep (c : Char) : Bool := c == ',' || c == ';'

def splitSepAux : Str → Str → List Str
  | [], cur => [cur.reverse]
  | c :: rest, cur => if isCsvSep c then cur.reverse :: splitSepAux rest [] else splitSepAux rest (c :: cur)

/-- cutting a line at every `,` or `;` (always at least one piece) -/
def splitSep (s : Str) : List Str := splitSepAux s []

/-! ### range predicates of the file-level round trips (decidable; evaluated by the driver on every generated case) -/

/-- the positional values of a CRD line -/
def crdVals (e : XyzEntry) : List Value :=
  [.int (e.1 : Nat), .str (upper e.2.1.key), .str (e.2.1.domes.getD []), e.2.2.1, e.2.2.2.1, e.2.2.2.2, .str ['A']]

def crdEntryOk (e : XyzEntry) : Bool :=
  valsOk crdSpec (rowOf "bernese_crd") (crdVals e) && !(upper e.2.1.key).isEmpty

/-- **range of the Bernese CRD round trip**: the header texts give exactly the header lines the parser skips; every
written station has a non-empty code of at most 4 characters, a DOMES number of at most 9, numbers that fit their
cells (`numeric_cell_accepts`: |x| < 10^9 / 10^7 resp. with the sign), a running number below 1000; no text has
outer blanks, a `#` or a line break -/
def crdInRange (texts : List Str) (writeNan : Bool) (sts : List Station) : Bool :=
  (match headerText "bernese_crd" texts with
   | some h => headerOk crdSpec h
   | none => false) &&
  (xyzEntries writeNan sts).all crdEntryOk

/-- the positional values of a VEL line: those of the CRD line and the plate abbreviation -/
def velVals (e : XyzEntry) (plate : Str) : List Value := crdVals e ++ [.str plate]

def velEntryOk (e : XyzEntry) : Bool :=
  match velPlate e.2.1 with
  | some plate => valsOk crdSpec (rowOf "bernese_vel") (velVals e plate) && !(upper e.2.1.key).isEmpty
  | none => false

/-- **range of the Bernese VEL round trip** (the file is read with the library's CRD parser — there is no VEL parser):
as `crdInRange`, with a known tectonic plate (or none) for every written station -/
def velInRange (texts : List Str) (writeNan : Bool) (sts : List Station) : Bool :=
  (match headerText "bernese_vel" texts with
   | some h => headerOk crdSpec h
   | none => false) &&
  (xyzEntries writeNan sts).all velEntryOk

/-- **range of the Bernese CLU round trip**, per station code: at most 4 characters once in upper case, not empty, no
outer blanks, no `#`, no line break -/
def cluKeyOk (k : Str) : Bool :=
  decide ((upper k).length ≤ 4) && Clean (upper k) && (upper k).all (plainFor '#') && !(upper k).isEmpty

def cluInRange (texts : List Str) (keys : List Str) : Bool :=
  (match headerText "bernese_clu" texts with
   | some h => headerOk cluSpec h
   | none => false) && keys.all cluKeyOk

end Midgard.WriterFiles
