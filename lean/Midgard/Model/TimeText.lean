/-
C02 — the six text formats of `midgard.data._time` on `List Char` (Mathlib-free; executed by the
driver, theorems in `Props/C02.lean`, lemmas in `Proofs/TimeText.lean`):

  isot          `%Y-%m-%dT%H:%M:%S.%f`        TimeIsot      (TimeStr._dt2str / _str2dt)
  iso           `%Y-%m-%d %H:%M:%S.%f`        TimeIso
  yday          `%Y:%j:%H:%M:%S.%f`           TimeYearDoy
  date          `%Y-%m-%d`                    TimeDate
  yydddsssss    `%y:%j:` + `str(sec).zfill(5)`   TimeYyDddSssss   (_jd2yds / _yds2jd)
  yyyydddsssss  `%Y:%j:` + `str(sec).zfill(5)`   TimeYyyyDddSssss

`render` is `datetime.strftime` of the pattern as CPython on glibc prints it: `%m %d %H %M %S %y` two
digits, `%j` three, `%f` six, zero padded — and **`%Y` not padded** (glibc prints the year as a plain
number: year 999 gives `999-03-04`, which `strptime`'s `%Y` = `\d\d\d\d` refuses; the round trip of the
four text patterns therefore needs years 1000…9999).

`strptime` is CPython's `_strptime` for these patterns on texts made of digits and the pattern's
separators: each numeric directive takes the digits that are there (at most its maximal width), checks
the minimal width and the value range of its regular expression (`%m` 1–12, `%d` 1–31, `%H` 0–23,
`%M` 0–59, `%S` 0–61, `%j` 1–366, `%f` 1–6 digits scaled to microseconds, `%Y` exactly four digits,
`%y` exactly two), a blank in the pattern matches one or more white-space characters, literals match without regard to
case (`IGNORECASE`), nothing may be left over, and `datetime(...)` then refuses year 0, a day that the month does not have, second 60/61
and a day-of-year that leads beyond year 9999.  (Because every numeric directive of these patterns is
followed by a non-digit literal or the end, "take the digits that are there" is what the regular
expression does.  Not modelled: the blank-padded day `" 5"` that `%d` also accepts.)

`str2dt` is `TimeStr._str2dt`: the text is split at the first `.`; a non-empty fraction goes through
`float("0." + fraction)` and `f"{frac:8.6f}"[2:]` (exact decimal arithmetic here; a fraction that rounds
up to `1.000000` loses its carry exactly as in the code) and the text is parsed with the full pattern,
otherwise with the pattern up to the `.`.

`yds2dt` is `_yds2jd`: `strptime(val[:7], "%y:%j:") + timedelta(seconds=float(val[7:]))`
(`val[:9]`, `%Y` for the four-digit form); `timedelta` rounds half-even to microseconds.
-/
import Midgard.Model.TimeFormat
import Midgard.Core.Decimal

namespace Midgard.TimeFormat
open Midgard.Text
open Midgard.Decimal (natDigits fracDigits digitsVal parseFloat fmtFixed)
open Midgard.TimeArith (JD roundHalfEven)

inductive TextFmt | isot | iso | yday | date | yyddd | yyyyddd
  deriving Repr, DecidableEq

/-! ### rendering (`strftime`) -/

/-- `%02d`-style field of C `strftime`: zero padded to `w`, never cut -/
def zpad (w : Nat) (n : Int) : Str := fracDigits w n.toNat

/-- glibc `%Y`: the year as a plain decimal number, **not** padded to four digits -/
def fmtYear (y : Int) : Str := natDigits y.toNat

/-- `%H:%M:%S` -/
def renderHms (x : Fields) : Str := zpad 2 x.hour ++ ':' :: zpad 2 x.minute ++ ':' :: zpad 2 x.second

/-- `%H:%M:%S.%f` -/
def renderHmsF (x : Fields) : Str := renderHms x ++ '.' :: zpad 6 x.micro

/-- `%Y-%m-%d` -/
def renderYmd (x : Fields) : Str := fmtYear x.year ++ '-' :: zpad 2 x.month ++ '-' :: zpad 2 x.day

/-- `(dt - midnight).seconds` -/
def secOfDay (x : Fields) : Int := (x.hour * 60 + x.minute) * 60 + x.second

/-- `%j` -/
def renderDoy (x : Fields) : Str := zpad 3 (dayOfYear x.year x.month x.day)

/-- `str(delta).zfill(5)` -/
def renderSod (x : Fields) : Str := zfill 5 (natDigits (secOfDay x).toNat)

/-- `TimeStr._dt2str` (`dt.strftime(_dt_fmt)`) and `_jd2yds` -/
def render (f : TextFmt) (dt : DateTime) : Str :=
  let x := fieldsOf dt
  match f with
  | .isot => renderYmd x ++ 'T' :: renderHmsF x
  | .iso => renderYmd x ++ ' ' :: renderHmsF x
  | .yday => fmtYear x.year ++ ':' :: renderDoy x ++ ':' :: renderHmsF x
  | .date => renderYmd x
  | .yyddd => zpad 2 (x.year % 100) ++ ':' :: renderDoy x ++ ':' :: renderSod x
  | .yyyyddd => fmtYear x.year ++ ':' :: renderDoy x ++ ':' :: renderSod x

/-! ### parsing (`strptime`) -/

/-- the leading digits of a text, at most `maxw` of them, and what follows -/
def takeDigits : Nat → Str → Str × Str
  | 0, s => ([], s)
  | _ + 1, [] => ([], [])
  | k + 1, c :: r => if isDigit c then (c :: (takeDigits k r).1, (takeDigits k r).2) else ([], c :: r)

/-- a numeric directive: `minw … maxw` digits, value in `lo … hi` → (value, rest) -/
def numDir (minw maxw lo hi : Nat) (s : Str) : Option (Int × Str) :=
  let p := takeDigits maxw s
  if minw ≤ p.1.length ∧ lo ≤ digitsVal p.1 ∧ digitsVal p.1 ≤ hi then some ((digitsVal p.1 : Int), p.2) else none

/-- a literal character of the pattern (`_strptime` compiles its regular expression with `IGNORECASE`:
`t` matches the `T` of the isot pattern) -/
def litDir (c : Char) : Str → Option Str
  | d :: r => if lowerChar d = lowerChar c then some r else none
  | [] => none

/-- a blank of the pattern: `\s+` -/
def wsDir : Str → Option Str
  | c :: r => if isSpace c then some (r.dropWhile isSpace) else none
  | [] => none

/-- `%f`: one to six digits, scaled to microseconds -/
def fracDir (s : Str) : Option (Int × Str) :=
  let p := takeDigits 6 s
  if p.1.length = 0 then none
  else some ((digitsVal (p.1 ++ List.replicate (6 - p.1.length) '0') : Int), p.2)

/-- `%Y-%m-%d` → (year, month, day, rest) -/
def ymdDir (s : Str) : Option (Int × Int × Int × Str) :=
  (numDir 4 4 0 9999 s).bind fun y =>
  (litDir '-' y.2).bind fun s1 =>
  (numDir 1 2 1 12 s1).bind fun m =>
  (litDir '-' m.2).bind fun s2 =>
  (numDir 1 2 1 31 s2).bind fun d =>
  some (y.1, m.1, d.1, d.2)

/-- `%H:%M:%S` → (hour, minute, second, rest) -/
def hmsDir (s : Str) : Option (Int × Int × Int × Str) :=
  (numDir 1 2 0 23 s).bind fun h =>
  (litDir ':' h.2).bind fun s1 =>
  (numDir 1 2 0 59 s1).bind fun m =>
  (litDir ':' m.2).bind fun s2 =>
  (numDir 1 2 0 61 s2).bind fun sec =>
  some (h.1, m.1, sec.1, sec.2)

/-- optional `.%f` (present in the pattern iff `frac`) → (microseconds, rest) -/
def optFracDir (frac : Bool) (s : Str) : Option (Int × Str) :=
  if frac then (litDir '.' s).bind fracDir else some (0, s)

/-- `datetime(y, m, d, H, M, S, us)` after a successful match: year 1…9999 (four digits: ≤ 9999), the
day exists in that month, no leap second -/
def mkDateTime (y m d h mi sec us : Int) : Option DateTime :=
  if 1 ≤ y ∧ civilFromDays (daysFromCivil y m d) = (y, m, d) ∧ sec ≤ 59 then
    some (ofFields ⟨y, m, d, h, mi, sec, us⟩)
  else none

/-- year and day of year → the day (`date.fromordinal(julian - 1 + date(year, 1, 1).toordinal())`); the
result must still be a date (year ≤ 9999) -/
def mkOrdinal (y doy : Int) : Option Int :=
  let n := daysFromCivil y 1 1 + doy - 1
  if 1 ≤ y ∧ (civilFromDays n).1 ≤ 9999 then some n else none

/-- `%y`: 69…99 ↦ 19yy, 00…68 ↦ 20yy -/
def pivotYear (yy : Int) : Int := if yy ≥ 69 then 1900 + yy else 2000 + yy

/-- `datetime.strptime(s, pattern)` for the four `_dt_fmt` patterns; `frac = false` is the pattern cut
at its `.` (`_dt_fmt.partition(".")[0]`) -/
def strptime (f : TextFmt) (frac : Bool) (s : Str) : Option DateTime :=
  match f with
  | .isot | .iso =>
    (ymdDir s).bind fun a =>
    (if f = .isot then litDir 'T' a.2.2.2 else wsDir a.2.2.2).bind fun s1 =>
    (hmsDir s1).bind fun b =>
    (optFracDir frac b.2.2.2).bind fun u =>
    if u.2.isEmpty then mkDateTime a.1 a.2.1 a.2.2.1 b.1 b.2.1 b.2.2.1 u.1 else none
  | .date =>
    (ymdDir s).bind fun a =>
    if a.2.2.2.isEmpty then mkDateTime a.1 a.2.1 a.2.2.1 0 0 0 0 else none
  | .yday =>
    (numDir 4 4 0 9999 s).bind fun y =>
    (litDir ':' y.2).bind fun s1 =>
    (numDir 1 3 1 366 s1).bind fun j =>
    (litDir ':' j.2).bind fun s2 =>
    (hmsDir s2).bind fun b =>
    (optFracDir frac b.2.2.2).bind fun u =>
    if u.2.isEmpty ∧ b.2.2.1 ≤ 59 then
      (mkOrdinal y.1 j.1).map fun n => n * usPerDay + ((b.1 * 60 + b.2.1) * 60 + b.2.2.1) * usPerSec + u.1
    else none
  | .yyddd | .yyyyddd => none

/-- `TimeStr._str2dt` -/
def str2dt (f : TextFmt) (s : Str) : Option DateTime :=
  let main := s.takeWhile (· ≠ '.')
  let fraction := (s.dropWhile (· ≠ '.')).drop 1
  if fraction.isEmpty then strptime f false main
  else
    match parseFloat ('0' :: '.' :: fraction) with
    | none => none
    | some fr => strptime f true (main ++ '.' :: (fmtFixed fr 8 6).drop 2)

/-- `datetime.strptime(head, "%y:%j:")` / `"%Y:%j:"` → the day -/
def ydHead (four : Bool) (s : Str) : Option Int :=
  (if four then numDir 4 4 0 9999 s else (numDir 2 2 0 99 s).map fun y => (pivotYear y.1, y.2)).bind fun y =>
  (litDir ':' y.2).bind fun s1 =>
  (numDir 1 3 1 366 s1).bind fun j =>
  (litDir ':' j.2).bind fun s2 =>
  if s2.isEmpty then mkOrdinal y.1 j.1 else none

/-- `_yds2jd`: `strptime(val[:n], …) + timedelta(seconds=float(val[n:]))`, `n` = 7 or 9 -/
def yds2dt (four : Bool) (s : Str) : Option DateTime :=
  let n := if four then 9 else 7
  (ydHead four (s.take n)).bind fun day =>
  (parseFloat (s.drop n)).map fun sec => day * usPerDay + roundHalfEven (sec * (usPerSec : Rat))

/-- text → datetime (`_str2dt`, `_yds2jd`) -/
def parse? (f : TextFmt) (s : Str) : Option DateTime :=
  match f with
  | .yyddd => yds2dt false s
  | .yyyyddd => yds2dt true s
  | _ => str2dt f s

/-- what survives `parse? f (render f dt)`: the datetime truncated to the resolution the pattern
prints (microseconds, whole seconds, whole days) -/
def truncTo (f : TextFmt) (dt : DateTime) : DateTime :=
  match f with
  | .isot | .iso | .yday => dt
  | .date => (dt / usPerDay) * usPerDay
  | .yyddd | .yyyyddd => (dt / usPerSec) * usPerSec

/-- `fmt._from_jds` / `fmt._to_jds` of the text formats -/
def textFromJds (f : TextFmt) (j : JD) : Str := render f (dtFromJds j)
def textToJds (f : TextFmt) (s : Str) : Option JD := (parse? f s).map dtToJds

end Midgard.TimeFormat
