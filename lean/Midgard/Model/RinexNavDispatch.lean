/-
Executable model of the dispatching parser `rinex_nav` (`midgard/parsers/rinex_nav.py::get_rinex2_or_rinex3`
on top of `gnss.get_rinex_file_version`) and of the file-name rules by which the RINEX 2.x parsers decide
the GNSS of a file (`Rinex2NavParser._get_system_from_file_extension`,
`Rinex212NavParser._get_system_from_file_extension`, `pathlib.PurePath.suffixes` / `.stem` of Python 3.12).

Everything here is a function of the file name and of the text that is in the file *now*: the statement the
harness checks on histories (same path parsed again after its content was replaced, several paths in one
process) is that `parsers.parse_file("rinex_nav", path)` equals `parseNav name text` at every step.

`none` = the real code raises (`log.fatal` → SystemExit, IndexError, KeyError).
-/
import Midgard.Model.RinexNav

namespace Midgard.RinexNav
open Midgard.Text

/-- `gnss.get_rinex_file_version`: `infile.readline().split()[0]`; `none`: IndexError → `log.fatal` -/
def rinexVersion (text : Str) : Option Str := (Text.split ((splitOn '\n' text).headD [])).head?

inductive NavParser
  | rinex2
  | rinex212
  | rinex3
  deriving DecidableEq, Repr, Inhabited

/-- the plugin (module) name -/
def NavParser.name : NavParser → String
  | .rinex2 => "rinex2_nav"
  | .rinex212 => "rinex212_nav"
  | .rinex3 => "rinex3_nav"

/-- the branch `get_rinex2_or_rinex3` takes for a version text; `none`: `log.fatal("Unknown RINEX format")` -/
def classify (v : Str) : Option NavParser :=
  if v.head? = some '2' then some (if v = "2.12".toList then .rinex212 else .rinex2)
  else if v.head? = some '3' then some .rinex3
  else Option.none

/-- which parser reads a file with this content -/
def dispatch (text : Str) : Option NavParser := (rinexVersion text).bind classify

/-! ### the GNSS of a RINEX 2.x file comes from its name -/

/-- `PurePath.suffixes` (Python 3.12): `[]` if the name ends with a dot, else the dot-separated pieces after
the first one of `name.lstrip('.')`, each with its dot -/
def suffixes (name : Str) : List Str :=
  if name.getLast? = some '.' then []
  else ((splitOn '.' (name.dropWhile (· = '.'))).drop 1).map ('.' :: ·)

/-- `PurePath.stem`: the name up to its last dot, unless that dot is the first or the last character -/
def stem (name : Str) : Str :=
  let after := (name.reverse.takeWhile (· ≠ '.')).length      -- characters after the last dot
  if after = name.length then name                              -- no dot
  else
    let i := name.length - 1 - after                            -- `name.rfind('.')`
    if 0 < i ∧ 0 < after then name.take i else name

/-- `needle in hay` for texts -/
def hasInfix (needle : Str) : Str → Bool
  | [] => needle.isEmpty
  | c :: rest => needle.isPrefixOf (c :: rest) || hasInfix needle rest

def lookupS (t : List (String × String)) (k : String) : Option String := ((t.find? (·.1 = k)).map (·.2))

/-- `Rinex2NavParser._get_system_from_file_extension`: `SYSTEM_FILE_EXTENSION[suffixes[0][-1].lower()]` -/
def systemOfName2 (ext : List (String × String)) (name : Str) : Option String := do
  let s ← (suffixes name).head?
  let c ← s.getLast?
  lookupS ext (asString [lowerChar c])

/-- `Rinex212NavParser._get_system_from_file_extension`: long names (`….rnx`) carry the GNSS as the sixth
character from the end of the name (of the stem for `.gz`), short names in the last letter of the extension -/
def systemOfName212 (ext : List (String × String)) (name : Str) : Option String := do
  let s ← (suffixes name).head?
  let fileName := if (suffixes name).contains ".gz".toList then stem name else name
  if hasInfix ".rnx".toList s then
    if fileName.length < 6 then Option.none
    else some (asString [upperChar (fileName.getD (fileName.length - 6) ' ')])
  else do
    let c ← s.getLast?
    lookupS ext (asString [lowerChar c])

/-! ### text mode -/

/-- Python's universal newlines (`open(…, mode="rt")`): `\r\n` and a lone `\r` end a line like `\n` -/
def unlAux : Bool → Str → Str
  | _, [] => []
  | prevCR, c :: rest =>
    if c = '\r' then '\n' :: unlAux true rest
    else if c = '\n' ∧ prevCR then unlAux false rest
    else c :: unlAux false rest

def universalNewlines (text : Str) : Str := unlAux false text

/-- `parsers.parse_file("rinex_nav", path)` for a file called `name` whose content is `text`: the parser
chosen by the version in the first line, and its columns -/
def parseNav (T3 T2 T212 : Tables) (ext2 ext212 : List (String × String)) (name text : Str) : Option (NavParser × Cols) :=
  match dispatch text with
  | Option.none => Option.none
  | some .rinex3 => (parseV3 T3 text).map fun d => (.rinex3, d)
  | some .rinex2 => (systemOfName2 ext2 name).bind fun s => (parseV2 T2 s text).map fun d => (.rinex2, d)
  | some .rinex212 => (systemOfName212 ext212 name).bind fun s => (parseV2 T212 s text).map fun d => (.rinex212, d)

/-- the parsers on the bytes of a file (ASCII): text mode first -/
def parseV3Text (T : Tables) (bytes : Str) : Option Cols := parseV3 T (universalNewlines bytes)
def parseV2Text (T : Tables) (system : String) (bytes : Str) : Option Cols := parseV2 T system (universalNewlines bytes)
def parseNavText (T3 T2 T212 : Tables) (ext2 ext212 : List (String × String)) (name bytes : Str) : Option (NavParser × Cols) :=
  parseNav T3 T2 T212 ext2 ext212 name (universalNewlines bytes)

end Midgard.RinexNav
