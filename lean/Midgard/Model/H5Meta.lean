/-
C10 — the dataset *with* its meta information and its `vars`: `Dataset.write` / `Dataset.read` as a whole.

`Dataset.meta` (`class Meta(UserDict)`) is written attribute by attribute into the group `__meta__`
(`Meta.write`: `h5_group.attrs[k] = encode_h5attr(v)`), `Dataset.vars` as one attribute of the file
(`encode_h5attr(self.vars)`); the read decodes them (`Meta.read`, `dset.vars.update(decode_h5attr(...))`).
The attribute values go through the codec of `Model/H5Attr.lean`; the fields through `Model/H5Dataset.lean`.
Keys of the meta are attribute names: strings, pairwise different (they are the keys of a dict).
-/
import Midgard.Model.H5Dataset

namespace Midgard.H5
open Midgard.Dataset Midgard.H5Attr

/-- `Dataset.meta`: attribute name ↦ value, in insertion order -/
abbrev MetaDict := List (String × Meta)

/-- a dataset with its meta information and its `vars` (a dict) -/
structure DSM where
  ds : DS
  info : MetaDict := []
  vars : List (Meta × Meta) := []
  deriving Repr, Inhabited

/-- the file with the group `__meta__` and the attribute `vars` -/
structure FileM where
  file : File
  metaAttrs : List (String × Attr) := []
  vars : Attr
  deriving Repr, Inhabited

/-- `Meta.write`: `for k, v in self.items(): h5_group.attrs[k] = encode_h5attr(v)`; `none` = `TypeError`
("Cannot save attribute to file": a bare `None`) -/
def writeMeta : MetaDict → Option (List (String × Attr))
  | [] => some []
  | (k, v) :: r =>
    match encode v with
    | none => none
    | some a =>
      match writeMeta r with
      | none => none
      | some r' => some ((k, a) :: r')

/-- `Meta.read`: `for k, v in h5_group.attrs.items(): self.data[k] = decode_h5attr(v)`; `none` = the decoder raised -/
def readMeta : List (String × Attr) → Option MetaDict
  | [] => some []
  | (k, a) :: r =>
    match decode a with
    | none => none
    | some v =>
      match readMeta r with
      | none => none
      | some r' => some ((k, v) :: r')

/-- `Dataset.write`: the fields, then `self.meta.write(h5_file.create_group("__meta__"))`, then the attributes
`fields`, `num_obs`, `vars`.  `.ok none` = `TypeError` out of `encode_h5attr` -/
def writeDSM (h : Heap) (d : DSM) (lvl : Nat) : M (Option FileM) :=
  match writeDS h d.ds lvl with
  | .error e => .error e
  | .ok file =>
    match writeMeta d.info with
    | none => .ok none
    | some ma =>
      match encode (.dict d.vars) with
      | none => .ok none
      | some va => .ok (some { file := file, metaAttrs := ma, vars := va })

/-- `Dataset.read`: `dset.vars.update(decode_h5attr(attrs["vars"]))`, the fields, `dset.meta.read(h5_file["__meta__"])`;
a text the decoder cannot evaluate, or `vars` that is no dict, is a `ValueError` -/
def readDSM (fa fd : Nat) (fm : FileM) : M (Heap × DSM) :=
  match decode fm.vars with
  | some (.dict kvs) =>
    match readDS fa fd fm.file with
    | .error e => .error e
    | .ok (h', ds) =>
      match readMeta fm.metaAttrs with
      | none => .error .value
      | some m => .ok (h', { ds := ds, info := m, vars := kvs })
  | _ => .error .value

/-- `Dataset.read` of the file written for `d` (the recursion bounds as in `readBack`) -/
def readBackM (h : Heap) (d : DSM) (fm : FileM) : M (Heap × DSM) :=
  readDSM (h.length + 1) (fieldsDepth d.ds.fields + 1) fm

/-- every value of the meta can be saved: no bare `None` (nested `None`s are fine) -/
def metaOK : MetaDict → Bool
  | [] => true
  | (_, v) :: r => (encode v).isSome && metaOK r

end Midgard.H5
