/-
Executable model of `midgard/parsers/sp3.py` (on top of `_parser_chain.py`).

Table driven: header and record column tables and the unit factors are regenerated from the
source (`Generated/Sp3Cols.lean`).  `none` = the real code raises.
-/
import Midgard.Core.Text
import Midgard.Core.Decimal
import Midgard.Core.FixedCol

namespace Midgard.Sp3
open Midgard.Text Midgard.Decimal Midgard.FixedCol

inductive HKind | string | float
  deriving Repr, DecidableEq, Inhabited

/-- one entry of `header_parser.parser_def`: two-character label ↦ fields, `_parse_string`/`_parse_float` -/
structure HeaderDef where
  label : String
  fields : Layout
  kind : HKind
  deriving Repr, DecidableEq, Inhabited

structure Factors where
  km2m : Rat
  us2s : Rat
  mm2m : Rat
  ps2s : Rat
  c : Rat
  deriving Repr, DecidableEq, Inhabited

inductive MVal | str (s : Str) | num (q : Rat)
  deriving Repr, DecidableEq, Inhabited

abbrev Meta := List (String × MVal)

def mset (m : Meta) (k : String) (v : MVal) : Meta :=
  if m.any (·.1 = k) then m.map fun (k', v') => if k' = k then (k', v) else (k', v') else m ++ [(k, v)]

def mget (m : Meta) (k : String) : Option MVal := (m.find? (·.1 = k)).map (·.2)

/-- `_parse_string`: copies the fields; a `%c` line whose file type is `cc` is skipped from there on -/
def parseStringFields (m : Meta) : List (String × Str) → Meta
  | [] => m
  | (k, v) :: rest =>
    if k = "file_type" ∧ v = ['c', 'c'] then m else parseStringFields (mset m k (.str v)) rest

/-- `_parse_float`: `float(v)`; the second `%f` line is skipped (`base_posvel` already known) -/
def parseFloatFields (m : Meta) : List (String × Str) → Option Meta
  | [] => some m
  | (k, v) :: rest =>
    if (mget m "base_posvel").isSome ∧ k = "base_posvel" then some m
    else match parseFloat v with
      | Option.none => Option.none
      | some q => parseFloatFields (mset m k (.num q)) rest

/-- one header line (already rstripped): label = first two characters -/
def headerLine (defs : List HeaderDef) (m : Meta) (line : Str) : Option Meta :=
  match defs.find? (fun d => d.label.toList = line.take 2) with
  | Option.none => some m
  | some d =>
    let vs := sliceAll d.fields line
    match d.kind with
    | .string => some (parseStringFields m vs)
    | .float => parseFloatFields m vs

/-- the epoch of a `*` line: civil fields and the seconds in units of 10⁻⁷ s, i.e. the text
`'{year}-{month:02d}-…T…:{second:010.7f}'` the parser stores -/
structure Epoch where
  year : Int
  month : Int
  day : Int
  hour : Int
  minute : Int
  sec7 : Int
  deriving Repr, DecidableEq, Inhabited

/-- `_parse_date` on the whitespace-split `*` line; `fields` is the parser's field list
(`[None, "year", …]`) -/
def parseDate (fields : List (Option String)) (line : Str) : Option Epoch := do
  let toks := split line
  let vs : List (String × Str) := (fields.zip toks).filterMap fun (f, t) => f.map fun n => (n, t)
  let g := fun (k : String) => (vs.find? (·.1 = k)).map (·.2)
  let y ← (← g "year") |> parseInt?
  let mo ← (← g "month") |> parseInt?
  let d ← (← g "day") |> parseInt?
  let h ← (← g "hour") |> parseInt?
  let mi ← (← g "minute") |> parseInt?
  let s ← (← g "second") |> parseFloat
  pure ⟨y, mo, d, h, mi, roundHalfEven (s * 10000000)⟩

/-- one satellite position record as delivered (`none` inside = NaN) -/
structure Entry where
  epoch : Epoch
  sat : Str
  pos : List (Option Rat)          -- metres
  clk : Option Rat                 -- metres of light travel
  posSigma : List (Option Rat)     -- metres
  clkSigma : Option Rat            -- metres of light travel
  system : Str
  deriving Repr, DecidableEq, Inhabited

/-- `base ** code` for an integral accuracy code -/
def powCode (base code : Rat) : Option Rat :=
  if code.den = 1 then
    (if code.num ≥ 0 then some (base ^ code.num.toNat) else if base = 0 then Option.none else some (1 / base ^ (-code.num).toNat))
  else Option.none

def get (vs : List (String × Str)) (k : String) : Str := ((vs.find? (·.1 = k)).map (·.2)).getD []

/-- the values `_parse_position` computes from the fields of a `P` line:
(satellite, position [m], clock [m], position sigmas [m], clock sigma [m]) -/
def positionCore (F : Factors) (m : Meta) (vs : List (String × Str)) :
    Option (Str × List (Option Rat) × Option Rat × List (Option Rat) × Option Rat) := do
  let version ← match mget m "version" with | some (.str v) => some v | _ => Option.none
  let sat := if version = ['a'] then 'G' :: zfill 2 (get vs "sat") else get vs "sat"
  let basePos ← match mget m "base_posvel" with | some (.num q) => some q | _ => Option.none
  let baseClk ← match mget m "base_clkrate" with | some (.num q) => some q | _ => Option.none
  let pos ← ["pos_x", "pos_y", "pos_z"].mapM fun k =>
    (parseFloat (get vs k)).map fun q => if q = 0 then Option.none else some (q * F.km2m)
  let clkRaw ← parseFloat (get vs "clk_bias")
  let clk := if clkRaw = 999999.999999 then Option.none else some (clkRaw * F.us2s * F.c)
  let sig : String → Rat → Rat → Option (Option Rat) := fun k base unit =>
    if (get vs k).isEmpty then some Option.none
    else (parseFloat (get vs k)).bind fun code => (powCode base code).map fun p => some (p * unit)
  let ps ← ["sig_pos_x", "sig_pos_y", "sig_pos_z"].mapM fun k => sig k basePos F.mm2m
  let cs ← sig "sig_clk_bias" baseClk (F.ps2s * F.c)
  pure (sat, pos, clk, ps, cs)

/-- `_parse_position`: the entry appended for a `P` line of the epoch `e` -/
def parsePosition (F : Factors) (m : Meta) (e : Epoch) (vs : List (String × Str)) : Option Entry :=
  (positionCore F m vs).map fun (sat, pos, clk, ps, cs) => ⟨e, sat, pos, clk, ps, cs, sat.take 1⟩

/-- one line of an epoch block after the `*` line.  `second = true` for the block's second line
(`cache["line_num"] == 2`), where an epoch that is already in `data["time"]` makes the parser drop
that one record. `e?` is the epoch of the block's `*` line. -/
def stepLine (F : Factors) (m : Meta) (recP : Layout) (e? : Option Epoch) (second : Bool)
    (acc : List Entry) (line : Str) : Option (List Entry) :=
  if line.take 1 = ['P'] then
    match e? with
    | Option.none => Option.none                               -- `cache["time"]` KeyError
    | some e =>
      if second ∧ acc.any (·.epoch = e) then some acc
      else (parsePosition F m e (sliceAll recP line)).map fun en => acc ++ [en]
  else some acc                                                -- V, EP, EV, EOF, …, an empty line (label `line[:1]`): ignored

/-- one epoch block (its lines, rstripped, the first one being the `*` line) -/
def parseBlock (F : Factors) (m : Meta) (epochFields : List (Option String)) (recP : Layout)
    (acc : List Entry) (block : List Str) : Option (List Entry) :=
  match block with
  | [] => some acc
  | l1 :: rest =>
    -- a block always starts with the line that made the previous one end, i.e. a `*` line
    match (if l1.take 1 = ['*'] then (parseDate epochFields (strip l1)).map some else some Option.none) with
    | Option.none => Option.none
    | some e? =>
      match rest with
      | [] => some acc
      | l2 :: more => (stepLine F m recP e? true acc l2).bind fun a => more.foldlM (stepLine F m recP e? false) a

/-- split the lines after the header into blocks: a block ends before a line starting with `*` -/
def splitBlocksAux : List Str → List Str → List (List Str)
  | [], cur => if cur.isEmpty then [] else [cur.reverse]
  | l :: rest, cur =>
    let cur' := l :: cur
    match rest with
    | [] => [cur'.reverse]
    | nxt :: _ => if nxt.take 1 = ['*'] then cur'.reverse :: splitBlocksAux rest [] else splitBlocksAux rest cur'

structure Parsed where
  hdr : Meta
  entries : List Entry
  deriving Repr, Inhabited

/-- a whole SP3 file -/
def parseFile (F : Factors) (defs : List HeaderDef) (epochFields : List (Option String)) (recP : Layout)
    (text : Str) : Option Parsed := do
  let lines := splitOn '\n' text
  let lines := match lines.reverse with | [] :: r => r.reverse | _ => lines
  let lines := lines.map rstrip
  match splitBlocksAux lines [] with
  | [] => pure ⟨[], []⟩
  | header :: blocks =>
    let m ← header.foldlM (headerLine defs) []
    let es ← blocks.foldlM (parseBlock F m epochFields recP) []
    pure ⟨m, es⟩

/-! ### calendar / Dataset epoch -/

def daysFromCivil (y m d : Int) : Int :=
  let y' := if m ≤ 2 then y - 1 else y
  let era := (if y' ≥ 0 then y' else y' - 399) / 400
  let yoe := y' - era * 400
  let mp := (m + 9) % 12
  let doy := (153 * mp + 2) / 5 + d - 1
  let doe := yoe * 365 + yoe / 4 - yoe / 100 + doy
  era * 146097 + doe - 719468

/-- seconds since 2000-01-01T00:00:00 (same scale) of the epoch `as_dataset` builds:
whole seconds from the civil fields plus the 7-digit fraction as a fraction of a second -/
def datasetSeconds (e : Epoch) : Rat :=
  let whole : Int := (daysFromCivil e.year e.month e.day - 10957) * 86400 + e.hour * 3600 + e.minute * 60 + e.sec7 / 10000000
  (whole : Rat) + ((e.sec7 % 10000000 : Int) : Rat) / 10000000

/-- the same instant straight from the file's numbers -/
def fileSeconds (e : Epoch) : Rat :=
  (((daysFromCivil e.year e.month e.day - 10957) * 86400 + e.hour * 3600 + e.minute * 60 : Int) : Rat) + (e.sec7 : Rat) / 10000000

end Midgard.Sp3
