/-
C17 — cells of a written line (model of Python's `str.format` / f-string cells as the writers use them).

A written line is a list of cells: literal text, or a replacement field with a format spec
`[align][width][.precision][type]` (`s`, `d`, `f` or none).  `fmtValue` mirrors `format(value, spec)`:

  str   `{v:8}` `{v:<20s}` left by default, `{v:>4}` right, `{v:20.20s}` truncated to the precision,
        never truncated by the width;
  int   `{n:>3}` `{n:16}` `{n:8d}` right by default;
  float `{x:16.5f}` `{x:>10.4f}` — `Decimal.fmtFixedCore` on the exact value of the double (ties to
        even), right by default; `nan` prints as `nan`;
  a value whose formatted text is wider than the width pushes everything after it to the right
  (this is the overflow the property is about).

Mathlib-free; imported by Generated/WriterLayouts.lean, Model/Writers.lean and the driver.
-/
import Midgard.Core.Text
import Midgard.Core.Decimal
import Midgard.Core.FixedCol

namespace Midgard.WriterCells
open Midgard.Text Midgard.Decimal Midgard.FixedCol

inductive Ty | any | str | int | fix
  deriving DecidableEq, Repr

structure Spec where
  align : Option Align
  width : Nat
  prec : Option Nat
  ty : Ty
  deriving DecidableEq, Repr

inductive Cell where
  | lit (text : String)
  | fld (name : String) (spec : Spec)
  /-- a replacement field whose spec the model does not cover (`e`, datetime `%`, nested spec) -/
  | other (name : String)
  deriving DecidableEq, Repr

/-- the column types the matching `np.genfromtxt` parsers declare: `f8`, `U<n>` -/
inductive Dtype where
  | f8
  | u (n : Nat)
  deriving DecidableEq, Repr

/-- the values a writer formats -/
inductive Value where
  | str (s : Str)
  | int (i : Int)
  | num (q : Rat)
  | nan
  /-- the double `-0.0` (prints with its sign; it has no rational of its own) -/
  | negz
  deriving DecidableEq, Repr

/-- text of the value before padding -/
def Value.text (spec : Spec) : Value → Str
  | .str s => match spec.prec with
    | some p => s.take p
    | none => s
  | .int i => fmtInt i
  | .num q => fmtFixedCore q (spec.prec.getD 6)
  | .nan => "nan".toList
  | .negz => '-' :: fmtFixedCore 0 (spec.prec.getD 6)

/-- default alignment: text left, numbers right -/
def Value.defaultAlign : Value → Align
  | .str _ => .left
  | _ => .right

/-- `format(value, spec)` -/
def fmtValue (spec : Spec) (v : Value) : Str :=
  pad (spec.align.getD v.defaultAlign) spec.width (v.text spec)

/-- a value is acceptable for a spec's type (`{:d}` of a str raises, `{:s}` of a number raises) -/
def Value.okFor (spec : Spec) : Value → Bool
  | .str _ => spec.ty = .any || spec.ty = .str
  | .int _ => spec.ty = .any || spec.ty = .int
  | .num _ => spec.ty = .fix
  | .nan => spec.ty = .fix
  | .negz => spec.ty = .fix

/-- the value's text is no wider than its cell -/
def fitsCell (spec : Spec) (v : Value) : Bool := decide ((v.text spec).length ≤ spec.width)

/-- … and leaves at least one blank on the side it is padded on (needed when cells are adjacent
without a separator and the reader splits on whitespace) -/
def fitsCellStrict (spec : Spec) (v : Value) : Bool := decide ((v.text spec).length < spec.width)

/-- render a line: values are consumed in order by the `fld` cells; `none` when a value is missing or
of the wrong type, or the line contains an unmodelled cell -/
def renderCells : List Cell → List Value → Option Str
  | [], _ => some []
  | .lit t :: cs, vs => (renderCells cs vs).map (t.toList ++ ·)
  | .fld _ spec :: cs, v :: vs =>
    if v.okFor spec then (renderCells cs vs).map (fmtValue spec v ++ ·) else none
  | .fld _ _ :: _, [] => none
  | .other _ :: _, _ => none

/-- nominal columns of a line: every cell occupies exactly its width (literals their length) -/
def nominalFrom (pos : Nat) : List Cell → List (String × Nat × Nat)
  | [] => []
  | .lit t :: cs => nominalFrom (pos + t.toList.length) cs
  | .fld n spec :: cs => (n, pos, pos + spec.width) :: nominalFrom (pos + spec.width) cs
  | .other n :: cs => (n, pos, pos) :: nominalFrom pos cs

def nominal (cells : List Cell) : List (String × Nat × Nat) := nominalFrom 0 cells

/-- total nominal width of a line (without the newline of a trailing literal counted specially) -/
def nominalWidth : List Cell → Nat
  | [] => 0
  | .lit t :: cs => t.toList.length + nominalWidth cs
  | .fld _ spec :: cs => spec.width + nominalWidth cs
  | .other _ :: cs => nominalWidth cs

/-- every value fits its cell, pairwise in order -/
def allFit : List Cell → List Value → Bool
  | [], _ => true
  | .lit _ :: cs, vs => allFit cs vs
  | .fld _ spec :: cs, v :: vs => v.okFor spec && fitsCell spec v && allFit cs vs
  | .fld _ _ :: _, [] => false
  | .other _ :: _, _ => false

/-- the formatted (padded) cells of a line, in order -/
def cellTexts : List Cell → List Value → List Str
  | [], _ => []
  | .lit _ :: cs, vs => cellTexts cs vs
  | .fld _ spec :: cs, v :: vs => fmtValue spec v :: cellTexts cs vs
  | .fld _ _ :: _, [] => []
  | .other _ :: cs, vs => [] :: cellTexts cs vs

/-- the unpadded texts of the values of a line, in order -/
def valueTexts : List Cell → List Value → List Str
  | [], _ => []
  | .lit _ :: cs, vs => valueTexts cs vs
  | .fld _ spec :: cs, v :: vs => v.text spec :: valueTexts cs vs
  | .fld _ _ :: _, [] => []
  | .other _ :: cs, vs => [] :: valueTexts cs vs

/-- the replacement fields of a line with the values they format, in order -/
def cellValues : List Cell → List Value → List (Spec × Value)
  | [], _ => []
  | .lit _ :: cs, vs => cellValues cs vs
  | .fld _ spec :: cs, v :: vs => (spec, v) :: cellValues cs vs
  | .fld _ _ :: _, [] => []
  | .other _ :: _, _ => []

/-- the numeric (`f`) cells of a line -/
def fixSpecs (cells : List Cell) : List Spec :=
  cells.filterMap fun c => match c with
    | .fld _ sp => if sp.ty = .fix then some sp else none
    | _ => none

/-- a numeric cell has room for the sign, at least one integer digit, the point and its decimals -/
def Spec.hasRoom (sp : Spec) : Bool :=
  decide (1 + (if sp.prec.getD 6 = 0 then 0 else sp.prec.getD 6 + 1) < sp.width)

/-- no value text has outer blanks -/
def allClean : List Cell → List Value → Bool
  | [], _ => true
  | .lit _ :: cs, vs => allClean cs vs
  | .fld _ spec :: cs, v :: vs => Clean (v.text spec) && allClean cs vs
  | .fld _ _ :: _, [] => true
  | .other _ :: cs, vs => allClean cs vs

/-- the nominal cell intervals as a FixedCol layout -/
def toLayout (cells : List Cell) : Layout := (nominal cells).map fun (n, a, b) => ⟨n, a, b⟩

/-- the layout `np.genfromtxt(delimiter=widths)` cuts -/
def layoutOfWidths (names : List String) (widths : List Nat) : Layout :=
  let rec go (pos : Nat) : List String → List Nat → Layout
    | n :: ns, w :: ws => ⟨n, pos, pos + w⟩ :: go (pos + w) ns ws
    | _, _ => []
  go 0 names widths

/-- every character of the literals of a line that falls inside `[a, b)` is a blank, and no cell
other than `keep` overlaps `[a, b)` — computed on nominal columns -/
def onlyBlanksAround (cells : List Cell) (keep : String) (a b : Nat) : Bool :=
  let rec go (pos : Nat) : List Cell → Bool
    | [] => true
    | .lit t :: cs =>
      let ok := (t.toList.zipIdx.all fun (c, i) => !(a ≤ pos + i && pos + i < b) || c = ' ' || c = '\n')
      ok && go (pos + t.toList.length) cs
    | .fld n spec :: cs =>
      let overlap := decide (pos < b) && decide (a < pos + spec.width) && decide (0 < spec.width)
      (n = keep || !overlap) && go (pos + spec.width) cs
    | .other _ :: _ => false
  go 0 cells

def specOfCell (cells : List Cell) (name : String) : Option Spec :=
  cells.findSome? fun c => match c with
    | .fld n sp => if n = name then some sp else none
    | _ => none

/-- parser field `[a, b)` reads writer cell `name`: it contains the part of the cell a value of at
most `maxLen` characters occupies (right-aligned: the last `maxLen` columns; left-aligned: the first)
and nothing else that is not blank.  The alignment is the cell's own (`<`/`>` in the spec), else
the default of the value kind: `numeric` values right, text left. -/
def fieldReads (cells : List Cell) (name : String) (numeric : Bool) (maxLen : Nat) (a b : Nat) : Bool :=
  match (nominal cells).find? (fun t => t.1 = name), specOfCell cells name with
  | some (_, s, e), some sp =>
    let rightAligned := match sp.align with
      | some .right => true
      | some .left => false
      | none => numeric
    let lo := if rightAligned then e - min maxLen (e - s) else s
    let hi := if rightAligned then e else s + min maxLen (e - s)
    decide (a ≤ lo) && decide (hi ≤ b) && onlyBlanksAround cells name a b
  | _, _ => false

end Midgard.WriterCells
