/-
C02 — the thirteen time formats behind one interface, and the input-shape dispatch of the constructors.

* `Fmt`, `Val`, `fromJdsF`, `toJdsF`, `denote`: `fmt._from_jds(jd1, jd2, scale)` / `fmt._to_jds(value, None, scale)` of every
  registered `TimeFormat` class, selected by the format (`none`: the ValueError of the class — gps formats outside the
  gps scale / before 1980-01-06, a decimal year outside 1…9999, a text the pattern refuses).  The driver answers
  `fromjds` / `tojds` through these two functions, and the theorems `roundtrip_all` / `same_instant` are about them.
* `Shaped`, `applyShape`: scalar / list / ndarray input of a constructor.  Every `_to_jds` / `_from_jds` reaches its
  per-element function through one of three idioms (`Dispatch`, read off the source by `translator/extract_timefmt.py`
  and compared with `toJdsDispatch` / `fromJdsDispatch` in `Props.C02.source_dispatch`):
    broadcast  – NumPy arithmetic on `np.asarray(val)`: element by element by broadcasting, a scalar stays a scalar
    tryIter    – `try: np.array([f(x) for x in val]) except TypeError: f(val)`
    strOrIter  – `if isinstance(val, str): f(val)` else `np.array([f(v) for v in val])`
  all three mean `applyShape f`: a scalar gives `f x`, a sequence gives `f` of every element in order, and an element
  that is refused refuses the whole call.
* `WsIn`, `wsSelect`, `wsToJdsIn`: the branch chain of `TimeGPSWeekSec._to_jds` that finds week and seconds in a `WeekSec`
  tuple, an `(n, 3)` array of stored rows, one stored row `(3,)`, or the two-part `(val, val2)` input.
-/
import Midgard.Model.TimeText

namespace Midgard.TimeFormat
open Midgard.TimeArith (JD Scale)
open Midgard.TimeScale (Row)

inductive Fmt | jd | mjd | datetime | gps_ws | gps_seconds | jyear | decimalyear | text (f : TextFmt)
  deriving Repr, DecidableEq

/-- the value of a format: a number, a datetime (µs since 2000-01-01), (week, seconds, day), a text -/
inductive Val | num (v : Rat) | dt (d : DateTime) | ws (w : WeekSec) | text (s : Midgard.Text.Str)
  deriving Repr, DecidableEq

/-- `fmt._from_jds(jd1, jd2, scale)` -/
def fromJdsF (tbl : List Row) (tol : Rat) (F : Fmt) (s : Scale) (j : JD) : Option Val :=
  match F with
  | .jd => some (.num (jdFromJds j))
  | .mjd => some (.num (mjdFromJds j))
  | .datetime => some (.dt (dtFromJds j))
  | .gps_ws => if s = .gps then (wsFromJds j).map .ws else none
  | .gps_seconds => if s = .gps then (gsFromJds j).map .num else none
  | .jyear => some (.num (jyFromJds j))
  | .decimalyear => some (.num (dyFromJds tbl tol s j))
  | .text f => some (.text (textFromJds f j))

/-- `fmt._to_jds(value, None, scale)` on a value of the kind the format reads (`none`: refused) -/
def toJdsF (tbl : List Row) (tol : Rat) (F : Fmt) (s : Scale) (v : Val) : Option JD :=
  match F, v with
  | .jd, .num x => some (jdToJds x 0)
  | .mjd, .num x => some (mjdToJds x 0)
  | .datetime, .dt d => some (dtToJds d)
  | .gps_ws, .ws w => if s = .gps then some (wsToJds w.week w.seconds) else none
  | .gps_seconds, .num x => if s = .gps then some (gsToJds x) else none
  | .jyear, .num x => some (jyToJds x)
  | .decimalyear, .num x => dyToJdsG tbl tol s x
  | .text f, .text t => textToJds f t
  | _, _ => none

/-- the epoch denoted by the value of format `F` read from the epoch `j`: `Time(t.F, fmt=F)` -/
def denote (tbl : List Row) (tol : Rat) (F : Fmt) (s : Scale) (j : JD) : Option JD :=
  (fromJdsF tbl tol F s j).bind (toJdsF tbl tol F s)

/-! ### scalar / list / ndarray -/

inductive Shaped (α : Type) | scalar (x : α) | list (xs : List α) | ndarray (xs : List α)
  deriving Repr, DecidableEq

/-- what a constructor stores: one `(jd1, jd2)` or arrays of them -/
inductive JdsOut | one (j : JD) | many (js : List JD)
  deriving Repr, DecidableEq

/-- all results, or the refusal of the first element that is refused -/
def allSome {β : Type} : List (Option β) → Option (List β)
  | [] => some []
  | none :: _ => none
  | some x :: r => (allSome r).map (x :: ·)

/-- a constructor on a scalar, a list, an ndarray: the per-element function on the scalar / on every element -/
def applyShape {α : Type} (f : α → Option JD) : Shaped α → Option JdsOut
  | .scalar x => (f x).map .one
  | .list xs => (allSome (xs.map f)).map .many
  | .ndarray xs => (allSome (xs.map f)).map .many

/-- `Time(value(s), fmt=F, scale=s)` for the three input shapes -/
def toJdsShaped (tbl : List Row) (tol : Rat) (F : Fmt) (s : Scale) (v : Shaped Val) : Option JdsOut :=
  applyShape (toJdsF tbl tol F s) v

inductive Dispatch | broadcast | tryIter | strOrIter
  deriving Repr, DecidableEq

/-- the idiom of `_to_jds` per format class -/
def toJdsDispatch : Fmt → Dispatch
  | .jd | .mjd | .gps_ws | .gps_seconds | .jyear => .broadcast
  | .datetime | .decimalyear => .tryIter
  | .text _ => .strOrIter

/-- the idiom of `_from_jds` per format class -/
def fromJdsDispatch : Fmt → Dispatch
  | .jd | .mjd | .gps_ws | .gps_seconds | .jyear => .broadcast
  | .datetime | .decimalyear | .text _ => .tryIter

def Fmt.name : Fmt → String
  | .jd => "jd" | .mjd => "mjd" | .datetime => "datetime" | .gps_ws => "gps_ws" | .gps_seconds => "gps_seconds"
  | .jyear => "jyear" | .decimalyear => "decimalyear" | .text .isot => "isot" | .text .iso => "iso" | .text .yday => "yday"
  | .text .date => "date" | .text .yyddd => "yydddsssss" | .text .yyyyddd => "yyyydddsssss"

def Dispatch.name : Dispatch → String
  | .broadcast => "broadcast" | .tryIter => "tryIter" | .strOrIter => "strOrIter"

def allFmts : List Fmt :=
  [.jd, .mjd, .datetime, .gps_ws, .gps_seconds, .jyear, .decimalyear, .text .yyddd, .text .yyyyddd, .text .isot, .text .iso,
   .text .yday, .text .date]

/-- (format, idiom of `_to_jds`, idiom of `_from_jds`) in registration order — what the translator must read off the source -/
def expectedDispatch : List (String × String × String) :=
  allFmts.map fun F => (F.name, (toJdsDispatch F).name, (fromJdsDispatch F).name)

/-! ### `TimeGPSWeekSec._to_jds`: where week and seconds are found -/

/-- the inputs `Time(..., fmt="gps_ws")` accepts: a `WeekSec` tuple (scalars or arrays), an ndarray without `val2`
(one dimension: `xs`; two dimensions: `rows` of `ncols` columns; `other`: zero or more than two dimensions, not empty),
or the two-part input `(val, val2)` = (weeks, seconds) -/
inductive WsIn
  | weeksec (w : Shaped (Rat × Rat))
  | arr1 (xs : List Rat)
  | arr2 (ncols : Nat) (rows : List (List Rat))
  | other
  | pair (w : Shaped (Rat × Rat))
  deriving Repr

/-- the branch chain (in the order of the source):
`isinstance(val, WeekSec)` → its week/seconds; `val2 is None and val.size == 0` → no epochs;
`val2 is None and val.size > 0`: `ndim == 2 and shape[-1] == 3` → columns 0 and 1 of every row,
`ndim == 1 and shape[-1] == 3` → one epoch `(val[0], val[1])`, anything else → ValueError; otherwise `(val, val2)`. -/
def wsSelect : WsIn → Option (Shaped (Rat × Rat))
  | .weeksec w => some w
  | .arr1 xs =>
    if xs.length = 0 then some (.ndarray [])
    else if xs.length = 3 then some (.scalar (xs.getD 0 0, xs.getD 1 0))
    else none
  | .arr2 ncols rows =>
    if rows.length * ncols = 0 then some (.ndarray [])
    else if ncols = 3 then some (.ndarray (rows.map fun r => (r.getD 0 0, r.getD 1 0)))
    else none
  | .other => none
  | .pair w => some w

/-- `Time(<input>, fmt="gps_ws", scale=s)` -/
def wsToJdsIn (s : Scale) (i : WsIn) : Option JdsOut :=
  if s = .gps then (wsSelect i).bind (applyShape fun p => some (wsToJds p.1 p.2)) else none

/-- the chain as (test, what week and seconds are taken from), nested tests joined by ` && ` — what the translator must
read off `TimeGPSWeekSec._to_jds` -/
def expectedWsChain : List (String × String) :=
  [("isinstance(val, cls.WeekSec)", "week = np.asarray(val.week); sec = np.asarray(val.seconds)"),
   ("val2 is None and val.size == 0", "week = np.array([]); sec = np.array([])"),
   ("val2 is None and val.size > 0 && val.ndim == 2 and val.shape[-1] == cls.ndim", "week = val[:, 0]; sec = val[:, 1]"),
   ("val2 is None and val.size > 0 && val.ndim == 1 and val.shape[-1] == cls.ndim", "week = val[0]; sec = val[1]"),
   ("val2 is None and val.size > 0 && else", "raise"),
   ("else", "week = np.asarray(val); sec = np.asarray(val2)")]

end Midgard.TimeFormat

namespace Midgard.TimeFormat
open Midgard.TimeArith (JD Scale)
open Midgard.TimeScale (Row)

/-! ### The domain on which `Time(v, fmt="decimalyear")` succeeds -/

/-- `datetime.min` / `datetime.max` (µs since 2000-01-01) -/
def dtMin : DateTime := ofFields ⟨1, 1, 1, 0, 0, 0, 0⟩
def dtMax : DateTime := ofFields ⟨9999, 12, 31, 23, 59, 59, 999999⟩

inductive DyOutcome | ok (j : JD) | valueError | overflow
  deriving Repr, DecidableEq

/-- `Time(v, fmt="decimalyear", scale=…)`, with every way it is refused:
* `datetime(year_int, 1, 1)` needs 1 ≤ year_int ≤ 9999 (ValueError);
* in UTC `_year2days` builds the TAI images of the two New Years, and a Time in the datetime format carries its datetime:
  an image before `datetime.min` is an OverflowError (year 1: the extrapolated drift of 1961 puts 0001-01-01 UTC a
  quarter of an hour *before* 0001-01-01 TAI);
* the constructor then reads the value back (`_jd2dy` → `_jd2dt`: `dt2000 + timedelta(days=jd1 - 2451544.5) +
  timedelta(days=jd2)`); `jd1 = int(jd)` is a whole number, so the first sum is noon of the *previous* day — before
  `datetime.min` for the first twelve hours of year 1 — and the result must not round beyond `datetime.max`
  (OverflowError). -/
def dyConstruct (tbl : List Row) (tol : Rat) (scale : Scale) (v : Rat) : DyOutcome :=
  let y := truncRat v
  if ¬ (1 ≤ y ∧ y ≤ 9999) then .valueError
  else if scale = .utc ∧ y ≠ 9999 ∧ dtFromJds (TimeScale.utc2tai tbl tol ⟨yearStartJd1 y, 0⟩) < dtMin then .overflow
  else
    let j := dyToJds tbl tol scale v
    if j.jd1 < 1721426 then .overflow
    else if dtMax < dtFromJds j then .overflow
    else .ok j

/-- the decidable domain of the decimal-year constructor -/
def dyAccepts (tbl : List Row) (tol : Rat) (scale : Scale) (v : Rat) : Bool :=
  match dyConstruct tbl tol scale v with
  | .ok _ => true
  | _ => false

end Midgard.TimeFormat
