/-
C18 — model of `midgard.site_info` history lookup (DESIGN.md §5/C18).

Mirrors, branch by branch,
  * `SiteInfoHistoryBase.get`                       (`_site_info.py`)
  * `*HistorySinex/_Ssc._process_history/_create_history`  (antenna, receiver, eccentricity, site_coord)
  * `IdentifierSinex/_Ssc._process`                 (identifier.py)
  * `ModuleBase.get / get_history`                  (`_site_info.py`)
  * `SiteInfo.get / get_history`                    (`site_info.py`)
for the two file sources `snx` and `ssc` (the `m3g` web-API source is outside the property).

Dates are integer microseconds since `datetime.min`; `datetime.max` is `dmax`.
Text is a list of code points (`List Nat`); only ASCII letters change case and the six ASCII
blanks are stripped (the generators stay inside ASCII; recorded as an assumption).
Python dictionaries are insertion-ordered association lists with `dictSet` as `d[k] = v`.
Every record of the source data carries a numeric `tag` that the harness plants in the real
dictionaries, so "which entry was returned" is observable on both sides.
-/
namespace Midgard.SiteInfo

/-- dates are plain `Int`s (a notation, so that `omega` sees linear integer arithmetic) -/
scoped notation "Date" => Int
/-- `datetime.min` -/
def dmin : Date := 0
/-- `datetime.max` (9999-12-31T23:59:59.999999) in microseconds after `datetime.min` -/
def dmax : Date := 315537897599999999

abbrev Str := List Nat

/-! ### Text: `str.lower`, `str.upper`, `str.strip`, `str.split(",")` on ASCII -/

def lowerC (n : Nat) : Nat := if 65 ≤ n ∧ n ≤ 90 then n + 32 else n
def upperC (n : Nat) : Nat := if 97 ≤ n ∧ n ≤ 122 then n - 32 else n
def lower (s : Str) : Str := s.map lowerC
def upper (s : Str) : Str := s.map upperC

/-- ASCII characters `str.strip()` removes: TAB, LF, VT, FF, CR, FS, GS, RS, US, SPACE -/
def isBlank (n : Nat) : Bool := (9 ≤ n && n ≤ 13) || (28 ≤ n && n ≤ 32)

def lstrip (s : Str) : Str := s.dropWhile isBlank
def rstrip (s : Str) : Str := (s.reverse.dropWhile isBlank).reverse
def strip (s : Str) : Str := rstrip (lstrip s)

/-- `s.split(",")`: always at least one piece -/
def splitComma : Str → List Str
  | [] => [[]]
  | c :: t =>
    match splitComma t with
    | [] => [[c]]            -- unreachable
    | p :: ps => if c = 44 then [] :: p :: ps else (c :: p) :: ps

/-- the `stations` argument: comma separated text or an iterable of names -/
inductive Stations
  | text (s : Str)
  | list (l : List Str)
  deriving Repr, DecidableEq

/-- the normalisation at the top of `ModuleBase.get/get_history` and `SiteInfo.get/get_history` -/
def normStations : Stations → List Str
  | .text s => (splitComma s).map (fun p => lower (strip p))
  | .list l => l.map lower

/-- an iterable of names as Python hands it over: a container whose every `iter()` starts again (list, tuple, set, dict
keys view, numpy array) or a one-shot iterable (generator, `map`/`filter` object, iterator, open file) whose items are
handed out exactly once -/
inductive Iterable
  | reiterable (l : List Str)
  | oneShot (l : List Str)
  deriving Repr, DecidableEq

/-- one pass `[s for s in stations]`: the items, and the iterable as it is afterwards -/
def Iterable.drain : Iterable → List Str × Iterable
  | .reiterable l => (l, .reiterable l)
  | .oneShot l => (l, .oneShot [])

/-- the `stations` argument as the caller gives it (`Union[str, Iterable]`) -/
inductive StationsArg
  | text (s : Str)
  | iter (it : Iterable)
  deriving Repr, DecidableEq

/-- the single pass over the argument at the top of `SiteInfo.get/get_history` and `ModuleBase.get/get_history`
(`[s.lower() for s in stations]` is evaluated once; everything after works on that list) -/
def StationsArg.once : StationsArg → Stations
  | .text s => .text s
  | .iter it => .list it.drain.1

/-! ### Dictionaries -/

/-- `d[k] = v` on an insertion-ordered dict: an existing key keeps its position -/
def dictSet {κ ν} [DecidableEq κ] : List (κ × ν) → κ → ν → List (κ × ν)
  | [], k, v => [(k, v)]
  | (k', v') :: t, k, v => if k' = k then (k', v) :: t else (k', v') :: dictSet t k v

def dictGet? {κ ν} [DecidableEq κ] : List (κ × ν) → κ → Option ν
  | [], _ => none
  | (k', v') :: t, k => if k' = k then some v' else dictGet? t k

def dictHas {κ ν} [DecidableEq κ] (d : List (κ × ν)) (k : κ) : Bool := (dictGet? d k).isSome

/-! ### Histories -/

abbrev Interval := Date × Date

/-- `date_from <= date and (date < date_to or date_to == datetime.max)` (repaired: an end of
`datetime.max` is the open end, so the last representable instant is inside it) -/
def contains (k : Interval) (d : Date) : Bool :=
  decide (k.1 ≤ d) && (decide (d < k.2) || decide (k.2 = dmax))

/-- `self.history` of a history object: dict `(date_from, date_to) → entry` -/
abbrev History (ε : Type) := List (Interval × ε)

/-- the loop of `SiteInfoHistoryBase.get(date)`: first interval (in dict order) containing the date -/
def histGet {ε} : History ε → Date → Option ε
  | [], _ => none
  | (k, e) :: t, d => if contains k d then some e else histGet t d

/-- tuple order of `(date_from, date_to)` -/
def keyLe (a b : Interval) : Bool := decide (a.1 < b.1) || (decide (a.1 = b.1) && decide (a.2 ≤ b.2))

/-- `sorted(self.history.keys())[-1]` with its value (the later of equal keys cannot occur in a dict) -/
def histLast {ε} : History ε → Option (Interval × ε)
  | [] => none
  | (k, e) :: t =>
    match histLast t with
    | none => some (k, e)
    | some (k', e') => if keyLe k' k then some (k, e) else some (k', e')

/-- open-ended start/end: `if self._info["start_time"]: … else: datetime.min` (and `datetime.max`) -/
def openFrom (s : Option Date) : Date := s.getD dmin
def openTo (s : Option Date) : Date := s.getD dmax

/-- one record of a SINEX `SITE/ANTENNA|RECEIVER|ECCENTRICITY` list, of `solution_epochs`, or of an
SSC `pos_vel` dict: start, end (`None` = open) and the planted tag -/
structure Raw where
  start : Option Date
  stop : Option Date
  tag : Nat
  deriving Repr, DecidableEq

def Raw.key (r : Raw) : Interval := (openFrom r.start, openTo r.stop)

/-- `_create_history`: `history[(entry.date_from, entry.date_to)] = entry` for each record in order -/
def createHistory {ρ} (key : ρ → Interval) : List ρ → History ρ → History ρ
  | [], h => h
  | r :: t, h => createHistory key t (dictSet h (key r) r)

/-! ### Source data -/

/-- a `SOLUTION/ESTIMATE` record: soln, parameter name (index into STAX…VELZ), tag -/
structure Est where
  soln : Nat
  pname : Nat
  tag : Nat
  deriving Repr, DecidableEq

/-- a `SOLUTION/EPOCHS` record -/
structure Epoch where
  soln : Nat
  raw : Raw
  deriving Repr, DecidableEq

/-- `source_data[station]` of the `sinex_site` parser: each block may be absent -/
structure SnxStation where
  ant : Option (List Raw)
  rcv : Option (List Raw)
  ecc : Option (List Raw)
  sid : Option Nat
  epochs : Option (List Epoch)
  est : Option (List Est)
  deriving Repr, DecidableEq

/-- `source_data[station]` of the `ssc_site` parser: the station dict (tag) and its `pos_vel` dict
(soln → record, dict order) -/
structure SscStation where
  tag : Nat
  posvel : List (Nat × Raw)
  deriving Repr, DecidableEq

inductive Source
  | snx (d : List (Str × SnxStation))
  | ssc (d : List (Str × SscStation))
  deriving Repr, DecidableEq

def Source.isEmpty : Source → Bool
  | .snx d => d.isEmpty
  | .ssc d => d.isEmpty

inductive Err | missing | key | index
  deriving Repr, DecidableEq

/-- a site-information object as observed: tag of the record it wraps, and for SINEX coordinates the
`param_name → estimate` entries merged into it (dict order) -/
structure Entry where
  tag : Nat
  params : List (Nat × Nat)
  deriving Repr, DecidableEq

def Entry.ofRaw (r : Raw) : Entry := ⟨r.tag, []⟩

inductive Module | antenna | eccentricity | identifier | receiver | siteCoord
  deriving Repr, DecidableEq

/-- `_MODULES` of `site_info.py`, in order -/
def modules : List Module := [.antenna, .eccentricity, .identifier, .receiver, .siteCoord]

/-- the station key the `_process_history` methods use: the lower-case name if it is a key,
else the upper-case name if that is a key -/
def findKey {σ} (d : List (Str × σ)) (station : Str) : Option σ :=
  match dictGet? d station with
  | some v => some v
  | none => dictGet? d (upper station)

/-- history entry with its interval -/
structure HEntry where
  key : Interval
  entry : Entry
  deriving Repr, DecidableEq

/-- `SiteCoordHistorySinex._combine_sinex_block_data` for one epoch record:
`raw.update({estimate["param_name"]: estimate})` for every estimate of the same `soln` -/
def combineParams (soln : Nat) : List Est → List (Nat × Nat) → List (Nat × Nat)
  | [], acc => acc
  | e :: t, acc => combineParams soln t (if e.soln = soln then dictSet acc e.pname e.tag else acc)

structure Combined where
  raw : Raw
  params : List (Nat × Nat)
  deriving Repr, DecidableEq

def Combined.key (c : Combined) : Interval := c.raw.key

def combine (epochs : Option (List Epoch)) (est : List Est) : List Combined :=
  match epochs with
  | none => []
  | some es => es.map (fun e => ⟨e.raw, combineParams e.soln est []⟩)

def histOfRaws (rs : List Raw) : History Entry :=
  (createHistory Raw.key rs []).map (fun (k, r) => (k, Entry.ofRaw r))

def histOfCombined (cs : List Combined) : History Entry :=
  (createHistory Combined.key cs []).map (fun (k, c) => (k, ⟨c.raw.tag, c.params⟩))

/-- `History(station, source_data, source_path).history` for the four history modules:
`none` is Python `None` (the source has no such information), errors are the exceptions raised.
`station` is already lower-case (`self.station = station.lower()`). -/
def historyOf (m : Module) (src : Source) (station : Str) : Except Err (Option (History Entry)) :=
  -- `if source_data: … else: self.history = {}` in `SiteInfoHistoryBase.__init__`
  if src.isEmpty then .ok (some []) else
  match src with
  | .snx d =>
    match findKey d station with
    | none => .error .missing
    | some st =>
      match m with
      | .antenna => match st.ant with | none => .error .missing | some rs => .ok (some (histOfRaws rs))
      | .receiver => match st.rcv with | none => .error .missing | some rs => .ok (some (histOfRaws rs))
      | .eccentricity => match st.ecc with | none => .error .missing | some rs => .ok (some (histOfRaws rs))
      | .siteCoord =>
        match st.est with
        | none => .ok none
        | some est => .ok (some (histOfCombined (combine st.epochs est)))
      | .identifier => .error .key   -- not a history module (never called)
  | .ssc d =>
    match findKey d station with
    | none => .error .missing
    | some st =>
      match m with
      | .siteCoord => .ok (some (histOfRaws (st.posvel.map (·.2))))
      | .identifier => .error .key
      | _ => .ok none

/-- `Identifier*(station, source_data)._info`: the tag of the `site_id` dict (SINEX) or of the copied
station dict (SSC) -/
def identOf (src : Source) (station : Str) : Except Err Nat :=
  match src with
  | .snx d =>
    match findKey d station with
    | none => .error .missing
    | some st => match st.sid with | none => .error .missing | some t => .ok t
  | .ssc d =>
    match findKey d station with
    | none => .error .missing
    | some st => .ok st.tag

/-- the `date` argument -/
inductive DateQ
  | at (d : Date)
  | last
  deriving Repr, DecidableEq

/-- what a query returns for one station -/
inductive Val
  | none                                 -- Python `None`
  | entry (e : Entry)                    -- a site-information object
  | ident (tag : Nat)                    -- an identifier object
  | hist (h : Option (List HEntry))      -- a history object (`history is None` → `none`)
  deriving Repr, DecidableEq

/-- `SiteInfoHistoryBase.get(date)` (repaired: an empty history has no last entry) -/
def historyGet (h : Option (History Entry)) (q : DateQ) : Val :=
  match h with
  | none => .none
  | some h =>
    match q with
    | .last => match histLast h with | none => .none | some (_, e) => .entry e
    | .at d => match histGet h d with | none => .none | some e => .entry e

def histVal (h : Option (History Entry)) : Val :=
  .hist (h.map (fun l => l.map (fun (k, e) => ⟨k, e⟩)))

/-- one station of `ModuleBase.get` -/
def moduleGet1 (m : Module) (src : Source) (station : Str) (date : Option DateQ) : Except Err Val :=
  match m with
  | .identifier => (identOf src station).map Val.ident        -- `date` is ignored
  | _ =>
    match historyOf m src station with
    | .error e => .error e
    | .ok h => match date with | none => .ok (histVal h) | some q => .ok (historyGet h q)

/-- the loop over stations: the first exception aborts; `site_dict[station] = …` -/
def collect (f : Str → Except Err Val) : List Str → List (Str × Val) → Except Err (List (Str × Val))
  | [], acc => .ok acc
  | s :: t, acc => match f s with | .error e => .error e | .ok v => collect f t (dictSet acc s v)

/-- `Module.get(source, source_data, stations, date)` -/
def moduleGet (m : Module) (src : Source) (st : Stations) (date : Option DateQ) :
    Except Err (List (Str × Val)) :=
  collect (fun s => moduleGet1 m src (lower s) date) (normStations st) []

/-- `Module.get_history(source, source_data, stations)`; for `Identifier` the inherited method returns
the identifier object -/
def moduleGetHistory (m : Module) (src : Source) (st : Stations) : Except Err (List (Str × Val)) :=
  moduleGet m src st none

/-- `entry[sta] if sta in entry else None` -/
def pick (entry : List (Str × Val)) (sta : Str) : Val := (dictGet? entry sta).getD .none

/-- the inner loop of `SiteInfo.get` over `_MODULES` for one station: each module is asked with the
single (already normalised) station *as text*, so it is normalised once more -/
def siteModules (src : Source) (sta : Str) (date : Option DateQ) (skipIdent : Bool) :
    List Module → List (Module × Val) → Except Err (List (Module × Val))
  | [], acc => .ok acc
  | m :: t, acc =>
    if skipIdent && m = .identifier then siteModules src sta date skipIdent t acc else
    match moduleGet m src (.text sta) (if m = .identifier then none else date) with
    | .error e => .error e
    | .ok entry => siteModules src sta date skipIdent t (dictSet acc m (pick entry sta))

def siteCollect (f : Str → Except Err (List (Module × Val))) :
    List Str → List (Str × List (Module × Val)) → Except Err (List (Str × List (Module × Val)))
  | [], acc => .ok acc
  | s :: t, acc =>
    -- `site_info.setdefault(sta, {})` then the module loop fills that dict (same keys, same order)
    match f s with
    | .error e => .error e
    | .ok v => siteCollect f t (dictSet acc s v)

/-- `SiteInfo.get(source, source_data, stations, date)` -/
def siteInfoGet (src : Source) (st : Stations) (date : Option DateQ) :
    Except Err (List (Str × List (Module × Val))) :=
  siteCollect (fun s => siteModules src s date false modules []) (normStations st) []

/-- `SiteInfo.get_history(source, source_data, stations)` (skips `Identifier`) -/
def siteInfoGetHistory (src : Source) (st : Stations) :
    Except Err (List (Str × List (Module × Val))) :=
  siteCollect (fun s => siteModules src s none true modules []) (normStations st) []

/-- the public entry points on the argument as given: the iterable is consumed once, by the normalisation; the modules
are then asked station by station with names, never with the caller's iterable -/
def siteInfoGetArg (src : Source) (a : StationsArg) (date : Option DateQ) := siteInfoGet src a.once date
def siteInfoGetHistoryArg (src : Source) (a : StationsArg) := siteInfoGetHistory src a.once
def moduleGetArg (m : Module) (src : Source) (a : StationsArg) (date : Option DateQ) := moduleGet m src a.once date
def moduleGetHistoryArg (m : Module) (src : Source) (a : StationsArg) := moduleGetHistory m src a.once

/-! ### The unrepaired SSC coordinate reader, kept to state the defect (Props: `ssc_pop_breaks_second_query`)

`SiteCoordHistorySsc._create_history` used `raw_info.pop("pos_vel")` on the caller's dictionary:
the first query removes the history from the source, the second raises `KeyError`. -/

/-- station dict state: `pos_vel` present or already popped -/
def sscPopQuery (pv : Option (List (Nat × Raw))) (q : DateQ) : Except Err Val × Option (List (Nat × Raw)) :=
  match pv with
  | none => (.error .key, none)
  | some l => (.ok (historyGet (some (histOfRaws (l.map (·.2)))) q), none)

end Midgard.SiteInfo
