/-
C03 — model of `midgard.data._time` arithmetic between `TimeArray` and
`TimeDeltaArray` (exact twin over `Rat`; see DESIGN.md §3 and §5/C03).

An epoch or a duration is the pair of Julian-day parts `(jd1, jd2)` the code
stores on the array; the instant / duration it denotes is their sum.  Every
function below mirrors *which operand parts each result part is built from*
in the corresponding Python method (named in the doc comment).
-/
namespace Midgard.TimeArith

structure JD where
  jd1 : Rat
  jd2 : Rat
  deriving Repr, DecidableEq

/-- the instant (or duration) in days -/
def JD.inst (j : JD) : Rat := j.jd1 + j.jd2

inductive Scale | utc | tai | gps | tt | tcg
  deriving Repr, DecidableEq

/-- duration formats registered on `TimeDeltaFormat` -/
inductive DFmt | jd | days | seconds | timedelta
  deriving Repr, DecidableEq

def day2sec : Rat := 86400
def day2usec : Rat := 86400000000

/-- Python `round()` / `timedelta`'s rounding: nearest integer, ties to even. -/
def roundHalfEven (q : Rat) : Int :=
  let f := q.floor
  let r := q - f
  if r < 1/2 then f
  else if 1/2 < r then f + 1
  else if f % 2 = 0 then f else f + 1

/-- `TimeDeltaJD/_Day/_Sec._to_jds`: `_delta = val - floor(val + val2)`,
`jd1 = val - _delta`, `jd2 = val2 + _delta`. -/
def splitFloor (v v2 : Rat) : JD :=
  let δ := v - ((v + v2).floor : Rat)
  ⟨v - δ, v2 + δ⟩

/-- `fmt._to_jds(val, val2)`.  For `timedelta` the two arguments are integer microsecond
counts (what `timedelta.total_seconds()` is computed from). -/
def DFmt.toJds : DFmt → Rat → Rat → JD
  | .jd, v, v2 => splitFloor v v2
  | .days, v, v2 => splitFloor v v2
  | .seconds, v, v2 => splitFloor (v / day2sec) (v2 / day2sec)
  | .timedelta, v, v2 =>
    let days := (v + v2) / day2usec
    ⟨(days.floor : Rat), days - (days.floor : Rat)⟩

/-- `fmt._from_jds(jd1, jd2)`; for `timedelta` the result is in integer microseconds. -/
def DFmt.fromJds : DFmt → JD → Rat
  | .jd, j => j.jd1 + j.jd2
  | .days, j => j.jd1 + j.jd2
  | .seconds, j => (j.jd1 + j.jd2) * day2sec
  | .timedelta, j => (roundHalfEven ((j.jd1 + j.jd2) * day2usec) : Rat)

/-- `TimeArray.__add__(TimeDeltaArray)` (after the `fix:` commit: both parts are added). -/
def tAddD (t d : JD) : JD := ⟨t.jd1 + d.jd1, t.jd2 + d.jd2⟩

/-- `TimeArray.__sub__(TimeDeltaArray)` (after the `fix:` commit: `jd1` is used). -/
def tSubD (t d : JD) : JD := ⟨t.jd1 - d.jd1, t.jd2 - d.jd2⟩

/-- `TimeArray.__sub__(TimeArray)` → duration -/
def tSubT (t u : JD) : JD := ⟨t.jd1 - u.jd1, t.jd2 - u.jd2⟩

/-- `TimeDeltaArray.__add__(TimeDeltaArray)` -/
def dAddD (d e : JD) : JD := ⟨d.jd1 + e.jd1, d.jd2 + e.jd2⟩

/-- `TimeDeltaArray.__sub__(TimeDeltaArray)` -/
def dSubD (d e : JD) : JD := ⟨d.jd1 - e.jd1, d.jd2 - e.jd2⟩

/-- `TimeDeltaArray.__add__(TimeArray)` → epoch -/
def dAddT (d t : JD) : JD := ⟨d.jd1 + t.jd1, d.jd2 + t.jd2⟩

/-- unary minus of a duration as the library offers it: `TimeDelta(-value)` in the same format -/
def dNeg (f : DFmt) (v v2 : Rat) : JD := f.toJds (-v) (-v2)

/-- Operand kinds for the scale guard -/
inductive Kind | time | delta deriving Repr, DecidableEq

inductive Op | add | sub deriving Repr, DecidableEq

/-- Result of a binary operator: `NotImplemented` (Python then raises `TypeError`) or a value
of the given kind. -/
inductive Res
  | notImplemented
  | ok (k : Kind) (j : JD)
  deriving Repr, DecidableEq

/-- The dispatch of `__add__`/`__sub__` on both classes, including the scale guard that comes
first in each of the four methods. -/
def binop (op : Op) (ka : Kind) (sa : Scale) (a : JD) (kb : Kind) (sb : Scale) (b : JD) : Res :=
  if sa ≠ sb then .notImplemented else
  match op, ka, kb with
  | .add, .time, .delta => .ok .time (tAddD a b)
  | .add, .time, .time => .notImplemented
  | .sub, .time, .delta => .ok .time (tSubD a b)
  | .sub, .time, .time => .ok .delta (tSubT a b)
  | .add, .delta, .delta => .ok .delta (dAddD a b)
  | .add, .delta, .time => .ok .time (dAddT a b)
  | .sub, .delta, .time => .notImplemented
  | .sub, .delta, .delta => .ok .delta (dSubD a b)

end Midgard.TimeArith
