/-
C06 — object-level and array-level model of the local-frame properties of `midgard/data/_position.py`
(`PositionArray.enu2trs … zenith_distance`, `PosVelArray.trs2acr/acr2trs`) and of the six `delta_*` conversions of
`midgard/math/transformation.py`, on top of the `(cos, sin)` kernels of `Model/Rotation.lean`.

`PosObj` is what these functions read from a position object: its Cartesian coordinates, its velocity (PosVel only),
and the geodetic latitude / longitude *of that object on its own ellipsoid* (`obj.pos.llh`, property C05).  The point of
the object level is to say *whose* frame is used: the observer's (never the target's) for azimuth / elevation, the
frame of `ref_pos` of the row for a delta.  The array level is NumPy's broadcasting over the leading axis: row `i` of
the result is the conversion of row `i` of the values in the frame of row `i` of the reference positions
(`zipWith`) — no row ever sees the frame of another row.

No Mathlib import (the driver links this file).
-/
import Midgard.Model.Rotation

namespace Midgard.Geo

/-- what the frame properties read from one position (one row of a position array) -/
structure PosObj (α : Type) where
  /-- `obj.trs.val` (for a PosVel `obj.trs.pos.val`) -/
  trs : V3 α
  /-- `obj.trs.vel.val` (PosVel only) -/
  vel : V3 α
  /-- geodetic latitude of the object on its own ellipsoid: `obj.pos.llh.val.T[0]` -/
  lat : α
  /-- longitude: `obj.pos.llh.val.T[1]` -/
  lon : α

section
variable {α : Type} [Add α] [Sub α] [Mul α] [Div α] [Neg α] [Zero α] [One α] [Trig α]

namespace PosObj

/-- `PositionArray.enu2trs`: `rotation.enu2trs(lat, lon)` at the object's own geodetic coordinates -/
def enu2trs (o : PosObj α) : M3 α := Geo.enu2trs o.lat o.lon
/-- `PositionArray.trs2enu` -/
def trs2enu (o : PosObj α) : M3 α := Geo.trs2enu o.lat o.lon
/-- `PositionArray.enu_east` -/
def east (o : PosObj α) : V3 α := enuEastCS (Trig.cos o.lat) (Trig.sin o.lat) (Trig.cos o.lon) (Trig.sin o.lon)
/-- `PositionArray.enu_north` -/
def north (o : PosObj α) : V3 α := enuNorthCS (Trig.cos o.lat) (Trig.sin o.lat) (Trig.cos o.lon) (Trig.sin o.lon)
/-- `PositionArray.enu_up` -/
def up (o : PosObj α) : V3 α := enuUpCS (Trig.cos o.lat) (Trig.sin o.lat) (Trig.cos o.lon) (Trig.sin o.lon)

/-- `PositionArray.vector_to` in TRS: target minus observer -/
def vectorTo (self other : PosObj α) : V3 α := V3.sub other.trs self.trs
/-- `PositionArray.distance_to` -/
def distanceTo (self other : PosObj α) : α := (vectorTo self other).norm
/-- `PositionArray.direction_to` -/
def direction (self other : PosObj α) : V3 α := directionTo self.trs other.trs

/-- `PositionArray.azimuth_to(other)` / `.azimuth`: the direction to the target in the frame **of the observer** -/
def azimuthTo (self other : PosObj α) : α :=
  azimuthCS (Trig.cos self.lat) (Trig.sin self.lat) (Trig.cos self.lon) (Trig.sin self.lon) (direction self other)
/-- `PositionArray.elevation_to(other)` / `.elevation` -/
def elevationTo (self other : PosObj α) : α :=
  elevationCS (Trig.cos self.lat) (Trig.sin self.lat) (Trig.cos self.lon) (Trig.sin self.lon) (direction self other)
/-- `PositionArray.zenith_distance_to(other)` / `.zenith_distance` -/
def zenithDistanceTo (self other : PosObj α) : α :=
  zenithDistanceCS (Trig.cos self.lat) (Trig.sin self.lat) (Trig.cos self.lon) (Trig.sin self.lon) (direction self other)

/-- `PosVelArray.trs2acr` -/
def trs2acr (o : PosObj α) : M3 α := Geo.trs2acr o.trs o.vel
/-- `PosVelArray.acr2trs` -/
def acr2trs (o : PosObj α) : M3 α := Geo.acr2trs o.trs o.vel

end PosObj

/-! ### one row of a delta in the frame of its own reference position -/

/-- `delta_trs2enu`, one row -/
def deltaTrs2Enu (ref : PosObj α) (d : V3 α) : V3 α :=
  deltaTrs2EnuCS (Trig.cos ref.lat) (Trig.sin ref.lat) (Trig.cos ref.lon) (Trig.sin ref.lon) d
/-- `delta_enu2trs`, one row -/
def deltaEnu2Trs (ref : PosObj α) (d : V3 α) : V3 α :=
  deltaEnu2TrsCS (Trig.cos ref.lat) (Trig.sin ref.lat) (Trig.cos ref.lon) (Trig.sin ref.lon) d
/-- `delta_trs2enu_posvel`, one row -/
def deltaTrs2EnuPosVel (ref : PosObj α) (w : V6 α) : V6 α :=
  deltaTrs2EnuPosVelCS (Trig.cos ref.lat) (Trig.sin ref.lat) (Trig.cos ref.lon) (Trig.sin ref.lon) w
/-- `delta_enu2trs_posvel`, one row -/
def deltaEnu2TrsPosVel (ref : PosObj α) (w : V6 α) : V6 α :=
  deltaEnu2TrsPosVelCS (Trig.cos ref.lat) (Trig.sin ref.lat) (Trig.cos ref.lon) (Trig.sin ref.lon) w
/-- `delta_trs2acr_posvel`, one row -/
def deltaTrs2Acr (ref : PosObj α) (w : V6 α) : V6 α := deltaTrs2AcrPosVel ref.trs ref.vel w
/-- `delta_acr2trs_posvel`, one row -/
def deltaAcr2Trs (ref : PosObj α) (w : V6 α) : V6 α := deltaAcr2TrsPosVel ref.trs ref.vel w

/-! ### arrays: NumPy broadcasting over the leading axis

`refs` are the rows of `delta.ref_pos`, `ds` the rows of the delta: `(n, 3, 3) @ (n, 3, 1)` multiplies matrix `i`
with vector `i`. -/

/-- a conversion applied to an array of deltas, each row in the frame of its own row of `ref_pos` -/
def rowsWith {β : Type} (f : PosObj α → β → β) (refs : List (PosObj α)) (ds : List β) : List β :=
  List.zipWith f refs ds

/-- `PositionDelta(…, "trs", ref_pos=refs).enu` for `(n, 3)` arrays -/
def rowsTrs2Enu (refs : List (PosObj α)) (ds : List (V3 α)) : List (V3 α) := rowsWith deltaTrs2Enu refs ds
/-- `PositionDelta(…, "enu", ref_pos=refs).trs` -/
def rowsEnu2Trs (refs : List (PosObj α)) (ds : List (V3 α)) : List (V3 α) := rowsWith deltaEnu2Trs refs ds
/-- `PosVelDelta(…, "trs", ref_pos=refs).enu` for `(n, 6)` arrays -/
def rowsTrs2EnuPosVel (refs : List (PosObj α)) (ws : List (V6 α)) : List (V6 α) := rowsWith deltaTrs2EnuPosVel refs ws
/-- `PosVelDelta(…, "enu", ref_pos=refs).trs` -/
def rowsEnu2TrsPosVel (refs : List (PosObj α)) (ws : List (V6 α)) : List (V6 α) := rowsWith deltaEnu2TrsPosVel refs ws
/-- `PosVelDelta(…, "trs", ref_pos=refs).acr` -/
def rowsTrs2Acr (refs : List (PosObj α)) (ws : List (V6 α)) : List (V6 α) := rowsWith deltaTrs2Acr refs ws
/-- `PosVelDelta(…, "acr", ref_pos=refs).trs` -/
def rowsAcr2Trs (refs : List (PosObj α)) (ws : List (V6 α)) : List (V6 α) := rowsWith deltaAcr2Trs refs ws

/-- `observers.azimuth` / `.elevation` / `.zenith_distance` for `(n, 3)` observers with `(n, 3)` targets: row `i` of the
observers with row `i` of the targets -/
def rowsAzElZd (obs tgt : List (PosObj α)) : List (α × α × α) :=
  List.zipWith (fun o t => (o.azimuthTo t, o.elevationTo t, o.zenithDistanceTo t)) obs tgt

/-- rows `idx` of an array (`array[[i, j, …]]`, a slice or a mask written as its row numbers); a row number outside
the array selects nothing (NumPy raises) -/
def takeRows {β : Type} (xs : List β) (idx : List Nat) : List β := idx.filterMap (fun i => xs[i]?)

end

end Midgard.Geo
