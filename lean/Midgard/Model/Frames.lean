/-
C06 — object-level and array-level model of the local-frame properties of `midgard/data/_position.py`
(`PositionArray.enu2trs … zenith_distance`, `PosVelArray.trs2acr/acr2trs`) and of the six `delta_*` conversions of
`midgard/math/transformation.py`, on top of the `(cos, sin)` kernels of `Model/Rotation.lean`.

`PosObj` is what these functions read from a position object: its Cartesian coordinates, its velocity (PosVel only),
and the geodetic latitude / longitude *of that object on its own ellipsoid* (`obj.pos.llh`, property C05).  The point of
the object level is to say *whose* frame is used: the observer's (never the target's) for azimuth / elevation, the
frame of `ref_pos` of the row for a delta.  The array level is NumPy's broadcasting over the leading axis: row `i` of
the result is the conversion of row `i` of the values in the frame of row `i` of the reference positions
(`zipWith`) — no row ever sees the frame of another row.

No Mathlib import (the driver links this file).
-/
import Midgard.Model.Rotation

namespace Midgard.Geo

/-- what the frame properties read from one position (one row of a position array) -/
structure PosObj (α : Type) where
  /-- `obj.trs.val` (for a PosVel `obj.trs.pos.val`) -/
  trs : V3 α
  /-- `obj.trs.vel.val` (PosVel only) -/
  vel : V3 α
  /-- geodetic latitude of the object on its own ellipsoid: `obj.pos.llh.val.T[0]` -/
  lat : α
  /-- longitude: `obj.pos.llh.val.T[1]` -/
  lon : α
  /-- height above the object's own ellipsoid: `obj.pos.llh.val.T[2]` (only read by `vector` / `distance` /
  `direction` of an observer given in llh) -/
  h : α

section
variable {α : Type} [Add α] [Sub α] [Mul α] [Div α] [Neg α] [Zero α] [One α] [Trig α]

namespace PosObj

/-- `PositionArray.enu2trs`: `rotation.enu2trs(lat, lon)` at the object's own geodetic coordinates -/
def enu2trs (o : PosObj α) : M3 α := Geo.enu2trs o.lat o.lon
/-- `PositionArray.trs2enu` -/
def trs2enu (o : PosObj α) : M3 α := Geo.trs2enu o.lat o.lon
/-- `PositionArray.enu_east` -/
def east (o : PosObj α) : V3 α := enuEastCS (Trig.cos o.lat) (Trig.sin o.lat) (Trig.cos o.lon) (Trig.sin o.lon)
/-- `PositionArray.enu_north` -/
def north (o : PosObj α) : V3 α := enuNorthCS (Trig.cos o.lat) (Trig.sin o.lat) (Trig.cos o.lon) (Trig.sin o.lon)
/-- `PositionArray.enu_up` -/
def up (o : PosObj α) : V3 α := enuUpCS (Trig.cos o.lat) (Trig.sin o.lat) (Trig.cos o.lon) (Trig.sin o.lon)

/-- `PositionArray.vector_to` in TRS: target minus observer -/
def vectorTo (self other : PosObj α) : V3 α := V3.sub other.trs self.trs
/-- `PositionArray.distance_to` -/
def distanceTo (self other : PosObj α) : α := (vectorTo self other).norm
/-- `PositionArray.direction_to` -/
def direction (self other : PosObj α) : V3 α := directionTo self.trs other.trs

/-- `obj.llh.val`: the coordinates of the object in the llh system -/
def llhVal (o : PosObj α) : V3 α := ⟨o.lat, o.lon, o.h⟩
/-- `PositionArray.vector_to` / `.vector` of an observer given **in llh**: the code subtracts the coordinates in the
observer's own system, `other.pos.to_system(self.system).val - self.pos.val` — here (Δlat, Δlon, Δh), each object's
geodetic coordinates on its own ellipsoid -/
def vectorToLlh (self other : PosObj α) : V3 α := V3.sub other.llhVal self.llhVal
/-- `PositionArray.distance_to` / `.distance` of an observer given in llh: the Euclidean norm of (Δlat, Δlon, Δh) — what
the code computes, not a distance in space -/
def distanceToLlh (self other : PosObj α) : α := (vectorToLlh self other).norm
/-- `PositionArray.direction_to` / `.direction` of an observer given in llh -/
def directionLlh (self other : PosObj α) : V3 α := (vectorToLlh self other).sdiv (distanceToLlh self other)

/-- `PositionArray.azimuth_to(other)` / `.azimuth`: the direction to the target in the frame **of the observer** -/
def azimuthTo (self other : PosObj α) : α :=
  azimuthCS (Trig.cos self.lat) (Trig.sin self.lat) (Trig.cos self.lon) (Trig.sin self.lon) (direction self other)
/-- `PositionArray.elevation_to(other)` / `.elevation` -/
def elevationTo (self other : PosObj α) : α :=
  elevationCS (Trig.cos self.lat) (Trig.sin self.lat) (Trig.cos self.lon) (Trig.sin self.lon) (direction self other)
/-- `PositionArray.zenith_distance_to(other)` / `.zenith_distance` -/
def zenithDistanceTo (self other : PosObj α) : α :=
  zenithDistanceCS (Trig.cos self.lat) (Trig.sin self.lat) (Trig.cos self.lon) (Trig.sin self.lon) (direction self other)

/-- `PosVelArray.trs2acr` -/
def trs2acr (o : PosObj α) : M3 α := Geo.trs2acr o.trs o.vel
/-- `PosVelArray.acr2trs` -/
def acr2trs (o : PosObj α) : M3 α := Geo.acr2trs o.trs o.vel

end PosObj

/-! ### one row of a delta in the frame of its own reference position -/

/-- `delta_trs2enu`, one row -/
def deltaTrs2Enu (ref : PosObj α) (d : V3 α) : V3 α :=
  deltaTrs2EnuCS (Trig.cos ref.lat) (Trig.sin ref.lat) (Trig.cos ref.lon) (Trig.sin ref.lon) d
/-- `delta_enu2trs`, one row -/
def deltaEnu2Trs (ref : PosObj α) (d : V3 α) : V3 α :=
  deltaEnu2TrsCS (Trig.cos ref.lat) (Trig.sin ref.lat) (Trig.cos ref.lon) (Trig.sin ref.lon) d
/-- `delta_trs2enu_posvel`, one row -/
def deltaTrs2EnuPosVel (ref : PosObj α) (w : V6 α) : V6 α :=
  deltaTrs2EnuPosVelCS (Trig.cos ref.lat) (Trig.sin ref.lat) (Trig.cos ref.lon) (Trig.sin ref.lon) w
/-- `delta_enu2trs_posvel`, one row -/
def deltaEnu2TrsPosVel (ref : PosObj α) (w : V6 α) : V6 α :=
  deltaEnu2TrsPosVelCS (Trig.cos ref.lat) (Trig.sin ref.lat) (Trig.cos ref.lon) (Trig.sin ref.lon) w
/-- `delta_trs2acr_posvel`, one row -/
def deltaTrs2Acr (ref : PosObj α) (w : V6 α) : V6 α := deltaTrs2AcrPosVel ref.trs ref.vel w
/-- `delta_acr2trs_posvel`, one row -/
def deltaAcr2Trs (ref : PosObj α) (w : V6 α) : V6 α := deltaAcr2TrsPosVel ref.trs ref.vel w

/-! ### arrays: NumPy broadcasting over the leading axis

`refs` are the rows of `delta.ref_pos`, `ds` the rows of the delta: `(n, 3, 3) @ (n, 3, 1)` multiplies matrix `i`
with vector `i`. -/

/-- a conversion applied to an array of deltas, each row in the frame of its own row of `ref_pos` -/
def rowsWith {β : Type} (f : PosObj α → β → β) (refs : List (PosObj α)) (ds : List β) : List β :=
  List.zipWith f refs ds

/-- `PositionDelta(…, "trs", ref_pos=refs).enu` for `(n, 3)` arrays -/
def rowsTrs2Enu (refs : List (PosObj α)) (ds : List (V3 α)) : List (V3 α) := rowsWith deltaTrs2Enu refs ds
/-- `PositionDelta(…, "enu", ref_pos=refs).trs` -/
def rowsEnu2Trs (refs : List (PosObj α)) (ds : List (V3 α)) : List (V3 α) := rowsWith deltaEnu2Trs refs ds
/-- `PosVelDelta(…, "trs", ref_pos=refs).enu` for `(n, 6)` arrays -/
def rowsTrs2EnuPosVel (refs : List (PosObj α)) (ws : List (V6 α)) : List (V6 α) := rowsWith deltaTrs2EnuPosVel refs ws
/-- `PosVelDelta(…, "enu", ref_pos=refs).trs` -/
def rowsEnu2TrsPosVel (refs : List (PosObj α)) (ws : List (V6 α)) : List (V6 α) := rowsWith deltaEnu2TrsPosVel refs ws
/-- `PosVelDelta(…, "trs", ref_pos=refs).acr` -/
def rowsTrs2Acr (refs : List (PosObj α)) (ws : List (V6 α)) : List (V6 α) := rowsWith deltaTrs2Acr refs ws
/-- `PosVelDelta(…, "acr", ref_pos=refs).trs` -/
def rowsAcr2Trs (refs : List (PosObj α)) (ws : List (V6 α)) : List (V6 α) := rowsWith deltaAcr2Trs refs ws

/-- `observers.azimuth` / `.elevation` / `.zenith_distance` for `(n, 3)` observers with `(n, 3)` targets: row `i` of the
observers with row `i` of the targets -/
def rowsAzElZd (obs tgt : List (PosObj α)) : List (α × α × α) :=
  List.zipWith (fun o t => (o.azimuthTo t, o.elevationTo t, o.zenithDistanceTo t)) obs tgt

/-! ### the broadcasting the code accepts

`(n, 3, 3) @ (m, 3, 1)` and `(m, 3) - (n, 3)`: NumPy pairs the rows when `n = m`, uses a single row — `(k,)` or `(1, k)` —
for every row of the other operand, and raises `ValueError` otherwise. -/

/-- the pairing of two stacks of rows, or `none` when NumPy refuses the shapes -/
def broadcastRows {β γ : Type} (xs : List β) (ys : List γ) : Option (List β × List γ) :=
  if xs.length = ys.length then some (xs, ys)
  else match xs, ys with
    | [x], _ => some (List.replicate ys.length x, ys)
    | _, [y] => some (xs, List.replicate xs.length y)
    | _, _ => none

/-- a delta conversion with the reference positions broadcast against the values -/
def rowsWithB {β : Type} (f : PosObj α → β → β) (refs : List (PosObj α)) (ds : List β) : Option (List β) :=
  (broadcastRows refs ds).map (fun p => rowsWith f p.1 p.2)

/-- azimuth / elevation / zenith distance with observers broadcast against targets -/
def rowsAzElZdB (obs tgt : List (PosObj α)) : Option (List (α × α × α)) :=
  (broadcastRows obs tgt).map (fun p => rowsAzElZd p.1 p.2)

/-- the angle argument of `rotation.enu2trs` / `trs2enu`: a scalar or an `(n,)` array -/
inductive Angles (α : Type) where
  | scalar (a : α)
  | array (as : List α)

/-- `rotation.enu2trs(lat, lon)` / `rotation.trs2enu(lat, lon)` build the matrix with `np.array([[…], […], […]])` from the
entries: that only works when `lat` and `lon` have the *same* shape — two scalars (one matrix) or two `(n,)` arrays of the
same length (`n` matrices); a scalar with an array, or arrays of different lengths (also `(1,)` with `(n,)`), raise -/
def angleMatrices (m : α → α → M3 α) : Angles α → Angles α → Option (List (M3 α))
  | .scalar a, .scalar b => some [m a b]
  | .array as, .array bs => if as.length = bs.length then some (List.zipWith m as bs) else none
  | _, _ => none

/-- rows `idx` of an array (`array[[i, j, …]]`, a slice or a mask written as its row numbers); a row number outside
the array selects nothing (NumPy raises) -/
def takeRows {β : Type} (xs : List β) (idx : List Nat) : List β := idx.filterMap (fun i => xs[i]?)

end

end Midgard.Geo
