/-
C09 — dataset level operations on top of `Model/Dataset.lean`: adding and deleting fields,
`merge_with` (stable sort), `filter`, `unique`, `difference`, and the step function over a world
of several datasets sharing one heap.
-/
import Midgard.Model.Dataset

namespace Midgard.Dataset

/-! ### Paths -/

abbrev Path := List String

/-- `dset[path]` as a field (`Collection.__getitem__` / `__getattr__` following collections) -/
def findField : List Field → Path → Option Field
  | _, [] => none
  | fs, [n] => getField fs n
  | fs, n :: rest =>
    match getField fs n with
    | some (.coll _ _ _ sub) => findField sub rest
    | _ => none

/-! ### Adding a field (`Dataset.add_<type>`, `_add_field`) -/

/-- the `_unit` a new field ends up with -/
def fieldUnit (k : Kind) (cols : Nat) (u : Option String) : Option (List String) :=
  match k with
  | .float | .sigma => u.map (fun x => List.replicate cols x)
  | .position | .positionDelta => some ["meter", "meter", "meter"]
  | .posvel | .posvelDelta => some ["meter", "meter", "meter", "meter/second", "meter/second", "meter/second"]
  | _ => none

/-- insert `f` under the collection path `cpath`, creating missing collections
(`add_collection`, default write level `operational` = 3, `num_obs` of the dataset); an
existing nested field of that name is kept (`field = container._fields[field_name]`). -/
def addAt (numObs : Nat) (f : Field) : Path → List Field → M (List Field)
  | [], fs =>
    match getField fs f.name with
    | some _ => .ok fs
    | none => .ok (fs ++ [f])
  | c :: rest, fs =>
    match getField fs c with
    | none =>
      match addAt numObs f rest [] with
      | .error e => .error e
      | .ok sub => .ok (fs ++ [.coll c numObs 3 sub])
    | some (.coll _ no l sub) =>
      match addAt numObs f rest sub with
      | .error e => .error e
      | .ok sub' => .ok (setField fs (.coll c no l sub'))
    | some (.leaf ..) => .error .attribute

/-- `dset.add_<kind>(".".join(path), val=<object o>, unit=u, write_level=level)` -/
def dsAdd (h : Heap) (d : DS) (path : Path) (k : Kind) (o : Nat) (u : Option String) (level : Nat) : M DS :=
  match path.reverse with
  | [] => .error .unsupported
  | nm :: revColl =>
    let cpath := revColl.reverse
    if cpath.isEmpty && (getField d.fields nm).isSome then .error .fieldExists else
    -- an existing nested field is silently kept, before any validation of the new value
    if !cpath.isEmpty && (findField d.fields path).isSome then .ok d else
    match h[o]? with
    | none => .error .dangling
    | some ob =>
      if ob.kind != k then .error .unsupported
      else if ob.rows.length != d.numObs then .error .value
      else
        match addAt d.numObs (.leaf nm k o d.numObs (fieldUnit k ob.cols u) level) cpath d.fields with
        | .error e => .error e
        | .ok fs => .ok { d with fields := fs }

/-- `dset.add_collection(".".join(path), write_level=level)`: an empty collection field -/
def dsAddColl (d : DS) (path : Path) (level : Nat) : M DS :=
  match path.reverse with
  | [] => .error .unsupported
  | nm :: revColl =>
    let cpath := revColl.reverse
    if cpath.isEmpty && (getField d.fields nm).isSome then .error .fieldExists else
    if !cpath.isEmpty && (findField d.fields path).isSome then .ok d else
    match addAt d.numObs (.coll nm d.numObs level []) cpath d.fields with
    | .error e => .error e
    | .ok fs => .ok { d with fields := fs }

/-! ### Deleting a field (`del dset[path]`) -/

def dsDel (d : DS) (path : Path) : M DS :=
  match path with
  | [n] => if (getField d.fields n).isSome then .ok { d with fields := delField d.fields n } else .error .attribute
  | [c, n] =>
    match getField d.fields c with
    | some (.coll _ no l sub) =>
      if (getField sub n).isSome then .ok { d with fields := setField d.fields (.coll c no l (delField sub n)) }
      else .error .attribute
    | _ => .error .attribute
  | _ => .error .attribute    -- `delattr(collection, "h.i")`: no such attribute

/-! ### Sort keys -/

/-- total preorder of `np.argsort` on one column: numbers by value with NaN last, text by code
points, booleans False < True (columns are homogeneous; mixed constructors are ordered
arbitrarily but totally) -/
def Scalar.rank : Scalar → Nat
  | .bool _ => 0
  | .num _ => 1
  | .txt _ => 2
  | .nan => 3

def Scalar.le (a b : Scalar) : Bool :=
  match a, b with
  | .num x, .num y => decide (x ≤ y)
  | .txt x, .txt y => decide (x ≤ y)
  | .bool x, .bool y => !x || y
  | x, y => x.rank ≤ y.rank

/-- insertion into a list sorted by key, *after* all elements with a key ≤ the new one -/
def insertStable (key : Nat → Scalar) (i : Nat) : List Nat → List Nat
  | [] => [i]
  | j :: js => if (key j).le (key i) then j :: insertStable key i js else i :: j :: js

/-- `np.argsort(keys, kind="stable")`: stable insertion sort of the row numbers -/
def argsortStable (keys : List Scalar) : List Nat :=
  let key := fun i => keys.getD i .nan
  (List.range keys.length).foldl (fun acc i => insertStable key i acc) []

/-- the 1-D key column of a field (`np.asarray(getattr(self, sort_by))`): first component of
each row (for a time the value in its own format is monotone in `jd1 + jd2`; the harness sorts
on exactly representable epochs, see there) -/
def keyColumn (h : Heap) (f : Field) : M (List Scalar) :=
  match f with
  | .coll .. => .error .unsupported
  | .leaf _ k o _ _ _ =>
    match h[o]? with
    | none => .error .dangling
    | some ob =>
      if ob.ndim != 1 then .error .unsupported
      else if k == .time || k == .timeDelta then
        -- an empty epoch is `datetime.min`, earlier than every real epoch
        .ok (ob.rows.map (fun r => match r with
          | [.num a, .num b] => .num (a + b)
          | _ => .num 0))
      else .ok (ob.rows.map (fun r => r.headD .nan))

/-- the sorting half of `Dataset.merge_with(sort_by=…)` (after the `fix:`: `kind="stable"`):
every field is subset by the sort index under one memo; `num_obs` is left alone. -/
def dsSort (h : Heap) (d : DS) (sortBy : Path) : M (Heap × DS) :=
  match findField d.fields sortBy with
  | none => .error .attribute
  | some f =>
    match keyColumn h f with
    | .error e => .error e
    | .ok keys =>
      let idx := Index.ints ((argsortStable keys).map Int.ofNat)
      match subsetField.subsetFields idx d.fields { heap := h } with
      | .error e => .error e
      | .ok (fs, s) => .ok (s.heap, { d with fields := fs })

/-! ### `filter` and `unique` -/

/-- `np.asarray(self[field]) == value` for a 1-D field -/
def filterMask (h : Heap) (d : DS) (path : Path) (v : Scalar) : M (List Bool) :=
  match findField d.fields path with
  | none => .error .attribute
  | some f =>
    match keyColumn h f with
    | .error e => .error e
    | .ok col => .ok (col.map (fun x => x == v && x != .nan))

/-- `Dataset.filter(**filters)`: conjunction over the filters, starting from all-true -/
def dsFilter (h : Heap) (d : DS) : List (Path × Scalar) → M (List Bool)
  | [] => .ok (List.replicate d.numObs true)
  | (p, v) :: rest =>
    match dsFilter h d rest, filterMask h d p v with
    | .ok m, .ok m2 => if m.length = m2.length then .ok (List.zipWith (· && ·) m m2) else .error .value
    | .error e, _ => .error e
    | _, .error e => .error e

def dedupSorted : List Scalar → List Scalar
  | a :: b :: rest => if a == b then dedupSorted (b :: rest) else a :: dedupSorted (b :: rest)
  | l => l

/-- `Dataset.unique(field)` (sorted, no filters) of a 1-D field without NaN -/
def dsUnique (h : Heap) (d : DS) (path : Path) : M (List Scalar) :=
  match findField d.fields path with
  | none => .error .attribute
  | some f =>
    match keyColumn h f with
    | .error e => .error e
    | .ok col => .ok (dedupSorted ((argsortStable col).map (fun i => col.getD i .nan)))

/-! ### The world and its step function -/

inductive Ref
  | tab (k : Nat)                 -- the k-th object created by an `obj` operation
  | fld (d : Nat) (p : Path)      -- the data object of a field as it is now
  deriving Repr, Inhabited

inductive Op
  | new (d n : Nat)
  | obj (kind : Kind) (ndim cols : Nat) (rows : List Row) (other refPos : Option Ref)
  | add (d : Nat) (path : Path) (kind : Kind) (val : Ref) (unit : Option String) (level : Nat)
  | addColl (d : Nat) (path : Path) (level : Nat)
  | del (d : Nat) (path : Path)
  | subset (d : Nat) (idx : Index)
  | extend (d e : Nat)
  | merge (d : Nat) (es : List Nat) (sortBy : Option Path)
  | filterSubset (d : Nat) (filters : List (Path × Scalar))
  | unique (d : Nat) (path : Path)
  deriving Repr, Inhabited

structure W where
  heap : Heap := []
  ds : List (Option DS) := []
  tab : List Nat := []
  units : Units := []
  deriving Repr, Inhabited

def W.getDs (w : W) (d : Nat) : M DS := match w.ds[d]? with
  | some (some x) => .ok x
  | _ => .error .unsupported

def W.setDs (w : W) (d : Nat) (x : DS) : W :=
  let l := if w.ds.length ≤ d then w.ds ++ List.replicate (d + 1 - w.ds.length) none else w.ds
  { w with ds := l.set d (some x) }

def W.resolve (w : W) : Ref → M Nat
  | .tab k => match w.tab[k]? with
    | some o => .ok o
    | none => .error .unsupported
  | .fld d p =>
    match w.getDs d with
    | .error e => .error e
    | .ok x => match findField x.fields p with
      | some (.leaf _ _ o _ _ _) => .ok o
      | _ => .error .unsupported

def W.resolveOpt (w : W) : Option Ref → M (Option Nat)
  | none => .ok none
  | some r => match w.resolve r with
    | .ok o => .ok (some o)
    | .error e => .error e

/-- what an operation answers besides the new world -/
inductive Out
  | none
  | mask (m : List Bool)
  | vals (v : List Scalar)
  deriving Repr, Inhabited

/-- `for dset in dsets: self.extend(dset)`; `di` is the slot of `self` (a dataset may be merged
with itself, and then it is the current, already extended one) -/
def mergeLoop (us : Units) (h : Heap) (d : DS) (w : W) (di : Nat) : List Nat → M (Heap × DS)
  | [] => .ok (h, d)
  | e :: es =>
    match (if e == di then .ok d else w.getDs e) with
    | .error err => .error err
    | .ok x =>
      match dsExtend us h d x with
      | .error err => .error err
      | .ok (h', d') => mergeLoop us h' d' w di es

def step (w : W) (op : Op) : M (W × Out) :=
  match op with
  | .new d n => .ok (w.setDs d { numObs := n, fields := [] }, .none)
  | .obj k ndim cols rows other refPos =>
    match w.resolveOpt other, w.resolveOpt refPos with
    | .ok o, .ok r =>
      .ok ({ w with heap := w.heap ++ [{ kind := k, ndim := ndim, cols := cols, rows := rows, other := o, refPos := r }],
                    tab := w.tab ++ [w.heap.length] }, .none)
    | .error e, _ => .error e
    | _, .error e => .error e
  | .add d path k val u l =>
    match w.getDs d, w.resolve val with
    | .ok x, .ok o =>
      match dsAdd w.heap x path k o u l with
      | .error e => .error e
      | .ok x' => .ok (w.setDs d x', .none)
    | .error e, _ => .error e
    | _, .error e => .error e
  | .addColl d path l =>
    match w.getDs d with
    | .error e => .error e
    | .ok x => match dsAddColl x path l with
      | .error e => .error e
      | .ok x' => .ok (w.setDs d x', .none)
  | .del d path =>
    match w.getDs d with
    | .error e => .error e
    | .ok x => match dsDel x path with
      | .error e => .error e
      | .ok x' => .ok (w.setDs d x', .none)
  | .subset d idx =>
    match w.getDs d with
    | .error e => .error e
    | .ok x => match dsSubset idx w.heap x with
      | .error e => .error e
      | .ok (h, x') => .ok ({ w.setDs d x' with heap := h }, .none)
  | .extend d e =>
    match w.getDs d, w.getDs e with
    | .ok x, .ok y => match dsExtend w.units w.heap x y with
      | .error err => .error err
      | .ok (h, x') => .ok ({ w.setDs d x' with heap := h }, .none)
    | .error err, _ => .error err
    | _, .error err => .error err
  | .merge d es sortBy =>
    match w.getDs d with
    | .error e => .error e
    | .ok x =>
      match mergeLoop w.units w.heap x w d es with
      | .error e => .error e
      | .ok (h, x') =>
        match sortBy with
        | none => .ok ({ w.setDs d x' with heap := h }, .none)
        | some p => match dsSort h x' p with
          | .error e => .error e
          | .ok (h', x'') => .ok ({ w.setDs d x'' with heap := h' }, .none)
  | .filterSubset d filters =>
    match w.getDs d with
    | .error e => .error e
    | .ok x => match dsFilter w.heap x filters with
      | .error e => .error e
      | .ok m => match dsSubset (.mask m) w.heap x with
        | .error e => .error e
        | .ok (h, x') => .ok ({ w.setDs d x' with heap := h }, .mask m)
  | .unique d path =>
    match w.getDs d with
    | .error e => .error e
    | .ok x => match dsUnique w.heap x path with
      | .error e => .error e
      | .ok v => .ok (w, .vals v)

end Midgard.Dataset
