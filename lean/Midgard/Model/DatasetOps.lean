/-
C09 — dataset level operations on top of `Model/Dataset.lean`: adding and deleting fields,
`merge_with` (stable sort), `filter`, `unique`, `difference` (pairing by index fields, `intersect1d`),
and the step function over a world
of several datasets sharing one heap.
-/
import Midgard.Model.Dataset

namespace Midgard.Dataset

/-! ### Paths -/

abbrev Path := List String

/-- `dset[path]` as a field (`Collection.__getitem__` / `__getattr__` following collections) -/
def findField : List Field → Path → Option Field
  | _, [] => none
  | fs, [n] => getField fs n
  | fs, n :: rest =>
    match getField fs n with
    | some (.coll _ _ _ sub) => findField sub rest
    | _ => none

/-! ### Adding a field (`Dataset.add_<type>`, `_add_field`) -/

/-- the `_unit` a new field ends up with -/
def fieldUnit (k : Kind) (cols : Nat) (u : Option String) : Option (List String) :=
  match k with
  | .float | .sigma => u.map (fun x => List.replicate cols x)
  | .position | .positionDelta => some ["meter", "meter", "meter"]
  | .posvel | .posvelDelta => some ["meter", "meter", "meter", "meter/second", "meter/second", "meter/second"]
  | _ => none

/-- insert `f` under the collection path `cpath`, creating missing collections
(`add_collection`, default write level `operational` = 3, `num_obs` of the dataset); an
existing nested field of that name is kept (`field = container._fields[field_name]`). -/
def addAt (numObs : Nat) (f : Field) : Path → List Field → M (List Field)
  | [], fs =>
    match getField fs f.name with
    | some _ => .ok fs
    | none => .ok (fs ++ [f])
  | c :: rest, fs =>
    match getField fs c with
    | none =>
      match addAt numObs f rest [] with
      | .error e => .error e
      | .ok sub => .ok (fs ++ [.coll c numObs 3 sub])
    | some (.coll _ no l sub) =>
      match addAt numObs f rest sub with
      | .error e => .error e
      | .ok sub' => .ok (setField fs (.coll c no l sub'))
    | some (.leaf ..) => .error .attribute

/-- `dset.add_<kind>(".".join(path), val=<object o>, unit=u, write_level=level)` -/
def dsAdd (h : Heap) (d : DS) (path : Path) (k : Kind) (o : Nat) (u : Option String) (level : Nat) : M DS :=
  match path.reverse with
  | [] => .error .unsupported
  | nm :: revColl =>
    let cpath := revColl.reverse
    if cpath.isEmpty && (getField d.fields nm).isSome then .error .fieldExists else
    -- an existing nested field is silently kept, before any validation of the new value
    if !cpath.isEmpty && (findField d.fields path).isSome then .ok d else
    match h[o]? with
    | none => .error .dangling
    | some ob =>
      if ob.kind != k then .error .unsupported
      else if ob.rows.length != d.numObs then .error .value
      else
        match addAt d.numObs (.leaf nm k o d.numObs (fieldUnit k ob.cols u) level) cpath d.fields with
        | .error e => .error e
        | .ok fs => .ok { d with fields := fs }

/-- `dset.add_collection(".".join(path), write_level=level)`: an empty collection field -/
def dsAddColl (d : DS) (path : Path) (level : Nat) : M DS :=
  match path.reverse with
  | [] => .error .unsupported
  | nm :: revColl =>
    let cpath := revColl.reverse
    if cpath.isEmpty && (getField d.fields nm).isSome then .error .fieldExists else
    if !cpath.isEmpty && (findField d.fields path).isSome then .ok d else
    match addAt d.numObs (.coll nm d.numObs level []) cpath d.fields with
    | .error e => .error e
    | .ok fs => .ok { d with fields := fs }

/-! ### Deleting a field (`del dset[path]`) -/

def dsDel (d : DS) (path : Path) : M DS :=
  match path with
  | [n] => if (getField d.fields n).isSome then .ok { d with fields := delField d.fields n } else .error .attribute
  | [c, n] =>
    match getField d.fields c with
    | some (.coll _ no l sub) =>
      if (getField sub n).isSome then .ok { d with fields := setField d.fields (.coll c no l (delField sub n)) }
      else .error .attribute
    | _ => .error .attribute
  | _ => .error .attribute    -- `delattr(collection, "h.i")`: no such attribute

/-! ### Sort keys -/

/-- total preorder of `np.argsort` on one column: numbers by value with NaN last, text by code
points, booleans False < True (columns are homogeneous; mixed constructors are ordered
arbitrarily but totally) -/
def Scalar.rank : Scalar → Nat
  | .bool _ => 0
  | .num _ => 1
  | .txt _ => 2
  | .nan => 3

def Scalar.le (a b : Scalar) : Bool :=
  match a, b with
  | .num x, .num y => decide (x ≤ y)
  | .txt x, .txt y => decide (x ≤ y)
  | .bool x, .bool y => !x || y
  | x, y => x.rank ≤ y.rank

/-- insertion into a list sorted by key, *after* all elements with a key ≤ the new one -/
def insertStable (key : Nat → Scalar) (i : Nat) : List Nat → List Nat
  | [] => [i]
  | j :: js => if (key j).le (key i) then j :: insertStable key i js else i :: j :: js

/-- `np.argsort(keys, kind="stable")`: stable insertion sort of the row numbers -/
def argsortStable (keys : List Scalar) : List Nat :=
  let key := fun i => keys.getD i .nan
  (List.range keys.length).foldl (fun acc i => insertStable key i acc) []

/-- the 1-D key column of a field (`np.asarray(self[sort_by])`): first component of each row; for a time /
time delta the VALUE in the format of the field (third component of the row, after jd1, jd2) — epochs that differ
in the field compare different, whatever `jd1 + jd2` rounds to (rows `[jd1, jd2]` without a value, as C10 builds
them, fall back on `jd1 + jd2`) -/
def timeKey : Row → Scalar
  | [.num a, .num b] => .num (a + b)
  -- an empty epoch is `datetime.min`, earlier than every real epoch
  | _ :: _ :: .nan :: _ => .num 0
  | _ :: _ :: v :: _ => v
  | _ => .num 0

def keyColumn (h : Heap) (f : Field) : M (List Scalar) :=
  match f with
  | .coll .. => .error .unsupported
  | .leaf _ k o _ _ _ =>
    match h[o]? with
    | none => .error .dangling
    | some ob =>
      if ob.ndim != 1 then .error .unsupported
      else if k == .time || k == .timeDelta then
        .ok (ob.rows.map timeKey)
      else .ok (ob.rows.map (fun r => r.headD .nan))

/-- the sorting half of `Dataset.merge_with(sort_by=…)` (after the `fix:`: `kind="stable"`):
every field is subset by the sort index under one memo; `num_obs` is left alone. -/
def dsSort (h : Heap) (d : DS) (sortBy : Path) : M (Heap × DS) :=
  match findField d.fields sortBy with
  | none => .error .attribute
  | some f =>
    match keyColumn h f with
    | .error e => .error e
    | .ok keys =>
      let idx := Index.ints ((argsortStable keys).map Int.ofNat)
      match subsetField.subsetFields idx d.fields { heap := h } with
      | .error e => .error e
      | .ok (fs, s) => .ok (s.heap, { d with fields := fs })

/-! ### `filter` and `unique` -/

/-- the `except AttributeError` branch of `Dataset.filter`: the field does not exist, so the fields of the same
container whose names start with `<name>_` are used instead (`station_1`, `station_2`, …; also the `<name>_self` /
`<name>_other` fields `difference` leaves behind): a row passes when any of them equals the value -/
def orFieldsMask (h : Heap) (n : Nat) (v : Scalar) : List Field → M (List Bool)
  | [] => .ok (List.replicate n false)
  | f :: fs =>
    match orFieldsMask h n v fs, keyColumn h f with
    | .ok m, .ok col =>
      if m.length = col.length then .ok (List.zipWith (· || ·) (col.map (fun x => x == v && x != .nan)) m) else .error .value
    | .error e, _ => .error e
    | _, .error e => .error e

/-- `np.asarray(self[field]) == value` for a 1-D field -/
def filterMask (h : Heap) (d : DS) (path : Path) (v : Scalar) : M (List Bool) :=
  match findField d.fields path with
  | none =>
    match path.reverse with
    | [] => .error .attribute
    | last :: revInit =>
      let container : Option (List Field) :=
        if revInit.isEmpty then some d.fields
        else match findField d.fields revInit.reverse with
          | some (.coll _ _ _ sub) => some sub
          | _ => none
      match container with
      | none => .error .attribute
      | some fs =>
        let orFields := fs.filter (fun f => (last ++ "_").isPrefixOf f.name)
        if orFields.isEmpty then .error .attribute else orFieldsMask h d.numObs v orFields
  | some f =>
    match keyColumn h f with
    | .error e => .error e
    | .ok col => .ok (col.map (fun x => x == v && x != .nan))

/-- `Dataset.filter(**filters)`: conjunction over the filters, starting from all-true -/
def dsFilter (h : Heap) (d : DS) : List (Path × Scalar) → M (List Bool)
  | [] => .ok (List.replicate d.numObs true)
  | (p, v) :: rest =>
    match dsFilter h d rest, filterMask h d p v with
    | .ok m, .ok m2 => if m.length = m2.length then .ok (List.zipWith (· && ·) m m2) else .error .value
    | .error e, _ => .error e
    | _, .error e => .error e

def dedupSorted : List Scalar → List Scalar
  | a :: b :: rest => if a == b then dedupSorted (b :: rest) else a :: dedupSorted (b :: rest)
  | l => l

/-- `Dataset.unique(field)` (sorted, no filters) of a 1-D field without NaN -/
def dsUnique (h : Heap) (d : DS) (path : Path) : M (List Scalar) :=
  match findField d.fields path with
  | none => .error .attribute
  | some f =>
    match keyColumn h f with
    | .error e => .error e
    | .ok col => .ok (dedupSorted ((argsortStable col).map (fun i => col.getD i .nan)))

/-! ### `difference` (`Dataset.difference`, `Collection._difference`) -/

/-- `array[idx]` without a memo (`PositionArray.__getitem__`, `PositionDeltaArray.__getitem__`,
`TimeBase.__getitem__`, `SigmaArray.__getitem__`, NumPy fancy indexing): a new array with the selected
rows; the registered attributes (`other`) and `ref_pos` "follow the same index" — each is indexed
again, so an object reachable twice is copied twice. -/
def getItemOpt (rec : Nat → Heap → M (Nat × Heap)) (r : Option Nat) (h : Heap) : M (Option Nat × Heap) :=
  match r with
  | none => .ok (none, h)
  | some a =>
    match rec a h with
    | .error e => .error e
    | .ok (a', h') => .ok (some a', h')

def getItemObj (idx : Index) : Nat → Nat → Heap → M (Nat × Heap)
  | 0, _, _ => .error .fuel
  | fuel + 1, o, h =>
    match h[o]? with
    | none => .error .dangling
    | some obj =>
      match pick idx obj.rows with
      | .error e => .error e
      | .ok rows =>
        match (if obj.kind.hasOther then getItemOpt (getItemObj idx fuel) obj.other h else .ok (none, h)) with
        | .error e => .error e
        | .ok (oth, h1) =>
          match (if obj.kind.isDelta then getItemOpt (getItemObj idx fuel) obj.refPos h1 else .ok (none, h1)) with
          | .error e => .error e
          | .ok (rp, h2) => .ok (h2.length, h2 ++ [{ obj with rows := rows, other := oth, refPos := rp }])

/-- one record of the index fields: the tuple of their values in one row -/
abbrev Key := List Scalar

/-- order of the records of an object-dtype structured array: field by field -/
def keyLe : Key → Key → Bool
  | [], _ => true
  | _ :: _, [] => false
  | a :: as, b :: bs => if a == b then keyLe as bs else a.le b

/-- insertion into an ascending list of distinct keys -/
def insertKey (k : Key) : List Key → List Key
  | [] => [k]
  | x :: xs => if k == x then x :: xs else if keyLe k x then k :: x :: xs else x :: insertKey k xs

/-- `np.unique`: the distinct keys in ascending order -/
def sortDedup (ks : List Key) : List Key := ks.foldr insertKey []

/-- `np.intersect1d(A, B, return_indices=True)`: the common keys in ascending order, each with the
first row of `A` and the first row of `B` that carries it -/
def intersectKeys (A B : List Key) : List (Nat × Nat) :=
  ((sortDedup A).filter (fun k => B.contains k)).map (fun k => (A.idxOf k, B.idxOf k))

/-- `np.rec.fromarrays(index_data)`: the key columns turned into one key tuple per row -/
def keyRows : List (List Scalar) → M (List Key)
  | [] => .ok []
  | c :: cs =>
    if (c :: cs).all (fun x => x.length == c.length) then
      .ok ((List.range c.length).map (fun i => (c :: cs).map (fun col => col.getD i .nan)))
    else .error .value

/-- `self[name]` of an index field as a key column (top-level 1-D fields; a NaN key has no equal in
NumPy and is outside the modelled fragment) -/
def indexColumn (h : Heap) (d : DS) (name : String) : M (List Scalar) :=
  if name.toList.contains '.' then .error .unsupported else
  match getField d.fields name with
  | none => .error .attribute
  | some f =>
    match keyColumn h f with
    | .error e => .error e
    | .ok col => if col.contains .nan then .error .unsupported else .ok col

/-- the two row indices of `Dataset.difference` and the number of paired rows: without `index_by`
all-true masks (the lengths must agree), with it the `intersect1d` indices -/
def diffIndex (h : Heap) (d e : DS) : Option (List String) → M (Index × Index × Nat)
  | none =>
    if d.numObs != e.numObs then .error .value
    else .ok (.mask (List.replicate d.numObs true), .mask (List.replicate e.numObs true), d.numObs)
  | some names =>
    match names.mapM (indexColumn h d) with
    | .error err => .error err
    | .ok ca =>
      match names.mapM (indexColumn h e) with
      | .error err => .error err
      | .ok cb =>
        match keyRows ca, keyRows cb with
        | .ok A, .ok B =>
          let pairs := intersectKeys A B
          .ok (.ints (pairs.map (fun p => Int.ofNat p.1)), .ints (pairs.map (fun p => Int.ofNat p.2)), pairs.length)
        | .error err, _ => .error err
        | _, .error err => .error err

/-- `x - y` on floats (NaN propagates) -/
def subScalar : Scalar → Scalar → Scalar
  | .num a, .num b => .num (a - b)
  | _, _ => .nan

def subRow (a b : Row) : Row := List.zipWith subScalar a b

/-- the type of `a - b` for two arrays of one kind (`Time - Time = TimeDelta`, `Position - Position =
PositionDelta`, …); `none`: the operator raises `TypeError` (bool, text, `SigmaArray.__sub__`) -/
def Kind.diffKind : Kind → Option Kind
  | .float => some .float
  | .time | .timeDelta => some .timeDelta
  | .position | .positionDelta => some .positionDelta
  | .posvel | .posvelDelta => some .posvelDelta
  | .bool | .text | .sigma => none

/-- `[Unit(_from, _to) for _to, _from in zip(field._unit, other._unit)]`: a missing unit on either
side is the `TypeError` branch (no factors), an impossible conversion is re-raised as `ValueError` -/
def diffFactors (us : Units) (selfU otherU : Option (List String)) : M (List Rat) :=
  match selfU, otherU with
  | some su, some ou =>
    match (ou.zip su).mapM (fun (fr, to) => us.factor fr to) with
    | some fs => .ok fs
    | none => .error .value
  | _, _ => .ok []

/-- the tag of `a - b`: `Time - Time` is a TimeDelta of the same scale, in format `timedelta` for two datetimes and
`jd` (days) otherwise; `TimeDelta - TimeDelta` keeps the format of `a` -/
def diffTag (k : Kind) (t : String) : String :=
  if t == "" then "" else
  if k == .time then "d:" ++ tagScale t ++ "/" ++ (if (t.splitOn "/").getLastD "" == "datetime" then "timedelta" else "jd")
  else if k == .timeDelta then t else ""

/-- one common leaf field of `Collection._difference`: the fields to `add_field`, in order.
`si`/`oi` are the row indices of self / other, `cnt` the number of paired rows. -/
def diffLeaf (us : Units) (si oi : Index) (cnt : Nat) (cs co : Bool) (nm : String) (k : Kind) (o : Nat)
    (u : Option (List String)) (l : Nat) (k2 : Kind) (o2 : Nat) (u2 : Option (List String)) (l2 : Nat) (h : Heap) :
    M (List Field × Heap) :=
  match diffFactors us u u2 with
  | .error e => .error e
  | .ok fs =>
    if k != k2 then .error .unsupported else   -- (outside the modelled fragment: fields of different types)
    match getItemObj si (h.length + 1) o h with
    | .error e => .error e
    | .ok (a, h1) =>
      match getItemObj oi (h1.length + 1) o2 h1 with
      | .error e => .error e
      | .ok (b, h2) =>
        match h2[a]?, h2[b]? with
        | some oa, some ob =>
          if oa.kind != k || ob.kind != k then .error .unsupported else   -- (model guard, as in `extendLeaf`)
          match k.diffKind with
          | none =>
            -- `TypeError`: `copy_self_on_error` / `copy_other_on_error`
            .ok ((if cs then [Field.leaf (nm ++ "_self") k a cnt u l] else []) ++
                 (if co then [Field.leaf (nm ++ "_other") k b cnt u2 l2] else []), h2)
          | some k' =>
            -- (outside the modelled fragment: NumPy broadcasting of unequal shapes; the empty epoch)
            if oa.ndim != ob.ndim || oa.cols != ob.cols || (fs.length != 0 && fs.length != ob.cols) then .error .unsupported
            else if k == .time && (oa.rows.any (fun r => r.contains .nan) || ob.rows.any (fun r => r.contains .nan)) ||
                -- (outside the modelled fragment: `Time - Time` of different scales is a `TypeError`, values of
                -- different formats / of formats other than mjd, jd, datetime do not subtract to the value of the result)
                (k == .time || k == .timeDelta) && (oa.tag != ob.tag ||
                  k == .time && !(oa.tag == "" || ["mjd", "jd", "datetime"].contains ((oa.tag.splitOn "/").getLastD ""))) then
              .error .unsupported
            else
              -- `self[f][self_idx] - other[f][other_idx] * factors`; a position difference refers to the
              -- position of self, a difference of deltas keeps the `ref_pos` of self
              let rp := if k.hasOther then some a else if k.isDelta then oa.refPos else none
              .ok ([Field.leaf nm k' h2.length cnt u l],
                   h2 ++ [{ kind := k', ndim := oa.ndim, cols := oa.cols,
                            rows := List.zipWith subRow oa.rows (ob.rows.map (scaleRow fs)), other := none, refPos := rp,
                            tag := diffTag k oa.tag }])
        | _, _ => .error .dangling

/-- `Collection._difference`: the loop over `self._fields`; fields missing in `other` are skipped,
collections recurse **with the same two row indices**, every new field goes through `add_field`
(`dict[name] = field`). -/
def diffField (us : Units) (si oi : Index) (cnt : Nat) (cs co : Bool) : Field → Field → Heap → M (List Field × Heap)
  | .leaf nm k o _ u l, .leaf _ k2 o2 _ u2 l2, h => diffLeaf us si oi cnt cs co nm k o u l k2 o2 u2 l2 h
  | .coll nm _ l fs, .coll _ _ _ gs, h =>
    match diffLoop fs gs [] h with
    | .error e => .error e
    | .ok (rs, h') => .ok ([.coll nm cnt l rs], h')
  | .leaf .., .coll .., _ => .error .attribute
  | .coll .., .leaf .., _ => .error .attribute
where
  diffLoop : List Field → List Field → List Field → Heap → M (List Field × Heap)
    | [], _, acc, h => .ok (acc, h)
    | f :: fs, gs, acc, h =>
      match getField gs f.name with
      | none => diffLoop fs gs acc h
      | some g =>
        match diffField us si oi cnt cs co f g h with
        | .error e => .error e
        | .ok (new, h') => diffLoop fs gs (new.foldl setField acc) h'

/-- the tail of `Dataset.difference`: every index field is deleted from the result and put back, at
the end, with the rows of self -/
def indexFields (si : Index) (cnt : Nat) (selfFields : List Field) : List String → List Field → Heap → M (List Field × Heap)
  | [], acc, h => .ok (acc, h)
  | nm :: rest, acc, h =>
    match getField selfFields nm with
    | some (.leaf _ k o _ u l) =>
      match getItemObj si (h.length + 1) o h with
      | .error e => .error e
      | .ok (a, h') => indexFields si cnt selfFields rest (delField acc nm ++ [.leaf nm k a cnt u l]) h'
    | _ => .error .unsupported

/-- `Dataset.difference(other, index_by, copy_self_on_error, copy_other_on_error)` (after the `fix:`:
the result declares the number of paired rows also when no field was subtracted) -/
def dsDifference (us : Units) (h : Heap) (d e : DS) (indexBy : Option (List String)) (cs co : Bool) : M (Heap × DS) :=
  match diffIndex h d e indexBy with
  | .error err => .error err
  | .ok (si, oi, cnt) =>
    if cnt == 0 then .error .value else
    match diffField.diffLoop us si oi cnt cs co d.fields e.fields [] h with
    | .error err => .error err
    | .ok (fs, h1) =>
      match indexFields si cnt d.fields (indexBy.getD []) fs h1 with
      | .error err => .error err
      | .ok (fs', h2) => .ok (h2, { numObs := cnt, fields := fs' })

/-! ### The world and its step function -/

inductive Ref
  | tab (k : Nat)                 -- the k-th object created by an `obj` operation
  | fld (d : Nat) (p : Path)      -- the data object of a field as it is now
  deriving Repr, Inhabited

inductive Op
  | new (d n : Nat)
  | obj (kind : Kind) (ndim cols : Nat) (rows : List Row) (other refPos : Option Ref) (tag : String)
  | add (d : Nat) (path : Path) (kind : Kind) (val : Ref) (unit : Option String) (level : Nat)
  | addColl (d : Nat) (path : Path) (level : Nat)
  | del (d : Nat) (path : Path)
  | subset (d : Nat) (idx : Index)
  | extend (d e : Nat)
  | merge (d : Nat) (es : List Nat) (sortBy : Option Path)
  | filterSubset (d : Nat) (filters : List (Path × Scalar))
  | unique (d : Nat) (path : Path)
  | difference (d e r : Nat) (indexBy : Option (List String)) (copySelf copyOther : Bool)
  deriving Repr, Inhabited

structure W where
  heap : Heap := []
  ds : List (Option DS) := []
  tab : List Nat := []
  units : Units := {}
  deriving Repr, Inhabited

def W.getDs (w : W) (d : Nat) : M DS := match w.ds[d]? with
  | some (some x) => .ok x
  | _ => .error .unsupported

def W.setDs (w : W) (d : Nat) (x : DS) : W :=
  let l := if w.ds.length ≤ d then w.ds ++ List.replicate (d + 1 - w.ds.length) none else w.ds
  { w with ds := l.set d (some x) }

def W.resolve (w : W) : Ref → M Nat
  | .tab k => match w.tab[k]? with
    | some o => .ok o
    | none => .error .unsupported
  | .fld d p =>
    match w.getDs d with
    | .error e => .error e
    | .ok x => match findField x.fields p with
      | some (.leaf _ _ o _ _ _) => .ok o
      | _ => .error .unsupported

def W.resolveOpt (w : W) : Option Ref → M (Option Nat)
  | none => .ok none
  | some r => match w.resolve r with
    | .ok o => .ok (some o)
    | .error e => .error e

/-- what an operation answers besides the new world -/
inductive Out
  | none
  | mask (m : List Bool)
  | vals (v : List Scalar)
  deriving Repr, Inhabited

/-- `for dset in dsets: self.extend(dset)`; `di` is the slot of `self` (a dataset may be merged
with itself, and then it is the current, already extended one) -/
def mergeLoop (us : Units) (h : Heap) (d : DS) (w : W) (di : Nat) : List Nat → M (Heap × DS)
  | [] => .ok (h, d)
  | e :: es =>
    match (if e == di then .ok d else w.getDs e) with
    | .error err => .error err
    | .ok x =>
      match dsExtend us h d x with
      | .error err => .error err
      | .ok (h', d') => mergeLoop us h' d' w di es

def step (w : W) (op : Op) : M (W × Out) :=
  match op with
  | .new d n => .ok (w.setDs d { numObs := n, fields := [] }, .none)
  | .obj k ndim cols rows other refPos tag =>
    match w.resolveOpt other, w.resolveOpt refPos with
    | .ok o, .ok r =>
      .ok ({ w with heap := w.heap ++ [{ kind := k, ndim := ndim, cols := cols, rows := rows, other := o, refPos := r, tag := tag }],
                    tab := w.tab ++ [w.heap.length] }, .none)
    | .error e, _ => .error e
    | _, .error e => .error e
  | .add d path k val u l =>
    match w.getDs d, w.resolve val with
    | .ok x, .ok o =>
      match dsAdd w.heap x path k o u l with
      | .error e => .error e
      | .ok x' => .ok (w.setDs d x', .none)
    | .error e, _ => .error e
    | _, .error e => .error e
  | .addColl d path l =>
    match w.getDs d with
    | .error e => .error e
    | .ok x => match dsAddColl x path l with
      | .error e => .error e
      | .ok x' => .ok (w.setDs d x', .none)
  | .del d path =>
    match w.getDs d with
    | .error e => .error e
    | .ok x => match dsDel x path with
      | .error e => .error e
      | .ok x' => .ok (w.setDs d x', .none)
  | .subset d idx =>
    match w.getDs d with
    | .error e => .error e
    | .ok x => match dsSubset idx w.heap x with
      | .error e => .error e
      | .ok (h, x') => .ok ({ w.setDs d x' with heap := h }, .none)
  | .extend d e =>
    match w.getDs d, w.getDs e with
    | .ok x, .ok y => match dsExtend w.units w.heap x y with
      | .error err => .error err
      | .ok (h, x') => .ok ({ w.setDs d x' with heap := h }, .none)
    | .error err, _ => .error err
    | _, .error err => .error err
  | .merge d es sortBy =>
    match w.getDs d with
    | .error e => .error e
    | .ok x =>
      match mergeLoop w.units w.heap x w d es with
      | .error e => .error e
      | .ok (h, x') =>
        match sortBy with
        | none => .ok ({ w.setDs d x' with heap := h }, .none)
        | some p => match dsSort h x' p with
          | .error e => .error e
          | .ok (h', x'') => .ok ({ w.setDs d x'' with heap := h' }, .none)
  | .filterSubset d filters =>
    match w.getDs d with
    | .error e => .error e
    | .ok x => match dsFilter w.heap x filters with
      | .error e => .error e
      | .ok m => match dsSubset (.mask m) w.heap x with
        | .error e => .error e
        | .ok (h, x') => .ok ({ w.setDs d x' with heap := h }, .mask m)
  | .unique d path =>
    match w.getDs d with
    | .error e => .error e
    | .ok x => match dsUnique w.heap x path with
      | .error e => .error e
      | .ok v => .ok (w, .vals v)
  | .difference d e r ib cs co =>
    -- `w.ds[r] = w.ds[d].difference(w.ds[e], …)`: the result is a new dataset (slot `r` may be an operand's)
    match w.getDs d, w.getDs e with
    | .ok x, .ok y => match dsDifference w.units w.heap x y ib cs co with
      | .error err => .error err
      | .ok (h, z) => .ok ({ w.setDs r z with heap := h }, .none)
    | .error err, _ => .error err
    | _, .error err => .error err

end Midgard.Dataset
