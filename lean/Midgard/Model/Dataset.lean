/-
C09 — model of `midgard.data.dataset.Dataset` / `collection.Collection` / the eleven
`fieldtypes` / `sigma.SigmaArray` and of the `subset` / `insert` plumbing of
`_position.py` / `_time.py`, as far as it moves *rows* and *object references*.

Concrete side (this file): a heap of array objects (`Obj`: the rows of one NumPy array
object plus its `other` / `ref_pos` references, addressed by allocation index = `id()`),
datasets as a declared `numObs` plus an ordered tree of fields, and every operation
threading the code's `memo` (old id ↦ new id).  Objects are never mutated: every operation
of the code builds new arrays, which is an allocation here.

Time scale / format conversion inside `TimeBase.insert` *is* modelled: a time object carries the tag
`<scale>/<format>` (a time delta `d:<scale>/<format>`), a row of it is `[jd1, jd2, value(s) in the format]`,
and the epoch-by-epoch conversion function of the Time classes is a parameter (`Conv`, a finite table computed
from the real code, like the pint unit factors in `Units`).
What is *not* modelled: conversion between position systems inside `insert` (the generators keep system and
ellipsoid equal), `meta`, the `_<x>_sliced` side channels of integer/slice indexing (C04/C08).
-/
namespace Midgard.Dataset

/-! ### Cells, rows, objects -/

inductive Scalar
  | num (q : Rat)
  | nan
  | txt (s : String)
  | bool (b : Bool)
  deriving DecidableEq, Repr, Inhabited

/-- one row of one array object: all its components (columns; for a time `[jd1, jd2]`;
for a sigma array the values followed by the sigmas) -/
abbrev Row := List Scalar

inductive Kind
  | bool | float | text | time | timeDelta | sigma
  | position | posvel | positionDelta | posvelDelta
  deriving DecidableEq, Repr, Inhabited

def Kind.isPlain : Kind → Bool
  | .bool | .float | .text => true
  | _ => false

def Kind.isDelta : Kind → Bool
  | .positionDelta | .posvelDelta => true
  | _ => false

/-- kinds with registered attributes (`_position._ATTRIBUTES`: `other` for `PositionArray` and
`PosVelArray`); only their `subset`/`insert` loop over them -/
def Kind.hasOther : Kind → Bool
  | .position | .posvel => true
  | _ => false

/-- the kind of the `ref_pos` a delta kind carries -/
def Kind.refKind : Kind → Kind
  | .posvelDelta => .posvel
  | _ => .position

/-- An array object.  `ndim`/`cols` are the trailing shape (`data.shape[1:]`), kept because a
0-row array still knows its width. -/
structure Obj where
  kind : Kind
  ndim : Nat
  cols : Nat
  rows : List Row
  other : Option Nat := none
  refPos : Option Nat := none
  /-- `<scale>/<format>` of a time, `d:<scale>/<format>` of a time delta; `""` for every other kind and for the
  transient "empty" arrays of the padding (made in the scale of the field, shown in its format) -/
  tag : String := ""
  deriving DecidableEq, Repr, Inhabited

abbrev Heap := List Obj

/-- What `TimeBase.insert(a, pos, b)` does to one epoch of `b` before splicing: `b = getattr(b, a.scale)`,
`b_formatted = getattr(b, a.fmt)`, `b.jd1`, `b.jd2` — a function `(tag of b, tag of a, row of b) ↦ row`, given as a
finite table computed from the real Time classes (parameter of the model). -/
abbrev Conv := List ((String × String × Row) × Row)

/-- the scale part of a tag -/
def tagScale (t : String) : String := (t.splitOn "/").headD ""

inductive Err
  | index       -- IndexError (bad subset index)
  | value       -- ValueError
  | unit        -- UnitError
  | attribute   -- AttributeError
  | fieldExists -- FieldExistsError
  | fuel        -- the model ran out of recursion fuel (cyclic references; never generated)
  | dangling    -- a reference outside the heap (never generated)
  | unsupported -- outside the modelled fragment (never generated)
  deriving DecidableEq, Repr, Inhabited

/-- heap + the operation's memo -/
structure St where
  heap : Heap
  memo : List (Nat × Nat) := []
  conv : Conv := []
  deriving Repr, Inhabited

abbrev M := Except Err

def St.find (s : St) (k : Nat) : Option Nat := s.memo.lookup k
def St.set (s : St) (k v : Nat) : St := { s with memo := (k, v) :: s.memo }
/-- `memo.pop(k, None)` -/
def St.pop (s : St) (k : Nat) : St := { s with memo := s.memo.filter (fun p => p.1 != k) }
def St.alloc (s : St) (o : Obj) : Nat × St := (s.heap.length, { s with heap := s.heap ++ [o] })

/-! ### NumPy indexing of rows -/

inductive Index
  | mask (m : List Bool)
  | ints (is : List Int)
  deriving DecidableEq, Repr, Inhabited

def pickMask {α} : List Bool → List α → List α
  | b :: bs, x :: xs => if b then x :: pickMask bs xs else pickMask bs xs
  | _, _ => []

/-- Python/NumPy normalisation of one integer index against length `n` -/
def normIdx (n : Nat) (i : Int) : Option Nat :=
  if 0 ≤ i ∧ i < n then some i.toNat
  else if -(n : Int) ≤ i ∧ i < 0 then some (i + n).toNat
  else none

def pickInts {α} (xs : List α) : List Int → Option (List α)
  | [] => some []
  | i :: is =>
    match normIdx xs.length i with
    | none => none
    | some k =>
      match xs[k]?, pickInts xs is with
      | some x, some r => some (x :: r)
      | _, _ => none

/-- `array[idx]` along axis 0 -/
def pick {α} (idx : Index) (xs : List α) : M (List α) :=
  match idx with
  | .mask m => if m.length = xs.length then .ok (pickMask m xs) else .error .index
  | .ints is => match pickInts xs is with
    | some r => .ok r
    | none => .error .index

/-- `len(np.arange(n)[idx])`: the number of selected rows (what `Dataset.subset` declares after
the `fix:`) -/
def Index.count : Index → Nat
  | .mask m => (m.filter id).length
  | .ints is => is.length

/-- `np.insert(a, pos, b, axis=0)` -/
def insertAt {α} (a : List α) (pos : Nat) (b : List α) : List α := a.take pos ++ b ++ a.drop pos

/-! ### Empty values -/

def emptyRow (k : Kind) (cols : Nat) : Row :=
  match k with
  | .bool => List.replicate cols (.bool false)
  | .text => List.replicate cols (.txt "")
  | .float => List.replicate cols .nan
  | .sigma => List.replicate (2 * cols) .nan
  | .time => List.replicate (2 + cols) .nan              -- `datetime.min` (jd1, jd2, value), canonicalised by the harness
  | .timeDelta => List.replicate (2 + cols) (.num 0)     -- `timedelta(0)`
  | .position | .positionDelta => List.replicate 3 .nan
  | .posvel | .posvelDelta => List.replicate 6 .nan

def emptyObj (k : Kind) (ndim cols n : Nat) : Obj :=
  { kind := k, ndim := ndim, cols := cols, rows := List.replicate n (emptyRow k cols) }

/-! ### Object level: `subset` and `insert` with the memo -/

/-- follow one reference with the memo, as the attribute loops of `PositionArray.subset` do:
`if id(attr) in memo: memo[id(attr)] else: new = attr.subset(idx, memo); memo[id(attr)] = new` -/
def viaMemo (rec : Nat → St → M (Nat × St)) (r : Option Nat) (s : St) : M (Option Nat × St) :=
  match r with
  | none => .ok (none, s)
  | some a =>
    match s.find a with
    | some a' => .ok (some a', s)
    | none =>
      match rec a s with
      | .error e => .error e
      | .ok (a', s') => .ok (some a', s'.set a a')

/-- `TimeBase.subset`, `PositionArray.subset`, `PositionDeltaArray.subset`:
memo hit → the object made earlier; else rows `[idx]`, registered attributes (`other`) and
`ref_pos` through the memo, new object, `memo[old] = new`. -/
def subsetObj (idx : Index) : Nat → Nat → St → M (Nat × St)
  | 0, _, _ => .error .fuel
  | fuel + 1, o, s =>
    match s.find o with
    | some o' => .ok (o', s)
    | none =>
      match s.heap[o]? with
      | none => .error .dangling
      | some obj =>
        match pick idx obj.rows with
        | .error e => .error e
        | .ok rows =>
          match (if obj.kind.hasOther then viaMemo (subsetObj idx fuel) obj.other s else .ok (none, s)) with
          | .error e => .error e
          | .ok (oth, s1) =>
            match (if obj.kind.isDelta then viaMemo (subsetObj idx fuel) obj.refPos s1 else .ok (none, s1)) with
            | .error e => .error e
            | .ok (rp, s2) =>
              let (o', s3) := s2.alloc { obj with rows := rows, other := oth, refPos := rp }
              .ok (o', s3.set o o')

/-- `FieldType._subset` of the plain kinds and of sigma: `self.data = self.data[idx]`
(no memo look-up), `memo[old_id] = self.data`. -/
def subsetPlain (idx : Index) (o : Nat) (s : St) : M (Nat × St) :=
  match s.heap[o]? with
  | none => .error .dangling
  | some obj =>
    -- (model guard: the field kind is the kind of its array, as `add` established)
    if !(obj.kind.isPlain || obj.kind == .sigma) then .error .unsupported else
    match pick idx obj.rows with
    | .error e => .error e
    | .ok rows =>
      let (o', s1) := s.alloc { obj with rows := rows }
      .ok (o', s1.set o o')

/-- does `insert(a, …, b)` convert `b` (another scale or format than `a`)?  The padding arrays (tag `""`) are made in
the scale of the field; their rows are the canonical empty row in every format. -/
def needsConv (toTag : String) (ob : Obj) : Bool := !(ob.tag == toTag || ob.tag == "")

/-- every epoch of `b` has an entry in the conversion table (else: outside the modelled fragment) -/
def convertible (cv : Conv) (toTag : String) (ob : Obj) : Bool :=
  !needsConv toTag ob ||
    -- (there is no conversion between the scales of time deltas: `UnknownConversionError`, whatever the rows)
    (!(ob.kind == .timeDelta && tagScale ob.tag != tagScale toTag) &&
     ob.rows.all (fun r => (cv.lookup (ob.tag, toTag, r)).isSome))

/-- the rows of `b` as `insert` splices them into an array with tag `toTag` -/
def convRows (cv : Conv) (toTag : String) (ob : Obj) : List Row :=
  if needsConv toTag ob then ob.rows.map (fun r => (cv.lookup (ob.tag, toTag, r)).getD r) else ob.rows

/-- `TimeBase.insert`, `SigmaArray.insert`, `PositionArray.insert`, `PositionDeltaArray.insert`.
`a`/`b` are object ids; returns the id of the combined object. -/
def insertObj : Nat → Nat → Nat → Nat → St → M (Nat × St)
  | 0, _, _, _, _ => .error .fuel
  | fuel + 1, a, pos, b, s =>
    match s.find a with
    | some r => .ok (r, s)
    | none =>
    match s.find b with
    | some r => .ok (r, s)
    | none =>
    match s.heap[a]?, s.heap[b]? with
    | some oa, some ob =>
      -- (model guard: both arrays are of the same class, as the field types guarantee)
      -- (and: every epoch of `b` that has to be converted to the scale / format of `a` is in the table)
      if oa.kind != ob.kind || !convertible s.conv oa.tag ob then .error .unsupported else
      let rows := insertAt oa.rows pos (convRows s.conv oa.tag ob)
      -- registered attribute `other` (only `PositionArray.insert` has the loop)
      let othR : M (Option Nat × St) :=
        if !oa.kind.hasOther then .ok (none, s) else
        match oa.other, ob.other with
        | none, none => .ok (none, s)
        | ao, bo =>
          match ao.bind s.find with
          | some r => .ok (some r, s)
          | none =>
          match bo.bind s.find with
          | some r => .ok (some r, s)
          | none =>
            match ao, bo with
            | some x, some y =>
              (match insertObj fuel x pos y s with
               | .error e => .error e
               | .ok (r, s') => .ok (some r, s'))
            | none, none => .ok (none, s)
            | none, some y =>
              -- `a` has no such attribute: NaN rows for the rows of `a`, then `insert(empty, pos, b_attr)`
              (match s.heap[y]? with
               | none => .error .dangling
               | some oy =>
                 let (e, s0) := s.alloc (emptyObj oy.kind oy.ndim oy.cols oa.rows.length)
                 match insertObj fuel e pos y s0 with
                 | .error err => .error err
                 | .ok (r, s') => .ok (some r, s'.pop e))
            | some x, none =>
              -- `b` has no such attribute: NaN rows for the rows of `b`, then `insert(a_attr, pos, empty)`
              match s.heap[x]? with
              | none => .error .dangling
              | some ox =>
                let (e, s0) := s.alloc (emptyObj ox.kind ox.ndim ox.cols ob.rows.length)
                match insertObj fuel x pos e s0 with
                | .error err => .error err
                | .ok (r, s') => .ok (some r, s'.pop e)
      match othR with
      | .error e => .error e
      | .ok (oth, s1) =>
        -- `ref_pos` of the delta kinds
        let rpR : M (Option Nat × St) :=
          if !oa.kind.isDelta then .ok (none, s1) else
          match oa.refPos with
          | none => .error .attribute
          | some ra =>
            match s1.find ra with
            | some r => .ok (some r, s1)
            | none =>
              match ob.refPos with
              | none => .error .attribute
              | some rb =>
                match insertObj fuel ra pos rb s1 with
                | .error e => .error e
                | .ok (r, s') => .ok (some r, s'.set ra r)
        match rpR with
        | .error e => .error e
        | .ok (rp, s2) =>
          let (n, s3) := s2.alloc { oa with rows := rows, other := oth, refPos := rp }
          -- (after the `fix:`: the entry for `b` goes under the id `b` had on entry, also when `b` was converted to the
          -- scale of `a` — the converted array is a cached value, not an identity)
          .ok (n, (s3.set a n).set b n)
    | _, _ => .error .dangling

/-- `np.insert` of the plain kinds (`Bool/Float/TextField._extend/_prepend_empty/_append_empty`):
no memo look-up, `memo[old_id] = new`. -/
def insertPlain (a pos : Nat) (brows : List Row) (s : St) : M (Nat × St) :=
  match s.heap[a]? with
  | none => .error .dangling
  | some oa =>
    if !oa.kind.isPlain then .error .unsupported else   -- (model guard, see `subsetPlain`)
    let (n, s1) := s.alloc { oa with rows := insertAt oa.rows pos brows }
    .ok (n, s1.set a n)

/-! ### Fields and datasets -/

/-- `FieldType` instances.  `numObs` is the field's own `num_obs` attribute (used by the code as
the insertion position), `unit` its `_unit`, `level` its write level (1..3). -/
inductive Field
  | leaf (name : String) (kind : Kind) (obj : Nat) (numObs : Nat) (unit : Option (List String)) (level : Nat)
  | coll (name : String) (numObs : Nat) (level : Nat) (fs : List Field)
  deriving Repr, Inhabited

def Field.name : Field → String
  | .leaf n .. => n
  | .coll n .. => n

def Field.isColl : Field → Bool
  | .coll .. => true
  | _ => false

structure DS where
  numObs : Nat
  fields : List Field
  deriving Repr, Inhabited

structure World where
  heap : Heap
  ds : List DS
  deriving Repr, Inhabited

def names (fs : List Field) : List String := fs.map Field.name

def getField (fs : List Field) (n : String) : Option Field := fs.find? (fun f => f.name == n)

/-- `dict[name] = field`: an existing key keeps its position, a new key goes last -/
def setField : List Field → Field → List Field
  | [], f => [f]
  | g :: gs, f => if g.name == f.name then f :: gs else g :: setField gs f

def delField (fs : List Field) (n : String) : List Field := fs.filter (fun f => f.name != n)

def objLen (h : Heap) (o : Nat) : Nat := match h[o]? with
  | some ob => ob.rows.length
  | none => 0

/-- the number of rows of a field as `Collection.__len__` reads it off the *first* field of a
collection: `len(field.data)` of an array; for a collection field `CollectionField._num_rows()` — the
length of the nested collection, or the `num_obs` the field remembers when the nested collection has
no fields (after the `fix:`; before it an empty nested collection in first position made the length 0).
`lenL` is `Collection.__len__`: 0 without fields. -/
def Field.len (h : Heap) : Field → Nat
  | .leaf _ _ o _ _ _ => objLen h o
  | .coll _ no _ fs => if fs.isEmpty then no else lenL fs
where lenL : List Field → Nat
  | [] => 0
  | f :: _ => Field.len h f

def collLen (h : Heap) (fs : List Field) : Nat := Field.len.lenL h fs

/-- `CollectionField._num_rows()`: the length of the collection, or — for a collection without
fields, which has no field to take it from — the `num_obs` the field remembers -/
def collRows (h : Heap) (no : Nat) (fs : List Field) : Nat := if fs.isEmpty then no else collLen h fs

/-! ### `subset` -/

/-- `FieldType.subset(idx, memo)` / `CollectionField._subset`, then `num_obs = len(data)` -/
def subsetField (idx : Index) : Field → St → M (Field × St)
  | .leaf n k o _ u l, s =>
    let r := if k.isPlain || k == .sigma then subsetPlain idx o s else subsetObj idx (s.heap.length + 1) o s
    match r with
    | .error e => .error e
    | .ok (o', s') => .ok (.leaf n k o' (objLen s'.heap o') u l, s')
  | .coll n no l fs, s =>
    match subsetFields fs s with
    | .error e => .error e
    | .ok (fs', s') =>
      if fs'.isEmpty then
        -- `CollectionField.subset` of a collection without fields: `len(np.arange(num_rows)[idx])`
        match pick idx (List.range no) with
        | .error e => .error e
        | .ok sel => .ok (.coll n sel.length l fs', s')
      else .ok (.coll n (collLen s'.heap fs') l fs', s')
where subsetFields : List Field → St → M (List Field × St)
  | [], s => .ok ([], s)
  | f :: fs, s =>
    match subsetField idx f s with
    | .error e => .error e
    | .ok (f', s') =>
      match subsetFields fs s' with
      | .error e => .error e
      | .ok (fs', s'') => .ok (f' :: fs', s'')

/-- `Dataset.subset(idx)` (after the `fix:`: the declared count is the number of selected rows) -/
def dsSubset (idx : Index) (h : Heap) (d : DS) : M (Heap × DS) :=
  match subsetField.subsetFields idx d.fields { heap := h } with
  | .error e => .error e
  | .ok (fs, s) =>
    -- `self._num_obs = len(np.arange(self._num_obs)[idx])`
    match pick idx (List.range d.numObs) with
    | .error e => .error e
    | .ok sel => .ok (s.heap, { numObs := sel.length, fields := fs })

/-! ### `extend` -/

/-- The parameters of the model that are computed from the real code: the pint conversion factors
`Unit(from, to)` as a finite table, and the epoch-by-epoch time scale / format conversion (`Conv`). -/
structure Units where
  table : List (String × String × Rat) := []
  conv : Conv := []
  deriving Repr, Inhabited

def Units.factor (us : Units) (fr to : String) : Option Rat :=
  if fr == to then some 1 else (us.table.find? (fun t => t.1 == fr && t.2.1 == to)).map (·.2.2)

def scaleScalar (f : Rat) : Scalar → Scalar
  | .num q => .num (q * f)
  | x => x

/-- `other.data * factors`: column `j` times `factors[j]` (for sigma: values and sigmas alike) -/
def scaleRow (fs : List Rat) (r : Row) : Row :=
  let n := fs.length
  if n == 0 then r else (r.zipIdx).map (fun (x, i) => scaleScalar (fs.getD (i % n) 1) x)

/-- the unit handling shared by `FloatField._extend` and `SigmaField._extend` -/
def unitFactors (us : Units) (selfU otherU : Option (List String)) : M (List Rat) :=
  match selfU, otherU with
  | none, none => .ok []
  | some su, some ou =>
    match (ou.zip su).mapM (fun (fr, to) => us.factor fr to) with
    | some fs => .ok fs
    | none => .error .unit
  | _, _ => .error .unit

/-- formats that have no value for the empty epoch `datetime.min` (`TimeGPSWeekSec` / `TimeGPSSec._from_jds`: "Julian
Day exceeds the GPS time start date"): a time field in such a format cannot be padded, `insert` of the empty epochs
raises `ValueError` (a refusal; with no row to add nothing is converted and nothing raised) -/
def padRefused (n : Nat) (ob : Obj) : Bool :=
  n != 0 && ob.kind == .time && ["gps_ws", "gps_seconds"].contains ((ob.tag.splitOn "/").getLastD "")

/-- `FieldType.prepend_empty` / `append_empty` (`front = true` is prepend) of `n` rows (after the
`fix:` 352fb79 there is no shortcut for `n = 0`: the array is re-created and the memo consulted
also when nothing is added, which keeps shared objects shared) -/
def padField (front : Bool) (n : Nat) : Field → St → M (Field × St)
  | f, s =>
    match f with
    | .leaf nm k o no u l =>
      let pos := if front then 0 else no
      match s.heap[o]? with
      | none => .error .dangling
      | some ob =>
        -- (model guard; and the refusal to pad a time in a GPS-only format)
        -- (the refusal only arises when the empty epochs are really built: `insert` looks `a` up in the memo first, a
        -- field whose array was already extended under another name is served from the memo and never padded)
        if ob.kind != k || (padRefused n ob && (s.find o).isNone) then
          (if ob.kind != k then .error .unsupported else .error .value) else
        let r : M (Nat × St) :=
          if k.isPlain then insertPlain o pos (List.replicate n (emptyRow k ob.cols)) s
          else if k.isDelta then
            -- `empty_ref_pos`, `empty = PositionDelta(nan, ref_pos=empty_ref_pos)`, both popped afterwards
            let (er, s0) := s.alloc (emptyObj k.refKind 2 (if k == .posvelDelta then 6 else 3) n)
            let (e, s1) := s0.alloc { emptyObj k ob.ndim ob.cols n with refPos := some er }
            match insertObj (s1.heap.length + 1) o pos e s1 with
            | .error err => .error err
            | .ok (r, s') => .ok (r, (s'.pop e).pop er)
          else
            let (e, s1) := s.alloc (emptyObj k ob.ndim ob.cols n)
            match insertObj (s1.heap.length + 1) o pos e s1 with
            | .error err => .error err
            | .ok (r, s') => .ok (r, s'.pop e)
        match r with
        | .error e => .error e
        | .ok (o', s') => .ok (.leaf nm k o' (objLen s'.heap o') u l, s')
    | .coll nm no l fs =>
      match padFields fs s with
      | .error e => .error e
      | .ok (fs', s') => .ok (.coll nm (if fs'.isEmpty then no + n else collLen s'.heap fs') l fs', s')
where padFields : List Field → St → M (List Field × St)
  | [], s => .ok ([], s)
  | f :: fs, s =>
    match padField front n f s with
    | .error e => .error e
    | .ok (f', s') =>
      match padFields fs s' with
      | .error e => .error e
      | .ok (fs', s'') => .ok (f' :: fs', s'')

/-- `FieldType.extend(other_field, memo)` of a leaf: type check, per-type `_extend`,
`num_obs = len(data)` -/
def extendLeaf (us : Units) (nm : String) (k : Kind) (o no : Nat) (u : Option (List String)) (l : Nat)
    (g : Field) (s : St) : M (Field × St) :=
  match g with
  | .coll .. => .error .value
  | .leaf _ k2 o2 _ u2 _ =>
    if k != k2 then .error .value else
    match s.heap[o]?, s.heap[o2]? with
    | some oa, some ob =>
      if oa.kind != k || ob.kind != k then .error .unsupported else   -- (model guard)
      let r : M (Nat × St) :=
        if k.isDelta then insertObj (s.heap.length + 1) o no o2 s
        else if oa.ndim != ob.ndim then .error .value
        else if k == .float then
          match unitFactors us u u2 with
          | .error e => .error e
          | .ok fs => if oa.cols != ob.cols then .error .value else insertPlain o no (ob.rows.map (scaleRow fs)) s
        else if k == .sigma then
          match unitFactors us u u2 with
          | .error e => .error e
          | .ok fs =>
            -- `other.data * factors` is a fresh SigmaArray
            let (t, s0) := s.alloc { ob with rows := ob.rows.map (scaleRow fs) }
            insertObj (s0.heap.length + 1) o no t s0
        else if k.isPlain then
          if oa.cols != ob.cols then .error .value else insertPlain o no ob.rows s
        else insertObj (s.heap.length + 1) o no o2 s
      match r with
      | .error e => .error e
      | .ok (o', s') => .ok (.leaf nm k o' (objLen s'.heap o') u l, s')
    | _, _ => .error .dangling

/-- second loop of `Collection._extend`: `for name in self._fields: if name in only_in_self:
self._fields[name].append_empty(len(other), memo)` (after the `fix:` in field order) -/
def appendLoop (p : String → Bool) (n : Nat) : List Field → St → M (List Field × St)
  | [], s => .ok ([], s)
  | f :: fs, s =>
    let r : M (Field × St) := if p f.name then padField false n f s else .ok (f, s)
    match r with
    | .error e => .error e
    | .ok (f', s') =>
      match appendLoop p n fs s' with
      | .error e => .error e
      | .ok (fs', s'') => .ok (f' :: fs', s'')

/-- membership test of `only_in_self` (`otherLen` is no longer looked at — `fix:` 352fb79 — and is
kept as an argument only so that callers read like the source) -/
def onlyInSelf (selfKeys otherKeys : List String) (_otherLen : Nat) (n : String) : Bool :=
  selfKeys.contains n && !otherKeys.contains n

/-- the tail of `Collection._extend` once the loop over `other` is done -/
def extendFinish (selfKeys otherKeys : List String) (otherLen : Nat) (r : M (List Field × St)) : M (List Field × St) :=
  match r with
  | .error e => .error e
  | .ok (self1, s1) => appendLoop (onlyInSelf selfKeys otherKeys otherLen) otherLen self1 s1

/-- `self._fields[name].extend(other._fields[name], memo)`; for collections
`Collection._extend(other, memo)` (after the `fix:`s: both lengths are taken once, before the
loop; the append loop runs in field order; a collection only in `other` is copied, not shared). -/
def extendField (us : Units) : Field → Field → St → M (Field × St)
  | .leaf nm k o no u l, g, s => extendLeaf us nm k o no u l g s
  | .coll _ _ _ _, .leaf .., _ => .error .value
  | .coll nm no l fs, .coll _ no2 _ gs, s =>
    let selfLen := collRows s.heap no fs
    let otherLen := collRows s.heap no2 gs
    match extendFinish (names fs) (names gs) otherLen (loop1 (names fs) selfLen fs gs s) with
    | .error e => .error e
    | .ok (fs', s') => .ok (.coll nm (if fs'.isEmpty then selfLen + otherLen else collLen s'.heap fs') l fs', s')
where
  /-- the loop over `other._fields.items()`; `acc` is `self._fields` so far -/
  loop1 (selfKeys : List String) (selfLen : Nat) (acc : List Field) : List Field → St → M (List Field × St)
    | [], s => .ok (acc, s)
    | g :: gs, s =>
      let r : M (Field × St) :=
        if !selfKeys.contains g.name || selfLen == 0 then padField true selfLen g s
        else
          match getField acc g.name with
          | none => .error .dangling
          | some f => extendField us f g s
      match r with
      | .error e => .error e
      | .ok (f', s') => loop1 selfKeys selfLen (setField acc f') gs s'

/-- `Collection._extend(other, memo)` with `selfLen = len(self)`, `otherLen = len(other)` -/
def extendFields (us : Units) (selfLen otherLen : Nat) (self other : List Field) (s : St) : M (List Field × St) :=
  extendFinish (names self) (names other) otherLen (extendField.loop1 us (names self) selfLen self other s)

/-- `Dataset.extend(other)` -/
def dsExtend (us : Units) (h : Heap) (d e : DS) : M (Heap × DS) :=
  match extendFields us d.numObs e.numObs d.fields e.fields { heap := h, conv := us.conv } with
  | .error err => .error err
  | .ok (fs, s) => .ok (s.heap, { numObs := d.numObs + e.numObs, fields := fs })

end Midgard.Dataset
