/-
C10 — model of `midgard.data._h5utils`: the type-tagged literal encoding of meta information
(`encode_h5attr` / `decode_h5attr`, after the `fix:`).

Level of the model: Python's `str(data)` followed by `ast.parse` is represented by the syntax tree
the parser builds (`Ast`); the characters in between — quoting and escaping of strings, digits of
numbers — are CPython's `repr` / tokenizer and are *not* modelled (trusted to be inverse on
literals).  What is modelled is everything `_h5utils` itself decides: the type tag, the special
spellings of empty containers, which Python values `str()` prints as bare names (`nan`, `inf`,
`-inf`, `True`, `False`, `None`) and how the decoder turns those names back into values.
-/
namespace Midgard.H5Attr

/-- atoms of a meta tree -/
inductive Atom
  | int (i : Int)
  | flt (q : Rat)          -- a finite float (its exact value)
  | nan | inf | ninf
  | str (s : String)
  | bool (b : Bool)
  | none
  deriving DecidableEq, Repr, Inhabited

/-- JSON-like meta information: nestings of dicts, lists, tuples, sets over atoms -/
inductive Meta
  | atom (a : Atom)
  | list (xs : List Meta)
  | tuple (xs : List Meta)
  | set (xs : List Meta)
  | dict (kvs : List (Meta × Meta))
  deriving Repr, Inhabited

/-- what `ast.parse(str(data))` yields -/
inductive Ast
  | int (n : Nat)                 -- a non-negative integer literal
  | flt (q : Rat)                 -- a non-negative float literal
  | str (s : String)
  | name (s : String)             -- a bare identifier: nan, inf, True, False, None
  | neg (a : Ast)                 -- unary minus
  | list (xs : List Ast)
  | tuple (xs : List Ast)
  | set (xs : List Ast)           -- a non-empty set display
  | dict (kvs : List (Ast × Ast))
  | call (f : String)             -- `set()` — how `str` prints the empty set
  deriving Repr, Inhabited

/-- `str(atom)` as the parser sees it -/
def atomAst : Atom → Ast
  | .int i => if i < 0 then .neg (.int (-i).toNat) else .int i.toNat
  | .flt q => if q < 0 then .neg (.flt (-q)) else .flt q
  | .nan => .name "nan"
  | .inf => .name "inf"
  | .ninf => .neg (.name "inf")
  | .str s => .str s
  | .bool true => .name "True"
  | .bool false => .name "False"
  | .none => .name "None"

/-- `str(data)` of a nested container, as the parser sees it -/
def toAst : Meta → Ast
  | .atom a => atomAst a
  | .list xs => .list (toAsts xs)
  | .tuple xs => .tuple (toAsts xs)
  | .set xs => match xs with
    | [] => .call "set"
    | _ :: _ => .set (toAsts xs)
  | .dict kvs => .dict (toAstKVs kvs)
where
  toAsts : List Meta → List Ast
    | [] => []
    | x :: xs => toAst x :: toAsts xs
  toAstKVs : List (Meta × Meta) → List (Ast × Ast)
    | [] => []
    | (k, v) :: r => (toAst k, toAst v) :: toAstKVs r

/-- the decoder's evaluation of a parsed literal (after the `fix:`: the names `nan` / `inf` are
replaced by float constants *in the tree*, then `ast.literal_eval`) -/
def evalAst : Ast → Option Meta
  | .int n => some (.atom (.int n))
  | .flt q => some (.atom (.flt q))
  | .str s => some (.atom (.str s))
  | .name s =>
    if s == "nan" then some (.atom .nan)
    else if s == "inf" then some (.atom .inf)
    else if s == "True" then some (.atom (.bool true))
    else if s == "False" then some (.atom (.bool false))
    else if s == "None" then some (.atom .none)
    else none                                   -- literal_eval: malformed node
  | .neg a =>
    match a with
    | .int n => some (.atom (.int (-(n : Int))))
    | .flt q => some (.atom (.flt (-q)))
    | .name s => if s == "inf" then some (.atom .ninf) else if s == "nan" then some (.atom .nan) else none
    | _ => none
  | .list xs => (evalAsts xs).map .list
  | .tuple xs => (evalAsts xs).map .tuple
  | .set xs => (evalAsts xs).map .set
  | .dict kvs => (evalKVs kvs).map .dict
  | .call f => if f == "set" then some (.set []) else none
where
  evalAsts : List Ast → Option (List Meta)
    | [] => some []
    | x :: xs => match evalAst x, evalAsts xs with
      | some a, some r => some (a :: r)
      | _, _ => none
  evalKVs : List (Ast × Ast) → Option (List (Meta × Meta))
    | [] => some []
    | (k, v) :: r => match evalAst k, evalAst v, evalKVs r with
      | some a, some b, some t => some ((a, b) :: t)
      | _, _, _ => none

/-- what is stored in the HDF5 attribute -/
inductive Attr
  | tagged (tag : String) (text : Ast)   -- `"<tag> " + str(data)`
  | strAttr (s : String)                 -- `"str " + data`
  | native (a : Atom)                    -- handed to h5py as it is (numbers, booleans)
  deriving Repr, Inhabited

/-- `encode_h5attr`: dispatch on `type(data).__name__`; `None` (dtype object) cannot be saved -/
def encode : Meta → Option Attr
  | .list xs => some (.tagged "list" (toAst (.list xs)))
  | .tuple xs => some (.tagged "tuple" (toAst (.tuple xs)))
  | .set xs => some (.tagged "set" (toAst (.set xs)))
  | .dict kvs => some (.tagged "dict" (toAst (.dict kvs)))
  | .atom (.str s) => some (.strAttr s)
  | .atom .none => none
  | .atom a => some (.native a)

/-- `decode_h5attr`: split the tag off, dispatch `_h5attr2<tag>`; anything without a known tag is
returned as it is -/
def decode : Attr → Option Meta
  | .tagged _ t => evalAst t
  | .strAttr s => some (.atom (.str s))
  | .native a => some (.atom a)

/-- normal form of the numbers in a meta tree: a float that is written as `flt q` is what Python
prints with a decimal point; nothing else is assumed -/
def Meta.size : Meta → Nat
  | .atom _ => 1
  | .list xs => 1 + sizes xs
  | .tuple xs => 1 + sizes xs
  | .set xs => 1 + sizes xs
  | .dict kvs => 1 + sizesKV kvs
where
  sizes : List Meta → Nat
    | [] => 0
    | x :: xs => Meta.size x + sizes xs
  sizesKV : List (Meta × Meta) → Nat
    | [] => 0
    | (k, v) :: r => Meta.size k + Meta.size v + sizesKV r

end Midgard.H5Attr
