/-
C11 — model of `midgard.parsers.rinex3_obs.Rinex3Parser` (on `Model/ChainParser.lean`).

Header handlers (all of them: strings, floats, integers, comments, position, observation-type lists
with continuation lines, first/last observation time, leap seconds, phase shifts, GLONASS slots and
biases, DCBS/PCVS), the epoch / observation state machine with its per-epoch cache, the sampling-rate
test, `_float`, the post-processors (`_remove_empty_systems`, `_remove_empty_obstype_fields`,
`_time_system_correction`; `_unit_conversion` is off by default and not modelled).
The `parser_def` tables are `Midgard.Generated.Rinex3ObsCols.header / records`.
-/
import Midgard.Model.RinexObs
import Midgard.Generated.Rinex3ObsCols

namespace Midgard.Rinex3Obs
open Midgard.Text Midgard.FixedCol Midgard.ChainParser Midgard.Decimal Midgard.RinexObs

/-- the per-group `cache` dictionary (header group and epoch groups use disjoint keys) -/
structure Cache where
  /-- `cache["sys"]`, `cache["obstypes"]` (SYS / # / OBS TYPES) -/
  sys : Option Str := none
  obstypes : Option (List Str) := none
  /-- `cache["sat_sys"]`, `["obs_type"]`, `["corr"]`, `["sat"]` (SYS / PHASE SHIFT) -/
  psSys : Option Str := none
  psType : Option Str := none
  psCorr : Option Str := none
  psSat : Option (List Str) := none
  /-- epoch line seen in this group -/
  epoch : Option EpochInfo := none
  deriving Repr, DecidableEq

structure State where
  metaD : Meta := []
  data : Data := {}
  obstypesAll : List Str := []
  timeScale : String := "gps"
  /-- `self.sampling_rate` -/
  rate : Option Rat := none
  cache : Cache := {}
  deriving Repr, DecidableEq

def getv (v : Values) (k : String) : Except Err Str := req (v.get k)

/-! ### Header handlers -/

/-- `_parse_string` -/
def parseString (v : Values) (s : State) : State :=
  { s with metaD := v.foldl (fun m (k, t) => m.set [key k] (.text t)) s.metaD }

/-- `_parse_float`: all fields convert, then `meta.update` -/
def parseFloatFields (v : Values) (s : State) : Except Err State := do
  let nums ← v.mapM fun (k, t) => do
    let q ← pyFloat t
    pure (k, q)
  pure { s with metaD := nums.foldl (fun m (k, q) => m.set [key k] (.num q)) s.metaD }

/-- `_parse_integer` -/
def parseIntegerFields (v : Values) (s : State) : Except Err State := do
  let nums ← v.mapM fun (k, t) => do
    let i ← pyInt t
    pure (k, i)
  pure { s with metaD := nums.foldl (fun m (k, i) => m.set [key k] (.int i)) s.metaD }

/-- `_parse_comment` -/
def parseComment (v : Values) (s : State) : Except Err State := do
  let t ← getv v "comment"
  let old := match s.metaD.get [key "comment"] with
    | some (.list l) => l
    | _ => []
  pure { s with metaD := s.metaD.set [key "comment"] (.list (old ++ [t])) }

/-- `_parse_approx_position` -/
def parseApproxPosition (v : Values) (s : State) : Except Err State := do
  let x ← pyFloat (← getv v "pos_x")
  let y ← pyFloat (← getv v "pos_y")
  let z ← pyFloat (← getv v "pos_z")
  parseFloatFields v { s with data := { s.data with pos := some [x, y, z] } }

/-- one `type_nn` field of a `SYS / # / OBS TYPES` line (the body of the loop of `_parse_sys_obs_types`) -/
def sysObsStep (acc : Except Err State) (f : String × Str) : Except Err State := do
  let st ← acc
  if f.2 = [] then pure st else do
    let lst ← req st.cache.obstypes
    let sy ← req st.cache.sys
    let lst' := lst ++ [f.2]
    pure { st with
      cache := { st.cache with obstypes := some lst' },
      obstypesAll := if st.obstypesAll.contains f.2 then st.obstypesAll else st.obstypesAll ++ [f.2],
      metaD := st.metaD.set [key "obstypes", sy] (.list lst'),
      data := st.data.declareType f.2 }

/-- `_parse_sys_obs_types` -/
def parseSysObsTypes (v : Values) (s : State) : Except Err State := do
  let sysf ← getv v "satellite_sys"
  let d0 : Data := { s.data with hasObs := true }
  let m0 := s.metaD.setdefaultDict [key "obstypes"]
  let c0 : Cache := if sysf ≠ [] then { s.cache with sys := some sysf, obstypes := some [] } else s.cache
  (fieldsWithPrefix v "type_").foldl sysObsStep (pure { s with data := d0, metaD := m0, cache := c0 })

def timeString (v : Values) : Except Err Str := do
  let y ← pyInt (← getv v "year")
  let mo ← pyInt (← getv v "month")
  let d ← pyInt (← getv v "day")
  let h ← pyInt (← getv v "hour")
  let mi ← pyInt (← getv v "minute")
  let sec ← pyFloat (← getv v "second")
  pure (isoTime y mo d h mi sec)

/-- the `time_sys` bookkeeping shared by first/last (`if line["time_sys"] not in self.meta`) -/
def setTimeSys (ts : Str) (m : Meta) : Meta :=
  if m.has [ts] then m else m.set [key "time_sys"] (.text ts)

/-- `_parse_time_of_first_obs` -/
def parseTimeOfFirstObs (v : Values) (s : State) : Except Err State := do
  let ts ← getv v "time_sys"
  let m := setTimeSys ts s.metaD
  let y ← getv v "year"
  if y ≠ [] then do
    let t ← timeString v
    pure { s with metaD := m.set [key "time_first_obs"] (.text t) }
  else pure { s with metaD := m }

/-- `_parse_time_of_last_obs` -/
def parseTimeOfLastObs (v : Values) (s : State) : Except Err State := do
  let ts ← getv v "time_sys"
  let m := if ts ≠ [] then setTimeSys ts s.metaD else s.metaD
  let y ← getv v "year"
  if y ≠ [] then do
    let t ← timeString v
    pure { s with metaD := m.set [key "time_last_obs"] (.text t) }
  else pure { s with metaD := m }

/-- `_parse_leap_seconds` -/
def parseLeapSeconds (v : Values) (s : State) : State :=
  { s with metaD := v.foldl (fun m (k, t) => m.set [key "leap_seconds", key k] (.text t)) s.metaD }

/-- `_parse_phase_shift` -/
def parsePhaseShift (v : Values) (s : State) : Except Err State := do
  let m0 := s.metaD.setdefaultDict [key "phase_shift"]
  let sysf ← getv v "sat_sys"
  let c ← if sysf ≠ [] then do
      let t ← getv v "obs_type"
      let corr ← getv v "correction"
      pure { s.cache with psSys := some sysf, psType := some t, psCorr := some corr, psSat := some [] }
    else pure s.cache
  let sy ← req c.psSys
  let m1 := if m0.has [key "phase_shift", sy] then m0 else m0.set [key "phase_shift", sy] .empty
  let sats ← getv v "satellites"
  let old ← req c.psSat
  let satl := old ++ split sats
  let c' := { c with psSat := some satl }
  let t ← req c'.psType
  let m2 ← if t ≠ [] then do
      let corr ← req c'.psCorr
      pure ((m1.set [key "phase_shift", sy, t, key "corr"] (.text corr)).set [key "phase_shift", sy, t, key "sat"] (.list satl))
    else pure m1
  pure { s with metaD := m2, cache := c' }

/-- `_parse_glonass_slot` -/
def parseGlonassSlot (v : Values) (s : State) : Except Err State := do
  let m0 := s.metaD.setdefaultDict [key "glonass_slot"]
  let step (acc : Except Err Meta) (f : String × Str) : Except Err Meta := do
    let m ← acc
    if f.2 = [] then pure m else
      match split f.2 with
      | slot :: freq :: _ => do
        let i ← pyInt freq
        pure (m.set [key "glonass_slot", slot] (.int i))
      | _ => throw .other
  let m ← (fieldsWithPrefix v "slot_").foldl step (pure m0)
  pure { s with metaD := m }

/-- `_parse_glonass_code_phase_bias` -/
def parseGlonassBias (v : Values) (s : State) : Except Err State := do
  let m0 := s.metaD.setdefaultDict [key "glonass_bias"]
  let step (acc : Except Err Meta) (f : String × Str) : Except Err Meta := do
    let m ← acc
    if f.2 = [] then pure m else
      match split f.2 with
      | t :: bias :: _ => do
        let q ← pyFloat bias
        pure (m.set [key "glonass_bias", t] (.num q))
      | _ => throw .other
  let m ← (fieldsWithPrefix v "type_").foldl step (pure m0)
  pure { s with metaD := m }

/-- `_parse_sys_dcbs_applied` / `_parse_sys_pcvs_applied` -/
def parseApplied (name : String) (v : Values) (s : State) : Except Err State := do
  let sy ← getv v "sat_sys"
  let prg ← getv v "program"
  let url ← getv v "source"
  -- `{sys: {...}}` replaces the whole inner dictionary
  let m := (s.metaD.del [key name, sy])
  pure { s with metaD := (m.set [key name, sy, key "prg"] (.text prg)).set [key name, sy, key "url"] (.text url) }

/-! ### Epoch and observation records -/

def isNumeric (s : Str) : Bool := !s.isEmpty && s.all isDigit

/-- `_parse_observation_epoch` -/
def parseObservationEpoch (v : Values) (s : State) : Except Err State := do
  let ytxt ← getv v "year"
  if !isNumeric ytxt then pure s else do
  let com ← getv v "comment"
  -- columns 61–80 of an epoch record are blank: anything there is a header label (special record of an event)
  if com ≠ [] then pure s else do
  let y ← pyInt ytxt
  let mo ← pyInt (← getv v "month")
  let d ← pyInt (← getv v "day")
  let h ← pyInt (← getv v "hour")
  let mi ← pyInt (← getv v "minute")
  let sec ← pyFloat (← getv v "second")
  let obsTime := isoTime y mo d h mi sec
  let obsSec : Rat := (h : Rat) * 3600 + (mi : Rat) * 60 + sec
  let flag ← pyInt (← getv v "epoch_flag")
  let clk ← floatOpt (← getv v "rcv_clk_offset")
  let kept : Option Rat := match s.rate with
    | some r => if r ≠ 0 ∧ offGrid obsSec r then none else some obsSec
    | none => some obsSec
  let us := (datasetMicros y mo d h mi sec).getD 0
  pure { s with cache := { s.cache with epoch := some ⟨obsTime, us, kept, flag, clk⟩ } }

/-- the `k`-th 16-character observation field of the (left-justified) record body -/
def obsField (body : Str) (k : Nat) : Str := Text.slice (16 * k) (16 * k + 16) body

/-- the texts `value[0:14]`, `value[14:15]`, `value[15:16]` of the `n` 16-character fields of
`line["obs"].ljust(16 * n)` -/
def obsTriples (n : Nat) (obs : Str) : List (Str × Str × Str) :=
  let body := ljust (16 * n) obs
  (List.range n).map fun k =>
    let f := obsField body k
    (Text.slice 0 14 f, Text.slice 14 15 f, Text.slice 15 16 f)

/-- `_parse_observation` -/
def parseObservation (v : Values) (s : State) : Except Err State := do
  let e ← req s.cache.epoch
  match e.obsSec with
  | none => pure s
  | some _ =>
    let sat ← getv v "sat"
    let obs ← getv v "obs"
    let sy ← req (sat.head?.map fun c => [c])
    let types ← match s.metaD.get [key "obstypes", sy] with
      | some (.list l) => pure l
      | _ => throw .other
    -- `_float` of value / LLI / SNR of every type of the system, then one append per type …
    let vals ← (types.zip (obsTriples types.length obs)).mapM fun (tf : Str × Str × Str × Str) => do
      let val ← floatOpt tf.2.1
      let lli ← floatOpt tf.2.2.1
      let snr ← floatOpt tf.2.2.2
      pure (tf.1, val, lli, snr)
    let d1 ← appendAll s.data vals
    -- … and one NaN triple for every type of the file that the system does not have
    let unused := s.obstypesAll.filter fun t => !types.contains t
    let d2 ← appendAll d1 (unused.map fun t => (t, none, none, none))
    let station ← match s.metaD.get [key "marker_name"] with
      | some (.text t) => pure (lower t)
      | _ => throw .other
    pure { s with data := d2.appendRow e station sy sat (Text.slice 1 3 sat) }

def handle (name : String) (v : Values) (s : State) : Except Err State :=
  if name = "_parse_string" then pure (parseString v s)
  else if name = "_parse_comment" then parseComment v s
  else if name = "_parse_float" then parseFloatFields v s
  else if name = "_parse_integer" then parseIntegerFields v s
  else if name = "_parse_approx_position" then parseApproxPosition v s
  else if name = "_parse_sys_obs_types" then parseSysObsTypes v s
  else if name = "_parse_time_of_first_obs" then parseTimeOfFirstObs v s
  else if name = "_parse_time_of_last_obs" then parseTimeOfLastObs v s
  else if name = "_parse_leap_seconds" then pure (parseLeapSeconds v s)
  else if name = "_parse_phase_shift" then parsePhaseShift v s
  else if name = "_parse_glonass_slot" then parseGlonassSlot v s
  else if name = "_parse_glonass_code_phase_bias" then parseGlonassBias v s
  else if name = "_parse_sys_dcbs_applied" then parseApplied "dcbs_applied" v s
  else if name = "_parse_sys_pcvs_applied" then parseApplied "pcvs_applied" v s
  else if name = "_parse_scale_factor" then pure s
  else if name = "_parse_observation_epoch" then parseObservationEpoch v s
  else if name = "_parse_observation" then parseObservation v s
  else throw .other

/-! ### The two `ParserDef`s -/

def headerParser : ParserDef State where
  endMarker := fun line _ _ => Text.slice 60 73 line = "END OF HEADER".toList
  skipLine := fun _ => false
  label := fun line _ => asString (strip (sliceFrom 60 line))
  defs := Midgard.Generated.Rinex3ObsCols.header
  handle := handle

def alphaAt (line : Str) (i : Nat) : Bool :=
  match Text.slice i (i + 1) line with
  | [c] => c.isAlpha
  | _ => false

/-- `line[0:1].isalpha() and not line.startswith(">") and not line[60:61].isalpha()` -/
def obsLabel (line : Str) : String :=
  if alphaAt line 0 && !startsWith ['>'] line && !alphaAt line 60 then "True" else "False"

def obsParser : ParserDef State where
  endMarker := fun _ _ next => startsWith ['>'] next
  skipLine := fun _ => false
  label := fun line _ => obsLabel line
  defs := Midgard.Generated.Rinex3ObsCols.records
  handle := handle

def resetCache (s : State) : State := { s with cache := {} }

/-! ### Post-processors -/

/-- `_remove_empty_systems` -/
def removeEmptySystems (s : State) : State :=
  let syss := s.metaD.keysAt [key "obstypes"]
  { s with metaD := syss.foldl (fun m sy => if s.data.system.contains sy then m else m.del [key "obstypes", sy]) s.metaD }

/-- `_remove_empty_obstype_fields` -/
def removeEmptyObstypeFields (s : State) : State :=
  let systems := s.data.system.eraseDups
  let removeAll := (s.data.obs.filter fun (_, col) => col.isEmpty || allNan col).map (·.1)
  let removeSys : List (Str × Str) := s.data.obs.flatMap fun (t, col) =>
    (systems.filter fun sy => allNanFor col s.data.system sy).map fun sy => (sy, t)
  let dropFrom (m : Meta) (sy t : Str) : Meta :=
    match m.get [key "obstypes", sy] with
    | some (.list l) => m.set [key "obstypes", sy] (.list (removeFirst l t))
    | _ => m
  let m1 := removeAll.foldl (fun m t => (m.keysAt [key "obstypes"]).foldl (fun m sy => dropFrom m sy t) m) s.metaD
  let d1 := removeAll.foldl (fun d t => d.dropType t) s.data
  let m2 := removeSys.foldl (fun m (sy, t) => dropFrom m sy t) m1
  { s with metaD := m2, data := d1 }

/-- `_time_system_correction` (GPS and GLO; the other time systems are refused by `log.fatal`
upstream and are outside the model) -/
def timeSystemCorrection (s : State) : Except Err State :=
  match s.metaD.get [key "time_sys"] with
  | some (.text t) => pure (if t = "GLO".toList then { s with timeScale := "utc" } else s)
  | _ => throw .other

inductive Outcome
  | ok (s : State)
  /-- `KeyError('text')`: no row survived (e.g. every epoch decimated) -/
  | noRows
  | error (e : Err)

/-- what `parse()` does after `read_data`: the `KeyError`s of an observation-free file, then the
post-processors `_remove_empty_systems`, `_remove_empty_obstype_fields`, `_time_system_correction` -/
def finish (s : State) : Outcome :=
  if !s.metaD.has [key "obstypes"] then .error .other
  else if s.data.time.isEmpty then .noRows
  else
    match timeSystemCorrection (removeEmptyObstypeFields (removeEmptySystems s)) with
    | .ok s' => .ok s'
    | .error e => .error e

/-- `Rinex3Parser(file, sampling_rate=rate).parse()` -/
def parseLines (rate : Option Rat) (lines : List Str) : Outcome :=
  match readData headerParser obsParser resetCache lines true 0 { rate := rate } with
  | .error e => .error e
  | .ok s => finish s

def parseText (rate : Option Rat) (text : Str) : Outcome := parseLines rate (fileLines text)

end Midgard.Rinex3Obs
