/-
C03 — array operands, NumPy broadcasting and the heap of `midgard.data._time` arithmetic.

`Model/TimeArith.lean` mirrors which parts of two *epochs/durations* each result part is built from.  This file lifts it to
what the operators really receive: a scalar or a one-dimensional array on each side (`self.jd1 + other.jd1` broadcasts), and
places the operands on a heap of array buffers with a `writeable` flag, so that "no arithmetic or constructor call changes the
operands or the caller's input arrays" is a statement about states (a frame condition) and not only about values.

* `Val`, `broadcast2`, `binopV`  — scalar/array operands, NumPy's broadcasting rule for 0- or 1-dimensional operands (equal lengths
  pair up, a length-1 array and a scalar stretch, anything else is the `ValueError` NumPy raises), the eight operator branches.
* `Cell`, `Heap`, `Part`, `Obj`  — buffers with contents and flag; an object holds its two parts either as Python floats
  (immutable, `imm`) or as references to buffers.
* `binopH`, `ctorH`              — the operators and the duration constructors as heap transformers: read the operand buffers,
  allocate the result buffers (frozen, as `TimeBase.__new__` does).  `ctorH` has the parameter `writes`: when it is set the
  constructor rescales the caller's first buffer in place — the behaviour of `TimeDelta(fmt="seconds")` before the `fix:` commit
  (`val *= Unit.second2day`).  The check instantiates it with what the `ast` scan of the tree under test finds
  (`Generated/TimePurity.lean`: in-place operations on parameters).
-/
import Midgard.Model.TimeArith

namespace Midgard.TimeArith

instance : Inhabited JD := ⟨⟨0, 0⟩⟩

/-- an operand as the operators see it: `jd1`/`jd2` are Python floats, or arrays of equal length -/
inductive Val
  | scalar (j : JD)
  | array (js : List JD)
  deriving Repr, DecidableEq

/-- number of elements an operand contributes (`1` for a scalar) -/
def Val.size : Val → Nat
  | .scalar _ => 1
  | .array js => js.length

/-- element `i` under broadcasting: a scalar and a length-1 array give their only element for every `i` -/
def Val.getB : Val → Nat → JD
  | .scalar j, _ => j
  | .array js, i => if js.length = 1 then js.getD 0 default else js.getD i default

/-- NumPy broadcasting of `f` over two 0- or 1-dimensional operands; `none` = "operands could not be broadcast together" -/
def broadcast2 (f : JD → JD → JD) : Val → Val → Option Val
  | .scalar a, .scalar b => some (.scalar (f a b))
  | .scalar a, .array bs => some (.array (bs.map (f a)))
  | .array as, .scalar b => some (.array (as.map (fun a => f a b)))
  | .array as, .array bs =>
    if as.length = bs.length then some (.array (List.zipWith f as bs))
    else if as.length = 1 then some (.array (bs.map (f (as.getD 0 default))))
    else if bs.length = 1 then some (.array (as.map (fun a => f a (bs.getD 0 default))))
    else none

/-- the part-by-part function and the kind of the result for an operator and operand kinds (`none`: `NotImplemented`) -/
def binopFn : Op → Kind → Kind → Option (Kind × (JD → JD → JD))
  | .add, .time, .delta => some (.time, tAddD)
  | .add, .time, .time => none
  | .sub, .time, .delta => some (.time, tSubD)
  | .sub, .time, .time => some (.delta, tSubT)
  | .add, .delta, .delta => some (.delta, dAddD)
  | .add, .delta, .time => some (.time, dAddT)
  | .sub, .delta, .time => none
  | .sub, .delta, .delta => some (.delta, dSubD)

/-- result of an operator on scalar/array operands -/
inductive ResV
  | notImplemented
  | shapeError
  | ok (k : Kind) (v : Val)
  deriving Repr, DecidableEq

/-- `__add__` / `__sub__` of `TimeArray` / `TimeDeltaArray` on scalar or array operands: scale guard first, then the branch
on the kind of the other operand, then NumPy's elementwise arithmetic on both parts -/
def binopV (op : Op) (ka : Kind) (sa : Scale) (a : Val) (kb : Kind) (sb : Scale) (b : Val) : ResV :=
  if sa ≠ sb then .notImplemented else
  match binopFn op ka kb with
  | none => .notImplemented
  | some (k, f) =>
    match broadcast2 f a b with
    | none => .shapeError
    | some v => .ok k v

/-- a duration constructor on a scalar or an array of values; `val2` must have the shape of `val`
(`TimeBase.__new__`: "'val2' must have the same shape as 'val'"), `none` = that `ValueError` -/
def toJdsV (f : DFmt) : Val → Val → Option Val
  | .scalar a, .scalar b => some (.scalar (f.toJds a.jd1 b.jd1))
  | .array as, .array bs =>
    if as.length = bs.length then some (.array (List.zipWith (fun a b => f.toJds a.jd1 b.jd1) as bs)) else none
  | _, _ => none

/-- `val2 is None`: zeros of the shape of `val` -/
def Val.zerosLike : Val → Val
  | .scalar _ => .scalar ⟨0, 0⟩
  | .array js => .array (js.map (fun _ => ⟨0, 0⟩))

/-! ### The heap -/

/-- an array buffer: contents and `flags.writeable` -/
structure Cell where
  data : List Rat
  writable : Bool
  deriving Repr, DecidableEq

abbrev Heap := List Cell

/-- where one part (`jd1` or `jd2`, `val` or `val2`) of an object lives -/
inductive Part
  | imm (x : Rat)        -- a Python float: immutable
  | ref (a : Nat)        -- an ndarray: buffer number `a` of the heap
  deriving Repr, DecidableEq

/-- a time or duration object -/
structure Obj where
  kind : Kind
  scale : Scale
  p1 : Part
  p2 : Part
  deriving Repr, DecidableEq

def Heap.read (h : Heap) : Part → Option (Sum Rat (List Rat))
  | .imm x => some (.inl x)
  | .ref a => (h[a]?).map (fun c => .inr c.data)

/-- the operand value of two parts: both floats, or two arrays of the same length -/
def Heap.readVal (h : Heap) (p1 p2 : Part) : Option Val :=
  match h.read p1, h.read p2 with
  | some (.inl x), some (.inl y) => some (.scalar ⟨x, y⟩)
  | some (.inr xs), some (.inr ys) => if xs.length = ys.length then some (.array (List.zipWith JD.mk xs ys)) else none
  | _, _ => none

/-- store a result: floats stay floats, arrays go into two *new* buffers, frozen (`TimeBase.__new__`: `jd1.flags.writeable = False`) -/
def Heap.allocVal (h : Heap) : Val → Heap × Part × Part
  | .scalar j => (h, .imm j.jd1, .imm j.jd2)
  | .array js => (h ++ [⟨js.map (·.jd1), false⟩, ⟨js.map (·.jd2), false⟩], .ref h.length, .ref (h.length + 1))

inductive ResH
  | notImplemented
  | shapeError
  | badOperand
  | ok (o : Obj)
  deriving Repr, DecidableEq

/-- an arithmetic operator as a heap transformer -/
def binopH (h : Heap) (op : Op) (a b : Obj) : Heap × ResH :=
  match h.readVal a.p1 a.p2, h.readVal b.p1 b.p2 with
  | some va, some vb =>
    match binopV op a.kind a.scale va b.kind b.scale vb with
    | .notImplemented => (h, .notImplemented)
    | .shapeError => (h, .shapeError)
    | .ok k v =>
      let (h', q1, q2) := h.allocVal v
      (h', .ok ⟨k, a.scale, q1, q2⟩)
  | _, _ => (h, .badOperand)

/-- one constructor argument (`val` or `val2`) as a column of values: a float, or the contents of a buffer -/
def Heap.readCol (h : Heap) (p : Part) : Option Val :=
  match h.read p with
  | some (.inl x) => some (.scalar ⟨x, 0⟩)
  | some (.inr xs) => some (.array (xs.map (fun x => ⟨x, 0⟩)))
  | none => none

/-- overwrite the contents of buffer `a` (what an in-place operator on a caller's array does) -/
def Heap.write (h : Heap) (a : Nat) (f : List Rat → List Rat) : Heap :=
  h.modify a (fun c => ⟨f c.data, c.writable⟩)

/-- a duration constructor `TimeDelta(val, val2, fmt)` as a heap transformer (`val2 = none`: not given).  With `writes` the
`seconds` format rescales the caller's first array in place before using it (pre-fix behaviour; the resulting duration is the
same). -/
def ctorH (writes : Bool) (h : Heap) (f : DFmt) (s : Scale) (val : Part) (val2 : Option Part) : Heap × ResH :=
  match h.readCol val, (match val2 with | some p => h.readCol p | none => (h.readCol val).map Val.zerosLike) with
  | some v, some v2 =>
    match toJdsV f v v2 with
    | none => (h, .shapeError)
    | some r =>
      let h1 := match writes, f, val with
        | true, .seconds, .ref a => h.write a (fun xs => xs.map (· / day2sec))
        | _, _, _ => h
      let (h', q1, q2) := h1.allocVal r
      (h', .ok ⟨.delta, s, q1, q2⟩)
  | _, _ => (h, .badOperand)


/-! ### The epoch constructors `Time(val, val2, fmt=…)` on the heap

The arithmetic of a format's `_to_jds` on one element is a parameter (`split`; C02 proves what it denotes): what matters here
is *where the result lives*.  Every branch of every `_to_jds` of the tree computes `jd1`/`jd2` into new arrays, which
`TimeBase.__new__` then freezes.  The switch `aliases` is the other possibility — a `_to_jds` that hands its arguments on
un-copied when nothing has to be moved between the parts: the caller's buffers become the object's `jd1`/`jd2` and are frozen.
The check instantiates it with the `return` class of `Generated/TimePurity.lean`. -/

/-- `TimeJD._to_jds` on one element: the two-part date re-split at midnight -/
def splitMidnight (v v2 : Rat) : JD :=
  let δ := v - (((v + v2 - 1 / 2).floor : Rat) + 1 / 2)
  ⟨v - δ, v2 + δ⟩

/-- `TimeMJD._to_jds` on one element -/
def splitMjd (v v2 : Rat) : JD :=
  let δ := v - (((v + v2 - 1 / 2).floor : Rat) + 1 / 2)
  ⟨4800001 / 2 + v - δ, v2 + δ⟩

/-- a constructor's `_to_jds` element by element; `val2` must have the shape of `val` -/
def splitV (split : Rat → Rat → JD) : Val → Val → Option Val
  | .scalar a, .scalar b => some (.scalar (split a.jd1 b.jd1))
  | .array as, .array bs =>
    if as.length = bs.length then some (.array (List.zipWith (fun a b => split a.jd1 b.jd1) as bs)) else none
  | _, _ => none

/-- the two columns as they were given, as a two-part value -/
def asGiven : Val → Val → Val
  | .scalar a, .scalar b => .scalar ⟨a.jd1, b.jd1⟩
  | .array as, .array bs => .array (List.zipWith (fun a b => ⟨a.jd1, b.jd1⟩) as bs)
  | v, _ => v

/-- set `flags.writeable = False` on buffer `a` -/
def Heap.freeze (h : Heap) (a : Nat) : Heap := h.modify a (fun c => ⟨c.data, false⟩)

/-- an epoch constructor as a heap transformer -/
def ctorTimeH (aliases : Bool) (split : Rat → Rat → JD) (h : Heap) (s : Scale) (val : Part) (val2 : Option Part) : Heap × ResH :=
  match h.readCol val, (match val2 with | some p => h.readCol p | none => (h.readCol val).map Val.zerosLike) with
  | some v, some v2 =>
    match splitV split v v2 with
    | none => (h, .shapeError)
    | some r =>
      match aliases && decide (r = asGiven v v2), val, val2 with
      | true, .ref a, some (.ref b) => ((h.freeze a).freeze b, .ok ⟨.time, s, .ref a, .ref b⟩)
      | true, .ref a, none =>
        let z : Cell := ⟨(match v2 with | .array js => js.map (·.jd1) | .scalar _ => []), false⟩
        (h.freeze a ++ [z], .ok ⟨.time, s, .ref a, .ref h.length⟩)
      | _, _, _ =>
        let (h', q1, q2) := h.allocVal r
        (h', .ok ⟨.time, s, q1, q2⟩)
  | _, _ => (h, .badOperand)

/-- a part of an object that is stored outside the first `n` buffers (or is a float) -/
def Part.freshFrom (n : Nat) : Part → Prop
  | .imm _ => True
  | .ref a => n ≤ a


/-! ### Python's operator dispatch around `__add__` / `__sub__`

`a + b` calls `a.__add__(b)`; when that returns `NotImplemented` and the operands are of different classes, `b.__radd__(a)`;
when that returns `NotImplemented` too, `TypeError`.  The scale classes (`UtcTimeDelta`, `GpsTimeDelta`, …) are different
classes, so a refused mixed-scale operation always reaches the reflected method of the right operand.  In the source all
reflected and in-place methods are stubs that return `NotImplemented` (`reflRefuses`, regenerated from the `ast`:
`Generated.TimePurity.operators`); the other value of the switch is a `TimeDeltaArray.__radd__` that accepts a left operand
for which `np.any` is false (meant for the start value 0 of `sum()`), which a zero duration of any scale is as well. -/

/-- an operand as Python sees it: one of the time / duration classes, or a plain number (`isZero`: it is 0, e.g. the start
value of `sum()`) -/
inductive Operand
  | obj (k : Kind) (s : Scale) (v : Val)
  | plain (isZero : Bool)
  deriving Repr, DecidableEq

inductive ResP
  | typeError            -- both methods returned NotImplemented
  | attributeError       -- `self.scale != other.scale` on an operand without `.scale`
  | shapeError
  | ok (k : Kind) (s : Scale) (v : Val)
  deriving Repr, DecidableEq

/-- `not np.any(x)` of a duration: every element is the zero duration (an empty array as well) -/
def Val.noneNonzero : Val → Bool
  | .scalar j => decide (j.inst = 0)
  | .array js => js.all (fun j => decide (j.inst = 0))

/-- the reflected method of the right operand, `right.__radd__(left)` / `right.__rsub__(left)`; `none` = NotImplemented -/
def reflected (reflRefuses : Bool) (op : Op) (left right : Operand) : Option ResP :=
  if reflRefuses then none else
  match op, right with
  | .add, .obj .delta s v =>
    let falsy := match left with
      | .plain z => z
      | .obj _ _ lv => lv.noneNonzero
    if falsy then some (.ok .delta s v) else none
  | _, _ => none

/-- the `+` / `-` expression -/
def pyBinop (reflRefuses : Bool) (op : Op) (a b : Operand) : ResP :=
  match a, b with
  | .obj ka sa va, .obj kb sb vb =>
    match binopV op ka sa va kb sb vb with
    | .ok k v => .ok k sa v
    | .shapeError => .shapeError
    | .notImplemented =>
      if ka = kb ∧ sa = sb then .typeError      -- same class: Python does not try the reflected method
      else (reflected reflRefuses op a b).getD .typeError
  | .obj _ _ _, .plain _ => .attributeError      -- the scale guard comes first in all four methods
  | .plain _, _ => (reflected reflRefuses op a b).getD .typeError   -- int.__add__ does not know the class

/-- `sum(ds)`: `0 + ds[0] + ds[1] + …`, stopping at the first error (`none`: an empty list sums to the plain 0) -/
def pySum (reflRefuses : Bool) : List Operand → Option ResP
  | [] => none
  | d :: rest =>
    some (rest.foldl (fun acc x => match acc with
      | .ok k s v => pyBinop reflRefuses .add (.obj k s v) x
      | e => e) (pyBinop reflRefuses .add (.plain true) d))

end Midgard.TimeArith
