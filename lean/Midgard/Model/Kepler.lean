/-
C07 — model of `transformation.trs2kepler`, `transformation.kepler2trs` and of
`KeplerPosVel.M` / `KeplerPosVel.f` (`midgard/data/position.py`), as coded, polymorphic in the
number type (see `Model/Vec3.lean`).  `GM` is a parameter (the harness passes
`constant.GM` from `midgard/math/constant.txt`).
-/
import Midgard.Model.Rotation

namespace Midgard.Geo

/-- Keplerian elements, one row of a `(n, 6)` kepler array: `a, e, i, Omega, omega, E` -/
structure Kep (α : Type) where
  a : α
  e : α
  i : α
  Omega : α
  omega : α
  E : α
  deriving Repr, DecidableEq

section K2T
variable {α : Type} [Add α] [Sub α] [Mul α] [Div α] [Neg α] [Zero α] [One α]

/-- `kepler2trs` from the sine/cosine values of the four angles, `fac = sqrt((1-e)(1+e))` and
`g = sqrt(GM * a)`:
```
r = a * (1 - e * cosE) ; v = sqrt(GM * a) / r
r_orb = [a * (cosE - e), a * fac * sinE, 0] ; v_orb = [-v * sinE, v * fac * cosE, 0]
PQW = R3(-Omega) @ R1(-i) @ R3(-omega)
R, V = PQW @ r_orb, PQW @ v_orb
```
The rotation arguments are `(cos(-x), sin(-x))`, passed in by the caller. -/
def kepler2trsCore (a e fac g : α) (cO sO' ci si' cw sw' cE sE : α) : V6 α :=
  let r := a * (1 - e * cE)
  let v := g / r
  let rOrb : V3 α := ⟨a * (cE - e), a * fac * sE, 0⟩
  let vOrb : V3 α := ⟨-v * sE, v * fac * cE, 0⟩
  let pqw := ((R3cs cO sO').mul (R1cs ci si')).mul (R3cs cw sw')
  ⟨pqw.mulVec rOrb, pqw.mulVec vOrb⟩

variable [Trig α]

/-- `transformation.kepler2trs` (one row) -/
def kepler2trs (GM : α) (k : Kep α) : V6 α :=
  kepler2trsCore k.a k.e (Trig.sqrt ((1 - k.e) * (1 + k.e))) (Trig.sqrt (GM * k.a))
    (Trig.cos (-k.Omega)) (Trig.sin (-k.Omega)) (Trig.cos (-k.i)) (Trig.sin (-k.i))
    (Trig.cos (-k.omega)) (Trig.sin (-k.omega)) (Trig.cos k.E) (Trig.sin k.E)

/-- `KeplerPosVel.M`: `E - e * sin(E)` -/
def meanAnomaly (e E : α) : α := E - e * Trig.sin E

/-- `KeplerPosVel.f`: `arctan2(sqrt(1 - e**2) * sin(E), cos(E) - e)` -/
def trueAnomaly (e E : α) : α := Trig.atan2 (Trig.sqrt (1 - e * e) * Trig.sin E) (Trig.cos E - e)

variable [LT α] [DecidableRel (α := α) (· < ·)]

/-- `transformation.trs2kepler` (one row):
```
h = r × v ; h_unit = h / |h|
i = arctan2(sqrt(h_x**2 + h_y**2), h_z) ; Omega = arctan2(h_x, -h_y)
a = 1 / (2 / |r| - |v|**2 / GM) ; p = |h|**2 / GM ; e = sqrt(1 - p / a) ; n = sqrt(GM / a**3)
E = arctan2(r · v, a**2 * n * (1 - |r| / a))
vega = arctan2(sqrt(1 - e**2) * sin(E), cos(E) - e)
u = arctan2(z, -x * h_y + y * h_x) ; omega = u - vega ; if omega < 0: omega += 2 pi
``` -/
def trs2kepler (GM : α) (w : V6 α) : Kep α :=
  let rN := w.p.norm
  let vN := w.v.norm
  let h := V3.cross w.p w.v
  let hN := h.norm
  let hu := h.sdiv hN
  let i := Trig.atan2 (Trig.sqrt (hu.x * hu.x + hu.y * hu.y)) hu.z
  let Omega := Trig.atan2 hu.x (-hu.y)
  let a := 1 / ((1 + 1) / rN - vN * vN / GM)
  let p := hN * hN / GM
  let e := Trig.sqrt (1 - p / a)
  let n := Trig.sqrt (GM / cube a)
  let E := Trig.atan2 (V3.dot w.p w.v) (a * a * n * (1 - rN / a))
  let vega := Trig.atan2 (Trig.sqrt (1 - e * e) * Trig.sin E) (Trig.cos E - e)
  let u := Trig.atan2 w.p.z (-w.p.x * hu.y + w.p.y * hu.x)
  let omega := u - vega
  let twoPi : α := (1 + 1) * Trig.pi
  ⟨a, e, i, Omega, if omega < 0 then omega + twoPi else omega, E⟩

end K2T

end Midgard.Geo
