/-
File level of the SINEX model: `SinexParser.read_data` (header line, `parse_blocks`, then the block
parsers in `setup_parser()` order) for the base class and for `sinex_site`,
`sinex_discontinuities`, `sinex_events`, `sinex_tro`, `sinex_tms`.

`none` everywhere means "the real code raises".
-/
import Midgard.Model.Sinex

namespace Midgard.Sinex
open Midgard.Text Midgard.Decimal Midgard.FixedCol

/-- the lines of a file (`for line in fid`), without terminators -/
def fileLines (text : Str) : List Str :=
  let ls := splitOn '\n' text
  match ls.reverse with
  | [] :: rest => rest.reverse
  | _ => ls

structure Parsed where
  hdr : Row
  raws : List RawBlock
  deriving Inhabited

/-- header line + `parse_blocks`; `total` is the end column of the last field of the header -/
def readRaw (tag : Str) (header : List FieldDef) (headerTotal : Str → Nat) (blocks : List BlockDef)
    (text : Str) : Option Parsed :=
  match fileLines text with
  | [] => Option.none                       -- `next(fid)` on an empty file
  | h :: body =>
    let hdr : Row :=
      if startsWith tag h then
        (if (dropComment h).isEmpty then [] else parseLine header (headerTotal h) h)
      else []
    (findBlocks (blocks.map (·.marker)) body).map fun raws => ⟨hdr, raws⟩

def rawOf (raws : List RawBlock) (marker : String) : Option RawBlock := raws.find? (·.marker = marker)

/-- rows of a raw block under its definition -/
def rowsOf (b : BlockDef) (total : Nat) (r : RawBlock) : List Row := parseLines b.fields total r.lines

def metaVal (m : Row) : Val := rowVal m

/-! ### base class: default and matrix block parsers -/

def matrixVal (b : BlockDef) (sz : String) (blocks : List BlockDef) (look : String → Option RawBlock)
    (r : RawBlock) : Option Val :=
  -- `parser(data, *params)` with the signature `(data, lower_upper, type="")`
  match r.params with
  | [] => Option.none
  | _ :: _ :: _ :: _ => Option.none
  | lu :: rest =>
    let typ : Str := rest.headD []
    let rows := rowsOf b 81 r
    let lines := rows.map matLineOf
    let sizeRows : Option Nat :=
      match blocks.find? (·.marker = sz), look sz with
      | some sb, some sr => some (rowsOf sb 81 sr).length
      | _, _ => Option.none
    (matrixOf (triOf lu) sizeRows lines).map fun M =>
      .dict [("matrix", .mat M), ("type", .cell (.str typ))]

/-- what the factory parser of block `b` returns for the raw block `r` (`look` finds the raw block
of another marker: the matrix parsers read the size block) -/
def blockVal (blocks : List BlockDef) (look : String → Option RawBlock) (b : BlockDef) (r : RawBlock) : Option Val :=
  match b.kind with
  | .dflt => some (.dict (columns b.fields (rowsOf b 81 r)))
  | .matrix sz => matrixVal b sz blocks look r
  | .custom _ => Option.none

/-- one step of the loop over `self.sinex_blocks` in `read_data` -/
def baseStep (blocks : List BlockDef) (look : String → Option RawBlock) (acc : List (String × Val)) (b : BlockDef) :
    Option (List (String × Val)) :=
  match look b.marker with
  | Option.none => some acc
  | some r => (blockVal blocks look b r).map fun v => dset acc b.marker v

/-- `self.data` of a parser that only uses the factory parsers; `look m` = `self._sinex.get(m)` -/
def assembleBase (blocks : List BlockDef) (look : String → Option RawBlock) : Option (List (String × Val)) :=
  blocks.foldlM (baseStep blocks look) []

/-! ### sinex_site -/

def siteTableVal (T : SiteTable) : Val :=
  .dict (T.map fun (site, entries) =>
    (site, .dict (entries.map fun (e, rows) =>
      if e = "site_id" then (e, rowVal (rows.headD [])) else (e, .list (rows.map rowVal)))))

/-- `add_dict["antenna_type"], add_dict["radome_type"] = d["antenna_type"].rsplit(" ", maxsplit=1)` -/
def antennaRow (r : Row) : Option Row :=
  (rsplit1 (cellStr (lookup r "antenna_type"))).map fun (a, rad) =>
    (r.map fun (k, c) => if k = "antenna_type" then (k, Cell.str a) else (k, c)) ++ [("radome_type", .str rad)]

/-- `parse_file_comment`: the last `LOCAL_GEODETIC_DATUM…:<frame>` comment; `none` = `IndexError` -/
def refFrame (rows : List Row) : Option (Option Str) :=
  rows.foldlM (fun acc r =>
    let s := cellStr ((r.headD ("", .none)).2)
    if startsWith "LOCAL_GEODETIC_DATUM".toList s then
      match splitOn ':' s with
      | _ :: p :: _ => some (some (strip p))
      | _ => Option.none
    else some acc) Option.none

/-- the text after the first `.parse_` of a character list -/
def afterParse : Str → Option Str
  | [] => Option.none
  | c :: rest => if startsWith ".parse_".toList (c :: rest) then some ((c :: rest).drop 7) else afterParse rest

/-- `SinexSiteParser.parse_site_id` ↦ `site_id`: the name of the block parser method (from the translator)
without class and `parse_` -/
def entryName (qual : String) : String :=
  match afterParse qual.toList with
  | some n => asString n
  | Option.none => qual

/-- one block of `SinexSiteParser` applied to (site table, reference frame of the FILE/COMMENT block) -/
def siteStep (look : String → Option RawBlock) (st : SiteTable × Option Str) (b : BlockDef) :
    Option (SiteTable × Option Str) :=
  match look b.marker, b.kind with
  | some r, .custom q =>
    let rows := rowsOf b 81 r
    let e := entryName q
    if e = "file_comment" then (refFrame rows).map fun fr => (st.1, fr)
    else if e = "site_id" then some (regroup true e siteKey id st.1 rows, st.2)
    else if e = "site_antenna" then (rows.mapM antennaRow).map fun rows' => (regroup false e siteKey id st.1 rows', st.2)
    else some (regroup false e siteKey id st.1 rows, st.2)
  | some _, _ => Option.none
  | Option.none, _ => some st

/-- `_add_ref_frame_to_solution_estimate`: sites with a four-character key get the frame in every
`solution_estimate` row -/
def addRefFrame (frame : Option Str) (T : SiteTable) : SiteTable :=
  match frame with
  | Option.none => T
  | some fr =>
    T.map fun (site, entries) =>
      if site.length = 4 then
        (site, entries.map fun (e, rows) =>
          if e = "solution_estimate" then (e, rows.map fun r => dset r "ref_frame" (Cell.str fr)) else (e, rows))
      else (site, entries)

def assembleSite (blocks : List BlockDef) (look : String → Option RawBlock) : Option Val :=
  (blocks.foldlM (siteStep look) ([], Option.none)).map fun st => siteTableVal (addRefFrame st.2 st.1)

/-! ### sinex_discontinuities, sinex_events -/

def dropSiteCode (r : Row) : Row := r.filter (·.1 ≠ "site_code")

/-- one block of `DiscontinuitiesSnxParser` / `EventsSnxParser`: every row goes under its site, without `site_code` -/
def discStep (look : String → Option RawBlock) (T : SiteTable) (b : BlockDef) : Option SiteTable :=
  match look b.marker, b.kind with
  | some r, .custom q => some (regroup false (entryName q) siteKey dropSiteCode T (rowsOf b 81 r))
  | some _, _ => Option.none
  | Option.none, _ => some T

def assembleDisc (blocks : List BlockDef) (look : String → Option RawBlock) : Option Val :=
  (blocks.foldlM (discStep look) []).map siteTableVal

/-! ### sinex_tro -/

/-- `dict.update` of cell dictionaries -/
def updateRow (old new : Row) : Row := new.foldl (fun d (k, c) => dset d k c) old

/-- `self.data.update({keyword: value})` of one TROP/DESCRIPTION row -/
def troDescStep (D : List (String × Val)) (row : Row) : List (String × Val) :=
  dset D (asString (cellStr (lookup row "keyword"))) (.cell (lookup row "value"))

/-- the cell dictionary stored under a key (empty when the key is absent or holds something else) -/
def cellsOf (D : List (String × Val)) (k : String) : Row :=
  match dget? D k with
  | some (.dict kvs) => kvs.filterMap fun (k, v) => match v with | .cell c => some (k, c) | _ => Option.none
  | _ => []

/-- `self.data.setdefault(sta, dict()); self.data[sta].update(row without site_name)` of one TROP/SOLUTION row -/
def troSolStep (D : List (String × Val)) (row : Row) : List (String × Val) :=
  let sta := asString (cellStr (lookup row "site_name"))
  dset D sta (rowVal (updateRow (cellsOf D sta) (row.filter (·.1 ≠ "site_name"))))

/-- one block of `SinexTropParser` applied to `self.data` -/
def troStep (look : String → Option RawBlock) (D : List (String × Val)) (b : BlockDef) : Option (List (String × Val)) :=
  match look b.marker with
  | Option.none => some D
  | some r =>
    let rows := rowsOf b 81 r
    match b.kind with
    | .dflt => some (dset D b.marker (.dict (columns b.fields rows)))
    | .matrix _ => Option.none
    | .custom q =>
      let e := entryName q
      if e = "trop_description" then some (rows.foldl troDescStep D)
      else if e = "trop_solution" then some (rows.foldl troSolStep D)
      else Option.none

def assembleTro (blocks : List BlockDef) (look : String → Option RawBlock) : Option (List (String × Val)) :=
  blocks.foldlM (troStep look) []

/-! ### sinex_tms -/

/-- `SinexTmsParser.parse_lines`, fixed-width mode: the last field ends at the end of the longest
line of the block (`max_char`, which counts the line terminator) instead of column 81 -/
def rowsOfTms (b : BlockDef) (r : RawBlock) : List Row := parseLines b.fields (maxChar r.lines) r.lines

/-- `SinexTmsParser.parse_lines`, whitespace mode (`fields[0].converter == "list"`):
`np.genfromtxt(lines, delimiter=None, dtype=None, autostrip=True, comments=None)` cuts every line at
runs of whitespace, skips lines without a token and raises when a line has another number of
tokens than the first one -/
def wsRows (lines : List Str) : Option (List (List Str)) :=
  let rows := (lines.map split).filter (fun r => !r.isEmpty)
  if rows.all (fun r => r.length == (rows.headD []).length) then some rows else Option.none

/-- the `j`-th token of every row -/
def column (j : Nat) (rows : List (List Str)) : List Str := rows.map (·.getD j [])

/-- `data.T` in `parse_timeseries_data` (after `np.array(data.tolist())`, with one row per record — also
for a single column, see fix e19789d): one list per column, as many columns as the first record has tokens -/
def wsColumns (rows : List (List Str)) : List (List Str) :=
  (List.range (rows.headD []).length).map fun j => column j rows

/-- column names of `parse_timeseries_data` that stay text -/
def dtypeStr : List Str := ["YYYY-MM-DD".toList, "YYYY-DDD".toList]

/-- `col.astype(str | float)`.  Domain of the model: a text column holds tokens that are not numbers
(NumPy would re-print a number), a float column holds decimal numbers (`none`: `astype(float)`
raises on other text; `nan`, `inf`, `1_0`, `0x10` are outside the model). -/
def tmsCol (name : Str) (col : List Str) : Option Val :=
  if dtypeStr.contains name then
    (if col.all (fun t => (parseFloat t).isNone) then some (.col (col.map Cell.str)) else Option.none)
  else (col.mapM parseFloat).map fun qs => .col (qs.map fun q => Cell.flt (some q))

/-- `parse_timeseries_data`: `zip(names, data.T)`, key = lower-cased name -/
def tmsData (names : List Str) (lines : List Str) : Option (List (String × Val)) :=
  (wsRows lines).bind fun rows =>
    (names.zip (wsColumns rows)).foldlM
      (fun D (nc : Str × List Str) => (tmsCol nc.1 nc.2).map fun v => dset D (asString (lower nc.1)) v) []

/-- `add_dict["antenna_type"], add_dict["radome_type"] = d["antenna_type"].split()` (exactly two words) -/
def antennaRowTms (r : Row) : Option Row :=
  match split (cellStr (lookup r "antenna_type")) with
  | [a, rad] =>
    some ((r.map fun (k, c) => if k = "antenna_type" then (k, Cell.str a) else (k, c)) ++ [("radome_type", .str rad)])
  | _ => Option.none

/-- `parse_file_reference`: `{d[0].split()[0].lower(): d[1]}` per row (`none` = `IndexError`) -/
def fileRefTms (rows : List Row) : Option (List (String × Val)) :=
  rows.foldlM (fun D r =>
    match split (cellStr ((r.getD 0 ("", .none)).2)) with
    | [] => Option.none
    | w :: _ => some (dset D (asString (lower w)) (.cell ((r.getD 1 ("", .none)).2)))) []

/-- `self.data["timeseries_columns"]["name"]` (`none` = `KeyError`) -/
def tmsNames (D : List (String × Val)) : Option (List Str) :=
  match dget? D "timeseries_columns" with
  | some (.dict kvs) =>
    match dget? kvs "name" with
    | some (.col cs) => some (cs.map cellStr)
    | _ => Option.none
  | _ => Option.none

/-- `self.data.setdefault(key, list())` followed by `.append` of every row -/
def appendRows (D : List (String × Val)) (key : String) (rows : List Row) : List (String × Val) :=
  let old : List Val := match dget? D key with | some (.list vs) => vs | _ => []
  dset D key (.list (old ++ rows.map rowVal))

/-- one block parser of `SinexTmsParser` applied to `self.data` -/
def tmsStep (look : String → Option RawBlock) (D : List (String × Val)) (b : BlockDef) : Option (List (String × Val)) :=
  match look b.marker, b.kind with
  | Option.none, _ => some D
  | some r, .custom q =>
    let e := entryName q
    if e = "timeseries_data" then
      (tmsNames D).bind fun names => (tmsData names r.lines).map fun d =>
        let old : List (String × Val) := match dget? D "timeseries_data" with | some (.dict kvs) => kvs | _ => []
        dset D "timeseries_data" (.dict (d.foldl (fun acc kv => dset acc kv.1 kv.2) old))
    else
      let rows := rowsOfTms b r
      if e = "file_reference" then
        (fileRefTms rows).map fun d =>
          let old : List (String × Val) := match dget? D "file_reference" with | some (.dict kvs) => kvs | _ => []
          dset D "file_reference" (.dict (d.foldl (fun acc kv => dset acc kv.1 kv.2) old))
      else if e = "site_antenna" then (rows.mapM antennaRowTms).map fun rows' => appendRows D e rows'
      else if e = "site_id" ∨ e = "site_receiver" ∨ e = "site_eccentricity" then some (appendRows D e rows)
      else if e = "timeseries_ref_coordinate" then
        match rows with
        | [row] => some (dset D "ref_coordinate" (rowVal row))       -- `data.item()`: exactly one record
        | _ => Option.none
      else if e = "timeseries_columns" then some (dset D e (.dict (columns b.fields rows)))
      else Option.none
  | some _, _ => Option.none

/-- `self.data` of `SinexTmsParser` -/
def assembleTms (blocks : List BlockDef) (look : String → Option RawBlock) : Option (List (String × Val)) :=
  blocks.foldlM (tmsStep look) []

/-! ### whole files -/

structure Result where
  hdr : Row
  data : Val
  deriving Inhabited

/-- `parser.parse()`: header line, `parse_blocks`, then the block parsers in `setup_parser()` order;
`assemble` gets `self._sinex.get` -/
def parseWith (tag : Str) (header : List FieldDef) (headerTotal : Str → Nat) (blocks : List BlockDef)
    (assemble : (String → Option RawBlock) → Option Val) (text : Str) : Option Result :=
  (readRaw tag header headerTotal blocks text).bind fun p => (assemble (rawOf p.raws)).map fun v => ⟨p.hdr, v⟩

def snxTag : Str := "%=SNX".toList
def tmsTag : Str := "%=TMS".toList

/-- a base-class parser declaring `blocks` -/
def parseBaseFile (header : List FieldDef) (blocks : List BlockDef) (text : Str) : Option Result :=
  parseWith snxTag header (fun _ => 81) blocks (fun look => (assembleBase blocks look).map .dict) text

def parseSiteFile (header : List FieldDef) (blocks : List BlockDef) (text : Str) : Option Result :=
  parseWith snxTag header (fun _ => 81) blocks (assembleSite blocks) text

def parseDiscFile (header : List FieldDef) (blocks : List BlockDef) (text : Str) : Option Result :=
  parseWith snxTag header (fun _ => 81) blocks (assembleDisc blocks) text

def parseTroFile (header : List FieldDef) (blocks : List BlockDef) (text : Str) : Option Result :=
  parseWith snxTag header (fun _ => 81) blocks (fun look => (assembleTro blocks look).map .dict) text

/-- `SinexTmsParser`: the header's last field ends at the end of the header line (terminator counted) -/
def parseTmsFile (header : List FieldDef) (blocks : List BlockDef) (text : Str) : Option Result :=
  parseWith tmsTag header (fun h => h.length + 1) blocks (fun look => (assembleTms blocks look).map .dict) text

end Midgard.Sinex
