/-
File level of the SINEX model: `SinexParser.read_data` (header line, `parse_blocks`, then the block
parsers in `setup_parser()` order) for the base class and for `sinex_site`,
`sinex_discontinuities`, `sinex_events`, `sinex_tro`, `sinex_tms`.

`none` everywhere means "the real code raises".
-/
import Midgard.Model.Sinex

namespace Midgard.Sinex
open Midgard.Text Midgard.Decimal Midgard.FixedCol

/-- the lines of a file (`for line in fid`), without terminators -/
def fileLines (text : Str) : List Str :=
  let ls := splitOn '\n' text
  match ls.reverse with
  | [] :: rest => rest.reverse
  | _ => ls

structure Parsed where
  hdr : Row
  raws : List RawBlock
  deriving Inhabited

/-- header line + `parse_blocks`; `total` is the end column of the last field of the header -/
def readRaw (tag : Str) (header : List FieldDef) (headerTotal : Str → Nat) (blocks : List BlockDef)
    (text : Str) : Option Parsed :=
  match fileLines text with
  | [] => Option.none                       -- `next(fid)` on an empty file
  | h :: body =>
    let hdr : Row :=
      if startsWith tag h then
        (if (dropComment h).isEmpty then [] else parseLine header (headerTotal h) h)
      else []
    (findBlocks (blocks.map (·.marker)) body).map fun raws => ⟨hdr, raws⟩

def rawOf (raws : List RawBlock) (marker : String) : Option RawBlock := raws.find? (·.marker = marker)

/-- rows of a raw block under its definition -/
def rowsOf (b : BlockDef) (total : Nat) (r : RawBlock) : List Row := parseLines b.fields total r.lines

def metaVal (m : Row) : Val := rowVal m

/-! ### base class: default and matrix block parsers -/

def matrixVal (b : BlockDef) (sz : String) (blocks : List BlockDef) (raws : List RawBlock)
    (r : RawBlock) : Option Val :=
  -- `parser(data, *params)` with the signature `(data, lower_upper, type="")`
  match r.params with
  | [] => Option.none
  | _ :: _ :: _ :: _ => Option.none
  | lu :: rest =>
    let typ : Str := rest.headD []
    let rows := rowsOf b 81 r
    let lines := rows.map matLineOf
    let sizeRows : Option Nat :=
      match blocks.find? (·.marker = sz), rawOf raws sz with
      | some sb, some sr => some (rowsOf sb 81 sr).length
      | _, _ => Option.none
    (matrixOf (triOf lu) sizeRows lines).map fun M =>
      .dict [("matrix", .mat M), ("type", .cell (.str typ))]

/-- `self.data` of a parser that only uses the factory parsers -/
def assembleBase (blocks : List BlockDef) (raws : List RawBlock) : Option (List (String × Val)) :=
  blocks.foldlM (fun acc b =>
    match rawOf raws b.marker with
    | Option.none => some acc
    | some r =>
      match b.kind with
      | .dflt => some (dset acc b.marker (.dict (columns b.fields (rowsOf b 81 r))))
      | .matrix sz => (matrixVal b sz blocks raws r).map fun v => dset acc b.marker v
      | .custom _ => Option.none) []

/-! ### sinex_site -/

def siteTableVal (T : SiteTable) : Val :=
  .dict (T.map fun (site, entries) =>
    (site, .dict (entries.map fun (e, rows) =>
      if e = "site_id" then (e, rowVal (rows.headD [])) else (e, .list (rows.map rowVal)))))

/-- `add_dict["antenna_type"], add_dict["radome_type"] = d["antenna_type"].rsplit(" ", maxsplit=1)` -/
def antennaRow (r : Row) : Option Row :=
  (rsplit1 (cellStr (lookup r "antenna_type"))).map fun (a, rad) =>
    (r.map fun (k, c) => if k = "antenna_type" then (k, Cell.str a) else (k, c)) ++ [("radome_type", .str rad)]

/-- `parse_file_comment`: the last `LOCAL_GEODETIC_DATUM…:<frame>` comment; `none` = `IndexError` -/
def refFrame (rows : List Row) : Option (Option Str) :=
  rows.foldlM (fun acc r =>
    let s := cellStr ((r.headD ("", .none)).2)
    if startsWith "LOCAL_GEODETIC_DATUM".toList s then
      match splitOn ':' s with
      | _ :: p :: _ => some (some (strip p))
      | _ => Option.none
    else some acc) Option.none

def entryName (qual : String) : String :=
  match qual.splitOn ".parse_" with
  | [_, n] => n
  | _ => qual

def assembleSite (blocks : List BlockDef) (raws : List RawBlock) : Option Val := do
  let mut T : SiteTable := []
  let mut frame : Option Str := Option.none
  for b in blocks do
    match rawOf raws b.marker, b.kind with
    | some r, .custom q =>
      let rows := rowsOf b 81 r
      let e := entryName q
      if e = "file_comment" then
        frame ← refFrame rows
      else if e = "site_id" then
        T := regroup true e siteKey id T rows
      else if e = "site_antenna" then
        let rows' ← rows.mapM antennaRow
        T := regroup false e siteKey id T rows'
      else
        T := regroup false e siteKey id T rows
    | some _, _ => Option.none
    | Option.none, _ => pure ()
  -- `_add_ref_frame_to_solution_estimate`
  match frame with
  | Option.none => pure (siteTableVal T)
  | some fr =>
    let T' : SiteTable := T.map fun (site, entries) =>
      if site.length = 4 then
        (site, entries.map fun (e, rows) =>
          if e = "solution_estimate" then (e, rows.map fun r => dset r "ref_frame" (Cell.str fr)) else (e, rows))
      else (site, entries)
    pure (siteTableVal T')

/-! ### sinex_discontinuities, sinex_events -/

def dropSiteCode (r : Row) : Row := r.filter (·.1 ≠ "site_code")

def assembleDisc (blocks : List BlockDef) (raws : List RawBlock) : Option Val := do
  let mut T : SiteTable := []
  for b in blocks do
    match rawOf raws b.marker, b.kind with
    | some r, .custom q =>
      T := regroup false (entryName q) siteKey dropSiteCode T (rowsOf b 81 r)
    | some _, _ => Option.none
    | Option.none, _ => pure ()
  pure (siteTableVal T)

/-! ### sinex_tro -/

/-- `dict.update` of cell dictionaries -/
def updateRow (old new : Row) : Row := new.foldl (fun d (k, c) => dset d k c) old

def assembleTro (blocks : List BlockDef) (raws : List RawBlock) : Option (List (String × Val)) := do
  let mut D : List (String × Val) := []
  for b in blocks do
    match rawOf raws b.marker with
    | Option.none => pure ()
    | some r =>
      let rows := rowsOf b 81 r
      match b.kind with
      | .dflt => D := dset D b.marker (.dict (columns b.fields rows))
      | .matrix _ => Option.none
      | .custom q =>
        let e := entryName q
        if e = "trop_description" then
          for row in rows do
            D := dset D (asString (cellStr (lookup row "keyword"))) (.cell (lookup row "value"))
        else if e = "trop_solution" then
          for row in rows do
            let sta := asString (cellStr (lookup row "site_name"))
            let rest := row.filter (·.1 ≠ "site_name")
            let old : Row :=
              match dget? D sta with
              | some (.dict kvs) => kvs.filterMap fun (k, v) => match v with | .cell c => some (k, c) | _ => Option.none
              | _ => []
            D := dset D sta (rowVal (updateRow old rest))
        else Option.none
  pure D

end Midgard.Sinex
