/-
C17 — Bernese STA: which TYPE 002 records the writer emits (model of `_get_object_for_date`, `_get_events`, the loop over
`_pairwise(sorted(dates))` of writers/bernese_sta.py).  Dates are integers (seconds); an equipment history is the
list of its entries in dictionary order: `(from, to, cls)`, `cls` identifying what `skip_firmware` compares (receiver type
and serial number).  Mathlib-free; executed by the driver.
-/
import Midgard.Model.Writers

namespace Midgard.WriterSta
open Midgard.Writers

structure Entry where
  from_ : Int
  to_ : Int
  cls : Nat
  deriving DecidableEq, Repr

abbrev Hist := List Entry

/-- `sorted(history.items())`: by `(date_from, date_to)` -/
def entryLe (a b : Entry) : Bool := decide (a.from_ < b.from_) || (decide (a.from_ = b.from_) && decide (a.to_ ≤ b.to_))

/-- `_get_object_for_date`: the first entry, in sorted order, with `date_from <= date < date_to` -/
def objectForDate (d : Int) (h : Hist) : Option Entry :=
  (sortBy entryLe h).find? fun e => decide (e.from_ ≤ d) && decide (d < e.to_)

/-- the receiver entries whose start is an event: with `skip_firmware` not those for which the receiver valid at the start
has the type and serial number of the last one kept (`former_rcv_*`) -/
def rcvEventsFrom (skipFirmware : Bool) (rcv : Hist) : Option Nat → List Entry → List Int
  | _, [] => []
  | former, e :: rest =>
    if skipFirmware then
      match objectForDate e.from_ rcv with
      | some r => if former = some r.cls then rcvEventsFrom skipFirmware rcv former rest
                  else e.from_ :: rcvEventsFrom skipFirmware rcv (some r.cls) rest
      | none => e.from_ :: rcvEventsFrom skipFirmware rcv former rest   -- cannot happen for from < to (AttributeError otherwise)
    else e.from_ :: rcvEventsFrom skipFirmware rcv former rest

def insertDate (d : Int) : List Int → List Int
  | [] => [d]
  | x :: r => if d < x then d :: x :: r else if d = x then x :: r else x :: insertDate d r

/-- `sorted(events.keys())`: ascending, each date once -/
def sortDates (l : List Int) : List Int := l.foldr insertDate []

/-- `_get_events(...)`: start of every receiver (see above), antenna and eccentricity entry, and the end of the last
eccentricity entry (in dictionary order) -/
def eventDates (skipFirmware : Bool) (rcv ant ecc : Hist) : List Int :=
  sortDates (rcvEventsFrom skipFirmware rcv none rcv ++ ant.map (·.from_) ++ ecc.map (·.from_) ++
    (match ecc.getLast? with | some e => [e.to_] | none => []))

/-- the ends of entries after which the history does not go on (no entry starts there): an interruption or the end -/
def closingDates (h : Hist) : List Int :=
  (h.filter fun e => !(h.any fun x => decide (x.from_ = e.to_))).map (·.to_)

/-- the dates between which TYPE 002 records are written: the event dates and the closing dates of the three histories
(so that no record claims equipment beyond the end of its entry) -/
def recordDates (skipFirmware : Bool) (rcv ant ecc : Hist) : List Int :=
  sortDates (eventDates skipFirmware rcv ant ecc ++ closingDates rcv ++ closingDates ant ++ closingDates ecc)

def pairwise : List Int → List (Int × Int)
  | a :: b :: r => (a, b) :: pairwise (b :: r)
  | _ => []

structure Record where
  from_ : Int
  to_ : Int
  rcv : Entry
  ant : Entry
  ecc : Entry
  deriving DecidableEq, Repr

/-- the TYPE 002 records: one per pair of consecutive record dates at whose start a receiver, an antenna and an
eccentricity are defined -/
def staRecords (skipFirmware : Bool) (rcv ant ecc : Hist) : List Record :=
  (pairwise (recordDates skipFirmware rcv ant ecc)).filterMap fun p =>
    match objectForDate p.1 rcv, objectForDate p.1 ant, objectForDate p.1 ecc with
    | some r, some a, some e => some ⟨p.1, p.2, r, a, e⟩
    | _, _, _ => none

end Midgard.WriterSta
