/-
C10 — the `time` attribute of positions.

midgard itself registers one attribute, `other`, for `PositionArray` / `PosVelArray` (`_position.register_attribute`);
users of the library register more — typically `time` — and `_write` / `_read` loop over `_attributes()` in registration
order.  The shared object type (`Dataset.Obj`, C09) has room for one reference per class; here a position's `time` is kept
beside the heap, as a list `tm` (`tm[o]` = the time object attached to object `o`), and `writeArrX` / `readArrX` are
`writeArr` / `readArr` with the second turn of the attribute loop.  With no `time` attached anywhere they are the functions
of `Model/H5Dataset.lean` (`Proofs/H5Time.lean`), which is what the theorems are about; with `time` attached they are tied
to the code by the correspondence only.
-/
import Midgard.Model.H5Meta

namespace Midgard.H5
open Midgard.Dataset

abbrev TM := List (Option Nat)

/-- `getattr(self, "time", None)` -/
def tmOf (tm : TM) (o : Nat) : Option Nat := (tm[o]?).getD none

/-- one turn of the attribute loop of `_write`, for the attribute `nm` with value `x`: nothing (`None`), a reference by name
(the memo knows the object), or an embedded sub-group written by `rec`.  Result: the name, the sub-groups, the memo -/
def slotWrite (rec : Nat → Path → WMemo → M (Grp × WMemo)) (p : Path) (nm : String) (x : Option Nat) (memo : WMemo) :
    M (Option Path × List (String × Grp) × WMemo) :=
  match x with
  | none => .ok (none, [], memo)
  | some x =>
    match memo.lookup x with
    | some name => .ok (some name, [], memo)
    | none =>
      match rec x (p ++ [nm]) ((x, p ++ [nm]) :: memo) with
      | .error e => .error e
      | .ok (g, memo') => .ok (none, [(nm, g)], memo')

/-- `<array>._write(h5_group, memo)` with `PositionArray._attributes() = ["other", "time"]` -/
def writeArrX (h : Heap) (tm : TM) (u : Option (List String)) (l : Nat) : Nat → Nat → Path → WMemo → M (Grp × WMemo)
  | 0, _, _, _ => .error .fuel
  | fuel + 1, o, p, memo =>
    match h[o]? with
    | none => .error .dangling
    | some ob =>
      let a : GAttrs := { fieldname := p, src := o, unit := u, level := l }
      match attrName ob.kind with
      | none => .ok (.mk a (some ob.strip) [], memo)
      | some nm =>
        -- the attribute of the class (`other` / `ref_pos`), as in `writeArr`
        match slotWrite (writeArrX h tm none 3 fuel) p nm ob.ref memo with
        | .error e => .error e
        | .ok (r1, subs1, memo1) =>
          -- then `time` (positions and posvels only: the classes it is registered for)
          match slotWrite (writeArrX h tm none 3 fuel) p "time" (if ob.kind.hasOther then tmOf tm o else none) memo1 with
          | .error e => .error e
          | .ok (r2, subs2, memo2) =>
            .ok (.mk { a with ref := r1, tref := r2 } (some ob.strip) (subs1 ++ subs2), (o, p) :: memo2)

/-- `FieldType.write` / `CollectionField.write` (as `writeField`, over `writeArrX`) -/
def writeFieldX (h : Heap) (tm : TM) (lvl : Nat) : Field → Path → WMemo → M (Grp × WMemo)
  | .leaf nm _ o _ u l, pre, memo =>
    match aliasOf memo o (pre ++ [nm]) with
    | some name =>
      .ok (.mk { fieldname := pre ++ [nm], src := o, unit := u, level := l, sameAs := some name } none [], memo)
    | none =>
    match writeArrX h tm u l (h.length + 1) o (pre ++ [nm]) memo with
    | .error e => .error e
    | .ok (g, memo') =>
      .ok (g, if (memo'.lookup o).isNone then (o, pre ++ [nm]) :: memo' else memo')
  | .coll nm _ l fs, pre, memo =>
    match writeFieldsX fs (pre ++ [nm]) memo with
    | .error e => .error e
    | .ok (subs, mem, memo') => .ok (.mk { fieldname := [nm], level := l, members := mem } none subs, memo')
where
  writeFieldsX : List Field → Path → WMemo → M (List (String × Grp) × List (String × Option Kind) × WMemo)
    | [], _, memo => .ok ([], [], memo)
    | f :: fs, pre, memo =>
      if Field.level f < lvl then writeFieldsX fs pre memo else
      match writeFieldX h tm lvl f pre memo with
      | .error e => .error e
      | .ok (g, memo1) =>
        match writeFieldsX fs pre memo1 with
        | .error e => .error e
        | .ok (subs, mem, memo2) =>
          let ty : Option Kind := match f with
            | .leaf _ k _ _ _ _ => some k
            | .coll .. => none
          .ok ((f.name, g) :: subs, (f.name, ty) :: mem, memo2)

/-- `Dataset.write` -/
def writeDSX (h : Heap) (tm : TM) (d : DS) (lvl : Nat) : M File :=
  match writeFieldX.writeFieldsX h tm lvl d.fields [] (constructMemo lvl d.fields [] []) with
  | .error e => .error e
  | .ok (groups, mem, _) => .ok { numObs := d.numObs, members := mem, groups := groups }

/-! ### read -/

/-- a new array object with its `time` -/
def allocX (s : RSt) (o : Obj) (t : Option Nat) : Nat × RSt :=
  (s.heap.length, { s with heap := s.heap ++ [o], tm := s.tm ++ [t] })

/-- where `_read` finds the `time` of a group: a reference by name or the embedded sub-group `time` -/
def refTargetT (file : File) (a : GAttrs) (subs : List (String × Grp)) : Option (Path × Option Grp) :=
  match a.tref with
  | some name => some (name, lookupGrp file.groups name)
  | none => match subs.lookup "time" with
    | some g => some (a.fieldname ++ ["time"], some g)
    | none => none

/-- `<Array>._read(h5_group, memo)` with `PositionArray._attributes() = ["other", "time"]` -/
def readArrX (file : File) : Nat → Grp → RSt → M (Nat × RSt)
  | 0, _, _ => .error .fuel
  | fuel + 1, .mk a payload subs, s =>
    match payload with
    | none => .error .dangling
    | some ob =>
      match attrName ob.kind with
      | none =>
        let (o, s1) := allocX s ob none
        .ok (o, if ob.kind == .time || ob.kind == .timeDelta then s1.set a.fieldname o else s1)
      | some nm =>
        match readRef (readArrX file fuel) (refTarget file a subs nm) s with
        | .error e => .error e
        | .ok (r, s1) =>
          match readRef (readArrX file fuel) (if ob.kind.hasOther then refTargetT file a subs else none) s1 with
          | .error e => .error e
          | .ok (t, s2) =>
            if ob.kind.isDelta && r.isNone then .error .unsupported else
            let (o, s3) := allocX s2 (ob.withRef r) t
            .ok (o, s3.set a.fieldname o)

def fieldReadX (file : File) (fa : Nat) (g : Grp) (s : RSt) : M (Nat × RSt) :=
  match s.memo.lookup g.attrs.fieldname with
  | some o => .ok (o, s)
  | none => readArrX file fa g s

def resolveAliasX (file : File) (fa : Nat) (a : GAttrs) (s : RSt) : M RSt :=
  match a.sameAs with
  | none => .ok s
  | some name =>
    match s.memo.lookup name with
    | some o => .ok (s.set a.fieldname o)
    | none =>
      match lookupGrp file.groups name with
      | none => .error .attribute
      | some g =>
        match fieldReadX file fa g s with
        | .error e => .error e
        | .ok (o, s') => .ok ((s'.set name o).set a.fieldname o)

def readFieldX (file : File) (fa : Nat) : Nat → Option Kind → Grp → RSt → M (Field × RSt)
  | 0, _, _, _ => .error .fuel
  | _ + 1, some k, .mk a p subs, s0 =>
    match resolveAliasX file fa a s0 with
    | .error e => .error e
    | .ok s =>
    let r : M (Nat × RSt) := match s.memo.lookup a.fieldname with
      | some o => .ok (o, s)
      | none => readArrX file fa (.mk a p subs) s
    match r with
    | .error e => .error e
    | .ok (o, s') => .ok (.leaf (lastName a.fieldname) k o (objLen s'.heap o) (readUnit a.unit) a.level, s')
  | depth + 1, none, .mk a _ subs, s =>
    match readMembers (readFieldX file fa depth) a.members subs s with
    | .error e => .error e
    | .ok (fs, s') => .ok (.coll (lastName a.fieldname) file.numObs a.level fs, s')

def readTopX (file : File) (fa fd : Nat) : List (String × Option Kind) → RSt → M (List Field × RSt)
  | [], s => .ok ([], s)
  | (nm, ty) :: rest, s =>
    match file.groups.lookup nm with
    | none => .error .attribute
    | some g =>
      match readFieldX file fa fd ty g s with
      | .error e => .error e
      | .ok (f, s1) =>
        match readTopX file fa fd rest (regTop nm f s1) with
        | .error e => .error e
        | .ok (fs, s3) => .ok (f :: fs, s3)

/-- `Dataset.read`: heap, the `time` attributes of its objects, dataset -/
def readBackX (h : Heap) (d : DS) (file : File) : M (Heap × TM × DS) :=
  match readTopX file (h.length + 1) (fieldsDepth d.fields + 1) file.members {} with
  | .error e => .error e
  | .ok (fs, s) => .ok (s.heap, s.tm, { numObs := file.numObs, fields := fs })

/-- every `time` attached to a position / posvel is a time object of the heap -/
def tmOKB (h : Heap) (tm : TM) : Bool :=
  (List.range h.length).all (fun o => match h[o]? with
    | some ob =>
      if ob.kind.hasOther then
        match tmOf tm o with
        | none => true
        | some t => match h[t]? with
          | some tb => tb.kind == .time
          | none => false
      else true
    | none => true)

/-- **"a dataset that can be written"** for the model with the `time` attribute: `WritableS`, and what is attached as
`time` is a time -/
def writableXB (h : Heap) (tm : TM) (d : DS) (lvl : Nat) : Bool := writableSB h d lvl && tmOKB h tm

def WritableX (h : Heap) (tm : TM) (d : DS) (lvl : Nat) : Prop := writableXB h tm d lvl = true

instance (h : Heap) (tm : TM) (d : DS) (lvl : Nat) : Decidable (WritableX h tm d lvl) :=
  inferInstanceAs (Decidable (writableXB h tm d lvl = true))

end Midgard.H5
