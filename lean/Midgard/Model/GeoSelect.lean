/-
C05 — the selection between the pole branch and the Halley branch of `transformation._trs2llh`: the boolean-mask
assignments `lat[~pole_idx] = tmp_lat[~pole_idx]`, `lat[pole_idx] = (pi / 2)[pole_idx]`, … (arrays) resp. the
`if pole_idx: … else: …` (single position), followed by `lat *= np.sign(z)`.  The statements are read off the source by
`translator/extract_c05.py` into `Generated/TrsSelect.lean`; `runSel` executes them for one row, `trs2llhVia` is
`_trs2llh` with that selection.  `Props/C05.source_branch_selection`: it equals the hand-written `trs2llh`.
-/
import Midgard.Model.Geodetic

namespace Midgard.Geo

/-! ### which ellipsoid the public wrappers `trs2llh` / `llh2trs` evaluate on -/

/-- where an ellipsoid can come from: the explicit `ellipsoid=` argument, the `.ellipsoid` carried by the array
argument (a position object), the module default `GRS80` -/
inductive ResSrc | explicitArg | carried | default
  deriving Repr, DecidableEq

/-- the wrapper's rule as an order of preference (read off the source): the first source that is available decides;
`[]` (a rule the extractor does not understand) decides nothing -/
def resolveEllipsoid (order : List ResSrc) (explicit carried : Option Nat) : Option Nat :=
  match order with
  | [] => none
  | .explicitArg :: rest => match explicit with | some e => some e | none => resolveEllipsoid rest explicit carried
  | .carried :: rest => match carried with | some c => some c | none => resolveEllipsoid rest explicit carried
  | .default :: _ => some defaultEll

inductive SelTgt | lat | height
  deriving Repr, DecidableEq

/-- the index of a masked assignment: `pole_idx`, `~pole_idx`, or the whole array / a plain name -/
inductive SelMask | pole | notPole | all
  deriving Repr, DecidableEq

/-- the row values that can be assigned -/
inductive SelVal | zero | tmpLat | tmpHeight | halfPi | poleHeight
  deriving Repr, DecidableEq

inductive SelStmt
  | assign (t : SelTgt) (m : SelMask) (v : SelVal)   -- `t[m] = v[m]`  /  `t = v` inside `if pole_idx` / `else`
  | mulSign (t : SelTgt)                              -- `t *= np.sign(z)`
  | opaque                                            -- a statement the extractor does not understand
  deriving Repr, DecidableEq

def SelMask.holds (m : SelMask) (isPole : Bool) : Bool :=
  match m with
  | .pole => isPole
  | .notPole => !isPole
  | .all => true

/-- does the program stay inside the fragment -/
def selKnown (prog : List SelStmt) : Bool := prog.all (fun s => s != .opaque)

section
variable {α : Type} [Mul α]

/-- value of target `t` for one row after the statements, starting from `cur` -/
def runSel (isPole : Bool) (vals : SelVal → α) (sgn : α) (t : SelTgt) (cur : α) : List SelStmt → α
  | [] => cur
  | .assign t' m v :: rest =>
    runSel isPole vals sgn t (if t' = t ∧ m.holds isPole = true then vals v else cur) rest
  | .mulSign t' :: rest => runSel isPole vals sgn t (if t' = t then cur * sgn else cur) rest
  | .opaque :: rest => runSel isPole vals sgn t cur rest

end

section
variable {α : Type} [Add α] [Sub α] [Mul α] [Div α] [Neg α] [Zero α] [One α]
  [OfScientific α] [LT α] [LE α] [DecidableRel (α := α) (· < ·)] [DecidableRel (α := α) (· ≤ ·)]
  [Trig α]

/-- `_trs2llh` for one row with the selection statements of the source -/
def trs2llhVia (prog : List SelStmt) (E : Ellipsoid α) (v : V3 α) : LLH α :=
  let p2 := v.x * v.x + v.y * v.y
  let absz := absOf v.z
  let isPole : Bool := decide (p2 ≤ E.a * E.a * 1e-32)
  let p := Trig.sqrt p2
  let sc := halley E p absz
  let vals : SelVal → α := fun
    | .zero => 0
    | .tmpLat => Trig.atan (sc.1 / sc.2)
    | .tmpHeight => halleyHeight E p absz sc.1 sc.2
    | .halfPi => Trig.pi / (1 + 1)
    | .poleHeight => absz - E.b
  ⟨runSel isPole vals (signOf v.z) .lat 0 prog, Trig.atan2 v.y v.x, runSel isPole vals (signOf v.z) .height 0 prog⟩

/-- the tangential offset of the point `(p, z)` of the meridian plane from the normal through the latitude whose tangent
is `s1/cc`: the component of `(p, z) − foot(φ)` along the meridian tangent at `φ`,
`(z·cc − p·s1)/D + e²·a·s1·cc/(D·W)`, `D = √(s1² + cc²)`, `W = √((1 − e²)s1² + cc²)`; it vanishes exactly at the true
geodetic latitude (`Props/C05.offset_zero_at_true_latitude`) -/
def offsetAt (E : Ellipsoid α) (p z s1 cc : α) : α :=
  let D := Trig.sqrt (s1 * s1 + cc * cc)
  let W := Trig.sqrt ((1 - E.e2) * (s1 * s1) + cc * cc)
  (z * cc - p * s1) / D + E.e2 * E.a * s1 * cc / (D * W)

/-- the tangential offset `R` of the one-step answer (`Props/C05.roundtrip_error_closed_form`: the distance between
`llh2trs (trs2llh v)` and `v` is exactly `|R|`): `offsetAt` at `(s1, cc) = halley E p z` -/
def tangentialOffsetOf (E : Ellipsoid α) (p z : α) : α :=
  offsetAt E p z (halley E p z).1 (halley E p z).2

end

end Midgard.Geo
