/-
Which characters end a line (shared by the models of every `ChainParser` subclass: C11–C15).

`ChainParser.read_data` opens the file in text mode (`files.open(path, mode="rt")`) and iterates the
*file object*.  With universal newlines (the default `newline=None`) a line ends at `\n`, `\r` or `\r\n`
and **nowhere else**.  `str.splitlines()` is a different function: it also breaks at vertical tab, form
feed, FS / GS / RS, NEL (U+0085), LINE SEPARATOR (U+2028) and PARAGRAPH SEPARATOR (U+2029).  A model
of `read_data` has to use `textLines`; `isSplitlinesOnly` names the characters on which the two differ
(generators put them into free-text cells: they must stay inside their line).

Core Lean only, executable (the drivers link it).
-/
import Midgard.Core.Text

namespace Midgard.TextLines
open Midgard.Text

/-- the characters that end a line when a text-mode file object is iterated (universal newlines) -/
def isLineEnd (c : Char) : Bool := c = '\n' || c = '\r'

/-- the characters at which `str.splitlines()` breaks a line -/
def isSplitlinesBreak (c : Char) : Bool :=
  c = '\n' || c = '\r' || c.toNat = 0x0b || c.toNat = 0x0c || c.toNat = 0x1c || c.toNat = 0x1d || c.toNat = 0x1e ||
  c.toNat = 0x85 || c.toNat = 0x2028 || c.toNat = 0x2029

/-- `str.splitlines()` breaks here, iterating a text-mode file does not -/
def isSplitlinesOnly (c : Char) : Bool := isSplitlinesBreak c && !isLineEnd c

/-- the code points of `isSplitlinesOnly` (for generators and `decide` tables) -/
def splitlinesOnlyCodes : List Nat := [0x0b, 0x0c, 0x1c, 0x1d, 0x1e, 0x85, 0x2028, 0x2029]

/-- non-ASCII characters Python's `str.strip()` / `str.split()` / `str.isspace()` treat as whitespace (`Text.isSpace`
is the ASCII part) -/
def isUniSpace (c : Char) : Bool :=
  c.toNat = 0x85 || c.toNat = 0xa0 || c.toNat = 0x1680 || (0x2000 ≤ c.toNat && c.toNat ≤ 0x200a) ||
  c.toNat = 0x2028 || c.toNat = 0x2029 || c.toNat = 0x202f || c.toNat = 0x205f || c.toNat = 0x3000

/-- auxiliary of `textLines`: `cur` is the (reversed) line being collected, `afterCR` says that the previous
character was a `\r` (which has already ended its line: a `\n` directly after it belongs to the same line end) -/
def textLinesAux : Str → Str → Bool → List Str
  | [], cur, _ => if cur.isEmpty then [] else [cur.reverse]
  | c :: rest, cur, afterCR =>
    if c = '\n' then
      if afterCR then textLinesAux rest [] false else cur.reverse :: textLinesAux rest [] false
    else if c = '\r' then cur.reverse :: textLinesAux rest [] true
    else textLinesAux rest (c :: cur) false

/-- the lines `for line in fid` yields for a file opened with `mode="rt"`, without their line ends: a line ends
at `\n`, `\r` or `\r\n`; a final line without line end is a line; no other character ends a line -/
def textLines (text : Str) : List Str := textLinesAux text [] false

end Midgard.TextLines
