/-
C09 — the list-of-records view of a dataset and the list-of-records `extend` (heap-free, memo-free): the
specification `Dataset.extend` is proved to refine (`Props/C09.lean: extend_refines_records_partial`) and
that the driver evaluates next to the heap model so that the harness can compare it with the real code.

`AField` is a column tree without heap, memo and `num_obs`: names, kinds, units, levels and the rows
themselves.  `aExtendFields us n m self other` is the list-of-records statement of "append the other
table": a column in both tables gets the other rows appended (float: times the unit factor
`Unit(other unit, own unit)` column by column), a column only in self gets `m` empty values at the end, a
column only in other gets `n` empty values in front, collections recurse, the order of the columns is the
order of self followed by the new columns of other.
-/
import Midgard.Model.Dataset

namespace Midgard.Dataset

/-! ### the abstract table -/

inductive AField
  | leaf (name : String) (kind : Kind) (ndim cols : Nat) (unit : Option (List String)) (level : Nat) (rows : List Row)
  | coll (name : String) (level : Nat) (fs : List AField)
  deriving Repr, Inhabited

def AField.name : AField → String
  | .leaf n .. => n
  | .coll n .. => n

/-- what a list-of-records view sees of a field (tree) on a heap -/
def absField (h : Heap) : Field → AField
  | .leaf n k o _ u l =>
    match h[o]? with
    | some ob => .leaf n k ob.ndim ob.cols u l ob.rows
    | none => .leaf n k 0 0 u l []
  | .coll n _ l fs => .coll n l (absFields fs)
where absFields : List Field → List AField
  | [] => []
  | f :: fs => absField h f :: absFields fs

def aNames (fs : List AField) : List String := fs.map AField.name

/-- the columns of a table as (dotted name, rows), in order (for the examples) -/
def aLeaves : AField → List (String × List Row)
  | .leaf n _ _ _ _ _ rows => [(n, rows)]
  | .coll n _ fs => (aLeavesL fs).map (fun p => (n ++ "." ++ p.1, p.2))
where aLeavesL : List AField → List (String × List Row)
  | [] => []
  | f :: fs => aLeaves f ++ aLeavesL fs

def aGet (fs : List AField) (n : String) : Option AField := fs.find? (fun f => f.name == n)

/-- `dict[name] = column` -/
def aSet : List AField → AField → List AField
  | [], f => [f]
  | g :: gs, f => if g.name == f.name then f :: gs else g :: aSet gs f

/-- `k` empty values in front of / after every column -/
def aPad (front : Bool) (k : Nat) : AField → AField
  | .leaf n kd nd c u l rows =>
    .leaf n kd nd c u l (if front then List.replicate k (emptyRow kd c) ++ rows else rows ++ List.replicate k (emptyRow kd c))
  | .coll n l fs => .coll n l (aPads fs)
where aPads : List AField → List AField
  | [] => []
  | f :: fs => aPad front k f :: aPads fs

/-- a plain column of self extended by the column of the same name of other: same type and shape, the rows
of other appended, float rows converted to the unit of self -/
def aExtendLeaf (us : Units) (nm : String) (k : Kind) (nd c : Nat) (u : Option (List String)) (l : Nat)
    (rows : List Row) : AField → Option AField
  | .coll .. => none
  | .leaf _ k2 nd2 c2 u2 _ rows2 =>
    if k != k2 || nd != nd2 || c != c2 then none
    else if k == .float then
      match unitFactors us u u2 with
      | .ok fs => some (.leaf nm k nd c u l (rows ++ rows2.map (scaleRow fs)))
      | .error _ => none
    else if k.isPlain then some (.leaf nm k nd c u l (rows ++ rows2))
    else none

/-- the columns only self has get `m` empty values at the end -/
def aFinish (m : Nat) (selfKeys otherKeys : List String) (acc : List AField) : List AField :=
  acc.map (fun f => if onlyInSelf selfKeys otherKeys m f.name then aPad false m f else f)

/-- a table of `n` records extended by a table of `m` records, column by column -/
def aExtend (us : Units) (n m : Nat) : AField → AField → Option AField
  | .leaf nm k nd c u l rows, g => aExtendLeaf us nm k nd c u l rows g
  | .coll _ _ _, .leaf .. => none
  | .coll nm l fs, .coll _ _ gs =>
    match aLoop (aNames fs) fs gs with
    | none => none
    | some acc => some (.coll nm l (aFinish m (aNames fs) (aNames gs) acc))
where
  aLoop (selfKeys : List String) (acc : List AField) : List AField → Option (List AField)
    | [] => some acc
    | g :: gs =>
      let r : Option AField :=
        if !selfKeys.contains g.name || n == 0 then some (aPad true n g)
        else match aGet acc g.name with
          | none => none
          | some f => aExtend us n m f g
      match r with
      | none => none
      | some f' => aLoop selfKeys (aSet acc f') gs

/-- **the list-of-records `extend`** of the columns `self` (n records) by the columns `other` (m records) -/
def aExtendFields (us : Units) (n m : Nat) (self other : List AField) : Option (List AField) :=
  match aExtend.aLoop us n m (aNames self) self other with
  | none => none
  | some acc => some (aFinish m (aNames self) (aNames other) acc)

/-- only plain array kinds (bool, float, text), at every depth -/
def Field.plain : Field → Bool
  | .leaf _ k _ _ _ _ => k.isPlain
  | .coll _ _ _ fs => plainL fs
where plainL : List Field → Bool
  | [] => true
  | f :: fs => Field.plain f && plainL fs

/-! ### the situation of the listed finding `extend:shared-array-one-name-missing`, as a decidable predicate -/

/-- the leaf fields of a field tree as (dotted name, kind, array object) -/
def Field.leafObjs (pre : String) : Field → List (String × Kind × Nat)
  | .leaf n k o _ _ _ => [(pre ++ n, k, o)]
  | .coll n _ _ fs => leafObjsL (pre ++ n ++ ".") fs
where leafObjsL (pre : String) : List Field → List (String × Kind × Nat)
  | [] => []
  | f :: fs => Field.leafObjs pre f ++ leafObjsL pre fs

/-- some array (of a kind whose `insert` consults the memo) of `a` is held under a name `b` lacks **and** under a name
`b` has -/
def oneSided (a b : List (String × Kind × Nat)) : Bool :=
  a.any (fun x => !x.2.1.isPlain && !(b.any (fun z => z.1 == x.1)) &&
    a.any (fun y => y.2.2 == x.2.2 && b.any (fun z => z.1 == y.1)))

/-- **"an array of self is held under a name the other dataset lacks and under a name it has"** (or the mirror image):
exactly the situation in which `extend` cannot both keep the two names one array and pad the name that is missing —
the hypothesis the dataset-level refinement / sharing theorems have to exclude, and the condition of the listed finding -/
def splitSharing (self other : List Field) : Bool :=
  oneSided (Field.leafObjs.leafObjsL "" self) (Field.leafObjs.leafObjsL "" other) ||
  oneSided (Field.leafObjs.leafObjsL "" other) (Field.leafObjs.leafObjsL "" self)

end Midgard.Dataset
