/-
C08 — model of the process-wide function caches of midgard
(`functools.lru_cache` behind `nputil.HashArray` / `nputil.hashable` for `trs2llh`, `llh2trs`,
`enu2trs`, `trs2enu`, and behind `TimeBase.__hash__/__eq__` for `_to_scale`/`to_format`).

Contents of arrays are abstract value ids (`Val`); what a cached function computes from an
argument is the *term* `app fn val shape tag` — so "the right result" is literally "the term of
the current argument", and a stale, conflated or corrupted cache shows up as a different term.

Mechanism parameters (`Flags`), read off the source by the translator:
* `keyShape`   the cache key distinguishes array shapes ((3,) vs (1,3); scalar vs length-1)
* `keyTag`     the key distinguishes the other things the result depends on (ellipsoid; the
               receiver's format for `to_scale`)
* `copyOut`    the public function hands out a copy of the cached array
* `frozenOut`  the cached result is read-only (time arrays)
* `freezeArg`  calling the function makes the caller's array read-only (the defect of
               `HashArray.__array_finalize__` before the `fix:` commit)
-/
namespace Midgard.CacheMachine

abbrev Val := Nat

inductive Shape | s3 | s13 | sn3 | s0 | s1
  deriving Repr, DecidableEq

structure Flags where
  keyShape : Bool
  keyTag : Bool
  copyOut : Bool
  frozenOut : Bool
  freezeArg : Bool
  cap : Nat
  deriving Repr, DecidableEq

/-- what a buffer holds -/
inductive Content
  | app (fn : Nat) (v : Val) (sh : Shape) (tag : Nat)
  | junk (n : Nat)
  deriving Repr, DecidableEq

structure Arr where
  val : Val
  shape : Shape
  tag : Nat
  writable : Bool := true
  deriving Repr, DecidableEq

structure Buf where
  content : Content
  frozen : Bool
  deriving Repr, DecidableEq

/-- one `lru_cache` entry: the key as it was when inserted, and the cached result buffer -/
structure Entry where
  fn : Nat
  val : Val
  shape : Shape
  tag : Nat
  buf : Nat
  deriving Repr, DecidableEq

structure State where
  arrs : List Arr := []
  bufs : List Buf := []
  /-- most recently used first -/
  cache : List Entry := []
  /-- buffers the caller holds (returned by calls), in order of return -/
  handles : List Nat := []
  deriving Repr, DecidableEq

inductive Op
  /-- create an array with the given contents -/
  | create (v : Val) (sh : Shape) (tag : Nat)
  /-- call cached function `fn` on array `a` -/
  | call (fn : Nat) (a : Nat)
  /-- write junk into the `k`-th result the caller received -/
  | write (k : Nat) (junk : Nat)
  /-- assign new contents to array `a` -/
  | mutate (a : Nat) (v : Val)
  deriving Repr, DecidableEq

inductive Out
  | created
  /-- what the returned array holds, whether the argument is still writable, cache hit? -/
  | result (c : Content) (argWritable : Bool) (hit : Bool)
  | wrote
  | refused
  | mutated
  | bad
  deriving Repr, DecidableEq

/-- does a cache entry match the lookup key?  (dict lookup: hash and `__eq__` of the key) -/
def Entry.matches (fl : Flags) (e : Entry) (fn : Nat) (v : Val) (sh : Shape) (tag : Nat) : Bool :=
  e.fn == fn && e.val == v && (!fl.keyShape || e.shape == sh) && (!fl.keyTag || e.tag == tag)

/-- keep at most `cap` entries of function `fn` (drop the least recently used ones) -/
def evict (cap : Nat) (fn : Nat) : Nat → List Entry → List Entry
  | _, [] => []
  | seen, e :: es =>
    if e.fn == fn then
      if seen < cap then e :: evict cap fn (seen + 1) es else evict cap fn seen es
    else e :: evict cap fn seen es

def step (fl : Flags) (s : State) : Op → State × Out
  | .create v sh tag => ({ s with arrs := s.arrs ++ [{ val := v, shape := sh, tag := tag }] }, .created)
  | .call fn a =>
    match s.arrs[a]? with
    | none => (s, .bad)
    | some arr =>
      let arr' : Arr := if fl.freezeArg then { arr with writable := false } else arr
      let arrs' := s.arrs.set a arr'
      match s.cache.find? (fun e => e.matches fl fn arr.val arr.shape arr.tag) with
      | some e =>
        -- hit: move to front, hand out the cached buffer or a copy of it
        let cache' := e :: s.cache.erase e
        let c := (s.bufs[e.buf]?.map (·.content)).getD (.junk 0)
        if fl.copyOut then
          let h := s.bufs.length
          ({ s with arrs := arrs', cache := cache', bufs := s.bufs ++ [⟨c, false⟩], handles := s.handles ++ [h] },
            .result c arr'.writable true)
        else
          ({ s with arrs := arrs', cache := cache', handles := s.handles ++ [e.buf] }, .result c arr'.writable true)
      | none =>
        -- miss: compute, insert at the front, evict
        let c := Content.app fn arr.val arr.shape arr.tag
        let b := s.bufs.length
        let e : Entry := ⟨fn, arr.val, arr.shape, arr.tag, b⟩
        let cache' := evict fl.cap fn 0 (e :: s.cache)
        if fl.copyOut then
          ({ s with arrs := arrs', cache := cache', bufs := s.bufs ++ [⟨c, fl.frozenOut⟩, ⟨c, false⟩],
                    handles := s.handles ++ [b + 1] }, .result c arr'.writable false)
        else
          ({ s with arrs := arrs', cache := cache', bufs := s.bufs ++ [⟨c, fl.frozenOut⟩],
                    handles := s.handles ++ [b] }, .result c arr'.writable false)
  | .write k j =>
    match s.handles[k]? with
    | none => (s, .bad)
    | some h =>
      match s.bufs[h]? with
      | none => (s, .bad)
      | some b =>
        if b.frozen then (s, .refused)
        else ({ s with bufs := s.bufs.set h ⟨.junk j, false⟩ }, .wrote)
  | .mutate a v =>
    match s.arrs[a]? with
    | none => (s, .bad)
    | some arr =>
      if arr.writable then ({ s with arrs := s.arrs.set a { arr with val := v } }, .mutated)
      else (s, .refused)

def run (fl : Flags) (s : State) : List Op → State × List Out
  | [] => (s, [])
  | op :: ops =>
    let (s1, o) := step fl s op
    let (s2, os) := run fl s1 ops
    (s2, o :: os)

/-! ### The reference machine: no cache at all -/

structure RefState where
  arrs : List Arr := []
  nHandles : Nat := 0
  deriving Repr, DecidableEq

/-- `writeOk`: whether results can be written to (copies can; frozen time arrays refuse) -/
def refStep (writeOk : Bool) (s : RefState) : Op → RefState × Out
  | .create v sh tag => ({ s with arrs := s.arrs ++ [{ val := v, shape := sh, tag := tag }] }, .created)
  | .call fn a =>
    match s.arrs[a]? with
    | none => (s, .bad)
    | some arr => ({ s with nHandles := s.nHandles + 1 }, .result (.app fn arr.val arr.shape arr.tag) arr.writable false)
  | .write k _ => if k < s.nHandles then (s, if writeOk then .wrote else .refused) else (s, .bad)
  | .mutate a v =>
    match s.arrs[a]? with
    | none => (s, .bad)
    | some arr => ({ s with arrs := s.arrs.set a { arr with val := v } }, .mutated)

def refRun (writeOk : Bool) (s : RefState) : List Op → RefState × List Out
  | [] => (s, [])
  | op :: ops =>
    let (s1, o) := refStep writeOk s op
    let (s2, os) := refRun writeOk s1 ops
    (s2, o :: os)

/-- the observation the property talks about: hit/miss is *not* observable -/
def Out.visible : Out → Out
  | .result c w _ => .result c w false
  | o => o

end Midgard.CacheMachine
