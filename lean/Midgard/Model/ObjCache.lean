/-
C08 (second machine) — model of the per-object caches of `midgard.data._position.PosBase`:
`_cache` (converted systems, derived quantities `distance/direction/azimuth/elevation` that
depend on the attached `other`), `_dependent_objs` (weak references to the objects whose caches
must be dropped when this one changes), row views sharing memory with the array they were taken
from, and `__setitem__` / `__setattr__("other")` invalidation.

Array contents live in memory blocks; an object is a window (`mem`, `idx`) onto a block, so a
row view and its parent really share storage.  A cached value is the *snapshot of the contents
it was computed from*: "the right value" is the snapshot of the current contents.

Mechanism parameters (read off the source by the translator):
* `transitive`   `__setitem__` clears the caches of all direct **and indirect** dependents
* `viewsLinked`  rows taken by basic indexing (`p[i]`, `p[a:b]`) and their parent are registered
                 as depending on each other
-/
namespace Midgard.ObjCache

abbrev Val := Nat

structure Obj where
  mem : Nat
  idx : List Nat
  other : Option Nat := none
  /-- `_dependent_objs` entries registered because the object is a row view of / is viewed by this one -/
  vdeps : List Nat := []
  /-- `_dependent_objs` entries registered because the object has this one as its `other` -/
  odeps : List Nat := []
  /-- cached conversion: the contents it was computed from -/
  conv : Option (List Val) := none
  /-- cached derived quantity: own contents and the other's contents it was computed from -/
  der : Option (List Val × List Val) := none
  deriving Repr, DecidableEq

structure State where
  mems : List (List Val) := []
  objs : List Obj := []
  deriving Repr, DecidableEq

structure Flags where
  transitive : Bool
  viewsLinked : Bool
  deriving Repr, DecidableEq

def cell (s : State) (m i : Nat) : Val := ((s.mems[m]?).getD [])[i]?.getD 0

def contentsOf (s : State) (o : Obj) : List Val := o.idx.map (cell s o.mem)

def depsOf (objs : List Obj) (a : Nat) : List Nat := (objs[a]?.map (fun o => o.vdeps ++ o.odeps)).getD []

/-- `_clear_dependent_caches`: depth-first over `_dependent_objs` with a `seen` set.
`unvisited` are the object ids not seen yet. -/
def closure (objs : List Obj) : (unvisited : List Nat) → (todo : List Nat) → (acc : List Nat) → List Nat
  | _, [], acc => acc
  | unv, a :: rest, acc =>
    if a ∈ unv then closure objs (unv.erase a) (depsOf objs a ++ rest) (a :: acc)
    else closure objs unv rest acc
termination_by unv todo => (unv.length, todo.length)
decreasing_by
  · apply Prod.Lex.left
    rw [List.length_erase_of_mem ‹_›]
    have : 0 < unv.length := List.length_pos_of_mem ‹_›
    omega
  · apply Prod.Lex.right
    simp

/-- the same traversal with an explicit step budget (structural recursion, so that the kernel can evaluate it) -/
def closureF (objs : List Obj) : Nat → (unvisited : List Nat) → (todo : List Nat) → (acc : List Nat) → List Nat
  | 0, _, _, acc => acc
  | _ + 1, _, [], acc => acc
  | f + 1, unv, a :: rest, acc =>
    if a ∈ unv then closureF objs f (unv.erase a) (depsOf objs a ++ rest) (a :: acc)
    else closureF objs f unv rest acc

/-- a budget that always suffices: every step either pops the work list or visits a new object,
which pushes its dependency list -/
def budget (objs : List Obj) (unv todo : List Nat) : Nat :=
  todo.length + (unv.map (fun a => 1 + (depsOf objs a).length)).sum

/-- the objects whose caches an item assignment to `o` drops -/
def clearSet (fl : Flags) (s : State) (o : Nat) : List Nat :=
  if fl.transitive then
    closureF s.objs (budget s.objs (List.range s.objs.length) [o]) (List.range s.objs.length) [o] []
  else o :: depsOf s.objs o

def clearCaches (objs : List Obj) (ids : List Nat) : List Obj :=
  objs.mapIdx (fun i ob => if i ∈ ids then { ob with conv := none, der := none } else ob)

def addVDep (objs : List Obj) (target dep : Nat) : List Obj :=
  objs.mapIdx (fun i ob => if i = target then { ob with vdeps := ob.vdeps ++ [dep] } else ob)

def addODep (objs : List Obj) (target dep : Nat) : List Obj :=
  objs.mapIdx (fun i ob => if i = target then { ob with odeps := ob.odeps ++ [dep] } else ob)

def removeODep (objs : List Obj) (target dep : Nat) : List Obj :=
  objs.mapIdx (fun i ob => if i = target then { ob with odeps := ob.odeps.erase dep } else ob)

/-- `p.other = q` on the object list: (1) `clear_cache()` of `p`, (2) `remove_dependency(p)` on the previous
other, (3) `add_dependency(p)` on the new one, (4) the attribute itself -/
def setOtherObjs (objs : List Obj) (p : Nat) (oldOther q : Option Nat) : List Obj :=
  objs.mapIdx (fun i ob =>
    let a : Obj := if i = p then { ob with conv := none, der := none } else ob
    let b : Obj := if oldOther = some i then { a with odeps := a.odeps.erase p } else a
    let c : Obj := if q = some i then { b with odeps := b.odeps ++ [p] } else b
    if i = p then { c with other := q } else c)

/-- a row view of object `p` (already looked up as `po`) appended to the heap, linked with `p` -/
def pushView (fl : Flags) (objs : List Obj) (p : Nat) (po : Obj) (rows : List Nat) (other : Option Nat) : List Obj :=
  let n := objs.length
  let nw : Obj := { mem := po.mem, idx := rows.filterMap (po.idx[·]?), other := other }
  let objs := objs ++ [nw]
  -- `_share_memory_with`: rows.add_dependency(self); self.add_dependency(rows)
  if fl.viewsLinked then addVDep (addVDep objs n p) p n else objs

/-- `pushView` and, when the new rows carry an attached object `oth`, their registration as its dependent
(`__setattr__` → `oth.add_dependency(rows)`) -/
def pushViewOth (fl : Flags) (objs : List Obj) (p : Nat) (po : Obj) (rows : List Nat) : Option Nat → List Obj
  | none => pushView fl objs p po rows none
  | some t => addODep (pushView fl objs p po rows (some t)) t objs.length

/-- `p[a:b]` for an object with an attachment chain of any depth (`PositionArray.__getitem__`: "the attributes follow the
same index" — `other[item]` is taken first, by the same method, so the other of the other follows as well; the same for
the `ref_pos` of a delta and its own `other`).  Innermost first: the views of the attached objects are pushed before the
view of `p`, which is attached to (and registered with) the view of its own attached object.  Returns the new object list
and the id of the view of `p`; `none` when an attached id is dangling or the chain does not end within `fuel` objects
(a cyclic attachment: the real code recurses until `RecursionError`). -/
def pushChain (fl : Flags) (rows : List Nat) : (fuel : Nat) → (objs : List Obj) → (p : Nat) → Option (List Obj × Nat)
  | 0, _, _ => none
  | fuel + 1, objs, p =>
    match objs[p]? with
    | none => none
    | some po =>
      match po.other with
      | none => some (pushViewOth fl objs p po rows none, objs.length)
      | some q =>
        match pushChain fl rows fuel objs q with
        | none => none
        | some (objs1, nq) => some (pushViewOth fl objs1 p po rows (some nq), objs1.length)

inductive Op
  /-- a new array with its own memory -/
  | create (vals : List Val)
  /-- `p[i]`, `p[a:b]`: a view of the chosen rows (positions into `p`'s own rows), with the same rows of every object
  along its attachment chain -/
  | view (p : Nat) (rows : List Nat)
  /-- `p[mask]`, `p[[...]]`: a copy of the chosen rows -/
  | take (p : Nat) (rows : List Nat)
  /-- `p.other = q` / `p.other = None` -/
  | setOther (p : Nat) (q : Option Nat)
  /-- `p[k] = v` -/
  | setItem (p : Nat) (k : Nat) (v : Val)
  /-- read a converted system (`p.llh`) -/
  | readConv (p : Nat)
  /-- read a derived quantity (`p.distance`) -/
  | readDer (p : Nat)
  deriving Repr, DecidableEq

inductive Out
  | done
  | conv (snapshot : List Val)
  | der (own other : List Val)
  | bad
  deriving Repr, DecidableEq

/-- `p.other = q` proper: clear own cache, unregister from the previous other, register with the new one, store it -/
def setOtherCore (s : State) (p : Nat) (q : Option Nat) : State × Out :=
  match s.objs[p]? with
  | none => (s, .bad)
  | some po =>
    if (match q with | some q => decide (s.objs.length ≤ q) | none => false) then (s, .bad) else
    ({ s with objs := setOtherObjs s.objs p po.other q }, .done)

def step (fl : Flags) (s : State) : Op → State × Out
  | .create vals =>
    ({ mems := s.mems ++ [vals], objs := s.objs ++ [{ mem := s.mems.length, idx := List.range vals.length }] }, .done)
  | .view p rows =>
    -- the attribute follows the same index: `other[item]` is a view of the other (and so on along the chain), and the
    -- new rows are registered as depending on it; a chain without a cycle has at most `objs.length` members
    match pushChain fl rows (s.objs.length + 1) s.objs p with
    | none => (s, .bad)
    | some (objs, _) => ({ s with objs := objs }, .done)
  | .take p rows =>
    match s.objs[p]? with
    | none => (s, .bad)
    | some po =>
      let vals := (rows.filterMap (po.idx[·]?)).map (cell s po.mem)
      ({ mems := s.mems ++ [vals], objs := s.objs ++ [{ mem := s.mems.length, idx := List.range vals.length }] }, .done)
  | .setOther p q =>
    match s.objs[p]? with
    | none => (s, .bad)
    | some po =>
      -- __setattr__: an attachment that is replaced or removed is a change like an item assignment
      -- (`if prev_attr_value is not None: self._clear_dependent_caches()`, fix 9efe2d6); a first attachment clears the
      -- object's own cache only
      setOtherCore (if po.other.isSome then { s with objs := clearCaches s.objs (clearSet fl s p) } else s) p q
  | .setItem p k v =>
    match s.objs[p]? with
    | none => (s, .bad)
    | some po =>
      match po.idx[k]? with
      | none => (s, .bad)
      | some r =>
        let objs := clearCaches s.objs (clearSet fl s p)
        let mems := s.mems.mapIdx (fun m blk => if m = po.mem then blk.set r v else blk)
        ({ mems := mems, objs := objs }, .done)
  | .readConv p =>
    match s.objs[p]? with
    | none => (s, .bad)
    | some po =>
      match po.conv with
      | some snap => (s, .conv snap)
      | none =>
        let snap := contentsOf s po
        ({ s with objs := s.objs.mapIdx (fun i ob => if i = p then { ob with conv := some snap } else ob) }, .conv snap)
  | .readDer p =>
    match s.objs[p]? with
    | none => (s, .bad)
    | some po =>
      match po.other with
      | none => (s, .bad)
      | some q =>
        match s.objs[q]? with
        | none => (s, .bad)
        | some qo =>
          match po.der with
          | some (a, b) => (s, .der a b)
          | none =>
            let a := contentsOf s po
            let b := contentsOf s qo
            ({ s with objs := s.objs.mapIdx (fun i ob => if i = p then { ob with der := some (a, b) } else ob) }, .der a b)

def run (fl : Flags) (s : State) : List Op → State × List Out
  | [] => (s, [])
  | op :: ops =>
    let (s1, o) := step fl s op
    let (s2, os) := run fl s1 ops
    (s2, o :: os)

/-- the reference: the same machine where nothing is ever cached (every read recomputes) -/
def refStep (s : State) (op : Op) : State × Out :=
  match op with
  | .readConv p =>
    match s.objs[p]? with
    | none => (s, .bad)
    | some po => (s, .conv (contentsOf s po))
  | .readDer p =>
    match s.objs[p]? with
    | none => (s, .bad)
    | some po =>
      match po.other with
      | none => (s, .bad)
      | some q =>
        match s.objs[q]? with
        | none => (s, .bad)
        | some qo => (s, .der (contentsOf s po) (contentsOf s qo))
  | op => step ⟨true, true⟩ s op

def refRun (s : State) : List Op → State × List Out
  | [] => (s, [])
  | op :: ops =>
    let (s1, o) := refStep s op
    let (s2, os) := refRun s1 ops
    (s2, o :: os)

/-! ### Tables read off `_position.py` by `translator/extract_cache.py` (one row per site in the source) -/
namespace Table

/-- a store into a per-object `_cache`: `self._cache[key] = …` in method `fn` of class `cls`; `params` are the parameters of
`fn` besides `self` (what the stored value can depend on apart from the object itself) -/
structure CacheWrite where
  cls : String
  fn : String
  key : String
  params : List String
  deriving Repr, DecidableEq

/-- an attribute store on `self`: `how` is `assign` (`self.x = …`, goes through `PosBase.__setattr__`), `setattr`
(`setattr(self, …)`, likewise), `bypass` (`super().__setattr__(…)` / `object.__setattr__`) or `__dict__` -/
structure AttrWrite where
  cls : String
  fn : String
  attr : String
  how : String
  deriving Repr, DecidableEq

/-- a method that changes contents or attributes in place, and whether its first statement drops the cache(s) -/
structure Mutator where
  cls : String
  fn : String
  clearsFirst : Bool
  deriving Repr, DecidableEq

/-- a cached entry may depend on the object and on the name of the target system only -/
def CacheWrite.selfKeyed (w : CacheWrite) : Bool := w.params.all (· == "system")

/-- a store that does not pass through `PosBase.__setattr__` (no cache clearing, no registration as a dependent) -/
def AttrWrite.bypasses (w : AttrWrite) : Bool := w.how == "bypass" || w.how == "__dict__"

end Table

end Midgard.ObjCache
