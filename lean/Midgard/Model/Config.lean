/-
C19 — model of `midgard.config.config` (DESIGN.md §5/C19).

Mirrors, branch by branch,
  * `Configuration.update / update_from_dict / update_from_options / update_from_config_section`,
    the `profiles` setter and `_set_sections_for_profiles`        (state machine, §State)
  * `Configuration.get / __getitem__ / exists / master_section / fallback_config / sources`  (§Lookup)
  * `ConfigurationEntry.list / tuple / dict / bool / int` and `_replace` / `entry.replace`  (§Entries)
  * `entry_as_str` / `as_str` with `console.fill` = `textwrap.fill(break_long_words=False,
    break_on_hyphens=False)` and the `ConfigParser` reading of `update_from_file`           (§Text)

Python dictionaries are insertion-ordered association lists (`dset` is `d[k] = v`).  Text is
`String` for names and values and `List Char` inside the text functions.  ASCII only: the
generators stay inside ASCII and the evidence records it as an assumption.
-/
namespace Midgard.Config

/-! ### Dictionaries -/

def dget? {κ ν} [DecidableEq κ] : List (κ × ν) → κ → Option ν
  | [], _ => none
  | (k', v') :: t, k => if k' = k then some v' else dget? t k

def dhas {κ ν} [DecidableEq κ] (d : List (κ × ν)) (k : κ) : Bool := (dget? d k).isSome

/-- `d[k] = v`: an existing key keeps its position -/
def dset {κ ν} [DecidableEq κ] : List (κ × ν) → κ → ν → List (κ × ν)
  | [], k, v => [(k, v)]
  | (k', v') :: t, k, v => if k' = k then (k', v) :: t else (k', v') :: dset t k v

/-! ### State -/

abbrev Profile := Option String

structure Entry where
  value : String
  source : String
  /-- `meta` dict: help text, type hint …; a value may be `None` -/
  metas : List (String × Option String)
  deriving Repr, DecidableEq

abbrev Section := List (String × Entry)
abbrev Sections := List (String × Section)

structure Cfg where
  name : String
  /-- `_profiles`: priority list, `None` is the profile-less level -/
  profiles : List Profile
  /-- `_profile_sections`: the raw entries per profile -/
  profileSections : List (Profile × Sections)
  /-- `_sections`: the flattened view, rebuilt by `_set_sections_for_profiles` -/
  sections : Sections
  master : Option String
  vars : List (String × String)
  updateCount : Nat
  deriving Repr, DecidableEq

def Cfg.new (name : String) : Cfg :=
  { name, profiles := [none], profileSections := [], sections := [], master := none, vars := [], updateCount := 0 }

inductive Err
  | missingSection | missingEntry | missingConfiguration | index | value | recursion | key
  deriving Repr, DecidableEq

/-- the inner two loops of `_set_sections_for_profiles` for one profile's sections -/
def mergeSection (acc : Section) : Section → Section
  | [] => acc
  | (k, e) :: t => mergeSection (dset acc k e) t

def mergeProfile (acc : Sections) : Sections → Sections
  | [] => acc
  | (sname, psec) :: t =>
    -- `self._sections.setdefault(section_name, ConfigurationSection(section_name))`
    let cur := (dget? acc sname).getD []
    mergeProfile (dset acc sname (mergeSection cur psec)) t

/-- `_set_sections_for_profiles`: `for profile in self.profiles[::-1]` -/
def flattenFrom (ps : List (Profile × Sections)) : List Profile → Sections → Sections
  | [], acc => acc
  | p :: t, acc => flattenFrom ps t (mergeProfile acc ((dget? ps p).getD []))

def flatten (profiles : List Profile) (ps : List (Profile × Sections)) : Sections :=
  flattenFrom ps profiles.reverse []

def Cfg.refresh (c : Cfg) : Cfg := { c with sections := flatten c.profiles c.profileSections }

/-- the `profiles` setter (repaired: an empty list is the same as `None`) -/
def Cfg.setProfiles (c : Cfg) (values : Option (List Profile)) : Cfg :=
  let vs := match values with
    | none => [none]
    | some [] => [none]
    | some l => if l.getLast? = some none then l else l ++ [none]
  ({ c with profiles := vs }).refresh

/-- one entry to be written -/
structure Upd where
  sect : String
  key : String
  value : String
  profile : Profile
  source : String
  metas : List (String × Option String)
  allowNew : Bool
  deriving Repr, DecidableEq

/-- `Configuration.update(…, _update_sections=False)`: the check against the *flattened* view when
`allow_new` is false, then the write into `_profile_sections` (the view is not rebuilt here) -/
def Cfg.updateRaw (c : Cfg) (u : Upd) : Except Err Cfg :=
  let check : Except Err Unit :=
    if u.allowNew then .ok () else
    match dget? c.sections u.sect with
    | none => .error .missingSection
    | some s => if dhas s u.key then .ok () else .error .missingEntry
  match check with
  | .error e => .error e
  | .ok () =>
    let source := match u.profile with | none => u.source | some p => s!"{u.source} ({p})"
    let psecs := (dget? c.profileSections u.profile).getD []
    let sec := (dget? psecs u.sect).getD []
    let changed := match dget? sec u.key with | none => true | some e => e.value ≠ u.value
    let sec' := dset sec u.key ⟨u.value, source, u.metas⟩
    .ok { c with
      profileSections := dset c.profileSections u.profile (dset psecs u.sect sec')
      updateCount := if changed then c.updateCount + 1 else c.updateCount }

/-- `Configuration.update(section, key, value, profile=…, source=…, meta=…, allow_new=…)` -/
def Cfg.update (c : Cfg) (u : Upd) : Except Err Cfg :=
  (c.updateRaw u).map Cfg.refresh

/-- `master_section` property -/
def Cfg.masterSection (c : Cfg) : Except Err (String × Section) :=
  match c.master with
  | none => .error .missingSection
  | some m => match dget? c.sections m with
    | none => .error .missingSection
    | some s => .ok (m, s)

/-- the loop of the multi-entry update methods (repaired: the flattened view is rebuilt also when an
entry raises, `try … finally`): returns the state reached and the error, if any, that ended the loop.
`skipMissingEntry` is `update_from_options`' `except MissingEntryError: pass`; the names of the
updates that went through are collected for its return value. -/
def Cfg.updateMany (c : Cfg) (skipMissingEntry : Bool) :
    List (String × Upd) → List String → Cfg × Option Err × List String
  | [], done => (c.refresh, none, done)
  | (tag, u) :: t, done =>
    match c.updateRaw u with
    | .ok c' => Cfg.updateMany c' skipMissingEntry t (done ++ [tag])
    | .error e =>
      if skipMissingEntry && e = .missingEntry then Cfg.updateMany c skipMissingEntry t done
      else (c.refresh, some e, done)

/-- `update_from_dict(cfg_dict, section=None, source="dictionary", allow_new=True)` -/
def Cfg.updateFromDict (c : Cfg) (d : List (String × String)) (sect : Option String) (source : String)
    (allowNew : Bool) : Cfg × Option Err :=
  let sname : Except Err String := match sect with
    | some s => .ok s
    | none => c.masterSection.map (·.1)
  match sname with
  | .error e => (c, some e)
  | .ok s =>
    let r := c.updateMany false (d.map fun (k, v) => (k, ⟨s, k, v, none, source, [], allowNew⟩)) []
    (r.1, r.2.1)

/-! #### `update_from_options` -/

def partitionAt (sep : Char) : List Char → List Char × Bool × List Char
  | [] => ([], false, [])
  | c :: t => if c = sep then ([], true, t) else
    let (a, f, b) := partitionAt sep t
    (c :: a, f, b)

/-- `s.rpartition(sep)` for a one-character separator: `(head, found, tail)`; not found → `("", tail=s)` -/
def rpartitionAt (sep : Char) (s : List Char) : List Char × Bool × List Char :=
  let (a, f, b) := partitionAt sep s.reverse
  if f then (b.reverse, true, a.reverse) else ([], false, s)

/-- one option of the form `--name:section:key=value`; `none` when it is not of the form `--…=…` -/
def parseOption (o : String) : Option (String × String × String × String) :=
  let cs := o.toList
  if cs.take 2 = ['-', '-'] && cs.contains '=' then
    let (k, _, v) := partitionAt '=' (cs.drop 2)
    let (sec, _, key) := rpartitionAt ':' k
    let (nm, _, sec') := rpartitionAt ':' sec
    some (String.ofList nm, String.ofList sec', String.ofList key, String.ofList v)
  else none

/-- the loop of `update_from_options`: the master section is looked up lazily, per option, in the
*current* flattened view (which the loop does not rebuild) -/
def Cfg.optionsLoop (c : Cfg) (profile : Profile) (source : String) (allowNew : Bool) :
    List String → List String → Cfg × Option Err × List String
  | [], done => (c.refresh, none, done)
  | o :: t, done =>
    match parseOption o with
    | none => Cfg.optionsLoop c profile source allowNew t done
    | some (nm, sec, key, v) =>
      if nm ≠ "" && nm ≠ c.name then Cfg.optionsLoop c profile source allowNew t done else
      let sname : Except Err String := if sec = "" then c.masterSection.map (·.1) else .ok sec
      match sname with
      | .error e => (c.refresh, some e, done)
      | .ok s =>
        match c.updateRaw ⟨s, key, v, profile, s!"{source} ({o})", [], allowNew⟩ with
        | .ok c' => Cfg.optionsLoop c' profile source allowNew t (done ++ [o])
        | .error e =>
          if e = .missingEntry then Cfg.optionsLoop c profile source allowNew t done
          else (c.refresh, some e, done)

/-- `update_from_options(options, profile, source, allow_new)`: new state, error, and the options that
were *not* used (`set(options) - updated_options`, as a duplicate-free list in first-occurrence order) -/
def Cfg.updateFromOptions (c : Cfg) (options : List String) (profile : Profile) (source : String)
    (allowNew : Bool) : Cfg × Option Err × List String :=
  let r := c.optionsLoop profile source allowNew options []
  (r.1, r.2.1, (options.filter (fun o => !r.2.2.contains o)).eraseDups)

/-- `update_from_config_section(other_section, section=None, allow_new=True)` -/
def Cfg.updateFromSection (c : Cfg) (otherName : String) (other : Section) (sect : Option String)
    (allowNew : Bool) : Cfg × Option Err :=
  let s := sect.getD otherName
  let r := c.updateMany false (other.map fun (k, e) => (k, ⟨s, k, e.value, none, e.source, e.metas, allowNew⟩)) []
  (r.1, r.2.1)

def Cfg.updateVars (c : Cfg) (d : List (String × String)) : Cfg :=
  { c with vars := d.foldl (fun acc (k, v) => dset acc k v) c.vars }

/-- `del cfg[name]` (`__delitem__` / `__delattr__`): the section is taken out of the *flattened view* only — the
per-profile store keeps it, so it is back after the next update or profile selection; KeyError when the view has no
such section -/
def Cfg.delSection (c : Cfg) (name : String) : Except Err Cfg :=
  if dhas c.sections name then .ok { c with sections := c.sections.filter (fun p => p.1 ≠ name) } else .error .key

/-- `cfg.clear()`: empties the flattened view (not the per-profile store) and the variables -/
def Cfg.clear (c : Cfg) : Cfg := { c with sections := [], vars := [] }

/-! ### Lookup -/

/-- what `cfg[name]` / `cfg.get` hand back -/
inductive Item
  | sect (name : String) (s : Section)
  | entry (key : String) (e : Entry)
  deriving Repr, DecidableEq

/-- `Configuration.__getitem__(key)`; `chain` is the configuration followed by its fallback
configurations (`fallback_config`, that one's fallback, …) -/
def getItem : List Cfg → String → Except Err Item
  | [], _ => .error .missingConfiguration
  | c :: rest, key =>
    match dget? c.sections key with
    | some s => .ok (.sect key s)
    | none =>
      match c.masterSection with
      | .ok (mname, m) =>
        -- `self.master_section[key]`: a missing entry is *not* caught here
        match dget? m key with
        | some e => .ok (.entry key e)
        | none => let _ := mname; .error .missingEntry
      | .error _ =>
        -- `except MissingSectionError: try: return self.fallback_config[key] except MidgardException: raise MissingSectionError`
        match getItem rest key with
        | .ok it => .ok it
        | .error _ => .error .missingSection

/-- `section[key]` -/
def sectionEntry (s : Section) (key : String) : Except Err Entry :=
  match dget? s key with | some e => .ok e | none => .error .missingEntry

/-- `Configuration.get(key, value=None, section=None, default=None)` (repaired: a fallback that lacks
the section no longer hides the default) -/
def get : List Cfg → String → Option String → Option String → Option String → Except Err (String × Entry)
  | [], _, _, _, _ => .error .missingConfiguration
  | c :: rest, key, value, sect, dflt =>
    match value with
    | some v => .ok (key, ⟨v, "method call", []⟩)
    | none =>
      let own : Except Err (String × Entry) :=
        match sect with
        | none => match c.masterSection with
          | .error e => .error e
          | .ok (_, m) => (sectionEntry m key).map (fun e => (key, e))
        | some s => match getItem (c :: rest) s with
          | .error e => .error e
          | .ok (.entry k e) => .ok (k, e)              -- the master section has an entry called `s`
          | .ok (.sect _ sec) => (sectionEntry sec key).map (fun e => (key, e))
      match own with
      | .ok r => .ok r
      | .error err =>
        -- err is MissingSectionError or MissingEntryError (getItem raises nothing else)
        match get rest key none sect none with
        | .ok r => .ok r
        | .error _ =>
          match dflt with
          | none => .error err
          | some d => .ok (key, ⟨d, "default value", []⟩)

/-! #### Lookup together with the configuration the answer is bound to

Every `ConfigurationEntry` keeps a reference to the variable dictionary of the configuration that
created it (`vars_dict=self.vars`; `_vars_dict` is never rebound, `update_vars`/`clear_vars` change it in
place): an entry stored in a configuration is bound to *that* configuration's variables — also when it
is handed out through another configuration's fallback chain —, and the entries `get` builds for an
override (`value=`) or for the supplied default are bound to the variables of the configuration that
was asked.  `getItemAt`/`getAt` are `getItem`/`get` together with the position in the chain
(0 = the configuration asked, 1 = its fallback, 2 = the fallback's fallback …) of the configuration the
answer is bound to; `.replaced` / `.replace()` on the answer use the variables found there. -/

/-- `Configuration.__getitem__(key)` with the position of the answering configuration in the chain -/
def getItemAt : List Cfg → String → Except Err (Nat × Item)
  | [], _ => .error .missingConfiguration
  | c :: rest, key =>
    match dget? c.sections key with
    | some s => .ok (0, .sect key s)
    | none =>
      match c.masterSection with
      | .ok (_, m) =>
        match dget? m key with
        | some e => .ok (0, .entry key e)
        | none => .error .missingEntry
      | .error _ =>
        match getItemAt rest key with
        | .ok r => .ok (r.1 + 1, r.2)
        | .error _ => .error .missingSection

/-- `Configuration.get(key, value, section, default)` with the position of the configuration whose
variable dictionary the returned entry holds: the default is applied by the configuration that was
asked (`self.fallback_config.get(key=key, section=section)` is called *without* the default) -/
def getAt : List Cfg → String → Option String → Option String → Option String →
    Except Err (Nat × String × Entry)
  | [], _, _, _, _ => .error .missingConfiguration
  | c :: rest, key, value, sect, dflt =>
    match value with
    | some v => .ok (0, key, ⟨v, "method call", []⟩)
    | none =>
      let own : Except Err (Nat × String × Entry) :=
        match sect with
        | none => match c.masterSection with
          | .error e => .error e
          | .ok (_, m) => (sectionEntry m key).map (fun e => (0, key, e))
        | some s => match getItemAt (c :: rest) s with
          | .error e => .error e
          | .ok (d, .entry k e) => .ok (d, k, e)
          | .ok (d, .sect _ sec) => (sectionEntry sec key).map (fun e => (d, key, e))
      match own with
      | .ok r => .ok r
      | .error err =>
        match getAt rest key none sect none with
        | .ok r => .ok (r.1 + 1, r.2)
        | .error _ =>
          match dflt with
          | none => .error err
          | some d => .ok (0, key, ⟨d, "default value", []⟩)

/-- the variables (`cfg.vars`, as they are when the entry is looked at) of the configuration at
position `d` of the chain -/
def varsAt (chain : List Cfg) (d : Nat) : List (String × String) :=
  match chain[d]? with
  | some c => c.vars
  | none => []

/-- `Configuration.exists(key, section=None)` -/
def cfgExists (chain : List Cfg) (key : String) (sect : Option String) : Except Err Bool :=
  match chain with
  | [] => .error .missingConfiguration
  | c :: _ =>
    match sect with
    | none => c.masterSection.map (fun (_, m) => dhas m key)
    | some s =>
      match getItem chain s with
      | .error _ => .ok false
      | .ok (.entry _ _) => .ok false
      | .ok (.sect _ sec) => .ok (dhas sec key)

/-- `Configuration.sources` (a set: duplicate-free, order immaterial) -/
def Cfg.sources (c : Cfg) : List String :=
  ((c.sections.flatMap (fun (_, s) => s.map (fun (_, e) => e.source))).filter (· ≠ "")).eraseDups

/-! ### Entries: typed accessors -/

def lowerChar (c : Char) : Char := if 'A' ≤ c ∧ c ≤ 'Z' then Char.ofNat (c.toNat + 32) else c
def lowerStr (s : String) : String := String.ofList (s.toList.map lowerChar)

/-- ASCII characters `str.split()` / `str.strip()` treat as blanks -/
def isBlank (c : Char) : Bool := (9 ≤ c.toNat && c.toNat ≤ 13) || (28 ≤ c.toNat && c.toNat ≤ 32)

/-- `str.split()` (no argument): maximal runs of non-blank characters -/
def splitBlanks : List Char → List Char → List (List Char)
  | [], cur => if cur.isEmpty then [] else [cur.reverse]
  | c :: t, cur =>
    if isBlank c then (if cur.isEmpty then splitBlanks t [] else cur.reverse :: splitBlanks t [])
    else splitBlanks t (c :: cur)

/-- `entry.list` = `self._value.replace(",", " ").split()` (and `.tuple`) -/
def asList (v : String) : List String :=
  (splitBlanks (v.toList.map (fun c => if c = ',' then ' ' else c)) []).map String.ofList

/-- `entry.dict` = `dict(i.partition(":")[::2] for i in self.list)` -/
def asDict (v : String) : List (String × String) :=
  (asList v).foldl (fun acc it =>
    let (a, _, b) := partitionAt ':' it.toList
    dset acc (String.ofList a) (String.ofList b)) []

/-- `_BOOLEAN_STATES`, as the model believes it to be (compared with the regenerated table in Props) -/
def booleanStates : List (String × Bool) :=
  [("0", false), ("1", true), ("false", false), ("true", true), ("no", false), ("yes", true),
   ("off", false), ("on", true)]

/-- `entry.bool` -/
def asBool (v : String) : Except Err Bool :=
  match dget? booleanStates (lowerStr v) with
  | some b => .ok b
  | none => .error .value

def stripBlanks (s : List Char) : List Char :=
  ((s.dropWhile isBlank).reverse.dropWhile isBlank).reverse

/-- digits with single underscores between them (Python integer literal body) -/
def digitsVal : List Char → Bool → Option Nat → Option Nat
  | [], prevUnderscore, acc => if prevUnderscore then none else acc
  | c :: t, prevUnderscore, acc =>
    if c.isDigit then digitsVal t false (some ((acc.getD 0) * 10 + (c.toNat - 48)))
    else if c = '_' then
      (if prevUnderscore || acc.isNone then none else digitsVal t true acc)
    else none

/-- sign handling of `int()`: `(negative, rest)` -/
def splitSign (s : List Char) : Bool × List Char :=
  match s with
  | '-' :: t => (true, t)
  | '+' :: t => (false, t)
  | _ => (false, s)

/-- `entry.int` = `int(self._value)` on ASCII text: blanks around, optional sign, decimal digits with
single underscores -/
def asInt (v : String) : Except Err Int :=
  let sp := splitSign (stripBlanks v.toList)
  match digitsVal sp.2 false none with
  | some n => .ok (if sp.1 then -(n : Int) else n)
  | none => .error .value

/-! ### Entries: `_replace` -/

def isWord (c : Char) : Bool := c.isAlphanum || c = '_'

/-- one match of `\{(\w+)(:[^\{\}]*)?\}` anchored at the head of the text (which starts after the
opening brace): variable name, format spec (without the colon), rest of the text -/
def matchVar (s : List Char) : Option (List Char × Option (List Char) × List Char) :=
  let name := s.takeWhile isWord
  let rest := s.dropWhile isWord
  if name.isEmpty then none else
  match rest with
  | '}' :: r => some (name, none, r)
  | ':' :: r =>
    let spec := r.takeWhile (fun c => c ≠ '{' && c ≠ '}')
    match r.dropWhile (fun c => c ≠ '{' && c ≠ '}') with
    | '}' :: r' => some (name, some spec, r')
    | _ => none
  | _ => none

structure VarMatch where
  name : List Char
  spec : Option (List Char)
  deriving Repr, DecidableEq

/-- the text of the match, `{name}` or `{name:spec}` -/
def VarMatch.expr (m : VarMatch) : List Char :=
  match m.spec with
  | none => '{' :: m.name ++ ['}']
  | some sp => '{' :: m.name ++ ':' :: sp ++ ['}']

/-- `re.finditer(...)`: leftmost, non-overlapping matches in order (fuel = length of the text) -/
def findVars : Nat → List Char → List VarMatch
  | 0, _ => []
  | _, [] => []
  | n + 1, c :: t =>
    if c = '{' then
      match matchVar t with
      | some (name, spec, rest) => ⟨name, spec⟩ :: findVars n rest
      | none => findVars n t
    else findVars n t

def isPrefix : List Char → List Char → Bool
  | [], _ => true
  | _ :: _, [] => false
  | a :: as, b :: bs => a = b && isPrefix as bs

/-- `s.replace(old, new)` for non-empty `old` (fuel = length of the text) -/
def replaceAll (old new : List Char) : Nat → List Char → List Char
  | 0, s => s
  | _, [] => []
  | n + 1, c :: t =>
    if isPrefix old (c :: t) then new ++ replaceAll old new n ((c :: t).drop old.length)
    else c :: replaceAll old new n t

/-- `'{name:spec}'.format(name=text)` for a string argument: `none` outside the modelled subset
(empty spec, `[[fill]<>^][width]`) -/
def formatStr (spec : Option (List Char)) (text : List Char) : Option (List Char) :=
  match spec with
  | none => some text
  | some [] => some text
  | some sp =>
    let parse : Option (Char × Char × List Char) :=
      match sp with
      | f :: a :: r => if a = '<' || a = '>' || a = '^' then some (f, a, r)
                       else if f = '<' || f = '>' || f = '^' then some (' ', f, a :: r) else
                       if f.isDigit then some (' ', '<', sp) else none
      | [a] => if a = '<' || a = '>' || a = '^' then some (' ', a, []) else
               if a.isDigit then some (' ', '<', sp) else none
      | [] => none
    match parse with
    | none => none
    | some (fill, align, w) =>
      if !(w.all Char.isDigit) then none else
      -- a leading zero would select zero padding ('=' alignment): outside the subset
      if w.head? = some '0' then none else
      let width := w.foldl (fun acc c => acc * 10 + (c.toNat - 48)) 0
      let pad := width - text.length
      match align with
      | '<' => some (text ++ List.replicate pad fill)
      | '>' => some (List.replicate pad fill ++ text)
      | _ => some (List.replicate (pad / 2) fill ++ text ++ List.replicate (pad - pad / 2) fill)

inductive RErr | recursion | unsupportedSpec
  deriving Repr, DecidableEq

/-- `_replace(string, replace_vars, default)` (repaired: an unknown variable without a default is
left exactly as it is).  `fuel` bounds the nesting of replacements (Python: recursion limit). -/
def replaceVars (vars : List (String × String)) (dflt : Option String) :
    Nat → List Char → Except RErr (List Char)
  | 0, _ => .error .recursion
  | fuel + 1, s =>
    (findVars s.length s).foldl (fun acc m =>
      match acc with
      | .error e => .error e
      | .ok cur =>
        let repl : Except RErr (Option (List Char)) :=
          match dget? vars (String.ofList m.name) with
          | none => .ok (dflt.map String.toList)
          | some r => (replaceVars vars dflt fuel r.toList).map some
        match repl with
        | .error e => .error e
        | .ok none => .ok cur
        | .ok (some r) =>
          match formatStr m.spec r with
          | none => .error .unsupportedSpec
          | some txt => .ok (replaceAll m.expr txt cur.length cur)) (.ok s)

/-- `entry.replace(default=None, **replace_vars)`: entry variables overlaid with the call's -/
def entryReplace (entryVars callVars : List (String × String)) (dflt : Option String) (v : String) :
    Except RErr String :=
  let vars := callVars.foldl (fun acc (k, x) => dset acc k x) entryVars
  (replaceVars vars dflt 64 v.toList).map String.ofList

/-! #### `.replaced` / `.replace()` on what a lookup hands back -/

/-- `cfg.get(key, value, section, default).replace(default=rdflt, **callVars)` (`.replaced` when both
are empty) -/
def getReplaced (chain : List Cfg) (key : String) (value sect dflt : Option String)
    (callVars : List (String × String)) (rdflt : Option String) :
    Except Err (Nat × String × Entry × Except RErr String) :=
  (getAt chain key value sect dflt).map fun r =>
    (r.1, r.2.1, r.2.2, entryReplace (varsAt chain r.1) callVars rdflt r.2.2.value)

/-- `cfg[section][key].replace(default=rdflt, **callVars)`, the section possibly found through the
fallback chain (`__getitem__`) -/
def itemReplaced (chain : List Cfg) (sect key : String) (callVars : List (String × String))
    (rdflt : Option String) : Except Err (Nat × Entry × Except RErr String) :=
  match getItemAt chain sect with
  | .error e => .error e
  | .ok (_, .entry _ _) => .error .key          -- an entry of the master section: not a section
  | .ok (d, .sect _ sec) =>
    (sectionEntry sec key).map fun e => (d, e, entryReplace (varsAt chain d) callVars rdflt e.value)

/-! ### Text: `entry_as_str`, `as_str`, and reading it back -/

/-- `textwrap` chunks for `break_on_hyphens=False`: maximal runs of blanks / of non-blanks, every
blank already turned into a space by `munge` -/
def chunks : List Char → List (List Char)
  | [] => []
  | c :: t =>
    match chunks t with
    | [] => [[c]]
    | (d :: ds) :: rest => if (c = ' ') = (d = ' ') then (c :: d :: ds) :: rest else [c] :: (d :: ds) :: rest
    | [] :: rest => [c] :: rest

def isSpaceChunk (ch : List Char) : Bool := ch.all (· = ' ')

/-- the inner loop of `_wrap_chunks`: move chunks onto the current line while they fit -/
def takeFit (avail : Nat) : List (List Char) → Nat → List (List Char) → List (List Char) × List (List Char)
  | cur, _, [] => (cur, [])
  | cur, len, ch :: r =>
    if len + ch.length ≤ avail then takeFit avail (cur ++ [ch]) (len + ch.length) r else (cur, ch :: r)

/-- `if self.drop_whitespace and cur_line and cur_line[-1].strip() == '': del cur_line[-1]` -/
def dropTrailingSpace (cur : List (List Char)) : List (List Char) :=
  match cur.getLast? with
  | some ch => if isSpaceChunk ch then cur.dropLast else cur
  | none => cur

/-- one line of `_wrap_chunks`: the chunks that fit, and — `_handle_long_word` with
`break_long_words=False` — a chunk that does not fit an empty line goes on it anyway -/
def lineSplit (avail : Nat) (cs : List (List Char)) : List (List Char) × List (List Char) :=
  let r := takeFit avail [] 0 cs
  match r.1, r.2 with
  | [], ch :: rr => ([ch], rr)
  | _, _ => r

/-- the greedy loop of `TextWrapper._wrap_chunks` (`break_long_words=False`, `drop_whitespace=True`),
lines as lists of chunks: `first` is true while no line has been produced (width `w`, and a leading
blank chunk is kept); later lines hold `w - hang` characters.  Fuel = number of chunks + 1. -/
def wrapChunks (w hang : Nat) : Nat → Bool → List (List Char) → List (List (List Char))
  | 0, _, _ => []
  | _, _, [] => []
  | n + 1, first, ch0 :: r0 =>
    -- drop a leading blank chunk on every line but the first, then fill the line
    let sp := lineSplit (if first then w else w - hang) (if !first && isSpaceChunk ch0 then r0 else ch0 :: r0)
    -- drop a trailing blank chunk
    let cur := dropTrailingSpace sp.1
    if cur.isEmpty then wrapChunks w hang n first sp.2
    else cur :: wrapChunks w hang n false sp.2

/-- the lines as text: `initial_indent=""`, `subsequent_indent=" " * hang` -/
def renderLines (hang : Nat) : List (List (List Char)) → List (List Char)
  | [] => []
  | l :: ls => l.flatten :: ls.map (fun x => List.replicate hang ' ' ++ x.flatten)

/-- `str.expandtabs(8)`: a tab advances to the next multiple of eight columns; the column restarts
after a line break -/
def expandTabs : List Char → Nat → List Char
  | [], _ => []
  | c :: t, col =>
    if c = '\t' then List.replicate (8 - col % 8) ' ' ++ expandTabs t (col + (8 - col % 8))
    else if c = '\n' || c = '\r' then c :: expandTabs t 0
    else c :: expandTabs t (col + 1)

/-- `TextWrapper._munge_whitespace`: expand tabs, then turn each of `\t\n\x0b\x0c\r` and blank into a space -/
def munge (text : List Char) : List Char :=
  (expandTabs text 0).map (fun c => if 9 ≤ c.toNat ∧ c.toNat ≤ 13 then ' ' else c)

/-- `console.fill(text, width=w, hanging=hang, break_long_words=False, break_on_hyphens=False)` as
a list of lines -/
def fill (w hang : Nat) (text : List Char) : List (List Char) :=
  let cs := chunks (munge text)
  renderLines hang (wrapChunks w hang (cs.length + 1) true cs)

def ljust (n : Nat) (s : List Char) : List Char := s ++ List.replicate (n - s.length) ' '

/-- `entry.entry_as_str(width, key_width, metadata=True)` as lines -/
def entryLines (w kw : Nat) (key : String) (e : Entry) : List (List Char) :=
  let first := fill w (kw + 3) (ljust kw key.toList ++ " = ".toList ++ e.value.toList)
  let metas := e.metas.flatMap fun (mk, mv) =>
    let mkey := key.toList ++ ':' :: mk.toList
    match mv with
    | none => fill w (kw + 3) mkey
    | some v => fill w (kw + 3) (ljust kw mkey ++ " = ".toList ++ v.toList)
  if e.metas.isEmpty then first else first ++ metas ++ [[]]

def joinLines : List (List Char) → List Char
  | [] => []
  | [l] => l
  | l :: t => l ++ '\n' :: joinLines t

/-- `section.as_str(…)`: `"[name]\n" + "\n".join(entry strings)`; note that an entry string may itself
be several lines and (with metadata) ends in an empty line -/
def sectionStr (w kw : Nat) (name : String) (s : Section) : List Char :=
  let entries := s.map fun (k, e) => joinLines (entryLines w kw k e)
  if entries.isEmpty then [] else ('[' :: name.toList ++ [']', '\n']) ++ joinLines entries

def joinWith (sep : List Char) : List (List Char) → List Char
  | [] => []
  | [l] => l
  | l :: t => l ++ sep ++ joinWith sep t

/-- `cfg.as_str(width=w, key_width=kw)` -/
def asStr (w kw : Nat) (secs : Sections) : String :=
  String.ofList (joinWith ['\n', '\n', '\n']
    ((secs.map fun (n, s) => sectionStr w kw n s).filter (fun t => !t.isEmpty)))

/-! #### Reading: the `ConfigParser(allow_no_value=True, delimiters=("=",))` subset -/

def splitLines : List Char → List (List Char)
  | [] => [[]]
  | c :: t =>
    match splitLines t with
    | [] => [[c]]
    | l :: ls => if c = '\n' then [] :: l :: ls else (c :: l) :: ls

def rstripBlanks (s : List Char) : List Char := (s.reverse.dropWhile isBlank).reverse

/-- raw parse: sections in file order, each a list of `(option, value lines)`; `none` value = option
without `=` -/
structure RawOpt where
  key : List Char
  value : Option (List (List Char))
  deriving Repr, DecidableEq

structure PState where
  done : List (String × List RawOpt)      -- finished sections, in order
  cur : Option (String × List RawOpt)     -- current section
  opt : Option RawOpt                     -- current option (continuation target)
  indent : Nat
  deriving Repr

inductive IniErr | noSection | duplicateSection | duplicateOption | parsing
  deriving Repr, DecidableEq

def PState.closeOpt (p : PState) : PState :=
  match p.cur, p.opt with
  | some (n, os), some o => { p with cur := some (n, os ++ [o]), opt := none }
  | _, _ => { p with opt := none }

def PState.closeSection (p : PState) : PState :=
  let p := p.closeOpt
  match p.cur with
  | some s => { p with done := p.done ++ [s], cur := none }
  | none => p

/-- `SECTCRE = \[(?P<header>.+)\]` matched at the start of the stripped line: the header is what stands
between the opening bracket and the *last* closing bracket (`.+` is greedy), and it is not empty -/
def sectionName? (stripped : List Char) : Option (List Char) :=
  match stripped with
  | '[' :: body =>
    match body.reverse.dropWhile (· ≠ ']') with
    | _ :: nameRev => if nameRev.isEmpty then none else some nameRev.reverse
    | [] => none
  | _ => none

/-- a section header line `[name]` -/
def sectionLine (p : PState) (name : List Char) (ind : Nat) : Except IniErr PState :=
  let name := String.ofList name
  let p := p.closeSection
  if (p.done.map (·.1)).contains name then .error .duplicateSection
  else .ok { p with cur := some (name, []), opt := none, indent := ind }

/-- an option line `key = value` / `key` -/
def optionLine (lower : Bool) (p : PState) (stripped : List Char) (ind : Nat) : Except IniErr PState :=
  match p.closeOpt.cur with
  | none => .error .noSection
  | some (_, os) =>
    let pr := partitionAt '=' stripped
    let key := if lower then (rstripBlanks pr.1).map lowerChar else rstripBlanks pr.1
    if key.isEmpty then .error .parsing else
    if (os.map (·.key)).contains key then .error .duplicateOption else
    .ok { p.closeOpt with opt := some ⟨key, if pr.2.1 then some [stripBlanks pr.2.2] else none⟩, indent := ind }

/-- a line that is not a continuation: section header or option -/
def headerLine (lower : Bool) (p : PState) (stripped : List Char) (ind : Nat) : Except IniErr PState :=
  match sectionName? stripped with
  | some name => sectionLine p name ind
  | none => optionLine lower p stripped ind

/-- one line of `RawConfigParser._read` -/
def readLine (lower : Bool) (p : PState) (line : List Char) : Except IniErr PState :=
  let stripped := stripBlanks line
  -- full-line comments
  if stripped.head? = some '#' || stripped.head? = some ';' then .ok p else
  if stripped.isEmpty then
    -- `empty_lines_in_values`: an empty line is kept inside a value that has started
    match p.opt with
    | some ⟨k, some vs⟩ => .ok { p with opt := some ⟨k, some (vs ++ [[]])⟩ }
    | _ => .ok p
  else
    let ind := (line.takeWhile isBlank).length
    match p.cur, p.opt with
    | some _, some ⟨k, some vs⟩ =>
      if ind > p.indent then .ok { p with opt := some ⟨k, some (vs ++ [stripped])⟩ }
      else headerLine lower p stripped ind
    | some _, some ⟨_, none⟩ =>
      -- `cursect[optname].append(value)` on the `None` of a valueless option: AttributeError
      -- (MultilineContinuationError from Python 3.13 on); the harness maps both to `ini`
      if ind > p.indent then .error .parsing else headerLine lower p stripped ind
    | _, _ => headerLine lower p stripped ind

def readIniRaw (lower : Bool) (text : String) : Except IniErr (List (String × List RawOpt)) :=
  let r : Except IniErr PState := (splitLines text.toList).foldl (fun acc l => match acc with
    | .error e => .error e
    | .ok p => readLine lower p l) (.ok ⟨[], none, none, 0⟩)
  r.map (fun p => p.closeSection.done)

/-- `'\n'.join(lines).rstrip()` then, in `update_from_file`, `.replace("\n", " ").strip()` (repaired:
the blank a value starting on a continuation line would get is stripped) -/
def joinValue (vs : List (List Char)) : String :=
  String.ofList (stripBlanks ((rstripBlanks (joinLines vs)).map (fun c => if c = '\n' then ' ' else c)))

/-- `cfg_section.partition("__")` -/
def partDunder : List Char → List Char × Bool × List Char
  | [] => ([], false, [])
  | '_' :: '_' :: t => ([], true, t)
  | c :: t => (c :: (partDunder t).1, (partDunder t).2.1, (partDunder t).2.2)

/-- the `meta` dict of one key: `{k.partition(":")[-1]: v for k, v in items if k.startswith(f"{key}:")}`
(a meta key given twice keeps its first position and the last value) -/
def metaOf (opts : List RawOpt) (key : List Char) : List (String × Option String) :=
  (opts.filterMap fun m =>
    if isPrefix (key ++ [':']) m.key then
      some (String.ofList (partitionAt ':' m.key).2.2, m.value.map joinValue)
    else none).foldl (fun acc p => dset acc p.1 p.2) []

/-- the updates one parsed section issues -/
def sectionUpdates (source : String) (allowNew : Bool) (cfgSection : String) (opts : List RawOpt) :
    List (String × Upd) :=
  let pd := partDunder cfgSection.toList
  if pd.1.isEmpty then [] else
  opts.filterMap fun o =>
    if o.key.contains ':' then none else
    some (String.ofList o.key,
      ⟨String.ofList pd.1, String.ofList o.key, (o.value.map joinValue).getD "None",
       if pd.2.1 then some (String.ofList pd.2.2) else none, source, metaOf opts o.key, allowNew⟩)

/-- the entry loop of `update_from_file` over the parsed file: the updates it issues, in order
(`__replace__` substitution is outside the modelled subset) -/
def fileUpdates (source : String) (allowNew : Bool) (raw : List (String × List RawOpt)) :
    List (String × Upd) :=
  raw.flatMap fun so => sectionUpdates source allowNew so.1 so.2

/-- `update_from_file(path)` for a file with the given text (no `__replace__`/`__vars__` sections) -/
def Cfg.updateFromText (c : Cfg) (text source : String) (allowNew caseSensitive : Bool) :
    Except IniErr (Cfg × Option Err) :=
  (readIniRaw (!caseSensitive) text).map fun raw =>
    let r := c.updateMany false (fileUpdates source allowNew raw) []
    (r.1, r.2.1)

/-! #### `update_from_file`: the `DEFAULT` section and the special sections `__replace__` / `__vars__` -/

/-- the value of an option as `ConfigParser` hands it out: the lines joined by newlines, trailing blanks removed -/
def rawValue (vs : List (List Char)) : String := String.ofList (rstripBlanks (joinLines vs))

/-- `[DEFAULT]`: its options are seen in every other section — `opts = section.copy(); opts.update(defaults)`: the section's own
options first (with their own values), then the default options the section does not have — and `sections()` does not list it -/
def applyDefaults (raw : List (String × List RawOpt)) : List (String × List RawOpt) :=
  match dget? raw "DEFAULT" with
  | none => raw
  | some dflt =>
    (raw.filter (fun so => so.1 ≠ "DEFAULT")).map fun so =>
      (so.1, so.2 ++ dflt.filter (fun d => !(so.2.map (·.key)).contains d.key))

/-- `{k: v for k, v in cfg_parser[name].items()}` of a special section; a key without `=` has the value `None` -/
def sectionItems (opts : List RawOpt) : List (String × Option String) :=
  opts.map fun o => (String.ofList o.key, o.value.map rawValue)

def derase {κ ν} [DecidableEq κ] (d : List (κ × ν)) (k : κ) : List (κ × ν) := d.filter (fun p => p.1 ≠ k)

/-- `update_vars` with the items of `__vars__`: a variable set to `None` is from then on unknown to `_replace`
(`replace_vars.get(var) is None`), which is modelled by removing it -/
def Cfg.updateVarsOpt (c : Cfg) (d : List (String × Option String)) : Cfg :=
  { c with vars := d.foldl (fun acc kv => match kv.2 with | some x => dset acc kv.1 x | none => derase acc kv.1) c.vars }

/-- `_replace(text, replace_vars)` with the table of `__replace__` (no default) -/
def replaceIn (rv : List (String × String)) (s : String) : Except RErr String :=
  (replaceVars rv none 64 s.toList).map String.ofList

/-- `_replace(value, replace_vars).replace("\n", " ").strip()` -/
def joinValueR (rv : List (String × String)) (vs : List (List Char)) : Except RErr String :=
  (replaceIn rv (rawValue vs)).map fun s =>
    String.ofList (stripBlanks (s.toList.map (fun c => if c = '\n' then ' ' else c)))

/-- the updates one parsed section issues, with the `__replace__` table applied to keys and values (not to the
metadata); a replacement that raises ends the loop -/
def sectionUpdatesR (rv : List (String × String)) (source : String) (allowNew : Bool) (cfgSection : String)
    (opts : List RawOpt) : List (Except RErr (String × Upd)) :=
  let pd := partDunder cfgSection.toList
  if pd.1.isEmpty then [] else
  opts.filterMap fun o =>
    if o.key.contains ':' then none else
    some (
      match replaceIn rv (String.ofList o.key) with
      | .error e => .error e
      | .ok key =>
        let val : Except RErr String := match o.value with | none => .ok "None" | some vs => joinValueR rv vs
        match val with
        | .error e => .error e
        | .ok value =>
          .ok (key, ⟨String.ofList pd.1, key, value,
            if pd.2.1 then some (String.ofList pd.2.2) else none, source, metaOf opts o.key, allowNew⟩))

def fileUpdatesR (rv : List (String × String)) (source : String) (allowNew : Bool)
    (raw : List (String × List RawOpt)) : List (Except RErr (String × Upd)) :=
  raw.flatMap fun so => sectionUpdatesR rv source allowNew so.1 so.2

/-- the results up to the first one that raised -/
def takeOk {ε α} : List (Except ε α) → List α × Option ε
  | [] => ([], none)
  | .error e :: _ => ([], some e)
  | .ok a :: t => (a :: (takeOk t).1, (takeOk t).2)

inductive FileErr
  | cfg (e : Err)
  | replace (e : RErr)
  deriving Repr, DecidableEq

/-- the `__replace__` table: `{k: v for k, v in cfg_parser["__replace__"].items()}`; keys without value are unknown -/
def replaceTable (raw : List (String × List RawOpt)) : List (String × String) :=
  match dget? raw "__replace__" with
  | some os => (sectionItems os).filterMap (fun kv => kv.2.map (fun v => (kv.1, v)))
  | none => []

/-- `update_from_file(path, allow_new, case_sensitive)` for a file with the given text, with the `DEFAULT` section, the
`__replace__` table and the `__vars__` section (which is applied first, and also when an entry is refused later) -/
def Cfg.updateFromFile (c : Cfg) (text source : String) (allowNew caseSensitive : Bool) :
    Except IniErr (Cfg × Option FileErr) :=
  (readIniRaw (!caseSensitive) text).map fun raw0 =>
    let raw := applyDefaults raw0
    let c1 := match dget? raw "__vars__" with
      | some os => c.updateVarsOpt (sectionItems os)
      | none => c
    let ups := takeOk (fileUpdatesR (replaceTable raw) source allowNew raw)
    let r := c1.updateMany false ups.1 []
    (r.1, match r.2.1 with | some e => some (.cfg e) | none => ups.2.map .replace)

end Midgard.Config
