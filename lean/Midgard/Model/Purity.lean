/-
C16 — parsing is a pure function of file and arguments (model).

Three layers, all Mathlib-free and executable where that makes sense:

1. an abstract world `{files, shared cells, per-instance state}` on which *any* program of parser
   operations (construct / parse / mutate-result, folded into one `sem`) runs as a history of
   events, each acting on one instance (`run`, `purge`, `obsOf`);
2. the mechanisms behind the process-wide cells the library really has, each as a small concrete
   state machine whose independence lemma is proved in `Props/C16.lean`:
     * memo tables (`functools.lru_cache`, `_CONVERSION_HOPS`)            — `memoCall`
     * import-time registries (`plugins._PLUGINS`, unit/enum/system tables) — `regLoad`, `regGet`
     * the function-level list of `_parser_rinex.parser_cache`             — `parseHeader`
3. the cover table: which lemma class justifies each cell of `Generated/ParserEffects.effects`.
-/
import Midgard.Generated.ParserEffects

namespace Midgard.Purity

/-! ## 1. Abstract world and histories -/

/-- what one operation returns: the value the caller sees, the new state of the instance it was
invoked on, the new process-wide state and the new file system -/
structure Out (Obs Loc Sh Fs : Type) where
  obs : Obs
  loc : Loc
  shared : Sh
  files : Fs

structure World (Id Loc Cell Val Path Bytes : Type) where
  files : Path → Bytes
  shared : Cell → Val
  inst : Id → Loc

structure Event (Id Op : Type) where
  who : Id
  op : Op

section generic
variable {Id Loc Cell Val Path Bytes Op Obs : Type} [DecidableEq Id]

/-- semantics of an operation (`__init__`, `parse()`, a caller's mutation of a result …): it sees
the files, the state of the instance it is invoked on and the process-wide cells -/
abbrev Sem (Loc Cell Val Path Bytes Op Obs : Type) :=
  Op → (Path → Bytes) → Loc → (Cell → Val) → Out Obs Loc (Cell → Val) (Path → Bytes)

def setInst (f : Id → Loc) (i : Id) (l : Loc) : Id → Loc := fun j => if j = i then l else f j

def step (sem : Sem Loc Cell Val Path Bytes Op Obs) (w : World Id Loc Cell Val Path Bytes)
    (e : Event Id Op) : World Id Loc Cell Val Path Bytes × Obs :=
  let o := sem e.op w.files (w.inst e.who) w.shared
  ({ files := o.files, shared := o.shared, inst := setInst w.inst e.who o.loc }, o.obs)

/-- run a history; the trace lists what every event returned, tagged with its instance -/
def run (sem : Sem Loc Cell Val Path Bytes Op Obs) :
    World Id Loc Cell Val Path Bytes → List (Event Id Op) →
    World Id Loc Cell Val Path Bytes × List (Id × Obs)
  | w, [] => (w, [])
  | w, e :: h =>
    let (w', o) := step sem w e
    let (w'', t) := run sem w' h
    (w'', (e.who, o) :: t)

/-- the events of instance `i` only -/
def purge (i : Id) (h : List (Event Id Op)) : List (Event Id Op) := h.filter (fun e => e.who = i)

/-- what the owner of instance `i` saw, in order -/
def obsOf (i : Id) (t : List (Id × Obs)) : List Obs := (t.filter (fun p => p.1 = i)).map (·.2)

/-- The hypotheses under which other instances cannot be noticed.  `rel` are the process-wide cells
results may depend on; `Good` is an invariant of the process-wide state (sound memo tables, sound
registries). -/
structure NonInterfering (sem : Sem Loc Cell Val Path Bytes Op Obs) (rel : Cell → Prop)
    (Good : (Cell → Val) → Prop) : Prop where
  /-- no operation modifies a file -/
  files_kept : ∀ op fs l s, (sem op fs l s).files = fs
  /-- the invariant of the process-wide state is preserved -/
  good_step : ∀ op fs l s, Good s → Good (sem op fs l s).shared
  /-- no operation changes a cell results may depend on (written cells are never relevant) -/
  rel_kept : ∀ op fs l s c, Good s → rel c → (sem op fs l s).shared c = s c
  /-- results and the instance's next state depend on process-wide state only through `rel` -/
  reads_sound : ∀ op fs l s s', Good s → Good s' → (∀ c, rel c → s c = s' c) →
      (sem op fs l s).obs = (sem op fs l s').obs ∧ (sem op fs l s).loc = (sem op fs l s').loc

/-- **Frames.**  What the effect table says about an operation: the process-wide cells its result may depend on
(`reads op`) and the cells it may change (`writes op`).  A cell that an operation re-initialises before it looks at
it ("reset before use") is written, not read: the result does not depend on what the cell held. -/
structure Framed (sem : Sem Loc Cell Val Path Bytes Op Obs) (reads writes : Op → Cell → Prop) : Prop where
  /-- no operation modifies a file -/
  files_kept : ∀ op fs l s, (sem op fs l s).files = fs
  /-- cells outside the write set keep their value -/
  writes_only : ∀ op fs l s c, ¬ writes op c → (sem op fs l s).shared c = s c
  /-- result and next instance state depend on process-wide state through the read set only -/
  reads_only : ∀ op fs l s s', (∀ c, reads op c → s c = s' c) →
      (sem op fs l s).obs = (sem op fs l s').obs ∧ (sem op fs l s).loc = (sem op fs l s').loc

end generic

/-! ## 2a. Memo tables (`functools.lru_cache`, `_CONVERSION_HOPS`) -/

section memo
variable {α β : Type} [DecidableEq α]

/-- a memoised call: hit → stored value, miss → compute and store -/
def memoCall (f : α → β) (cache : List (α × β)) (x : α) : β × List (α × β) :=
  match cache.lookup x with
  | some v => (v, cache)
  | none => (f x, (x, f x) :: cache)

/-- every stored value is the function's value -/
def CacheSound (f : α → β) (cache : List (α × β)) : Prop := ∀ p ∈ cache, p.2 = f p.1

/-- a world whose only process-wide cell is the memo table of `f`; the one operation "call with `x`" returns what
the memoised function returns and leaves the instance alone -/
def memoSem {Loc Path Bytes : Type} (f : α → β) : Sem Loc Unit (List (α × β)) Path Bytes α β :=
  fun x fs l s => ⟨(memoCall f (s ()) x).1, l, fun _ => (memoCall f (s ()) x).2, fs⟩

end memo

/-! ## 2b. Import-time registries (`plugins._PLUGINS[package]`)

`plugins.get(package, n)`: `load` imports module `n` when `n` is not registered yet; importing a
module runs its `@register` decorators and those of the plug-in modules it imports itself
(`closure n`, regenerated by the translator); then the entry is looked up.  `defn n` is what the
source file of `n` registers (`none`: no plug-in in that file → `UnknownPluginError`). -/

section registry
variable {N P : Type} [DecidableEq N]

def regAdd (defn : N → Option P) (reg : List (N × P)) (n : N) : List (N × P) :=
  if (reg.lookup n).isSome then reg else
    match defn n with
    | some p => reg ++ [(n, p)]
    | none => reg

/-- import of module `n`: registers `n` and the plug-in modules it imports -/
def regImport (defn : N → Option P) (closure : N → List N) (reg : List (N × P)) (n : N) : List (N × P) :=
  (closure n ++ [n]).foldl (regAdd defn) reg

/-- `plugins.load` -/
def regLoad (defn : N → Option P) (closure : N → List N) (reg : List (N × P)) (n : N) : List (N × P) :=
  if (reg.lookup n).isSome then reg else regImport defn closure reg n

/-- `plugins.get`: the plug-in found (or `none` = UnknownPluginError) and the registry afterwards -/
def regGet (defn : N → Option P) (closure : N → List N) (reg : List (N × P)) (n : N) :
    Option P × List (N × P) :=
  let reg' := regLoad defn closure reg n
  (reg'.lookup n, reg')

/-- `plugins.exists`: tries to load, answers whether the name is registered afterwards; a name that
is not a plug-in leaves **no** entry behind (`_import_one` raised, nothing was stored) -/
def regExists (defn : N → Option P) (closure : N → List N) (reg : List (N × P)) (n : N) :
    Bool × List (N × P) :=
  let r := regGet defn closure reg n
  (r.1.isSome, r.2)

/-- every registered entry is what its source file defines -/
def RegSound (defn : N → Option P) (reg : List (N × P)) : Prop := ∀ p ∈ reg, defn p.1 = some p.2

def regKeys (reg : List (N × P)) : List N := reg.map (·.1)

/-- a world whose only process-wide cell is the plug-in registry; the one operation "get `n`" returns what
`plugins.get` returns and leaves the instance alone -/
def regSem {Loc Path Bytes : Type} (defn : N → Option P) (closure : N → List N) :
    Sem Loc Unit (List (N × P)) Path Bytes N (Option P) :=
  fun n fs l s => ⟨(regGet defn closure (s ()) n).1, l, fun _ => (regGet defn closure (s ()) n).2, fs⟩

end registry

/-! ## 2c. The function-level list of `_parser_rinex.parser_cache`

`parser_cache(func)` (mechanism `shared`, the code as it was): `func.cache = list()` is created once
per decorated *function*, handed to every call and extended by every call — by every instance, for
every file, never cleared.  Mechanism `local` (the repaired decorator): the list lives on the parser
instance and starts empty.

`parse_sys_obs_types(self, fields, cache)`:
```
satellite_sys = fields["satellite_sys"]; prev_idx = -1
while not satellite_sys: satellite_sys = cache[prev_idx]["satellite_sys"]; prev_idx -= 1   # IndexError
obs_list = self.header.get("obs_types", {}).setdefault(satellite_sys, [])
for f in sorted(type_*): if fields[f]: obs_list.append(fields[f])
```
`parse_phase_shift` resolves its continuation lines the same way
(`next(c for c in cache[::-1] if c["sat_sys"])`). -/

abbrev Str := List Char

/-- the stripped column fields of one `SYS / # / OBS TYPES` line -/
structure ObsLine where
  sys : Str
  types : List Str
  deriving DecidableEq, Repr

/-- `cache[-1], cache[-2], …` until a non-empty system: `none` = IndexError -/
def resolveSys (cache : List ObsLine) (l : ObsLine) : Option Str :=
  if l.sys ≠ [] then some l.sys else (cache.reverse.find? (fun c => c.sys ≠ [])).map (·.sys)

/-- `header["obs_types"]` as an insertion-ordered association list -/
abbrev ObsTypes := List (Str × List Str)

def obsAppend (h : ObsTypes) (sys : Str) (ts : List Str) : ObsTypes :=
  if h.any (fun p => p.1 = sys) then h.map (fun p => if p.1 = sys then (p.1, p.2 ++ ts) else p)
  else h ++ [(sys, ts)]

/-- the header lines of one file, parsed with the cache as it stands; `none` = the parse raised.
Returns the header dictionary and the cache afterwards (the wrapper appends *after* a successful
call). -/
def parseFrom : List ObsLine → ObsTypes → List ObsLine → Option ObsTypes × List ObsLine
  | cache, h, [] => (some h, cache)
  | cache, h, l :: rest =>
    match resolveSys cache l with
    | none => (none, cache)
    | some sys => parseFrom (cache ++ [l]) (obsAppend h sys (l.types.filter (· ≠ []))) rest

inductive CacheMech | shared | «local»
  deriving DecidableEq, Repr

/-- one header parse: `pre` is what earlier parses (any instance, any file) left in the
function-level list -/
def parseHeader (m : CacheMech) (pre : List ObsLine) (lines : List ObsLine) : Option ObsTypes × List ObsLine :=
  match m with
  | .shared => parseFrom pre [] lines
  | .local => ((parseFrom [] [] lines).1, pre)

/-- a continuation line (blank system) only ever follows a line of the same file that names one -/
def wfHeader : List ObsLine → Bool
  | [] => true
  | l :: _ => l.sys ≠ []

/-! ## 3. Cover table: which lemma class answers for which effect cell -/

inductive Cover where
  /-- memo of a deterministic function — `memo_transparent` -/
  | memo
  /-- import-time registration table — `registry_get_independent` -/
  | registry
  /-- written on a parse path, never flows into a result (dependency bookkeeping, active loggers) —
  excluded from `rel` in `noninterference` -/
  | sink
  deriving DecidableEq, Repr

open Midgard.Generated.ParserEffects in
/-- Hand-written: the process-wide cells known to be harmless, by mechanism.  A cell that appears in
`effects` and not here breaks `Props.C16.effects_covered`.  The function-level list of
`parser_cache` is deliberately *not* covered: its independence lemma holds for well-formed headers
only (`parser_cache_irrelevant_partial`), so the repaired decorator keeps the list on the instance. -/
def coverTable : List (String × Cover) := [
  ("midgard.dev.plugins:_PLUGINS", .registry),
  ("midgard.collections.enums:_ENUMS", .registry),
  ("midgard.data._position:_ATTRIBUTES", .registry),
  ("midgard.data._position:_CONVERSIONS", .registry),
  ("midgard.data._position:_FIELDS", .registry),
  ("midgard.data._position:_SYSTEMS", .registry),
  ("midgard.data._position:_UNITS", .registry),
  ("midgard.data._time:_CONVERSIONS", .registry),
  ("midgard.data._time:_FORMATS", .registry),
  ("midgard.data._time:_FORMAT_UNITS", .registry),
  ("midgard.data._time:_SCALES", .registry),
  ("midgard.math.ellipsoid:_ELLIPSOIDS", .registry),
  ("midgard.math.unit:_UNITS", .registry),
  ("midgard.site_info._site_info:ModuleBase.sources", .registry),
  ("midgard.data._position:_CONVERSION_HOPS", .memo),
  ("midgard.data._time:_CONVERSION_HOPS", .memo),
  ("midgard.dev.log:_ACTIVE_LOGGERS", .sink),
  ("midgard.files.dependencies:_CURRENT_DEPENDENCIES", .sink),
  ("midgard.files.dependencies:_DEPENDENCY_CACHE", .sink)]

/-- the cells the three `sink` rows stand for are *trusted*, not proved: written on parse paths, claimed never to
flow into a result (the check lists them as trusted cells in its evidence) -/
def trustedCells : List String := (coverTable.filter fun p => p.2 = .sink).map (·.1)

/-- Hand-written: the memoised functions (`functools.lru_cache` / `cache`) that were looked at: a function of its
(hashable) arguments only, whose values are immutable or handed out read-only (C08 checks that for `data._time`).
A memo that is not listed here - any new `lru_cache` in midgard/parsers, gnss, files, dev or a module a parser
imports - is an uncovered effect and breaks `Props.C16.effects_covered`; so does a listed one whose body starts to
look at the file system, the clock or the environment (`escapeSites` of a memo row). -/
def reviewedMemo : List String := [
  "midgard.data._time:_dt2jd@lru_cache",
  "midgard.data._time:_dt2str@lru_cache",
  "midgard.data._time:_dy2jd@lru_cache",
  "midgard.data._time:_jd2dt@lru_cache",
  "midgard.data._time:_jd2dy@lru_cache",
  "midgard.data._time:_jd2yds@lru_cache",
  "midgard.data._time:_jd_delta@lru_cache",
  "midgard.data._time:_str2dt@lru_cache",
  "midgard.data._time:_to_scale@lru_cache",
  "midgard.data._time:_yds2jd@lru_cache",
  "midgard.data._time:_year2days@lru_cache",
  "midgard.data._time:day@lru_cache",
  "midgard.data._time:doy@lru_cache",
  "midgard.data._time:hour@lru_cache",
  "midgard.data._time:jd_frac@lru_cache",
  "midgard.data._time:jd_int@lru_cache",
  "midgard.data._time:max@lru_cache",
  "midgard.data._time:mean@lru_cache",
  "midgard.data._time:min@lru_cache",
  "midgard.data._time:minute@lru_cache",
  "midgard.data._time:mjd_frac@lru_cache",
  "midgard.data._time:mjd_int@lru_cache",
  "midgard.data._time:month@lru_cache",
  "midgard.data._time:plot_fields@lru_cache",
  "midgard.data._time:sec_of_day@lru_cache",
  "midgard.data._time:second@lru_cache",
  "midgard.data._time:to_format@lru_cache",
  "midgard.data._time:year@lru_cache",
  "midgard.math.rotation:enu2trs@lru_cache",
  "midgard.math.rotation:trs2enu@lru_cache",
  "midgard.math.transformation:_llh2trs@lru_cache",
  "midgard.math.transformation:_trs2llh@lru_cache"]

/-- Hand-written: shared objects that are knowingly handed out (cell id, why that is harmless).  Empty: on the
current tree no mutable object of module, class or closure level is returned, bound to another name, stored in a
container or passed to a call that is not a pure consumer. -/
def escapeReviewed : List (String × String) := []

open Midgard.Generated.ParserEffects in
/-- the cover of a cell: a reviewed `lru_cache` whose body looks at nothing but its arguments is a memo table;
the rest by name -/
def coverOf (id : String) : Option Cover :=
  match cells.find? (fun r => r.id = id) with
  | some r =>
    if r.kind = .lrucache then (if reviewedMemo.contains id && r.escapeSites == 0 then some .memo else none)
    else coverTable.lookup id
  | none => coverTable.lookup id

open Midgard.Generated.ParserEffects in
/-- process-wide cells that are written at run time, read, and of none of the three mechanisms: a parse could read
there what an earlier parse left behind -/
def readBeforeWriteCells : List CellRow :=
  cells.filter fun r => r.level != .instance && decide (r.writeSites > 0) && decide (r.readSites > 0) && (coverOf r.id).isNone

open Midgard.Generated.ParserEffects in
/-- shared objects that leave the module: handed out although nobody reviewed it -/
def unreviewedEscapes : List CellRow :=
  cells.filter fun r => r.kind != .lrucache && decide (r.escapeSites > 0) && !(escapeReviewed.any fun p => p.1 == r.id)

open Midgard.Generated.ParserEffects in
/-- per-object cells that are not fresh per object: the name falls back to a class-level object, the bound value is
a shared object, or nothing creates the attribute -/
def staleInstanceCells : List InstRow :=
  instanceCells.filter fun r => r.shadowsClassCell || r.aliasOfShared || (!r.ctorInit && r.createdIn == "")

end Midgard.Purity
