/-
Executable model of midgard's RINEX navigation parsers (`rinex3_nav.py`, `rinex2_nav.py`,
`rinex212_nav.py`, on top of `_parser_chain.py`).

Table driven: the line-number ↦ column tables, the rename table `SYSNAMES` and the two offset
dictionaries are regenerated from the source (`Generated/RinexNavCols.lean`).

`none` = the real code raises.  Times are exact rational seconds since the GPS epoch
(1980-01-06 00:00:00): `Time(gps_ws)` / `Time(datetime)` constructors are taken as given (C02).
-/
import Midgard.Core.Text
import Midgard.Core.Decimal
import Midgard.Core.FixedCol

namespace Midgard.RinexNav
open Midgard.Text Midgard.Decimal Midgard.FixedCol

/-- one entry of `data_parser.parser_def`: record line number ↦ field layout -/
structure LineDef where
  num : Nat
  fields : Layout
  deriving Repr, DecidableEq, Inhabited

/-- `SYSNAMES`: general field ↦ [(system, specific name)] in dictionary order -/
abbrev SysNames := List (String × List (String × String))

structure Tables where
  lines : List LineDef
  sysnames : SysNames
  secOffset : List (String × Int)     -- SYSTEM_TIME_OFFSET_TO_GPS_SECOND
  weekOffset : List (String × Int)    -- SYSTEM_TIME_OFFSET_TO_GPS_WEEK
  deriving Repr, Inhabited

inductive Cell
  | num (q : Rat)
  | none
  | str (s : Str)
  | time (gpsSeconds : Rat)
  deriving Repr, DecidableEq, Inhabited

abbrev Cols := List (String × List Cell)

/-- `data.setdefault(k, list()).append(v)`: the column of `k` grows by `v`; a new key starts a column
at the end of the dictionary -/
def append : Cols → String → Cell → Cols
  | [], k, v => [(k, [v])]
  | (k', vs) :: rest, k, v => if k' = k then (k', vs ++ [v]) :: rest else (k', vs) :: append rest k v

/-- `data[k]` (`none`: KeyError) -/
def col : Cols → String → Option (List Cell)
  | [], _ => Option.none
  | (k', vs) :: rest, k => if k' = k then some vs else col rest k

def setCol (d : Cols) (k : String) (vs : List Cell) : Cols :=
  if d.any (·.1 = k) then d.map fun (k', old) => if k' = k then (k', vs) else (k', old) else d ++ [(k, vs)]

def delCol (d : Cols) (k : String) : Cols := d.filter (·.1 ≠ k)

/-- `_float`: blank ↦ 0, `D`/`d` exponents ↦ `e`, then Python `float` -/
def floatField (t : Str) : Option Rat :=
  if t.isEmpty || isBlank t then some 0
  else parseFloat (replaceChar 'd' 'e' (replaceChar 'D' 'e' t))

/-- Python `str.isalpha()` of a one-character string, ASCII -/
def isAlpha (c : Char) : Bool := ('a' ≤ c && c ≤ 'z') || ('A' ≤ c && c ≤ 'Z')

def lookupI (t : List (String × Int)) (k : String) : Int := ((t.find? (·.1 = k)).map (·.2)).getD 0

/-! ### calendar: days since 1980-01-06 of a proleptic Gregorian date (Hinnant's `days_from_civil`) -/

def daysFromCivil (y m d : Int) : Int :=
  let y' := if m ≤ 2 then y - 1 else y
  let era := (if y' ≥ 0 then y' else y' - 399) / 400
  let yoe := y' - era * 400
  let mp := (m + 9) % 12
  let doy := (153 * mp + 2) / 5 + d - 1
  let doe := yoe * 365 + yoe / 4 - yoe / 100 + doy
  era * 146097 + doe - 719468

/-- days from 1970-01-01 to 1980-01-06 -/
def gpsEpochDays : Int := 3657

/-! ### records -/

structure Epoch where
  system : Str
  sat : Str
  year : Int
  month : Int
  day : Int
  hour : Int
  minute : Int
  second : Rat
  deriving Repr, Inhabited, DecidableEq

/-- the fields of one record line, `line[a:b].strip()` each, on the rstripped line -/
def lineValues (ld : LineDef) (line : Str) : List (String × Str) := sliceAll ld.fields (rstrip line)

def get (vs : List (String × Str)) (k : String) : Str := ((vs.find? (·.1 = k)).map (·.2)).getD []

/-- what line 1 decides -/
inductive Head
  | skipHeaderLine          -- a header line in the data section: the record is ignored
  | skipSystem              -- GLONASS / SBAS
  | ok (e : Epoch) (clock : List (String × Rat))

def clockNames : List String := ["sat_clock_bias", "sat_clock_drift", "sat_clock_drift_rate"]

/-- the three clock values of the epoch line, through `_float` -/
def clockOf (vs : List (String × Str)) : Option (List (String × Rat)) :=
  clockNames.mapM fun n => (floatField (get vs n)).map fun q => (n, q)

/-- the civil epoch of a RINEX 3 epoch line (`int()` / `float()` of its fields) -/
def epoch3 (vs : List (String × Str)) : Option Epoch := do
  let sys := get vs "system"
  let y ← parseInt? (get vs "year"); let mo ← parseInt? (get vs "month"); let d ← parseInt? (get vs "day")
  let h ← parseInt? (get vs "hour"); let mi ← parseInt? (get vs "minute"); let s ← parseFloat (get vs "second")
  pure ⟨sys, sys ++ zfill 2 (get vs "sat_num"), y, mo, d, h, mi, s⟩

/-- `Rinex3NavParser._parse_observation_epoch` -/
def head3 (vs : List (String × Str)) : Option Head :=
  if ((get vs "sat_clock_drift").getLast?.map isAlpha).getD false then some .skipHeaderLine
  else if get vs "system" = ['S'] ∨ get vs "system" = ['R'] then some .skipSystem
  else (epoch3 vs).bind fun e => (clockOf vs).map fun cl => .ok e cl

/-- the civil epoch of a RINEX 2 epoch line: two-digit year 80–99 ↦ 19yy, else 20yy -/
def epoch2 (system : Str) (vs : List (String × Str)) : Option Epoch := do
  let yy ← parseInt? (get vs "year")
  let yr4 ← parseInt? ((if 80 ≤ yy ∧ yy ≤ 99 then ['1', '9'] else ['2', '0']) ++ zfill 2 (get vs "year"))
  let mo ← parseInt? (get vs "month"); let d ← parseInt? (get vs "day")
  let h ← parseInt? (get vs "hour"); let mi ← parseInt? (get vs "minute"); let s ← parseFloat (get vs "second")
  let sat := system ++ zfill 2 (get vs "sat")
  pure ⟨sat.take 1, sat, yr4, mo, d, h, mi, s⟩

/-- `Rinex2NavParser._parse_observation_epoch` (`system` comes from the file extension); a group of lines that starts
with an empty line (`not any(line.values())`, e.g. the empty line at the end of a file) is ignored -/
def head2 (system : Str) (vs : List (String × Str)) : Option Head :=
  if ((get vs "sat_clock_drift_rate").head?.map isAlpha).getD false then some .skipHeaderLine
  else if vs.all (fun kv => kv.2.isEmpty) then some .skipHeaderLine     -- an empty line does not start a record
  else (epoch2 system vs).bind fun e => (clockOf vs).map fun cl => .ok e cl

/-- seconds since the GPS epoch of the printed civil epoch.  `frac7` is the 7-digit fraction of
`'{:010.7f}'.format(second)`; the single-system path feeds it to `timedelta(milliseconds=…)`,
the mixed/BeiDou path lets `dateutil` keep its first six digits. -/
def epochSeconds (mixedPath : Bool) (e : Epoch) : Rat :=
  let n : Int := roundHalfEven (e.second * 10000000)
  let ip : Int := n / 10000000
  let frac7 : Int := n % 10000000
  let whole : Int := (daysFromCivil e.year e.month e.day - gpsEpochDays) * 86400 + e.hour * 3600 + e.minute * 60 + ip
  if mixedPath then (whole : Rat) + ((frac7 / 10 : Int) : Rat) / 1000000
  else (whole : Rat) + (frac7 : Rat) / 1000

/-- state while reading the data section: the columns and the per-record cache -/
structure St where
  data : Cols
  epochs : List Epoch        -- one per kept record (for the time column)
  deriving Inhabited, DecidableEq

/-- the epoch line handler of the parser version in use -/
def headOf (v2sys : Option Str) (vs : List (String × Str)) : Option Head :=
  match v2sys with
  | some s => head2 s vs
  | Option.none => head3 vs

/-- `_parse_obs_float` on the fields of one orbit line -/
def addLine (ld : LineDef) (d : Cols) (line : Str) : Option Cols :=
  (lineValues ld line).foldlM (fun d (kt : String × Str) => (floatField kt.2).map fun q => append d kt.1 (.num q)) d

/-- lines 2.. of a record, numbered from 0 (record line number `i + 2`) -/
def addLines (T : Tables) (d : Cols) (nl : List (Nat × Str)) : Option Cols :=
  nl.foldlM (fun d (il : Nat × Str) =>
    match T.lines.find? (fun (l : LineDef) => l.num = il.1 + 2) with
    | Option.none => some d
    | some ld => addLine ld d il.2) d

/-- the columns after the epoch line of a kept record -/
def addEpoch (d : Cols) (e : Epoch) (clock : List (String × Rat)) : Cols :=
  clock.foldl (fun d (nq : String × Rat) => append d nq.1 (.num nq.2))
    (append (append d "system" (.str e.system)) "satellite" (.str e.sat))

/-- one record (its lines, in order) appended to the columns.
`v2sys = some s` selects the RINEX 2 epoch line. -/
def addRecord (T : Tables) (v2sys : Option Str) (st : St) (rec : List Str) : Option St :=
  match rec with
  | [] => some st
  | l1 :: rest =>
    match T.lines.find? (fun (l : LineDef) => l.num = 1) with
    | Option.none => some st
    | some ld1 =>
      match headOf v2sys (lineValues ld1 l1) with
      | Option.none => Option.none
      | some .skipHeaderLine => some st
      | some .skipSystem => some st
      | some (.ok e clock) =>
        (addLines T (addEpoch st.data e clock) ((List.range rest.length).zip rest)).map fun d => ⟨d, st.epochs ++ [e]⟩

/-- RINEX 3: a record ends before the next line that starts with a letter -/
def splitV3Aux : List Str → List Str → List (List Str)
  | [], cur => if cur.isEmpty then [] else [cur.reverse]
  | l :: rest, cur =>
    let cur' := l :: cur
    match rest with
    | [] => [cur'.reverse]
    | nxt :: _ => if (nxt.head?.map isAlpha).getD false then cur'.reverse :: splitV3Aux rest [] else splitV3Aux rest cur'

def splitV3 (lines : List Str) : List (List Str) := splitV3Aux lines []

/-- RINEX 2: eight lines per record -/
def splitV2 : Nat → List Str → List (List Str)
  | 0, _ => []
  | fuel + 1, lines => if lines.isEmpty then [] else lines.take 8 :: splitV2 fuel (lines.drop 8)

/-- header: lines up to and including the one with `END OF HEADER` in columns 60–72 -/
def splitHeader (lines : List Str) : List Str × List Str :=
  let isEnd := fun (l : Str) => Text.slice 60 73 (rstrip l) = "END OF HEADER".toList
  let h := lines.takeWhile (fun l => !isEnd l)
  (h ++ (lines.drop h.length).take 1, lines.drop (h.length + 1))

/-- `sat_sys` of the `RINEX VERSION / TYPE` header line (column 40); `_parse_string` overwrites `meta` for every such
line, so the last one of the header counts -/
def satSys (header : List Str) : Str :=
  match header.reverse.find? (fun l => strip ((rstrip l).drop 60) = "RINEX VERSION / TYPE".toList) with
  | some l => strip (Text.slice 40 41 (rstrip l))
  | Option.none => []

/-! ### post-processing -/

def cellNum : Cell → Option Rat
  | .num q => some q
  | _ => Option.none

def cellStr : Cell → Str
  | .str s => s
  | _ => []

/-- `_rename_fields_based_on_system` of rinex3_nav: one column per specific name, `None` for the
records of other systems; the general column disappears -/
def rename3 (names : SysNames) (d : Cols) : Option Cols :=
  names.foldlM (fun d (field, per) => do
    let sys ← col d "system"
    let vals ← col d field
    -- inverted mapping, in order of first appearance of the specific name
    let news : List String := per.foldl (fun acc (_, n) => if acc.contains n then acc else acc ++ [n]) []
    let d' := news.foldl (fun d n =>
      let systems := (per.filter (·.2 = n)).map (·.1)
      setCol d n ((sys.zip vals).map fun (s, v) => if systems.contains (asString (cellStr s)) then v else .none)) d
    pure (delCol d' field)) d

/-- rinex2_nav / rinex212_nav: rename in place for the one system of the file -/
def rename2 (names : SysNames) (system : String) (d : Cols) : Cols :=
  names.foldl (fun d (field, per) =>
    match col d field with
    | Option.none => d
    | some vals =>
      match per.find? (·.1 = system) with
      | Option.none => delCol d field
      | some (_, n) => if n = field then d else delCol (setCol d n vals) field) d

def week : Rat := 604800

/-- the instant `(week, seconds)` moved by whole weeks to the one closest to `toc` -/
def towards (toc t : Rat) : Rat := t - (roundHalfEven ((t - toc) / week) : Rat) * week

/-- `_time_system_correction`: record epoch, toe and transmission time on the GPS scale -/
def timeCorrection (T : Tables) (fileSys : String) (epochs : List Epoch) (d : Cols) : Option Cols := do
  if !(["C", "E", "G", "I", "J", "M"].contains fileSys) then Option.none
  let mixed := fileSys = "M" ∨ fileSys = "C"
  let sys ← col d "system"
  let toe ← col d "toe"
  let ttx ← col d "transmission_time"
  let wk ← col d "gnss_week"
  -- columns of different length (a kept record that lacks orbit lines): `Time(val, val2)` / the NumPy arithmetic of
  -- the week cross-over refuse arrays of different shape
  if !(toe.length = sys.length ∧ ttx.length = sys.length ∧ wk.length = sys.length ∧ epochs.length = sys.length) then Option.none
  let offS := fun (s : Cell) => if mixed then lookupI T.secOffset (asString (cellStr s)) else 0
  let offW := fun (s : Cell) => if mixed then lookupI T.weekOffset (asString (cellStr s)) else 0
  let toc : List Rat := (epochs.zip sys).map fun (e, s) => epochSeconds mixed e + offS s
  let shift := fun (vals : List Cell) => ((sys.zip vals).mapM fun (s, v) => (cellNum v).map fun q => q + offS s)
  let toe' ← shift toe
  let ttx' ← shift ttx
  let wk' ← (sys.zip wk).mapM fun (s, v) => (cellNum v).map fun q => q + offW s
  let inst := fun (secs : List Rat) => ((toc.zip (wk'.zip secs)).map fun (c, w, s) => Cell.time (towards c (w * week + s)))
  let d1 := setCol d "time" (toc.map Cell.time)
  let d2 := setCol d1 "gnss_week" (wk'.map Cell.num)
  pure (setCol (setCol d2 "toe" (inst toe')) "transmission_time" (inst ttx'))

def isIntegral (q : Rat) : Bool := q.den = 1

/-- `_determine_message_type` refuses GPS/QZSS records whose IODE is not integral (`log.fatal`) -/
def lnavOk (d : Cols) : Bool :=
  match col d "system", col d "iode" with
  | some sys, some iode =>
    (sys.zip iode).all fun (s, v) =>
      !(cellStr s = ['G'] || cellStr s = ['J']) || ((cellNum v).map isIntegral).getD true
  | _, _ => true

/-- the lines of the file as Python's text-mode iteration yields them (newline removed) -/
def textLines (text : Str) : List Str :=
  let lines := (splitOn '\n' text)
  match lines.reverse with | [] :: r => r.reverse | _ => lines

/-- RINEX 3, reading: header / data split, record splitting, one `addRecord` per record.
Result: the header's satellite-system letter and the columns with the record epochs. -/
def accumV3 (T : Tables) (text : Str) : Option (Str × St) := do
  let (header, body) := splitHeader (textLines text)
  let st ← (splitV3 body).foldlM (addRecord T Option.none) ⟨[], []⟩
  pure (satSys header, st)

/-- RINEX 3, post-processing of the columns: `_check_nav_message`, renaming, time-system correction,
`_determine_message_type` -/
def postV3 (T : Tables) (sys : Str) (st : St) : Option Cols := do
  if st.data.isEmpty then Option.none            -- `_check_nav_message`
  let d ← rename3 T.sysnames st.data
  let d ← timeCorrection T (asString sys) st.epochs d
  if lnavOk d then pure d else Option.none

/-- a whole RINEX 3 navigation file -/
def parseV3 (T : Tables) (text : Str) : Option Cols := do
  let (sys, st) ← accumV3 T text
  postV3 T sys st

/-- RINEX 2.x, reading: eight lines per record -/
def accumV2 (T : Tables) (system : String) (text : Str) : Option St :=
  let (_, body) := splitHeader (textLines text)
  (splitV2 body.length body).foldlM (addRecord T (some system.toList)) ⟨[], []⟩

def postV2 (T : Tables) (system : String) (st : St) : Option Cols := do
  if st.data.isEmpty then Option.none
  let d := rename2 T.sysnames system st.data
  let d ← timeCorrection T system st.epochs d
  if lnavOk d then pure d else Option.none

/-- a whole RINEX 2.x navigation file of system `system` (from the file name) -/
def parseV2 (T : Tables) (system : String) (text : Str) : Option Cols := do
  let st ← accumV2 T system text
  postV2 T system st

end Midgard.RinexNav
